/-
  C09 — small dense eigen-decompositions (TridiagEigen, UpperHessenbergSchur, UpperHessenbergEigen).

  The theorems are about the hand-written executable models `Model/TridiagEigen.lean`, `Model/HessSchur.lean`,
  `Model/HessEigen.lean` (the same text runs at `Float` in the driver and is compared bit-for-bit with the real classes).

  Proved here (all sizes, all inputs):
  * loop structure, with EVERY floating comparison an arbitrary boolean (any `Sc` instance, DESIGN §3.2):
    `c09_trideig_exit`, `c09_iteration_cap`, `c09_trideig_fuel`, `c09_schur_iteration_cap`, `c09_schur_exit`, `c09_schur_quasi_triangular`, `c09_hesseig_throw_iff`;
  * exact-arithmetic (ordered field) content of the pairing convention: `c09_conj_exact` (full strength: z > 0 for unsplit blocks), `c09_conj_blocks`, `c09_conj_unsplit_pos`, `c09_conj_kinds`,
    `c09_backsub_branch`, `c09_conj_scale`, `c09_conj_compute`, `c09_hesseig_zero`,
    `c09_cdiv_spec` (the `__divdc3` port is complex division), `c09_eigvec_unit` (normalisation is exact);
  * whole-run exact-arithmetic statement: `c09_trideig_orth` (ZᵀZ = I for ideal rotations, with `c09_givens_unit`),
    `c09_schur_orth` (UᵀU = I for ideal reflectors and rotations, with `c09_householder_ideal`);
  * ring identities: `c09_trideig_step`, `c09_trideig_step_GtTG`, `c09_trideig_step_Q`, `c09_rot_orth`,
    `c09_householder_apply_left/right`, `c09_householder_kernel`, `c09_wilkinson_shift`;
  * translator tie: `c09_wilkinson_gen` (hand model prologue = `Gen.Wilk.wilkinson_mu`, regenerated from the header every run).
  * whole-run similarity of `TridiagEigen::compute` in exact arithmetic (field instance, exact `sqrt`, all `n`, all inputs, every
    outcome of every comparison): `c09_trideig_decomp` / `c09_trideig_decomp_matrix`: `(T₀ − P) Z = Z diag(evals)` with `ZᵀZ = ZZᵀ = I`,
    `P` symmetric and `|Pᵢⱼ| ≤ 2·totalDrop` where `totalDrop` = `scale ·` Σ over all deflation passes of the magnitudes of the
    sub-diagonal entries the pass overwrote (`c09_trideig_deflate`: each was replaced by exactly `0` after passing the code's
    negligibility test on its current value); building blocks `c09_givens_annihilate`, `c09_trideig_qrstep_similarity` (one
    `tridiagonal_qr_step` is an orthogonal similarity that loses NO entry); corollaries `c09_trideig_exact` (`T₀ Z = Z D` exactly when
    the budget is `0`) and `c09_trideig_eigH_spec` (the `eig_spec` obligation of `C01E.ExactKernels` for `HermSolver.eigH`).
  * whole-run similarity of `UpperHessenbergSchur::compute` in exact arithmetic (field instance, exact `sqrt ≥ 0`, `min ≥ 0`, all `n`, all
    upper Hessenberg inputs, every run that returns normally): `c09_schur_similarity`: `Uᵀ H U = T + E`, `UᵀU = UUᵀ = 1`, `E` bounded (as a
    bilinear form on unit vectors, hence entrywise) by the explicit ghost budget `C09SS.schurDrop` = the sum over the run of the entries the
    algorithm overwrites with `0` or does not transform: the negligible sub-diagonal entries at 1x1 / 2x2 deflations, the first column of
    each sweep (`T(im, im−1)` is kept or only negated), the bulge entries of skipped / degenerate reflectors and of a skipped closing rotation;
    what the 2x2 standardisation and every applied ideal reflector / rotation overwrite are EXACT zeros.  `c09_schur_exact`: budget `0` ⇒
    `Uᵀ H U = T` and `H = U T Uᵀ` exactly.  Per-step structure (`T ← QᵀTQ − D`, `U ← UQ`, composed over the loop by induction on the
    iteration counter with the invariant `Uᵀ H U = T + ex·D_m + E`): `c09_schur_loop`, `c09_schur_step_reflector` (incl. the WINDOW
    argument), `c09_schur_step_francis`, `c09_schur_step_split`, `c09_schur_step_shift`, `c09_schur_budget`, `c09_schur_drop_reflector`,
    `c09_schur_drop_first_zero`, `c09_schur_drop_nonneg`; building blocks `c09_schur_similarity_partial_reflect/standardise/shift`.
    Machinery: `Proofs/C09SchurMat.lean` (matrices, budget), `C09SchurFn.lean` (windows, bulge pattern), `C09SchurArr.lean`,
    `C09SchurSweep.lean`, `C09SchurFrancis.lean`, `C09SchurDefl.lean`, `C09SchurMain.lean`.
    NOT proved for the Schur model: that `schurDrop = O(eps·‖H‖)` (each term passed a negligibility test or Wilkinson's start criterion,
    but the criterion-to-bound step and convergence are not formalised).
  * `UpperHessenbergEigen` on top of the Schur similarity (exact arithmetic): the reported eigenvalues are the eigenvalues of the diagonal
    blocks of `T` — every block left unsplit has a negative discriminant (loop invariant, `c09_schur_unsplit_negdisc`) and `block2` then
    returns the roots of its characteristic polynomial (`c09_hesseig_block_eigenvalues`, `c09_hesseig_eigenvalues`, `c09_hesseig_evok`);
    the back-substitution for a real eigenvalue solves `T y = λ y` exactly, 2x2 blocks by Cramer's rule, overflow rescaling included
    (`c09_hesseig_backsub_real`), the back transformation is `U y` (`c09_hesseig_backtransform`), hence for the whole
    `UpperHessenbergEigen::compute` `H x = λ x + scale·(U E) y` for every real pair without `w == 0` fallback
    (`c09_hesseig_real_eigvec_partial`); the complex-pair branch likewise solves `T y = (p − i q) y` exactly in (re, im) pairs
    (`c09_hesseig_backsub_cplx`), hence `H (xr + i xi) = λ (xr + i xi) + scale·(U E)(yr + i yi)` for every complex pair without
    `vr == vi == 0` fallback (`c09_hesseig_cplx_eigvec_partial`).  Machinery `Proofs/C09EigBlock.lean`, `C09EigReal.lean`, `C09EigBack.lean`,
    `C09EigCplx.lean`, `C09EigMain.lean`.
    NOT proved there: eigenvalues repeated in another diagonal block above (the code perturbs the zero divisor by `eps·norm` on purpose,
    so the exact statement is false there), the `tnorm == 0` exit, the composition with `eigenvectors()` (pairing + `normalize`).

  NOT proved (stated at full strength here, out of reach of this method — rounding and convergence):
    "T Z = Z diag(d), ZᵀZ = I, U T Uᵀ = H, ‖Hx − λx‖ small, all within a modest multiple of n·eps·norm" IN FLOATING POINT
    (the exact-arithmetic statement above bounds the defect of `T Z = Z D` by the dropped entries only; that the dropped entries
    are `O(eps·‖T‖)` and that rounding adds `O(n·eps·‖T‖)` is not proved) and
    "the QR iterations converge within the iteration limit".
  These clauses are checked only by the long-double oracle of `harness/c09.cpp` on the real classes.
-/
import SpectraVerif.Proofs.C09Lemmas
import SpectraVerif.Proofs.C09Step
import SpectraVerif.Proofs.C09House
import SpectraVerif.Proofs.C09Schur
import SpectraVerif.Proofs.C09Orth
import SpectraVerif.Proofs.C09Hess
import SpectraVerif.Proofs.C09Cdiv
import SpectraVerif.Proofs.C09OrthU
import SpectraVerif.Proofs.C09SimEig
import SpectraVerif.Proofs.C09SimU
import SpectraVerif.Proofs.C09SchurMain
import SpectraVerif.Proofs.C09EigMain
import SpectraVerif.Proofs.C09Reuse
import Mathlib.Analysis.Real.Sqrt
import SpectraVerif.Gen.Wilk

namespace C09
open Lin EigenPrims C09Lemmas

section loops
variable {α : Type} [Add α] [Sub α] [Mul α] [Div α] [Neg α] [Sc α]

/-- **Exit condition of `TridiagEigen::compute`.**  If the model returns normally then either the zero-matrix early exit was
    taken (`scale < near_0`: eigenvalues 0, eigenvectors I), or the main loop was left through `end <= 0` and in the final state
    EVERY sub-diagonal entry tests `== 0` (they were all explicitly set to 0 or found equal to 0), the returned eigenvalues are
    the final diagonal times `scale` and the eigenvectors the accumulated rotations. -/
theorem c09_trideig_exit (n : Nat) (d e : Vec α) (r : TridiagEigen.Decomp α)
    (h : TridiagEigen.compute n d e = Res.ok r) :
    (Sc.lt (TridiagEigen.scaleOf d e) (Sc.minPos * Sc.ofInt 10 : α) = true ∧ r.evals = vzero n ∧ r.evecs = Mat.identity n) ∨
    ((TridiagEigen.core n d e).exit = TridiagEigen.Exit.done ∧
      (∀ j, j < n - 1 → Sc.eq (vget (TridiagEigen.core n d e).sub j) (zero : α) = true) ∧
      r.evals = vscale (TridiagEigen.scaleOf d e) (TridiagEigen.core n d e).diag ∧
      r.evecs = (TridiagEigen.core n d e).q ∧ r.sub = (TridiagEigen.core n d e).sub) := by
  simp only [TridiagEigen.compute] at h
  split at h
  · rename_i hs
    left; cases h; exact ⟨hs, rfl, rfl⟩
  · split at h
    · rename_i hd
      right; cases h
      refine ⟨hd, ?_, rfl, rfl, rfl⟩
      simp only [TridiagEigen.core] at hd ⊢
      exact C09Loop.mainLoop_done n (n - 1) _ _ _ _ _ _ _ _ _ (fun j hj hb => by omega) hd
    · cases h

/-- the model's recursion budget is never the reason for leaving the loop (so `Exit.fuel` is unreachable and the model's
    `while` is the C++ `while`) -/
theorem c09_trideig_fuel (n : Nat) (d e : Vec α) : (TridiagEigen.core n d e).exit ≠ TridiagEigen.Exit.fuel := by
  simp only [TridiagEigen.core]
  exact C09Loop.mainLoop_fuel n _ _ _ _ _ _ _ _ _ (by omega) (by omega)

/-- **Iteration cap of `TridiagEigen::compute`.**  The model returns `throw runtime_error` if and only if the loop was left because
    `iter > 30 n` (and then indeed `30 n < iter`); in every other case it returns normally, and then `c09_trideig_exit` applies:
    wrong numbers are never returned *because the cap was hit*. -/
theorem c09_iteration_cap (n : Nat) (d e : Vec α) :
    ((∃ msg, TridiagEigen.compute n d e = Res.throw msg) ↔
      (Sc.lt (TridiagEigen.scaleOf d e) (Sc.minPos * Sc.ofInt 10 : α) = false ∧
       (TridiagEigen.core n d e).exit = TridiagEigen.Exit.capped)) ∧
    ((TridiagEigen.core n d e).exit = TridiagEigen.Exit.capped → 30 * n < (TridiagEigen.core n d e).iter) := by
  constructor
  · have hf := c09_trideig_fuel n d e
    simp only [TridiagEigen.compute]
    constructor
    · rintro ⟨msg, h⟩
      split at h
      · cases h
      · rename_i hs
        split at h
        · cases h
        · rename_i hd
          refine ⟨by simpa using hs, ?_⟩
          cases hx : (TridiagEigen.core n d e).exit <;> simp_all
    · rintro ⟨hs, hc⟩
      rw [if_neg (by simp [hs]), if_neg (by simp [hc])]
      exact ⟨_, rfl⟩
  · intro hc
    simp only [TridiagEigen.core] at hc ⊢
    exact C09Loop.mainLoop_capped n _ _ _ _ _ _ _ _ _ hc

/-- **Iteration cap of `UpperHessenbergSchur::compute`.**  The model returns normally iff the loop was left through `iu < 0`
    (or `norm == 0`), returns `throw` iff `total_iter > 40 n` stopped it, and its recursion budget is never exhausted. -/
theorem c09_schur_iteration_cap (n : Nat) (h : Mat α) :
    (HessSchur.core n h).exit ≠ HessSchur.Exit.fuel ∧
    ((∃ r, HessSchur.compute n h = Res.ok r) ↔ (HessSchur.core n h).exit = HessSchur.Exit.done) ∧
    ((∃ msg, HessSchur.compute n h = Res.throw msg) ↔ (HessSchur.core n h).exit = HessSchur.Exit.capped) ∧
    ((HessSchur.core n h).exit = HessSchur.Exit.capped → 40 * n < (HessSchur.core n h).total) := by
  have hf : (HessSchur.core n h).exit ≠ HessSchur.Exit.fuel := by
    simp only [HessSchur.core]
    split
    · exact C09LoopSchur.mainLoop_fuel n _ _ _ _ _ _ _ (by omega) (by omega)
    · simp
  refine ⟨hf, ?_, ?_, ?_⟩
  · simp only [HessSchur.compute]
    constructor
    · rintro ⟨r, hr⟩; split at hr
      · assumption
      · cases hr
    · intro hd; rw [if_pos hd]; exact ⟨_, rfl⟩
  · simp only [HessSchur.compute]
    constructor
    · rintro ⟨m, hm⟩; split at hm
      · cases hm
      · cases hx : (HessSchur.core n h).exit <;> simp_all
    · intro hc; rw [if_neg (by simp [hc])]; exact ⟨_, rfl⟩
  · intro hc
    simp only [HessSchur.core] at hc ⊢
    split at hc
    · rename_i hn; rw [if_pos hn]; exact C09LoopSchur.mainLoop_capped n _ _ _ _ _ _ _ hc
    · simp at hc

/-- **Exit condition of `UpperHessenbergSchur::compute`: block structure of the returned `T`.**  If the model returns normally on a
    well-formed `n × n` input then (unless `norm == 0`, where `T` is the untouched input) the returned `T` has NO TWO CONSECUTIVE
    non-zero sub-diagonal entries: for every `0 < i`, `i + 1 < n`, `T(i, i−1)` or `T(i+1, i)` is exactly the constant `0` the code
    assigned when it split off a 1x1 / 2x2 block — the sub-diagonal pattern of a quasi-upper-triangular matrix.  Proved for every
    scalar type and every outcome of every floating comparison (deflation tests, shift strategy, reflector guards are oracles):
    a loop invariant over the `while (iu >= 0)` loop plus the write footprint of every transformation (rows `> iu` are never
    written).  The entries BELOW the sub-diagonal are not covered: they stay 0 only up to the explicit clean-up of the Francis
    sweep and the Hessenberg shape of the input (checked by the oracle `schur-not-quasi-triangular`). -/
theorem c09_schur_exit (n : Nat) (h : Mat α) (hw : C09Mat.WF h) (hr : h.rows = n) (hc : h.cols = n) (r : HessSchur.Decomp α)
    (hok : HessSchur.compute n h = Res.ok r) :
    (Sc.ne (HessSchur.l1norm n h) (zero : α) = false ∧ r.t = h) ∨
    (∀ i, 0 < i → i + 1 < n → r.t.get i (i - 1) = (zero : α) ∨ r.t.get (i + 1) i = (zero : α)) :=
  C09Schur.compute_struct n h hw hr hc r hok

/-- **`UpperHessenbergSchur::compute` returns a quasi-upper-triangular `T`** (the discrete content of that clause of C09, at full
    strength): for every well-formed `n × n` upper Hessenberg input (entries strictly below the sub-diagonal exactly `0`), if the
    model returns normally then every entry of the returned `T` strictly below the sub-diagonal is exactly `0`, and (unless
    `norm == 0`, where `T` is the input) no two consecutive sub-diagonal entries are non-zero.  Every scalar type, every outcome
    of every floating comparison.  Proof: position-level write footprint of each reflector / rotation / shift (the only
    below-sub-diagonal positions a Francis sweep on the window `im..iu` writes are `(i, i−2)`, `(i, i−3)`, `im+2 ≤ i ≤ iu`) and the
    clean-up loop that zeroes exactly those positions.  That `U T Uᵀ = H` up to rounding is NOT proved (oracle `schur-residual`). -/
theorem c09_schur_quasi_triangular (n : Nat) (h : Mat α) (hw : C09Mat.WF h) (hr : h.rows = n) (hc : h.cols = n)
    (hH : C09Hess.Hess n h) (r : HessSchur.Decomp α) (hok : HessSchur.compute n h = Res.ok r) :
    C09Hess.Hess n r.t ∧
    ((Sc.ne (HessSchur.l1norm n h) (zero : α) = false ∧ r.t = h) ∨
     (∀ i, 0 < i → i + 1 < n → r.t.get i (i - 1) = (zero : α) ∨ r.t.get (i + 1) i = (zero : α))) :=
  C09Hess.compute_quasi n h hw hr hc hH r hok

/-- `UpperHessenbergEigen::compute` throws exactly when the input is not the zero matrix (`scale != 0`) and its Schur step throws
    (it adds no other non-normal exit). -/
theorem c09_hesseig_throw_iff (n : Nat) (h : Mat α) :
    (∃ msg, HessEigen.compute n h = Res.throw msg) ↔
    (Sc.eq (TridiagEigen.maxAbs1 h.d) (zero : α) = false ∧
     ∃ msg, HessSchur.compute n ⟨h.rows, h.cols, vdivs h.d (TridiagEigen.maxAbs1 h.d)⟩ = Res.throw msg) := by
  simp only [HessEigen.compute]
  by_cases hz : Sc.eq (TridiagEigen.maxAbs1 h.d) (zero : α) = true
  · rw [if_pos hz]
    constructor
    · rintro ⟨m, hm⟩; cases hm
    · rintro ⟨hf, _⟩; rw [hz] at hf; cases hf
  · rw [if_neg hz]
    constructor
    · rintro ⟨m, hm⟩
      refine ⟨by simpa using hz, ?_⟩
      split at hm
      · exact ⟨_, by assumption⟩
      · cases hm
    · rintro ⟨_, m, hm⟩; rw [hm]; exact ⟨_, rfl⟩

/-- **zero matrix (repair of F15)**: when `scale = max|a_ij|` tests `== 0`, `UpperHessenbergEigen::compute` returns normally with
    all eigenvalues `(0, 0)` and the identity as eigenvector storage — no division by `scale`, no Schur step (the unrepaired code
    divided by 0: `runtime_error` for `n ≥ 3`, NaN results for `n ≤ 2`). -/
theorem c09_hesseig_zero (n : Nat) (h : Mat α) (hz : Sc.eq (TridiagEigen.maxAbs1 h.d) (zero : α) = true) :
    HessEigen.compute n h = Res.ok ⟨n, Array.replicate n (zero, zero), Mat.identity n⟩ := by
  simp only [HessEigen.compute, if_pos hz]

end loops

section conj
variable {K : Type} [Field K] [LinearOrder K] [IsStrictOrderedRing K] (F : FieldFns K)

/-- **Exact pairing convention of the eigenvalue extraction, full strength** (UpperHessenbergEigen.h, after the repair of F20), exact
    arithmetic over any ordered field, `eps > 0`, `sqrt` ANY function: walking the block structure of `T` from row `i`, a row
    whose sub-diagonal entry below it is `0` (or the last row) emits `(T(i,i), 0)` — imaginary part exactly 0 — and a 2x2 block
    left UNSPLIT (`T(i+1,i) ≠ 0`) emits `(x, z)` then `(x, −z)` with `z > 0`: adjacent exact conjugates, STRICTLY positive
    imaginary part first.  Before the repair only `z ≥ 0` held and `z = 0` (scaled discriminant exactly 0) made both values look
    real while `T` kept its 2x2 block (finding F20). -/
theorem c09_conj_exact (heps : 0 < F.eps) (n : Nat) (t : Mat K) (fuel i : Nat) (hf : n ≤ i + fuel) :
    ConjBlocksAt F n t i (@HessEigen.extract K _ _ _ _ _ (scOfField F) n t fuel i) := extract_conjAt F heps n t fuel i hf

/-- the same without the structure: the list is a concatenation of `[(t, 0)]` and `[(x, z), (x, −z)]`, `z > 0`, for any fuel -/
theorem c09_conj_blocks (heps : 0 < F.eps) (n : Nat) (t : Mat K) (fuel i : Nat) :
    ConjBlocks (@HessEigen.extract K _ _ _ _ _ (scOfField F) n t fuel i) := extract_conj F heps n t fuel i

/-- **an unsplit block always yields a strictly positive imaginary part** (replaces `c09_conj_degenerate`): for `T(i+1,i) = c ≠ 0`
    and `eps > 0` the value `z` emitted by the repaired `compute()` is `> 0`, whatever the (scaled) discriminant and whatever
    `sqrt` returns: the guard `if (!(z > 0)) z = maxval * eps` decides, and `maxval ≥ |c| > 0`. -/
theorem c09_conj_unsplit_pos (heps : 0 < F.eps) (a b c d : K) (hc : c ≠ 0) :
    ∃ x z : K, 0 < z ∧ @HessEigen.block2 K _ _ _ _ _ (scOfField F) a b c d = ((x, z), (x, -z)) := block2_pos F heps a b c d hc

/-- **row kinds**: the sign of the emitted imaginary part is determined by the block structure of `T` alone — `= 0` exactly on the
    rows of 1x1 blocks, `> 0` on the first and `< 0` on the second row of every unsplit 2x2 block (`kinds` walks `T` only). -/
theorem c09_conj_kinds (heps : 0 < F.eps) (n : Nat) (t : Mat K) (fuel i : Nat) :
    List.Forall₂ kindSign (kinds F n t fuel i) (@HessEigen.extract K _ _ _ _ _ (scOfField F) n t fuel i) :=
  extract_kinds F heps n t fuel i

/-- **the back-substitution takes the complex branch for exactly the unsplit blocks**: at row `n` the loop of
    `doComputeEigenvectors` takes the real-eigenvalue branch iff the emitted imaginary part is `0`, the complex-pair branch
    (columns `n−1, n`) iff it is `< 0` (and `n > 0`), and skips the row iff it is `> 0`; by `c09_conj_kinds` these are exactly
    the rows of 1x1 blocks, the second rows and the first rows of the unsplit blocks. -/
theorem c09_backsub_branch (size : Nat) (norm : K) (ev : Vec (K × K)) (f n : Nat) (t : Mat K) :
    let _ : Sc K := scOfField F
    ((HessEigen.evGet ev n).2 = 0 →
      HessEigen.backSub size norm ev (f + 1) (n + 1) t =
        HessEigen.backSub size norm ev f n
          (HessEigen.realInner size n (HessEigen.evGet ev n).1 norm ev n ⟨zero, zero, n, t.set n n one⟩).t) ∧
    ((HessEigen.evGet ev n).2 < 0 → 0 < n → ∃ t', HessEigen.backSub size norm ev (f + 1) (n + 1) t =
        HessEigen.backSub size norm ev f (n - 1)
          (HessEigen.cplxInner size n (HessEigen.evGet ev n).1 (HessEigen.evGet ev n).2 norm ev (n - 1) ⟨zero, zero, zero, n - 1, t'⟩).t) ∧
    (0 < (HessEigen.evGet ev n).2 → HessEigen.backSub size norm ev (f + 1) (n + 1) t = HessEigen.backSub size norm ev f n t) :=
  backSub_dispatch F size norm ev f n t

/-- scaling back by a positive real (`m_eivalues *= scale`, performed as `complex * complex(scale, 0)`) keeps the exact zero,
    exact conjugacy and strict positivity — what `GenEigsBase::is_complex` / `is_conj` and the restart shift loop rely on -/
theorem c09_conj_scale (s : K) (hs : 0 < s) (l : List (K × K)) (h : ConjBlocks l) :
    ConjBlocks (l.map (fun z => @HessEigen.cmulReal K _ _ _ (scOfField F) z s)) := conj_scale F s hs l h

/-- hence the eigenvalues returned by the model of `UpperHessenbergEigen::compute` have the block shape with `z > 0`, for every
    input including the zero matrix (all `(0, 0)`) -/
theorem c09_conj_compute (heps : 0 < F.eps) (n : Nat) (h : Mat K) (r : HessEigen.Decomp K)
    (hr : @HessEigen.compute K _ _ _ _ _ (scOfField F) n h = Res.ok r) : ConjBlocks r.evals.toList :=
  compute_conj F heps n h r hr

/-- the hypotheses are satisfiable and the shape is not vacuous: a 1x1 block then a 2x2 block -/
example : ConjBlocks [((3 : ℚ), 0), (1, 2), (1, -2)] :=
  ConjBlocks.real 3 _ (ConjBlocks.pair 1 2 _ (by norm_num) ConjBlocks.nil)

/-- **the model's complex division (port of libgcc `__divdc3`) is complex division**: for `(c, d) ≠ (0, 0)` the returned `(x, y)`
    satisfies `(x + iy)(c + id) = a + ib`, in every scaling branch and for both orders of evaluation (field instance, `eps ≠ 0`).
    So the back-substitution of `doComputeEigenvectors` and `normalize()` divide by what the C++ text says they divide by. -/
theorem c09_cdiv_spec (heps : F.eps ≠ 0) (a b c d : K) (hcd : c ≠ 0 ∨ d ≠ 0) :
    let _ : Sc K := scOfField F
    (HessEigen.cdiv a b c d).1 * c - (HessEigen.cdiv a b c d).2 * d = a ∧
    (HessEigen.cdiv a b c d).1 * d + (HessEigen.cdiv a b c d).2 * c = b := C09Cdiv.cdiv_spec F heps a b c d hcd

/-- **unit norm is exact in exact arithmetic**: `col.normalize()` of `eigenvectors()` maps a complex column with squared norm
    `z > 0` (and `sqrt z · sqrt z = z`) to a column of squared norm exactly `1`.  (In floating point `|‖x‖ − 1| ≤ C n eps` is what
    the oracle `hesseig-unit` checks; the rounding bound is not proved.) -/
theorem c09_eigvec_unit (heps : F.eps ≠ 0) (c : Vec (K × K)) :
    let _ : Sc K := scOfField F
    0 < HessEigen.csqNorm c → F.sqrt (HessEigen.csqNorm c) * F.sqrt (HessEigen.csqNorm c) = HessEigen.csqNorm c →
      HessEigen.csqNorm (HessEigen.cnormalize c) = 1 := C09Cdiv.cnormalize_unit F heps c

end conj

section step
variable {K : Type} [Field K] [LinearOrder K] [IsStrictOrderedRing K] (F : FieldFns K)
open TridiagEigen C09Step

/-- **One Givens step of `tridiagonal_qr_step`, array level** (field instance; `c, s` = `makeGivens(x, z)`, any values).
    The model stores exactly: `diag[k], diag[k+1], subdiag[k]` = the 2x2 block of `GᵀTG`; `subdiag[k-1] = c·e − s·z` (when
    `k > start`); the new bulge `z' = −s·subdiag[k+1]` and `subdiag[k+1] = c·subdiag[k+1]` (when `k < end−1`); `x' = subdiag[k]`;
    every other entry of `diag`/`subdiag` is unchanged; `Q' = Q.applyOnTheRight(k, k+1, rot)`.
    `c09_trideig_step_GtTG` shows these are the entries of `GᵀTG`, `c09_trideig_step_Q` that `Q'` is `QG` entrywise. -/
theorem c09_trideig_step (n start end_ k : Nat) (st : QRSt K)
    (hd : k + 1 < st.diag.size) (hs : k < st.sub.size) (hs1 : k + 1 < end_ → k + 1 < st.sub.size) :
    let _ : Sc K := scOfField F
    let c := (makeGivens st.x st.z).c
    let s := (makeGivens st.x st.z).s
    let st' := qrBody n start end_ k st
    vget st'.diag k = c * c * vget st.diag k - 2 * c * s * vget st.sub k + s * s * vget st.diag (k + 1) ∧
    vget st'.diag (k + 1) = s * s * vget st.diag k + 2 * c * s * vget st.sub k + c * c * vget st.diag (k + 1) ∧
    vget st'.sub k = c * s * (vget st.diag k - vget st.diag (k + 1)) + (c * c - s * s) * vget st.sub k ∧
    (start < k → vget st'.sub (k - 1) = c * vget st.sub (k - 1) - s * st.z) ∧
    (k + 1 < end_ → st'.z = -(s * vget st.sub (k + 1)) ∧ vget st'.sub (k + 1) = c * vget st.sub (k + 1)) ∧
    (¬ k + 1 < end_ → st'.z = st.z) ∧
    st'.x = vget st'.sub k ∧
    (∀ j, j ≠ k → j ≠ k + 1 → vget st'.diag j = vget st.diag j) ∧
    (∀ j, j ≠ k → j + 1 ≠ k → j ≠ k + 1 → vget st'.sub j = vget st.sub j) ∧
    st'.q = applyOnTheRight st.q n k (k + 1) c s := qrBody_spec F n start end_ k st hd hs hs1

/-- the stored expressions ARE the entries of `GᵀTG` (any commutative ring, any `c, s`): `T` symmetric tridiagonal with diagonal
    `d`, sub-diagonal `e` and, after the first rotation, the bulge `z` at `(m+2, m)`; `G` the rotation in the plane `(k, k+1)`.
    The entry `(m+2, m) = s·e_m + c·z` is the one the code does not store: it is `0` for an ideal rotation (`makeGivens`
    annihilates it in exact arithmetic) — that, like `c² + s² = 1`, needs the exact `sqrt` and is not claimed here. -/
theorem c09_trideig_step_GtTG {R : Type} [CommRing R] (d e : Nat → R) (m : Nat) (z c s : R) :
    (conjG (bandT d e none 0) m c s m m = c * c * d m - 2 * c * s * e m + s * s * d (m + 1) ∧
     conjG (bandT d e none 0) m c s (m + 1) (m + 1) = s * s * d m + 2 * c * s * e m + c * c * d (m + 1) ∧
     conjG (bandT d e none 0) m c s (m + 1) m = c * s * (d m - d (m + 1)) + (c * c - s * s) * e m ∧
     conjG (bandT d e none 0) m c s (m + 2) m = -(s * e (m + 1)) ∧
     conjG (bandT d e none 0) m c s (m + 2) (m + 1) = c * e (m + 1)) ∧
    (conjG (bandT d e (some m) z) (m + 1) c s (m + 1) (m + 1) = c * c * d (m + 1) - 2 * c * s * e (m + 1) + s * s * d (m + 2) ∧
     conjG (bandT d e (some m) z) (m + 1) c s (m + 2) (m + 2) = s * s * d (m + 1) + 2 * c * s * e (m + 1) + c * c * d (m + 2) ∧
     conjG (bandT d e (some m) z) (m + 1) c s (m + 2) (m + 1) = c * s * (d (m + 1) - d (m + 2)) + (c * c - s * s) * e (m + 1) ∧
     conjG (bandT d e (some m) z) (m + 1) c s (m + 1) m = c * e m - s * z ∧
     conjG (bandT d e (some m) z) (m + 1) c s (m + 2) m = s * e m + c * z ∧
     conjG (bandT d e (some m) z) (m + 1) c s (m + 3) (m + 1) = -(s * e (m + 2)) ∧
     conjG (bandT d e (some m) z) (m + 1) c s (m + 3) (m + 2) = c * e (m + 2)) :=
  ⟨conjG_band_first d e m c s, conjG_band_next d e m z c s⟩

/-- `Q.applyOnTheRight(p, q, rot)` is `QG` entrywise on the first `nrow` rows (field instance, including Eigen's early exit
    for the identity rotation): column `p` ↦ `c·col_p − s·col_q`, column `q` ↦ `s·col_p + c·col_q`, all else unchanged. -/
theorem c09_trideig_step_Q (m : Mat K) (h : C09Mat.WF m) (nrow p q : Nat) (c s : K) (hpq : p ≠ q)
    (hpc : p < m.cols) (hqc : q < m.cols) (hn : nrow ≤ m.rows) (i j : Nat) (hi : i < m.rows) :
    let _ : Sc K := scOfField F
    (applyOnTheRight m nrow p q c s).get i j =
      if i < nrow then (if j = p then c * m.get i p - s * m.get i q else if j = q then s * m.get i p + c * m.get i q else m.get i j)
      else m.get i j := C09Mat.applyOnTheRight_get F m h nrow p q c s hpq hpc hqc hn i j hi

/-- a plane rotation with `c² + s² = 1` preserves orthonormality of the columns: if `QᵀQ = I` then `(QG)ᵀ(QG) = I`
    (any commutative ring, any number of rows `n`, `mulG Q k c s = QG`). -/
theorem c09_rot_orth {R : Type} [CommRing R] (n k : Nat) (Q : Nat → Nat → R) (c s : R) (hcs : c * c + s * s = 1)
    (horth : ∀ a b, (Finset.range n).sum (fun i => Q i a * Q i b) = if a = b then 1 else 0) (a b : Nat) :
    (Finset.range n).sum (fun i => mulG Q k c s i a * mulG Q k c s i b) = if a = b then 1 else 0 :=
  C09Gram.gram_rot n k Q c s hcs horth a b

/-- the hypothesis `c² + s² = 1` is satisfiable -/
example : ((3 : ℚ) / 5) * (3 / 5) + (4 / 5) * (4 / 5) = 1 := by norm_num

/-- **Wilkinson shift of `tridiagonal_qr_step`** (hand model `TridiagEigen.wilkinsonMu`, field instance): with `td = (a − b)/2`
    the guarded formula is `b − |e|` for `td = 0`, `b` for `e = 0`, and otherwise — in BOTH the `e² == 0` (underflow-safe) and the
    ordinary branch — equals `b − e² / (td + sign(td)·hypot(td, e))` whenever that denominator is non-zero. -/
theorem c09_wilkinson_shift (a b e : K) :
    let _ : Sc K := scOfField F
    let td := (a - b) * (TridiagEigen.half : K)
    let h := hypot td e
    let D := td + (if 0 < td then h else -h)
    (td = 0 → wilkinsonMu a b e = b - |e|) ∧
    (td ≠ 0 → e = 0 → wilkinsonMu a b e = b) ∧
    (td ≠ 0 → e ≠ 0 → D ≠ 0 → wilkinsonMu a b e = b - e * e / D) := wilkinson_spec F a b e

/-- an ideal rotation: with an exact square root (`sqrt x · sqrt x = x` for `x ≥ 0`) Eigen's `makeGivens` returns `c² + s² = 1`
    in all four branches (field instance) -/
theorem c09_givens_unit (hs : ∀ x : K, 0 ≤ x → F.sqrt x * F.sqrt x = x) (p q : K) :
    let _ : Sc K := scOfField F
    (makeGivens p q).c * (makeGivens p q).c + (makeGivens p q).s * (makeGivens p q).s = 1 := C09Orth.makeGivens_unit F hs p q

/-- **`ZᵀZ = I` for the whole run of the TridiagEigen model, in exact arithmetic**: for every size `n ≥ 1`, every input, and every
    outcome of the deflation / shift / loop tests, if the model returns normally then the returned eigenvector matrix is a
    well-formed `n × n` matrix with orthonormal columns (`Σ_i Z(i,a) Z(i,b) = δ_ab`).  This is the `ZᵀZ = I` clause of C09 for ideal
    rotations; in floating point the rotations are unit only up to rounding, and the accumulated defect (≤ C n eps) is what the
    oracle `trideig-orth` measures — the rounding bound itself is not proved. -/
theorem c09_trideig_orth (hs : ∀ x : K, 0 ≤ x → F.sqrt x * F.sqrt x = x) (n : Nat) (hn : 0 < n) (d e : Vec K)
    (r : TridiagEigen.Decomp K) (hok : @TridiagEigen.compute K _ _ _ _ _ (scOfField F) n d e = Res.ok r) :
    C09Orth.ColsOrth F n r.evecs :=
  C09Orth.compute_orth F (fun p q => C09Orth.makeGivens_unit F hs p q) n hn d e r hok

/-- the hypothesis on `sqrt` is satisfiable (e.g. by `Real.sqrt`; here: a function that is exact on the two values it is asked) -/
example : ∃ f : ℚ → ℚ, f 4 * f 4 = 4 ∧ f 0 * f 0 = 0 := ⟨fun x => x / 2, by norm_num, by norm_num⟩

/-- an ideal reflector: with an exact non-negative square root (and `minPos ≥ 0`) Eigen's `makeHouseholder` returns `τ = 0` or
    `τ (1 + v1² + v2²) = 2`, in one formula `τ (τ vᵀv − 2) = 0`: `P = I − τ v vᵀ` is orthogonal (field instance) -/
theorem c09_householder_ideal (hs : ∀ x : K, 0 ≤ x → F.sqrt x * F.sqrt x = x) (hs0 : ∀ x : K, 0 ≤ F.sqrt x) (hmin : 0 ≤ F.minPos)
    (c0 t1 t2 : K) :
    let _ : Sc K := scOfField F
    (HessSchur.makeHouseholder c0 t1 t2).tau * ((HessSchur.makeHouseholder c0 t1 t2).tau *
      (1 + (HessSchur.makeHouseholder c0 t1 t2).v1 * (HessSchur.makeHouseholder c0 t1 t2).v1 +
        (HessSchur.makeHouseholder c0 t1 t2).v2 * (HessSchur.makeHouseholder c0 t1 t2).v2) - 2) = 0 :=
  C09OrthU.makeHouseholder_ideal F hs hs0 hmin c0 t1 t2

/-- **`UᵀU = I` for the whole run of the UpperHessenbergSchur model, in exact arithmetic**: for every size, every input and every
    outcome of the deflation / shift / guard tests (including the exceptional shifts), if the model returns normally then the
    returned `U` is a well-formed `n × n` matrix with orthonormal columns.  (Rounding defect `≤ C n eps`: oracle `schur-orth`.) -/
theorem c09_schur_orth (hs : ∀ x : K, 0 ≤ x → F.sqrt x * F.sqrt x = x) (hs0 : ∀ x : K, 0 ≤ F.sqrt x) (hmin : 0 ≤ F.minPos)
    (n : Nat) (h : Mat K) (r : HessSchur.Decomp K) (hok : @HessSchur.compute K _ _ _ _ _ (scOfField F) n h = Res.ok r) :
    C09Orth.ColsOrth F n r.u :=
  C09OrthU.compute_orthU F (fun p q => C09Orth.makeGivens_unit F hs p q)
    (fun c0 t1 t2 => C09OrthU.makeHouseholder_ideal F hs hs0 hmin c0 t1 t2) n h r hok

end step

section similarity
variable {K : Type} [Field K] [LinearOrder K] [IsStrictOrderedRing K] (F : FieldFns K)
open TridiagEigen Finset
open scoped Matrix

/-- `makeGivens(p, q)` annihilates: `s·p + c·q = 0` in all four branches (field instance, ANY `sqrt`): the bulge entry
    `(m+2, m) = s·e_m + c·z` of `c09_trideig_step_GtTG`, which the code does not store, is exactly `0`. -/
theorem c09_givens_annihilate (p q : K) :
    let _ : Sc K := scOfField F
    (makeGivens p q).s * p + (makeGivens p q).c * q = 0 := C09Sim.makeGivens_annih F p q

/-- **One `tridiagonal_qr_step` is an orthogonal similarity that loses no entry** (exact arithmetic, exact `sqrt`).  `TInv F n X d s q`
    says: `d`, `s` have sizes `n`, `n−1`, `q` is a well-formed `n × n` matrix with orthonormal columns and
    `Qᵀ X Q = tridiag(d, s)` (Mathlib matrices, `C09Sim.mat n` = leading `n × n` block of an entry function).  If the window
    `[start, end]` is decoupled (`sub[start−1] = 0` unless `start = 0`, `sub[end] = 0`) the same holds after the step: each rotation's
    bulge is annihilated exactly by the next one (`c09_givens_annihilate`) and the last rotation creates none. -/
theorem c09_trideig_qrstep_similarity (hs : ∀ x : K, 0 ≤ x → F.sqrt x * F.sqrt x = x) (n start end_ : Nat)
    (X : Matrix (Fin n) (Fin n) K) (d s : Vec K) (q : Mat K) (h : C09Sim.TInv F n X d s q) (hse : start ≤ end_) (hend : end_ < n)
    (e1 : ∀ m, m + 1 = start → @vget K (scOfField F) s m = 0) (e2 : @vget K (scOfField F) s end_ = 0) :
    C09Sim.TInv F n X (@qrStep K _ _ _ _ _ (scOfField F) n start end_ d s q).diag
      (@qrStep K _ _ _ _ _ (scOfField F) n start end_ d s q).sub (@qrStep K _ _ _ _ _ (scOfField F) n start end_ d s q).q :=
  C09Sim.qrStep_sim F (fun p q => C09Orth.makeGivens_unit F hs p q) n start end_ X d s q h hse hend e1 e2

/-- **What a deflation pass drops** (field instance): every sub-diagonal entry is either unchanged or replaced by exactly `0`, and in
    the latter case its CURRENT value passed the code's test `|eⱼ| ≤ considerAsZero ∨ (precision_inv·eⱼ)² ≤ |dⱼ| + |dⱼ₊₁|`. -/
theorem c09_trideig_deflate (caz pinv : K) (start end_ : Nat) (d s : Vec K) (hsz : end_ ≤ s.size) (j : Nat) :
    let _ : Sc K := scOfField F
    vget (deflatePass caz pinv start end_ d s) j = vget s j ∨
      (vget (deflatePass caz pinv start end_ d s) j = 0 ∧ start ≤ j ∧ j < end_ ∧
        (|vget s j| ≤ caz ∨ (pinv * vget s j) * (pinv * vget s j) ≤ |vget d j| + |vget d (j + 1)|)) :=
  C09Sim.deflatePass_cases F caz pinv start end_ d s hsz j

/-- **`c09_trideig_decomp`: whole-run decomposition of `TridiagEigen::compute` in exact arithmetic** (field instance, exact `sqrt`,
    `min > 0`), for every `n ≥ 1`, every input `(d, e)` of the right sizes and EVERY outcome of the deflation / shift / loop tests.
    If the model returns normally with eigenvalues `λ` and eigenvectors `Z` then there is a SYMMETRIC perturbation `P` with
      `(T₀ − P) Z = Z diag(λ)`   (both orders of the right-hand product are given),
    `T₀ = tridiag(d, e)`, and `|Pᵢⱼ| ≤ 2 · totalDrop` where `C09Sim.totalDrop` is the run's perturbation budget: `scale ·` the sum, over
    all deflation passes of the run, of `Σₖ |old subₖ − new subₖ|` (ghost recursion `C09Sim.mainLoopDrop` mirroring the main loop; by
    `c09_trideig_deflate` each non-zero term is the magnitude of an entry that passed the negligibility test when it was dropped);
    in the tiny-matrix early exit (`scale < 10·min`, result `λ = 0`, `Z = I`) the budget is `Σ|dₖ| + Σ|eₖ|`.
    Together with `c09_trideig_orth` (`ZᵀZ = I`) this is `T₀ = Z D Zᵀ + P`: the columns of `Z` are EXACT orthonormal eigenvectors of
    a matrix within `2·totalDrop` (entrywise) of the input.  Not proved: that `totalDrop = O(eps·‖T₀‖)`, and rounding. -/
theorem c09_trideig_decomp (hs : ∀ x : K, 0 ≤ x → F.sqrt x * F.sqrt x = x) (hmin : 0 < F.minPos) (n : Nat) (hn : 0 < n)
    (d e : Vec K) (hd : d.size = n) (he : e.size = n - 1) (r : TridiagEigen.Decomp K)
    (hok : @TridiagEigen.compute K _ _ _ _ _ (scOfField F) n d e = Res.ok r) :
    let _ : Sc K := scOfField F
    ∃ P : ℕ → ℕ → K, (∀ i j, P i j = P j i) ∧ (∀ i j, i < n → j < n → |P i j| ≤ 2 * C09Sim.totalDrop F n d e) ∧
      (∀ i j, i < n → j < n →
        ∑ a ∈ range n, (C09Sim.tridiag (vget d) (vget e) i a - P i a) * r.evecs.get a j = r.evecs.get i j * vget r.evals j) ∧
      (∀ i j, i < n → j < n →
        ∑ a ∈ range n, (C09Sim.tridiag (vget d) (vget e) i a - P i a) * r.evecs.get a j = vget r.evals j * r.evecs.get i j) :=
  C09Sim.compute_decomp F (fun p q => C09Orth.makeGivens_unit F hs p q) hmin n hn d e hd he r hok

/-- the same as Mathlib matrices, with both orthogonality statements: `(T₀ − P) Z = Z D`, `ZᵀZ = 1`, `ZZᵀ = 1`, `Pᵀ = P` -/
theorem c09_trideig_decomp_matrix (hs : ∀ x : K, 0 ≤ x → F.sqrt x * F.sqrt x = x) (hmin : 0 < F.minPos) (n : Nat) (hn : 0 < n)
    (d e : Vec K) (hd : d.size = n) (he : e.size = n - 1) (r : TridiagEigen.Decomp K)
    (hok : @TridiagEigen.compute K _ _ _ _ _ (scOfField F) n d e = Res.ok r) :
    ∃ P : Matrix (Fin n) (Fin n) K, Pᵀ = P ∧ (∀ i j, |P i j| ≤ 2 * C09Sim.totalDrop F n d e) ∧
      (C09Sim.mat n (C09Sim.band (@vget K (scOfField F) d) (@vget K (scOfField F) e) 0 0) - P) *
          C09Sim.mat n (fun i j => @Mat.get K (scOfField F) r.evecs i j) =
        C09Sim.mat n (fun i j => @Mat.get K (scOfField F) r.evecs i j) *
          Matrix.diagonal (fun i : Fin n => @vget K (scOfField F) r.evals i.val) ∧
      (C09Sim.mat n (fun i j => @Mat.get K (scOfField F) r.evecs i j))ᵀ * C09Sim.mat n (fun i j => @Mat.get K (scOfField F) r.evecs i j) = 1 ∧
      C09Sim.mat n (fun i j => @Mat.get K (scOfField F) r.evecs i j) * (C09Sim.mat n (fun i j => @Mat.get K (scOfField F) r.evecs i j))ᵀ = 1 :=
  C09Sim.compute_sim F (fun p q => C09Orth.makeGivens_unit F hs p q) hmin n hn d e hd he r hok

/-- the perturbation budget is a sum of magnitudes -/
theorem c09_trideig_drop_nonneg (n : Nat) (caz pinv : K) (f end_ start iter : Nat) (d s : Vec K) (q : Mat K) :
    0 ≤ C09Sim.mainLoopDrop F n caz pinv f end_ start iter d s q := C09Sim.mainLoopDrop_nonneg F n caz pinv f end_ start iter d s q

/-- **exact corollary**: when the budget is `0` (every deflation only overwrote entries that already were `0`, and the tiny-matrix
    exit was not taken on a non-zero input) `T₀ Z = Z D` EXACTLY: column `j` of `Z` is an eigenvector of `T₀` for `λⱼ`. -/
theorem c09_trideig_exact (hs : ∀ x : K, 0 ≤ x → F.sqrt x * F.sqrt x = x) (hmin : 0 < F.minPos) (n : Nat) (hn : 0 < n)
    (d e : Vec K) (hd : d.size = n) (he : e.size = n - 1) (r : TridiagEigen.Decomp K)
    (hok : @TridiagEigen.compute K _ _ _ _ _ (scOfField F) n d e = Res.ok r) (h0 : C09Sim.totalDrop F n d e = 0) :
    let _ : Sc K := scOfField F
    ∀ i j, i < n → j < n →
      ∑ a ∈ range n, C09Sim.tridiag (vget d) (vget e) i a * r.evecs.get a j = vget r.evals j * r.evecs.get i j :=
  C09Sim.compute_exact F (fun p q => C09Orth.makeGivens_unit F hs p q) hmin n hn d e hd he r hok h0

/-- the zero-budget hypothesis of `c09_trideig_exact` is satisfiable: for `n = 1` (no sub-diagonal) the budget is `0` whenever the
    tiny-matrix exit is not taken -/
example (d e : Vec K)
    (h : @Sc.lt K (scOfField F) (@TridiagEigen.scaleOf K (scOfField F) d e) (@Sc.minPos K (scOfField F) * @Sc.ofInt K (scOfField F) 10) = false) :
    C09Sim.totalDrop F 1 d e = 0 := by
  simp only [C09Sim.totalDrop, h, C09Sim.coreDrop]
  simp [C09Sim.mainLoopDrop]

/-- **the `eig_spec` obligation of `C01E.ExactKernels` (Proofs/C01Exact.lean) discharged for `HermSolver.eigH`** under the exact
    idealisation (exact `sqrt`, zero perturbation budget): for every returned column `y = cols[j]`, `H y = θ y` with `H` the symmetric
    tridiagonal matrix read from the factorization (`H(i,i)`, `H(i+1,i)`), `θ = evals[j]`, and `lastRow[j]` is the last coordinate of
    `y` — with `vec y a := vget y a`, `val := id`, `est := id`, `(abs fac).H := tridiag …` this is the field `eig_spec` verbatim. -/
theorem c09_trideig_eigH_spec (hs : ∀ x : K, 0 ≤ x → F.sqrt x * F.sqrt x = x) (hmin : 0 < F.minPos) (ncv : Nat) (hn : 0 < ncv)
    (st : Arnoldi.State K) (evals lastRow : List K) (cols : List (Vec K))
    (h : @HermSolver.eigH K _ _ _ _ _ (scOfField F) ncv st = .ok (evals, lastRow, cols))
    (h0 : C09Sim.totalDrop F ncv (vofFn ncv (fun i => @Mat.get K (scOfField F) st.H i i))
      (vofFn (ncv - 1) (fun i => @Mat.get K (scOfField F) st.H (i + 1) i)) = 0) :
    let _ : Sc K := scOfField F
    ∀ j, j < ncv →
      (∀ i, i < ncv → ∑ a ∈ range ncv, C09Sim.tridiag (fun i => st.H.get i i) (fun i => st.H.get (i + 1) i) i a *
            vget (cols.getD j (vzero ncv)) a = evals.getD j zero * vget (cols.getD j (vzero ncv)) i) ∧
      lastRow.getD j zero = vget (cols.getD j (vzero ncv)) (ncv - 1) :=
  C09Sim.eigH_spec F (fun p q => C09Orth.makeGivens_unit F hs p q) hmin ncv hn st evals lastRow cols h h0

end similarity

section schur_similarity
variable {K : Type} [Field K] [LinearOrder K] [IsStrictOrderedRing K] (F : FieldFns K)
open HessSchur

/-- **building block of `c09_schur_similarity` (1/3): an ideal reflector reflects.**  With an exact non-negative `sqrt`, either
    `makeHouseholder(c0, t1, t2)` took its degenerate exit (`t1² + t2² ≤ min`: `τ = 0`, `β = c0`, the tail is treated as `0` — a
    dropped quantity), or `P (c0, t1, t2)ᵀ = (β, 0, 0)ᵀ` EXACTLY for `P = I − τ v vᵀ`: after `T(k, k−1) = β` the two entries below it,
    which `perform_francis_qr_step` leaves in place and zeroes in its clean-up loop, are exact zeros of `Pᵀ T P`.
    (Building block of the whole-run statement `c09_schur_similarity` below.) -/
theorem c09_schur_similarity_partial_reflect (hs : ∀ x : K, 0 ≤ x → F.sqrt x * F.sqrt x = x) (hs0 : ∀ x : K, 0 ≤ F.sqrt x)
    (hmin : 0 ≤ F.minPos) (c0 t1 t2 : K) :
    let _ : Sc K := scOfField F
    (t1 * t1 + t2 * t2 ≤ F.minPos ∧ (makeHouseholder c0 t1 t2).tau = 0 ∧ (makeHouseholder c0 t1 t2).beta = c0) ∨
    hhKernel (makeHouseholder c0 t1 t2).v1 (makeHouseholder c0 t1 t2).v2 (makeHouseholder c0 t1 t2).tau c0 t1 t2 =
      ((makeHouseholder c0 t1 t2).beta, 0, 0) := C09SimU.makeHouseholder_reflects F hs hs0 hmin c0 t1 t2

/-- **partial (2/3): the standardisation rotation of `split_off_two_rows` annihilates `T(iu, iu−1)` exactly.**  For the trailing
    2x2 block `[[a, b], [y, d]]` with `p = (a − d)/2`, `q = p² + y·b ≥ 0`, the rotation `makeGivens(p ± √|q|, y)` applied as the code
    applies it (`applyOnTheLeft(adjoint)` on the rows, `applyOnTheRight` on the columns) produces the `(2,1)` entry
    `c·(s·a + c·y) − s·(s·b + c·d) = 0`: the explicit `T(iu, iu−1) = 0` overwrites an exact zero. -/
theorem c09_schur_similarity_partial_standardise (hs : ∀ x : K, 0 ≤ x → F.sqrt x * F.sqrt x = x) (hs0 : ∀ x : K, 0 ≤ F.sqrt x)
    (a b y d : K) (hq : 0 ≤ (1 / 2 * (a - d)) * (1 / 2 * (a - d)) + y * b) :
    let _ : Sc K := scOfField F
    let p : K := 1 / 2 * (a - d)
    let z := F.sqrt |p * p + y * b|
    let rot := makeGivens (if 0 ≤ p then p + z else p - z) y
    rot.c * (rot.s * a + rot.c * y) - rot.s * (rot.s * b + rot.c * d) = 0 := C09SimU.standardise_zero F hs hs0 a b y d hq

/-- `RealScalar(0.5)` of the model is `1/2` in the field instance (ties `p` above to the model's `half * (…)`) -/
theorem c09_half (F : FieldFns K) : (@TridiagEigen.half K (scOfField F)) = 1 / 2 := C09SimU.half_eq F

/-- **partial (3/3): the exceptional shifts are consistent.**  `compute_shift(iu, iter, ex_shift)` returns `(T', ex')` with
    `T' + ex'·D = T + ex·D` ENTRYWISE, `D` = identity on the active rows `0..iu`, whichever exceptional shift (iteration 10, 30)
    fired: what is subtracted from the diagonal of the active window is added to `ex_shift` (and added back by the deflation
    branches `T(iu,iu) += ex_shift`). -/
theorem c09_schur_similarity_partial_shift (t : Mat K) (h : @C09Mat.WF K t) (iu iter : Nat) (ex : K) (hr : iu < t.rows) (hc : iu < t.cols) :
    let _ : Sc K := scOfField F
    ∀ i j, i < t.rows →
      (computeShift iu iter ex t).1.get i j + (if i = j ∧ i ≤ iu then (computeShift iu iter ex t).2.1 else 0) =
        t.get i j + (if i = j ∧ i ≤ iu then ex else 0) := (C09SimU.computeShift_shifted F t h iu iter ex hr hc).2.2.2

end schur_similarity

section deflation_test
variable {α : Type} [Add α] [Sub α] [Mul α] [Div α] [Neg α] [Sc α]

/-- **the sub-diagonal entries a deflation drops passed the code's negligibility test** (any scalar type): `find_small_subdiag(iu)` returns
    `il` with `il = 0` or `|T(il, il−1)| ≤ max(eps·(|T(il−1,il−1)| + |T(il,il)|), near_0)` tested true.  The 1x1 deflation (`il = iu`) drops
    exactly `T(il, il−1)`, the 2x2 split (`il = iu − 1`) drops exactly `T(il, il−1)`, and a Francis sweep starting at `im = il` leaves exactly
    this entry untransformed: the terms (a) and the `im = il` case of (b) of the budget of `c09_schur_similarity` are each at most this
    threshold times the explicit factors there. -/
theorem c09_schur_deflation_negligible (t : Mat α) (near0 : α) (iu : Nat) :
    HessSchur.findSmallSubdiag t near0 iu = 0 ∨
      Sc.le (Sc.abs (t.get (HessSchur.findSmallSubdiag t near0 iu) (HessSchur.findSmallSubdiag t near0 iu - 1)))
        (HessSchur.maxi ((Sc.abs (t.get (HessSchur.findSmallSubdiag t near0 iu - 1) (HessSchur.findSmallSubdiag t near0 iu - 1)) +
          Sc.abs (t.get (HessSchur.findSmallSubdiag t near0 iu) (HessSchur.findSmallSubdiag t near0 iu))) * Sc.eps) near0) = true :=
  C09SS.findSmallSubdiag_spec t near0 iu

end deflation_test

section schur_whole_run
variable {K : Type} [Field K] [LinearOrder K] [IsStrictOrderedRing K] (F : FieldFns K)
open HessSchur C09SS C09Sim
open scoped Matrix

/-- **`c09_schur_similarity`: whole-run similarity of `UpperHessenbergSchur::compute` in exact arithmetic** (field instance
    `scOfField F`, exact non-negative `sqrt`, `min ≥ 0`), for EVERY size `n`, EVERY well-formed `n × n` upper Hessenberg input `H` and
    EVERY run that returns normally (every outcome of the deflation tests, the shift strategy incl. the exceptional shifts at
    iterations 10/30, the start row `im` of each sweep, the reflector/rotation guards).  With `U = matrix_U()`, `T = matrix_T()` as
    Mathlib matrices (`C09Sim.mat n (C09SS.gf F m)` = the `n × n` matrix of the entries `m(i,j)`):
      `Uᵀ · H · U = T + E`,   `UᵀU = UUᵀ = 1`,
    where the error term `E` is bounded, as a bilinear form on vectors of Euclidean norm `≤ 1` (spectral norm) and hence entrywise,
    by the explicit ghost budget `C09SS.schurDrop F n H` = the SUM OVER THE RUN of (`C09SS.mainLoopDrop`, `performFrancisDrop`, `francisDrop`):
      (a) `|T(iu, iu−1)|` at each 1x1 deflation and `|T(iu−1, iu−2)|` at each 2x2 split — the sub-diagonal entries the code judged
          negligible and overwrote with `0`;
      (b) per Francis sweep, first column: `‖P·(x,0,0)ᵀ − (±x,0,0)ᵀ‖₁`, `x = T(im, im−1)` — the code does not transform column `im−1`
          (it keeps `x` when `im = il`, where `x` is the negligible entry found by `find_small_subdiag`, and only negates it when
          `im > il`, Wilkinson's two-small-sub-diagonals start); `0` when `x = 0` (`c09_schur_drop_first_zero`);
      (c) per later reflector: `0` when it is applied and `makeHouseholder` is non-degenerate (`P v = β e₁` exactly), else the two bulge
          entries `|T(k+1,k−1)| + |T(k+2,k−1)|` that the clean-up loop zeroes (skipped reflector `|β| ≤ near_0`, or degenerate exit
          `t1² + t2² ≤ min`) (`c09_schur_drop_reflector`);
      (d) `|T(iu, iu−2)|` when the closing rotation is skipped (`|r| ≤ near_0`).
    What the 2x2 standardisation and the applied closing rotation overwrite with `0` are EXACT zeros (no contribution).
    NOT proved: that the budget is `O(eps·‖H‖)` (needs the convergence analysis), rounding. -/
theorem c09_schur_similarity (hs : ∀ x : K, 0 ≤ x → F.sqrt x * F.sqrt x = x) (hs0 : ∀ x : K, 0 ≤ F.sqrt x) (hmin : 0 ≤ F.minPos)
    (n : Nat) (h : Mat K) (hw : @C09Mat.WF K h) (hr : h.rows = n) (hc : h.cols = n) (hH : @C09Hess.Hess K (scOfField F) n h)
    (r : HessSchur.Decomp K) (hok : @HessSchur.compute K _ _ _ _ _ (scOfField F) n h = Res.ok r) :
    ∃ E : Matrix (Fin n) (Fin n) K,
      (mat n (gf F r.u))ᵀ * mat n (gf F h) * mat n (gf F r.u) = mat n (gf F r.t) + E ∧
      (mat n (gf F r.u))ᵀ * mat n (gf F r.u) = 1 ∧ mat n (gf F r.u) * (mat n (gf F r.u))ᵀ = 1 ∧
      (∀ x y : Fin n → K, x ⬝ᵥ x ≤ 1 → y ⬝ᵥ y ≤ 1 → |x ⬝ᵥ (E *ᵥ y)| ≤ schurDrop F n h) ∧
      (∀ i j, |E i j| ≤ schurDrop F n h) := by
  obtain ⟨E, hE, sim, o1, o2⟩ := compute_sim F hs hs0 hmin n h hw hr hc hH r hok
  exact ⟨E, sim, o1, o2, hE, fun i j => bnd_entry hE i j⟩

/-- **exact corollary**: when the budget is `0` the returned `T` is an EXACT orthogonal similarity transform of `H`:
    `Uᵀ H U = T` and `H = U T Uᵀ` — so the 1x1 / 2x2 diagonal blocks of the quasi-triangular `T` (`c09_schur_quasi_triangular`) carry
    exactly the spectrum of `H`. -/
theorem c09_schur_exact (hs : ∀ x : K, 0 ≤ x → F.sqrt x * F.sqrt x = x) (hs0 : ∀ x : K, 0 ≤ F.sqrt x) (hmin : 0 ≤ F.minPos)
    (n : Nat) (h : Mat K) (hw : @C09Mat.WF K h) (hr : h.rows = n) (hc : h.cols = n) (hH : @C09Hess.Hess K (scOfField F) n h)
    (r : HessSchur.Decomp K) (hok : @HessSchur.compute K _ _ _ _ _ (scOfField F) n h = Res.ok r) (h0 : schurDrop F n h = 0) :
    (mat n (gf F r.u))ᵀ * mat n (gf F h) * mat n (gf F r.u) = mat n (gf F r.t) ∧
    mat n (gf F h) = mat n (gf F r.u) * mat n (gf F r.t) * (mat n (gf F r.u))ᵀ := by
  obtain ⟨E, hE, sim, o1, o2⟩ := compute_sim F hs hs0 hmin n h hw hr hc hH r hok
  rw [h0] at hE
  have hE0 := bnd_eq_zero hE
  rw [hE0, add_zero] at sim
  refine ⟨sim, ?_⟩
  rw [← sim]
  have : mat n (gf F r.u) * ((mat n (gf F r.u))ᵀ * mat n (gf F h) * mat n (gf F r.u)) * (mat n (gf F r.u))ᵀ =
      (mat n (gf F r.u) * (mat n (gf F r.u))ᵀ) * mat n (gf F h) * (mat n (gf F r.u) * (mat n (gf F r.u))ᵀ) := by
    simp only [Matrix.mul_assoc]
  rw [this, o2, Matrix.one_mul, Matrix.mul_one]

/-- the budget is a sum of magnitudes -/
theorem c09_schur_drop_nonneg (n : Nat) (h : Mat K) : 0 ≤ schurDrop F n h := schurDrop_nonneg F n h

/-- **per-step structure, the loop invariant** (`C09SS.MInv F n m H ex s b`: `T` has the block structure and Hessenberg shape,
    `U` orthonormal, and `Uᵀ H U = T + ex·D_m + E` with `E` within the budget `b`; `D_m` = identity on the `m` active rows, `ex` = the
    accumulated exceptional shift): if it holds when the `while (iu >= 0)` loop is entered with ANY state, and the loop ends normally,
    then `Uᵀ H U = T + E'` on exit with `E'` within `b + mainLoopDrop` — proved by induction on the iteration counter, each of the four
    branches being one of the step theorems below. -/
theorem c09_schur_loop (hs : ∀ x : K, 0 ≤ x → F.sqrt x * F.sqrt x = x) (hs0 : ∀ x : K, 0 ≤ F.sqrt x) (hmin : 0 ≤ F.minPos)
    (n : Nat) (near0 : K) (H : Matrix (Fin n) (Fin n) K) (f m iter total : Nat) (ex : K) (s : TU K) (b : K)
    (h : MInv F n m H ex s b)
    (hd : (@mainLoop K _ _ _ _ _ (scOfField F) n near0 f m iter total ex s).exit = Exit.done) :
    ∃ E : Matrix (Fin n) (Fin n) K, Bnd E (b + C09SS.mainLoopDrop F n near0 f m iter total ex s) ∧
      (mat n (gf F (@mainLoop K _ _ _ _ _ (scOfField F) n near0 f m iter total ex s).u))ᵀ * H *
          mat n (gf F (@mainLoop K _ _ _ _ _ (scOfField F) n near0 f m iter total ex s).u) =
        mat n (gf F (@mainLoop K _ _ _ _ _ (scOfField F) n near0 f m iter total ex s).t) + E :=
  mainLoop_sim F hs hs0 hmin n near0 H f m iter total ex s b h hd

/-- **one trip of the reflector loop of `perform_francis_qr_step` is `T ← PᵀTP − D`, `U ← UP`** with `P` the 3x3 reflector in rows /
    columns `k, k+1, k+2` (ideal: `τ(τ vᵀv − 2) = 0`): it keeps the sweep invariant `C09SS.SInv` (`Uᵀ H U = L + S + E`, `L` = the logical
    `T` in which the stale bulge entries of the already chased columns count as `0`, zero pattern = upper Hessenberg + 3-entry bulge)
    and the budget grows by `francisDrop` = the `ℓ¹` norm of the spike `D` in column `k − 1`.  The WINDOW argument is inside: the left
    application restricted to the columns `≥ k` and the right one restricted to the rows `≤ min(iu, k+3)` equal the full products because
    of the zero pattern. -/
theorem c09_schur_step_reflector (hs : ∀ x : K, 0 ≤ x → F.sqrt x * F.sqrt x = x) (hs0 : ∀ x : K, 0 ≤ F.sqrt x) (hmin : 0 ≤ F.minPos)
    (n il im iu : Nat) (near0 : K) (fv : K × K × K) (H : Matrix (Fin n) (Fin n) K) (ex : K)
    (s : TU K) (k : Nat) (b : K) (hik : im ≤ k) (hk2 : k + 2 ≤ iu) (hiu : iu < n) (h : SInv F n im iu k H ex s b) :
    SInv F n im iu (k + 1) H ex (@francisBody K _ _ _ _ _ (scOfField F) n il im iu near0 fv s k)
      (b + francisDrop F il im near0 fv s k) :=
  francisBody_sinv F (fun c0 t1 t2 => C09OrthU.makeHouseholder_ideal F hs hs0 hmin c0 t1 t2) n il im iu near0 fv H ex s k b hik hk2 hiu h

/-- what a reflector that is not the first of its sweep drops: at most the two bulge entries, nothing in the ideal non-degenerate case -/
theorem c09_schur_drop_reflector (hs : ∀ x : K, 0 ≤ x → F.sqrt x * F.sqrt x = x) (hs0 : ∀ x : K, 0 ≤ F.sqrt x) (hmin : 0 ≤ F.minPos)
    (il im : Nat) (near0 : K) (fv : K × K × K) (s : TU K) (k : Nat) (hk0 : k ≠ 0) (hne : k ≠ im) :
    francisDrop F il im near0 fv s k ≤ |@Mat.get K (scOfField F) s.t (k + 1) (k - 1)| + |@Mat.get K (scOfField F) s.t (k + 2) (k - 1)| ∧
    (F.minPos < @Mat.get K (scOfField F) s.t (k + 1) (k - 1) * @Mat.get K (scOfField F) s.t (k + 1) (k - 1) +
        @Mat.get K (scOfField F) s.t (k + 2) (k - 1) * @Mat.get K (scOfField F) s.t (k + 2) (k - 1) →
      @Sc.gt K (scOfField F) (@Sc.abs K (scOfField F) (@makeHouseholder K _ _ _ _ _ (scOfField F) (@Mat.get K (scOfField F) s.t k (k - 1))
        (@Mat.get K (scOfField F) s.t (k + 1) (k - 1)) (@Mat.get K (scOfField F) s.t (k + 2) (k - 1))).beta) near0 = true →
      francisDrop F il im near0 fv s k = 0) :=
  francisDrop_nonfirst F hs hs0 hmin il im near0 fv s k hk0 hne

/-- a sweep that starts at an exact zero sub-diagonal entry loses nothing at its first column -/
theorem c09_schur_drop_first_zero (il im : Nat) (near0 : K) (fv : K × K × K) (s : TU K)
    (h0 : @Mat.get K (scOfField F) s.t im (im - 1) = 0) (h1 : @Mat.get K (scOfField F) s.t (im + 1) (im - 1) = 0)
    (h2 : @Mat.get K (scOfField F) s.t (im + 2) (im - 1) = 0) : francisDrop F il im near0 fv s im = 0 :=
  francisDrop_first_zero F il im near0 fv s h0 h1 h2

/-- **one `perform_francis_qr_step` (reflector loop + closing 2x2 rotation + clean-up loop) is `T ← QᵀTQ − D`, `U ← UQ`**, `Q` a product
    of ideal 3x3 reflectors and one unit rotation: for an upper Hessenberg `T` with `T(iu+1, iu) = 0`, `Uᵀ H U = T + S + E` is carried
    to the result, the budget of `E` growing by `performFrancisDrop`; `makeGivens` returns `r = c·p − s·q` and annihilates, so an applied
    closing rotation drops nothing, and after the clean-up loop the stored `T` IS the logical one. -/
theorem c09_schur_step_francis (hs : ∀ x : K, 0 ≤ x → F.sqrt x * F.sqrt x = x) (hs0 : ∀ x : K, 0 ≤ F.sqrt x) (hmin : 0 ≤ F.minPos)
    (n il im iu : Nat) (near0 : K) (fv : K × K × K) (H : Matrix (Fin n) (Fin n) K) (ex : K) (s : TU K) (b : K) (him : im + 2 ≤ iu) (hiu : iu < n)
    (hw : @C09Mat.WF K s.t) (hr : s.t.rows = n) (hc : s.t.cols = n) (hH : @C09Hess.Hess K (scOfField F) n s.t)
    (hz : iu + 1 < n → @Mat.get K (scOfField F) s.t (iu + 1) iu = 0) (orth : C09Orth.ColsOrth F n s.u)
    (E : Matrix (Fin n) (Fin n) K) (hE : Bnd E b)
    (sim : (mat n (gf F s.u))ᵀ * H * mat n (gf F s.u) = mat n (gf F s.t) + Sm n (iu + 1) ex + E) :
    ∃ E' : Matrix (Fin n) (Fin n) K, Bnd E' (b + performFrancisDrop F n il im iu near0 fv s) ∧
      (mat n (gf F (@performFrancis K _ _ _ _ _ (scOfField F) n il im iu near0 fv s).u))ᵀ * H *
          mat n (gf F (@performFrancis K _ _ _ _ _ (scOfField F) n il im iu near0 fv s).u) =
        mat n (gf F (@performFrancis K _ _ _ _ _ (scOfField F) n il im iu near0 fv s).t) + Sm n (iu + 1) ex + E' :=
  performFrancis_sim F hs (fun c0 t1 t2 => C09OrthU.makeHouseholder_ideal F hs hs0 hmin c0 t1 t2) n il im iu near0 fv H ex s b him hiu
    hw hr hc hH hz orth E hE sim

/-- **`split_off_two_rows` is a similarity step** (2x2 standardisation, window rows `p, p+1`): both diagonal entries take the accumulated
    shift, the rotation (if the block has real eigenvalues) is applied to `T` and `U`, the `(2,1)` entry it overwrites with `0` IS `0`,
    the active window shrinks by two rows and the only thing dropped is the sub-diagonal entry `T(iu−1, iu−2)` in front of the block. -/
theorem c09_schur_step_split (hs : ∀ x : K, 0 ≤ x → F.sqrt x * F.sqrt x = x) (hs0 : ∀ x : K, 0 ≤ F.sqrt x) (n p : Nat)
    (H : Matrix (Fin n) (Fin n) K) (ex : K) (s : TU K) (b : K) (hiu : p + 1 < n)
    (hw : @C09Mat.WF K s.t) (hr : s.t.rows = n) (hc : s.t.cols = n) (hH : @C09Hess.Hess K (scOfField F) n s.t)
    (hz : p + 1 + 1 < n → @Mat.get K (scOfField F) s.t (p + 1 + 1) (p + 1) = 0) (orth : C09Orth.ColsOrth F n s.u)
    (E : Matrix (Fin n) (Fin n) K) (hE : Bnd E b)
    (sim : (mat n (gf F s.u))ᵀ * H * mat n (gf F s.u) = mat n (gf F s.t) + Sm n (p + 1 + 1) ex + E) :
    ∃ E' : Matrix (Fin n) (Fin n) K, Bnd E' (b + (if 1 < p + 1 then |@Mat.get K (scOfField F) s.t p (p - 1)| else 0)) ∧
      (mat n (gf F (@splitOffTwoRows K _ _ _ _ _ (scOfField F) n (p + 1) ex s).u))ᵀ * H *
          mat n (gf F (@splitOffTwoRows K _ _ _ _ _ (scOfField F) n (p + 1) ex s).u) =
        mat n (gf F (@splitOffTwoRows K _ _ _ _ _ (scOfField F) n (p + 1) ex s).t) + Sm n p ex + E' :=
  split_sim F hs hs0 n p H ex s b hiu hw hr hc hH hz orth E hE sim

/-- **the exceptional shifts as matrices**: `compute_shift` returns `(T', ex')` with `T' + ex'·D = T + ex·D`, `D` = identity on rows `0..iu` -/
theorem c09_schur_step_shift (n iu iter : Nat) (ex : K) (t : Mat K) (hw : @C09Mat.WF K t) (hr : t.rows = n) (hc : t.cols = n) (hiu : iu < n) :
    mat n (gf F (@computeShift K _ _ _ _ _ (scOfField F) iu iter ex t).1) +
      Sm n (iu + 1) (@computeShift K _ _ _ _ _ (scOfField F) iu iter ex t).2.1 = mat n (gf F t) + Sm n (iu + 1) ex :=
  shift_sim F n iu iter ex t hw hr hc hiu

/-- the budget predicate: invariant under orthogonal conjugation, `+|d|` per added entry, bounds every entry, `0` forces `E = 0` -/
theorem c09_schur_budget {n : Nat} (E Q : Matrix (Fin n) (Fin n) K) (b : K) (hQ : Qᵀ * Q = 1) (h : Bnd E b) (a c : Nat) (d : K) :
    Bnd (Qᵀ * E * Q) b ∧ Bnd (E + mat n (sgl a c d)) (b + |d|) ∧ (∀ i j, |E i j| ≤ b) ∧ (b = 0 → E = 0) :=
  ⟨bnd_conj hQ h, bnd_add_sgl h a c d, fun i j => bnd_entry h i j, fun hb => bnd_eq_zero (hb ▸ h)⟩

/-- the hypotheses on `sqrt` and `min` are satisfiable: `Real.sqrt` -/
example : ∃ F0 : FieldFns ℝ, (∀ x : ℝ, 0 ≤ x → F0.sqrt x * F0.sqrt x = x) ∧ (∀ x : ℝ, 0 ≤ F0.sqrt x) ∧ 0 ≤ F0.minPos :=
  ⟨⟨Real.sqrt, fun _ _ => 0, 0, 1⟩, fun x hx => Real.mul_self_sqrt hx, fun x => Real.sqrt_nonneg x, by norm_num⟩

/-- non-vacuity of the zero-budget hypothesis of `c09_schur_exact` and of the normal return: for `n = 1` every input returns normally
    and the budget is `0` (the single 1x1 deflation has no sub-diagonal entry to drop) -/
example (h : Mat K) : schurDrop F 1 h = 0 ∧ ∃ r, @HessSchur.compute K _ _ _ _ _ (scOfField F) 1 h = Res.ok r := by
  constructor
  · simp only [schurDrop]
    split
    · simp [C09SS.mainLoopDrop, findSmallSubdiag]
    · rfl
  · simp only [HessSchur.compute, HessSchur.core]
    split
    · simp [mainLoop, findSmallSubdiag]
    · simp

end schur_whole_run

section hesseig_on_schur
variable {K : Type} [Field K] [LinearOrder K] [IsStrictOrderedRing K] (F : FieldFns K)
open HessSchur C09SS C09Sim C09Eig
open scoped Matrix

/-- **the pair reported for a 2x2 block with negative discriminant IS its spectrum** (exact non-negative `sqrt`): for the block
    `[[a, b], [c, d]]` with `((a−d)/2)² + c·b < 0`, `block2` returns `(x, z), (x, −z)` with `2x = a + d`, `z > 0`, `z² = −disc`, and `x ± i z`
    are the two roots of the characteristic polynomial `λ² − (a+d) λ + (ad − bc)` (real and imaginary part of `χ(x + i z) = 0`). -/
theorem c09_hesseig_block_eigenvalues (hs : ∀ x : K, 0 ≤ x → F.sqrt x * F.sqrt x = x) (hs0 : ∀ x : K, 0 ≤ F.sqrt x) (a d c b : K)
    (hd : (@TridiagEigen.half K (scOfField F)) * (a - d) * ((@TridiagEigen.half K (scOfField F)) * (a - d)) + c * b < 0) :
    ∃ x z : K, @HessEigen.block2 K _ _ _ _ _ (scOfField F) a d c b = ((x, z), (x, -z)) ∧ 0 < z ∧ 2 * x = a + d ∧
      z * z = -((@TridiagEigen.half K (scOfField F)) * (a - d) * ((@TridiagEigen.half K (scOfField F)) * (a - d)) + c * b) ∧
      (x * x - z * z) - (a + d) * x + (a * d - b * c) = 0 ∧ 2 * x * z - (a + d) * z = 0 :=
  block2_char F hs hs0 a d c b hd

/-- **every 2x2 block `UpperHessenbergSchur::compute` leaves unsplit has a negative discriminant** (complex conjugate eigenvalues): loop
    invariant of the main loop — `split_off_two_rows` rotated every block with `q ≥ 0` to triangular form and set `T(iu,iu−1) = 0`, and
    the finished rows are never written again.  (`C09Eig.disc F T r = ((T(r,r) − T(r+1,r+1))/2)² + T(r+1,r)·T(r,r+1)`.) -/
theorem c09_schur_unsplit_negdisc (n : Nat) (h : Mat K) (hw : @C09Mat.WF K h) (hr : h.rows = n) (hc : h.cols = n)
    (r : HessSchur.Decomp K) (hok : @HessSchur.compute K _ _ _ _ _ (scOfField F) n h = Res.ok r) :
    ∀ i, i + 1 < n → @Mat.get K (scOfField F) r.t (i + 1) i ≠ 0 → disc F r.t i < 0 :=
  fun i hi hne => compute_negDisc F n h hw hr hc r hok i (Nat.zero_le _) hi hne

/-- **the eigenvalues `UpperHessenbergEigen` reports are the eigenvalues of the diagonal blocks of `T`** (exact `sqrt`, before the
    scaling back by `scale`): walking the Schur `T` of an upper Hessenberg input, the extraction emits `(T(i,i), 0)` for every 1x1 block
    and, for every unsplit 2x2 block, `(x, z), (x, −z)` with `2x = a + d`, `z > 0`, `z² = −disc` — the roots of the block's characteristic
    polynomial (`C09Eig.EigBlocksAt`; with `c09_schur_quasi_triangular` the blocks exhaust the spectrum of `T`, and with `c09_schur_exact`
    that of `H` when the budget is `0`). -/
theorem c09_hesseig_eigenvalues (hs : ∀ x : K, 0 ≤ x → F.sqrt x * F.sqrt x = x) (hs0 : ∀ x : K, 0 ≤ F.sqrt x)
    (n : Nat) (h : Mat K) (hw : @C09Mat.WF K h) (hr : h.rows = n) (hc : h.cols = n)
    (r : HessSchur.Decomp K) (hok : @HessSchur.compute K _ _ _ _ _ (scOfField F) n h = Res.ok r) :
    EigBlocksAt F n r.t 0 (@HessEigen.extract K _ _ _ _ _ (scOfField F) n r.t n 0) :=
  extract_eigAt F hs hs0 n r.t (compute_negDisc F n h hw hr hc r hok) n 0 (by omega)

/-- **the back-substitution of `doComputeEigenvectors` for a real eigenvalue solves `T y = λ y` EXACTLY** (exact arithmetic, rows
    `c, c−1, …, 0`; a 1x1 row divides by `T(i,i) − λ`, a 2x2 block is solved by Cramer's rule whose denominator `(re − λ)² + im²` is the
    determinant of the shifted block because `re ± i·im` are its eigenvalues; the overflow rescaling `col.tail /= t` keeps the equations).
    `tc` = the work matrix when column `c` is reached (equal to `T` in the columns `≤ c`), `ev` compatible with the block structure of `T`
    (`C09Eig.EvOK`), `λ = ev_c.re = T(c,c)`.  Result: `y_b` = entry `(b, c)` of the work matrix for `b ≤ c`, `0` below: `Σ_b T(a,b) y_b = λ y_a` for
    EVERY row `a`, `y_c ≠ 0`, and only column `c` was written.  Hypothesis `hnf`: `λ` is not the diagonal entry of another 1x1 block above
    row `c` — otherwise the code replaces the zero divisor by `eps·norm`, a deliberate perturbation. -/
theorem c09_hesseig_backsub_real (n c : Nat) (norm : K) (T tc : Mat K) (ev : Vec (K × K)) (hev : EvOK F n T ev)
    (hw : @C09Mat.WF K tc) (hr : tc.rows = n) (hcl : tc.cols = n) (hc : c < n) (hc0 : (@HessEigen.evGet K (scOfField F) ev c).2 = 0)
    (htc : ∀ a b, a < n → b ≤ c → @Mat.get K (scOfField F) tc a b = @Mat.get K (scOfField F) T a b)
    (hnf : ∀ i, i < c → (@HessEigen.evGet K (scOfField F) ev i).2 = 0 →
      @Mat.get K (scOfField F) T i i ≠ (@HessEigen.evGet K (scOfField F) ev c).1) :
    let _ : Sc K := scOfField F
    let st := HessEigen.realInner n c (HessEigen.evGet ev c).1 norm ev c ⟨zero, zero, c, tc.set c c one⟩
    let y : ℕ → K := fun b => if b ≤ c then st.t.get b c else 0
    (∀ a, a < n → ∑ b ∈ Finset.range n, T.get a b * y b = (HessEigen.evGet ev c).1 * y a) ∧ y c ≠ 0 ∧
    @C09Mat.WF K st.t ∧ st.t.rows = n ∧ st.t.cols = n ∧ (∀ a b, a < n → b ≠ c → st.t.get a b = tc.get a b) :=
  real_column F n c norm T tc ev hev hw hr hcl hc hc0 htc hnf

/-- the eigenvalue vector extracted from the Schur result of an upper Hessenberg matrix IS compatible with the block structure
    (`EvOK`: Hessenberg, real value = diagonal entry of a 1x1 block, pair = spectrum of an unsplit block followed by a zero sub-diagonal) -/
theorem c09_hesseig_evok (hs : ∀ x : K, 0 ≤ x → F.sqrt x * F.sqrt x = x) (hs0 : ∀ x : K, 0 ≤ F.sqrt x)
    (n : Nat) (h : Mat K) (hw : @C09Mat.WF K h) (hr : h.rows = n) (hc : h.cols = n) (hH : @C09Hess.Hess K (scOfField F) n h)
    (r : HessSchur.Decomp K) (hok : @HessSchur.compute K _ _ _ _ _ (scOfField F) n h = Res.ok r) :
    EvOK F n r.t (@HessEigen.evalsOf K _ _ _ _ _ (scOfField F) n r.t) :=
  compute_evOK F hs hs0 n h hw hr hc hH r hok

/-- **the back transformation is `U y`**: column `j` of `backTransform n U t` is `Σ_{k ≤ j} U(:,k)·t(k,j)` -/
theorem c09_hesseig_backtransform (n : Nat) (u t : Mat K) (hw : @C09Mat.WF K u) (hr : u.rows = n) (hc : u.cols = n)
    (a j : Nat) (ha : a < n) (hj : j < n) :
    @Mat.get K (scOfField F) (@HessEigen.backTransform K _ _ (scOfField F) n u t) a j =
      ∑ k ∈ Finset.range (j + 1), @Mat.get K (scOfField F) u a k * @Mat.get K (scOfField F) t k j :=
  backTransform_spec F n u t hw hr hc a j ha hj

/-- **the back-substitution of `doComputeEigenvectors` for a complex pair solves `T y = (p − i q) y` EXACTLY** (exact arithmetic, `eps ≠ 0`,
    `p = ev_c.re`, `q = ev_c.im < 0`, so `p − i q` is the value with positive imaginary part): the complex branch of `backSub` writes the
    2x2 eigenvector `y_c = i`, `y_{c−1} = (q − i(d − p))/T(c,c−1)` (or the `__divdc3` form), then `cplxInner` solves the rows `c−2, …, 0` in
    (re, im) pairs — 1x1 rows by complex division by `T(i,i) − p + i q ≠ 0`, 2x2 blocks by complex Cramer with determinant
    `vr + i·vi = χ_block(p − i q)`, overflow rescaling of both columns.  Result (columns `c−1` = real parts, `c` = imaginary parts, cut
    off below row `c`): `Σ_b T(a,b) yr_b = p yr_a + q yi_a`, `Σ_b T(a,b) yi_b = p yi_a − q yr_a` for EVERY row `a`, `yr_c = 0`, `yi_c ≠ 0`,
    and only the two columns were written.  Hypothesis `GoodC`: `p − i q` is not an eigenvalue of another 2x2 block above (otherwise the
    code replaces `vr = vi = 0` by `eps·norm·(…)`, a deliberate perturbation). -/
theorem c09_hesseig_backsub_cplx (heps : F.eps ≠ 0) (n c : Nat) (norm : K) (T tc : Mat K) (ev : Vec (K × K)) (hev : EvOK F n T ev)
    (hw : @C09Mat.WF K tc) (hr : tc.rows = n) (hcl : tc.cols = n) (hc : c < n)
    (htc : ∀ a b, a < n → b ≤ c → @Mat.get K (scOfField F) tc a b = @Mat.get K (scOfField F) T a b)
    (hg : GoodC F ev c) :
    let _ : Sc K := scOfField F
    let st := HessEigen.cplxInner n c (HessEigen.evGet ev c).1 (HessEigen.evGet ev c).2 norm ev (c - 1)
      ⟨zero, zero, zero, c - 1, ((presetT F tc c (HessEigen.evGet ev c).1 (HessEigen.evGet ev c).2).set c (c - 1) zero).set c c one⟩
    let yr : ℕ → K := fun b => if b ≤ c then st.t.get b (c - 1) else 0
    let yi : ℕ → K := fun b => if b ≤ c then st.t.get b c else 0
    (∀ a, a < n → ∑ b ∈ Finset.range n, T.get a b * yr b = (HessEigen.evGet ev c).1 * yr a + (HessEigen.evGet ev c).2 * yi a ∧
      ∑ b ∈ Finset.range n, T.get a b * yi b = (HessEigen.evGet ev c).1 * yi a - (HessEigen.evGet ev c).2 * yr a) ∧
    (yr c = 0 ∧ yi c ≠ 0) ∧ @C09Mat.WF K st.t ∧ st.t.rows = n ∧ st.t.cols = n ∧
    (∀ a b, a < n → b ≠ c - 1 → b ≠ c → st.t.get a b = tc.get a b) :=
  cplx_columns F heps n c norm T tc ev hev hw hr hcl hc htc hg

/-  FULL STATEMENT (clause "the Hessenberg eigen-solver returns unit-norm eigenpairs with ‖H x − λ x‖ small"), exact-arithmetic form:
      for EVERY returned pair `(λ_j, x_j)`, real or complex:  `H x_j = λ_j x_j + scale·(U E) y_j`,  `x_j = U y_j`,  `T y_j = (λ_j/scale) y_j`,
      `‖x_j‖ = 1` after `eigenvectors()`.
    Proved below (`c09_hesseig_real_eigvec_partial`, `c09_hesseig_cplx_eigvec_partial`): every REAL pair whose back-substitution takes no
    `w == 0` fallback (`C09Eig.Good`) and every COMPLEX pair whose back-substitution takes no `vr == vi == 0` fallback (`C09Eig.GoodC`) — i.e.
    every eigenvalue that is not repeated in another diagonal block above it — for a non-zero input with `tnorm(T) ≠ 0`, before the
    normalisation of `eigenvectors()` (which `c09_eigvec_unit` covers separately).
    MISSING: repeated eigenvalues (the code perturbs the zero divisor by `eps·norm` on purpose, so `T y = λ y` does NOT hold exactly
    there), the `tnorm == 0` exit, the composition with `eigenvectors()` (pairing + `normalize`), and rounding. -/
/-- **`UpperHessenbergEigen::compute`, real eigenpairs, on top of the Schur similarity** (exact arithmetic, exact `sqrt ≥ 0`, `min ≥ 0`;
    every size, every well-formed non-zero upper Hessenberg input, every run that returns normally): with `Hs = H/scale`,
    `Uᵀ Hs U = T + E` (`E` within `schurDrop` of `Hs`), for every Good real index `c` there is `y` with `y_c ≠ 0`, `T y = λ y`, the returned
    column `c` of `m_eivec` equals `U y`, the returned eigenvalue is `(λ·scale, 0)`, and
      `H x = (λ·scale) x + scale·(U E) y`   — so `H x = λ' x` EXACTLY when the Schur budget is `0`. -/
theorem c09_hesseig_real_eigvec_partial (hs : ∀ x : K, 0 ≤ x → F.sqrt x * F.sqrt x = x) (hs0 : ∀ x : K, 0 ≤ F.sqrt x)
    (hmin : 0 ≤ F.minPos) (n : Nat) (h : Mat K) (hw : @C09Mat.WF K h) (hr : h.rows = n) (hc : h.cols = n)
    (hH : @C09Hess.Hess K (scOfField F) n h) (r : HessEigen.Decomp K)
    (hok : @HessEigen.compute K _ _ _ _ _ (scOfField F) n h = Res.ok r)
    (hsc : @Sc.eq K (scOfField F) (@TridiagEigen.maxAbs1 K (scOfField F) h.d) (@zero K (scOfField F)) = false) :
    ∃ (s : HessSchur.Decomp K) (E : Matrix (Fin n) (Fin n) K),
      @HessSchur.compute K _ _ _ _ _ (scOfField F) n ⟨h.rows, h.cols, vdivs h.d (@TridiagEigen.maxAbs1 K (scOfField F) h.d)⟩ = Res.ok s ∧
      Bnd E (schurDrop F n ⟨h.rows, h.cols, vdivs h.d (@TridiagEigen.maxAbs1 K (scOfField F) h.d)⟩) ∧
      (@Sc.eq K (scOfField F) (@HessEigen.tnorm K _ (scOfField F) n s.t) (@zero K (scOfField F)) = false →
        ∀ c, (hcn : c < n) → Good F s.t (@HessEigen.evalsOf K _ _ _ _ _ (scOfField F) n s.t) c →
          ∃ y : Fin n → K, y ⟨c, hcn⟩ ≠ 0 ∧
            mat n (gf F s.t) *ᵥ y = (@HessEigen.evGet K (scOfField F) (@HessEigen.evalsOf K _ _ _ _ _ (scOfField F) n s.t) c).1 • y ∧
            (fun a : Fin n => @Mat.get K (scOfField F) r.eivec a.val c) = mat n (gf F s.u) *ᵥ y ∧
            @HessEigen.evGet K (scOfField F) r.evals c =
              ((@HessEigen.evGet K (scOfField F) (@HessEigen.evalsOf K _ _ _ _ _ (scOfField F) n s.t) c).1 *
                @TridiagEigen.maxAbs1 K (scOfField F) h.d, 0) ∧
            mat n (gf F h) *ᵥ (fun a : Fin n => @Mat.get K (scOfField F) r.eivec a.val c) =
              (@HessEigen.evGet K (scOfField F) r.evals c).1 • (fun a : Fin n => @Mat.get K (scOfField F) r.eivec a.val c) +
                @TridiagEigen.maxAbs1 K (scOfField F) h.d • ((mat n (gf F s.u) * E) *ᵥ y)) :=
  compute_real_pairs F hs hs0 hmin n h hw hr hc hH r hok hsc

/-- **`UpperHessenbergEigen::compute`, complex eigenpairs, on top of the Schur similarity** (exact arithmetic, `eps ≠ 0`): for every GoodC
    index `c` the value returned at `c` is `(p·scale, q·scale)` (`q < 0`; its conjugate sits at `c − 1`), the returned columns `c − 1`, `c` are
    `xr = U yr`, `xi = U yi` with `T yr = p yr + q yi`, `T yi = p yi − q yr`, `yi_c ≠ 0`, and with `(λr, λi)` the returned value at `c`:
      `H xr = λr xr + λi xi + scale·(U E) yr`,   `H xi = λr xi − λi xr + scale·(U E) yi`
    — i.e. `H (xr + i xi) = (λr − i λi)(xr + i xi) + scale·(U E)(yr + i yi)`: exactly an eigenpair when the Schur budget is `0`. -/
theorem c09_hesseig_cplx_eigvec_partial (heps : F.eps ≠ 0) (hs : ∀ x : K, 0 ≤ x → F.sqrt x * F.sqrt x = x) (hs0 : ∀ x : K, 0 ≤ F.sqrt x)
    (hmin : 0 ≤ F.minPos) (n : Nat) (h : Mat K) (hw : @C09Mat.WF K h) (hr : h.rows = n) (hc : h.cols = n)
    (hH : @C09Hess.Hess K (scOfField F) n h) (r : HessEigen.Decomp K)
    (hok : @HessEigen.compute K _ _ _ _ _ (scOfField F) n h = Res.ok r)
    (hsc : @Sc.eq K (scOfField F) (@TridiagEigen.maxAbs1 K (scOfField F) h.d) (@zero K (scOfField F)) = false) :
    ∃ (s : HessSchur.Decomp K) (E : Matrix (Fin n) (Fin n) K),
      @HessSchur.compute K _ _ _ _ _ (scOfField F) n ⟨h.rows, h.cols, vdivs h.d (@TridiagEigen.maxAbs1 K (scOfField F) h.d)⟩ = Res.ok s ∧
      Bnd E (schurDrop F n ⟨h.rows, h.cols, vdivs h.d (@TridiagEigen.maxAbs1 K (scOfField F) h.d)⟩) ∧
      (@Sc.eq K (scOfField F) (@HessEigen.tnorm K _ (scOfField F) n s.t) (@zero K (scOfField F)) = false →
        ∀ c, (hcn : c < n) → GoodC F (@HessEigen.evalsOf K _ _ _ _ _ (scOfField F) n s.t) c →
          ∃ yr yi : Fin n → K, yi ⟨c, hcn⟩ ≠ 0 ∧
            mat n (gf F s.t) *ᵥ yr = (@HessEigen.evGet K (scOfField F) (@HessEigen.evalsOf K _ _ _ _ _ (scOfField F) n s.t) c).1 • yr +
              (@HessEigen.evGet K (scOfField F) (@HessEigen.evalsOf K _ _ _ _ _ (scOfField F) n s.t) c).2 • yi ∧
            mat n (gf F s.t) *ᵥ yi = (@HessEigen.evGet K (scOfField F) (@HessEigen.evalsOf K _ _ _ _ _ (scOfField F) n s.t) c).1 • yi -
              (@HessEigen.evGet K (scOfField F) (@HessEigen.evalsOf K _ _ _ _ _ (scOfField F) n s.t) c).2 • yr ∧
            (fun a : Fin n => @Mat.get K (scOfField F) r.eivec a.val (c - 1)) = mat n (gf F s.u) *ᵥ yr ∧
            (fun a : Fin n => @Mat.get K (scOfField F) r.eivec a.val c) = mat n (gf F s.u) *ᵥ yi ∧
            @HessEigen.evGet K (scOfField F) r.evals c =
              ((@HessEigen.evGet K (scOfField F) (@HessEigen.evalsOf K _ _ _ _ _ (scOfField F) n s.t) c).1 * @TridiagEigen.maxAbs1 K (scOfField F) h.d,
               (@HessEigen.evGet K (scOfField F) (@HessEigen.evalsOf K _ _ _ _ _ (scOfField F) n s.t) c).2 * @TridiagEigen.maxAbs1 K (scOfField F) h.d) ∧
            mat n (gf F h) *ᵥ (fun a : Fin n => @Mat.get K (scOfField F) r.eivec a.val (c - 1)) =
              (@HessEigen.evGet K (scOfField F) r.evals c).1 • (fun a : Fin n => @Mat.get K (scOfField F) r.eivec a.val (c - 1)) +
              (@HessEigen.evGet K (scOfField F) r.evals c).2 • (fun a : Fin n => @Mat.get K (scOfField F) r.eivec a.val c) +
                @TridiagEigen.maxAbs1 K (scOfField F) h.d • ((mat n (gf F s.u) * E) *ᵥ yr) ∧
            mat n (gf F h) *ᵥ (fun a : Fin n => @Mat.get K (scOfField F) r.eivec a.val c) =
              (@HessEigen.evGet K (scOfField F) r.evals c).1 • (fun a : Fin n => @Mat.get K (scOfField F) r.eivec a.val c) -
              (@HessEigen.evGet K (scOfField F) r.evals c).2 • (fun a : Fin n => @Mat.get K (scOfField F) r.eivec a.val (c - 1)) +
                @TridiagEigen.maxAbs1 K (scOfField F) h.d • ((mat n (gf F s.u) * E) *ᵥ yi)) :=
  compute_cplx_pairs F heps hs hs0 hmin n h hw hr hc hH r hok hsc

/-- `GoodC` is satisfiable: the pair in rows `0, 1` is GoodC as soon as its second value has negative imaginary part (no block above) -/
example (ev : Vec (K × K)) (h1 : (@HessEigen.evGet K (scOfField F) ev 1).2 < 0) : GoodC F ev 1 :=
  ⟨h1, fun i hi => absurd hi (by omega)⟩

/-- `Good` is satisfiable: the first row is Good as soon as its eigenvalue is real (no 1x1 block above it) -/
example (T : Mat K) (ev : Vec (K × K)) (h0 : (@HessEigen.evGet K (scOfField F) ev 0).2 = 0) : Good F T ev 0 :=
  ⟨h0, fun i hi => absurd hi (Nat.not_lt_zero i)⟩

end hesseig_on_schur

section householder
variable {R : Type} [CommRing R] [Div R] [Sc R]
open HessSchur

/-- **`apply_householder_right(_simd)` computes `X P`** for `P = I − τ v vᵀ`, `v = (1, v1, v2)` on the `nrow × 3` block starting at
    column `k` (entry `(i, k+a)` of `X P` is `x_{i,a} − τ (x_i · v) v_a`) and touches nothing else.  Any commutative ring, any
    well-formed matrix; with `EIGEN_DONT_VECTORIZE` the SIMD variant has packet size 1 and is element-wise this loop. -/
theorem c09_householder_apply_right (m : Mat R) (h : C09Mat.WF m) (v1 v2 tau : R) (k nrow : Nat)
    (hk : k + 2 < m.cols) (hn : nrow ≤ m.rows) (i j : Nat) (hi : i < m.rows) :
    (applyHouseholderRight m v1 v2 tau k nrow).get i j =
      if i < nrow then
        (if j = k then m.get i k - tau * (m.get i k + v1 * m.get i (k + 1) + v2 * m.get i (k + 2))
         else if j = k + 1 then m.get i (k + 1) - tau * (m.get i k + v1 * m.get i (k + 1) + v2 * m.get i (k + 2)) * v1
         else if j = k + 2 then m.get i (k + 2) - tau * (m.get i k + v1 * m.get i (k + 1) + v2 * m.get i (k + 2)) * v2
         else m.get i j)
      else m.get i j := C09HH.applyHouseholderRight_get m h v1 v2 tau k nrow hk hn i j hi

/-- **`apply_householder_left` computes `P X`** on the `3 × ncol` block with rows `k, k+1, k+2` and columns `c0 .. c0+ncol−1`
    (entry `(k+a, j)` of `P X` is `x_{a,j} − τ v_a (v · x_j)`) and touches nothing else. -/
theorem c09_householder_apply_left (m : Mat R) (h : C09Mat.WF m) (v1 v2 tau : R) (k c0 ncol : Nat)
    (hk : k + 2 < m.rows) (hn : c0 + ncol ≤ m.cols) (i j : Nat) (hi : i < m.rows) :
    (applyHouseholderLeft m v1 v2 tau k c0 ncol).get i j =
      if c0 ≤ j ∧ j < c0 + ncol then
        (if i = k then m.get k j - tau * (m.get k j + v1 * m.get (k + 1) j + v2 * m.get (k + 2) j)
         else if i = k + 1 then m.get (k + 1) j - tau * (m.get k j + v1 * m.get (k + 1) j + v2 * m.get (k + 2) j) * v1
         else if i = k + 2 then m.get (k + 2) j - tau * (m.get k j + v1 * m.get (k + 1) j + v2 * m.get (k + 2) j) * v2
         else m.get i j)
      else m.get i j := C09HH.applyHouseholderLeft_get m h v1 v2 tau k c0 ncol hk hn i j hi

end householder

/-- **The hand model's Wilkinson-shift prologue IS the C++ source.**  `Gen.Wilk.wilkinson_mu` is regenerated by the translator from
    `TridiagEigen.h: tridiagonal_qr_step` (statements up to the guarded `mu -= …` chain) on every run; the hand-written
    `TridiagEigen.wilkinsonMu` used by `qrStep` equals it definitionally, for every scalar type and every `Sc` instance.
    An edit of the C++ prologue therefore breaks this obligation (and, through `c09_wilkinson_shift`, what is proved about it). -/
theorem c09_wilkinson_gen {α : Type} [Add α] [Sub α] [Mul α] [Div α] [Neg α] [Sc α] (diag subdiag : Int → α) (start end_ n : Int) :
    Gen.Wilk.wilkinson_mu diag subdiag start end_ n =
      TridiagEigen.wilkinsonMu (diag (end_ - 1)) (diag end_) (subdiag (end_ - 1)) := rfl

/-- `apply_householder_left/right(_simd)`: the scalar kernel maps `x = (x0,x1,x2)` to `P x`, `P = I − τ v vᵀ`, `v = (1, v1, v2)`
    (any commutative ring; row `i` of `P x` is `xᵢ − τ vᵢ (vᵀx)`). -/
theorem c09_householder_kernel {R : Type} [CommRing R] (v1 v2 tau x0 x1 x2 : R) :
    @HessSchur.hhKernel R _ _ _ v1 v2 tau x0 x1 x2 =
      (x0 - tau * 1 * (1 * x0 + v1 * x1 + v2 * x2),
       x1 - tau * v1 * (1 * x0 + v1 * x1 + v2 * x2),
       x2 - tau * v2 * (1 * x0 + v1 * x1 + v2 * x2)) := hhKernel_spec v1 v2 tau x0 x1 x2

/-! ### reuse of ONE decomposition object (`Model/C09Object.lean`, compared with the real classes on whole histories by the `hist` stream)

  All histories, all sizes, any scalar type, every floating comparison an arbitrary boolean.  The object models keep every member the C++
  keeps and write it exactly where `compute()` writes it; the accessors are pure functions of the state. -/
section reuse
variable {α : Type} [Add α] [Sub α] [Mul α] [Div α] [Neg α] [Sc α]
open C09Obj C09Reuse

/-- **No history is visible after a `compute` that returns.**  Whatever was done to the object before (any list of `compute`s that returned or
    threw, non-square calls, `swap_T`/`swap_U` with arbitrary matrices), a `compute(M)` that returns on a fresh object returns on the used one
    and leaves EVERY member — hence the answer of every accessor, in any order, any number of times — equal to the fresh object's. -/
theorem c09_reuse_history_trideig (hs : List (TriOp α)) (n : Nat) (d e : Vec α)
    (hok : ((Tri.fresh : Tri α).compute n d e).2 = none) :
    (hs.foldl Tri.step (Tri.fresh : Tri α)).compute n d e = (Tri.fresh : Tri α).compute n d e := tri_history hs n d e hok
theorem c09_reuse_history_schur (hs : List (SchOp α)) (n : Nat) (h : Mat α)
    (hok : ((Sch.fresh : Sch α).compute n h).2 = none) :
    (hs.foldl Sch.step (Sch.fresh : Sch α)).compute n h = (Sch.fresh : Sch α).compute n h := sch_history hs n h hok
theorem c09_reuse_history_hesseig (hs : List (EigOp α)) (n : Nat) (h : Mat α)
    (hok : ((Eig.fresh : Eig α).compute n h).2 = none) :
    (hs.foldl Eig.step (Eig.fresh : Eig α)).compute n h = (Eig.fresh : Eig α).compute n h := eig_history hs n h hok

/-- whether `compute(M)` throws, and what, never depends on the object's past -/
theorem c09_reuse_throw_indep (ot : Tri α) (os : Sch α) (oe : Eig α) (n : Nat) (d e : Vec α) (h : Mat α) :
    (ot.compute n d e).2 = ((Tri.fresh : Tri α).compute n d e).2 ∧ (os.compute n h).2 = ((Sch.fresh : Sch α).compute n h).2
      ∧ (oe.compute n h).2 = ((Eig.fresh : Eig α).compute n h).2 :=
  ⟨tri_throw_indep ot n d e, sch_throw_indep os n h, eig_throw_indep oe n h⟩

/-- **The accessors of a reused object return the results of the one-shot models** — so everything above in this file (exit conditions,
    quasi-triangular `T`, conjugate pairing, similarity) holds for the numbers a reused object hands out. -/
theorem c09_reuse_accessors (ot : Tri α) (os : Sch α) (oe : Eig α) (n : Nat) (d e : Vec α) (h : Mat α) :
    (∀ r, TridiagEigen.compute n d e = Res.ok r →
        (ot.compute n d e).2 = none ∧ (ot.compute n d e).1.eigenvalues = Res.ok (TridiagEigen.eigenvalues r)
          ∧ (ot.compute n d e).1.eigenvectors = Res.ok (TridiagEigen.eigenvectors r)) ∧
    (∀ r, HessSchur.compute n h = Res.ok r →
        (os.compute n h).2 = none ∧ (os.compute n h).1.matrix_T = Res.ok (HessSchur.matrix_T r)
          ∧ (os.compute n h).1.matrix_U = Res.ok (HessSchur.matrix_U r)) ∧
    (∀ r, HessEigen.compute n h = Res.ok r →
        (oe.compute n h).2 = none ∧ (oe.compute n h).1.eigenvalues = Res.ok (HessEigen.eigenvalues r)
          ∧ (oe.compute n h).1.eivec = r.eivec ∧ (oe.compute n h).1.computed = true) :=
  ⟨fun r hr => tri_accessors ot n d e r hr, fun r hr => sch_accessors os n h r hr, fun r hr => eig_accessors oe n h r hr⟩

/-- **After a `compute` that threw (iteration limit) every accessor throws `std::logic_error`**, whatever the object had computed before:
    neither the unfinished iteration nor the previous matrix's results are handed out (`m_computed = false` at the start of `compute`). -/
theorem c09_reuse_after_failure (ot : Tri α) (os : Sch α) (oe : Eig α) (n : Nat) (d e : Vec α) (h : Mat α) :
    ((ot.compute n d e).2 ≠ none → (ot.compute n d e).1.eigenvalues = Res.throw (notComputed "TridiagEigen")
        ∧ (ot.compute n d e).1.eigenvectors = Res.throw (notComputed "TridiagEigen")) ∧
    ((os.compute n h).2 ≠ none → (os.compute n h).1.matrix_T = Res.throw (notComputed "UpperHessenbergSchur")
        ∧ (os.compute n h).1.matrix_U = Res.throw (notComputed "UpperHessenbergSchur")) ∧
    ((oe.compute n h).2 ≠ none → (oe.compute n h).1.eigenvalues = Res.throw (notComputed "UpperHessenbergEigen")
        ∧ (oe.compute n h).1.eigenvectors = Res.throw (notComputed "UpperHessenbergEigen")) := by
  refine ⟨fun hne => ?_, fun hne => ?_, fun hne => ?_⟩
  · have hc := tri_failed_not_computed ot n d e hne
    unfold Tri.eigenvalues Tri.eigenvectors; rw [hc]; exact ⟨rfl, rfl⟩
  · have hc := sch_failed_not_computed os n h hne
    unfold Sch.matrix_T Sch.matrix_U; rw [hc]; exact ⟨rfl, rfl⟩
  · have hc := eig_failed_not_computed oe n h hne
    unfold Eig.eigenvalues Eig.eigenvectors; rw [hc]; exact ⟨rfl, rfl⟩

/-- the hypotheses are satisfiable: the zero matrix returns on every object -/
example (o : Tri α) (n : Nat) (hz : Sc.lt (TridiagEigen.scaleOf (vzero n : Vec α) (vzero (n - 1))) (Sc.minPos * Sc.ofInt 10) = true) :
    (o.compute n (vzero n) (vzero (n - 1))).2 = none := by
  unfold Tri.compute; simp only []; rw [if_pos hz]

end reuse

end C09
