/-
  C10 — Bunch-Kaufman LDLT (include/Spectra/LinAlg/BKLDLT.h, MatOp/DenseSymShiftSolve.h, MatOp/SymShiftInvert.h).

  Objects of the theorems:
   * `Gen.BK.*`  — regenerated from the headers on every run: `solve_inplace_2x2`, `inverse_inplace_2x2`, `compress_permutation`,
     the singularity tests of the two eliminations, the status statements of `compute`, the wrapper guards.
   * `BKLDLT.*`  — the hand model (Model/BKLDLT.lean; real scalars), tied to the code by the bit-exact correspondence.
  Every theorem is for all sizes, all inputs, every scalar type with every `Sc` instance where stated so (the comparisons are
  then arbitrary functions, i.e. every pivot-decision sequence is covered), resp. every (ordered) field.

  NOT proved (out of reach here, stated for the record):
    (full clause)  ‖(A−σI)x − b‖ ≤ c·n·eps·(‖A−σI‖‖x‖+‖b‖) in floating point: needs the Bunch–Kaufman growth/backward-error
                   analysis; the harness checks it on the implementation with c = 100 in long double.
    (tier 3)       PROVED in exact arithmetic for the real model: section (8), `c10_factor_partial`, `c10_solve_correct_partial`
                   (induction over the pivot loop, every pivot-decision sequence); not for the complex model, not in floating point.
   * `BKLDLTC.*` — the hand model of the complex Hermitian instantiation (Model/BKLDLTC.lean; std::complex as pairs over the real
     scalar class, bit-exact against `BKLDLT<std::complex<double>>`): section (7).  Its value-level theorems are index safety,
     permutation structure, status and Lower ≡ Upper; the per-step Schur-complement statements are proved for the real model only.
-/
import Mathlib.Algebra.Order.Field.Rat
import Mathlib.Tactic.NormNum
import SpectraVerif.Gen.BK
import SpectraVerif.Model.BKLDLT
import SpectraVerif.Proofs.ScField
import SpectraVerif.Proofs.C10Scalar
import SpectraVerif.Proofs.C10Index
import SpectraVerif.Proofs.C10Solve
import SpectraVerif.Proofs.C10SolveSafe
import SpectraVerif.Proofs.C10Algebra
import SpectraVerif.Proofs.C10Elim
import SpectraVerif.Proofs.C10Pivot
import SpectraVerif.Proofs.C10IndexC
import SpectraVerif.Proofs.C10SolveSafeC
import SpectraVerif.Proofs.C10Cplx
import Mathlib.Data.Matrix.Mul
import Mathlib.Algebra.BigOperators.Fin
import SpectraVerif.Proofs.C10FactorDefs
import SpectraVerif.Proofs.C10Factor
import SpectraVerif.Proofs.C10SolveCorrect
import SpectraVerif.Proofs.C10History

namespace C10
open Gen.BK BKLDLT

/-! ### (1) index safety -/

section index
variable {α : Type} [Add α] [Sub α] [Mul α] [Div α] [Neg α] [Sc α]

/-- The packed offset of every legal `coeff(i,j)` lies inside `m_data`: `0 ≤ j·n − j(j−1)/2 + (i−j) < n(n+1)/2`. -/
theorem c10_offset_in_range (n i j : Int) (h : 0 ≤ j ∧ j ≤ i ∧ i < n) :
    0 ≤ j * n - j * (j - 1) / 2 + (i - j) ∧ j * n - j * (j - 1) / 2 + (i - j) < n * (n + 1) / 2 :=
  off_bounds h

/-- `compute_pointer`: consecutive column pointers differ by the column length (`head += m_n - i`), from 0 up to the array size. -/
theorem c10_colptr (n j : Int) : colptr n 0 = 0 ∧ colptr n (j + 1) = colptr n j + (n - j) ∧ colptr n n = packedSize n :=
  ⟨colptr_zero n, colptr_succ n j, colptr_n n⟩

/-- Index safety of the factorization: for every size, every input, every scalar type and every outcome of every comparison
    (hence every pivot-decision sequence), all accesses `coeff(i,j)` performed by `compute` (copy_data incl. the running `dest`
    pointer, pivot search, interchanges, both eliminations, the final block) satisfy `0 ≤ j ≤ i < n`, and all `m_perm[i]`
    accesses satisfy `0 ≤ i < n`. -/
theorem c10_index_safe_compute (src : Array α) (rowMajor : Bool) (n uplo : Int) (shift alpha : α) :
    (compute src rowMajor n uplo shift alpha).s.ok = true ∧ (compute src rowMajor n uplo shift alpha).s.n = n :=
  ⟨(compute_good src rowMajor n uplo shift alpha).2, (compute_good src rowMajor n uplo shift alpha).1⟩

/-- … and of `solve_inplace` on the result of `compute`: every `coeff(i,j)` has `0 ≤ j ≤ i < n`, every `m_perm[i]` and every
    `x[i]` has `0 ≤ i < n` — forward substitution, block-diagonal solve (a 2x2 block never starts at the last row), backward
    substitution (a negative `m_perm[i]` is only met at the second row of a pair, so column `i-1` exists), both permutation passes.
    Rests on the block structure of `m_perm` that `compute` establishes for EVERY pivot-decision sequence (`c10_perm_blocks`). -/
theorem c10_index_safe (src : Array α) (rowMajor : Bool) (n uplo : Int) (shift alpha : α) (b : Array α) (hn : 1 ≤ n) :
    (solve_inplace (compute src rowMajor n uplo shift alpha) b).s.ok = true :=
  solve_good src rowMajor n uplo shift alpha b hn

/-- `m_perm` after `compute`, for every input and every pivot decision: `n` entries, tiled from the left and from the right by 1x1
    blocks (entry ≥ 0) and 2x2 blocks (two consecutive negative entries), every entry decoding to a position in `[0, n)`. -/
theorem c10_perm_blocks (src : Array α) (rowMajor : Bool) (n uplo : Int) (shift alpha : α) (hn : 0 ≤ n) :
    let f := compute src rowMajor n uplo shift alpha
    f.s.perm.size = n.toNat ∧ Tl (pfn f.s) 0 n ∧ Pre (pfn f.s) n ∧ ∀ i, 0 ≤ i → i < n → -n ≤ pfn f.s i ∧ pfn f.s i < n := by
  intro f
  have h := compute_pinv src rowMajor n uplo shift alpha hn
  exact ⟨h.1, h.2.1, h.2.2.1, h.2.2.2.2⟩

/-- the flag really records violations: an out-of-range access switches it off for good (non-vacuity of `ok`) -/
example : ((initSt (α := Float) 3).get 3 0).2.ok = false := by decide
example : ((initSt (α := Float) 3).wr 1 2 0.0).ok = false := by decide
example : ((initSt (α := Float) 3).wr 2 1 0.0).ok = true := by decide

end index

/-! ### (2) permutation round trip -/

section perm
variable {α : Type} [Add α] [Sub α] [Mul α] [Div α] [Neg α] [Sc α]

/-- Step 5 of `solve_inplace` undoes step 1: for every compressed permutation whose entries are legal positions of the
    vector (which `c10_permc_in_range` shows for every `m_perm` produced by `compute`), applying the swaps and then the swaps in
    reverse order returns the original vector. -/
theorem c10_perm_inverse (x : Array α) (s : St α) (pc : List (Int × Int))
    (h : ∀ ab ∈ pc, 0 ≤ ab.1 ∧ ab.1 < x.size ∧ 0 ≤ ab.2 ∧ ab.2 < x.size) :
    (applyPermc (applyPermc ⟨x, s⟩ pc) pc.reverse).x = x :=
  perm_round_trip x s pc h

/-- every pair produced by the translated `compress_permutation` is `(i, decode (m_perm i))` with `0 ≤ i < n` -/
theorem c10_permc_in_range (perm : Int → Int) (n : Int) (hp : ∀ i, 0 ≤ i → i < n → (0 ≤ perm i ∧ perm i < n) ∨ (perm i < 0 ∧ -perm i - 1 < n)) :
    ∀ ab ∈ compress_permutation perm n, 0 ≤ ab.1 ∧ ab.1 < n ∧ 0 ≤ ab.2 ∧ ab.2 < n :=
  permc_in_range perm n hp

end perm

/-! ### (3) the 2x2 block solve / inverse (translated from the header) -/

section solve2
variable {K : Type} [Field K]

/-- Any field, any `Sc` instance (so the row-exchange decision is an arbitrary oracle): if the pivot used as divisor and the
    determinant are nonzero, `solve_inplace_2x2` returns the solution of `E x = b`, `E = [e11 e21; e21 e22]` — both branches. -/
theorem c10_solve2 [Sc K] (e11 e21 e22 b1 b2 : K)
    (hp : if Sc.ge (Sc.abs e11) (Sc.abs e21) then e11 ≠ 0 else e21 ≠ 0) (hdet : e11 * e22 - e21 * e21 ≠ 0) :
    e11 * (solve_inplace_2x2 e11 e21 e22 b1 b2).1 + e21 * (solve_inplace_2x2 e11 e21 e22 b1 b2).2 = b1 ∧
    e21 * (solve_inplace_2x2 e11 e21 e22 b1 b2).1 + e22 * (solve_inplace_2x2 e11 e21 e22 b1 b2).2 = b2 :=
  C10S.solve2_any e11 e21 e22 b1 b2 hp hdet

/-- same for the column version used by the 2x2 elimination (`solve_left_2x2`, hand model): `x E = c` -/
theorem c10_solve_left2 [Sc K] (e11 e21 e22 c1 c2 : K)
    (hp : if Sc.ge (Sc.abs e11) (Sc.abs e21) then e11 ≠ 0 else e21 ≠ 0) (hdet : e11 * e22 - e21 * e21 ≠ 0) :
    (solve_left_2x2 e11 e21 e22 c1 c2).1 * e11 + (solve_left_2x2 e11 e21 e22 c1 c2).2 * e21 = c1 ∧
    (solve_left_2x2 e11 e21 e22 c1 c2).1 * e21 + (solve_left_2x2 e11 e21 e22 c1 c2).2 * e22 = c2 :=
  C10S.solve_left2_any e11 e21 e22 c1 c2 hp hdet

/-- `inverse_inplace_2x2` returns `E⁻¹` whenever `det E ≠ 0` (any field) -/
theorem c10_inv2 [Sc K] (e11 e21 e22 : K) (hdet : e11 * e22 - e21 * e21 ≠ 0) :
    let d := inverse_inplace_2x2 e11 e21 e22
    e11 * d.1 + e21 * d.2.1 = 1 ∧ e11 * d.2.1 + e21 * d.2.2 = 0 ∧
    e21 * d.1 + e22 * d.2.1 = 0 ∧ e21 * d.2.1 + e22 * d.2.2 = 1 :=
  C10S.inv2_any e11 e21 e22 hdet

end solve2

section ordered
variable {K : Type} [Field K] [LinearOrder K] [IsStrictOrderedRing K] (F : FieldFns K)

/-- With the real comparison `|e11| ≥ |e21|` (exact arithmetic over any ordered field) the divisor is automatically nonzero:
    `det E ≠ 0` alone suffices. -/
theorem c10_solve2_ordered (e11 e21 e22 b1 b2 : K) (hdet : e11 * e22 - e21 * e21 ≠ 0) :
    e11 * (@solve_inplace_2x2 K _ _ _ _ _ (scOfField F) e11 e21 e22 b1 b2).1 + e21 * (@solve_inplace_2x2 K _ _ _ _ _ (scOfField F) e11 e21 e22 b1 b2).2 = b1 ∧
    e21 * (@solve_inplace_2x2 K _ _ _ _ _ (scOfField F) e11 e21 e22 b1 b2).1 + e22 * (@solve_inplace_2x2 K _ _ _ _ _ (scOfField F) e11 e21 e22 b1 b2).2 = b2 :=
  C10S.solve2_ordered F e11 e21 e22 b1 b2 hdet

example : (3 : ℚ) * 2 - 1 * 1 ≠ 0 := by norm_num

/-! ### (4) status -/

/-- 1x1 elimination: `NumericalIssue` iff the pivot is exactly zero, otherwise `Successful` (translated test) -/
theorem c10_status_ge1 (akk : K) :
    (@ge1_status K _ _ _ _ _ (scOfField F) akk = NumericalIssue ↔ akk = 0) ∧
    (@ge1_status K _ _ _ _ _ (scOfField F) akk = Successful ↔ akk ≠ 0) := C10S.ge1_status_iff F akk

/-- 2x2 elimination: `NumericalIssue` iff the block is exactly singular, otherwise `Successful` (translated test) -/
theorem c10_status_ge2 (e11 e21 e22 : K) :
    (@ge2_status K _ _ _ _ _ (scOfField F) e11 e21 e22 = NumericalIssue ↔ e11 * e22 - e21 * e21 = 0) ∧
    (@ge2_status K _ _ _ _ _ (scOfField F) e11 e21 e22 = Successful ↔ e11 * e22 - e21 * e21 ≠ 0) := C10S.ge2_status_iff F e11 e21 e22

/-- the status statements of `compute` (translated): the status is `Successful` when the pivot loop is entered (this is what makes
    `n = 1` report `Successful`: fix 09507a4), the loop is left exactly on a non-`Successful` status, and the trailing block turns
    a zero last 1x1 pivot into `NumericalIssue` and changes nothing otherwise. -/
theorem c10_status_compute (m_n k info : Int) (akk : K) :
    compute_init_info info = Successful ∧
    (compute_break info = true ↔ info ≠ Successful) ∧
    @compute_final_info K _ _ _ _ _ (scOfField F) m_n k info akk = (if k = m_n - 1 ∧ akk = 0 then NumericalIssue else info) :=
  C10S.compute_status F m_n k info akk

/-- `n = 1` (no elimination step runs): `info()` is `Successful` for a nonzero shifted entry and `NumericalIssue` for a zero one. -/
theorem c10_status_n1 (src : Array K) (rowMajor : Bool) (uplo : Int) (shift alpha : K) :
    letI : Sc K := scOfField F
    (compute src rowMajor 1 uplo shift alpha).info =
      (if (copy_data (initSt 1) src rowMajor uplo shift).rd 0 0 = 0 then NumericalIssue else Successful) :=
  C10S.status_n1 F src rowMajor uplo shift alpha

end ordered

/-- The pivot loop, any scalar type: it stops at the first elimination whose status is not `Successful` and that status is the
    loop's result; if every elimination succeeds the result is `Successful`.  So `info()` after `compute` is always `Successful`
    or the non-`Successful` status of an elimination / of the trailing block. -/
theorem c10_status_loop {α : Type} [Add α] [Sub α] [Mul α] [Div α] [Neg α] [Sc α] (alpha : α) (fuel : Nat) (k : Int) (s : St α) (tags : List Nat) :
    (computeLoop alpha fuel k Successful s tags).2.1 = Successful ∨
    (computeLoop alpha fuel k Successful s tags).2.1 = NumericalIssue :=
  loop_status alpha fuel k s tags

/-- After `compute`, `info()` is `Successful` or `NumericalIssue` — in particular never `NotComputed` — for every size incl. `n = 1`
    (F8, fix 09507a4), every input and every scalar type. -/
theorem c10_status_total {α : Type} [Add α] [Sub α] [Mul α] [Div α] [Neg α] [Sc α] (src : Array α) (rowMajor : Bool) (n uplo : Int) (shift alpha : α) :
    (compute src rowMajor n uplo shift alpha).info = Successful ∨ (compute src rowMajor n uplo shift alpha).info = NumericalIssue :=
  compute_info_total src rowMajor n uplo shift alpha

/-- wrappers: `DenseSymShiftSolve::set_shift` and `SymShiftInvert::set_shift` (dense branch) throw `std::invalid_argument`
    exactly when `info() ≠ Successful`, and return normally otherwise (translated guards). -/
theorem c10_wrapper_throws (info : Int) :
    (dense_set_shift_guard info = Res.throw "std::invalid_argument" ↔ info ≠ Successful) ∧
    (dense_set_shift_guard info = Res.ok () ↔ info = Successful) ∧
    (symshift_set_shift_guard (symshift_factorize_ok info) = Res.throw "std::invalid_argument" ↔ info ≠ Successful) ∧
    (symshift_set_shift_guard (symshift_factorize_ok info) = Res.ok () ↔ info = Successful) :=
  C10S.wrapper_guards info

/-! ### (5) Lower / Upper -/

/-- For a symmetric input (`src(i,j) = src(j,i)` on the stored values, `0 ≤ j ≤ i < n`), the packed copy made from `Upper` equals
    the one made from `Lower` — the whole state: every packed entry, `m_perm`, and the access flag — in either storage order, for
    every scalar type (so also bit for bit in floating point).  Column-major `Lower` is the `std::copy` fast path, everything else
    the element loop with the running `dest` pointer; the proof shows `dest` is the column pointer `j·n − j(j−1)/2`. -/
theorem c10_uplo_equal {α : Type} [Add α] [Sub α] [Mul α] [Div α] [Neg α] [Sc α] (src : Array α) (rowMajor : Bool) (n : Int) (shift : α)
    (hsym : ∀ i j, 0 ≤ j → j ≤ i → i < n → srcCoeff src rowMajor n i j = srcCoeff src rowMajor n j i) :
    copy_data (initSt n) src rowMajor 2 shift = copy_data (initSt n) src rowMajor 1 shift :=
  uplo_equal src rowMajor n shift hsym

/-- hence the whole factorization and every solve agree -/
theorem c10_uplo_equal_compute {α : Type} [Add α] [Sub α] [Mul α] [Div α] [Neg α] [Sc α] (src : Array α) (rowMajor : Bool) (n : Int) (shift alpha : α)
    (hsym : ∀ i j, 0 ≤ j → j ≤ i → i < n → srcCoeff src rowMajor n i j = srcCoeff src rowMajor n j i) :
    compute src rowMajor n 2 shift alpha = compute src rowMajor n 1 shift alpha := by
  unfold compute; rw [uplo_equal src rowMajor n shift hsym]

/-! ### (6) one elimination step is the Schur-complement step -/

section elim
variable {K : Type} [Field K]

/-- 1x1 step as the code computes it: with `c = l_j / a`, the update `b − c·l_i` is the Schur complement entry `b − l_i l_j / a`,
    the stored multiplier is `l_i / a`, and `A = L·diag(a, S)·Lᵀ` holds entrywise: `l_i' · a · l_j' + S_ij = b`. -/
theorem c10_elim1 (a li lj b : K) (ha : a ≠ 0) :
    b - (lj / a) * li = b - li * lj / a ∧ (li / a) * a * (lj / a) + (b - (lj / a) * li) = b ∧ (li / a) * a = li :=
  C10S.elim1 a li lj b ha

/-- 2x2 step: with `(x1, x2) = (l1 l2)·E⁻¹` (as `solve_left_2x2` returns them), the update `b − (x1·l1j + x2·l2j)` is the Schur
    complement entry, and `X E = l`, i.e. `L D Lᵀ` reproduces the block column and `b`. -/
theorem c10_elim2 [Sc K] (e11 e21 e22 l1i l2i l1j l2j b : K)
    (hp : if Sc.ge (Sc.abs e11) (Sc.abs e21) then e11 ≠ 0 else e21 ≠ 0) (hdet : e11 * e22 - e21 * e21 ≠ 0) :
    let xi := solve_left_2x2 e11 e21 e22 l1i l2i
    let xj := solve_left_2x2 e11 e21 e22 l1j l2j
    (xi.1 * e11 + xi.2 * e21 = l1i ∧ xi.1 * e21 + xi.2 * e22 = l2i) ∧
    ((xi.1 * e11 + xi.2 * e21) * xj.1 + (xi.1 * e21 + xi.2 * e22) * xj.2 + (b - (xi.1 * l1j + xi.2 * l2j)) = b) :=
  C10S.elim2 e11 e21 e22 l1i l2i l1j l2j b hp hdet

end elim

section elim_model
variable {α : Type} [Add α] [Sub α] [Mul α] [Div α] [Neg α] [Sc α]

/-- The 1x1 elimination of the MODEL, entry by entry, for every scalar type (read-over-write reasoning on the packed array, all `n`,
    all `k`): if the pivot test passes, column `k` below the diagonal holds the multipliers `A(i,k)/a_kk`, every entry right of
    column `k` holds `A(i,j) − (A(j,k)/a_kk)·A(i,k)` — by `c10_elim1` the Schur complement — and nothing else changes. -/
theorem c10_elim1_model (n : Int) (s : St α) (k : Int) (hs : s.n = n ∧ s.data.size = (packedSize n).toNat) (hk : 0 ≤ k) (hkn : k < n)
    (hst : ge1_status (s.rd k k) = Successful) :
    (gaussian_elimination_1x1 s k).1 = Successful ∧
    ∀ i j, 0 ≤ j → j ≤ i → i < n → (gaussian_elimination_1x1 s k).2.rd i j =
      if j = k ∧ k < i then s.rd i k / s.rd k k
      else if k < j then s.rd i j - (s.rd j k / s.rd k k) * s.rd i k
      else s.rd i j :=
  elim1_model hs hk hkn hst

/-- The 2x2 elimination of the MODEL, entry by entry: with `X(i) = (A(i,k), A(i,k+1))·E⁻¹` (`solve_left_2x2`, see `c10_solve_left2`),
    rows `i ≥ k+2` of columns `k`, `k+1` hold `X(i)`, every entry right of column `k+1` holds
    `A(i,j) − (X(i)₁·A(j,k) + X(i)₂·A(j,k+1))` — by `c10_elim2` the Schur complement w.r.t. the 2x2 block — nothing else changes. -/
theorem c10_elim2_model (n : Int) (s : St α) (k : Int) (hs : s.n = n ∧ s.data.size = (packedSize n).toNat) (hk : 0 ≤ k) (hkn : k + 1 < n)
    (hst : ge2_status (s.rd k k) (s.rd (k + 1) k) (s.rd (k + 1) (k + 1)) = Successful) :
    (gaussian_elimination_2x2 s k).1 = Successful ∧
    ∀ i j, 0 ≤ j → j ≤ i → i < n → (gaussian_elimination_2x2 s k).2.rd i j =
      if j = k ∧ k + 2 ≤ i then (solve_left_2x2 (s.rd k k) (s.rd (k + 1) k) (s.rd (k + 1) (k + 1)) (s.rd i k) (s.rd i (k + 1))).1
      else if j = k + 1 ∧ k + 2 ≤ i then (solve_left_2x2 (s.rd k k) (s.rd (k + 1) k) (s.rd (k + 1) (k + 1)) (s.rd i k) (s.rd i (k + 1))).2
      else if k + 1 < j then s.rd i j -
        ((solve_left_2x2 (s.rd k k) (s.rd (k + 1) k) (s.rd (k + 1) (k + 1)) (s.rd i k) (s.rd i (k + 1))).1 * s.rd j k +
         (solve_left_2x2 (s.rd k k) (s.rd (k + 1) k) (s.rd (k + 1) (k + 1)) (s.rd i k) (s.rd i (k + 1))).2 * s.rd j (k + 1))
      else s.rd i j :=
  elim2_model hs hk hkn hst

/-- the size hypothesis holds for the state `compute` starts from (and every model operation preserves it) -/
example (n : Int) : (initSt (α := α) n).n = n ∧ (initSt (α := α) n).data.size = (packedSize n).toNat := initSt_sized n

/-- distinct legal `coeff(i,j)` live at distinct offsets (the packed layout is injective on the lower triangle) -/
theorem c10_offset_injective (n i j i' j' : Int) (h : 0 ≤ j ∧ j ≤ i ∧ i < n) (h' : 0 ≤ j' ∧ j' ≤ i' ∧ i' < n)
    (e : off n i j = off n i' j') : i = i' ∧ j = j' := off_inj h h' e

/-- `pivoting_1x1(k, r)` of the MODEL is the symmetric interchange `k ↔ r` of the trailing block: reading the packed lower triangle
    as the symmetric matrix `M(a,b) = coeff(max a b, min a b)`, afterwards `M'(i,j) = M(τ i, τ j)` for all `k ≤ j ≤ i < n` with `τ`
    the transposition `(k r)`; columns left of `k` (the finished part of `L`, permuted separately by `interchange_rows`) are untouched.
    All three pointer loops (diagonal swap, `swap_ranges` below row `r`, the column-`k`/row-`r` exchange) are covered; any scalar type. -/
theorem c10_pivot_sym (n : Int) (s : St α) (k r : Int) (hs : s.n = n ∧ s.data.size = (packedSize n).toNat) (hk : 0 ≤ k) (hkr : k ≤ r) (hr : r < n) :
    ∀ i j, 0 ≤ j → j ≤ i → i < n →
      (pivoting_1x1 s k r).rd i j = if k ≤ j then symrd s (tr k r i) (tr k r j) else s.rd i j :=
  (pivoting_1x1_spec hs hk hkr hr).2

/-- the 2x2 pivot as the code performs it (`p = k`): the symmetric interchange `k+1 ↔ r` of the trailing block `A[k:, k:]`
    (two `pivoting_1x1` calls plus the extra swap of `coeff(k+1,k)` with `coeff(r,k)`) -/
theorem c10_pivot2_sym (n : Int) (s : St α) (k r : Int) (hs : s.n = n ∧ s.data.size = (packedSize n).toNat) (hk : 0 ≤ k) (hr1 : k + 1 ≤ r) (hr : r < n) :
    ∀ i j, 0 ≤ j → j ≤ i → i < n →
      (pivoting_2x2 s k r k).rd i j = if k ≤ j then symrd s (tr (k + 1) r i) (tr (k + 1) r j) else s.rd i j :=
  (pivoting_2x2_spec hs hk hr1 hr).2

/-- `interchange_rows(r1, r2, c1, c2)` exchanges rows `r1`, `r2` in columns `c1..c2` (the permutation applied to the finished part of `L`) -/
theorem c10_interchange_rows (n : Int) (s : St α) (r1 r2 c1 c2 : Int) (hs : s.n = n ∧ s.data.size = (packedSize n).toNat)
    (hc : 0 ≤ c1) (h1 : c2 < r1) (h2 : r1 ≤ r2) (h3 : r2 < n) :
    ∀ i j, 0 ≤ j → j ≤ i → i < n → (interchange_rows s r1 r2 c1 c2).rd i j =
      if c1 ≤ j ∧ j ≤ c2 ∧ i = r1 then s.rd r2 j else if c1 ≤ j ∧ j ≤ c2 ∧ i = r2 then s.rd r1 j else s.rd i j :=
  (interchange_rows_spec hs hc h1 h2 h3).2

end elim_model

/-! ### (7) the complex Hermitian instantiation `BKLDLT<std::complex<R>>` (Model/BKLDLTC.lean, bit-exact against the code) -/

section cplx
open BKLDLTC (Cx conjC realC)
variable {β : Type} [Add β] [Sub β] [Mul β] [Div β] [Neg β] [Sc β]

/-- Index safety of the complex factorization, for every real scalar type `β`, every `Sc β` instance (every outcome of every
    `abs`/comparison, hence every pivot-decision sequence), every input: all `coeff(i,j)` accesses of `compute` — copy_data incl.
    the running `dest` pointer, pivot search, the interchanges with their conjugation loops, both eliminations, the last block —
    satisfy `0 ≤ j ≤ i < n`, all `m_perm[i]` accesses `0 ≤ i < n`. -/
theorem c10_index_safe_compute_complex (src : Array (Cx β)) (rowMajor : Bool) (n uplo : Int) (shift alpha : β) :
    (BKLDLTC.compute src rowMajor n uplo shift alpha).s.ok = true ∧ (BKLDLTC.compute src rowMajor n uplo shift alpha).s.n = n :=
  ⟨(BKLDLTC.compute_good src rowMajor n uplo shift alpha).2, (BKLDLTC.compute_good src rowMajor n uplo shift alpha).1⟩

/-- … and of the complex `solve_inplace` on the result of `compute` (forward substitution, block-diagonal solve, backward
    substitution with the conjugating `dot`, both permutation passes) -/
theorem c10_index_safe_complex (src : Array (Cx β)) (rowMajor : Bool) (n uplo : Int) (shift alpha : β) (b : Array (Cx β)) (hn : 1 ≤ n) :
    (BKLDLTC.solve_inplace (BKLDLTC.compute src rowMajor n uplo shift alpha) b).s.ok = true :=
  BKLDLTC.solve_good src rowMajor n uplo shift alpha b hn

/-- `m_perm` after the complex `compute`: the same 1x1/2x2 tiling with entries decoding into `[0, n)` -/
theorem c10_perm_blocks_complex (src : Array (Cx β)) (rowMajor : Bool) (n uplo : Int) (shift alpha : β) (hn : 0 ≤ n) :
    let f := BKLDLTC.compute src rowMajor n uplo shift alpha
    f.s.perm.size = n.toNat ∧ Tl (pfn f.s) 0 n ∧ Pre (pfn f.s) n ∧ ∀ i, 0 ≤ i → i < n → -n ≤ pfn f.s i ∧ pfn f.s i < n := by
  intro f
  have h := BKLDLTC.compute_pinv src rowMajor n uplo shift alpha hn
  exact ⟨h.1, h.2.1, h.2.2.1, h.2.2.2.2⟩

/-- status of the complex pivot loop and of `compute`: `Successful` or `NumericalIssue`, never `NotComputed`, every size incl. 1 -/
theorem c10_status_loop_complex (alpha : β) (fuel : Nat) (k : Int) (s : St (Cx β)) (tags : List Nat) :
    (BKLDLTC.computeLoop alpha fuel k Successful s tags).2.1 = Successful ∨
    (BKLDLTC.computeLoop alpha fuel k Successful s tags).2.1 = NumericalIssue :=
  BKLDLTC.loop_status alpha fuel k s tags

theorem c10_status_total_complex (src : Array (Cx β)) (rowMajor : Bool) (n uplo : Int) (shift alpha : β) :
    (BKLDLTC.compute src rowMajor n uplo shift alpha).info = Successful ∨ (BKLDLTC.compute src rowMajor n uplo shift alpha).info = NumericalIssue :=
  BKLDLTC.compute_info_total src rowMajor n uplo shift alpha

/-- The branch condition of `copy_data` as TRANSLATED from the header: the `std::copy` path (which copies memory verbatim, without
    the conjugation of the element loop) is taken for column-major + `Lower` and for nothing else — in particular never for `Upper`.
    (A fast path extended to row-major + `Upper` changes the regenerated `copy_fast_path` and this theorem fails.) -/
theorem c10_copy_fast_path (rowMajor : Bool) (uplo : Int) :
    copy_fast_path rowMajor uplo = ((!rowMajor) && decide (uplo = 1)) ∧ copy_fast_path rowMajor 2 = false :=
  ⟨BKLDLTC.copy_fast_path_spec rowMajor uplo, by rw [BKLDLTC.copy_fast_path_spec]; exact BKLDLTC.fast_upper rowMajor⟩

/-- Lower ≡ Upper for Hermitian input, complex scalars: if the stored upper triangle is the conjugate of the stored lower triangle
    (`conj(src(j,i)) = src(i,j)` for `0 ≤ j ≤ i < n`, with the TRANSLATED `ScalarOp<std::complex<R>>::conj`), the packed copy made
    from `Upper` equals the one made from `Lower` — the whole state, entry for entry, in BOTH storage orders, for every real scalar
    type (no field axioms used: also bit for bit in floating point, where the hypothesis for `j = i` asks the imaginary part `y` of
    a diagonal entry to satisfy `-y = y`, which a float zero does not: there the diagonal imaginary parts may differ in the sign
    of zero until `ScalarOp::real` erases them in the elimination).  Column-major `Lower` is the `std::copy` path, the other three
    combinations the element loop; the conjugation on the `Upper` path is what makes this true. -/
theorem c10_uplo_equal_complex (src : Array (Cx β)) (rowMajor : Bool) (n : Int) (shift : β)
    (hherm : ∀ i j, 0 ≤ j → j ≤ i → i < n → conjC (BKLDLTC.srcCoeff src rowMajor n j i) = BKLDLTC.srcCoeff src rowMajor n i j) :
    BKLDLTC.copy_data (initSt n) src rowMajor 2 shift = BKLDLTC.copy_data (initSt n) src rowMajor 1 shift :=
  BKLDLTC.uplo_equal_complex src rowMajor n shift hherm

/-- hence the whole complex factorization and every solve agree -/
theorem c10_uplo_equal_compute_complex (src : Array (Cx β)) (rowMajor : Bool) (n : Int) (shift alpha : β)
    (hherm : ∀ i j, 0 ≤ j → j ≤ i → i < n → conjC (BKLDLTC.srcCoeff src rowMajor n j i) = BKLDLTC.srcCoeff src rowMajor n i j) :
    BKLDLTC.compute src rowMajor n 2 shift alpha = BKLDLTC.compute src rowMajor n 1 shift alpha := by
  unfold BKLDLTC.compute; rw [BKLDLTC.uplo_equal_complex src rowMajor n shift hherm]

end cplx

/-- the translated complex `ScalarOp`: `conj` negates the imaginary part and is an involution, `real` zeroes it (any ring) -/
theorem c10_scalarop_complex {R : Type} [Ring R] [Div R] [Sc R] (z : R × R) :
    scalarop_conj_c z = (z.1, -z.2) ∧ scalarop_conj_c (scalarop_conj_c z) = z ∧ scalarop_real_c z = (z.1, Sc.ofInt 0) := by
  refine ⟨rfl, ?_, rfl⟩
  simp [scalarop_conj_c, Sc.conj]

/-- the Hermitian hypothesis of `c10_uplo_equal_complex` is satisfiable with genuinely complex entries: `[[2, 1-3i], [1+3i, 5]]` over ℚ -/
example : letI : Sc ℚ := scOfField ⟨id, fun x _ => x, 1, 1⟩
    ∀ i j : Int, 0 ≤ j → j ≤ i → i < 2 →
    BKLDLTC.conjC (BKLDLTC.srcCoeff (β := ℚ) #[⟨2, 0⟩, ⟨1, 3⟩, ⟨1, -3⟩, ⟨5, 0⟩] false 2 j i) =
      BKLDLTC.srcCoeff #[⟨2, 0⟩, ⟨1, 3⟩, ⟨1, -3⟩, ⟨5, 0⟩] false 2 i j := by
  intro i j h0 h1 h2
  have hi : i = 0 ∨ i = 1 := by omega
  have hj : j = 0 ∨ j = 1 := by omega
  rcases hi with rfl | rfl <;> rcases hj with rfl | rfl <;>
    first | omega | simp [BKLDLTC.conjC, BKLDLTC.srcCoeff, BKLDLTC.ofPair, BKLDLTC.toPair, scalarop_conj_c, Sc.conj, srcIdx]

/-! ### (8) tier 3: the global identity of the factorization and the correctness of `solve` (real model, exact arithmetic) -/

section tier3

/-- What the packed array means after `compute` (definitions in Proofs/C10FactorDefs.lean): `Lent` is UNIT LOWER TRIANGULAR —
    block-unit for 2x2 pivots: the sub-diagonal entry of a 2x2 block is `0` in `L` — with the stored multipliers below;
    `Dent` is BLOCK DIAGONAL with the stored 1x1 entries and the stored symmetric 2x2 blocks `[d11 d21; d21 d22]`, zero elsewhere.
    `kind (pfn s) c` ∈ {0: 1x1 block, 1: first row of a 2x2 block, 2: second row} is read from the signs in `m_perm`. -/
theorem c10_LD_structure {K : Type} [Field K] [Sc K] (s : St K) (i j : Int) :
    Lent s i i = 1 ∧ (i < j → Lent s i j = 0) ∧ (kind (pfn s) j = 1 → Lent s (j + 1) j = 0) ∧
    (j < i → ¬(kind (pfn s) j = 1 ∧ i = j + 1) → Lent s i j = s.rd i j) ∧
    Dent s i i = s.rd i i ∧ (kind (pfn s) j = 1 → Dent s (j + 1) j = s.rd (j + 1) j ∧ Dent s j (j + 1) = s.rd (j + 1) j) ∧
    (i ≠ j → ¬(i = j + 1 ∧ kind (pfn s) j = 1) → ¬(j = i + 1 ∧ kind (pfn s) i = 1) → Dent s i j = 0) := by
  refine ⟨by simp [Lent], fun h => ?_, fun h => ?_, fun h1 h2 => ?_, by simp [Dent], fun h => ⟨?_, ?_⟩, fun h1 h2 h3 => ?_⟩
  · unfold Lent; rw [if_neg (by omega), if_pos h]
  · unfold Lent; rw [if_neg (by omega), if_neg (by omega), if_pos ⟨h, rfl⟩]
  · unfold Lent; rw [if_neg (by omega), if_neg (by omega), if_neg h2]
  · unfold Dent; rw [if_neg (by omega), if_pos ⟨rfl, h⟩]
  · unfold Dent; rw [if_neg (by omega), if_neg (by omega), if_pos ⟨rfl, h⟩]
  · unfold Dent; rw [if_neg h1, if_neg h2, if_neg h3]

variable {K : Type} [Field K] [LinearOrder K] [IsStrictOrderedRing K] (F : FieldFns K)

/-- TIER 3, factorization (exact arithmetic over any linearly ordered field, every size, every input, EVERY pivot-decision sequence:
    all five branches of `permutate_mat`, 1x1 and 2x2 pivots, arbitrary interchanges; induction over the pivot loop with the
    per-step lemmas `c10_pivot_sym`, `c10_pivot2_sym`, `c10_interchange_rows`, `c10_elim1_model`, `c10_elim2_model`):
    if `compute` reports `Successful`, then   P (A − σI) Pᵀ = L D Lᵀ   entry by entry, where
      * `shiftedSym src … a b` is the symmetric matrix `A − σI` read from the triangle of the input selected by `uplo`,
      * `permFn f.permc` is the index map of the compressed permutation (`(P x)[i] = x[permFn f.permc i]`), a bijection of `[0,n)`,
      * `L`, `D` are `Lent`, `Dent` of the final packed array (`c10_LD_structure`), and every block of `D` is nonsingular.
    `_partial`: exact arithmetic only — nothing is claimed about the rounded factorization (the harness checks the residual). -/
theorem c10_factor_partial (src : Array K) (rowMajor : Bool) (n uplo : Int) (shift alpha : K) (hn : 1 ≤ n) :
    letI : Sc K := scOfField F
    (compute src rowMajor n uplo shift alpha).info = Successful →
    let f := compute src rowMajor n uplo shift alpha
    (∀ i j, 0 ≤ i → i < n → 0 ≤ j → j < n →
      shiftedSym src rowMajor n uplo shift (permFn f.permc i) (permFn f.permc j) = LDLt f.s n i j) ∧
    ((∀ i, 0 ≤ i → i < n → 0 ≤ permFn f.permc i ∧ permFn f.permc i < n) ∧ (∀ i j, permFn f.permc i = permFn f.permc j → i = j)) ∧
    (∀ c, 0 ≤ c → c < n → (kind (pfn f.s) c = 0 → f.s.rd c c ≠ 0) ∧
      (kind (pfn f.s) c = 1 → f.s.rd c c * f.s.rd (c + 1) (c + 1) - f.s.rd (c + 1) c * f.s.rd (c + 1) c ≠ 0)) :=
  fun hinfo => ⟨factor_identity_src F src rowMajor n uplo shift alpha hn hinfo, BKLDLT.permFn_bij F src rowMajor n uplo shift alpha (by omega),
    factor_D_nonsing F src rowMajor n uplo shift alpha hn hinfo⟩

omit [IsStrictOrderedRing K] in
/-- `shiftedSym` is `A − σI`: the stored triangle of the input, mirrored, minus the shift on the diagonal -/
theorem c10_shiftedSym (src : Array K) (rowMajor : Bool) (n uplo : Int) (shift : K) (a b : Int) [Sc K] :
    shiftedSym src rowMajor n uplo shift a b = shiftedSym src rowMajor n uplo shift b a ∧
    (b ≤ a → shiftedSym src rowMajor n uplo shift a b =
      (if uplo = 1 then srcCoeff src rowMajor n a b else srcCoeff src rowMajor n b a) - (if a = b then shift else 0)) := by
  refine ⟨?_, fun h => by simp [shiftedSym, tgt, srcTri, h]⟩
  unfold shiftedSym
  by_cases h1 : b ≤ a <;> by_cases h2 : a ≤ b
  · have : a = b := by omega
    subst this; rfl
  · rw [if_pos h1, if_neg h2]
  · rw [if_neg h1, if_pos h2]
  · omega

/-- the same identity as a Mathlib matrix equation over `Fin n`: `(A − σI).submatrix π π = L * D * Lᵀ` for the permutation `π` of `Fin n`
    given by `m_perm` (`A.submatrix π π = P A Pᵀ` for the permutation matrix `P` of `π`) -/
theorem c10_factor_matrix_partial (src : Array K) (rowMajor : Bool) (n uplo : Int) (shift alpha : K) (hn : 1 ≤ n) :
    letI : Sc K := scOfField F
    (compute src rowMajor n uplo shift alpha).info = Successful →
    let f := compute src rowMajor n uplo shift alpha
    ∀ π : Fin n.toNat → Fin n.toNat, (∀ i, ((π i : Nat) : Int) = permFn f.permc ((i : Nat) : Int)) →
      (Matrix.of fun (i j : Fin n.toNat) => shiftedSym src rowMajor n uplo shift ((i : Nat) : Int) ((j : Nat) : Int)).submatrix π π =
        (Matrix.of fun (i j : Fin n.toNat) => Lent f.s ((i : Nat) : Int) ((j : Nat) : Int)) *
        (Matrix.of fun (i j : Fin n.toNat) => Dent f.s ((i : Nat) : Int) ((j : Nat) : Int)) *
        (Matrix.of fun (i j : Fin n.toNat) => Lent f.s ((i : Nat) : Int) ((j : Nat) : Int)).transpose := by
  intro hinfo f π hπ
  have hid := factor_identity_src F src rowMajor n uplo shift alpha hn hinfo
  ext i j
  have hi := i.2; have hj := j.2
  rw [Matrix.submatrix_apply, Matrix.of_apply, hπ i, hπ j, hid _ _ (by omega) (by omega) (by omega) (by omega)]
  simp only [Matrix.mul_apply, Matrix.transpose_apply, Matrix.of_apply, LDLt]
  rw [Finset.sum_comm, Finset.sum_range]
  refine Finset.sum_congr rfl (fun c' _ => ?_)
  rw [Finset.sum_range, Finset.sum_mul]

/-- TIER 3, solve (same setting): if `compute` reports `Successful`, the five phases of `solve_inplace` — `P b`, forward substitution
    with the (block-)unit `L`, the block-diagonal solve (1x1 division / translated `solve_inplace_2x2`), backward substitution with
    `Lᵀ`, `Pᵀ` — compose to a solution of `(A − σI) x = b`:  ∑ⱼ (A − σI)(i,j) · x[j] = b[i]  for every row `i`.
    Proved from the identity and the nonsingular `D` blocks of `c10_factor_partial` (`BKLDLT.SolveC.solve_correct` takes exactly these
    two facts as hypotheses, for any symmetric `A`).  `_partial`: exact arithmetic only. -/
theorem c10_solve_correct_partial (src : Array K) (rowMajor : Bool) (n uplo : Int) (shift alpha : K) (hn : 1 ≤ n)
    (b : Array K) (hb : b.size = n.toNat) :
    letI : Sc K := scOfField F
    (compute src rowMajor n uplo shift alpha).info = Successful →
    ∀ i, 0 ≤ i → i < n →
      ∑ j ∈ Finset.range n.toNat, shiftedSym src rowMajor n uplo shift i (j : Int) * (solve (compute src rowMajor n uplo shift alpha) b).getD j 0
        = b.getD i.toNat 0 :=
  fun hinfo => SolveC.solve_correct F src rowMajor n uplo shift alpha hn b hb (@shiftedSym K _ (scOfField F) src rowMajor n uplo shift)
    (factor_identity_src F src rowMajor n uplo shift alpha hn hinfo) (factor_D_nonsing F src rowMajor n uplo shift alpha hn hinfo)

end tier3

/-- non-vacuity of (8): over ℚ the 3x3 matrix `[[0,1,2],[1,0,3],[2,3,1]]` (zero leading diagonal: a 2x2 pivot is chosen) factorizes
    with `info = Successful`, and `solve` returns the exact solution of `A x = (1,2,3)` -/
example : letI : Sc ℚ := scOfField ⟨id, fun x _ => x, 1, 1⟩
    (compute (α := ℚ) #[0, 1, 2, 1, 0, 3, 2, 3, 1] false 3 1 0 (64/100)).info = Successful ∧
    (compute (α := ℚ) #[0, 1, 2, 1, 0, 3, 2, 3, 1] false 3 1 0 (64/100)).s.perm.toList.any (· < 0) = true := by
  decide +kernel

/-! ### (9) object reuse: histories on one `BKLDLT` object and on one `DenseSymShiftSolve` object -/

section history
open BKLDLTC (Cx)

/-- `copy_data` writes every packed entry before anything reads it: two entry states that differ only in the CONTENTS of the packed
    array (`Agree 0`: same `n`, `m_perm`, access flag and array size) give the same state — real and complex model, both storage
    orders, both triangles, every size.  This is why `m_data.resize` without clearing is harmless. -/
theorem c10_copy_overwrites {α : Type} [Add α] [Sub α] [Mul α] [Div α] [Neg α] [Sc α] {β : Type} [Add β] [Sub β] [Mul β] [Div β] [Neg β] [Sc β]
    (rowMajor : Bool) (uplo : Int) :
    (∀ (s t : St α) (src : Array α) (shift : α), 0 ≤ s.n → s.data.size = (packedSize s.n).toNat → Agree 0 s t →
      copy_data s src rowMajor uplo shift = copy_data t src rowMajor uplo shift) ∧
    (∀ (s t : St (Cx β)) (src : Array (Cx β)) (shift : β), 0 ≤ s.n → s.data.size = (packedSize s.n).toNat → Agree 0 s t →
      BKLDLTC.copy_data s src rowMajor uplo shift = BKLDLTC.copy_data t src rowMajor uplo shift) :=
  ⟨fun s t src shift hn hsz h => copy_data_overwrites s t src rowMajor uplo shift hn hsz h,
   fun s t src shift hn hsz h => BKLDLTC.copy_data_overwrites s t src rowMajor uplo shift hn hsz h⟩

/-- `compute()` does not depend on the object's previous state.  `computeFrom prev` is the model of `compute` called on an object
    whose members are `prev` — ANY state, so the result of any earlier history of `compute`/`solve` calls, of any size, successful or
    failed — with the members reset as BKLDLT.h resets them (`m_n`, `m_perm` (all entries), `m_permc`, `m_info` overwritten; `m_data`
    only resized, stale contents kept; `enterSt`).  Its result — packed array, `m_perm`, compressed permutation, `info()`, access flag —
    EQUALS that of `compute` on a freshly constructed object, for the real and the complex Hermitian model, every size `n ≥ 0`, every
    input, every scalar type and `Sc` instance.  (A `compute` that keeps `m_perm` across calls is a different function: the
    correspondence runs the same histories on the real class, see harness/c10.cpp `hist` lines.) -/
theorem c10_compute_history_independent {α : Type} [Add α] [Sub α] [Mul α] [Div α] [Neg α] [Sc α] {β : Type} [Add β] [Sub β] [Mul β] [Div β] [Neg β] [Sc β]
    (n : Int) (hn : 0 ≤ n) :
    (∀ (prev : Fact α) (src : Array α) (rowMajor : Bool) (uplo : Int) (shift alpha : α),
      computeFrom prev src rowMajor n uplo shift alpha = compute src rowMajor n uplo shift alpha) ∧
    (∀ (prev : Fact (Cx β)) (src : Array (Cx β)) (rowMajor : Bool) (uplo : Int) (shift alpha : β),
      BKLDLTC.computeFrom prev src rowMajor n uplo shift alpha = BKLDLTC.compute src rowMajor n uplo shift alpha) :=
  ⟨fun prev src rm uplo shift alpha => computeFrom_eq prev src rm n uplo shift alpha hn,
   fun prev src rm uplo shift alpha => BKLDLTC.computeFrom_eq prev src rm n uplo shift alpha hn⟩

/-- Which members `compute` resets, read from the header on every run (`Gen.BK.compute_prologue*`, translator target in
    xlate/tgt_c10.py): before the pivot loop it assigns `m_n`, calls `m_perm.setLinSpaced(m_n, 0, m_n - 1)`, `m_permc.clear()`,
    `m_data.resize(..)`, `compute_pointer()`, `copy_data(..)` and assigns `m_info` — in this order and ALL unconditionally: no member
    write before the loop is nested under a condition.  This is the entry state `enterSt` of the model (`m_perm` = identity on all
    `n` positions, whatever it held before), so `c10_compute_history_independent` speaks about the reset the code performs.
    (A reset moved into an "only when the size changed" block empties the first list and fills the second.) -/
theorem c10_compute_resets {α : Type} [Sub α] [Sc α] (prev : St α) (n : Int) :
    compute_prologue = [("m_n", "="), ("m_perm", "setLinSpaced"), ("m_permc", "clear"), ("m_data", "resize"),
      ("this", "compute_pointer"), ("this", "copy_data"), ("m_info", "=")] ∧
    compute_prologue_conditional = [] ∧ compute_perm_reset_args = "m_n, 0, m_n - 1" ∧
    (enterSt prev n).n = n ∧ (enterSt prev n).perm.size = n.toNat ∧
    (∀ i : Nat, i < n.toNat → (enterSt prev n).perm.getD i 0 = (i : Int)) ∧ (enterSt prev n).data.size = (packedSize n).toNat := by
  refine ⟨by decide, by decide, by decide, rfl, by simp [enterSt, linSpaced], fun i hi => ?_, (enterSt_sized prev n).2⟩
  simp [enterSt, linSpaced, hi]

/-- hence along every history `compute(A₁,…); …; compute(A_k,…)` on ONE object the members after the last call are those of a fresh
    object given the last arguments alone -/
theorem c10_history_last {α : Type} [Add α] [Sub α] [Mul α] [Div α] [Neg α] [Sc α]
    (reqs : List (Array α × Bool × Int × Int × α)) (last : Array α × Bool × Int × Int × α) (alpha : α) (s0 : Fact α) (hn : 0 ≤ last.2.2.1) :
    (reqs ++ [last]).foldl (fun s r => computeFrom s r.1 r.2.1 r.2.2.1 r.2.2.2.1 r.2.2.2.2 alpha) s0 =
      compute last.1 last.2.1 last.2.2.1 last.2.2.2.1 last.2.2.2.2 alpha := by
  rw [List.foldl_append]
  exact computeFrom_eq _ _ _ _ _ _ _ hn

/-- the stale contents are really there in the model (the statement above is not about a model that clears the array):
    with an unchanged size `compute` starts from the previous packed array -/
example {α : Type} [Sc α] (prev : St α) (n : Int) (h : prev.data.size = (packedSize n).toNat) : (enterSt prev n).data = prev.data := by
  simp [enterSt, resizeData, h]

/-- `DenseSymShiftSolve` histories: on a wrapper object in ANY state (after any sequence of `set_shift` calls, successful or not),
    `set_shift(sigma)` (i) has the outcome given by `sigma` and the matrix alone — it throws `std::invalid_argument` exactly when the
    factorization of `A − sigma·I` on a fresh object does not report `Successful`, so there is no memory of earlier attempts —,
    (ii) leaves `m_solver` holding exactly that factorization (so `perform_op` is `solve` of it: `c10_solve_correct_partial` applies),
    and (iii) asking again with the same `sigma` gives the same outcome (a failed shift throws every time: retry, or the
    `SymEigsShiftSolver` constructor called with that shift). -/
theorem c10_wrapper_history_independent {α : Type} [Add α] [Sub α] [Mul α] [Div α] [Neg α] [Sc α] (w : DenseShift α) (sigma alpha : α) (hn : 0 ≤ w.n) :
    (w.set_shift sigma alpha).1 = dense_set_shift_guard (compute w.mat w.rowMajor w.n w.uplo sigma alpha).info ∧
    ((w.set_shift sigma alpha).1 = Res.throw "std::invalid_argument" ↔ (compute w.mat w.rowMajor w.n w.uplo sigma alpha).info ≠ Successful) ∧
    ((w.set_shift sigma alpha).1 = Res.ok () ↔ (compute w.mat w.rowMajor w.n w.uplo sigma alpha).info = Successful) ∧
    (w.set_shift sigma alpha).2.solver = compute w.mat w.rowMajor w.n w.uplo sigma alpha ∧
    (∀ x, (w.set_shift sigma alpha).2.perform_op x = solve (compute w.mat w.rowMajor w.n w.uplo sigma alpha) x) ∧
    ((w.set_shift sigma alpha).2.set_shift sigma alpha).1 = (w.set_shift sigma alpha).1 := by
  have e : ∀ w' : DenseShift α, w'.n = w.n → w'.mat = w.mat → w'.rowMajor = w.rowMajor → w'.uplo = w.uplo →
      w'.set_shift sigma alpha = (dense_set_shift_guard (compute w.mat w.rowMajor w.n w.uplo sigma alpha).info,
        { w' with solver := compute w.mat w.rowMajor w.n w.uplo sigma alpha }) := by
    intro w' h1 h2 h3 h4
    unfold DenseShift.set_shift
    rw [computeFrom_eq _ _ _ _ _ _ _ (by rw [h1]; exact hn), h1, h2, h3, h4]
  have e1 := e w rfl rfl rfl rfl
  have g := C10S.wrapper_guards (compute w.mat w.rowMajor w.n w.uplo sigma alpha).info
  refine ⟨by rw [e1], by rw [e1]; exact g.1, by rw [e1]; exact g.2.1, by rw [e1], fun x => by rw [e1]; rfl, ?_⟩
  rw [e1]
  exact congrArg Prod.fst (e _ rfl rfl rfl rfl)

end history

/-! ### (10) the control skeleton of `solve_inplace`, read from the header on every run -/

/-- The body of `BKLDLT::solve_inplace` (and of `solve`), flattened by the translator from the clang AST alone into rows
    `(nesting depth, kind, canonical text)` (`Gen.BK.solve_inplace_flow`, target `solve_flow` in xlate/tgt_c10.py: comments, white space and
    redundant parentheses do not enter), IS the five-phase skeleton that `Model/BKLDLT.lean` `solve_inplace` (and its complex twin) mirrors:
    (1) the `m_computed` check, (2) `applyPermc` forward, (3) `fwdLoop` with the bound `end` = `n-3`/`n-2`, whose body branches on
    `m_perm[i] >= 0` ONLY (1x1: one column update; 2x2: two-column update and the extra `i++`), (4) `diagLoop` branching on `m_perm[i] >= 0`
    (division resp. the translated `solve_inplace_2x2` and `i++`), (5) `bwdLoop` (dot product, then on `m_perm[i] < 0` the second dot
    product and `i--`), (6) `applyPermc` backward — and NOTHING else:
      * no `continue`, `break`, `return`, `goto`, `while`, `switch` anywhere in the body;
      * exactly five loops and four branch statements, with exactly these headers / conditions;
      * every `if` / loop-header / `?:` condition reads only `m_computed`, `m_perm`, `m_n`, the loop index and the loop bounds — never the
        right-hand side `x` / `res` / `b` nor a matrix entry: the control flow of a solve is independent of the DATA, as it is in the model
        (where the recursion of `fwdLoop`/`diagLoop`/`bwdLoop` inspects `pget` alone);
      * `solve` copies its argument, calls `solve_inplace` on the copy and returns it.
    A data-dependent shortcut ("skip the update when `x[i] == 0`", an early exit on a zero tail, ...) adds a row and a condition name and
    breaks this theorem before any failing input is known; the `rhs` part of harness/c10.cpp then supplies the input. -/
theorem c10_solve_skeleton :
    solve_inplace_flow =
      [(0, "if", "(!m_computed)"),
       (1, "throw", "std::logic_error(\"BKLDLT: need to call compute() first\")"),
       (0, "decl", "x := b.data()"),
       (0, "decl", "res := (x, m_n)"),
       (0, "decl", "npermc := m_permc.size()"),
       (0, "for", "i := 0 ; (i < npermc) ; (i++)"),
       (1, "call", "swap(x[m_permc[i].first], x[m_permc[i].second])"),
       (0, "decl", "end := ((m_perm[(m_n - 1)] < 0) ? (m_n - 3) : (m_n - 2))"),
       (0, "for", "i := 0 ; (i <= end) ; (i++)"),
       (1, "decl", "b1size := ((m_n - i) - 1)"),
       (1, "decl", "b2size := (b1size - 1)"),
       (1, "if", "(m_perm[i] >= 0)"),
       (2, "decl", "l := ((&coeff((i + 1), i)), b1size)"),
       (2, "assign", "(res.segment((i + 1), b1size).noalias() -= (l * x[i]))"),
       (1, "else", ""),
       (2, "decl", "l1 := ((&coeff((i + 2), i)), b2size)"),
       (2, "decl", "l2 := ((&coeff((i + 2), (i + 1))), b2size)"),
       (2, "assign", "(res.segment((i + 2), b2size).noalias() -= ((l1 * x[i]) + (l2 * x[(i + 1)])))"),
       (2, "expr", "(i++)"),
       (0, "for", "i := 0 ; (i < m_n) ; (i++)"),
       (1, "decl", "e11 := diag_coeff(i)"),
       (1, "if", "(m_perm[i] >= 0)"),
       (2, "assign", "(x[i] /= e11)"),
       (1, "else", ""),
       (2, "decl", "e21 := coeff((i + 1), i)"),
       (2, "decl", "e22 := diag_coeff((i + 1))"),
       (2, "call", "solve_inplace_2x2(e11, e21, e22, x[i], x[(i + 1)])"),
       (2, "expr", "(i++)"),
       (0, "decl", "i := ((m_perm[(m_n - 1)] < 0) ? (m_n - 3) : (m_n - 2))"),
       (0, "for", " ; (i >= 0) ; (i--)"),
       (1, "decl", "ldim := ((m_n - i) - 1)"),
       (1, "decl", "l := ((&coeff((i + 1), i)), ldim)"),
       (1, "assign", "(x[i] -= l.dot(res.segment((i + 1), ldim)))"),
       (1, "if", "(m_perm[i] < 0)"),
       (2, "decl", "l2 := ((&coeff((i + 1), (i - 1))), ldim)"),
       (2, "assign", "(x[(i - 1)] -= l2.dot(res.segment((i + 1), ldim)))"),
       (2, "expr", "(i--)"),
       (0, "for", "i := (npermc - 1) ; (i >= 0) ; (i--)"),
       (1, "call", "swap(x[m_permc[i].first], x[m_permc[i].second])")] ∧
    (∀ r ∈ solve_inplace_flow, r.2.1 ∉ ["continue", "break", "return", "goto", "while", "do", "switch", "case", "label", "try", "catch"]) ∧
    (solve_inplace_flow.filter (fun r => r.2.1 = "if" ∨ r.2.1 = "for")).map (fun r => (r.1, r.2.1, r.2.2)) =
      [(0, "if", "(!m_computed)"), (0, "for", "i := 0 ; (i < npermc) ; (i++)"),
       (0, "for", "i := 0 ; (i <= end) ; (i++)"), (1, "if", "(m_perm[i] >= 0)"),
       (0, "for", "i := 0 ; (i < m_n) ; (i++)"), (1, "if", "(m_perm[i] >= 0)"),
       (0, "for", " ; (i >= 0) ; (i--)"), (1, "if", "(m_perm[i] < 0)"),
       (0, "for", "i := (npermc - 1) ; (i >= 0) ; (i--)")] ∧
    (∀ nm ∈ solve_inplace_cond_names, nm ∈ ["m_computed", "m_perm", "m_n", "i", "end", "npermc", "operator[]"]) ∧
    solve_inplace_params = ["b"] ∧
    solve_flow = [(0, "decl", "res := b"), (0, "call", "solve_inplace(res)"), (0, "return", "res")] := by
  refine ⟨by decide, by decide, by decide, by decide, by decide, by decide⟩

/-! ### non-vacuity -/
/-- the zero-diagonal block `[0 1; 1 0]` meets the hypothesis of `c10_solve2_ordered` (second branch: rows exchanged) -/
example : (0 : ℚ) * (@solve_inplace_2x2 ℚ _ _ _ _ _ (scOfField ⟨id, fun x _ => x, 1, 1⟩) 0 1 0 3 4).1
    + 1 * (@solve_inplace_2x2 ℚ _ _ _ _ _ (scOfField ⟨id, fun x _ => x, 1, 1⟩) 0 1 0 3 4).2 = 3 :=
  (c10_solve2_ordered (K := ℚ) ⟨id, fun x _ => x, 1, 1⟩ 0 1 0 3 4 (by norm_num)).1
/-- a compressed permutation as in the header comment `[(0, 2), (2, 3), (3, 1)]` on a vector of length 6 meets the hypothesis of `c10_perm_inverse` -/
example : ∀ ab ∈ [((0 : Int), (2 : Int)), (2, 3), (3, 1)], 0 ≤ ab.1 ∧ ab.1 < (6 : Int) ∧ 0 ≤ ab.2 ∧ ab.2 < (6 : Int) := by decide
/-- `m_perm = [-1, -1, 3, 1]`-like data: the translated compression yields exactly the non-trivial pairs -/
example : compress_permutation (fun i => if i = 0 then -3 else if i = 1 then -2 else if i = 2 then 3 else i) 4 = [(0, 2), (2, 3)] := by decide
/-- status codes -/
example : (Successful, NotComputed, NumericalIssue) = ((0 : Int), (1 : Int), (3 : Int)) := rfl

end C10
