/-
  C07 — Krylov factorization invariant at every hand-over point (init, extension, implicit restart, breakdown).

  FULL STATEMENT (properties.jsonl): at every point where the factorization is passed on it satisfies
      A V = V H + f e_kᵀ,   VᴴBV = I,   VᴴBf = 0    "to rounding level relative to ‖A‖",
  H upper Hessenberg (symmetric tridiagonal for Lanczos), k = advertised dimension.

  WHAT IS PROVED HERE (exact arithmetic; every field `𝕜`, every `𝕜`-module `E` — all `n` at once —, every operator `A`,
  every sesquilinear `B`-form, every coefficient column, every history):
  the algebra of each operation the code performs between two hand-over points and its composition over ANY finite
  sequence of operations (`c07_run`, induction on the sequence).  The steps are the ones of
  `Arnoldi::init / factorize_from / expand_basis / compress_H / compress_V` and `Lanczos::factorize_from`; the executable
  model of these methods (`Model/Arnoldi.lean`, `Model/Lanczos.lean`) is tied to the C++ by the bit-exact correspondence
  check, its array kernels are tied to the `Finset.sum` expressions used here by the `c07_kernel_*` theorems, and its
  `compress_V` (truncated column sums!) is proved to compute the abstract compress step on banded `Q`
  (`c07_model_compress_V`), and one regular pass of its `factorize_from` loop is proved to preserve the relation
  (`c07_model_step_spec`, `c07_model_extend`, `c07_model_factorStep`).
  MODEL-LEVEL INDUCTION (added with the C01 discharge; section "the executable Lanczos model at an exact field" at the end):
  `c07_model_lanczos_step` (one regular pass of `Lanczos.factorStep` IS the C07 `extend` step, `ok`/`exact`/`orthOk`),
  `c07_model_factorize_run` (the whole `Lanczos.factorize_from` loop is a step list ending at `k = to_m`), `c07_model_compress`
  (`compress_H`+`compress_V` with the accumulated `Q` is the compress step), `c07_model_restart_run` (`HermSolver.restartFac`),
  `c07_model_init` (`Arnoldi.init`), under the RUN-LEVEL hypothesis "no breakdown" (`C07L.Regular`, `C07L.InitRegular`).

  NOT PROVED (out of reach here, checked only by the long-double oracle on the real code):
  * rounding: "to rounding level relative to ‖A‖".  The theorems are about exact arithmetic.
  * the floating comparisons (`beta < near_0`, `beta < eps*sqrt(n)`, `beta < sqrt(eps)`, the 0.717 test, the loop guards):
    the theorems hold for EVERY outcome (every `h`, every correction `g`, every choice extend/restart).
  * the full-strength statement is FALSE for the code as it is (known findings F12a–d, F17a; see known_findings/C07.json):
    - `c07_breakdown`: a restart that discards a nonzero residual leaves exactly that residual as error column — the code's
      thresholds are absolute (`eps*sqrt(n)`, `sqrt(eps)`, `near_0`), not relative to ‖A‖;
    - `c07_orth` needs `h = VᴴBw` exactly; `Arnoldi::init` and `compress_V` hand over a residual that the next
      `factorize_from` normalises without re-orthogonalisation, so in floating point orthogonality degrades like
      `eps‖A‖/beta` (up to O(1) for eigenvector starts / rank-deficient large-norm operators);
    - `c07_init` needs `‖A v0‖ ≠ 0` (`hAv0`): the code divides by it unguarded.
-/
import Mathlib.Data.Matrix.Mul
import SpectraVerif.Proofs.C07Krylov
import SpectraVerif.Proofs.C07Run
import SpectraVerif.Proofs.C07Refine
import SpectraVerif.Proofs.C07Step
import SpectraVerif.Proofs.C07Bridge
import SpectraVerif.Proofs.C07ModelLanczos
import SpectraVerif.Proofs.C07ModelRun
import SpectraVerif.Proofs.C07ModelRestart
import SpectraVerif.Proofs.C07ModelInit

open Finset Matrix

namespace C07

variable {𝕜 : Type*} [Field 𝕜] {E : Type*} [AddCommGroup E] [Module 𝕜 E]

/-- the state of the re-orthogonalisation loop: residual and coefficient column; one correction is `f -= V g, h += g` -/
def correct (V' : ℕ → E) (k : ℕ) (fh : E × (ℕ → 𝕜)) (g : ℕ → 𝕜) : E × (ℕ → 𝕜) :=
  (fh.1 - ∑ i ∈ range (k + 1), g i • V' i, fun i => fh.2 i + g i)

/-- (1) ONE EXTENSION exactly as `Arnoldi::factorize_from` performs it: `v = f/β`, `H(k,k-1) = β`, coefficient column `h`,
    `f' = A v - V h`, followed by ANY number of corrections `f -= V g, h += g` (the list `gs`): a valid `k`-step relation
    becomes a valid `(k+1)`-step relation, for EVERY `h` and EVERY `gs` — orthogonality is not needed. -/
theorem c07_extend (A : E →ₗ[𝕜] E) (V : ℕ → E) (H : ℕ → ℕ → 𝕜) (f : E) (k : ℕ) (β : 𝕜) (hβ : β ≠ 0)
    (h : ℕ → 𝕜) (gs : List (ℕ → 𝕜)) (hK : Kry A V H f k) :
    let V' := extV V k (β⁻¹ • f)
    let fh := gs.foldl (correct V' k) (resid A V' k h, h)
    Kry A V' (extH H k β fh.2) fh.1 (k + 1) := by
  intro V' fh
  have hinv : ∀ (l : List (ℕ → 𝕜)) (p : E × (ℕ → 𝕜)), p.1 = resid A V' k p.2 →
      (l.foldl (correct V' k) p).1 = resid A V' k (l.foldl (correct V' k) p).2 := by
    intro l
    induction l with
    | nil => intro p hp; exact hp
    | cons g rest ih =>
      intro p hp
      apply ih
      simp only [correct]
      rw [hp, resid_add]
  have hfh : fh.1 = resid A V' k fh.2 := hinv gs _ rfl
  rw [hfh, kry_iff_kryE]
  have := step_general A V H f k (fun _ => 0) (β⁻¹ • f) β fh.2 ((kry_iff_kryE A V H f k).mp hK)
  have hd : f - β • β⁻¹ • f = 0 := by rw [smul_smul, mul_inv_cancel₀ hβ, one_smul, sub_self]
  rw [hd, extR_zero] at this
  exact this

/-- (1, Lanczos) the three-term variant `Lanczos::factorize_from` performs: `H(k-1,k) = H(k,k-1) = β`, `H(k,k) = α`,
    `f' = A v_k - β v_{k-1} - α v_k` (+ corrections to those two entries only, folded into `α`, `β'`).
    (a) the relation holds for every `α`; (b) if `A` is `B`-self-adjoint and the extended basis orthonormal, the dropped
    coefficients are really `0` and the sub-diagonal one is `β`, i.e. the three-term column IS `VᴴB A v_k` once `α = <v_k, A v_k>`;
    (c) `H` stays symmetric tridiagonal. -/
theorem c07_extend_lanczos (P : IP 𝕜 E) (A : E →ₗ[𝕜] E) (V : ℕ → E) (H : ℕ → ℕ → 𝕜) (f : E) (k : ℕ) (β α : 𝕜)
    (hβ : β ≠ 0) (hK : Kry A V H f k) :
    let V' := extV V k (β⁻¹ • f)
    Kry A V' (extH H k β (lanH k α β)) (resid A V' k (lanH k α β)) (k + 1) ∧
    ((∀ x y, P.ip x (A y) = P.ip (A x) y) → P.conj β = β → ON P V' (k + 1) → α = P.ip (V' k) (A (V' k)) →
        (∀ i, i < k + 1 → lanH k α β i = P.ip (V' i) (A (V' k))) ∧ FO P V' (resid A V' k (lanH k α β)) (k + 1)) ∧
    (TriSym H k → TriSym (extH H k β (lanH k α β)) (k + 1)) := by
  intro V'
  refine ⟨?_, ?_, trisym_ext H k α β⟩
  · have := c07_extend A V H f k β hβ (lanH k α β) [] hK
    simpa using this
  · intro hsa hβc hON hα
    have hco : ∀ i, i < k + 1 → lanH k α β i = P.ip (V' i) (A (V' k)) := by
      intro i hi
      rcases Nat.lt_succ_iff_lt_or_eq.mp hi with hlt | heq
      · have hne : i ≠ k := Nat.ne_of_lt hlt
        rw [lanczos_coeffs P A V H f k β hsa hβ hβc hK hON i hlt]
        simp [lanH, hne]
      · subst heq; simp [lanH, hα]
    exact ⟨hco, resid_orth P V' (k + 1) (A (V' k)) (lanH k α β) hON hco⟩

/-- (1, Lanczos, floating-point corrections) what `Lanczos::factorize_from` DROPS: its correction `f -= V g` uses the full
    coefficient vector `g`, but only `H(k-1,k) += g(k-1)`, `H(k,k-1) = H(k-1,k)`, `H(k,k) += g(k)` are recorded.  The
    `(k+1)`-step relation then holds with the explicit error columns `R k = Σ_{j+1<k} g j • v_j` (dropped coefficients) and
    `R (k-1) = -g(k-1) • v_k` (symmetrised sub-diagonal).  In exact arithmetic with an orthonormal basis `g = 0`
    (`c07_extend_lanczos` (b)); in floating point this is the error term behind known finding F12f. -/
theorem c07_lanczos_dropped (A : E →ₗ[𝕜] E) (V : ℕ → E) (H : ℕ → ℕ → 𝕜) (f : E) (k : ℕ) (β α : 𝕜) (hβ : β ≠ 0)
    (g : ℕ → 𝕜) (hK : Kry A V H f k) :
    let V' := extV V k (β⁻¹ • f)
    KryE A V' (extH H k (β + g (k - 1)) (lanH k (α + g k) (β + g (k - 1))))
      (resid A V' k (lanH k α β) - ∑ j ∈ range (k + 1), g j • V' j) (k + 1)
      (fun j => if j = k then ∑ i ∈ range (k + 1), (if i + 1 < k then g i else 0) • V' i
                else if j + 1 = k then - g (k - 1) • V' k else 0) :=
  lanczos_dropped A V H f k β α hβ g hK

/-- (3) ORTHOGONALITY of one extension: with `VᴴBV = I`, `VᴴBf = 0`, `β² = <f,f>_B` (β real) and the exact coefficients
    `h = V'ᴴ B w`: `V_{k+1}ᴴ B V_{k+1} = I` and `V_{k+1}ᴴ B f' = 0`. -/
theorem c07_orth (P : IP 𝕜 E) (A : E →ₗ[𝕜] E) (V : ℕ → E) (f : E) (k : ℕ) (β : 𝕜) (h : ℕ → 𝕜)
    (hON : ON P V k) (hFO : FO P V f k) (hβ : β ≠ 0) (hβc : P.conj β = β) (hnorm : β * β = P.ip f f)
    (hh : ∀ i, i < k + 1 → h i = P.ip (extV V k (β⁻¹ • f) i) (A (extV V k (β⁻¹ • f) k))) :
    ON P (extV V k (β⁻¹ • f)) (k + 1) ∧ FO P (extV V k (β⁻¹ • f)) (resid A (extV V k (β⁻¹ • f)) k h) (k + 1) := by
  have hON' := on_extend P V k f β hON hFO hβ hβc hnorm
  exact ⟨hON', resid_orth P _ (k + 1) _ h hON' hh⟩

/-- (2) IRA COMPRESS: `A V = V H + f e_mᵀ`, `H Q = Q H⁺` (on the first `k` columns), `H⁺` Hessenberg there, last row of `Q`
    zero left of column `k-1` (lower bandwidth `m-k`): with `V⁺ = V Q`, `f⁺ = Q(m-1,k-1) f + H⁺(k,k-1) v⁺_k`
    the `k`-step relation holds.  (`Q` need not be orthogonal for the relation.) -/
theorem c07_compress (A : E →ₗ[𝕜] E) (V : ℕ → E) (H Hp Q : ℕ → ℕ → 𝕜) (f : E) (m k : ℕ)
    (hk : 0 < k) (hkm : k < m) (hK : Kry A V H f m)
    (hHQ : ∀ i, i < m → ∀ j, j < k → ∑ a ∈ range m, H i a * Q a j = ∑ b ∈ range m, Q i b * Hp b j)
    (hHess : ∀ b j, j + 1 < b → j < k → b < m → Hp b j = 0)
    (hband : ∀ j, j + 1 < k → Q (m - 1) j = 0) :
    Kry A (mulQ V Q m) Hp (Q (m - 1) (k - 1) • f + Hp k (k - 1) • mulQ V Q m k) k := by
  have := compress_general A V H Hp Q f m k (fun _ => 0) hk hkm ((kry_iff_kryE A V H f m).mp hK) hHQ hHess hband
  rw [kry_iff_kryE]
  simp only [smul_zero, sum_const_zero] at this
  simp only [mulQ]
  exact this

/-- (2, orthogonality) orthonormal columns of `Q` preserve `VᴴBV = I`, and `f⁺ ⟂_B V⁺_k`. -/
theorem c07_compress_orth (P : IP 𝕜 E) (V : ℕ → E) (Q : ℕ → ℕ → 𝕜) (f : E) (m k : ℕ) (q η : 𝕜)
    (hON : ON P V m) (hFO : FO P V f m)
    (hQ : ∀ i, i < k + 1 → ∀ j, j < k + 1 → ∑ a ∈ range m, P.conj (Q a i) * Q a j = if i = j then 1 else 0) :
    ON P (mulQ V Q m) (k + 1) ∧ FO P (mulQ V Q m) (q • f + η • mulQ V Q m k) k := by
  have hON' := compress_on P V Q m (k + 1) hON hQ
  exact ⟨hON', compress_fo P V Q f m k q η hFO hON'⟩

/-- (2, bandwidth) `compress_V` uses only the first `nnz = m-k+i+1` entries of column `i` of `Q`: justified when `Q` has lower
    bandwidth `m-k`; and a product of factors with lower bandwidths `p₁, p₂` has lower bandwidth `p₁+p₂` (so `m-k` single-shift
    Hessenberg `Q`s, or double-shift ones with bandwidth 2, accumulate to `m-k`). -/
theorem c07_compress_band (V : ℕ → E) (Q : ℕ → ℕ → 𝕜) (m k i : ℕ) (hik : i < k) (hkm : k ≤ m)
    (hQ : ∀ a b, b + (m - k) < a → Q a b = 0) :
    mulQ V Q m i = ∑ a ∈ range (m - k + i + 1), Q a i • V a ∧
    (∀ (Q1 Q2 : ℕ → ℕ → 𝕜) (p1 p2 : ℕ), (∀ a c, c + p1 < a → Q1 a c = 0) → (∀ c b, b + p2 < c → Q2 c b = 0) →
      ∀ a b, b + (p1 + p2) < a → ∑ c ∈ range m, Q1 a c * Q2 c b = 0) := by
  constructor
  · exact sum_band V (fun a => Q a i) m (m - k + i + 1) (by omega) (fun a ha _ => hQ a i (by omega))
  · intro Q1 Q2 p1 p2 h1 h2; exact band_mul Q1 Q2 m p1 p2 h1 h2

/-- (4) BREAKDOWN: continuing an exact `k`-step relation with ANY fresh direction `v` (from `expand_basis`) and
    `H(k,k-1) = 0` gives the `(k+1)`-step relation with the explicit error column `f` (the discarded residual) at
    position `k-1`, and the exact relation holds IFF the discarded residual is `0`. -/
theorem c07_breakdown (A : E →ₗ[𝕜] E) (V : ℕ → E) (H : ℕ → ℕ → 𝕜) (f : E) (k : ℕ) (hk : 0 < k)
    (v : E) (h : ℕ → 𝕜) (hK : Kry A V H f k) :
    KryE A (extV V k v) (extH H k 0 h) (resid A (extV V k v) k h) (k + 1) (fun j => if j + 1 = k then f else 0) ∧
    (Kry A (extV V k v) (extH H k 0 h) (resid A (extV V k v) k h) (k + 1) ↔ f = 0) := by
  have hE : KryE A (extV V k v) (extH H k 0 h) (resid A (extV V k v) k h) (k + 1) (fun j => if j + 1 = k then f else 0) := by
    have := step_general A V H f k (fun _ => 0) v 0 h ((kry_iff_kryE A V H f k).mp hK)
    have he : extR (fun _ => (0 : E)) k (f - (0 : 𝕜) • v) = fun j => if j + 1 = k then f else 0 := by
      funext j
      by_cases h1 : j = k
      · have : j + 1 ≠ k := by omega
        simp [extR, h1]
      · simp [extR, h1]
    rw [he] at this; exact this
  refine ⟨hE, ?_, ?_⟩
  · intro hKn
    have e1 := hE (k - 1) (by omega)
    have e2 := hKn (k - 1) (by omega)
    have hk1 : k - 1 + 1 = k := by omega
    have hk2 : k - 1 + 1 ≠ k + 1 := by omega
    simp only [hk1, hk2, if_true, if_false, add_zero] at e1 e2
    rw [e2] at e1
    simpa using e1
  · intro hf
    rw [kry_iff_kryE]
    subst hf
    have : (fun j => if j + 1 = k then (0 : E) else 0) = fun _ => 0 := by funext j; simp
    rw [this] at hE; exact hE

/-- (5) INIT: `v = A v0 / ν` with `ν = ‖A v0‖_B ≠ 0` (hypothesis `hAv0`: the code divides unguarded), `H₀₀ = <v, A v>_B`,
    `f = A v - H₀₀ v`:  `k = 1`, `A v = v H₀₀ + f`, `<v,v>_B = 1`, `<v,f>_B = 0`.  The shortcut `f := 0` (taken when
    `max|f| < eps |H₀₀|`) leaves exactly `f` as error column. -/
theorem c07_init (P : IP 𝕜 E) (A : E →ₗ[𝕜] E) (v0 : E) (ν : 𝕜) (hAv0 : ν ≠ 0) (hνc : P.conj ν = ν)
    (hν : ν * ν = P.ip (A v0) (A v0)) :
    let v := ν⁻¹ • A v0
    let H00 := P.ip v (A v)
    let f := A v - H00 • v
    Kry A (fun _ => v) (fun _ _ => H00) f 1 ∧ ON P (fun _ => v) 1 ∧ FO P (fun _ => v) f 1 ∧
    KryE A (fun _ => v) (fun _ _ => H00) 0 1 (fun _ => f) := by
  intro v H00 f
  have hvv : P.ip v v = 1 := by
    simp only [v, P.smul_left, P.smul_right]
    have hci : P.conj ν⁻¹ = ν⁻¹ := by rw [map_inv₀, hνc]
    rw [hci, ← hν]
    have : ν⁻¹ * (ν⁻¹ * (ν * ν)) = (ν⁻¹ * ν) * (ν⁻¹ * ν) := by ring
    rw [this, inv_mul_cancel₀ hAv0, one_mul]
  refine ⟨?_, ?_, ?_, ?_⟩
  · intro j hj
    have : j = 0 := by omega
    subst this
    simp [f]
  · intro i hi j hj
    have h1 : i = 0 := by omega
    have h2 : j = 0 := by omega
    subst h1; subst h2; simpa using hvv
  · intro j _
    simp only [f, P.sub_right, P.smul_right, hvv, mul_one]
    exact sub_self _
  · intro j hj
    have : j = 0 := by omega
    subst this
    simp [f]

/-- (6) RUN: composition over ANY finite sequence of `extend | restart (breakdown-continue) | compress` steps
    (induction on the sequence).  From any state satisfying the relation with error columns `R`:
    (a) the relation holds at the end with the accumulated error columns (each restart adds its discarded residual to
        column `k-1`, each compress maps `R ↦ R Q`);
    (b) if nothing nonzero was discarded and `R = 0` initially, the exact relation holds at the end;
    (c) if moreover every step uses the exact projection coefficients / `B`-norms / orthonormal `Q`, then
        `VᴴBV = I` and `VᴴBf = 0` at the end;
    (d) the final dimension is the advertised one (`+1` per extension, `knew` after a compress). -/
theorem c07_run (P : IP 𝕜 E) (A : E →ₗ[𝕜] E) (l : List (Step 𝕜 E)) (s : St 𝕜 E) (hok : allOk A s l)
    (hK : KryE A s.V s.H s.f s.k s.R) :
    KryE A (run A s l).V (run A s l).H (run A s l).f (run A s l).k (run A s l).R ∧
    (allExact A s l → (s.R = fun _ => 0) → Kry A (run A s l).V (run A s l).H (run A s l).f (run A s l).k) ∧
    (allOrthOk P A s l → ON P s.V s.k → FO P s.V s.f s.k →
        ON P (run A s l).V (run A s l).k ∧ FO P (run A s l).V (run A s l).f (run A s l).k) ∧
    (run A s l).k = dimAfter s.k l := by
  have h1 := run_kryE A l s hok hK
  refine ⟨h1, ?_, ?_, run_dim A l s⟩
  · intro hex hR
    have := run_R_zero A l s hex hR
    rw [this] at h1
    exact (kry_iff_kryE A _ _ _ _).mpr h1
  · intro ho a b; exact run_orth P A l s ho a b

/-- (7) SHAPE: an extension keeps the leading block upper Hessenberg (for every `sub`, `h`). -/
theorem c07_hessenberg (H : ℕ → ℕ → 𝕜) (k : ℕ) (sub : 𝕜) (h : ℕ → 𝕜) (hH : Hess H k) :
    Hess (extH H k sub h) (k + 1) := hess_ext H k sub h hH

/-- (7) SHAPE, Lanczos: the three-term step keeps the leading block symmetric tridiagonal (hence Hessenberg). -/
theorem c07_tridiagonal_symmetric (H : ℕ → ℕ → 𝕜) (k : ℕ) (α β : 𝕜) (hH : TriSym H k) :
    TriSym (extH H k β (lanH k α β)) (k + 1) ∧ Hess (extH H k β (lanH k α β)) (k + 1) :=
  ⟨trisym_ext H k α β hH, trisym_hess _ _ (trisym_ext H k α β hH)⟩

/-! ### the executable model (any scalar type, in particular `Float`): advertised dimension -/
section model
variable {α : Type} [Add α] [Sub α] [Mul α] [Div α] [Neg α] [Sc α]

/-- (7) `k` = advertised dimension on the EXECUTABLE model, every scalar type (also `Float`), every input, every branch:
    `init` ⇒ `k = 1` (+2 operator applications); `factorize_from(a, b)` (both variants) ⇒ `k = b` when `a < b`, unchanged state
    when `b ≤ a`, throws exactly when `a < b ∧ k < a`; `compress_H`+`compress_V` ⇒ `k - shifts`. -/
theorem c07_dim_model (op : Arnoldi.Op α) (s : Arnoldi.State α) :
    (∀ s' v0, Arnoldi.init op s v0 = some s' → s'.k = 1 ∧ s'.n = s.n ∧ s'.m = s.m ∧ s'.ops = s.ops + 2) ∧
    (∀ s' a b, Arnoldi.factorize_from op s a b = some s' → (a < b → s'.k = b) ∧ (b ≤ a → s' = s)) ∧
    (∀ a b, Arnoldi.factorize_from op s a b = none ↔ (a < b ∧ s.k < a)) ∧
    (∀ s' a b, Lanczos.factorize_from op s a b = some s' → (a < b → s'.k = b) ∧ (b ≤ a → s' = s)) ∧
    (∀ a b, Lanczos.factorize_from op s a b = none ↔ (a < b ∧ s.k < a)) ∧
    (∀ QtHQ Q shifts, (Arnoldi.compress_V op (Arnoldi.compress_H s QtHQ shifts) Q).k = s.k - shifts) :=
  ⟨fun s' v0 h => C07R.init_dim op s s' v0 h, fun s' a b h => C07R.arnoldi_factorize_dim op s s' a b h,
   fun a b => C07R.arnoldi_factorize_throws op s a b, fun s' a b h => C07R.lanczos_factorize_dim op s s' a b h,
   fun a b => C07R.lanczos_factorize_throws op s a b, fun QtHQ Q shifts => C07R.compress_dim op s QtHQ Q shifts⟩
end model

/-! ### the executable model at a field: kernels are the sums used above -/
section kernels
variable {K : Type} [Field K] [Sc K] (h0 : (Sc.ofInt 0 : K) = 0)
include h0

/-- the array kernels of the model compute, entry by entry, the `Finset.sum`s of the theorems (any `Sc` instance on a field with
    `ofInt 0 = 0`, e.g. `scOfField`): gemv `V*x`, `Vᴴ*y`, `f -= V*g`, `x.dot(y)`, and the harness operator `y = a x`. -/
theorem c07_kernel_sums (V : Lin.Mat K) (k : ℕ) (x y f : Lin.Vec K) (n : ℕ) (a : Array K) :
    (∀ i, i < V.rows → Lin.vget (Arnoldi.mulVecK0 V k x) i = ∑ j ∈ range k, V.get i j * Lin.vget x j) ∧
    (∀ j, j < k → Lin.vget (Arnoldi.tmulVecK0 V k y) j = ∑ i ∈ range V.rows, V.get i j * Lin.vget y i) ∧
    (∀ i, i < f.size → Lin.vget (Arnoldi.subMulVecK0 f V k x) i = Lin.vget f i - ∑ j ∈ range k, V.get i j * Lin.vget x j) ∧
    (Lin.dot x y = ∑ i ∈ range x.size, Lin.vget x i * Lin.vget y i) ∧
    (∀ i, i < n → Lin.vget (Arnoldi.rowMajorOp n a x) i = ∑ j ∈ range n, a.getD (i * n + j) 0 * Lin.vget x j) :=
  ⟨fun i hi => C07R.mulVecK0_eq h0 V k x i hi, fun j hj => C07R.tmulVecK0_eq h0 V k y j hj,
   fun i hi => C07R.subMulVecK0_eq h0 f V k x i hi, C07R.dot_eq h0 x y, fun i hi => C07R.rowMajorOp_eq h0 n a x i hi⟩

/-- the model's `compress_V` (truncated sums over the first `m-k+i+1` entries of column `i`) computes, for a `Q` of lower
    bandwidth `m-k`, exactly `V⁺ = V Q` on columns `0..k` and `f⁺ = f Q(m-1,k-1) + v⁺_k H(k,k-1)`: the abstract step of
    `c07_compress`. -/
theorem c07_model_compress_V (op : Arnoldi.Op K) (s : Arnoldi.State K) (Q : Lin.Mat K) (hkm : s.k < s.m)
    (hQ : ∀ a b, b + (s.m - s.k) < a → Q.get a b = 0) (r : ℕ) (hr : r < s.n) :
    (∀ i, i < s.k + 1 → (Arnoldi.compress_V op s Q).V.get r i = ∑ j ∈ range s.m, Q.get j i * s.V.get r j) ∧
    Lin.vget (Arnoldi.compress_V op s Q).f r
      = Q.get (s.m - 1) (s.k - 1) * Lin.vget s.f r + s.H.get s.k (s.k - 1) * ∑ j ∈ range s.m, Q.get j s.k * s.V.get r j ∧
    (Arnoldi.compress_V op s Q).k = s.k := by
  refine ⟨?_, ?_, rfl⟩
  · intro i hi
    rcases Nat.lt_succ_iff_lt_or_eq.mp hi with hlt | heq
    · rw [C07R.compress_V_col h0 op s Q r i hr hlt hkm]
      have := sum_band (𝕜 := K) (E := K) (fun j => s.V.get r j) (fun a => Q.get a i) s.m (s.m - s.k + i + 1) (by omega)
        (fun a ha _ => hQ a i (by omega))
      simp only [smul_eq_mul] at this
      rw [this]
      apply sum_congr rfl; intro j _; ring
    · subst heq
      rw [C07R.compress_V_colk h0 op s Q r hr hkm]
      apply sum_congr rfl; intro j _; ring
  · rw [C07R.compress_V_f h0 op s Q r hr hkm]
    have : ∑ j ∈ range s.m, s.V.get r j * Q.get j s.k = ∑ j ∈ range s.m, Q.get j s.k * s.V.get r j := by
      apply sum_congr rfl; intro j _; ring
    rw [this]; ring

/-- ONE PASS OF THE MODEL'S `Arnoldi.factorize_from` LOOP, entry by entry (any `restart` flag, any incoming `f`, `beta`):
    `V.col(i) = f/beta`; column `i` of `H` is some `h'` (the projection after all corrections), `H(i,i-1) = restart ? 0 : beta`,
    everything else untouched; and `f' = A v_i - V' h'` — or `f' = 0` (the `beta < eps*sqrt(n)` shortcut); `k`, `n`, `m` unchanged. -/
theorem c07_model_step_spec (op : Arnoldi.Op K) (bt : K) (s : Arnoldi.State K) (i : ℕ) (f : Lin.Vec K) (beta : K) (restart : Bool)
    (ops nexp : ℕ) (hVr : s.V.rows = s.n) (hVc : s.V.cols = s.m) (hHr : s.H.rows = s.m) (hHc : s.H.cols = s.m)
    (hf : f.size = s.n) (hA : ∀ x, (op.A x).size = s.n) :
    C07R.StepSpec op s (Arnoldi.stepCore op bt s i f beta restart ops nexp) i f beta (if restart then 0 else beta) :=
  C07R.stepCore_spec h0 op bt s i f beta restart ops nexp hVr hVc hHr hHc hf hA

/-- MODEL-LEVEL `c07_extend`: the executable model's regular extension pass (the code path of `Arnoldi::factorize_from` when
    `beta ≥ near_0`), run at a field on a state that satisfies the `i`-step relation (row `i` of `H` zero, as
    `factorize_from` arranges), yields a state satisfying the `(i+1)`-step relation, or takes the `f := 0` shortcut. -/
theorem c07_model_extend (op : Arnoldi.Op K) (s : Arnoldi.State K) (A : (Fin s.n → K) →ₗ[K] (Fin s.n → K)) (hop : OpIs s.n op A)
    (bt : K) (i : ℕ) (hi : i < s.m)
    (hVr : s.V.rows = s.n) (hVc : s.V.cols = s.m) (hHr : s.H.rows = s.m) (hHc : s.H.cols = s.m)
    (hfs : s.f.size = s.n) (hA : ∀ x, (op.A x).size = s.n)
    (hβ : s.beta ≠ 0) (hrow : ∀ b, b + 1 < i → s.H.get i b = 0)
    (hK : ModelKry s.n A s i) :
    ModelKry s.n A (Arnoldi.stepCore op bt s i s.f s.beta false s.ops s.nexpand) (i + 1) ∨
    vecOf s.n (Arnoldi.stepCore op bt s i s.f s.beta false s.ops s.nexpand).f = 0 :=
  model_extend h0 op s A hop bt i hi hVr hVc hHr hHc hfs hA hβ hrow hK

/-- ONE REGULAR PASS OF THE MODEL'S LOOP AS AN INDUCTIVE INVARIANT: if the breakdown test is false and `beta ≠ 0`, the pass
    `Arnoldi.factorStep … i` maps (well-formed state, rows `≥ i` of `H` zero left of the sub-diagonal, `i`-step relation) to
    (well-formed, rows `≥ i+1` zero, `(i+1)`-step relation — or the `f := 0` shortcut); `n`, `m`, `k` unchanged.  Iterating it
    is the model-level version of `c07_run` for `factorize_from`'s loop. -/
theorem c07_model_factorStep (op : Arnoldi.Op K) (s : Arnoldi.State K) (A : (Fin s.n → K) →ₗ[K] (Fin s.n → K)) (hop : OpIs s.n op A)
    (bt : K) (i : ℕ) (hi : i < s.m) (hA : ∀ x, (op.A x).size = s.n)
    (hreg : Sc.lt s.beta s.near0 = false) (hβ : s.beta ≠ 0) (hwf : WF s i) (hK : ModelKry s.n A s i) :
    let s' := Arnoldi.factorStep op bt s i
    s'.n = s.n ∧ s'.m = s.m ∧ s'.k = s.k ∧
    (ModelKry s.n A s' (i + 1) ∨ vecOf s.n s'.f = 0) ∧
    (s'.V.rows = s.n ∧ s'.V.cols = s.m ∧ s'.H.rows = s.m ∧ s'.H.cols = s.m ∧ s'.f.size = s.n ∧
      ∀ a b, i + 1 ≤ a → a < s.m → b + 1 < a → s'.H.get a b = 0) :=
  model_factorStep h0 op s A hop bt i hi hA hreg hβ hwf hK

end kernels

/-! ### instances and satisfiability of the hypotheses -/

/-- the inner product of the code for real scalars: `<x, y> = xᵀ B y` with `B` symmetric (`B = I` for standard problems) -/
def ipOfMatrix {n : ℕ} (B : Matrix (Fin n) (Fin n) 𝕜) (hB : Bᵀ = B) : IP 𝕜 (Fin n → 𝕜) where
  ip x y := x ⬝ᵥ (B *ᵥ y)
  conj := RingHom.id 𝕜
  add_right x y z := by rw [mulVec_add, dotProduct_add]
  smul_right x c y := by rw [mulVec_smul, dotProduct_smul, smul_eq_mul]
  symm x y := by
    simp only [RingHom.id_apply]
    rw [dotProduct_mulVec, ← mulVec_transpose, hB, dotProduct_comm]

/-- the operator of a matrix: `x ↦ M x` -/
def opOfMatrix {n : ℕ} (M : Matrix (Fin n) (Fin n) 𝕜) : (Fin n → 𝕜) →ₗ[𝕜] (Fin n → 𝕜) where
  toFun := M.mulVec
  map_add' := mulVec_add M
  map_smul' c x := by simp [mulVec_smul]

/-- the matrix form of the relation is the instance `E = Fin n → 𝕜`, `A = opOfMatrix M` -/
example {n : ℕ} (M : Matrix (Fin n) (Fin n) 𝕜) (V : ℕ → Fin n → 𝕜) (H : ℕ → ℕ → 𝕜) (f : Fin n → 𝕜) (k : ℕ) (β : 𝕜)
    (hβ : β ≠ 0) (h : ℕ → 𝕜) (hK : Kry (opOfMatrix M) V H f k) :
    Kry (opOfMatrix M) (extV V k (β⁻¹ • f)) (extH H k β h) (resid (opOfMatrix M) (extV V k (β⁻¹ • f)) k h) (k + 1) := by
  simpa using c07_extend (opOfMatrix M) V H f k β hβ h [] hK

/-- hypotheses satisfiable: a 1-step relation (`E = 𝕜`, `A = id`, `v = 1`, `H₀₀ = 1`, `f = 0`) -/
example : Kry (LinearMap.id : 𝕜 →ₗ[𝕜] 𝕜) (fun _ => (1 : 𝕜)) (fun _ _ => (1 : 𝕜)) 0 1 := by
  intro j hj
  have : j = 0 := by omega
  subst this; simp

/-- hypotheses of `c07_compress` satisfiable: `m = 2`, `k = 1`, `Q = I`, `H⁺ = H` diagonal -/
example : (∀ i, i < 2 → ∀ j, j < 1 →
      ∑ a ∈ range 2, (fun (i j : ℕ) => if i = j then (1 : 𝕜) else 0) i a * (fun (i j : ℕ) => if i = j then (1 : 𝕜) else 0) a j
        = ∑ b ∈ range 2, (fun (i j : ℕ) => if i = j then (1 : 𝕜) else 0) i b * (fun (i j : ℕ) => if i = j then (1 : 𝕜) else 0) b j) ∧
    (∀ j, j + 1 < 1 → (fun (i j : ℕ) => if i = j then (1 : 𝕜) else 0) (2 - 1) j = 0) := by
  constructor
  · intro i _ j _; rfl
  · intro j hj; omega

/-- the full-strength claim "continuing after a breakdown always preserves the relation" is FALSE for a nonzero discarded
    residual: witness `E = 𝕜`, `A = 0`… any exact relation with `f ≠ 0` (here `A = id`, `v₀ = 1`, `H₀₀ = 0`, `f = 1`). -/
example (h1 : (1 : 𝕜) ≠ 0) (v : 𝕜) (h : ℕ → 𝕜) :
    ¬ Kry (LinearMap.id : 𝕜 →ₗ[𝕜] 𝕜) (extV (fun _ => (1 : 𝕜)) 1 v) (extH (fun _ _ => (0 : 𝕜)) 1 0 h)
        (resid (LinearMap.id : 𝕜 →ₗ[𝕜] 𝕜) (extV (fun _ => (1 : 𝕜)) 1 v) 1 h) 2 := by
  have hK : Kry (LinearMap.id : 𝕜 →ₗ[𝕜] 𝕜) (fun _ => (1 : 𝕜)) (fun _ _ => (0 : 𝕜)) 1 1 := by
    intro j hj
    have : j = 0 := by omega
    subst this; simp
  intro hn
  exact h1 (((c07_breakdown _ _ _ _ 1 (by omega) v h hK).2).mp hn)

/-! ### the executable Lanczos model at an exact field: passes, loops, restart, init as C07 steps

  `C07L.ExactSc K`: the `Sc` instance has exact comparisons / abs / square root (`scOfField F` with an exact `F.sqrt`).
  `C07L.OpOK n op A`: identity `B`, `perform_op` is the linear map `A`.  `hsa`: `A` is self-adjoint for the Euclidean form (symmetric).
  `C07L.PassInv n m A s i`: array shapes, `i`-step Krylov relation, `VᵀV = I`, `Vᵀf = 0`, `beta = ‖f‖`, `H` symmetric tridiagonal on the
  leading block and zero off the three diagonals outside it, `0 ≤ eps`.
  `C07L.absAt n i s`: the model state read as a `C07.St` of dimension `i` (`V`, the leading block of `H` + the entry `(i,i-1)`, `f`).

  NOT DONE: the RESTART BRANCH of a pass (`beta < near_0` → `Arnoldi.expand_basis`) and the `f := 0` shortcut inside the
  re-orthogonalisation loop.  In exact arithmetic with an orthonormal basis the shortcut and the second restart criterion are
  unreachable (proved inside `c07_model_lanczos_step`: `Vᵀf' = 0` exactly, so the loop is not entered); the first criterion is
  excluded by the hypothesis `hreg` / `C07L.Regular`: what the code does there (random directions, accepted only if
  `‖Vᵀg‖ < eps‖g‖`, residual discarded) is a C07 `restart` step whose exactness needs `f = 0` and whose orthogonality needs the random
  direction to leave `span V` — run-dependent facts (abstract algebra: `c07_breakdown`). -/
section lanczos_model
open C07L C01E
variable {K : Type} [Field K] [LinearOrder K] [IsStrictOrderedRing K] [Sc K] (Ex : ExactSc K)
include Ex

/-- (1) `c07_model_lanczos_step`: ONE REGULAR PASS of `Lanczos.factorStep` on a state satisfying the loop invariant at `i`
    (`1 ≤ i < m`, `beta ≥ near_0`, `beta ≠ 0`) produces EXACTLY the C07 state `(absAt i s).step (.extend beta h)` — `V`, `H`, `f`, `k`,
    `R` as functions —; the step is `ok`, `exact` and `orthOk`; the invariant holds at `i + 1`.  (Neither the second restart criterion
    nor the re-orthogonalisation loop — hence the `f := 0` shortcut — can fire: the three-term recurrence is full Gram–Schmidt.) -/
theorem c07_model_lanczos_step (n m : ℕ) (A : (Fin n → K) →ₗ[K] (Fin n → K)) (op : Arnoldi.Op K) (hop : OpOK n op A)
    (hsa : ∀ x y, dotProduct x (A y) = dotProduct (A x) y) (bt es : K) (hes : 0 ≤ es)
    (s : Arnoldi.State K) (i : ℕ) (hI : PassInv n m A s i) (hi1 : 1 ≤ i) (him : i < m)
    (hreg : Sc.lt s.beta s.near0 = false) (hβ : s.beta ≠ 0) :
    ∃ h : ℕ → K,
      absAt n (i + 1) (Lanczos.factorStep op bt es s i) = (absAt n i s).step A (.extend s.beta h) ∧
      (Step.extend s.beta h : Step K (Fin n → K)).ok (absAt n i s) ∧
      (Step.extend s.beta h : Step K (Fin n → K)).exact (absAt n i s) ∧
      (Step.extend s.beta h : Step K (Fin n → K)).orthOk (dotIP n) A (absAt n i s) ∧
      PassInv n m A (Lanczos.factorStep op bt es s i) (i + 1) ∧
      (Lanczos.factorStep op bt es s i).k = s.k ∧ (Lanczos.factorStep op bt es s i).near0 = s.near0 ∧
      (Lanczos.factorStep op bt es s i).eps = s.eps :=
  lanczos_pass_regular Ex n m A op hop hsa bt es hes s i hI hi1 him hreg hβ

/-- (2) `c07_model_factorize_run`: INDUCTION OVER THE WHOLE LOOP.  `Lanczos.factorize_from(k, to_m)` from the current dimension
    `k = s.k ≥ 1` returns a state of advertised dimension `to_m` that is `C07.run` of a list of `to_m − k` steps applied to the state
    with `H` cleaned outside its leading block (the two `setZero` calls), all steps `ok`, `exact`, `orthOk`; the invariant holds at
    `to_m`.  Hypothesis `hreg`: no pass of this run meets a breakdown. -/
theorem c07_model_factorize_run (n m : ℕ) (A : (Fin n → K) →ₗ[K] (Fin n → K)) (op : Arnoldi.Op K) (hop : OpOK n op A)
    (hsa : ∀ x y, dotProduct x (A y) = dotProduct (A x) y)
    (s : Arnoldi.State K) (to_m : ℕ) (hI : PassInv n m A s s.k) (hk1 : 1 ≤ s.k) (hlt : s.k < to_m) (hto : to_m ≤ m)
    (hreg : Regular op (s.eps * Sc.sqrt (Sc.ofInt (s.n : Int))) (Sc.sqrt s.eps) (to_m - s.k) s.k (cleanH s s.k)) :
    ∃ s' : Arnoldi.State K, Lanczos.factorize_from op s s.k to_m = some s' ∧ s'.k = to_m ∧
      s'.near0 = s.near0 ∧ s'.eps = s.eps ∧ PassInv n m A s' s'.k ∧
      ∃ l : List (Step K (Fin n → K)), l.length = to_m - s.k ∧
        allOk A (absAt n s.k (cleanH s s.k)) l ∧ allExact A (absAt n s.k (cleanH s s.k)) l ∧
        allOrthOk (dotIP n) A (absAt n s.k (cleanH s s.k)) l ∧
        absAt n s'.k s' = C07.run A (absAt n s.k (cleanH s s.k)) l :=
  factorize_run Ex n m A op hop hsa s to_m hI hk1 hlt hto hreg

/-- (3a) `c07_model_compress`: `compress_H` + `compress_V` with an accumulated `(H⁺, Q)` satisfying the QR facts (`H⁺` symmetric
    tridiagonal, `H Q = Q H⁺`, `QᵀQ = I`, `Q` of lower bandwidth `m − k`: C08) maps the invariant at full dimension `m` to the invariant
    at `k` — the model-level `c07_compress` + `c07_compress_orth` + `c07_compress_band` in one. -/
theorem c07_model_compress (n m : ℕ) (A : (Fin n → K) →ₗ[K] (Fin n → K)) (op : Arnoldi.Op K) (hop : OpOK n op A)
    (s : Arnoldi.State K) (k : ℕ) (hI : PassInv n m A s m) (hk0 : 0 < k) (hkm : k < m) (Hp Q : Lin.Mat K)
    (hq : QRFacts m k s.H Hp Q) :
    PassInv n m A (Arnoldi.compress_V op { s with H := Hp, k := k } Q) k :=
  compress_passInv Ex n m A op hop s k hI hk0 hkm Hp Q hq

/-- (3b) `c07_model_restart_run`: the whole `HermSolver.restartFac(k)` from a full factorization: never throws, the state after
    `compress_V` (`restartMid`) satisfies the invariant at `k`, the result is `C07.run` of `m − k` exact steps from it and satisfies the
    invariant at `m`.  `hq`: the QR facts for the accumulated shift loop (for `TridiagQR` at `scOfField F` with `Sc.eps = 0`:
    `C01DT.shiftLoop_spec`; with `eps > 0` the deflation passes drop entries `|e| ≤ eps(|dᵢ|+|dᵢ₊₁|)` and `H Q = Q H⁺` holds only up
    to those entries — the explicit error term `Δ` of `c08_tqr_matrix_partial`; not carried through here). -/
theorem c07_model_restart_run (n m : ℕ) (A : (Fin n → K) →ₗ[K] (Fin n → K)) (op : Arnoldi.Op K) (hop : OpOK n op A)
    (hsa : ∀ x y, dotProduct x (A y) = dotProduct (A x) y)
    (s : Arnoldi.State K) (k : ℕ) (vals : List K) (hI : PassInv n m A s m) (hsk : s.k = m) (hk0 : 0 < k) (hkm : k < m)
    (hq : QRFacts m k s.H (shiftLoopG (HermSolver.restartShifts m k vals) s.H (Lin.Mat.identity m)).1
      (shiftLoopG (HermSolver.restartShifts m k vals) s.H (Lin.Mat.identity m)).2)
    (hreg : Regular op ((restartMid op m k vals s).eps * Sc.sqrt (Sc.ofInt ((restartMid op m k vals s).n : Int)))
      (Sc.sqrt (restartMid op m k vals s).eps) (m - k) k (cleanH (restartMid op m k vals s) k)) :
    ∃ s3 : Arnoldi.State K, HermSolver.restartFac op m k vals s = ⟨s3, s3.ops - s.ops, none⟩ ∧ s3.k = m ∧
      s3.near0 = s.near0 ∧ s3.eps = s.eps ∧ PassInv n m A s3 s3.k ∧
      PassInv n m A (restartMid op m k vals s) k ∧
      ∃ l : List (Step K (Fin n → K)), l.length = m - k ∧
        allOk A (absAt n k (cleanH (restartMid op m k vals s) k)) l ∧
        allExact A (absAt n k (cleanH (restartMid op m k vals s) k)) l ∧
        allOrthOk (dotIP n) A (absAt n k (cleanH (restartMid op m k vals s) k)) l ∧
        absAt n s3.k s3 = C07.run A (absAt n k (cleanH (restartMid op m k vals s) k)) l :=
  restart_run Ex n m A op hop hsa s k vals hI hsk hk0 hkm hq hreg

/-- (5, model level) `c07_model_init`: a regular `Arnoldi.init` (`‖A v0‖ ≠ 0`, `f := 0` shortcut not taken) hands over a state
    satisfying the invariant at dimension 1 (model-level `c07_init`). -/
theorem c07_model_init (n m : ℕ) (A : (Fin n → K) →ₗ[K] (Fin n → K)) (op : Arnoldi.Op K) (hop : OpOK n op A)
    (s s' : Arnoldi.State K) (hn : s.n = n) (hm : s.m = m) (hm1 : 1 ≤ m) (heps : 0 ≤ s.eps) (v0 : Lin.Vec K) (hv0 : v0.size = n)
    (h : Arnoldi.init op s v0 = some s') (hreg : InitRegular op s v0) :
    PassInv n m A s' 1 ∧ s'.k = 1 ∧ s'.near0 = s.near0 ∧ s'.eps = s.eps :=
  init_passInv Ex n m A op hop s s' hn hm hm1 heps v0 hv0 h hreg

end lanczos_model

/-- the loop invariant, the regularity hypothesis and `ExactSc` are satisfiable: the exact instance over any ordered field with the
    trivial operator on `K⁰`, the freshly constructed state, zero passes -/
example {K : Type} [Field K] [LinearOrder K] [IsStrictOrderedRing K] (F : FieldFns K) (op : Arnoldi.Op K) :
    (letI := scOfField F; C07L.Regular op (0 : K) 0 0 1 (Arnoldi.State.mk0 0 2 0 0)) := trivial

end C07
