/-
  C01 — SymEigsSolver / HermEigsSolver / SymEigsShiftSolver hand back only genuine, orthonormal eigenpairs, whether the run ends
  Successful or NotConverging, and after any sequence of init()/compute() calls.

  FULL STATEMENT (properties.jsonl): every pair `(θ, x)` handed back as converged satisfies
      ‖A x − θ x‖ ≤ tol · max(eps^(2/3), |θ|)  (iterated spectrum;  ≈ tol · ‖A − σI‖ after back-transformation in shift mode)
                    + a rounding-level multiple of ‖A‖,        ‖x‖ = 1,   returned vectors mutually orthonormal to rounding level.

  WHAT IS PROVED HERE (exact arithmetic: any linearly ordered field `F` — so float, double and long double parameters alike —,
  matrices of every size, every operator, every kernel behaviour, every history):
    (1) `c01_residual`      Krylov relation ∧ `H y = θ y` ∧ the code's flag test `|y_last|·β < tol·max(eps23,|θ|)` (β = ‖f‖)
                            ⇒ ‖A x − θ x‖² < (tol·max(eps23,|θ|))² for `x = V y`   (on top of `Ritz.residual`);
                            `c01_residual_real` the same with `Real.sqrt`; `c01_residual_norm` for any absolutely homogeneous norm
                            (complex Hermitian case: `V`, `f` complex, `H`, `y`, `θ` real; `B`-norms).
    (2) `c01_unit_orth`     `VᴴV = I`, `YᴴY = I` ⇒ `(VY)ᴴ(VY) = I` (star ring: complex Hermitian; `c01_unit_orth_real` with
                            transposes), and `‖V y‖² = ‖y‖²`.
    (3) `c01_shift`         SymEigsShiftSolver: with `(A − σI)·Op = I` and the returned `λ = σ + 1/ν`:
                            `A x − λ x = −(1/ν)(A − σI)(Op x − ν x)`, hence ‖A x − λ x‖ < C·tol·max(eps23,|ν|)/|ν| for every bound
                            `C` of the operator norm of `A − σI` (= C·tol when `|ν| ≥ eps23`: the documented `tol·‖A − σI‖`).
    (4) `c01_flags_paired`  (from `C05.c05_flags_fresh`) the flags handed back ARE the convergence test evaluated on the Ritz pairs of
                            the FINAL factorization, permuted together with the vectors — every kernel behaviour, every prior
                            state.  This is the clause that FAILED before the F1 repair (c774a83): when `maxit` ran out the flags
                            belonged to the Ritz pairs of the previous restart (and to no pairs at all for `maxit = 0`).
    (5) `c01_histories`     for EVERY finite history of init()/compute() calls from the freshly constructed object and a final
                            compute() that returns, every pair handed back (flag set) is `(back ν, V y)` with
                            ‖Op x − ν x‖² < (tol·max(eps23,|ν|))², under the explicit exact-arithmetic kernel specifications
                            `C01E.ExactKernels` (Krylov relation maintained: each factorization kernel is a sequence of C07 steps —
                            composed with C07's run theorem —; small eigen-solver returns eigenpairs of H with the estimate = last
                            coordinate — C09 spec —; flag test and `x = V y` as in the code).  NO "compute() is preceded by init()"
                            restriction: since the F2 repair (f70c7d9) a repeated compute() continues from the existing
                            factorization (`max 1 facDim` in the model), and the invariant "Krylov relation at the advertised
                            dimension" is kept by `compute` on EVERY path (`C01O.compute_fac_invariant`), including the ones that end in
                            an exception.  `c01_histories_sym` / `c01_histories_shift` are the two instances named in the property;
                            `c01_histories_orth`: under `ExactOrth` the vectors handed back after any history are orthonormal.

  NOT PROVED (out of reach; covered only by the bit-exact correspondence of the Float instance with the real classes and by the
  implementation-level predicate in __float128):
    * rounding: the "+ rounding-level multiple of ‖A‖" term, i.e. that the Float run stays close to the exact-arithmetic run
      (accumulation of rounding error through the recurrence, the QR sweeps and TridiagEigen);
    * that the executable kernels (`HermSolver.hermKern`) satisfy `ExactKernels` as a whole: C07 proves it for one regular pass of the
      factorization loop, for `compress_V` and for every composition of steps; C08/C09 for the QR helpers / TridiagEigen with ideal
      rotations; `c01_model_kernels` / `c01_model_sort_lt` below discharge `conv_spec`, `back_spec`, `assemble_spec`, `select_lt`
      and `sort_lt` for the executable record.
      The hypotheses are spelled out as the structures `ExactKernels` / `ExactOrth` and shown satisfiable below;
      DISCHARGE (section "the executable kernels satisfy the kernel specifications", end of file): `ExactKernels` as stated
      (specifications for EVERY object `fac`, every `factorize a b`, every `restartFac k`) is NOT satisfiable by the numeric kernels
      (malformed arrays; `factorize a b` with `a < k` truncates and keeps a stale residual; `restartFac 0`), so the specifications
      are relativised to an invariant the kernels preserve as `compute()`/`init()` call them (`ExactKernelsOn`, `c01_histories_on`),
      and THAT is discharged for `HermSolver.hermKern` at `scOfField F` (`c01_hermKern_kernels`, `c01_histories_hermKern`):
      remaining hypotheses = exact sqrt, ideal rotations, `Sc.eps = 0` (deflation drops only exact zeros), `M` symmetric, the
      run-level "no breakdown" set (`C01H.Reg`), and `eig_spec` (`C01H.EigSpec`);
      `c01_histories_hermKern_full` REMOVES the `eig_spec` hypothesis: it is proved from C09's whole-run similarity of TridiagEigen
      (`C09Sim.eigH_spec`) under `0 < min()` and the run-level hypothesis `C01H.ZeroDrop` (TridiagEigen's perturbation budget is 0
      on the full regular states: its deflation test also uses the absolute `considerAsZero = min()`, so this cannot be a
      constant-level hypothesis).  So for `Orch.compute (hermKern …)` at `scOfField F` the residual clause holds for every history
      with NO kernel-specification hypothesis left; what remains are idealisation constants (exact sqrt, ideal rotations,
      `Sc.eps = 0`, `0 < min()`), `M` symmetric, `1 ≤ nev < ncv`, and the two run-level hypotheses `Reg`, `ZeroDrop`.
      `c01_histories_orth_hermKern`: orthonormality of the returned vectors likewise (`eig_orth` from C09 `ZᵀZ = I`, `V` from the
      invariant); the injectivity of the two index vectors (`C01H.SortInj`, C18) is still a hypothesis.
      NOT covered: the breakdown branch (`beta < near_0` → `expand_basis`), non-zero discards (error terms), rounding;
    * orthonormality of the basis `V` in floating point is FALSE for the code as it is on weak hand-overs / under the absolute
      breakdown thresholds (known findings F12*, see known_findings/C01.json): (2) takes `VᴴV = I` as a hypothesis.
-/
import Mathlib.Analysis.Real.Sqrt
import Mathlib.Algebra.BigOperators.Fin
import Mathlib.Tactic.NormNum
import Mathlib.Tactic.FinCases
import SpectraVerif.Properties.C05
import SpectraVerif.Proofs.C01Matrix
import SpectraVerif.Proofs.C01Bridge
import SpectraVerif.Proofs.C01Orch
import SpectraVerif.Proofs.C01Exact
import SpectraVerif.Proofs.C01ExactOrth
import SpectraVerif.Proofs.C01Model
import SpectraVerif.Proofs.C01Sort
import SpectraVerif.Proofs.C01Toy
import SpectraVerif.Proofs.C01DischargeOn
import SpectraVerif.Proofs.C01DischargeHerm
import SpectraVerif.Proofs.C01DischargeEig

set_option linter.unusedSectionVars false
set_option linter.unusedVariables false
open Matrix

namespace C01
open Orch C01M C01E

/-! ### (1) the flag test bounds the true residual -/

section residual
variable {n m : Type} [Fintype n] [Fintype m] [DecidableEq m] {F : Type} [Field F] [LinearOrder F] [IsStrictOrderedRing F]

/-- **Residual** (ordered field, squared Euclidean norms).  `β` is `m_fac.f_norm()` (`0 ≤ β`, `β² = ‖f‖²`), `y last` is the Ritz
    estimate `m_ritz_est`, the hypothesis `hflag` is literally the comparison `num_converged` evaluates. -/
theorem c01_residual (A : Matrix n n F) (V : Matrix n m F) (H : Matrix m m F) (f : n → F) (last : m) (θ : F) (y : m → F)
    (β tol eps23 : F)
    (hfac : A * V = V * H + vecMulVec f (Pi.single last 1)) (hy : H *ᵥ y = θ • y)
    (hβ : 0 ≤ β) (hβf : β * β = nsq f)
    (hflag : |y last| * β < tol * max eps23 |θ|) :
    nsq (A *ᵥ (V *ᵥ y) - θ • (V *ᵥ y)) < (tol * max eps23 |θ|) ^ 2 := by
  rw [Ritz.residual A V H f last θ y hfac hy, nsq_smul]
  exact sq_bound _ _ _ _ hβ hβf hflag

/-- **Residual**, any absolutely homogeneous norm (`nrm (c • v) = absK c * nrm v`): the Euclidean norm of complex vectors
    (HermEigsSolver: `V`, `f` complex, `H`, `y`, `θ` real numbers embedded in `K`), `B`-norms (generalized solvers). -/
theorem c01_residual_norm {K : Type} [Field K] (nrm : (n → K) → F) (absK : K → F) (hhom : ∀ c v, nrm (c • v) = absK c * nrm v)
    (A : Matrix n n K) (V : Matrix n m K) (H : Matrix m m K) (f : n → K) (last : m) (θ : K) (y : m → K) (tol eps23 : F)
    (hfac : A * V = V * H + vecMulVec f (Pi.single last 1)) (hy : H *ᵥ y = θ • y)
    (hflag : absK (y last) * nrm f < tol * max eps23 (absK θ)) :
    nrm (A *ᵥ (V *ᵥ y) - θ • (V *ᵥ y)) < tol * max eps23 (absK θ) :=
  residual_of_homogeneous nrm absK hhom A V H f last θ y _ hfac hy hflag

end residual

/-- **Residual** over `ℝ` with the Euclidean norm `√(v·v)`, `β = ‖f‖`. -/
theorem c01_residual_real {n m : Type} [Fintype n] [Fintype m] [DecidableEq m]
    (A : Matrix n n ℝ) (V : Matrix n m ℝ) (H : Matrix m m ℝ) (f : n → ℝ) (last : m) (θ : ℝ) (y : m → ℝ) (tol eps23 : ℝ)
    (hfac : A * V = V * H + vecMulVec f (Pi.single last 1)) (hy : H *ᵥ y = θ • y)
    (hflag : |y last| * Real.sqrt (f ⬝ᵥ f) < tol * max eps23 |θ|) :
    Real.sqrt ((A *ᵥ (V *ᵥ y) - θ • (V *ᵥ y)) ⬝ᵥ (A *ᵥ (V *ᵥ y) - θ • (V *ᵥ y))) < tol * max eps23 |θ| := by
  refine c01_residual_norm (fun v => Real.sqrt (v ⬝ᵥ v)) (fun c => |c|) ?_ A V H f last θ y tol eps23 hfac hy hflag
  intro c v
  have : (c • v) ⬝ᵥ (c • v) = c ^ 2 * (v ⬝ᵥ v) := nsq_smul c v
  rw [this, Real.sqrt_mul (sq_nonneg c), Real.sqrt_sq_eq_abs]

/-! ### (2) the returned vectors are orthonormal when the basis and the Ritz coordinates are -/

/-- **Unit norm and orthogonality**, Hermitian form (any commutative star ring: ℂ with conjugation, ℝ with the trivial star). -/
theorem c01_unit_orth {n m p : Type} [Fintype n] [Fintype m] [Fintype p] [DecidableEq m] [DecidableEq p]
    {K : Type} [CommRing K] [StarRing K] (V : Matrix n m K) (Y : Matrix m p K) (hV : Vᴴ * V = 1) (hY : Yᴴ * Y = 1) :
    (V * Y)ᴴ * (V * Y) = 1 := unit_orth_star V Y hV hY

/-- the same with transposes (real symmetric solvers, any commutative ring), plus `‖V y‖² = ‖y‖²` and `(V y)·(V z) = y·z` -/
theorem c01_unit_orth_real {n m p : Type} [Fintype n] [Fintype m] [Fintype p] [DecidableEq m] [DecidableEq p]
    {F : Type} [Field F] [LinearOrder F] [IsStrictOrderedRing F] (V : Matrix n m F) (Y : Matrix m p F) (hV : Vᵀ * V = 1) :
    (Yᵀ * Y = 1 → (V * Y)ᵀ * (V * Y) = 1) ∧ (∀ y, nsq (V *ᵥ y) = nsq y) ∧ (∀ y z, (V *ᵥ y) ⬝ᵥ (V *ᵥ z) = y ⬝ᵥ z) :=
  ⟨fun hY => unit_orth_transpose V Y hV hY, nsq_mulVec_of_orth V hV, dot_mulVec_of_orth V hV⟩

/-! ### (3) shift-and-invert back-transformation -/

/-- **Shift mode**: the solver iterates on `Op` with `(A − σI)·Op = I` and returns `λ = σ + 1/ν`.  The residual in the user's
    problem is the iterated residual `r = Op x − ν x` pushed through `A − σI` and divided by `ν` (`Spectral.shift_invert`); with any
    bound `C` of the operator norm of `A − σI` and the flag bound `‖r‖ < b` this gives `‖A x − λ x‖ < C·b/|ν|`, which is the
    documented `C·tol` when `b = tol·max(eps23,|ν|)` and `|ν| ≥ eps23`. -/
theorem c01_shift {n : Type} [Fintype n] [DecidableEq n] {F : Type} [Field F] [LinearOrder F] [IsStrictOrderedRing F]
    (A Op : Matrix n n F) (σ ν : F) (x : n → F) (hν : ν ≠ 0) (hOp : (A - σ • (1 : Matrix n n F)) * Op = 1) :
    A *ᵥ x - (σ + ν⁻¹) • x = -ν⁻¹ • ((A - σ • (1 : Matrix n n F)) *ᵥ (Op *ᵥ x - ν • x)) ∧
    (∀ C b : F, 0 < C → (∀ v, nsq ((A - σ • (1 : Matrix n n F)) *ᵥ v) ≤ C ^ 2 * nsq v) →
        nsq (Op *ᵥ x - ν • x) < b ^ 2 → nsq (A *ᵥ x - (σ + ν⁻¹) • x) < (C * b / |ν|) ^ 2) ∧
    (∀ tol eps23 : F, eps23 ≤ |ν| → tol * max eps23 |ν| / |ν| = tol) := by
  have hy : Op *ᵥ x = ν • x + (Op *ᵥ x - ν • x) := by simp
  have hM : (A - σ • (1 : Matrix n n F)) *ᵥ (Op *ᵥ x) = x := by rw [mulVec_mulVec, hOp, one_mulVec]
  have key := Spectral.shift_invert A σ ν x (Op *ᵥ x - ν • x) (Op *ᵥ x) hν hy hM
  have hpos : 0 < |ν| := abs_pos.mpr hν
  refine ⟨key, ?_, ?_⟩
  · intro C b hC hnorm hr
    rw [key, nsq_smul]
    have h1 := hnorm (Op *ᵥ x - ν • x)
    have hc2 : 0 < C ^ 2 := by positivity
    have hn2 : 0 < (-ν⁻¹) ^ 2 := by
      have h0 : -ν⁻¹ ≠ 0 := neg_ne_zero.mpr (inv_ne_zero hν)
      exact lt_of_le_of_ne (sq_nonneg _) (Ne.symm (pow_ne_zero 2 h0))
    have h2 : C ^ 2 * nsq (Op *ᵥ x - ν • x) < C ^ 2 * b ^ 2 := mul_lt_mul_of_pos_left hr hc2
    have h3 : (-ν⁻¹) ^ 2 * nsq ((A - σ • (1 : Matrix n n F)) *ᵥ (Op *ᵥ x - ν • x)) < (-ν⁻¹) ^ 2 * (C ^ 2 * b ^ 2) :=
      mul_lt_mul_of_pos_left (lt_of_le_of_lt h1 h2) hn2
    have h4 : (-ν⁻¹) ^ 2 * (C ^ 2 * b ^ 2) = (C * b / |ν|) ^ 2 := by
      rw [div_pow, sq_abs]; field_simp
    rw [← h4]; exact h3
  · intro tol eps23 h
    rw [max_eq_right h]; field_simp

/-! ### (4) the flags belong to the pairs handed back -/

section flags
variable {φ ρ ε κ β τ ω : Type} (K : Kern φ ρ ε κ β τ ω) (c : Cfg)

/-- **Flags are paired with the returned Ritz pairs** (every kernel behaviour, every prior state / history, every `maxit` incl. 0,
    both exits of the restart loop): there is ONE pre-sort state `s3` on the final factorization and ONE index vector `ind` such
    that the flag handed back at position `i` is the convergence test evaluated on `s3`'s pair number `ind i` — the pair whose Ritz
    vector is handed back at position `i`.  Derived from `C05.c05_flags_fresh`.
    For the code before `fix:` c774a83 (finding F1) this was FALSE when `maxit` was exhausted: the flags were those of the previous
    restart's Ritz pairs. -/
theorem c01_flags_paired (sel : Int) (maxit : Nat) (tol : τ) (sorting : Int) (s : St φ ρ ε κ) (r : Nat)
    (h : (compute K c sel maxit tol sorting s).out = .ok r) :
    ∃ s3 : St φ ρ ε κ, ∃ ind, (compute K c sel maxit tol sorting s).st.fac = s3.fac ∧
      K.sortIdx sorting (mapHead c.nev K.backTransform s3.ritzVal) c.nev = .ok ind ∧
      ∀ i, i < c.nev →
        (compute K c sel maxit tol sorting s).st.ritzVec.getD i K.zeroκ = s3.ritzVec.getD (ind.getD i 0) K.zeroκ ∧
        (ind.getD i 0 < c.nev →
          (compute K c sel maxit tol sorting s).st.ritzConv.getD i false
            = K.convTest tol s3.fac (s3.ritzVal.getD (ind.getD i 0) K.zeroρ) (s3.ritzEst.getD (ind.getD i 0) K.zeroε)) := by
  obtain ⟨s3, ind, hfresh, hfac, hind, hconv, hvec⟩ := C05.c05_flags_fresh K c sel maxit tol sorting s r h
  refine ⟨s3, ind, hfac, hind, ?_⟩
  intro i hi
  constructor
  · rw [hvec, getD_map_range _ _ _ _ hi]
  · intro hj
    rw [hconv, getD_map_range _ _ _ _ hi, hfresh]
    unfold convFlags
    rw [getD_map_range _ _ _ _ hj]

end flags

/-! ### (5) every history -/

section histories
variable {φ ρ ε κ β τ ω : Type} {F : Type} [Field F] [LinearOrder F] [IsStrictOrderedRing F]
  {K : Kern φ ρ ε κ β τ ω} {c : Cfg} {n : ℕ} {M : Matrix (Fin n) (Fin n) F} {eps23 : F}

/-- the Krylov relation at the advertised dimension survives EVERY history of `init()` / `compute()` calls, whatever their
    arguments and outcomes (normal return, exception at any stage): composition of `c07_run` over the kernels' step sequences -/
theorem c01_invariant_histories (X : ExactKernels K c n M eps23) (hist : List (Call β τ)) (s0 : St φ ρ ε κ)
    (h0 : Good (C01B.opOf M) (X.abs s0.fac)) : Good (C01B.opOf M) (X.abs (run K c s0 hist).fac) :=
  C01O.run_fac_invariant K c (fun fac => Good (C01B.opOf M) (X.abs fac)) X.init_good
    (fun a b fac h => X.factorize_good a b fac h) (fun k vals fac h => X.restart_good k vals fac h) hist s0 h0

/-- **Every history** (the full clause in exact arithmetic).  After ANY finite sequence of `init()` / `compute()` calls on an object
    whose factorization satisfied the Krylov relation at the start (e.g. the freshly constructed one: dimension 0), a `compute()` that
    returns hands back, at every position `i` it flags as converged (these are exactly the positions `eigenvalues()` and
    `eigenvectors()` read: `C05.c05_accessor_pairing`), a value `back ν` and the vector `x = V y` with
        ‖M x − ν x‖² < (tol · max(eps23, |ν|))²
    — whether `info()` ends up Successful or NotConverging, whether or not an `init()` precedes the `compute()`. -/
theorem c01_histories (X : ExactKernels K c n M eps23) (hist : List (Call β τ)) (s0 : St φ ρ ε κ)
    (h0 : Good (C01B.opOf M) (X.abs s0.fac))
    (sel : Int) (maxit : Nat) (tol : τ) (sorting : Int) (r : Nat)
    (h : (compute K c sel maxit tol sorting (run K c s0 hist)).out = .ok r) :
    let s' := (compute K c sel maxit tol sorting (run K c s0 hist)).st
    ∀ i ∈ convIdx c s',
      ∃ ν : F, X.val (s'.ritzVal.getD i K.zeroρ) = X.back ν ∧
        nsq (M *ᵥ X.out (K.assemble s'.fac (s'.ritzVec.getD i K.zeroκ)) - ν • X.out (K.assemble s'.fac (s'.ritzVec.getD i K.zeroκ)))
          < (X.tolv tol * max eps23 |ν|) ^ 2 := by
  intro s' i hi
  have hgood := c01_invariant_histories X hist s0 h0
  simp only [convIdx, List.mem_filter, List.mem_range] at hi
  exact compute_pairs X sel maxit tol sorting _ hgood r h i hi.1 hi.2

/-- the freshly constructed object (`m_k = 0`, nothing computed yet) satisfies the invariant vacuously, so `c01_histories` applies
    to every history that starts at the constructor: `s0 = construct fac0` -/
theorem c01_fresh_object (X : ExactKernels K c n M eps23) (fac0 : φ) (hk : (X.abs fac0).k = 0) (hR : (X.abs fac0).R = fun _ => 0) :
    Good (C01B.opOf M) (X.abs (construct (ρ := ρ) (ε := ε) (κ := κ) fac0).fac) := by
  refine ⟨?_, hR⟩
  intro j hj
  simp only [construct] at hj
  rw [hk] at hj
  exact absurd hj (Nat.not_lt_zero j)

/-- **SymEigsSolver** (`back = id`): the value handed back IS the Ritz value of the residual bound -/
theorem c01_histories_sym (X : ExactKernels K c n M eps23) (hback : ∀ t, X.back t = t) (hist : List (Call β τ)) (s0 : St φ ρ ε κ)
    (h0 : Good (C01B.opOf M) (X.abs s0.fac))
    (sel : Int) (maxit : Nat) (tol : τ) (sorting : Int) (r : Nat)
    (h : (compute K c sel maxit tol sorting (run K c s0 hist)).out = .ok r) :
    let s' := (compute K c sel maxit tol sorting (run K c s0 hist)).st
    ∀ i ∈ convIdx c s',
      nsq (M *ᵥ X.out (K.assemble s'.fac (s'.ritzVec.getD i K.zeroκ))
            - X.val (s'.ritzVal.getD i K.zeroρ) • X.out (K.assemble s'.fac (s'.ritzVec.getD i K.zeroκ)))
        < (X.tolv tol * max eps23 |X.val (s'.ritzVal.getD i K.zeroρ)|) ^ 2 := by
  intro s' i hi
  obtain ⟨ν, hν, hres⟩ := c01_histories X hist s0 h0 sel maxit tol sorting r h i hi
  rw [hback] at hν
  rw [hν]; exact hres

/-- **SymEigsShiftSolver** (`back ν = 1/ν + σ`, `M = Op` with `(A − σI)·Op = I`): the pair handed back is `(λ, x)` with
    `λ = σ + 1/ν` and `‖A x − λ x‖ < C · tol · max(eps23,|ν|) / |ν|` for every bound `C` of the operator norm of `A − σI`
    (a Ritz value `ν = 0` of the inverse cannot be flagged unless `tol·eps23 > 0` lets it: hypothesis `hν0`). -/
theorem c01_histories_shift (A : Matrix (Fin n) (Fin n) F) (σ : F) (X : ExactKernels K c n M eps23)
    (hback : ∀ t, X.back t = 1 / t + σ) (hOp : (A - σ • (1 : Matrix (Fin n) (Fin n) F)) * M = 1)
    (C : F) (hC : 0 < C) (hnorm : ∀ v, nsq ((A - σ • (1 : Matrix (Fin n) (Fin n) F)) *ᵥ v) ≤ C ^ 2 * nsq v)
    (hist : List (Call β τ)) (s0 : St φ ρ ε κ) (h0 : Good (C01B.opOf M) (X.abs s0.fac))
    (sel : Int) (maxit : Nat) (tol : τ) (sorting : Int) (r : Nat)
    (h : (compute K c sel maxit tol sorting (run K c s0 hist)).out = .ok r) :
    let s' := (compute K c sel maxit tol sorting (run K c s0 hist)).st
    ∀ i ∈ convIdx c s',
      ∃ ν : F, X.val (s'.ritzVal.getD i K.zeroρ) = σ + ν⁻¹ ∧
        (ν ≠ 0 →
          nsq (A *ᵥ X.out (K.assemble s'.fac (s'.ritzVec.getD i K.zeroκ))
                - (σ + ν⁻¹) • X.out (K.assemble s'.fac (s'.ritzVec.getD i K.zeroκ)))
            < (C * (X.tolv tol * max eps23 |ν|) / |ν|) ^ 2) := by
  intro s' i hi
  obtain ⟨ν, hν, hres⟩ := c01_histories X hist s0 h0 sel maxit tol sorting r h i hi
  refine ⟨ν, ?_, ?_⟩
  · rw [hν, hback]; rw [one_div]; ring
  · intro hν0
    exact (c01_shift A M σ ν _ hν0 hOp).2.1 C _ hC hnorm hres

/-- **Every history, orthonormality** (exact arithmetic).  Under the orthogonality halves of the kernel specifications (`ExactOrth`:
    every factorization step uses exact projections / norms / an orthonormal `Q` — composed by C07's `run_orth` —, `init` hands over a
    unit vector, the small eigen-solver returns orthonormal columns, the index vectors are permutations), the vectors handed back
    after ANY history are orthonormal: `x_i · x_i' = δ`, in particular `‖x_i‖ = 1`.
    In floating point the premise "V stays orthonormal" FAILS for the code as it is on weak hand-overs (known findings F12-C01-*). -/
theorem c01_histories_orth (X : ExactKernels K c n M eps23) (O : ExactOrth X) (hist : List (Call β τ)) (s0 : St φ ρ ε κ)
    (h0 : Good (C01B.opOf M) (X.abs s0.fac) ∧ OrthGood (X.abs s0.fac))
    (sel : Int) (maxit : Nat) (tol : τ) (sorting : Int) (r : Nat)
    (h : (compute K c sel maxit tol sorting (run K c s0 hist)).out = .ok r) :
    let s' := (compute K c sel maxit tol sorting (run K c s0 hist)).st
    ∀ i ∈ convIdx c s', ∀ i' ∈ convIdx c s',
      X.out (K.assemble s'.fac (s'.ritzVec.getD i K.zeroκ)) ⬝ᵥ X.out (K.assemble s'.fac (s'.ritzVec.getD i' K.zeroκ))
        = if i = i' then 1 else 0 := by
  intro s' i hi i' hi'
  have hinv := C01O.run_fac_invariant K c (fun fac => Good (C01B.opOf M) (X.abs fac) ∧ OrthGood (X.abs fac))
    (fun v0 fac hg => ⟨X.init_good v0 fac hg.1, O.init_orth v0 fac hg.2⟩)
    (fun a b fac hg => ⟨X.factorize_good a b fac hg.1, O.factorize_keeps a b fac hg.2⟩)
    (fun k vals fac hg => ⟨X.restart_good k vals fac hg.1, O.restart_keeps k vals fac hg.2⟩) hist s0 h0
  simp only [convIdx, List.mem_filter, List.mem_range] at hi hi'
  exact compute_orth X O sel maxit tol sorting _ hinv r h i hi.1 i' hi'.1

end histories

/-! ### the executable kernel record meets three of the `ExactKernels` specifications -/

section model
variable {K : Type} [Field K] [LinearOrder K] [IsStrictOrderedRing K] (F : FieldFns K)

/-- `HermSolver.hermKern`'s `convTest`, `backTransform` and `assemble` — the definitions the driver runs at `Float` against the real
    classes — instantiated at exact arithmetic (`scOfField`, any ordered field) satisfy `conv_spec`, `back_spec` and `assemble_spec`:
    the flag is set IFF `|est|·beta < tol·max(eps23,|θ|)`; the back-transformation is entrywise and length-preserving; the assembled
    vector is `Σ_j y_j v_j` over the first `ncv` columns of `V`. -/
theorem c01_model_kernels :
    (∀ (eps23 tol : K) (s : letI := scOfField F; Arnoldi.State K) (θ est : K),
        (letI := scOfField F; HermSolver.convTest eps23 tol s θ est) = true ↔ |est| * s.beta < tol * max eps23 |θ|) ∧
    (∀ (back : K → K) (d : K) (l : List K),
        (l.map back).length = l.length ∧ ∀ i, i < l.length → (l.map back).getD i d = back (l.getD i d)) ∧
    (∀ (ncv : ℕ) (s : letI := scOfField F; Arnoldi.State K) (y : Lin.Vec K) (n : ℕ), s.V.rows = n →
        (letI := scOfField F; C07.vecOf n (HermSolver.assemble ncv s y))
          = ∑ j ∈ Finset.range ncv, (letI := scOfField F; Lin.vget y j) • (letI := scOfField F; C07.colOf n s.V j)) :=
  ⟨fun eps23 tol s θ est => C01Model.convTest_iff F eps23 tol s θ est, fun back d l => C01Model.back_spec back d l,
   fun ncv s y n h => C01Model.assemble_eq F ncv s y n h⟩

/-- `select_lt` and `sort_lt` for the executable record: the index vectors of the model's selection (`argsortIdx`, used by
    `retrieve_ritzpair`) and final sort (`hermSortIdx`, used by `sort_ritzpair`) — wrappers around the SOURCE-TRANSLATED `argsort` —
    only contain valid indices, for all five rules (C18). -/
theorem c01_model_sort_lt (rule : Int) (vals : List K) (n : Nat) (ind : List Nat) :
    (@HermSolver.argsortIdx K _ _ _ _ _ (scOfField F) rule vals n = .ok ind → ∀ i, i < n → ind.getD i 0 < n) ∧
    (@HermSolver.hermSortIdx K _ _ _ _ _ (scOfField F) rule vals n = .ok ind → ∀ i, i < n → ind.getD i 0 < n) :=
  ⟨C01Model.argsortIdx_lt F rule vals n ind, C01Model.hermSortIdx_lt F rule vals n ind⟩

end model


/-! ### the executable kernels satisfy the (relativised) kernel specifications -/

section discharge
open C01H C07L
variable {φ ρ ε κ β τ ω : Type} {F : Type} [Field F] [LinearOrder F] [IsStrictOrderedRing F]
  {K : Kern φ ρ ε κ β τ ω} {c : Cfg} {n : ℕ} {M : Matrix (Fin n) (Fin n) F} {eps23 : F} {Inv : φ → Prop} {Start : β → Prop}

/-- **Every history, relativised** (`ExactKernelsOn`: the kernel specifications are required only on an invariant `Inv` that
    `facInit` (for start vectors in `Start`), `factorize (max 1 dim) ncv` and `restartFac k` (`0 < k < ncv`, on a full factorization)
    preserve — the only calls `Orch.init`/`Orch.compute` make).  Same conclusion as `c01_histories`. -/
theorem c01_histories_on (X : ExactKernelsOn K c n M eps23 Inv Start) (hist : List (Call β τ)) (hS : StartsOk Start hist)
    (s0 : St φ ρ ε κ) (h0 : Inv s0.fac) (sel : Int) (maxit : Nat) (tol : τ) (sorting : Int) (r : Nat)
    (h : (compute K c sel maxit tol sorting (Orch.run K c s0 hist)).out = .ok r) :
    let s' := (compute K c sel maxit tol sorting (Orch.run K c s0 hist)).st
    ∀ i ∈ convIdx c s',
      ∃ ν : F, X.val (s'.ritzVal.getD i K.zeroρ) = X.back ν ∧
        nsq (M *ᵥ X.out (K.assemble s'.fac (s'.ritzVec.getD i K.zeroκ)) - ν • X.out (K.assemble s'.fac (s'.ritzVec.getD i K.zeroκ)))
          < (X.tolv tol * max eps23 |ν|) ^ 2 :=
  histories_on X hist hS s0 h0 sel maxit tol sorting r h

/-- orthonormality of the returned vectors, relativised (`ExactOrthOn`) -/
theorem c01_histories_orth_on (X : ExactKernelsOn K c n M eps23 Inv Start) (O : ExactOrthOn X) (hist : List (Call β τ))
    (hS : StartsOk Start hist) (s0 : St φ ρ ε κ) (h0 : Inv s0.fac) (sel : Int) (maxit : Nat) (tol : τ) (sorting : Int) (r : Nat)
    (h : (compute K c sel maxit tol sorting (Orch.run K c s0 hist)).out = .ok r) :
    let s' := (compute K c sel maxit tol sorting (Orch.run K c s0 hist)).st
    ∀ i ∈ convIdx c s', ∀ i' ∈ convIdx c s',
      X.out (K.assemble s'.fac (s'.ritzVec.getD i K.zeroκ)) ⬝ᵥ X.out (K.assemble s'.fac (s'.ritzVec.getD i' K.zeroκ))
        = if i = i' then 1 else 0 :=
  histories_orth_on X O hist hS s0 h0 sel maxit tol sorting r h

end discharge

section hermKern
open C01H C07L
variable {K : Type} [Field K] [LinearOrder K] [IsStrictOrderedRing K] (F : FieldFns K)

/-- **The kernel specifications hold for `HermSolver.hermKern`** (`Arnoldi.init`, `Lanczos.factorize_from`, `HermSolver.restartFac`,
    `convTest`, `assemble`, the sort wrappers, `nev_adjusted`) at `scOfField F` on the invariant
    `HInv = PassInv (shapes, Krylov relation, VᵀV = I, Vᵀf = 0, beta = ‖f‖, H symmetric tridiagonal) ∧ G`:
    all `ExactKernelsOn` fields — `inv_good`, `inv_init`, `inv_factorize`, `factorize_full`, `inv_restart`, `nevAdj_pos`, `fnorm_spec`,
    `select_lt`, `sort_lt`, `conv_spec`, `assemble_spec`, `back_spec` — are PROVED (C07 model-level run theorems + C08 `shiftLoop_spec` +
    C13 + C18); `eig_spec` is the hypothesis `hEig`.  Hypotheses: `hsqrt` exact square root; `hcut` ideal rotations (series branch of
    `compute_rotation` off); `heps : Sc.eps = 0` both TridiagQR deflation passes drop only exact zeros; `hM` symmetric; `hR` the
    run-level regular set (no breakdown: `beta ≥ near_0`, `beta ≠ 0` at every pass; `‖A v0‖ ≠ 0` and no `f := 0` shortcut in `init`). -/
theorem c01_hermKern_kernels (hsqrt : ∀ x : K, 0 ≤ x → F.sqrt x * F.sqrt x = x ∧ 0 ≤ F.sqrt x) (hcut : C08Givens.cutoff F ≤ 0)
    (heps : F.eps = 0) (op : Arnoldi.Op K) (c : Cfg) (eps23 : K) (back : K → K) (n : ℕ) (M : Matrix (Fin n) (Fin n) K) (hM : Mᵀ = M)
    (G : (letI := scOfField F; Arnoldi.State K) → Prop) (S : Lin.Vec K → Prop)
    (hop : (letI := scOfField F; OpOK n op (C01B.opOf M)))
    (hR : (letI := scOfField F; Reg op n c.ncv (C01B.opOf M) G S)) (h1 : 1 ≤ c.nev) (h2 : c.nev < c.ncv)
    (hEig : (letI := scOfField F; EigSpec c n (C01B.opOf M))) :
    (letI := scOfField F;
      Nonempty (ExactKernelsOn (HermSolver.hermKern op c eps23 back) c n M eps23 (HInv n c.ncv (C01B.opOf M) G) S)) :=
  ⟨hermXF F hsqrt hcut heps op c eps23 back n M hM G S hop hR h1 h2 hEig⟩

/-- **Every history, for the executable numeric kernels.**  After ANY sequence of `init()` (start vectors in `S`) / `compute()` calls
    on the model solver `Orch.compute (hermKern …)` — the definitions the driver runs at `Float` against the real classes — started
    from an object whose factorization satisfies the invariant (e.g. the freshly constructed one: `c01_hermKern_fresh`), a `compute()`
    that returns hands back at every flagged position `i` the value `back ν` and the vector `x = V y` with
    `‖M x − ν x‖² < (tol · max(eps23, |ν|))²`.  Remaining hypotheses as in `c01_hermKern_kernels`. -/
theorem c01_histories_hermKern (hsqrt : ∀ x : K, 0 ≤ x → F.sqrt x * F.sqrt x = x ∧ 0 ≤ F.sqrt x) (hcut : C08Givens.cutoff F ≤ 0)
    (heps : F.eps = 0) (op : Arnoldi.Op K) (c : Cfg) (eps23 : K) (back : K → K) (n : ℕ) (M : Matrix (Fin n) (Fin n) K) (hM : Mᵀ = M)
    (G : (letI := scOfField F; Arnoldi.State K) → Prop) (S : Lin.Vec K → Prop)
    (hop : (letI := scOfField F; OpOK n op (C01B.opOf M)))
    (hR : (letI := scOfField F; Reg op n c.ncv (C01B.opOf M) G S)) (h1 : 1 ≤ c.nev) (h2 : c.nev < c.ncv)
    (hEig : (letI := scOfField F; EigSpec c n (C01B.opOf M))) :
    letI := scOfField F
    ∀ (hist : List (Call (Lin.Vec K) K)) (hS : StartsOk S hist) (s0 : St (Arnoldi.State K) K K (Lin.Vec K))
      (h0 : HInv n c.ncv (C01B.opOf M) G s0.fac) (sel : Int) (maxit : Nat) (tol : K) (sorting : Int) (r : Nat)
      (h : (compute (HermSolver.hermKern op c eps23 back) c sel maxit tol sorting
              (Orch.run (HermSolver.hermKern op c eps23 back) c s0 hist)).out = .ok r),
      let s' := (compute (HermSolver.hermKern op c eps23 back) c sel maxit tol sorting
              (Orch.run (HermSolver.hermKern op c eps23 back) c s0 hist)).st
      ∀ i ∈ convIdx c s', ∃ ν : K, s'.ritzVal.getD i Lin.zero = back ν ∧
        nsq (M *ᵥ C07.vecOf n (HermSolver.assemble c.ncv s'.fac (s'.ritzVec.getD i (Lin.vzero c.ncv)))
              - ν • C07.vecOf n (HermSolver.assemble c.ncv s'.fac (s'.ritzVec.getD i (Lin.vzero c.ncv))))
          < (tol * max eps23 |ν|) ^ 2 :=
  histories_hermKern F hsqrt hcut heps op c eps23 back n M hM G S hop hR h1 h2 hEig

/-- the Krylov relation, `VᵀV = I`, `Vᵀf = 0`, `beta = ‖f‖` hold for the model solver's factorization after EVERY such history, on
    every path (also after an escaping exception) -/
theorem c01_invariant_hermKern (hsqrt : ∀ x : K, 0 ≤ x → F.sqrt x * F.sqrt x = x ∧ 0 ≤ F.sqrt x) (hcut : C08Givens.cutoff F ≤ 0)
    (heps : F.eps = 0) (op : Arnoldi.Op K) (c : Cfg) (eps23 : K) (back : K → K) (n : ℕ) (M : Matrix (Fin n) (Fin n) K) (hM : Mᵀ = M)
    (G : (letI := scOfField F; Arnoldi.State K) → Prop) (S : Lin.Vec K → Prop)
    (hop : (letI := scOfField F; OpOK n op (C01B.opOf M)))
    (hR : (letI := scOfField F; Reg op n c.ncv (C01B.opOf M) G S)) (h1 : 1 ≤ c.nev) (h2 : c.nev < c.ncv)
    (hEig : (letI := scOfField F; EigSpec c n (C01B.opOf M))) :
    letI := scOfField F
    ∀ (hist : List (Call (Lin.Vec K) K)) (hS : StartsOk S hist) (s0 : St (Arnoldi.State K) K K (Lin.Vec K))
      (h0 : HInv n c.ncv (C01B.opOf M) G s0.fac),
      PassInv n c.ncv (C01B.opOf M) (Orch.run (HermSolver.hermKern op c eps23 back) c s0 hist).fac
        (Orch.run (HermSolver.hermKern op c eps23 back) c s0 hist).fac.k :=
  invariant_hermKern F hsqrt hcut heps op c eps23 back n M hM G S hop hR h1 h2 hEig

/-- the freshly constructed factorization object (`m_k = 0`) satisfies the array/Krylov part of the invariant -/
theorem c01_hermKern_fresh (hsqrt : ∀ x : K, 0 ≤ x → F.sqrt x * F.sqrt x = x ∧ 0 ≤ F.sqrt x) (n m : ℕ)
    (A : (Fin n → K) →ₗ[K] (Fin n → K)) (near0 eps : K) (heps : 0 ≤ eps) :
    (letI := scOfField F; PassInv n m A (Arnoldi.State.mk0 n m near0 eps) 0) :=
  fresh_passInv F hsqrt n m A near0 eps heps

/-- **Every history, executable kernels, NO kernel-specification hypothesis** (`eig_spec` discharged by C09's whole-run similarity
    of `TridiagEigen`).  Hypotheses: `hsqrt` exact square root, `hcut` ideal rotations, `heps : Sc.eps = 0`, `hmin : 0 < min()`, `hM`
    symmetric, `1 ≤ nev < ncv`, and the run-level hypotheses on the user's closed set `G` of factorization states: `hR` (no breakdown)
    and `hD` (`ZeroDrop`: TridiagEigen's perturbation budget `C09Sim.totalDrop` vanishes on the full states). -/
theorem c01_histories_hermKern_full (hsqrt : ∀ x : K, 0 ≤ x → F.sqrt x * F.sqrt x = x ∧ 0 ≤ F.sqrt x) (hcut : C08Givens.cutoff F ≤ 0)
    (heps : F.eps = 0) (hmin : 0 < F.minPos) (op : Arnoldi.Op K) (c : Cfg) (eps23 : K) (back : K → K) (n : ℕ)
    (M : Matrix (Fin n) (Fin n) K) (hM : Mᵀ = M)
    (G : (letI := scOfField F; Arnoldi.State K) → Prop) (S : Lin.Vec K → Prop)
    (hop : (letI := scOfField F; OpOK n op (C01B.opOf M)))
    (hR : (letI := scOfField F; Reg op n c.ncv (C01B.opOf M) G S)) (h1 : 1 ≤ c.nev) (h2 : c.nev < c.ncv)
    (hD : ZeroDrop F c n (C01B.opOf M) G) :
    letI := scOfField F
    ∀ (hist : List (Call (Lin.Vec K) K)) (hS : StartsOk S hist) (s0 : St (Arnoldi.State K) K K (Lin.Vec K))
      (h0 : HInv n c.ncv (C01B.opOf M) G s0.fac) (sel : Int) (maxit : Nat) (tol : K) (sorting : Int) (r : Nat)
      (h : (compute (HermSolver.hermKern op c eps23 back) c sel maxit tol sorting
              (Orch.run (HermSolver.hermKern op c eps23 back) c s0 hist)).out = .ok r),
      let s' := (compute (HermSolver.hermKern op c eps23 back) c sel maxit tol sorting
              (Orch.run (HermSolver.hermKern op c eps23 back) c s0 hist)).st
      ∀ i ∈ convIdx c s', ∃ ν : K, s'.ritzVal.getD i Lin.zero = back ν ∧
        nsq (M *ᵥ C07.vecOf n (HermSolver.assemble c.ncv s'.fac (s'.ritzVec.getD i (Lin.vzero c.ncv)))
              - ν • C07.vecOf n (HermSolver.assemble c.ncv s'.fac (s'.ritzVec.getD i (Lin.vzero c.ncv))))
          < (tol * max eps23 |ν|) ^ 2 :=
  histories_hermKern_full F hsqrt hcut heps hmin op c eps23 back n M hM G S hop hR h1 h2 hD

/-- **Orthonormality of the returned vectors, executable kernels**: `x_i · x_i' = δ` after every history; `eig_orth` from C09
    (`ZᵀZ = I` for every run of TridiagEigen), `VᵀV = I` from the invariant; remaining hypothesis besides those of
    `c01_histories_hermKern_full`: `hInj` — the two index vectors are injective (C18; not yet proved for the wrappers). -/
theorem c01_histories_orth_hermKern (hsqrt : ∀ x : K, 0 ≤ x → F.sqrt x * F.sqrt x = x ∧ 0 ≤ F.sqrt x) (hcut : C08Givens.cutoff F ≤ 0)
    (heps : F.eps = 0) (hmin : 0 < F.minPos) (op : Arnoldi.Op K) (c : Cfg) (eps23 : K) (back : K → K) (n : ℕ)
    (M : Matrix (Fin n) (Fin n) K) (hM : Mᵀ = M)
    (G : (letI := scOfField F; Arnoldi.State K) → Prop) (S : Lin.Vec K → Prop)
    (hop : (letI := scOfField F; OpOK n op (C01B.opOf M)))
    (hR : (letI := scOfField F; Reg op n c.ncv (C01B.opOf M) G S)) (h1 : 1 ≤ c.nev) (h2 : c.nev < c.ncv)
    (hD : ZeroDrop F c n (C01B.opOf M) G) (hInj : SortInj F c) :
    letI := scOfField F
    ∀ (hist : List (Call (Lin.Vec K) K)) (hS : StartsOk S hist) (s0 : St (Arnoldi.State K) K K (Lin.Vec K))
      (h0 : HInv n c.ncv (C01B.opOf M) G s0.fac) (sel : Int) (maxit : Nat) (tol : K) (sorting : Int) (r : Nat)
      (h : (compute (HermSolver.hermKern op c eps23 back) c sel maxit tol sorting
              (Orch.run (HermSolver.hermKern op c eps23 back) c s0 hist)).out = .ok r),
      let s' := (compute (HermSolver.hermKern op c eps23 back) c sel maxit tol sorting
              (Orch.run (HermSolver.hermKern op c eps23 back) c s0 hist)).st
      ∀ i ∈ convIdx c s', ∀ i' ∈ convIdx c s',
        C07.vecOf n (HermSolver.assemble c.ncv s'.fac (s'.ritzVec.getD i (Lin.vzero c.ncv))) ⬝ᵥ
          C07.vecOf n (HermSolver.assemble c.ncv s'.fac (s'.ritzVec.getD i' (Lin.vzero c.ncv))) = if i = i' then 1 else 0 := by
  letI := scOfField F
  intro hist hS s0 h0 sel maxit tol sorting r h
  exact histories_orth_on _ (hermOrthFull F hsqrt hcut heps hmin op c eps23 back n M hM G S hop hR h1 h2 hD hInj)
    hist hS s0 h0 sel maxit tol sorting r h

end hermKern

/-! ### the hypotheses are satisfiable; a run through the theorems -/

section examples
open C01Toy

/-- `ExactKernels` and `ExactOrth` are satisfiable, together with the start invariants (instance: `Proofs/C01Toy.lean`) -/
example : Nonempty (ExactKernels toyK toyC 1 toyM (1 : ℚ)) ∧ ExactOrth toyX ∧ Good (C01B.opOf toyM) toySt ∧ OrthGood toySt :=
  ⟨⟨toyX⟩, toyO, toy_good, toy_orthgood⟩

/-- a run through `c01_histories_sym` on the toy instance: `init(); compute(); compute()` (the second `compute()` without `init()`)
    returns one pair, and the theorem bounds its residual -/
example :
    (compute toyK toyC 0 5 () 0 (run toyK toyC (construct ()) [Call.init (), Call.compute 0 5 () 0])).out = .ok 1 ∧
    ∀ i ∈ convIdx toyC (compute toyK toyC 0 5 () 0 (run toyK toyC (construct ()) [Call.init (), Call.compute 0 5 () 0])).st,
      nsq (toyM *ᵥ (fun _ => (1 : ℚ)) - (compute toyK toyC 0 5 () 0 (run toyK toyC (construct ()) [Call.init (), Call.compute 0 5 () 0])).st.ritzVal.getD i 0 • (fun _ => (1 : ℚ)))
        < (1 * max 1 |(compute toyK toyC 0 5 () 0 (run toyK toyC (construct ()) [Call.init (), Call.compute 0 5 () 0])).st.ritzVal.getD i 0|) ^ 2 := by
  have hrun : (compute toyK toyC 0 5 () 0 (run toyK toyC (construct ()) [Call.init (), Call.compute 0 5 () 0])).out = .ok 1 := by
    decide
  refine ⟨hrun, ?_⟩
  intro i hi
  exact c01_histories_sym toyX (fun _ => rfl) [Call.init (), Call.compute 0 5 () 0] (construct ()) toy_good 0 5 () 0 1 hrun i hi

/-- the hypotheses of `c01_histories_hermKern` are CONSISTENT (together with the start invariant `h0` for the freshly constructed
    object): over `ℝ` with `Real.sqrt`, a `pow` that switches the series branch off and `eps = 0`; witness with the trivial operator on
    `ℝ⁰` (`ncv = 2`, `nev = 1`), `G` = "dimension 0", no admissible start vector — there `EigSpec` and `Reg` hold because no full
    factorization exists.  (A NON-TRIVIAL witness is not given: `hsqrt` needs a total exact square root, so the field must be `ℝ`-like,
    and the array model with `Real.sqrt` cannot be evaluated by `decide`/`norm_num`; over `ℚ` no `FieldFns` satisfies `hsqrt`.) -/
example : ∃ F : FieldFns ℝ, (∀ x : ℝ, 0 ≤ x → F.sqrt x * F.sqrt x = x ∧ 0 ≤ F.sqrt x) ∧ C08Givens.cutoff F ≤ 0 ∧ F.eps = 0 ∧
    ∃ (op : Arnoldi.Op ℝ) (M : Matrix (Fin 0) (Fin 0) ℝ) (G : (letI := scOfField F; Arnoldi.State ℝ) → Prop) (S : Lin.Vec ℝ → Prop),
      Mᵀ = M ∧ (letI := scOfField F; C07L.OpOK 0 op (C01B.opOf M)) ∧
      (letI := scOfField F; C01H.Reg op 0 2 (C01B.opOf M) G S) ∧
      (letI := scOfField F; C01H.EigSpec ⟨0, 1, 2⟩ 0 (C01B.opOf M)) ∧
      (letI := scOfField F; C01H.HInv 0 2 (C01B.opOf M) G (Arnoldi.State.mk0 0 2 1 0)) ∧
      0 < F.minPos ∧ C01H.ZeroDrop F ⟨0, 1, 2⟩ 0 (C01B.opOf M) G := by
  let F0 : FieldFns ℝ := ⟨Real.sqrt, fun _ _ => 0, 0, 1⟩
  letI : Sc ℝ := scOfField F0
  have hs : ∀ x : ℝ, 0 ≤ x → F0.sqrt x * F0.sqrt x = x ∧ 0 ≤ F0.sqrt x :=
    fun x hx => ⟨Real.mul_self_sqrt hx, Real.sqrt_nonneg x⟩
  refine ⟨F0, hs, by simp [C08Givens.cutoff, F0], rfl, ⟨0, fun _ => #[], none⟩, 0,
    fun (s : Arnoldi.State ℝ) => s.k = 0, fun _ => False, ?_, ?_, ?_, ?_, ?_, by simp [F0], ?_⟩
  · ext i; exact i.elim0
  · exact ⟨rfl, fun x _ => by funext r; exact r.elim0, fun x => rfl⟩
  · refine ⟨fun v0 h => h.elim, fun s v0 s' _ h => h.elim, ?_, ?_⟩
    · intro s hG _ h1 _
      have : s.k = 0 := hG
      omega
    · intro s k vals hG _ hk _ _
      have : s.k = 0 := hG
      omega
  · intro s evals lastRow cols hI
    exfalso
    have := hI.on 0 (by norm_num) 0 (by norm_num)
    simp [C01E.dotIP, dotProduct] at this
  · exact ⟨C01H.fresh_passInv F0 hs 0 2 _ 1 0 (le_refl 0), rfl⟩
  · intro s _ hI
    exfalso
    have := hI.on 0 (by norm_num) 0 (by norm_num)
    simp [C01E.dotIP, dotProduct] at this

/-- **Why `β = ‖f‖` cannot be dropped from (1)** — the exact-arithmetic face of known finding F12-C01-residual-abs.  The shortcut
    `beta < eps*sqrt(n) ⇒ f := 0, beta := 0` of `Lanczos::factorize_from` makes `β` stop being the norm of the residual the relation
    really has.  Witness (2 × 2, `A = [[0,1],[1,0]]`, `V = e₁`, `H = (0)`, true residual `f = e₂`, recorded `β = 0`): the relation and
    `H y = θ y` hold, the flag test `|y_last|·β < tol·max(eps23,|θ|)` passes, and the pair `(0, e₁)` has residual `‖A e₁‖ = 1`. -/
example :
    let A : Matrix (Fin 2) (Fin 2) ℚ := Matrix.of fun i j => if i = j then 0 else 1
    let V : Matrix (Fin 2) (Fin 1) ℚ := Matrix.of fun i _ => if i = 0 then 1 else 0
    let H : Matrix (Fin 1) (Fin 1) ℚ := Matrix.of fun _ _ => 0
    let f : Fin 2 → ℚ := fun i => if i = 0 then 0 else 1
    let y : Fin 1 → ℚ := fun _ => 1
    A * V = V * H + vecMulVec f (Pi.single 0 1) ∧ H *ᵥ y = (0 : ℚ) • y ∧
      |y 0| * (0 : ℚ) < 1 * max 1 |(0 : ℚ)| ∧
      ¬ nsq (A *ᵥ (V *ᵥ y) - (0 : ℚ) • (V *ᵥ y)) < (1 * max 1 |(0 : ℚ)|) ^ 2 := by
  intro A V H f y
  refine ⟨?_, ?_, ?_, ?_⟩
  · ext i j
    fin_cases i <;> fin_cases j <;>
      simp [A, V, H, f, Matrix.mul_apply, Matrix.add_apply, vecMulVec_apply]
  · ext i
    simp [H, y, Matrix.mulVec, dotProduct]
  · norm_num
  · have : A *ᵥ (V *ᵥ y) - (0 : ℚ) • (V *ᵥ y) = f := by
      ext i
      fin_cases i <;> simp [A, V, y, f, Matrix.mulVec, dotProduct, Matrix.mul_apply]
    rw [this]
    simp [nsq, f, dotProduct, Fin.sum_univ_succ]

end examples

end C01
