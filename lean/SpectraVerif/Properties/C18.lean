/-
  C18 — the eigenvalue ordering primitive is a correct permutation for every rule and tie.
  Theorems are about `Gen/Sort.lean` (regenerated from Util/SelectionRule.h, GenEigsBase.h, HermEigsBase.h on every run)
  and the `std::sort` model of `Prelude/Sort.lean`; exact arithmetic = any linearly ordered field `K`.
-/
import SpectraVerif.Gen.Sort
import SpectraVerif.Proofs.SortLemmas
import SpectraVerif.Proofs.ScField

namespace C18
open Gen.Sort SortLemmas

/-! ### which rules are accepted (pure integer statements about the generated dispatch) -/

/-- `argsort` (real values) accepts exactly LargestMagn(0), LargestAlge(3), SmallestMagn(4), SmallestAlge(7), BothEnds(8) -/
theorem c18_dispatch_real (sel : Int) :
    argsort_rule sel ≠ -1 ↔ (sel = 0 ∨ sel = 3 ∨ sel = 4 ∨ sel = 7 ∨ sel = 8) := by
  simp only [argsort_rule, decide_eq_true_eq, Bool.or_eq_true]
  constructor
  · intro h; by_cases h0 : sel = 0 <;> by_cases h3 : sel = 3 <;> by_cases h4 : sel = 4 <;> by_cases h7 : sel = 7 <;>
      by_cases h8 : sel = 8 <;> simp_all
  · rintro (h | h | h | h | h) <;> subst h <;> decide

/-- an accepted rule sorts by its own key (BothEnds by the LargestAlge key), and that key is one the library defines -/
theorem c18_dispatch_real_rule (sel : Int) (h : sel = 0 ∨ sel = 3 ∨ sel = 4 ∨ sel = 7 ∨ sel = 8) :
    argsort_rule sel = (if sel = 8 then 3 else sel) ∧ keyReal_defined (argsort_rule sel) = true := by
  rcases h with (h | h | h | h | h) <;> subst h <;> decide

/-- general (complex Ritz value) solvers accept exactly the six Magn/Real/Imag rules, for selection and for sorting,
    and each accepted rule sorts by its own key -/
theorem c18_dispatch_complex (sel : Int) :
    (gen_select_rule sel ≠ -1 ↔ (sel = 0 ∨ sel = 1 ∨ sel = 2 ∨ sel = 4 ∨ sel = 5 ∨ sel = 6)) ∧
    (gen_sort_rule sel ≠ -1 ↔ (sel = 0 ∨ sel = 1 ∨ sel = 2 ∨ sel = 4 ∨ sel = 5 ∨ sel = 6)) := by
  simp only [gen_select_rule, gen_sort_rule, decide_eq_true_eq]
  constructor <;> constructor
  all_goals first
    | (intro h; by_cases h0 : sel = 0 <;> by_cases h1 : sel = 1 <;> by_cases h2 : sel = 2 <;> by_cases h4 : sel = 4 <;>
        by_cases h5 : sel = 5 <;> by_cases h6 : sel = 6 <;> simp_all)
    | (rintro (h | h | h | h | h | h) <;> subst h <;> decide)

theorem c18_dispatch_complex_rule (sel : Int) (h : sel = 0 ∨ sel = 1 ∨ sel = 2 ∨ sel = 4 ∨ sel = 5 ∨ sel = 6) :
    gen_select_rule sel = sel ∧ gen_sort_rule sel = sel ∧ keyCplx_defined sel = true := by
  rcases h with (h | h | h | h | h | h) <;> subst h <;> decide

/-- the symmetric solvers' final sorting accepts exactly LargestMagn, LargestAlge, SmallestMagn, SmallestAlge and
    rejects everything else (including BothEnds) with `std::invalid_argument` -/
theorem c18_herm_sorting_guard (r : Int) :
    (herm_sort_guard r = Res.ok () ↔ (r = 0 ∨ r = 3 ∨ r = 4 ∨ r = 7)) ∧
    (herm_sort_guard r ≠ Res.ok () → herm_sort_guard r = Res.throw "std::invalid_argument") := by
  simp only [herm_sort_guard]
  by_cases h0 : r = 0 <;> by_cases h3 : r = 3 <;> by_cases h4 : r = 4 <;> by_cases h7 : r = 7 <;> simp_all

section field
variable {K : Type} [Field K] [LinearOrder K] [IsStrictOrderedRing K] (F : FieldFns K)

/-- a rejected rule throws `std::invalid_argument` instead of producing some order -/
theorem c18_argsort_throws (sel : Int) (values : Int → K) (len : Int) (h : argsort_rule sel = -1) :
    @argsort K _ _ _ _ _ (scOfField F) sel values len = Res.throw "std::invalid_argument" := by
  have h' : (if decide (sel = 0) then (0:Int) else if decide (sel = 8) || decide (sel = 3) then 3 else
      if decide (sel = 4) then 4 else if decide (sel = 7) then 7 else (-1)) = -1 := h
  simp only [argsort, h']
  simp

/-- the order `argsort` uses before BothEnds interleaving: the std::sort model on the rule's key -/
def baseOrder (sel : Int) (values : Int → K) (len : Int) : List Int :=
  sortIdxList (fun i j => decide (@keyReal K _ _ _ _ _ (scOfField F) (argsort_rule sel) (values i) <
                                  @keyReal K _ _ _ _ _ (scOfField F) (argsort_rule sel) (values j))) len

/-- `baseOrder` is a permutation of `0..len-1` -/
theorem c18_perm_base (sel : Int) (values : Int → K) (len : Int) :
    (baseOrder F sel values len).Perm (intRange 0 len) := sortIdxList_perm _ _

/-- ... along which the rule's key is non-decreasing: descending `|x|` for LargestMagn, descending `x` for LargestAlge
    (and BothEnds before interleaving), ascending `|x|` for SmallestMagn, ascending `x` for SmallestAlge; ties allowed -/
theorem c18_sorted (sel : Int) (values : Int → K) (len : Int) :
    (baseOrder F sel values len).Pairwise (fun a b =>
      (sel = 0 → |values b| ≤ |values a|) ∧ ((sel = 3 ∨ sel = 8) → values b ≤ values a) ∧
      (sel = 4 → |values a| ≤ |values b|) ∧ (sel = 7 → values a ≤ values b)) := by
  have hs := sortIdxList_sorted (fun i => @keyReal K _ _ _ _ _ (scOfField F) (argsort_rule sel) (values i)) len
  refine List.Pairwise.imp ?_ hs
  intro a b hab
  refine ⟨?_, ?_, ?_, ?_⟩
  · rintro rfl
    have h2 : -(|values a|) ≤ -(|values b|) := hab
    exact neg_le_neg_iff.mp h2
  · rintro (rfl | rfl)
    · have h2 : -(values a) ≤ -(values b) := hab
      exact neg_le_neg_iff.mp h2
    · have h2 : -(values a) ≤ -(values b) := hab
      exact neg_le_neg_iff.mp h2
  · rintro rfl
    have h2 : |values a| ≤ |values b| := hab
    exact h2
  · rintro rfl
    have h2 : values a ≤ values b := hab
    exact h2

/-- what `argsort` returns for an accepted rule: the base order, interleaved for BothEnds as
    `ind[i] = base[i/2]` (i even) / `base[len-1-i/2]` (i odd) -/
theorem c18_argsort_value (sel : Int) (values : Int → K) (len : Int) (h : argsort_rule sel ≠ -1) :
    ∃ ind, @argsort K _ _ _ _ _ (scOfField F) sel values len = Res.ok ind ∧
      ∀ i, 0 ≤ i → i < len →
        ind i = if sel = 8 then
                  (if i % 2 = 0 then (baseOrder F sel values len).getD (i / 2).toNat 0
                   else (baseOrder F sel values len).getD (len - 1 - i / 2).toNat 0)
                else (baseOrder F sel values len).getD i.toNat 0 := by
  have h' : (if decide (sel = 0) then (0:Int) else if decide (sel = 8) || decide (sel = 3) then 3 else
      if decide (sel = 4) then 4 else if decide (sel = 7) then 7 else (-1)) = argsort_rule sel := rfl
  simp only [argsort, h']
  simp only [decide_eq_true_eq, h, if_false, ↓reduceIte]
  refine ⟨_, rfl, ?_⟩
  intro i hi0 hi1
  by_cases h8 : sel = 8
  · subst h8
    simp only [↓reduceIte]
    have hfold : ∀ (f : Int → Int) (g : Int → Int),
        (intRange 0 len).foldl (fun ind i =>
          (if Int.tmod i 2 = 0 then upd ind i (f (Int.tdiv i 2)) else upd ind i (f (len - 1 - Int.tdiv i 2)))) g
        = (intRange 0 len).foldl (fun ind i => upd ind i (if Int.tmod i 2 = 0 then f (Int.tdiv i 2) else f (len - 1 - Int.tdiv i 2))) g := by
      intro f g; congr 1; funext ind i; by_cases hc : Int.tmod i 2 = 0 <;> simp [hc]
    rw [hfold, foldl_upd_pointwise]
    have hmem : i ∈ intRange 0 len := mem_intRange.mpr ⟨hi0, hi1⟩
    simp only [hmem, ↓reduceIte]
    have e1 : Int.tmod i 2 = i % 2 := by rw [Int.tmod_eq_emod_of_nonneg hi0]
    have e2 : Int.tdiv i 2 = i / 2 := Int.tdiv_eq_ediv_of_nonneg hi0
    rw [e1, e2]
    have hd0 : ¬ (i / 2 < 0) := by omega
    have hd1 : ¬ (len - 1 - i / 2 < 0) := by omega
    simp only [sortIdx_eq, baseOrder, hd0, hd1, if_false]
    rfl
  · have hi0' : ¬ (i < 0) := by omega
    simp only [h8, if_false, sortIdx_eq, baseOrder, hi0']
    rfl

/-- complex values (general solvers): the order used for an accepted rule `r` is a permutation along which
    `|z|` (r=0,4), `Re z` (r=1,5) or `|Im z|` (r=2,6) is descending (Largest*) resp. ascending (Smallest*) -/
def baseOrderC (r : Int) (values : Int → K × K) (len : Int) : List Int :=
  sortIdxList (fun i j => decide (@keyCplx K _ _ _ _ _ (scOfField F) r (values i) <
                                  @keyCplx K _ _ _ _ _ (scOfField F) r (values j))) len

theorem c18_perm_complex (r : Int) (values : Int → K × K) (len : Int) :
    (baseOrderC F r values len).Perm (intRange 0 len) := sortIdxList_perm _ _

theorem c18_sorted_complex (r : Int) (values : Int → K × K) (len : Int) :
    (baseOrderC F r values len).Pairwise (fun a b =>
      (r = 0 → F.sqrt ((values b).1 * (values b).1 + (values b).2 * (values b).2) ≤
               F.sqrt ((values a).1 * (values a).1 + (values a).2 * (values a).2)) ∧
      (r = 1 → (values b).1 ≤ (values a).1) ∧ (r = 2 → |(values b).2| ≤ |(values a).2|) ∧
      (r = 4 → F.sqrt ((values a).1 * (values a).1 + (values a).2 * (values a).2) ≤
               F.sqrt ((values b).1 * (values b).1 + (values b).2 * (values b).2)) ∧
      (r = 5 → (values a).1 ≤ (values b).1) ∧ (r = 6 → |(values a).2| ≤ |(values b).2|)) := by
  have hs := sortIdxList_sorted (fun i => @keyCplx K _ _ _ _ _ (scOfField F) r (values i)) len
  refine List.Pairwise.imp ?_ hs
  intro a b hab
  refine ⟨?_, ?_, ?_, ?_, ?_, ?_⟩ <;> rintro rfl
  · exact neg_le_neg_iff.mp hab
  · exact neg_le_neg_iff.mp hab
  · exact neg_le_neg_iff.mp hab
  · exact hab
  · exact hab
  · exact hab

end field

/-! ### BothEnds: for every k, the first k positions hold ⌈k/2⌉ entries from the top and ⌊k/2⌋ from the bottom -/

/-- the interleaving, as a function of the base order `l` (any function) -/
def interleave (l : Int → Int) (len : Int) (i : Int) : Int := if i % 2 = 0 then l (i / 2) else l (len - 1 - i / 2)

theorem c18_bothends (l : Int → Int) (len : Int) (k : Nat) :
    ((List.range k).map (fun i : Nat => interleave l len i)).Perm
      (((List.range ((k + 1) / 2)).map (fun j : Nat => l j)) ++
       ((List.range (k / 2)).map (fun j : Nat => l (len - 1 - j)))) := by
  induction k with
  | zero => simp
  | succ k ih =>
    rw [List.range_succ, List.map_append, List.map_cons, List.map_nil]
    rcases Nat.even_or_odd' k with ⟨m, hm | hm⟩
    · -- k = 2m: the new element is l m, taken from the top
      have ea : (k + 1 + 1) / 2 = m + 1 := by omega
      have eb : (k + 1) / 2 = m := by omega
      have ec : k / 2 = m := by omega
      rw [eb, ec] at ih
      rw [ea, eb]
      have hv : interleave l len ((k : Nat) : Int) = l m := by
        simp only [interleave]; have : ((k : Nat) : Int) % 2 = 0 := by omega
        rw [if_pos this]; congr 1; omega
      rw [hv, List.range_succ (n := m), List.map_append, List.map_cons, List.map_nil]
      refine (List.Perm.append_right _ ih).trans ?_
      rw [List.append_assoc, List.append_assoc]
      exact List.Perm.append_left _ List.perm_append_comm
    · -- k = 2m+1: the new element is l (len-1-m), taken from the bottom
      have ea : (k + 1 + 1) / 2 = m + 1 := by omega
      have eb : (k + 1) / 2 = m + 1 := by omega
      have ec : k / 2 = m := by omega
      rw [eb, ec] at ih
      rw [ea, eb]
      have hv : interleave l len ((k : Nat) : Int) = l (len - 1 - m) := by
        simp only [interleave]; have : ((k : Nat) : Int) % 2 ≠ 0 := by omega
        rw [if_neg this]; congr 1; omega
      have hsucc : (List.range (m + 1)).map (fun j : Nat => l (len - 1 - j)) =
          (List.range m).map (fun j : Nat => l (len - 1 - j)) ++ [l (len - 1 - m)] := by
        rw [List.range_succ, List.map_append, List.map_cons, List.map_nil]
      rw [hv, hsucc]
      refine (List.Perm.append_right _ ih).trans ?_
      rw [List.append_assoc]

/-- in particular the interleaved array is again a permutation of the base order's entries (k = len) -/
theorem c18_bothends_perm (l : Int → Int) (n : Nat) :
    ((List.range n).map (fun i : Nat => interleave l n i)).Perm ((List.range n).map (fun j : Nat => l j)) := by
  refine (c18_bothends l n n).trans ?_
  -- top ⌈n/2⌉ entries followed by the bottom ⌊n/2⌋ entries (reversed) enumerate 0..n-1
  have hsplit : (List.range n) = (List.range ((n + 1) / 2)) ++ (List.range' ((n + 1) / 2) (n / 2)) := by
    have hn : n = (n + 1) / 2 + n / 2 := by omega
    conv_lhs => rw [hn]
    rw [List.range_eq_range', List.range_eq_range', ← List.range'_append_1]; simp
  have hrev : ((List.range (n / 2)).map (fun j : Nat => l ((n : Int) - 1 - j))).Perm
      ((List.range' ((n + 1) / 2) (n / 2)).map (fun j : Nat => l j)) := by
    have : (List.range (n / 2)).map (fun j : Nat => l ((n : Int) - 1 - j)) =
        ((List.range (n / 2)).map (fun j : Nat => n - 1 - j)).map (fun j : Nat => l j) := by
      rw [List.map_map]; apply List.map_congr_left; intro j hj
      have : j < n / 2 := List.mem_range.mp hj
      simp only [Function.comp]; congr 1; omega
    rw [this]
    apply List.Perm.map
    have hre : (List.range (n / 2)).map (fun j : Nat => n - 1 - j) = (List.range' ((n + 1) / 2) (n / 2)).reverse := by
      apply List.ext_getElem
      · simp
      · intro i h1 h2
        simp only [List.length_map, List.length_range] at h1
        simp only [List.getElem_map, List.getElem_range, List.getElem_reverse, List.getElem_range', List.length_range']
        omega
    rw [hre]; exact List.reverse_perm _
  conv_rhs => rw [hsplit, List.map_append]
  exact List.Perm.append_left _ hrev

-- non-vacuity / sanity on concrete data (these are tests, labelled as such)
example : interleave (fun i => 10 + i) 5 0 = 10 ∧ interleave (fun i => 10 + i) 5 1 = 14 ∧
    interleave (fun i => 10 + i) 5 2 = 11 ∧ interleave (fun i => 10 + i) 5 3 = 13 ∧ interleave (fun i => 10 + i) 5 4 = 12 := by decide

end C18
