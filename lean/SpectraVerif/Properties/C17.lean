/-
  C17 — LOBPCG solver bookkeeping (`Spectra::LOBPCGSolver`, include/Spectra/contrib/LOBPCGSolver.h).

  All theorems are about `Model/LOBPCG.lean` and hold for EVERY kernel record `K` (every behaviour of the operators, the
  preconditioner, `orthogonalizeInPlace`, the dense eigen-solver, the inner `SymGEigsSolver`, the norm test, `std::less`),
  every configuration, every tolerance, iteration limit and prior object state, except where a hypothesis is spelled out.
  Clauses 1–3 are exact-arithmetic statements: the scalar is any commutative ring, columns live in any module over it, and
  only `A*`, `B*` are assumed linear (`Lawful K`).  Clauses 4–7 are discrete and hold for every scalar/column type with
  `+`, `-`, `•` (so also for the executable `Float` instance the correspondence check runs against the real class).
-/
import SpectraVerif.Proofs.C17Lemmas
import SpectraVerif.Proofs.C17Sort
import SpectraVerif.Proofs.C17Asc
import SpectraVerif.Proofs.C17Width
import SpectraVerif.Proofs.C17Test
import SpectraVerif.Proofs.C17History
import Mathlib.Data.Matrix.Mul
import Mathlib.Tactic.Ring

namespace C17
open Lobpcg

/-! ## 1–3: exact-arithmetic content (commutative ring, linear `A*`, `B*`) -/
section ring
variable {α V : Type} [CommRing α] [AddCommGroup V] [Module α V] (K : Kern α V) (c : Cfg)

/-- the initial phase (B-orthonormalisation of `X`, first projection) establishes `AX = A*X`, `BX = B*X`, `AD = A*D`, `BD = B*D`
    whenever the initial `orthogonalizeInPlace` succeeded — also when the dense eigen-solver then fails -/
theorem c17_products_init (hK : Lawful K) (s0 : St α V)
    (h : (K.orth .initX s0.X (s0.X.map K.applyB)).isSome) :
    Lobpcg.Inv K (initPhase K s0).1 (initPhase K s0).2.1 :=
  initPhase_inv K hK s0 h

/-- one pass through the loop body preserves the tracked products, whichever way it ends, for every coefficient block -/
theorem c17_products_step (hK : Lawful K) (t : α) (iter : Nat) (s : St α V) (l : Loc V) (h : Lobpcg.Inv K s l) :
    (∀ s' l', step K c t iter s l = .cont s' l' → Lobpcg.Inv K s' l') ∧
    (∀ s' l' e, step K c t iter s l = .stop s' l' e → Lobpcg.Inv K s' l') :=
  ⟨fun _ _ e => (step_inv K c hK t iter s l h).cont e, fun _ _ _ e => (step_inv K c hK t iter s l h).stop e⟩

/--
  **Tracked products.**  At the end of `compute()` — however the loop was left, including through an exception — the locals
  `AX, BX, AD, BD` are exactly `A*X, B*X, A*D, B*D` for the internal iterate `X` and directions `D`, although the code never
  recomputes them but updates them with the same coefficient blocks as `X`.
-/
theorem c17_products (hK : Lawful K) (maxit : Int) (tol : α) (s0 : St α V)
    (h : (K.orth .initX s0.X (s0.X.map K.applyB)).isSome) :
    Lobpcg.Inv K (compute K c maxit tol s0).s (compute K c maxit tol s0).l := by
  obtain ⟨fuel, _, hl, _, _, hs⟩ := compute_cases K c maxit tol s0
  have hloop := loop_sat K c (K.tolL2 tol c.n) (Lobpcg.Inv K) (fun s l _ => Lobpcg.Inv K s l)
    (fun iter s l hi => step_inv K c hK _ iter s l hi) (fun s l hi => hi) fuel 0 _ _ (initPhase_inv K hK (reset s0) h)
  rcases hs with ⟨_, _, hs⟩ | ⟨_, _, hs⟩
  · rw [hs, hl]; exact hloop
  · rw [hs, hl]
    obtain ⟨fx, _, _, _⟩ := finalize_frame K c (K.tolL2 tol c.n)
      (loop K c (K.tolL2 tol c.n) fuel 0 (initPhase K (reset s0)).1 (initPhase K (reset s0)).2.1).1
      (loop K c (K.tolL2 tol c.n) fuel 0 (initPhase K (reset s0)).1 (initPhase K (reset s0)).2.1).2.1
    unfold Lobpcg.Inv
    rw [fx]
    exact hloop

/--
  **Residual accessor.**  After a `compute()` that returned normally, `residuals()` is `A*X - B*X*diag(θ)` for the INTERNAL
  iterate `X` and `θ = eigenvalues()`.
-/
theorem c17_residuals (hK : Lawful K) (maxit : Int) (tol : α) (s0 : St α V)
    (h : (K.orth .initX s0.X (s0.X.map K.applyB)).isSome)
    (hthrew : (compute K c maxit tol s0).threw = false) :
    residuals (compute K c maxit tol s0).s =
      residual ((compute K c maxit tol s0).s.X.map K.applyA) ((compute K c maxit tol s0).s.X.map K.applyB)
        (eigenvalues (compute K c maxit tol s0).s) := by
  obtain ⟨hA, hB, _, _⟩ := c17_products K c hK maxit tol s0 h
  obtain ⟨fuel, _, hl, _, _, hs⟩ := compute_cases K c maxit tol s0
  rcases hs with ⟨_, ht, _⟩ | ⟨_, _, hs⟩
  · rw [ht] at hthrew; cases hthrew
  · obtain ⟨_, fe, _, fr⟩ := finalize_frame K c (K.tolL2 tol c.n)
      (loop K c (K.tolL2 tol c.n) fuel 0 (initPhase K (reset s0)).1 (initPhase K (reset s0)).2.1).1
      (loop K c (K.tolL2 tol c.n) fuel 0 (initPhase K (reset s0)).1 (initPhase K (reset s0)).2.1).2.1
    rw [← hA, ← hB]
    unfold residuals eigenvalues
    rw [hs, hl, fr, fe]

/-- pointwise reading: column `i` of `residuals()` is `A x_i - θ_i • B x_i` -/
theorem c17_residuals_pointwise (hK : Lawful K) (maxit : Int) (tol : α) (s0 : St α V)
    (h : (K.orth .initX s0.X (s0.X.map K.applyB)).isSome)
    (hthrew : (compute K c maxit tol s0).threw = false) (i : Nat) (x : V) (θ : α)
    (hx : (compute K c maxit tol s0).s.X[i]? = some x) (hθ : (eigenvalues (compute K c maxit tol s0).s)[i]? = some θ) :
    (residuals (compute K c maxit tol s0).s)[i]? = some (K.applyA x - θ • K.applyB x) := by
  rw [c17_residuals K c hK maxit tol s0 h hthrew]
  exact residual_getElem? _ _ _ i _ _ _ (by simp [hx]) (by simp [hx]) hθ

/-- the formula itself, for any three blocks -/
theorem c17_residual_formula (a b : List V) (t : List α) (i : Nat) (ai bi : V) (ti : α)
    (ha : a[i]? = some ai) (hb : b[i]? = some bi) (ht : t[i]? = some ti) :
    (residual a b t)[i]? = some (ai - ti • bi) :=
  residual_getElem? a b t i ai bi ti ha hb ht

/--
  **B-orthonormality of the update.**  `b` any bilinear form (e.g. `b x y = xᵀ B y`), `S` the basis block (`[X R D]`), `C` the
  coefficient columns.  If the columns of `C` are orthonormal w.r.t. the Gram matrix `Sᵀ B S`
  (`gramForm b S S c d = Σ_k c_k Σ_l d_l b(S_k, S_l)`), the new block `S*C` is `b`-orthonormal.
  (That the inner solver returns such `C` is numerical and outside this clause; the code does no re-orthogonalisation of `X`.)
-/
theorem c17_borth (b : V → V → α) (hb : IsBilin b) (S : List V) (C : List (List α))
    (h : ∀ i j (hi : i < C.length) (hj : j < C.length), gramForm b S S C[i] C[j] = if i = j then 1 else 0)
    (i j : Nat) (hi : i < (mulCoef (0 : V) S C).length) (hj : j < (mulCoef (0 : V) S C).length) :
    b (mulCoef (0 : V) S C)[i] (mulCoef (0 : V) S C)[j] = if i = j then 1 else 0 :=
  borth_mulCoef b hb S C h i j hi hj

/-- the core identity: `b(Σ c_k S_k, Σ d_l T_l) = Σ_k c_k Σ_l d_l b(S_k, T_l)` for the model's `lincomb` -/
theorem c17_bilinear_lincomb (b : V → V → α) (hb : IsBilin b) (cs ds : List α) (S T : List V) :
    b (lincomb (0 : V) cs S) (lincomb (0 : V) ds T) = gramForm b S T cs ds := by
  rw [lincomb_zero_eq, lincomb_zero_eq]; exact bilin_sumZip b hb cs ds S T

/-- any element of `V →ₗ V →ₗ α` qualifies -/
theorem c17_borth_linearMap (B : V →ₗ[α] V →ₗ[α] α) : IsBilin (fun x y => B x y) := IsBilin.ofLinearMap B

/-- the model's update `X*C_X + (R*C_R + D*C_D)` (same for `AX`, `BX`) is `[X R D] * C` -/
theorem c17_update_concat (X R D : List V) (C : List (List α)) (nev bs : Nat)
    (hX : X.length = nev) (hR : R.length = bs) (hD : D.length = bs) :
    addB (mulCoef (0 : V) X (rowsOf C 0 nev))
        (addB (mulCoef (0 : V) R (rowsOf C nev bs)) (mulCoef (0 : V) D (rowsOf C (nev + bs) bs))) =
      mulCoef (0 : V) (X ++ R ++ D) C := by
  subst hX; subst hR
  have := update_concat3 X R D C
  rw [hD] at this
  exact this

/-- iteration 0 (no directions yet): `X*C_X + R*C_R = [X R] * C` -/
theorem c17_update_concat0 (X R : List V) (C : List (List α)) (nev bs : Nat)
    (hX : X.length = nev) (hR : R.length = bs) :
    addB (mulCoef (0 : V) X (rowsOf C 0 nev)) (mulCoef (0 : V) R (rowsOf C nev bs)) = mulCoef (0 : V) (X ++ R) C := by
  subst hX; subst hR
  exact update_concat2 X R C

/-- so `c17_borth` applies to the `step` update: after a completed iteration the new iterate is `[X R D] * C` (`[X R] * C` in
    iteration 0) with `R = residuals()` (the orthonormalised block), `C = m_evectors` (the public member), provided the blocks have the shapes
    the code assumes (`nev`, `bs`, `bs` columns) -/
theorem c17_step_update (hK : Lawful K) (t : α) (iter : Nat) (s s' : St α V) (l l' : Loc V)
    (h : step K c t iter s l = .cont s' l') (hX : s.X.length = c.nev) :
    ∃ (D : List V) (bs : Nat), (residuals s').length = bs → D.length = bs →
      s'.X = mulCoef (0 : V) (s.X ++ residuals s' ++ (if iter > 0 then D else [])) s'.evecs := by
  obtain ⟨D, bs, hu⟩ := (step_update K c t iter s l).cont h
  refine ⟨D, bs, fun hR hD => ?_⟩
  rw [hu, hK.zero]
  unfold residuals at *
  split
  · exact c17_update_concat s.X s'.resid D s'.evecs c.nev bs hX hR hD
  · rw [List.append_nil]; exact c17_update_concat0 s.X s'.resid s'.evecs c.nev bs hX hR

end ring

/-- matrix reading of `c17_borth`: `Cᵀ (Sᵀ B S) C = 1 → (S C)ᵀ B (S C) = 1` -/
theorem c17_borth_matrix {m n k R : Type} [Fintype m] [Fintype n] [Fintype k] [DecidableEq k] [CommRing R]
    (S : Matrix m n R) (B : Matrix m m R) (C : Matrix n k R)
    (h : C.transpose * (S.transpose * B * S) * C = 1) :
    (S * C).transpose * B * (S * C) = 1 := by
  rw [Matrix.transpose_mul, ← h]
  simp only [Matrix.mul_assoc]

/-! ## 4–7: discrete content, every scalar and column type -/
section generic
variable {α V : Type} [Add V] [Sub V] [SMul α V] (K : Kern α V) (c : Cfg)

/--
  **Success means every column passed.**  Whatever the object's history (`compute()` resets `m_info` first), if `compute()`
  returned normally with `info() == Success`, then each of the `nev` columns of `residuals()` passed the code's test
  `sqrt(Σ r²) < tol_div_n * m_n`.
-/
theorem c17_success_tol (maxit : Int) (tol : α) (s0 : St α V)
    (hthrew : (compute K c maxit tol s0).threw = false)
    (hinfo : info (compute K c maxit tol s0).s = .success) :
    Passes K c (K.tolL2 tol c.n) (residuals (compute K c maxit tol s0).s) := by
  obtain ⟨fuel, _, hl, he, _, hs⟩ := compute_cases K c maxit tol s0
  rcases hs with ⟨_, ht, _⟩ | ⟨_, _, hs⟩
  · rw [ht] at hthrew; cases hthrew
  · obtain ⟨_, _, _, fr⟩ := finalize_frame K c (K.tolL2 tol c.n)
      (loop K c (K.tolL2 tol c.n) fuel 0 (initPhase K (reset s0)).1 (initPhase K (reset s0)).2.1).1
      (loop K c (K.tolL2 tol c.n) fuel 0 (initPhase K (reset s0)).1 (initPhase K (reset s0)).2.1).2.1
    obtain ⟨_, fi⟩ := finalize_info K c (K.tolL2 tol c.n)
      (loop K c (K.tolL2 tol c.n) fuel 0 (initPhase K (reset s0)).1 (initPhase K (reset s0)).2.1).1
      (loop K c (K.tolL2 tol c.n) fuel 0 (initPhase K (reset s0)).1 (initPhase K (reset s0)).2.1).2.1
    obtain ⟨li, lc⟩ := loop_info K c (K.tolL2 tol c.n) fuel 0 (initPhase K (reset s0)).1 (initPhase K (reset s0)).2.1
    unfold residuals
    unfold info at hinfo
    rw [hs] at hinfo ⊢
    rw [fr]
    apply Classical.byContradiction
    intro hP
    rw [fi hP, li] at hinfo
    have h1 : (initPhase K (reset s0)).1.info ≠ .success := by
      rcases (initPhase_info K (reset s0)).2 with e | e | e <;> rw [e]
      · show EInfo.noConvergence ≠ EInfo.success; decide
      · intro h; cases h
      · intro h; cases h
    cases hx : (loop K c (K.tolL2 tol c.n) fuel 0 (initPhase K (reset s0)).1 (initPhase K (reset s0)).2.1).2.2 with
    | converged i => exact hP (lc i hx)
    | orthRFailed i => rw [hx] at hinfo; cases hinfo
    | orthDFailed i => rw [hx] at hinfo; cases hinfo
    | gramFailed i => rw [hx] at hinfo; cases hinfo
    | rrFailed i => rw [hx] at hinfo; cases hinfo
    | rrThrew i => rw [hx] at hinfo; exact h1 hinfo
    | exhausted => rw [hx] at hinfo; exact h1 hinfo

/-- if all columns pass, `info()` is decided by the B-orthonormality guard alone, whatever the prior state and whatever the loop
    wrote into `m_info`: `Success` if `max |X' * BX - I| < sqrt(epsilon)` for the final iterate and its tracked product `BX`,
    `NumericalIssue` otherwise (repair of finding C17-gram-breakdown: a collapsed or blown-up block is not reported as converged) -/
theorem c17_passes_info (maxit : Int) (tol : α) (s0 : St α V)
    (hthrew : (compute K c maxit tol s0).threw = false)
    (hP : Passes K c (K.tolL2 tol c.n) (residuals (compute K c maxit tol s0).s)) :
    info (compute K c maxit tol s0).s =
      if K.borth (compute K c maxit tol s0).s.X (compute K c maxit tol s0).l.BX then .success else .numericalIssue := by
  obtain ⟨fuel, _, hl, he, _, hs⟩ := compute_cases K c maxit tol s0
  rcases hs with ⟨_, ht, _⟩ | ⟨_, _, hs⟩
  · rw [ht] at hthrew; cases hthrew
  · obtain ⟨fx, _, _, fr⟩ := finalize_frame K c (K.tolL2 tol c.n)
      (loop K c (K.tolL2 tol c.n) fuel 0 (initPhase K (reset s0)).1 (initPhase K (reset s0)).2.1).1
      (loop K c (K.tolL2 tol c.n) fuel 0 (initPhase K (reset s0)).1 (initPhase K (reset s0)).2.1).2.1
    obtain ⟨fi, _⟩ := finalize_info K c (K.tolL2 tol c.n)
      (loop K c (K.tolL2 tol c.n) fuel 0 (initPhase K (reset s0)).1 (initPhase K (reset s0)).2.1).1
      (loop K c (K.tolL2 tol c.n) fuel 0 (initPhase K (reset s0)).1 (initPhase K (reset s0)).2.1).2.1
    unfold residuals at hP
    unfold info
    rw [hs] at hP ⊢
    rw [fr] at hP
    rw [fi hP, fx, hl]

/-- the converse of `c17_success_tol` + `c17_success_borth`: all columns pass and the guard holds ⇒ `Success` -/
theorem c17_passes_success (maxit : Int) (tol : α) (s0 : St α V)
    (hthrew : (compute K c maxit tol s0).threw = false)
    (hP : Passes K c (K.tolL2 tol c.n) (residuals (compute K c maxit tol s0).s))
    (hG : K.borth (compute K c maxit tol s0).s.X (compute K c maxit tol s0).l.BX = true) :
    info (compute K c maxit tol s0).s = .success := by
  rw [c17_passes_info K c maxit tol s0 hthrew hP, if_pos hG]

/--
  **Success means the returned block passed the B-orthonormality guard.**  If `compute()` returned normally with
  `info() == Success`, the test `max |X' * BX - I| < sqrt(epsilon)` held for the returned iterate `X` (= `eigenvectors()`) and the
  tracked product `BX` (= `B*X` by `c17_products`).  Before the repair of finding C17-gram-breakdown a block with a zero column
  (or one blown up to 1e50) was reported as `Success` because its residual columns are small in absolute terms.
-/
theorem c17_success_borth (maxit : Int) (tol : α) (s0 : St α V)
    (hthrew : (compute K c maxit tol s0).threw = false)
    (hinfo : info (compute K c maxit tol s0).s = .success) :
    K.borth (eigenvectors (compute K c maxit tol s0).s) (compute K c maxit tol s0).l.BX = true := by
  have hP := c17_success_tol K c maxit tol s0 hthrew hinfo
  have := c17_passes_info K c maxit tol s0 hthrew hP
  rw [hinfo] at this
  unfold eigenvectors
  cases hb : K.borth (compute K c maxit tol s0).s.X (compute K c maxit tol s0).l.BX with
  | true => rfl
  | false => rw [hb] at this; cases this

/--
  **Status.**  For EVERY prior object state (fresh, or left behind by any earlier `compute()`), on a normal return:
  `info() == Success` exactly when all `nev` residual columns pass the test AND the returned block passes the B-orthonormality
  guard.  (Before the repair of finding C17-stale-info this needed the hypothesis "`m_info ≠ Success` before the call": `m_info`
  was never reset; before the repair of C17-gram-breakdown the second conjunct was missing.)
-/
theorem c17_status (maxit : Int) (tol : α) (s0 : St α V)
    (hthrew : (compute K c maxit tol s0).threw = false) :
    info (compute K c maxit tol s0).s = .success ↔
      Passes K c (K.tolL2 tol c.n) (residuals (compute K c maxit tol s0).s) ∧
      K.borth (eigenvectors (compute K c maxit tol s0).s) (compute K c maxit tol s0).l.BX = true :=
  ⟨fun h => ⟨c17_success_tol K c maxit tol s0 hthrew h, c17_success_borth K c maxit tol s0 hthrew h⟩,
   fun h => c17_passes_success K c maxit tol s0 hthrew h.1 h.2⟩

/--
  **Status per exit.**  `o.threw` ⇔ the loop was left by an exception of the inner solver, and then `m_info` is what the
  initial phase left (the code after the loop did not run).  On a normal return where not all columns pass:
  the loop was not left through the `BlockSize == 0` exit; a failed `orthogonalizeInPlace` and a Gram matrix whose Cholesky
  factorization fails (`gramFailed`, repair of C17-gram-breakdown: the failed factor used to be handed to the inner solver) give
  `NumericalIssue`; a non-converged inner solver gives `NoConvergence`; running out of iterations leaves `m_info` as the initial phase left it
  (`NoConvergence` from the reset when both initial kernels succeed: `c17_exhausted_noconvergence`); and `info()` is never
  `Success`, whatever the object's history.
-/
theorem c17_status_exits (maxit : Int) (tol : α) (s0 : St α V) (o : Out α V) (ho : o = compute K c maxit tol s0) :
    (o.threw = true ↔ ∃ i, o.exit = .rrThrew i) ∧
    (o.threw = true → info o.s = (initPhase K (reset s0)).1.info) ∧
    (o.threw = false → ¬ Passes K c (K.tolL2 tol c.n) (residuals o.s) →
      (∀ i, o.exit ≠ .converged i) ∧
      (∀ i, o.exit = .orthRFailed i ∨ o.exit = .orthDFailed i ∨ o.exit = .gramFailed i → info o.s = .numericalIssue) ∧
      (∀ i, o.exit = .rrFailed i → info o.s = .noConvergence) ∧
      (o.exit = .exhausted → info o.s = (initPhase K (reset s0)).1.info) ∧
      info o.s ≠ .success) := by
  subst ho
  obtain ⟨fuel, _, hl, he, _, hs⟩ := compute_cases K c maxit tol s0
  obtain ⟨li, lc⟩ := loop_info K c (K.tolL2 tol c.n) fuel 0 (initPhase K (reset s0)).1 (initPhase K (reset s0)).2.1
  rw [← he] at li lc
  rcases hs with ⟨⟨i, hi⟩, ht, hs⟩ | ⟨hne, ht, hs⟩
  · refine ⟨⟨fun _ => ⟨i, hi⟩, fun _ => ht⟩, fun _ => ?_, fun h => (by rw [ht] at h; cases h)⟩
    unfold info
    rw [hs, li, hi]; rfl
  · refine ⟨⟨fun h => (by rw [ht] at h; cases h), fun ⟨i, hi⟩ => absurd hi (hne i)⟩, fun h => (by rw [ht] at h; cases h), ?_⟩
    intro _ hP
    obtain ⟨_, _, _, fr⟩ := finalize_frame K c (K.tolL2 tol c.n)
      (loop K c (K.tolL2 tol c.n) fuel 0 (initPhase K (reset s0)).1 (initPhase K (reset s0)).2.1).1
      (loop K c (K.tolL2 tol c.n) fuel 0 (initPhase K (reset s0)).1 (initPhase K (reset s0)).2.1).2.1
    obtain ⟨_, fi⟩ := finalize_info K c (K.tolL2 tol c.n)
      (loop K c (K.tolL2 tol c.n) fuel 0 (initPhase K (reset s0)).1 (initPhase K (reset s0)).2.1).1
      (loop K c (K.tolL2 tol c.n) fuel 0 (initPhase K (reset s0)).1 (initPhase K (reset s0)).2.1).2.1
    have hP' : ¬ Passes K c (K.tolL2 tol c.n)
        (residual (loop K c (K.tolL2 tol c.n) fuel 0 (initPhase K (reset s0)).1 (initPhase K (reset s0)).2.1).2.1.AX
          (loop K c (K.tolL2 tol c.n) fuel 0 (initPhase K (reset s0)).1 (initPhase K (reset s0)).2.1).2.1.BX
          (loop K c (K.tolL2 tol c.n) fuel 0 (initPhase K (reset s0)).1 (initPhase K (reset s0)).2.1).1.evals) := by
      unfold residuals at hP; rw [hs, fr] at hP; exact hP
    have hinfo : info (compute K c maxit tol s0).s =
        exitInfo (compute K c maxit tol s0).exit (initPhase K (reset s0)).1.info := by
      unfold info; rw [hs, fi hP', li]
    refine ⟨fun i hi => hP' (lc i hi), fun i hi => ?_, fun i hi => ?_, fun hi => ?_, ?_⟩
    · rw [hinfo]; rcases hi with hi | hi | hi <;> rw [hi] <;> rfl
    · rw [hinfo, hi]; rfl
    · rw [hinfo, hi]; rfl
    · intro hsucc
      exact hP (c17_success_tol K c maxit tol s0 ht hsucc)

/-- **An exhausted loop reports non-success whatever the object's history**: when both initial kernels succeed and the loop runs
    out of iterations without convergence, `info()` is `NoConvergence` — the value `compute()` itself wrote at its top, not
    whatever an earlier call left behind (repair of finding C17-stale-info; no hypothesis on `s0.info`) -/
theorem c17_exhausted_noconvergence (maxit : Int) (tol : α) (s0 : St α V) (X' : List V)
    (hX : K.orth .initX s0.X (s0.X.map K.applyB) = some X') (hE : (K.eig0 X' (X'.map K.applyA)).isSome)
    (hthrew : (compute K c maxit tol s0).threw = false)
    (hP : ¬ Passes K c (K.tolL2 tol c.n) (residuals (compute K c maxit tol s0).s))
    (hex : (compute K c maxit tol s0).exit = .exhausted) :
    info (compute K c maxit tol s0).s = .noConvergence := by
  have hok : (initPhase K (reset s0)).2.2 = true := (initPhase_ok_iff K (reset s0)).mpr ⟨X', hX, hE⟩
  have := (c17_status_exits K c maxit tol s0 _ rfl).2.2 hthrew hP
  rw [this.2.2.2.1 hex]
  exact (initPhase_info K (reset s0)).1 hok

/-- the headline form: no normal return reports `Success` unless every column passed — for every prior state -/
theorem c17_nonsuccess_reported (maxit : Int) (tol : α) (s0 : St α V)
    (hthrew : (compute K c maxit tol s0).threw = false)
    (hP : ¬ Passes K c (K.tolL2 tol c.n) (residuals (compute K c maxit tol s0).s)) :
    info (compute K c maxit tol s0).s ≠ .success :=
  fun h => hP (c17_success_tol K c maxit tol s0 hthrew h)

/--
  **Shapes** (full clause, after the repair of finding F10): `eigenvectors()` IS the internal iterate `X` — so every theorem
  about `X` (`c17_products`, `c17_residuals`, `c17_borth` + `c17_step_update`) is a theorem about the returned matrix — and if the
  small eigen-solvers return `nev` pairs and the initial phase succeeds it has `nev` columns (each a column of the module `V`,
  i.e. of `n` entries in the executable instance), as many as `eigenvalues()` has entries.
-/
theorem c17_shape
    (heig : ∀ X AX θ C, K.eig0 X AX = some (θ, C) → θ.length = c.nev ∧ C.length = c.nev)
    (hrr : ∀ inp θ C, K.rr inp = .ok θ C → θ.length = c.nev ∧ C.length = c.nev)
    (maxit : Int) (tol : α) (s0 : St α V) (hok : (compute K c maxit tol s0).initOk = true) :
    eigenvectors (compute K c maxit tol s0).s = (compute K c maxit tol s0).s.X ∧
    (eigenvectors (compute K c maxit tol s0).s).length = c.nev ∧ (eigenvalues (compute K c maxit tol s0).s).length = c.nev := by
  obtain ⟨fuel, _, hl, he, hi, hs⟩ := compute_cases K c maxit tol s0
  rw [hi] at hok
  have hloop := loop_shape K c hrr (K.tolL2 tol c.n) fuel 0 (initPhase K (reset s0)).1 (initPhase K (reset s0)).2.1
    (initPhase_shape K c heig (reset s0) hok)
  refine ⟨rfl, ?_⟩
  unfold eigenvalues eigenvectors
  rcases hs with ⟨_, _, hs⟩ | ⟨_, _, hs⟩
  · rw [hs]; exact ⟨hloop.1, hloop.2.1⟩
  · obtain ⟨fx, fe, fv, _⟩ := finalize_frame K c (K.tolL2 tol c.n)
      (loop K c (K.tolL2 tol c.n) fuel 0 (initPhase K (reset s0)).1 (initPhase K (reset s0)).2.1).1
      (loop K c (K.tolL2 tol c.n) fuel 0 (initPhase K (reset s0)).1 (initPhase K (reset s0)).2.1).2.1
    rw [hs, fx, fe]; exact ⟨hloop.1, hloop.2.1⟩

/-- `initOk` is: both kernels of the initial phase succeeded -/
theorem c17_initOk_iff (maxit : Int) (tol : α) (s0 : St α V) :
    (compute K c maxit tol s0).initOk = true ↔
      ∃ X', K.orth .initX s0.X (s0.X.map K.applyB) = some X' ∧ (K.eig0 X' (X'.map K.applyA)).isSome := by
  obtain ⟨fuel, _, _, _, hi, _⟩ := compute_cases K c maxit tol s0
  rw [hi]; exact initPhase_ok_iff K (reset s0)

/-- after a completed iteration the public member `m_evectors` is the (sorted) coefficient matrix the Rayleigh–Ritz kernel
    returned in THIS iteration (rows `nev + bs (+ bs)`); it is no longer what `eigenvectors()` returns -/
theorem c17_evecs_member_is_coeff (t : α) (iter : Nat) (s s' : St α V) (l l' : Loc V)
    (h : step K c t iter s l = .cont s' l') :
    ∃ inp θ0 C0, K.rr inp = .ok θ0 C0 ∧ inp.iter = iter ∧ inp.X = s.X ∧ inp.evals = s.evals ∧
      eigenvalues s' = (sortEpairs K.lt θ0 C0).1 ∧ s'.evecs = (sortEpairs K.lt θ0 C0).2 :=
  (step_evecs K c t iter s l).cont h

/-- **Inner constructor guard**: `SymGEigsSolver(…, nev, ncv)` with `ncv = min(10, rows-1)`, replaced by `min(rows, 2·nev)` when
    that is `≤ nev` (`innerNcv`), on a `rows × rows` pencil is accepted
    exactly when `1 ≤ nev ≤ rows - 1` (guard regenerated from `HermEigsBase.h`) -/
theorem c17_inner_guard (nev rows : Nat) : innerGuard nev rows = true ↔ 1 ≤ nev ∧ nev + 1 ≤ rows :=
  innerGuard_iff nev rows

/-- a completed iteration implies the guard held on `rows = nev + bs (+ bs)` with `1 ≤ bs ≤ nev` -/
theorem c17_cont_guard (t : α) (iter : Nat) (s s' : St α V) (l l' : Loc V) (h : step K c t iter s l = .cont s' l') :
    ∃ bs, 0 < bs ∧ bs ≤ c.nev ∧ innerGuard c.nev (c.nev + bs + (if iter > 0 then bs else 0)) = true :=
  (step_guard K c t iter s l).cont h

/-- repair of finding C17-inner-ncv: on every Gram pencil the loop can build (`rows = nev + bs (+ bs)`, `bs ≥ 1`) the inner
    solver's constructor accepts its arguments — for EVERY block size `nev ≥ 1`, in particular `nev = 1`, `nev ≥ 10` and the
    one-column-left case `bs = 1` of iteration 0 which used to throw -/
theorem c17_inner_guard_holds (nev bs : Nat) (iter : Nat) (hnev : 1 ≤ nev) (hbs : 1 ≤ bs) :
    innerGuard nev (nev + bs + (if iter > 0 then bs else 0)) = true := by
  rw [innerGuard_iff]; omega

/-- hence an exception can leave `compute()` only if the inner solver's numerics throw (the kernel's `.threw`), never from the
    constructor guard: if a pass through the loop body stops with `rrThrew`, the Rayleigh–Ritz kernel was called and threw -/
theorem c17_throw_only_numeric (hnev : 1 ≤ c.nev) (t : α) (iter : Nat) (s s' : St α V) (l l' : Loc V) (i : Nat)
    (h : step K c t iter s l = .stop s' l' (.rrThrew i)) :
    ∃ inp, K.rr inp = .threw := by
  have key : (step K c t iter s l).Sat (fun _ _ => True)
      (fun _ _ e => ∀ j, e = .rrThrew j → ∃ inp, K.rr inp = .threw) := by
    unfold step
    simp only []
    repeat' split
    all_goals simp only [StepRes.Sat]
    all_goals first
      | (intro j _; exact ⟨_, ‹K.rr _ = RROut.threw›⟩)
      | (intro j _; exfalso
         have hg : innerGuard _ _ = false := ‹innerGuard _ _ = false›
         rw [Bool.eq_false_iff, ne_eq, innerGuard_iff] at hg
         omega)
      | (intro j hj; cases hj)
  exact key.stop h i rfl

end generic

/-! ## examples: hypotheses are satisfiable, counterexamples to the full-strength clauses -/

/-- kernels of the stale-info example: initial phase succeeds, no column ever passes the test -/
def exK1 : Kern Int Int :=
  { zeroV := 0, applyA := id, applyB := id, applyT := id, below := fun _ _ => false, tolL2 := fun t _ => t,
    lt := fun a b => decide (a < b), orth := fun _ X _ => some X, eig0 := fun _ _ => some ([1], [[1]]),
    gramSPD := fun _ => true, rr := fun _ => .notConverged, borth := fun _ _ => true }

/-- `Lawful` is satisfiable (α = V = ℤ, identity operators) -/
example : Lawful exK1 :=
  ⟨rfl, ⟨fun _ _ => rfl, fun _ _ => rfl⟩, ⟨fun _ _ => rfl, fun _ _ => rfl⟩⟩

/-- the hypotheses of `c17_borth` are satisfiable (1×1: `b x y = x*y`, `S = [1]`, `C = [[1]]`) -/
example : IsBilin (fun x y : Int => x * y) ∧
    (∀ i j (hi : i < [[(1 : Int)]].length) (hj : j < [[(1 : Int)]].length),
      gramForm (fun x y : Int => x * y) [1] [1] [[(1 : Int)]][i] [[(1 : Int)]][j] = if i = j then 1 else 0) := by
  refine ⟨⟨fun x y z => by ring, fun a x z => by simp only [smul_eq_mul]; ring, fun x y z => by ring,
    fun a x y => by simp only [smul_eq_mul]; ring⟩, ?_⟩
  intro i j hi hj
  have hi0 : i = 0 := by simpa using hi
  have hj0 : j = 0 := by simpa using hj
  subst hi0; subst hj0
  rfl

/-- repair of finding C17-stale-info on the model: an object whose `m_info` is `Success` from an earlier run, `compute(0, …)`:
    `info()` is `NoConvergence` (before the repair it stayed `Success`), and not a single residual column passes the test -/
example :
    info (compute exK1 { n := 5, nev := 1 } 0 1 { X := [1], resid := [], evecs := [], evals := [], info := .success }).s
      = .noConvergence ∧
    (compute exK1 { n := 5, nev := 1 } 0 1 { X := [1], resid := [], evecs := [], evals := [], info := .success }).threw
      = false ∧
    ¬ Passes exK1 { n := 5, nev := 1 } (exK1.tolL2 1 5)
      (residuals (compute exK1 { n := 5, nev := 1 } 0 1
        { X := [1], resid := [], evecs := [], evals := [], info := .success }).s) := by
  refine ⟨by decide, by decide, ?_⟩
  intro h
  obtain ⟨w, _, hw⟩ := h 0 (by decide)
  exact Bool.false_ne_true hw

/-- kernels of the shape example: n = 11, nev = 2, columns are `Fin 11 → ℤ`; the Rayleigh–Ritz kernel returns two pairs whose
    coefficient columns have as many rows as the pencil it was given -/
def exK2 : Kern Int (Fin 11 → Int) :=
  { zeroV := fun _ => 0, applyA := id, applyB := id, applyT := id, below := fun _ _ => false, tolL2 := fun t _ => t,
    lt := fun a b => decide (a < b), orth := fun _ X _ => some X,
    eig0 := fun _ _ => some ([1, 2], [[1, 0], [0, 1]]),
    gramSPD := fun _ => true,
    rr := fun inp => .ok [1, 2]
      [List.replicate (inp.X.length + inp.R.length + inp.D.length) 1,
       List.replicate (inp.X.length + inp.R.length + inp.D.length) 0],
    borth := fun _ _ => true }

def exS2 : St Int (Fin 11 → Int) :=
  { X := [fun i => if i.val = 0 then 1 else 0, fun i => if i.val = 1 then 1 else 0], resid := [], evecs := [], evals := [],
    info := .invalidInput }

/-- repair of finding F10 on the model: after two iterations `eigenvectors()` has 2 columns of type `Fin 11 → ℤ` (n = 11 entries
    each) and is the iterate, while the member `m_evectors` still has columns of 6 = nev + 2·bs entries -/
example :
    (eigenvectors (compute exK2 { n := 11, nev := 2 } 2 1 exS2).s).length = 2 ∧
    (compute exK2 { n := 11, nev := 2 } 2 1 exS2).s.evecs.map List.length = [6, 6] ∧
    (compute exK2 { n := 11, nev := 2 } 2 1 exS2).exit = .exhausted := by
  refine ⟨by decide, by decide, by decide⟩

/-- the hypotheses of `c17_inner_guard_holds` cover block size 1 in iteration 0 (used to throw) and block size 12 -/
example : innerGuard 1 2 = true ∧ innerGuard 12 13 = true ∧ innerGuard 3 4 = true := by decide

/-! ## 9: the column-removal path: the indices of converged columns always fit the blocks they are applied to -/

/--
  **Widths in the column-removal path.**  DESIGN §5 suspected that `columnsToDelete` (indices into the `nev`-column residual
  block) might be applied to `directions`, `AD`, `BD` of a different width.  It is not so: after every completed iteration the
  three direction blocks have exactly `nev` columns again (they are products with the `nev`-column coefficient blocks) …
-/
theorem c17_directions_width {α V : Type} [Add V] [Sub V] [SMul α V] (K : Kern α V) (c : Cfg)
    (hrr : ∀ inp θ C, K.rr inp = .ok θ C → θ.length = c.nev ∧ C.length = c.nev)
    (t : α) (iter : Nat) (s s' : St α V) (l l' : Loc V) (h : step K c t iter s l = .cont s' l') :
    l'.D.length = c.nev ∧ l'.AD.length = c.nev ∧ l'.BD.length = c.nev :=
  (step_dwidth K c hrr t iter s l).cont h

/-- … and removing the listed columns from ANY block of `nev` columns leaves exactly `BlockSize = nev - #columnsToDelete`
    columns, the row count of the coefficient blocks `C_R`, `C_D` the block is multiplied with -/
theorem c17_removed_width {α V : Type} [Add V] [Sub V] [SMul α V] (K : Kern α V) (c : Cfg)
    (t : α) (W M : List V) (hM : M.length = c.nev) :
    (removeCols M (delCols K c t W)).length = c.nev - (delCols K c t W).length :=
  removeCols_delCols_length K c t W M hM

/-! ## 8: the two explicit scalar kernels of the class, read in exact arithmetic -/

/--
  **Ascending order (partial).**  `sort_epairs` pushes the (eigenvalue, vector) pairs through a `std::map` keyed by the value.
  If the values handed over by the inner solver are pairwise distinct, `eigenvalues()` comes out strictly ascending and the pairs
  are a permutation of the input pairs (pairing kept, nothing lost), over any linear order.

  Without distinctness the full clause is FALSE for the code: equal keys collapse in the map, the later pair is dropped and the
  tail positions keep stale content (see the `example` below: the second vector is lost and the third is duplicated, so the new
  iterate loses rank).  Exact ties are outside C17's quantifier ("well-separated smallest eigenvalues"); the tie behaviour itself
  is tied to the real `sort_epairs` by the `sortep` correspondence requests.
-/
theorem c17_sorted_partial {α β : Type} [LinearOrder α] (θ : List α) (C : List β) (hl : θ.length = C.length) (hn : θ.Nodup) :
    ((sortEpairs ltDec θ C).1).Pairwise (· < ·) ∧
    (((sortEpairs ltDec θ C).1).zip (sortEpairs ltDec θ C).2).Perm (θ.zip C) ∧
    ((sortEpairs ltDec θ C).1).length = θ.length ∧ ((sortEpairs ltDec θ C).2).length = C.length :=
  sortEpairs_sorted θ C hl hn

example : sortEpairs (ltDec (α := Int)) [1, 1, 3] ["a", "b", "c"] = ([1, 3, 3], ["a", "c", "c"]) := by decide

/--
  **`eigenvalues()` ascending (partial).**  For every kernel record whose `lt` is the order (`std::less`) and whose small
  eigen-solvers return pairwise distinct values, `eigenvalues()` is strictly ascending after `compute()` — whatever the exit
  (every exit other than a completed iteration leaves `m_evalues` untouched, a completed one stores the sorted kernel output).
  What is missing for the full clause "the k SMALLEST eigenvalues of the pencil in ascending order": that the values are
  eigenvalues of (A, B) at all is the residual bound (`c17_success_tol` + `c17_residuals`), that they are the smallest ones is
  convergence of the iteration and is NOT provable from the code (oracle only); ties: see `c17_sorted_partial`.
-/
theorem c17_ascending_partial {α V : Type} [LinearOrder α] [Add V] [Sub V] [SMul α V] (K : Kern α V) (c : Cfg)
    (hlt : K.lt = ltDec)
    (heig : ∀ X AX θ C, K.eig0 X AX = some (θ, C) → θ.Nodup ∧ θ.length = C.length)
    (hrr : ∀ inp θ C, K.rr inp = .ok θ C → θ.Nodup ∧ θ.length = C.length)
    (maxit : Int) (tol : α) (s0 : St α V) (hok : (compute K c maxit tol s0).initOk = true) :
    (eigenvalues (compute K c maxit tol s0).s).Pairwise (· < ·) :=
  compute_ascending K c hlt heig hrr maxit tol s0 hok

/--
  **Meaning of the convergence test.**  The executable test `colBelow` (the explicit loop of `checkConvergence_getBlocksize`)
  instantiated at exact arithmetic over any linearly ordered field says `sqrt(Σ_i r_i²) < t`; with `t = tol_div_n * n` this is
  the "column norm below tol·n" of the property.  (At `Float` the same text is what the correspondence runs bit for bit.)
-/
theorem c17_test_meaning {F : Type} [Field F] [LinearOrder F] [IsStrictOrderedRing F] (fns : FieldFns F) (t : F) (v : Col F) :
    @colBelow F _ _ (scOfField fns) t v = true ↔ fns.sqrt ((v.d.toList.map (fun b => b * b)).sum) < t :=
  colBelow_iff fns t v

/--
  **Meaning of the B-orthonormality guard.**  The executable guard `gramOrthOk` (the statement
  `(Matrix(X' * BX) - Identity).cwiseAbs().maxCoeff() < sqrt(epsilon)` in front of `m_info = Success`) instantiated at exact
  arithmetic over any linearly ordered field says: every entry of `X' BX - I` is below the threshold in absolute value, where
  entry `(i, j)` of `X' BX` is the dot product of column `i` of `X` with column `j` of `BX` (= `B X` by `c17_products`).  With
  `c17_success_borth` this is the clause "`eigenvectors()` is `X` with `X'BX = I`" up to the threshold: `Success` ⇒
  `max |X'BX - I| < sqrt(eps)`.  (That the drift below the threshold stays near rounding level is numerical: oracle, bound 1e-8.)
-/
theorem c17_guard_meaning {F : Type} [Field F] [LinearOrder F] [IsStrictOrderedRing F] (fns : FieldFns F) (thr : F)
    (X BX : List (Col F)) :
    @gramOrthOk F _ _ _ (scOfField fns) thr X BX = true ↔
      ∀ i j, i < X.length → j < BX.length → ∃ x bx, X[i]? = some x ∧ BX[j]? = some bx ∧
        |((List.range x.d.size).map (fun k => @Lin.vget F (scOfField fns) x.d k * @Lin.vget F (scOfField fns) bx.d k)).sum
          - (if i = j then 1 else 0)| < thr :=
  gramOrthOk_iff fns thr X BX

/-- kernels of the guard examples: every column passes the residual test at once; `borth`/`gramSPD` as given -/
def exK3 (g spd : Bool) : Kern Int Int :=
  { zeroV := 0, applyA := id, applyB := id, applyT := id, below := fun _ _ => g || spd, tolL2 := fun t _ => t,
    lt := fun a b => decide (a < b), orth := fun _ X _ => some X, eig0 := fun _ _ => some ([1], [[1]]),
    gramSPD := fun _ => spd, rr := fun _ => .notConverged, borth := fun _ _ => g }

/-- repair of finding C17-gram-breakdown on the model: (1) all residual columns pass but the guard fails: `info()` is
    `NumericalIssue` although the loop's `BlockSize == 0` exit wrote `Success`; with the guard passing it is `Success`;
    (2) no column passes and the Cholesky factorization of the Gram matrix fails in iteration 0: exit `gramFailed 0`,
    `info()` is `NumericalIssue` and the inner solver is never called -/
example :
    info (compute (exK3 false true) { n := 5, nev := 1 } 3 1 (construct [1])).s = .numericalIssue ∧
    (compute (exK3 false true) { n := 5, nev := 1 } 3 1 (construct [1])).exit = .converged 0 ∧
    info (compute (exK3 true true) { n := 5, nev := 1 } 3 1 (construct [1])).s = .success ∧
    (compute (exK3 false false) { n := 5, nev := 1 } 3 1 (construct [1])).exit = .gramFailed 0 ∧
    info (compute (exK3 false false) { n := 5, nev := 1 } 3 1 (construct [1])).s = .numericalIssue := by
  refine ⟨by decide, by decide, by decide, by decide, by decide⟩

/-! ## 10: histories on ONE solver object (`Lobpcg.Obj`: members `A`, `m_B`/flag, `m_preconditioner`/flag, the state `St`) -/
section history
variable {α V : Type} [Add V] [Sub V] [SMul α V] (c : Cfg)

/--
  **What `compute()` reads of the object's state.**  Two object states with the same block `X`, the same `m_evalues` and the same
  `m_evectors` give the same result (state, locals, exit, exception flag), for every kernel record: `m_info` (reset in the first
  statement) and `m_residuals` (overwritten on every path) of an earlier call are never read.  No hypothesis on the kernels.
-/
theorem c17_compute_reads (K : Kern α V) (maxit : Int) (tol : α) (s0 s0' : St α V)
    (hX : s0.X = s0'.X) (hv : s0.evals = s0'.evals) (hc : s0.evecs = s0'.evecs) :
    compute K c maxit tol s0 = compute K c maxit tol s0' :=
  compute_reads K c maxit tol s0 s0' hX hv hc

/-- … and of those only `X` whenever the dense eigen-solver of the first projection succeeds (it then overwrites `m_evalues` and
    `m_evectors` before anything reads them) -/
theorem c17_compute_reads_X (K : Kern α V) (hE : ∀ X AX, (K.eig0 X AX).isSome) (maxit : Int) (tol : α) (s0 s0' : St α V)
    (hX : s0.X = s0'.X) :
    compute K c maxit tol s0 = compute K c maxit tol s0' :=
  compute_X_only K c hE maxit tol s0 s0' hX

/-- the setters only store: after ANY history the object's `A` is the constructor's, `B` / `T` are the arguments of the LAST
    `setB` / `setPreconditioner` (none if there was none) — no call, in particular no `compute()`, changes them -/
theorem c17_setters_last_win (A : V → V) (X0 : List V) (ops : List (Op α V)) :
    (Obj.run c (Obj.ctor A X0) ops).A = A ∧
    (Obj.run c (Obj.ctor A X0) ops).B = lastB none ops ∧
    (Obj.run c (Obj.ctor A X0) ops).T = lastT none ops :=
  ⟨Obj.run_A c _ ops, Obj.run_B c _ ops, Obj.run_T c _ ops⟩

/--
  **`compute()` is history independent.**  After ANY history `ops` of public calls on one object (constructor, then `setB`,
  `setPreconditioner`, `compute` in any order and number, each `compute` with arbitrary kernels, arguments and outcome — failed,
  converged, thrown), the result of the next `compute(maxit, tol)` — the whole `Out`: `info()`, `eigenvalues()`, `eigenvectors()`,
  `residuals()`, `m_evectors`, the locals, the exit, the exception flag — equals that of a FRESH object constructed from
  `(A, the block X the object holds now)`, given the B and T last set, and the same `compute(maxit, tol)`: the result is a function
  of `(A, current B, current T, current X, maxit, tol)` only.  There is no remembered status, tolerance or result.
  Hypothesis: the dense `EigenSolver` of the first projection does not fail (it cannot for a finite symmetric `X'AX`; the branch is
  listed as uncovered).  Without it see `c17_compute_history_independent_partial`.
  (X0 itself is not kept by the class: the constructor copies it into `X` and every `compute()` overwrites `X`, so "the same
  A / X0" for a reused object means its current `X`.)
-/
theorem c17_compute_history_independent (A : V → V) (X0 : List V) (ops : List (Op α V)) (N : Kern α V) (maxit : Int) (tol : α)
    (hE : ∀ X AX, (N.eig0 X AX).isSome) :
    (Obj.run c (Obj.ctor A X0) ops).computeOut N c maxit tol =
      (Obj.fresh A (Obj.run c (Obj.ctor A X0) ops).st.X (lastB none ops) (lastT none ops)).computeOut N c maxit tol := by
  have hk : (Obj.run c (Obj.ctor A X0) ops).kern N =
      (Obj.fresh A (Obj.run c (Obj.ctor A X0) ops).st.X (lastB none ops) (lastT none ops)).kern N :=
    Obj.kern_congr N _ _ (Obj.run_A c _ ops) (Obj.run_B c _ ops) (Obj.run_T c _ ops)
  unfold Obj.computeOut
  rw [hk]
  exact compute_X_only
    (Obj.kern N (Obj.fresh A (Obj.run c (Obj.ctor A X0) ops).st.X (lastB none ops) (lastT none ops))) c hE maxit tol
    (Obj.run c (Obj.ctor A X0) ops).st (construct (Obj.run c (Obj.ctor A X0) ops).st.X) rfl

/-- without the hypothesis on the eigen-solver: two objects (whatever their histories) that agree in the three operators, in `X`
    and in `m_evalues` / `m_evectors` give the same result.  The full clause "X alone" is FALSE for the code when the first
    eigen-solver fails: `m_evalues` of the previous call survives and the final residuals are computed with it (`example` below);
    on a fresh object `m_evalues` is then empty. -/
theorem c17_compute_history_independent_partial (N : Kern α V) (maxit : Int) (tol : α) (o o' : Obj α V)
    (hA : o.A = o'.A) (hB : o.B = o'.B) (hT : o.T = o'.T)
    (hX : o.st.X = o'.st.X) (hv : o.st.evals = o'.st.evals) (hc : o.st.evecs = o'.st.evecs) :
    o.computeOut N c maxit tol = o'.computeOut N c maxit tol := by
  unfold Obj.computeOut
  rw [Obj.kern_congr N o o' hA hB hT]
  exact compute_reads _ c maxit tol _ _ hX hv hc

omit [Add V] [Sub V] [SMul α V] in
/-- a fresh object with operators is the constructor followed by the setters -/
theorem c17_fresh_is_ctor_setters (A : V → V) (X : List V) (b t : V → V) :
    (Obj.fresh A X (some b) (some t) : Obj α V) = ((Obj.ctor A X).setB b).setPreconditioner t ∧
    (Obj.fresh A X (some b) none : Obj α V) = (Obj.ctor A X).setB b ∧
    (Obj.fresh A X none (some t) : Obj α V) = (Obj.ctor A X).setPreconditioner t ∧
    (Obj.fresh A X none none : Obj α V) = Obj.ctor A X :=
  ⟨rfl, rfl, rfl, rfl⟩

/-- consequence: two histories that leave the same block and whose last setters agree are indistinguishable for the next call -/
theorem c17_histories_same_tail (A : V → V) (X0 X0' : List V) (ops ops' : List (Op α V)) (N : Kern α V) (maxit : Int) (tol : α)
    (hE : ∀ X AX, (N.eig0 X AX).isSome)
    (hX : (Obj.run c (Obj.ctor A X0) ops).st.X = (Obj.run c (Obj.ctor A X0') ops').st.X)
    (hB : lastB none ops = lastB none ops') (hT : lastT none ops = lastT none ops') :
    (Obj.run c (Obj.ctor A X0) ops).computeOut N c maxit tol = (Obj.run c (Obj.ctor A X0') ops').computeOut N c maxit tol := by
  rw [c17_compute_history_independent c A X0 ops N maxit tol hE, c17_compute_history_independent c A X0' ops' N maxit tol hE,
    hX, hB, hT]

end history

/-- the hypothesis of `c17_compute_history_independent` is satisfiable (`exK1`), and the operator change is visible: after
    `compute; setB(2 *)` the next `compute` runs with the new B (residual `A x - θ B x = 1 - 1 * 2`), exactly as on a fresh object -/
example : (∀ X AX, (exK1.eig0 X AX).isSome) ∧
    ((Obj.run { n := 5, nev := 1 } (Obj.ctor id [1]) [.compute exK1 0 1, .setB (fun x => 2 * x)]).computeOut exK1
        { n := 5, nev := 1 } 0 1).s.resid = [-1] ∧
    ((Obj.run { n := 5, nev := 1 } (Obj.ctor id [1]) [.compute exK1 0 1]).computeOut exK1 { n := 5, nev := 1 } 0 1).s.resid = [0] := by
  refine ⟨fun _ _ => rfl, by decide, by decide⟩

/-- kernels whose first eigen-solver fails -/
def exK4 : Kern Int Int := { exK1 with eig0 := fun _ _ => none }

/-- sharpness of the hypothesis: with a failing first eigen-solver the stale `m_evalues` of an earlier call is read (final
    residual `1 - 7 * 1`), a fresh object has none — same `X`, different `residuals()` -/
example :
    (compute exK4 { n := 5, nev := 1 } 0 1 { X := [1], resid := [], evecs := [], evals := [7], info := .success }).s.resid = [-6] ∧
    (compute exK4 { n := 5, nev := 1 } 0 1 (construct [1])).s.resid = [] := by
  refine ⟨by decide, by decide⟩

end C17
