/-
  C06 — results depend only on the arguments; reruns are bit-identical; the operator is left untouched.

  1. Orchestration level (all kernels, all states, all histories): `init(v)` followed by `compute(args)` gives the same outcome,
     eigenvalues, eigenvectors, iteration count and operation count from ANY two object states — a freshly constructed solver, one
     reused after any history (including runs that did not converge or threw), or a second solver — provided the kernels read only
     the part of the factorization object that the factorization's own `init` rebuilds (`Orch.Respects K R`):
     `c06_init_total`, `c06_history_independent`, `c06_fresh_vs_reused`.
  2. The hypothesis is DISCHARGED for the numeric kernel record of the symmetric family (`HermSolver.hermKern`: the executable
     Lanczos / TridiagQR / TridiagEigen models that the driver runs bit for bit against `SymEigsSolver`/`SymEigsShiftSolver`) in
     `Proofs/C06Footprint.lean` (`herm_respects`), giving the UNCONDITIONAL `c06_herm_*` theorems: every operator, every
     (n, nev, ncv), every pair of object states carrying the constructor's constants (in particular: after every two histories),
     every argument tuple.  Bit-identity follows because every model function is a function: equal inputs give equal outputs
     (determinism of each hardware operation is in the trusted base).  The trace counters (`nexpand`, `nreorth`) are inert
     (`c06_trace_counters_inert`).
  2b. … and for the numeric kernel record of the GENERAL family (`GenSolver.genKern`: `Arnoldi.init`, `Arnoldi.factorize_from`, the
     single/double-shift loop with `UpperHessenbergQR`/`DoubleShiftQR`, `compress_H/V`, `HessEigen`, complex convergence test and
     `V*y`; run bit for bit against `GenEigsSolver`/`GenEigsRealShiftSolver` by `drv_c02`/`drv_c06`) in `Proofs/C06Gen.lean`
     (`gen_respects`), giving the UNCONDITIONAL `c06_gen_init_total`, `c06_gen_history_independent`, `c06_gen_fresh_vs_reused`,
     `c06_gen_two_solvers_*`; and for `GenEigsComplexShiftSolver` (`GenSolver.computeCS`, whose `sort_ritzpair` prologue reads the
     basis, the Ritz vectors and the user's operator at a probe shift) `c06_gencs_init_total`, `c06_gencs_history_independent`
     (the operator at the probe shift is a fixed function there: that the solver leaves the INSTALLED shift alone is item 4).
     The stale-columns argument is proved for `Arnoldi.factorize_from` as well (`c06_gen_stale_basis_columns_harmless`,
     `c06_gen_factorize_writes_before_reads`, Proofs/C06GenStaleV.lean).
     The one place where the model is NOT a transliteration — `Arnoldi.init` zero-fills `V` while the C++ `resize()` keeps the stale
     columns >= 1 of a reused object — is closed by `c06_stale_basis_columns_harmless`: `factorize_from` writes every column
     before reading it, so the C++-faithful `init` and the model's give the identical object after the first factorization.
  3. Two solvers over one operator (`c06_two_solvers_one_op`): in any interleaving of calls on two solver objects built over the same
     operator value each object evolves as if the other did not exist, and the observed pair agrees with a fresh solver.
  4. Operator-side state (`Model/OpShift.lean`): the installed shift after any history of `init`/`compute` calls equals the
     constructor's for the real-shift classes (`c06_op_shift_real`) and for `GenEigsComplexShiftSolver` as the code is now
     (`c06_op_shift_complex`) UNCONDITIONALLY — converging or not, rejected rules, the user's operator throwing at ANY application
     including the root-selection probe (the probe loop's `catch (...)` handler re-installs the shift).  The two earlier versions of
     the code are refuted on the model: no restore at all (F3, `c06_op_shift_complex_old_refuted`) and restore on the normal path
     only (F3b, `c06_op_shift_complex_unguarded_refuted`).
  5. Structural facts regenerated from the headers on every run: every random generator is a non-static local seeded by a
     constant expression (`c06_seed_pure`), no variable with static storage, and the only `mutable` members are the scratch
     caches that are written before they are read (`c06_no_hidden_state`).
-/
import SpectraVerif.Proofs.OrchNonint
import SpectraVerif.Proofs.C06Herm
import SpectraVerif.Proofs.C06Gen
import SpectraVerif.Proofs.C06OpShift
import SpectraVerif.Proofs.C06StaleV
import SpectraVerif.Proofs.C06GenStaleV
import SpectraVerif.Properties.C05
import SpectraVerif.Gen.RandSites
import SpectraVerif.Gen.Footprint

namespace C06
open Orch

variable {φ ρ ε κ β τ ω : Type} (K : Kern φ ρ ε κ β τ ω) (c : Cfg) {R : φ → φ → Prop}

/-- what a caller can observe after `compute`: return value or exception, accessors, counters (and `info` on a normal return) -/
structure SameObs (nvecs : List Nat) (r1 r2 : CompRes φ ρ ε κ) : Prop where
  out : r1.out = r2.out
  eigenvalues : eigenvalues K c r1.st = eigenvalues K c r2.st
  eigenvectors : ∀ nvec ∈ nvecs, eigenvectors K c nvec r1.st = eigenvectors K c nvec r2.st
  niter : r1.st.niter = r2.st.niter
  nmatop : r1.st.nmatop = r2.st.nmatop
  info : ∀ r, r2.out = .ok r → r1.st.info = r2.st.info

/-- **init is total**: from ANY two states of one solver object (same constructor arguments), `init(v); compute(args)` is
    observationally identical. -/
theorem c06_init_total (hK : Respects K R) (s1 s2 : St φ ρ ε κ) (v0 : β) (sel : Int) (maxit : Nat) (tol : τ) (sorting : Int)
    (nvecs : List Nat) :
    (init K c v0 s1).2 = (init K c v0 s2).2 ∧
    SameObs K c nvecs (compute K c sel maxit tol sorting (init K c v0 s1).1) (compute K c sel maxit tol sorting (init K c v0 s2).1) := by
  obtain ⟨hs, he⟩ := init_sim K c hK v0 s1 s2
  obtain ⟨h1, h2, _, _, h5⟩ := compute_sim K c hK sel maxit tol sorting _ _ hs
  refine ⟨he, ⟨h2, ?_, ?_, h1.niter, h1.nmatop, h5⟩⟩
  · exact (accessors_sim K c hK _ _ h1 0).1
  · intro nvec _; exact (accessors_sim K c hK _ _ h1 nvec).2.1

/-- **fresh vs reused vs any history**: whatever sequences of `init`/`compute` calls (with any arguments, converging or not,
    throwing or not) were performed on two objects before, the observed `init(v); compute(args)` pair behaves identically. -/
theorem c06_history_independent (hK : Respects K R) (fac1 fac2 : φ) (hist1 hist2 : List (Call β τ))
    (v0 : β) (sel : Int) (maxit : Nat) (tol : τ) (sorting : Int) (nvecs : List Nat) :
    SameObs K c nvecs
      (compute K c sel maxit tol sorting (init K c v0 (run K c (construct fac1) hist1)).1)
      (compute K c sel maxit tol sorting (init K c v0 (run K c (construct fac2) hist2)).1) :=
  (c06_init_total K c hK _ _ v0 sel maxit tol sorting nvecs).2

/-- in particular a fresh solver and a reused one agree -/
theorem c06_fresh_vs_reused (hK : Respects K R) (fac0 : φ) (hist : List (Call β τ))
    (v0 : β) (sel : Int) (maxit : Nat) (tol : τ) (sorting : Int) (nvecs : List Nat) :
    SameObs K c nvecs
      (compute K c sel maxit tol sorting (init K c v0 (construct fac0)).1)
      (compute K c sel maxit tol sorting (init K c v0 (run K c (construct fac0) hist)).1) :=
  c06_history_independent K c hK fac0 fac0 [] hist v0 sel maxit tol sorting nvecs

/-- the hypothesis is satisfiable: kernels that ignore the old factorization object in `facInit` respect equality -/
example : Respects C05.toyK (fun a b => a = b) :=
  { facInit := fun _ _ _ => ⟨rfl, rfl, rfl⟩,
    factorize := fun _ _ _ _ h => by subst h; exact ⟨rfl, rfl, rfl⟩,
    facDim := fun _ _ h => by subst h; rfl,
    eig := fun _ _ h => by subst h; rfl,
    convTest := fun _ _ _ _ _ h => by subst h; rfl,
    restartFac := fun _ _ _ _ h => by subst h; exact ⟨rfl, rfl, rfl⟩,
    assemble := fun _ _ _ h => by subst h; rfl }

/--
  What does NOT hold (and is not claimed): `compute()` NOT preceded by `init()` depends on the earlier history (it continues the
  factorization it finds).  The property quantifies over histories *before* the observed `init(v); compute(args)` pair, which is
  exactly what `c06_history_independent` covers.
-/
theorem c06_scope_note : True := trivial

/-! ## the symmetric family: unconditional statements on the numeric kernel record -/

section herm
open Lin Arnoldi C06Footprint
variable {α : Type} [Add α] [Sub α] [Mul α] [Div α] [Neg α] [Sc α]
variable (op : Arnoldi.Op α) (c : Cfg) (eps23 : α) (back : α → α) (near0 eps : α)

/-- observations do not mention `facInit` -/
theorem c06_obs_ignores_facInit {φ ρ ε κ β τ ω : Type} (K : Kern φ ρ ε κ β τ ω) (g : β → φ → FacRes φ) (nvecs : List Nat)
    (r1 r2 : CompRes φ ρ ε κ) (h : SameObs (withFacInit K g) c nvecs r1 r2) : SameObs K c nvecs r1 r2 :=
  ⟨h.out, h.eigenvalues, h.eigenvectors, h.niter, h.nmatop, h.info⟩

/-- **init is total, symmetric family, no hypothesis on the kernels**: from ANY two states of solver objects with the same
    constructor arguments (`Wf`: the `const` members hold what the constructor put there; everything else — `V`, `H`, `f`, `beta`,
    `k`, Ritz data, flags, counters, `info` — is arbitrary, so torn states left by exceptions are included), `init(v)` throws the
    same or not at all, and then `compute(args)` is observationally identical: return value or exception, eigenvalues,
    eigenvectors, `num_iterations`, `num_operations`, `info`. -/
theorem c06_herm_init_total (s1 s2 : HSt α) (h1 : Wf c near0 eps s1) (h2 : Wf c near0 eps s2) (v0 : Vec α)
    (sel : Int) (maxit : Nat) (tol : α) (sorting : Int) (nvecs : List Nat) :
    (init (HermSolver.hermKern op c eps23 back) c v0 s1).2 = (init (HermSolver.hermKern op c eps23 back) c v0 s2).2 ∧
    ((init (HermSolver.hermKern op c eps23 back) c v0 s1).2 = none →
      SameObs (HermSolver.hermKern op c eps23 back) c nvecs
        (compute (HermSolver.hermKern op c eps23 back) c sel maxit tol sorting (init (HermSolver.hermKern op c eps23 back) c v0 s1).1)
        (compute (HermSolver.hermKern op c eps23 back) c sel maxit tol sorting (init (HermSolver.hermKern op c eps23 back) c v0 s2).1)) := by
  obtain ⟨he, hobs⟩ := c06_init_total (hermKernC op c eps23 back near0 eps) c (herm_respects op c eps23 back near0 eps)
    s1 s2 v0 sel maxit tol sorting nvecs
  obtain ⟨b1e, b1s⟩ := init_bridge op c eps23 back near0 eps v0 h1
  obtain ⟨b2e, b2s⟩ := init_bridge op c eps23 back near0 eps v0 h2
  have he' : (init (HermSolver.hermKern op c eps23 back) c v0 s1).2 = (init (HermSolver.hermKern op c eps23 back) c v0 s2).2 := by
    rw [← b1e, ← b2e]; exact he
  refine ⟨he', fun hn => ?_⟩
  have hn2 : (init (HermSolver.hermKern op c eps23 back) c v0 s2).2 = none := by rw [← he']; exact hn
  rw [b1s hn, b2s hn2] at hobs
  rw [hermKernC, compute_wfi, compute_wfi] at hobs
  exact c06_obs_ignores_facInit c _ _ nvecs _ _ hobs

/-- **fresh vs reused vs any history, symmetric family**: for every operator, every `(n, nev, ncv)`, every two histories of
    `init`/`compute` calls with any arguments (converging or not, rejected rules, rejected start vectors) on two solver objects, and
    every argument tuple, the observed `init(v); compute(args)` pair behaves identically. -/
theorem c06_herm_history_independent (hist1 hist2 : List (Call (Vec α) α)) (v0 : Vec α)
    (sel : Int) (maxit : Nat) (tol : α) (sorting : Int) (nvecs : List Nat) :
    (init (HermSolver.hermKern op c eps23 back) c v0
        (run (HermSolver.hermKern op c eps23 back) c (construct (State.mk0 c.n c.ncv near0 eps)) hist1)).2 =
    (init (HermSolver.hermKern op c eps23 back) c v0
        (run (HermSolver.hermKern op c eps23 back) c (construct (State.mk0 c.n c.ncv near0 eps)) hist2)).2 ∧
    ((init (HermSolver.hermKern op c eps23 back) c v0
        (run (HermSolver.hermKern op c eps23 back) c (construct (State.mk0 c.n c.ncv near0 eps)) hist1)).2 = none →
      SameObs (HermSolver.hermKern op c eps23 back) c nvecs
        (compute (HermSolver.hermKern op c eps23 back) c sel maxit tol sorting (init (HermSolver.hermKern op c eps23 back) c v0
          (run (HermSolver.hermKern op c eps23 back) c (construct (State.mk0 c.n c.ncv near0 eps)) hist1)).1)
        (compute (HermSolver.hermKern op c eps23 back) c sel maxit tol sorting (init (HermSolver.hermKern op c eps23 back) c v0
          (run (HermSolver.hermKern op c eps23 back) c (construct (State.mk0 c.n c.ncv near0 eps)) hist2)).1)) :=
  c06_herm_init_total op c eps23 back near0 eps _ _
    (run_wf op c eps23 back near0 eps hist1 (construct_wf c near0 eps))
    (run_wf op c eps23 back near0 eps hist2 (construct_wf c near0 eps)) v0 sel maxit tol sorting nvecs

/-- in particular a fresh solver and a reused one agree -/
theorem c06_herm_fresh_vs_reused (hist : List (Call (Vec α) α)) (v0 : Vec α)
    (sel : Int) (maxit : Nat) (tol : α) (sorting : Int) (nvecs : List Nat)
    (hacc : (init (HermSolver.hermKern op c eps23 back) c v0 (construct (State.mk0 c.n c.ncv near0 eps))).2 = none) :
    SameObs (HermSolver.hermKern op c eps23 back) c nvecs
      (compute (HermSolver.hermKern op c eps23 back) c sel maxit tol sorting
        (init (HermSolver.hermKern op c eps23 back) c v0 (construct (State.mk0 c.n c.ncv near0 eps))).1)
      (compute (HermSolver.hermKern op c eps23 back) c sel maxit tol sorting (init (HermSolver.hermKern op c eps23 back) c v0
        (run (HermSolver.hermKern op c eps23 back) c (construct (State.mk0 c.n c.ncv near0 eps)) hist)).1) :=
  (c06_herm_history_independent op c eps23 back near0 eps [] hist v0 sel maxit tol sorting nvecs).2 hacc

/-- the model-side trace counters (`nexpand`, `nreorth`; they exist only for the correspondence check) influence nothing -/
theorem c06_trace_counters_inert (s : HSt α) (h : Wf c near0 eps s) (a b : Nat)
    (sel : Int) (maxit : Nat) (tol : α) (sorting : Int) (nvecs : List Nat) :
    SameObs (HermSolver.hermKern op c eps23 back) c nvecs
      (compute (HermSolver.hermKern op c eps23 back) c sel maxit tol sorting s)
      (compute (HermSolver.hermKern op c eps23 back) c sel maxit tol sorting { s with fac := { s.fac with nexpand := a, nreorth := b } }) := by
  have hsim : SimSt (Live c.n c.ncv near0 eps) s { s with fac := { s.fac with nexpand := a, nreorth := b } } :=
    ⟨⟨h, h, rfl⟩, rfl, rfl, rfl, rfl, rfl, rfl⟩
  obtain ⟨q1, q2, _, _, q5⟩ := compute_sim (hermKernC op c eps23 back near0 eps) c (herm_respects op c eps23 back near0 eps)
    sel maxit tol sorting _ _ hsim
  have hobs : SameObs (hermKernC op c eps23 back near0 eps) c nvecs _ _ :=
    ⟨q2, (accessors_sim _ c (herm_respects op c eps23 back near0 eps) _ _ q1 0).1,
      fun nvec _ => (accessors_sim _ c (herm_respects op c eps23 back near0 eps) _ _ q1 nvec).2.1, q1.niter, q1.nmatop, q5⟩
  rw [hermKernC, compute_wfi, compute_wfi] at hobs
  exact c06_obs_ignores_facInit c _ _ nvecs _ _ hobs

/-! ### two solvers sharing one operator -/

/-- a call on solver 1 (`false`) or solver 2 (`true`) -/
def step2 (p : HSt α × HSt α) (tc : Bool × Call (Vec α) α) : HSt α × HSt α :=
  if tc.1 then (p.1, step (HermSolver.hermKern op c eps23 back) c p.2 tc.2)
  else (step (HermSolver.hermKern op c eps23 back) c p.1 tc.2, p.2)

/-- any interleaving of calls on two solver objects built over the SAME operator value -/
def run2 (p : HSt α × HSt α) (h : List (Bool × Call (Vec α) α)) : HSt α × HSt α := h.foldl (step2 op c eps23 back) p

/-- each solver evolves exactly as if the other did not exist: the operator value is all they share and nothing writes it
    (the operator-side state, i.e. the installed shift, is the subject of `c06_op_shift_*`) -/
theorem c06_two_solvers_independent (h : List (Bool × Call (Vec α) α)) : ∀ (p : HSt α × HSt α),
    (run2 op c eps23 back p h).1 = run (HermSolver.hermKern op c eps23 back) c p.1 ((h.filter (fun tc => !tc.1)).map (·.2)) ∧
    (run2 op c eps23 back p h).2 = run (HermSolver.hermKern op c eps23 back) c p.2 ((h.filter (fun tc => tc.1)).map (·.2)) := by
  induction h with
  | nil => intro p; exact ⟨rfl, rfl⟩
  | cons tc h ih =>
    intro p
    obtain ⟨t, call⟩ := tc
    cases t with
    | false => exact ih (step (HermSolver.hermKern op c eps23 back) c p.1 call, p.2)
    | true => exact ih (p.1, step (HermSolver.hermKern op c eps23 back) c p.2 call)

/-- **a second solver sharing the operator**: after ANY interleaved history on two solver objects over the same operator, the
    observed `init(v); compute(args)` on either of them is observationally identical to the same pair on a fresh solver -/
theorem c06_two_solvers_one_op (h : List (Bool × Call (Vec α) α)) (which : Bool) (v0 : Vec α)
    (sel : Int) (maxit : Nat) (tol : α) (sorting : Int) (nvecs : List Nat)
    (hacc : (init (HermSolver.hermKern op c eps23 back) c v0 (construct (State.mk0 c.n c.ncv near0 eps))).2 = none) :
    SameObs (HermSolver.hermKern op c eps23 back) c nvecs
      (compute (HermSolver.hermKern op c eps23 back) c sel maxit tol sorting
        (init (HermSolver.hermKern op c eps23 back) c v0 (construct (State.mk0 c.n c.ncv near0 eps))).1)
      (compute (HermSolver.hermKern op c eps23 back) c sel maxit tol sorting (init (HermSolver.hermKern op c eps23 back) c v0
        (if which then (run2 op c eps23 back (construct (State.mk0 c.n c.ncv near0 eps), construct (State.mk0 c.n c.ncv near0 eps)) h).2
         else (run2 op c eps23 back (construct (State.mk0 c.n c.ncv near0 eps), construct (State.mk0 c.n c.ncv near0 eps)) h).1)).1) := by
  obtain ⟨e1, e2⟩ := c06_two_solvers_independent op c eps23 back h
    (construct (State.mk0 c.n c.ncv near0 eps), construct (State.mk0 c.n c.ncv near0 eps))
  cases which with
  | true => simp only [if_true]; rw [e2]; exact c06_herm_fresh_vs_reused op c eps23 back near0 eps _ v0 sel maxit tol sorting nvecs hacc
  | false =>
    simp only [Bool.false_eq_true, if_false]; rw [e1]
    exact c06_herm_fresh_vs_reused op c eps23 back near0 eps _ v0 sel maxit tol sorting nvecs hacc

end herm


/-! ## the general family: unconditional statements on the numeric kernel record -/

section gen
open Lin Arnoldi C06Footprint
variable {α : Type} [Add α] [Sub α] [Mul α] [Div α] [Neg α] [Sc α]
variable (op : Arnoldi.Op α) (c : Cfg) (eps23 : α) (back : GenSolver.Cx α → GenSolver.Cx α) (near0 eps : α)

/-- **init is total, general family (GenEigsSolver: `back = id`; GenEigsRealShiftSolver: `back = realShiftBack sigma`), no
    hypothesis on the kernels**: from ANY two states of solver objects with the same constructor arguments (`WfG`: the `const`
    members of the factorization object hold what the constructor put there; `V`, `H`, `f`, `beta`, `k`, complex Ritz data, flags,
    counters, `info` arbitrary — torn states left by exceptions included), `init(v)` throws the same or not at all, and then
    `compute(args)` is observationally identical: return value or exception, eigenvalues, eigenvectors, `num_iterations`,
    `num_operations`, `info`. -/
theorem c06_gen_init_total (s1 s2 : GSt α) (h1 : WfG c near0 eps s1) (h2 : WfG c near0 eps s2) (v0 : Vec α)
    (sel : Int) (maxit : Nat) (tol : α) (sorting : Int) (nvecs : List Nat) :
    (init (GenSolver.genKern op c eps23 back) c v0 s1).2 = (init (GenSolver.genKern op c eps23 back) c v0 s2).2 ∧
    ((init (GenSolver.genKern op c eps23 back) c v0 s1).2 = none →
      SameObs (GenSolver.genKern op c eps23 back) c nvecs
        (compute (GenSolver.genKern op c eps23 back) c sel maxit tol sorting (init (GenSolver.genKern op c eps23 back) c v0 s1).1)
        (compute (GenSolver.genKern op c eps23 back) c sel maxit tol sorting (init (GenSolver.genKern op c eps23 back) c v0 s2).1)) := by
  obtain ⟨he, hobs⟩ := c06_init_total (genKernC op c eps23 back near0 eps) c (gen_respects op c eps23 back near0 eps)
    s1 s2 v0 sel maxit tol sorting nvecs
  obtain ⟨b1e, b1s⟩ := gen_init_bridge op c eps23 back near0 eps v0 h1
  obtain ⟨b2e, b2s⟩ := gen_init_bridge op c eps23 back near0 eps v0 h2
  have he' : (init (GenSolver.genKern op c eps23 back) c v0 s1).2 = (init (GenSolver.genKern op c eps23 back) c v0 s2).2 := by
    rw [← b1e, ← b2e]; exact he
  refine ⟨he', fun hn => ?_⟩
  have hn2 : (init (GenSolver.genKern op c eps23 back) c v0 s2).2 = none := by rw [← he']; exact hn
  rw [b1s hn, b2s hn2] at hobs
  rw [genKernC, compute_wfi, compute_wfi] at hobs
  exact c06_obs_ignores_facInit c _ _ nvecs _ _ hobs

/-- **fresh vs reused vs any history, general family**: for every operator, every `(n, nev, ncv)`, every two histories of
    `init`/`compute` calls with any arguments (converging or not, rejected rules, rejected start vectors, failed Schur
    decompositions) on two solver objects, and every argument tuple, the observed `init(v); compute(args)` pair behaves identically. -/
theorem c06_gen_history_independent (hist1 hist2 : List (Call (Vec α) α)) (v0 : Vec α)
    (sel : Int) (maxit : Nat) (tol : α) (sorting : Int) (nvecs : List Nat) :
    (init (GenSolver.genKern op c eps23 back) c v0
        (run (GenSolver.genKern op c eps23 back) c (construct (State.mk0 c.n c.ncv near0 eps)) hist1)).2 =
    (init (GenSolver.genKern op c eps23 back) c v0
        (run (GenSolver.genKern op c eps23 back) c (construct (State.mk0 c.n c.ncv near0 eps)) hist2)).2 ∧
    ((init (GenSolver.genKern op c eps23 back) c v0
        (run (GenSolver.genKern op c eps23 back) c (construct (State.mk0 c.n c.ncv near0 eps)) hist1)).2 = none →
      SameObs (GenSolver.genKern op c eps23 back) c nvecs
        (compute (GenSolver.genKern op c eps23 back) c sel maxit tol sorting (init (GenSolver.genKern op c eps23 back) c v0
          (run (GenSolver.genKern op c eps23 back) c (construct (State.mk0 c.n c.ncv near0 eps)) hist1)).1)
        (compute (GenSolver.genKern op c eps23 back) c sel maxit tol sorting (init (GenSolver.genKern op c eps23 back) c v0
          (run (GenSolver.genKern op c eps23 back) c (construct (State.mk0 c.n c.ncv near0 eps)) hist2)).1)) :=
  c06_gen_init_total op c eps23 back near0 eps _ _
    (gen_run_wf op c eps23 back near0 eps hist1 (gen_construct_wf c near0 eps))
    (gen_run_wf op c eps23 back near0 eps hist2 (gen_construct_wf c near0 eps)) v0 sel maxit tol sorting nvecs

/-- in particular a fresh solver and a reused one agree -/
theorem c06_gen_fresh_vs_reused (hist : List (Call (Vec α) α)) (v0 : Vec α)
    (sel : Int) (maxit : Nat) (tol : α) (sorting : Int) (nvecs : List Nat)
    (hacc : (init (GenSolver.genKern op c eps23 back) c v0 (construct (State.mk0 c.n c.ncv near0 eps))).2 = none) :
    SameObs (GenSolver.genKern op c eps23 back) c nvecs
      (compute (GenSolver.genKern op c eps23 back) c sel maxit tol sorting
        (init (GenSolver.genKern op c eps23 back) c v0 (construct (State.mk0 c.n c.ncv near0 eps))).1)
      (compute (GenSolver.genKern op c eps23 back) c sel maxit tol sorting (init (GenSolver.genKern op c eps23 back) c v0
        (run (GenSolver.genKern op c eps23 back) c (construct (State.mk0 c.n c.ncv near0 eps)) hist)).1) :=
  (c06_gen_history_independent op c eps23 back near0 eps [] hist v0 sel maxit tol sorting nvecs).2 hacc

/-- a call on solver 1 (`false`) or solver 2 (`true`) -/
def gstep2 (p : GSt α × GSt α) (tc : Bool × Call (Vec α) α) : GSt α × GSt α :=
  if tc.1 then (p.1, step (GenSolver.genKern op c eps23 back) c p.2 tc.2)
  else (step (GenSolver.genKern op c eps23 back) c p.1 tc.2, p.2)

/-- any interleaving of calls on two solver objects built over the SAME operator value -/
def grun2 (p : GSt α × GSt α) (h : List (Bool × Call (Vec α) α)) : GSt α × GSt α := h.foldl (gstep2 op c eps23 back) p

/-- each solver evolves exactly as if the other did not exist -/
theorem c06_gen_two_solvers_independent (h : List (Bool × Call (Vec α) α)) : ∀ (p : GSt α × GSt α),
    (grun2 op c eps23 back p h).1 = run (GenSolver.genKern op c eps23 back) c p.1 ((h.filter (fun tc => !tc.1)).map (·.2)) ∧
    (grun2 op c eps23 back p h).2 = run (GenSolver.genKern op c eps23 back) c p.2 ((h.filter (fun tc => tc.1)).map (·.2)) := by
  induction h with
  | nil => intro p; exact ⟨rfl, rfl⟩
  | cons tc h ih =>
    intro p
    obtain ⟨t, call⟩ := tc
    cases t with
    | false => exact ih (step (GenSolver.genKern op c eps23 back) c p.1 call, p.2)
    | true => exact ih (p.1, step (GenSolver.genKern op c eps23 back) c p.2 call)

/-- **a second solver sharing the operator, general family**: after ANY interleaved history on two solver objects over the same
    operator, the observed `init(v); compute(args)` on either of them is observationally identical to the same pair on a fresh
    solver -/
theorem c06_gen_two_solvers_one_op (h : List (Bool × Call (Vec α) α)) (which : Bool) (v0 : Vec α)
    (sel : Int) (maxit : Nat) (tol : α) (sorting : Int) (nvecs : List Nat)
    (hacc : (init (GenSolver.genKern op c eps23 back) c v0 (construct (State.mk0 c.n c.ncv near0 eps))).2 = none) :
    SameObs (GenSolver.genKern op c eps23 back) c nvecs
      (compute (GenSolver.genKern op c eps23 back) c sel maxit tol sorting
        (init (GenSolver.genKern op c eps23 back) c v0 (construct (State.mk0 c.n c.ncv near0 eps))).1)
      (compute (GenSolver.genKern op c eps23 back) c sel maxit tol sorting (init (GenSolver.genKern op c eps23 back) c v0
        (if which then (grun2 op c eps23 back (construct (State.mk0 c.n c.ncv near0 eps), construct (State.mk0 c.n c.ncv near0 eps)) h).2
         else (grun2 op c eps23 back (construct (State.mk0 c.n c.ncv near0 eps), construct (State.mk0 c.n c.ncv near0 eps)) h).1)).1) := by
  obtain ⟨e1, e2⟩ := c06_gen_two_solvers_independent op c eps23 back h
    (construct (State.mk0 c.n c.ncv near0 eps), construct (State.mk0 c.n c.ncv near0 eps))
  cases which with
  | true => simp only [if_true]; rw [e2]; exact c06_gen_fresh_vs_reused op c eps23 back near0 eps _ v0 sel maxit tol sorting nvecs hacc
  | false =>
    simp only [Bool.false_eq_true, if_false]; rw [e1]
    exact c06_gen_fresh_vs_reused op c eps23 back near0 eps _ v0 sel maxit tol sorting nvecs hacc

/-! ### GenEigsComplexShiftSolver (`GenSolver.computeCS`) -/

variable (probe : Vec α → Vec α) (sigmar sigmai : α)

/-- **init is total, complex-shift class**: `compute` is `GenSolver.computeCS` — `Orch.compute` with the state-dependent prologue of
    `GenEigsComplexShiftSolver::sort_ritzpair` (probe shift, two roots per Ritz value, root selection by the residual of the
    operator `probe` at the probe shift on `V * y`, conjugate-pair loop).  From ANY two well-formed object states `init(v)` throws
    the same or not at all, and then `compute(args)` is observationally identical. -/
theorem c06_gencs_init_total (s1 s2 : GSt α) (h1 : WfG c near0 eps s1) (h2 : WfG c near0 eps s2) (v0 : Vec α)
    (sel : Int) (maxit : Nat) (tol : α) (sorting : Int) (nvecs : List Nat) :
    (init (GenSolver.genKern op c eps23 id) c v0 s1).2 = (init (GenSolver.genKern op c eps23 id) c v0 s2).2 ∧
    ((init (GenSolver.genKern op c eps23 id) c v0 s1).2 = none →
      SameObs (GenSolver.genKern op c eps23 id) c nvecs
        (GenSolver.computeCS op probe c eps23 sigmar sigmai sel maxit tol sorting (init (GenSolver.genKern op c eps23 id) c v0 s1).1)
        (GenSolver.computeCS op probe c eps23 sigmar sigmai sel maxit tol sorting (init (GenSolver.genKern op c eps23 id) c v0 s2).1)) := by
  obtain ⟨hs, he⟩ := init_sim (genKernC op c eps23 id near0 eps) c (gen_respects op c eps23 id near0 eps) v0 s1 s2
  obtain ⟨b1e, b1s⟩ := gen_init_bridge op c eps23 id near0 eps v0 h1
  obtain ⟨b2e, b2s⟩ := gen_init_bridge op c eps23 id near0 eps v0 h2
  have he' : (init (GenSolver.genKern op c eps23 id) c v0 s1).2 = (init (GenSolver.genKern op c eps23 id) c v0 s2).2 := by
    rw [← b1e, ← b2e]; exact he
  refine ⟨he', fun hn => ?_⟩
  have hn2 : (init (GenSolver.genKern op c eps23 id) c v0 s2).2 = none := by rw [← he']; exact hn
  rw [b1s hn, b2s hn2] at hs
  obtain ⟨q1, q2, q5⟩ := computeCS_sim op probe c eps23 sigmar sigmai near0 eps sel maxit tol sorting _ _ hs
  have hobs : SameObs (genKernC op c eps23 id near0 eps) c nvecs
      (GenSolver.computeCS op probe c eps23 sigmar sigmai sel maxit tol sorting (init (GenSolver.genKern op c eps23 id) c v0 s1).1)
      (GenSolver.computeCS op probe c eps23 sigmar sigmai sel maxit tol sorting (init (GenSolver.genKern op c eps23 id) c v0 s2).1) :=
    ⟨q2, (accessors_sim _ c (gen_respects op c eps23 id near0 eps) _ _ q1 0).1,
      fun nvec _ => (accessors_sim _ c (gen_respects op c eps23 id near0 eps) _ _ q1 nvec).2.1, q1.niter, q1.nmatop, q5⟩
  exact c06_obs_ignores_facInit c _ _ nvecs _ _ hobs

/-- **fresh vs reused vs any history, complex-shift class** (histories of `init` / `computeCS` calls) -/
theorem c06_gencs_history_independent (hist1 hist2 : List (Call (Vec α) α)) (v0 : Vec α)
    (sel : Int) (maxit : Nat) (tol : α) (sorting : Int) (nvecs : List Nat)
    (hacc : (init (GenSolver.genKern op c eps23 id) c v0
      (runCS op probe c eps23 sigmar sigmai (construct (State.mk0 c.n c.ncv near0 eps)) hist1)).2 = none) :
    SameObs (GenSolver.genKern op c eps23 id) c nvecs
      (GenSolver.computeCS op probe c eps23 sigmar sigmai sel maxit tol sorting (init (GenSolver.genKern op c eps23 id) c v0
        (runCS op probe c eps23 sigmar sigmai (construct (State.mk0 c.n c.ncv near0 eps)) hist1)).1)
      (GenSolver.computeCS op probe c eps23 sigmar sigmai sel maxit tol sorting (init (GenSolver.genKern op c eps23 id) c v0
        (runCS op probe c eps23 sigmar sigmai (construct (State.mk0 c.n c.ncv near0 eps)) hist2)).1) :=
  (c06_gencs_init_total op c eps23 near0 eps probe sigmar sigmai _ _
    (runCS_wf op probe c eps23 sigmar sigmai near0 eps hist1 (gen_construct_wf c near0 eps))
    (runCS_wf op probe c eps23 sigmar sigmai near0 eps hist2 (gen_construct_wf c near0 eps)) v0 sel maxit tol sorting nvecs).2 hacc

end gen

/-- the hypotheses are satisfiable at the executable instance of the general family: a freshly constructed `Float` object is well formed -/
example (n nev ncv : Nat) (near0 eps : Float) :
    C06Footprint.WfG ⟨n, nev, ncv⟩ near0 eps (construct (Arnoldi.State.mk0 n ncv near0 eps) : C06Footprint.GSt Float) := rfl

/-! ### the stale columns of a reused basis matrix -/

section stale
open Lin Arnoldi C06StaleV C08Mat
variable {α : Type} [Add α] [Sub α] [Mul α] [Div α] [Neg α] [Sc α]

/-- **column i of V is written before it is read.**  `m_fac_V.resize(m_n, m_m)` in `Arnoldi::init` keeps the old contents of an
    already allocated matrix, so on a reused solver columns `1 .. ncv-1` hold what the previous run left (`initKeepV`), whereas the
    model's `Arnoldi.init` starts from zeros.  For EVERY old matrix of the right shape, every operator that returns vectors of the
    problem dimension and every start vector, the first factorization of `compute()` — `factorize_from(1, ncv)` — produces
    exactly the same object from both: all `ncv` columns are overwritten before anything reads them.  After that step no datum of
    the object's earlier history is left anywhere in the factorization. -/
theorem c06_stale_basis_columns_harmless (op : Arnoldi.Op α) (s : State α) (v0 : Vec α) (hw : WF s.V) (hr : s.V.rows = s.n)
    (hc : s.V.cols = s.m) (hm : 1 ≤ s.m) (hop : OpWF op s.n) :
    (initKeepV op s v0).bind (fun s' => Lanczos.factorize_from op s' 1 s.m) =
    (Arnoldi.init op s v0).bind (fun s' => Lanczos.factorize_from op s' 1 s.m) :=
  init_stale_columns_harmless op s v0 hw hr hc hm hop

/-- more generally `factorize_from(from_k, ncv)` ignores (and overwrites) the columns `>= from_k` -/
theorem c06_factorize_writes_before_reads (op : Arnoldi.Op α) (s : State α) (B : Mat α) (from_k : Nat) (h : AgreeCols from_k s.V B)
    (hn : s.n ≤ s.V.rows) (hop : OpWF op s.V.rows) :
    Lanczos.factorize_from op { s with V := B } from_k s.V.cols = Lanczos.factorize_from op s from_k s.V.cols :=
  factorize_overwrites op s B from_k h hn hop

/-- **the same for the general family** (`Arnoldi::factorize_from`, which `GenEigsBase::compute()` calls): `V.col(i) = f / beta` is
    assigned before `expand_basis` (reads `leftCols(i)`), the Gram–Schmidt step and the re-orthogonalisation (read
    `leftCols(i + 1)`) see it, so for EVERY old matrix of the right shape the C++-faithful `init` (stale columns `>= 1` kept) and
    the model's zero-filling `Arnoldi.init` give the identical object after the first factorization: `c06_gen_*` speak about the
    code as it is -/
theorem c06_gen_stale_basis_columns_harmless (op : Arnoldi.Op α) (s : State α) (v0 : Vec α) (hw : WF s.V) (hr : s.V.rows = s.n)
    (hc : s.V.cols = s.m) (hm : 1 ≤ s.m) (hop : OpWF op s.n) :
    (initKeepV op s v0).bind (fun s' => Arnoldi.factorize_from op s' 1 s.m) =
    (Arnoldi.init op s v0).bind (fun s' => Arnoldi.factorize_from op s' 1 s.m) :=
  arnoldi_init_stale_columns_harmless op s v0 hw hr hc hm hop

/-- `Arnoldi::factorize_from(from_k, ncv)` ignores (and overwrites) the columns `>= from_k` -/
theorem c06_gen_factorize_writes_before_reads (op : Arnoldi.Op α) (s : State α) (B : Mat α) (from_k : Nat) (h : AgreeCols from_k s.V B)
    (hop : OpWF op s.V.rows) :
    Arnoldi.factorize_from op { s with V := B } from_k s.V.cols = Arnoldi.factorize_from op s from_k s.V.cols :=
  arnoldi_factorize_overwrites op s B from_k h hop

/-- **rows/columns of H at or beyond `from_k` are zeroed before anything reads them**: both factorizations start with
    `m_fac_H.rightCols(m - from_k).setZero(); m_fac_H.block(from_k, 0, m - from_k, from_k).setZero()`, so only the leading
    `from_k x from_k` block of the `H` they find matters (this is why dropping `m_fac_H.setZero()` from `Arnoldi::init` changes
    nothing observable: after `init`, `from_k = 1` and `H(0,0)` is assigned) -/
theorem c06_factorize_zeroes_H_first (op : Arnoldi.Op α) (s : State α) (H' : Mat α) (from_k to_m : Nat)
    (h : keepTopLeft H' from_k = keepTopLeft s.H from_k) :
    Lanczos.factorize_from op { s with H := H' } from_k to_m = (Lanczos.factorize_from op s from_k to_m).map (fun r => if to_m ≤ from_k then { r with H := H' } else r) ∧
    Arnoldi.factorize_from op { s with H := H' } from_k to_m = (Arnoldi.factorize_from op s from_k to_m).map (fun r => if to_m ≤ from_k then { r with H := H' } else r) := by
  constructor
  · unfold Lanczos.factorize_from
    dsimp only
    split
    · simp
    · split
      · rfl
      · rw [h]; simp [*]
  · unfold Arnoldi.factorize_from
    dsimp only
    split
    · simp
    · split
      · rfl
      · rw [h]; simp [*]

/-- the hypotheses are satisfiable: the harness's explicit row-major operator returns vectors of length `n`, and a constructed
    object has a well-formed `n x m` basis matrix -/
example (n : Nat) (a : Array Float) : OpWF ({ n := n, A := Arnoldi.rowMajorOp n a, B := none } : Arnoldi.Op Float) n :=
  ⟨rfl, fun _ => size_vofFn _ _⟩
example (n m : Nat) (near0 eps : Float) : WF (State.mk0 n m near0 eps).V ∧ (State.mk0 n m near0 eps).V.rows = n ∧
    (State.mk0 n m near0 eps).V.cols = m := ⟨zeros_WF _ _, rfl, rfl⟩

end stale

/-- the hypotheses are satisfiable at the executable instance: a freshly constructed `Float` solver object is well formed -/
example (n nev ncv : Nat) (near0 eps : Float) :
    C06Footprint.Wf ⟨n, nev, ncv⟩ near0 eps (construct (Arnoldi.State.mk0 n ncv near0 eps) : C06Footprint.HSt Float) := rfl

/-! ## operator-side state: the installed shift -/

section opshift
open OpShift
variable {σ : Type}

/-- a public call of a real-shift class (`SymEigsShiftSolver`, `GenEigsRealShiftSolver`, `SymGEigsShiftSolver`): operator
    applications only, the user's operator may throw at any of them -/
def RealCall (ce : CallEv σ) : Prop := NoSet ce.evs

/-- **real-shift classes**: `set_shift` is called in the constructor and nowhere else, so after `construct` and ANY history of
    `init`/`compute` calls — converging or not, throwing at any operator application or not — the installed shift is the
    constructor's, whatever was installed in the operator before. -/
theorem c06_op_shift_real (sigma old : σ) (hist : List (CallEv σ)) (h : ∀ ce ∈ hist, RealCall ce) :
    runCalls (⟨ctor sigma, none⟩ :: hist) old = sigma := by
  rw [runCalls_cons]
  show runCalls hist sigma = sigma
  induction hist with
  | nil => rfl
  | cons ce hist ih =>
    rw [runCalls_cons, exec_noSet _ _ _ (h ce (List.mem_cons_self))]
    exact ih (fun ce' hm => h ce' (List.mem_cons_of_mem _ hm))

/-- a public call of `GenEigsComplexShiftSolver` (code as it is now): operator applications only (`init`, or a `compute` whose
    events are not further described), or a `compute` — with the user's operator throwing anywhere or nowhere -/
def ComplexCall (sigma : σ) (ce : CallEv σ) : Prop :=
  NoSet ce.evs ∨ ∃ probe nIter nProbe rs, ce.evs = computeComplex sigma probe nIter nProbe rs

/-- one `compute()` of `GenEigsComplexShiftSolver` entered with the constructor's shift installed leaves it installed on EVERY
    path: normal return (any iteration count, any number of probes), exception of the iteration before `sort_ritzpair`
    (`rs = false`), unsupported sorting rule (thrown by the base class AFTER the restore), user's operator throwing during the
    iteration, and user's operator throwing during the root-selection probe (the `catch (...)` handler re-installs it) -/
theorem c06_op_shift_complex_compute (sigma probe : σ) (nIter nProbe : Nat) (rs : Bool) (th : Option Nat) :
    (exec (computeComplex sigma probe nIter nProbe rs) th sigma).1 = sigma := by
  rw [exec_computeComplex]
  split <;> rfl

/-- **complex-shift class, as the code is now**: after `construct` and any history of calls the installed shift is the
    constructor's -/
theorem c06_op_shift_complex (sigma old : σ) (hist : List (CallEv σ)) (h : ∀ ce ∈ hist, ComplexCall sigma ce) :
    runCalls (⟨ctor sigma, none⟩ :: hist) old = sigma := by
  rw [runCalls_cons]
  show runCalls hist sigma = sigma
  induction hist with
  | nil => rfl
  | cons ce hist ih =>
    rw [runCalls_cons]
    have hstep : (exec ce.evs ce.throwAt sigma).1 = sigma := by
      rcases h ce (List.mem_cons_self) with hn | ⟨probe, nIter, nProbe, rs, he⟩
      · exact exec_noSet _ _ _ hn
      · rw [he]; exact c06_op_shift_complex_compute sigma probe nIter nProbe rs _
    rw [hstep]
    exact ih (fun ce' hm => h ce' (List.mem_cons_of_mem _ hm))

/-- in particular a throw of the user's operator inside the probe now leaves the constructor's shift installed -/
theorem c06_op_shift_complex_throw_in_probe (sigma probe : σ) (nIter nProbe k : Nat) (_h1 : nIter ≤ k) (_h2 : k < nIter + nProbe) :
    (exec (computeComplex sigma probe nIter nProbe true) (some k) sigma).1 = sigma :=
  c06_op_shift_complex_compute sigma probe nIter nProbe true (some k)

/-- F3b (repaired in /repo: probe loop wrapped in `try { … } catch (...) { set_shift(sigmar, sigmai); throw; }`): the code BEFORE
    that repair — restore on the normal path only — violates the property on the model whenever the user's operator throws during
    one of the probe applications: the probe shift stays installed, for every shift, probe and count -/
theorem c06_op_shift_complex_unguarded_refuted (sigma probe old : σ) (nInit nIter nProbe k : Nat) (hne : probe ≠ sigma)
    (h1 : nIter ≤ k) (h2 : k < nIter + nProbe) :
    runCalls [⟨ctor sigma, none⟩, ⟨initEv nInit, none⟩, ⟨computeComplexUnguarded sigma probe nIter nProbe true, some k⟩] old ≠ sigma := by
  rw [runCalls_cons, runCalls_cons, runCalls_cons]
  show (exec (computeComplexUnguarded sigma probe nIter nProbe true) (some k) (exec (initEv nInit) none sigma).1).1 ≠ sigma
  rw [exec_computeComplexUnguarded_inProbe sigma probe nIter nProbe k _ h1 h2]
  exact hne

example : (runCalls [⟨ctor (3 : Nat), none⟩, ⟨initEv 2, none⟩, ⟨computeComplexUnguarded 3 7 20 4 true, some 22⟩] 0) = 7 ∧ (7 : Nat) ≠ 3 := by
  decide

/-- F3 (repaired in /repo, commit ddaf8d1): the code BEFORE the repair violates the property on the model — one converged
    `compute()` leaves the probe shift installed -/
example : (runCalls [⟨ctor (3 : Nat), none⟩, ⟨initEv 2, none⟩, ⟨computeComplexOld 7 20 4 true, none⟩] 0) = 7 ∧ (7 : Nat) ≠ 3 := by
  decide

/-- … for every shift, probe and count, not just this witness -/
theorem c06_op_shift_complex_old_refuted (sigma probe old : σ) (nInit nIter nProbe : Nat) (hne : probe ≠ sigma) :
    runCalls [⟨ctor sigma, none⟩, ⟨initEv nInit, none⟩, ⟨computeComplexOld probe nIter nProbe true, none⟩] old ≠ sigma := by
  rw [runCalls_cons, runCalls_cons, runCalls_cons]
  show (exec (computeComplexOld probe nIter nProbe true) none (exec (initEv nInit) none sigma).1).1 ≠ sigma
  rw [exec_computeComplexOld_none]
  exact hne

/-- the hypotheses are satisfiable: a history with a non-converging run, a run whose operator throws in the iteration, one whose
    operator throws inside the probe, and an ordinary run -/
example : ∀ ce ∈ [(⟨initEv 2, none⟩ : CallEv Nat), ⟨computeComplex 3 7 11 0 false, none⟩, ⟨computeComplex 3 7 40 6 true, some 5⟩,
    ⟨initEv 2, some 1⟩, ⟨computeComplex 3 7 25 4 true, some 27⟩, ⟨computeComplex 3 7 25 4 true, none⟩], ComplexCall 3 ce := by
  intro ce hm
  simp only [List.mem_cons, List.not_mem_nil, or_false] at hm
  rcases hm with rfl | rfl | rfl | rfl | rfl | rfl
  · exact Or.inl (noSet_applications 2)
  · exact Or.inr ⟨7, 11, 0, false, rfl⟩
  · exact Or.inr ⟨7, 40, 6, true, rfl⟩
  · exact Or.inl (noSet_applications 2)
  · exact Or.inr ⟨7, 25, 4, true, rfl⟩
  · exact Or.inr ⟨7, 25, 4, true, rfl⟩

end opshift

/-! ## structural facts regenerated from the headers -/

/-- every random generator of the library is a function-local object WITHOUT static/thread storage, seeded by the constant `0` or by
    `seed + 123 * iter` (with `seed = 2 * i` from the factorization loops): default start vectors, restart vectors and the probe
    shift are functions of `(n, i, iter)` resp. of `sigmar` alone and cannot carry anything from one run to the next
    (the generator itself is C19) -/
theorem c06_seed_pure : ∀ s ∈ Gen.RandSites.sites, s.2.1 = false ∧ (s.2.2 = "0" ∨ s.2.2 = "seed + 123 * iter") := by decide

/-- no variable with static storage anywhere in the library — not even a `const` one (a function-local `static const` with a
    run-time initialiser is frozen to the values of the FIRST object that reaches it: hidden state across solvers) —, and the `mutable` data members are exactly the scratch caches of the
    operator adaptors (each is assigned in full before it is read inside one `perform_op`/`inner_product` call) and the CG status
    of `SparseRegularInverse`: a new `mutable` member (a call counter, a cached vector) changes the regenerated list and breaks this -/
theorem c06_no_hidden_state :
    Gen.Footprint.statics = [] ∧ Gen.Footprint.const_statics = [] ∧
    Gen.Footprint.mutable_members = [("ArnoldiOp", "m_cache"), ("DenseGenComplexShiftSolve", "m_x_cache"), ("SVDTallMatOp", "m_cache"),
      ("SVDWideMatOp", "m_cache"), ("SparseGenComplexShiftSolve", "m_x_cache"), ("SparseRegularInverse", "m_info"),
      ("SymGEigsBucklingOp", "m_cache"), ("SymGEigsCayleyOp", "m_cache"), ("SymGEigsCholeskyOp", "m_cache"),
      ("SymGEigsRegInvOp", "m_cache"), ("SymGEigsShiftInvertOp", "m_cache")] := by
  refine ⟨rfl, rfl, rfl⟩

/-- **Nothing but the operator and the matrix is held by reference.**  `Gen.Footprint.handle_members` lists, for EVERY class of
    the library (regenerated from the clang AST on every run), each data member that does not own its value: raw references and
    pointers, Eigen `Ref`/`Map` handles (the `ConstGeneric*` aliases), `reference_wrapper`, smart pointers, `std::function`.
    Every one of them is the user's operator / B-operator (`m_op`, `m_Bop`, `m_matrix_operator`), the user's matrix seen by a
    product or solve wrapper (`m_mat`, `m_matA`, `m_matB`), the SVD solver's owning pointers to its own operator and inner solver,
    or the array pointer of the transient `SortEigenvalue` object.  In particular NO argument of a constructor other than the
    operator/matrix — shift, sizes, tolerances — is kept by reference: the values `compute()` uses are the ones the constructor
    received, whatever the caller does with its variables afterwards (the hidden dependency a `const Scalar& m_sigma` member would
    create breaks this theorem). -/
theorem c06_only_documented_handles :
    ∀ h ∈ Gen.Footprint.handle_members,
      h.2.1 ∈ ["m_op", "m_Bop", "m_mat", "m_matA", "m_matB", "m_matrix_operator"] ∨
      (h.1, h.2.1) ∈ [("PartialSVDSolver", "m_eigs"), ("PartialSVDSolver", "m_op"), ("SortEigenvalue", "m_evals")] := by decide

end C06
