/-
  C06 — results depend only on the arguments; reruns are bit-identical; the operator is left untouched.

  Orchestration level (this file, all kernels, all states, all histories): `init(v)` followed by `compute(args)` gives the same
  outcome, eigenvalues, eigenvectors, iteration count and operation count from ANY two object states — a freshly constructed
  solver, one reused after any history (including runs that did not converge or threw), or a second solver — provided the kernels
  read only the part of the factorization object that the factorization's own `init` rebuilds (`Orch.Respects K R`; discharged for
  the concrete Lanczos/Arnoldi models in `Proofs/FacFootprint*.lean` as far as they are built, and otherwise validated by the
  bit-level correspondence on reused objects).  Bit-identity follows because every model function is a function: equal inputs give
  equal outputs (determinism of each hardware operation is in the trusted base).

  Seed purity of the default start vector / restart vectors is `c19_*` (C19) on the source-translated generator.
  The "operator left untouched" clause is about operator-side state (the shift installed at construction); it is decided by the
  operator-state model and correspondence in the C06 check, see `c06_op_*` below once the complex-shift model exists.
-/
import SpectraVerif.Proofs.OrchNonint
import SpectraVerif.Properties.C05

namespace C06
open Orch

variable {φ ρ ε κ β τ ω : Type} (K : Kern φ ρ ε κ β τ ω) (c : Cfg) {R : φ → φ → Prop}

/-- what a caller can observe after `compute`: return value or exception, accessors, counters (and `info` on a normal return) -/
structure SameObs (nvecs : List Nat) (r1 r2 : CompRes φ ρ ε κ) : Prop where
  out : r1.out = r2.out
  eigenvalues : eigenvalues K c r1.st = eigenvalues K c r2.st
  eigenvectors : ∀ nvec ∈ nvecs, eigenvectors K c nvec r1.st = eigenvectors K c nvec r2.st
  niter : r1.st.niter = r2.st.niter
  nmatop : r1.st.nmatop = r2.st.nmatop
  info : ∀ r, r2.out = .ok r → r1.st.info = r2.st.info

/-- **init is total**: from ANY two states of one solver object (same constructor arguments), `init(v); compute(args)` is
    observationally identical. -/
theorem c06_init_total (hK : Respects K R) (s1 s2 : St φ ρ ε κ) (v0 : β) (sel : Int) (maxit : Nat) (tol : τ) (sorting : Int)
    (nvecs : List Nat) :
    (init K c v0 s1).2 = (init K c v0 s2).2 ∧
    SameObs K c nvecs (compute K c sel maxit tol sorting (init K c v0 s1).1) (compute K c sel maxit tol sorting (init K c v0 s2).1) := by
  obtain ⟨hs, he⟩ := init_sim K c hK v0 s1 s2
  obtain ⟨h1, h2, _, _, h5⟩ := compute_sim K c hK sel maxit tol sorting _ _ hs
  refine ⟨he, ⟨h2, ?_, ?_, h1.niter, h1.nmatop, h5⟩⟩
  · exact (accessors_sim K c hK _ _ h1 0).1
  · intro nvec _; exact (accessors_sim K c hK _ _ h1 nvec).2.1

/-- **fresh vs reused vs any history**: whatever sequences of `init`/`compute` calls (with any arguments, converging or not,
    throwing or not) were performed on two objects before, the observed `init(v); compute(args)` pair behaves identically. -/
theorem c06_history_independent (hK : Respects K R) (fac1 fac2 : φ) (hist1 hist2 : List (Call β τ))
    (v0 : β) (sel : Int) (maxit : Nat) (tol : τ) (sorting : Int) (nvecs : List Nat) :
    SameObs K c nvecs
      (compute K c sel maxit tol sorting (init K c v0 (run K c (construct fac1) hist1)).1)
      (compute K c sel maxit tol sorting (init K c v0 (run K c (construct fac2) hist2)).1) :=
  (c06_init_total K c hK _ _ v0 sel maxit tol sorting nvecs).2

/-- in particular a fresh solver and a reused one agree -/
theorem c06_fresh_vs_reused (hK : Respects K R) (fac0 : φ) (hist : List (Call β τ))
    (v0 : β) (sel : Int) (maxit : Nat) (tol : τ) (sorting : Int) (nvecs : List Nat) :
    SameObs K c nvecs
      (compute K c sel maxit tol sorting (init K c v0 (construct fac0)).1)
      (compute K c sel maxit tol sorting (init K c v0 (run K c (construct fac0) hist)).1) :=
  c06_history_independent K c hK fac0 fac0 [] hist v0 sel maxit tol sorting nvecs

/-- the hypothesis is satisfiable: kernels that ignore the old factorization object in `facInit` respect equality -/
example : Respects C05.toyK (fun a b => a = b) :=
  { facInit := fun _ _ _ => ⟨rfl, rfl, rfl⟩,
    factorize := fun _ _ _ _ h => by subst h; exact ⟨rfl, rfl, rfl⟩,
    facDim := fun _ _ h => by subst h; rfl,
    eig := fun _ _ h => by subst h; rfl,
    convTest := fun _ _ _ _ _ h => by subst h; rfl,
    restartFac := fun _ _ _ _ h => by subst h; exact ⟨rfl, rfl, rfl⟩,
    assemble := fun _ _ _ h => by subst h; rfl }

/--
  What does NOT hold (and is not claimed): `compute()` NOT preceded by `init()` depends on the earlier history — it refactorizes
  "from step 1" an object that is at step `ncv` (finding F2).  The property quantifies over histories *before* the observed
  `init(v); compute(args)` pair, which is exactly what `c06_history_independent` covers.
-/
theorem c06_scope_note : True := trivial

end C06
