/-
  C11 — the matrix-operation wrappers compute the documented operator in every template configuration; wrappers with a triangle
  option read only that triangle.

  Split of the argument (DESIGN §5 C11):
  * what is Spectra's own in the wrappers is modelled in `Model/Ops.lean` and proved here for all sizes and all inputs:
    triangle selection, the triangle-wise assembly of `A - σB`, the permutation around the sparse Cholesky factor, the composite
    operators, the real block form of the complex shift solve;
  * the Eigen decompositions are trusted third-party code represented by their specification (hypotheses `M * Minv = 1`, …);
  * that each C++ template configuration computes `spec uplo M` is decided by the per-configuration correspondence run
    (`checks/c11.py`, obligations `corr:wrapper:<config>`), which compares the real class with `Ops.spec…` on the same stored matrix.

  History (known_findings/C11.json, all four repaired in /repo and now covered by full-strength theorems / live configurations):
  * F7  (fae71a7) `SparseRegularInverse<…, Upper>::solve` read the lower triangle (ConjugateGradient declared without `Uplo`);
  * F19 (3dca838) `SparseGenRealShiftSolve` / `SparseGenComplexShiftSolve<…, RowMajor>` handed a row-major type to Eigen::SparseLU;
  * F20 (da64743) `SparseGenComplexShiftSolve::set_shift` did not check `m_solver.info()`;
  * F21 (ffd7f8e) `SymShiftInvert<Sparse, Sparse, …>` did not compile for `StorageIndexA ≠ StorageIndexB`.
-/
import SpectraVerif.Proofs.C11Lemmas
import SpectraVerif.Gen.OpsFootprint
import SpectraVerif.Proofs.ScField

set_option linter.unusedSectionVars false
namespace C11
open Ops Lin Matrix

section triangle
variable {α : Type} [Add α] [Sub α] [Mul α] [Div α] [Neg α] [Sc α]

/-- every wrapper with a triangle option factors through the symmetric completion of that triangle (definitionally) … -/
theorem c11_spec_factors (u : Uplo) (p : Array Nat) (M : Mat α) (sigma : α) (x : Vec α) :
    specSymMatProd u M x = fullProd (symMat u M) x ∧
    specSymShiftSolve u M sigma x = fullShiftSolve (symMat u M) sigma x ∧
    specCholLower u M x = fullCholLower (symMat u M) x ∧ specCholUpper u M x = fullCholUpper (symMat u M) x ∧
    specSparseCholLower u p M x = sparseCholLower p (symMat u M) x ∧ specSparseCholUpper u p M x = sparseCholUpper p (symMat u M) x ∧
    specRegularInverseSolve u M x = fullSolve (symMat u M) x :=
  ⟨rfl, rfl, rfl, rfl, rfl, rfl, rfl⟩

/-- … hence reads only that triangle: stored matrices that agree on triangle `u` give the same result, whatever the other
    triangle holds (DenseSymMatProd, SparseSymMatProd, real Dense/SparseHermMatProd, Dense/SparseSymShiftSolve, Dense/SparseCholesky,
    SparseRegularInverse as documented). -/
theorem c11_triangle_only (u : Uplo) (n : Nat) (M M' : Mat α) (h : AgreeOn u n M M') (p : Array Nat) (sigma : α) (x : Vec α) :
    specSymMatProd u M x = specSymMatProd u M' x ∧
    specSymShiftSolve u M sigma x = specSymShiftSolve u M' sigma x ∧
    specCholLower u M x = specCholLower u M' x ∧ specCholUpper u M x = specCholUpper u M' x ∧
    specSparseCholLower u p M x = specSparseCholLower u p M' x ∧ specSparseCholUpper u p M x = specSparseCholUpper u p M' x ∧
    specRegularInverseSolve u M x = specRegularInverseSolve u M' x := by
  have e := h.symMat_eq
  simp only [specSymMatProd, specSymShiftSolve, specCholLower, specCholUpper, specSparseCholLower, specSparseCholUpper,
    specRegularInverseSolve, e, and_self]

/-- SymShiftInvert (all four pairings, all four `(UploA, UploB)`): the result depends on `A` only through triangle `UploA` and on
    `B` only through triangle `UploB` -/
theorem c11_triangle_only_shiftinvert (p : Pairing) (ua ub : Uplo) (n : Nat) (A A' B B' : Mat α) (hA : AgreeOn ua n A A')
    (hB : AgreeOn ub n B B') (sigma : α) (x : Vec α) :
    specSymShiftInvert p ua ub A B sigma x = specSymShiftInvert p ua ub A' B' sigma x := by
  unfold specSymShiftInvert
  rw [ssiMat_congr p ua ub A A' B B' sigma n hA.1 hA.2.2.1 hA.2.2.2.2 hB.2.2.2.2]

/-- Hermitian products with a complex scalar (pairs): only triangle `u` is read -/
theorem c11_triangle_only_herm (u : Uplo) (n : Nat) (M M' : Nat → Nat → α × α)
    (h : ∀ i j, inTri u i j = true → M i j = M' i j) (x : Nat → α × α) :
    specHermMatProd u n M x = specHermMatProd u n M' x := by
  unfold specHermMatProd
  rw [hermFromTri_congr u M M' h]

/-- SparseRegularInverse::solve as coded equals the documented operator `B⁻¹x` of the symmetric completion of the wrapper's OWN
    triangle, for both `Lower` and `Upper`.  (History: before fae71a7 this held for `Lower` only — finding F7 — and the theorem was the
    `_partial` one; `regularInverseSolveBeforeFix` below is the old behaviour.) -/
theorem c11_reginv_solve (u : Uplo) (M : Mat α) (x : Vec α) :
    regularInverseSolveAsCoded u M x = specRegularInverseSolve u M x := rfl

/-- … and therefore reads only that triangle -/
theorem c11_reginv_solve_triangle_only (u : Uplo) (n : Nat) (M M' : Mat α) (h : AgreeOn u n M M') (x : Vec α) :
    regularInverseSolveAsCoded u M x = regularInverseSolveAsCoded u M' x := by
  unfold regularInverseSolveAsCoded; rw [h.symMat_eq]

/-- what the old code did: it solved with the LOWER completion whatever `u` was -/
theorem c11_reginv_before_fix (u : Uplo) (M : Mat α) (x : Vec α) :
    regularInverseSolveBeforeFix u M x = specRegularInverseSolve .lower M x := rfl
end triangle

/-- the old behaviour is refuted by `c11_reginv_solve`: with only the upper triangle stored (exact arithmetic over ℚ) the matrix the
    old code solved with, `symMat lower M` = diag(2, 2), is not the documented `symMat upper M` = [[2, 1], [1, 2]] -/
example : letI := scOfField (⟨id, fun x _ => x, 0, 0⟩ : FieldFns ℚ)
    (symMat Uplo.lower (⟨2, 2, #[2, 0, 1, 2]⟩ : Mat ℚ)).get 0 1 = 0 ∧ (symMat Uplo.upper (⟨2, 2, #[2, 0, 1, 2]⟩ : Mat ℚ)).get 0 1 = 1 := by
  constructor <;> simp [symMat, Mat.ofFn, Mat.get, symFromTri, inTri, Lin.zero, Array.getD_eq_getD_getElem?]

/-- the hypotheses of `c11_triangle_only` are satisfiable with different stored matrices -/
example : AgreeOn (α := Float) Uplo.lower 2 ⟨2, 2, #[1, 2, 77, 3]⟩ ⟨2, 2, #[1, 2, -5, 3]⟩ := by
  refine ⟨rfl, rfl, rfl, rfl, ?_⟩
  intro i j hi hj h
  have : (i = 0 ∨ i = 1) ∧ (j = 0 ∨ j = 1) := by omega
  rcases this with ⟨hi' | hi', hj' | hj'⟩ <;> subst hi' <;> subst hj' <;> first | rfl | (simp [inTri] at h)

/-- **assembly of `A - σB`** (SymShiftInvert.h:37-112), any commutative ring, all four `(UploA, UploB)`:
    the triangle written by the dense-A helper (`UploA`) and by the sparse-A/dense-B helper (`UploB`) holds exactly the entries of
    `sym(A) - σ sym(B)` — including the transposed branch taken when `UploA ≠ UploB` — and the matrix every pairing hands to its
    factorization is `sym(A) - σ sym(B)`; the `junk` left outside the written triangle never enters. -/
theorem c11_shiftinvert_assembly {R : Type} [CommRing R] (ua ub : Uplo) (A B junk : Nat → Nat → R) (sigma : R) :
    (∀ i j, inTri ua i j = true → ssiAssembleDenseA ua ub A B sigma junk i j = symFromTri ua A i j - sigma * symFromTri ub B i j) ∧
    (∀ i j, inTri ub i j = true → ssiAssembleDenseB ua ub A B sigma junk i j = symFromTri ua A i j - sigma * symFromTri ub B i j) ∧
    (∀ p i j, ssiMatrix p ua ub A B sigma junk i j = symFromTri ua A i j - sigma * symFromTri ub B i j) := by
  have key : ∀ p i j, ssiMatrix p ua ub A B sigma junk i j = symFromTri ua A i j - sigma * symFromTri ub B i j := by
    intro p i j; rw [ssiMatrix_eq_combine, ssiCombine_ring]
  refine ⟨?_, ?_, key⟩
  · intro i j h
    have := key .denseDense i j
    simpa [ssiMatrix, symFromTri, h] using this
  · intro i j h
    have := key .sparseDense i j
    simpa [ssiMatrix, symFromTri, h] using this

/-- the factorized matrix is symmetric, so the triangle that BKLDLT / SparseLU(isSymmetric) reads determines it -/
theorem c11_shiftinvert_symmetric {R : Type} [CommRing R] (p : Pairing) (ua ub : Uplo) (A B junk : Nat → Nat → R) (sigma : R) (i j : Nat) :
    ssiMatrix p ua ub A B sigma junk i j = ssiMatrix p ua ub A B sigma junk j i := by
  rw [(c11_shiftinvert_assembly ua ub A B junk sigma).2.2 p i j, (c11_shiftinvert_assembly ua ub A B junk sigma).2.2 p j i,
    symFromTri_symm ua A i j, symFromTri_symm ub B i j]

section composite
variable {n R : Type} [Fintype n] [DecidableEq n] [CommRing R]

/-- SymGEigsShiftInvertOp: `perform_op = inv(A - σB) * B`, given that the parts meet their specifications -/
theorem c11_shiftinvert_op (A B Minv : Matrix n n R) (sigma : R) (hM : (A - sigma • B) * Minv = 1)
    (op Bop : (n → R) → (n → R)) (hop : ∀ v, op v = Minv *ᵥ v) (hB : ∀ v, Bop v = B *ᵥ v) (x : n → R) :
    shiftInvertOp op Bop x = (Minv * B) *ᵥ x ∧ (A - sigma • B) *ᵥ shiftInvertOp op Bop x = B *ᵥ x :=
  shiftInvert_apply A B Minv sigma hM op Bop hop hB x

/-- SymGEigsBucklingOp: `perform_op = inv(K - σK_G) * K` -/
theorem c11_buckling_op (K KG Minv : Matrix n n R) (sigma : R) (hM : (K - sigma • KG) * Minv = 1)
    (op Bop : (n → R) → (n → R)) (hop : ∀ v, op v = Minv *ᵥ v) (hK : ∀ v, Bop v = K *ᵥ v) (x : n → R) :
    bucklingOp op Bop x = (Minv * K) *ᵥ x ∧ (K - sigma • KG) *ᵥ bucklingOp op Bop x = K *ᵥ x := by
  unfold bucklingOp
  rw [hop, hK, Matrix.mulVec_mulVec]
  refine ⟨rfl, ?_⟩
  rw [Matrix.mulVec_mulVec, ← Matrix.mul_assoc, hM, Matrix.one_mul]

/-- SymGEigsCayleyOp: `x + 2σ inv(A - σB) B x = inv(A - σB) (A + σB) x` -/
theorem c11_cayley (A B Minv : Matrix n n R) (sigma : R) (hM : (A - sigma • B) * Minv = 1)
    (op Bop : (n → R) → (n → R)) (hop : ∀ v, op v = Minv *ᵥ v) (hB : ∀ v, Bop v = B *ᵥ v) (x : n → R) :
    (A - sigma • B) *ᵥ cayleyOp op Bop sigma x = (A + sigma • B) *ᵥ x ∧
    cayleyOp op Bop sigma x = (Minv * (A + sigma • B)) *ᵥ x :=
  cayley_apply A B Minv sigma hM op Bop hop hB x

/-- SymGEigsCholeskyOp: `perform_op = inv(L) * A * inv(L')` -/
theorem c11_cholesky_op (A L Linv : Matrix n n R) (hL : L * Linv = 1)
    (op lower upper : (n → R) → (n → R)) (hop : ∀ v, op v = A *ᵥ v) (hlo : ∀ v, lower v = Linv *ᵥ v) (hup : ∀ v, upper v = Linvᵀ *ᵥ v)
    (x : n → R) : choleskyOp op lower upper x = (Linv * A * Linvᵀ) *ᵥ x :=
  cholesky_apply A L Linv hL op lower upper hop hlo hup x

/-- SymGEigsRegInvOp: `perform_op = inv(B) * A` -/
theorem c11_reginv_op (A B Binv : Matrix n n R) (hB : B * Binv = 1)
    (op solve : (n → R) → (n → R)) (hop : ∀ v, op v = A *ᵥ v) (hs : ∀ v, solve v = Binv *ᵥ v) (x : n → R) :
    regInvOp op solve x = (Binv * A) *ᵥ x ∧ B *ᵥ regInvOp op solve x = A *ᵥ x :=
  reginv_apply A B Binv hB op solve hop hs x

/-- SparseCholesky (SparseCholesky.h:92-108): with the fill-reducing permutation `P` (`Pᵀ P = I`) and `L Lᵀ = P B Pᵀ`,
    i.e. `B = Pᵀ L Lᵀ P`, the two solves `lower = L⁻¹ P ·` and `upper = Pᵀ L⁻ᵀ ·` compose to `B⁻¹` — the permutation cancels — and
    `F = L⁻¹ P` is a valid "inverse Cholesky factor" of `B` (`F B Fᵀ = I`, `upper = Fᵀ ·`), which is all SymGEigsCholeskyOp needs. -/
theorem c11_sparse_chol_perm (P L Linv : Matrix n n R) (hP : Pᵀ * P = 1) (hL : L * Linv = 1)
    (lower upper : (n → R) → (n → R)) (hlo : ∀ v, lower v = Linv *ᵥ (P *ᵥ v)) (hup : ∀ v, upper v = Pᵀ *ᵥ (Linvᵀ *ᵥ v)) (x : n → R) :
    (Pᵀ * (L * Lᵀ) * P) *ᵥ upper (lower x) = x ∧
    (Linv * P) * (Pᵀ * (L * Lᵀ) * P) * (Linv * P)ᵀ = 1 ∧
    upper x = (Linv * P)ᵀ *ᵥ x := by
  have hP' : P * Pᵀ = 1 := mul_eq_one_comm.mp hP
  have hL' : Linv * L = 1 := mul_eq_one_comm.mp hL
  have hLt : Lᵀ * Linvᵀ = 1 := by rw [← Matrix.transpose_mul, hL', Matrix.transpose_one]
  refine ⟨?_, ?_, ?_⟩
  · rw [hup, hlo]
    simp only [Matrix.mulVec_mulVec]
    have := sparse_chol_perm P L Linv hP hL
    rw [show Pᵀ * (L * Lᵀ) * P * (Pᵀ * (Linvᵀ * (Linv * P))) = (Pᵀ * (L * Lᵀ) * P) * (Pᵀ * Linvᵀ * (Linv * P)) by simp only [Matrix.mul_assoc],
      this, Matrix.one_mulVec]
  · rw [Matrix.transpose_mul]
    calc Linv * P * (Pᵀ * (L * Lᵀ) * P) * (Pᵀ * Linvᵀ)
        = Linv * ((P * Pᵀ) * (L * (Lᵀ * ((P * Pᵀ) * Linvᵀ)))) := by simp only [Matrix.mul_assoc]
      _ = (Linv * L) * (Lᵀ * Linvᵀ) := by rw [hP', Matrix.one_mul, Matrix.one_mul, Matrix.mul_assoc]
      _ = 1 := by rw [hL', hLt, Matrix.one_mul]
  · rw [hup, Matrix.mulVec_mulVec, Matrix.transpose_mul]

/-- hypotheses satisfiable: identity permutation, `L = 2 I` over ℚ -/
example : ((1 : Matrix (Fin 2) (Fin 2) ℚ)ᵀ * 1 = 1) ∧ ((2 : ℚ) • (1 : Matrix (Fin 2) (Fin 2) ℚ)) * ((1 / 2 : ℚ) • 1) = 1 := by
  constructor
  · simp
  · rw [Matrix.smul_mul, Matrix.mul_smul, Matrix.mul_one, smul_smul]; norm_num
end composite

/-- the model's two permutation functions around the factor are inverse to each other (`Pᵀ (P x) = x`) for every injective index
    vector, i.e. they are the `P`, `Pᵀ` of `c11_sparse_chol_perm` -/
theorem c11_perm_roundtrip {β : Type} (p : Nat → Nat) (n : Nat) (x : Nat → β) (d : β)
    (hinj : ∀ a b, a < n → b < n → p a = p b → a = b) (i : Nat) (hi : i < n) :
    permBwd p (permFwd p n x d) i = x i :=
  permBwd_permFwd p n x d hinj i hi

/-- **real part of the complex shift solve.**  The wrappers compute `Re[(A - σI)⁻¹ x]`, `σ = a + bi`, by a complex LU of
    `A - σI` (Eigen, trusted); the model uses the real block system `[[A - aI, bI], [-bI, A - aI]] [u; v] = [x; 0]`.  This is the
    statement that the two agree: any solution `(u, v)` of the real block system is the complex solution `u + iv`, so `u` is its real part. -/
theorem c11_real_part {n : Type} [Fintype n] [DecidableEq n] (A : Matrix n n ℝ) (a b : ℝ) (u v x : n → ℝ)
    (h1 : (A - a • (1 : Matrix n n ℝ)) *ᵥ u + b • v = x)
    (h2 : (A - a • (1 : Matrix n n ℝ)) *ᵥ v - b • u = 0) :
    (A.map (fun r => (r : ℂ)) - (⟨a, b⟩ : ℂ) • (1 : Matrix n n ℂ)) *ᵥ (fun i => (⟨u i, v i⟩ : ℂ)) = fun i => ((x i : ℝ) : ℂ) :=
  real_part_block A a b u v x h1 h2

/-- the executable model's block matrix has exactly these four quadrants -/
theorem c11_cshift_block {β : Type} [Sub β] [Neg β] (z : β) (n : Nat) (A : Nat → Nat → β) (a b : β) (i j : Nat) (hi : i < n) (hj : j < n) :
    cshiftBlock z n A a b i j = (if i = j then A i j - a else A i j) ∧
    cshiftBlock z n A a b i (n + j) = (if i = j then b else z) ∧
    cshiftBlock z n A a b (n + i) j = (if i = j then -b else z) ∧
    cshiftBlock z n A a b (n + i) (n + j) = (if i = j then A i j - a else A i j) :=
  cshiftBlock_entries z n A a b i j hi hj

/-! ### template footprint regenerated from the headers (`Gen/OpsFootprint.lean`) -/
open Gen.OpsFootprint in
/-- every Eigen member type / view / factorization call of a wrapper that has a triangle option receives that option, and every
    wrapper class with a triangle option has at least one such use (a dropped `Uplo` makes this fail).
    (History: before fae71a7 `SparseRegularInverse`'s `ConjugateGradient` member was the one exception, F7.) -/
theorem c11_uplo_passthrough :
    (∀ e ∈ uploUses, e.2.2.2 = true) ∧
    (∀ c ∈ uploClasses, ∃ e ∈ uploUses, e.1 = c ∧ e.2.2.2 = true) ∧
    uploClasses.length = 11 ∧
    ("SparseRegularInverse", "field:ConjugateGradient", "Uplo", true) ∈ uploUses := by
  refine ⟨by decide, by decide, by decide, by decide⟩

open Gen.OpsFootprint in
/-- F19.  Full-strength wish "every Eigen::SparseLU in the wrappers is instantiated over a column-major matrix type" does NOT hold and
    need not: `SparseSymShiftSolve` and `SymShiftInvert` still instantiate it over the user's storage order, but they factorize a
    symmetric matrix (`isSymmetric(true)`; `symFromTri_symm`, `c11_shiftinvert_symmetric`), for which row-major storage of `M` is
    column-major storage of `Mᵀ = M`.  Proved from the regenerated footprint: every SparseLU is column-major OR declared symmetric, and
    the two wrappers for GENERAL matrices are explicitly column-major. -/
theorem c11_sparselu_colmajor_or_symmetric :
    (∀ e ∈ sparseLUUses, e.2.2.1 = true ∨ e.2.2.2 = true) ∧
    (∀ e ∈ sparseLUUses, (e.1 = "SparseGenRealShiftSolve" ∨ e.1 = "SparseGenComplexShiftSolve") → e.2.2.1 = true) ∧
    (∃ e ∈ sparseLUUses, e.1 = "SparseGenRealShiftSolve") ∧ (∃ e ∈ sparseLUUses, e.1 = "SparseGenComplexShiftSolve") ∧
    sparseLUUses.length = 4 := by
  refine ⟨by decide, by decide, by decide, by decide, by decide⟩

open Gen.OpsFootprint in
/-- F20.  Every `set_shift` / `factorize` that computes a factorization whose solver can report failure (BKLDLT, SparseLU) tests the
    status and throws (or returns it to `SymShiftInvert::set_shift`, which throws); the only unchecked ones use Eigen::PartialPivLU,
    which has no failure status (dense general shift solves: a singular shifted matrix is outside the documented domain). -/
theorem c11_shift_failure_throws :
    (∀ e ∈ shiftChecks, e.2.2.1 = "PartialPivLU" ∨ e.2.2.2 = true) ∧
    ("SparseGenComplexShiftSolve", "set_shift", "SparseLU", true) ∈ shiftChecks ∧
    shiftChecks.length = 10 := by
  refine ⟨by decide, by decide, by decide⟩

open Gen.OpsFootprint in
/-- the statements of `SymShiftInvertHelper::factorize` that `ssiAssembleDenseA / DenseB / Sparse` mirror, as found in the header:
    which matrix gets which triangle argument, in which branch of `if (UploA == UploB)`, and where the transpose sits.
    (Rigid on purpose: an edit of the helper changes this table and the model has to be re-read against the source.) -/
theorem c11_helper_footprint : helperUses = [
    ("A", "selfadjointView", "UploA", ""),
    ("B", "selfadjointView", "UploB", ""),
    ("mat", "triangularView", "UploA", ""),
    ("(B * sigma)", "triangularView", "UploA", "then(UploA == UploB)"),
    ("(B * sigma)", "triangularView.transpose", "UploB", "else(UploA == UploB)"),
    ("fac", "compute", "UploA", ""),
    ("mat", "triangularView", "UploB", ""),
    ("A", "triangularView", "UploB", "then(UploA == UploB)"),
    ("A", "triangularView.transpose", "UploA", "else(UploA == UploB)"),
    ("fac", "compute", "UploB", "")] := by decide

/-! ### what the wrappers do to their third-party solver objects (`solverFields`, `solverCalls`, `configCallsElsewhere`, regenerated) -/
open Gen.OpsFootprint in
/-- **every use of a solver object is a documented one** (decided over the regenerated table, which lists EVERY member call a wrapper method
    makes on a SparseLU / PartialPivLU / LLT / SimplicialLLT / ConjugateGradient / BKLDLT member, on the `Fac&` parameter of the three
    `SymShiftInvertHelper::factorize` and on local references to them, and every other occurrence of such an object):
    `compute`, `info()`, `solve`, `matrixL()/matrixU()/permutationP()/permutationPinv()`, the single configuration call `isSymmetric(true)`, and the
    hand-over of `m_solver` to the helper; no function with the name of a solver configuration function is called on anything else; every solver
    member is factorized somewhere; every wrapper has exactly one solver member. -/
theorem c11_solver_calls_documented :
    (∀ e : SolverCall, e ∈ solverCalls → documentedCall e.call e.args = true) ∧
    configCallsElsewhere = [] ∧
    (∀ f ∈ solverFields, ∃ e : SolverCall, e ∈ solverCalls ∧ e.cls = f.1 ∧ e.obj = f.2.1 ∧ (e.call = "compute" ∨ e.call = "(use)")) ∧
    (solverFields.map (·.1)).Nodup ∧ solverFields.length = 10 ∧
    ("SparseSymShiftSolve", "set_shift", "m_solver", "SparseLU", "isSymmetric", "true") ∈ solverCalls ∧
    ("SymShiftInvertHelper", "factorize", "fac", "template parameter Fac", "isSymmetric", "true") ∈ solverCalls := by
  refine ⟨by decide, by decide, by decide, by decide, by decide, by decide, by decide⟩

open Gen.OpsFootprint in
/-- lifted to ALL names (`only_documented_names`): whatever member function is not in the documented list — `setPivotThreshold`, `setTolerance`,
    `setMaxIterations`, `analyzePattern`, `factorize`, `preconditioner`, anything a later Eigen adds — no wrapper method calls it on a solver object -/
theorem c11_only_documented_calls (name : String) (hn : name ∉ documentedNames) (hu : name ≠ "(use)") :
    ∀ e : SolverCall, e ∈ solverCalls → e.call ≠ name :=
  only_documented_names solverCalls c11_solver_calls_documented.1 name hn hu

open Gen.OpsFootprint in
/-- **no pivot-threshold change.**  No wrapper calls `setPivotThreshold`; hence for EVERY history of wrapper-method invocations (any methods of any
    wrappers, any number of times, any order, modelled as a list of recorded solver calls) a SparseLU object still has the pivot threshold it was
    constructed with (1.0: partial pivoting, multipliers bounded by 1, `c11_partial_pivoting`), and the iterative solver keeps its default tolerance
    and iteration limit. -/
theorem c11_no_pivot_threshold_change :
    (∀ e : SolverCall, e ∈ solverCalls → e.call ≠ "setPivotThreshold" ∧ e.call ≠ "setTolerance" ∧ e.call ≠ "setMaxIterations") ∧
    (∀ hist : List SolverCall, (∀ e ∈ hist, e ∈ solverCalls) → ∀ c : LUConfig, (c.run hist).pivotThreshold = c.pivotThreshold) ∧
    (∀ hist : List SolverCall, (∀ e ∈ hist, e ∈ solverCalls) → (LUConfig.initial.run hist).pivotThreshold = none) := by
  have h := fun (nm : String) (hn : nm ∉ documentedNames) (hu : nm ≠ "(use)") => c11_only_documented_calls nm hn hu
  have hp := h "setPivotThreshold" (by decide) (by decide)
  refine ⟨fun e he => ⟨hp e he, h "setTolerance" (by decide) (by decide) e he, h "setMaxIterations" (by decide) (by decide) e he⟩, ?_, ?_⟩
  · intro hist hh c
    exact LUConfig.run_threshold hist c (fun e he => hp e (hh e he))
  · intro hist hh
    exact LUConfig.run_threshold hist LUConfig.initial (fun e he => hp e (hh e he))

/-- the hypothesis is satisfiable and the conclusion is not vacuous: the history `set_shift; perform_op; set_shift` of SparseSymShiftSolve switches the
    symmetric ordering on and leaves the threshold alone … -/
example : LUConfig.initial.run [("SparseSymShiftSolve", "set_shift", "m_solver", "SparseLU", "isSymmetric", "true"),
      ("SparseSymShiftSolve", "set_shift", "m_solver", "SparseLU", "compute", "mat"), ("SparseSymShiftSolve", "perform_op", "m_solver", "SparseLU", "solve", "x"),
      ("SparseSymShiftSolve", "set_shift", "m_solver", "SparseLU", "isSymmetric", "true")] = ⟨true, none⟩ := by decide
/-- … whereas a `setPivotThreshold` call would show up in the state (so a table containing one cannot satisfy the theorem) -/
example : (LUConfig.initial.run [("SparseSymShiftSolve", "set_shift", "m_solver", "SparseLU", "setPivotThreshold", "Eigen::NumTraits<Scalar>::dummy_precision()")]).pivotThreshold
    = some "Eigen::NumTraits<Scalar>::dummy_precision()" := by decide

/-- why the threshold matters (`SparseLUImpl::pivotL`): a diagonal entry `d` accepted as pivot with threshold `t > 0` bounds every multiplier of its
    column by `1 / t`; for the constructor's `t = 1` this is partial pivoting (`|a / d| ≤ 1`), for `t = 10⁻¹²` the bound is `10¹²` -/
theorem c11_partial_pivoting {K : Type} [Field K] [LinearOrder K] [IsStrictOrderedRing K] (F : FieldFns K) (t pivmax d : K) (ht : 0 < t)
    (hacc : @diagPivotAccepted K _ (scOfField F) t pivmax d = true) (a : K) (ha : |a| ≤ pivmax) :
    |a / d| ≤ 1 / t ∧ (t = 1 → |a / d| ≤ 1) := by
  refine ⟨diagPivot_multiplier_bound F t pivmax d ht hacc a ha, ?_⟩
  intro h1; subst h1
  exact diagPivot_partial F pivmax d hacc a ha

/-- the bound is attained: with `t = 10⁻⁶` the diagonal `d = 10⁻⁶` of a column with an off-diagonal entry `1` is accepted and the multiplier is `10⁶`;
    with `t = 1` it is rejected -/
example : letI := scOfField (⟨id, fun x _ => x, 0, 0⟩ : FieldFns ℚ)
    diagPivotAccepted (α := ℚ) (1 / 1000000) 1 (1 / 1000000) = true ∧ diagPivotAccepted (α := ℚ) 1 1 (1 / 1000000) = false ∧
    |(1 : ℚ) / (1 / 1000000)| = 1000000 := by
  refine ⟨?_, ?_, ?_⟩
  · simp [diagPivotAccepted]
  · simp [diagPivotAccepted]; norm_num
  · norm_num

end C11
