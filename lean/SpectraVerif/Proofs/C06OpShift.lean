/-
  C06 — lemmas about the operator-side shift model (`Model/OpShift.lean`).
-/
import SpectraVerif.Model.OpShift

namespace OpShift
variable {σ : Type}

/-- events that contain no `set_shift` -/
def NoSet : List (Ev σ) → Prop
  | [] => True
  | .setShift _ :: _ => False
  | .performOp :: r => NoSet r

theorem noSet_applications (n : Nat) : NoSet (applications n : List (Ev σ)) := by
  induction n with
  | zero => trivial
  | succ n ih => exact ih

/-- without a `set_shift` the installed shift is what it was, whether or not an application throws -/
theorem exec_noSet : ∀ (evs : List (Ev σ)) (th : Option Nat) (s : σ), NoSet evs → (exec evs th s).1 = s := by
  intro evs
  induction evs with
  | nil => intro th s _; rfl
  | cons e r ih =>
    intro th s h
    cases e with
    | setShift t => exact absurd h (by simp [NoSet])
    | performOp =>
      cases th with
      | none => exact ih none s h
      | some k =>
        cases k with
        | zero => rfl
        | succ k => exact ih (some k) s h

/-- `n` applications followed by `rest`, no throw -/
theorem exec_apps_none (n : Nat) (rest : List (Ev σ)) (s : σ) :
    exec (applications n ++ rest) none s = exec rest none s := by
  induction n with
  | zero => rfl
  | succ n ih => exact ih

/-- the throw falls among the first `n` applications -/
theorem exec_apps_lt (n : Nat) (rest : List (Ev σ)) (s : σ) : ∀ k, k < n → exec (applications n ++ rest) (some k) s = (s, true) := by
  induction n with
  | zero => intro k h; omega
  | succ n ih =>
    intro k h
    cases k with
    | zero => rfl
    | succ k => exact ih k (by omega)

/-- the throw index lies beyond the first `n` applications -/
theorem exec_apps_ge (n : Nat) (rest : List (Ev σ)) (s : σ) : ∀ k, n ≤ k → exec (applications n ++ rest) (some k) s = exec rest (some (k - n)) s := by
  induction n with
  | zero => intro k _; rfl
  | succ n ih =>
    intro k h
    cases k with
    | zero => omega
    | succ k =>
      have := ih k (by omega)
      rw [show k + 1 - (n + 1) = k - n by omega]
      exact this

theorem exec_apps_end_none (n : Nat) (t s : σ) : exec (applications n ++ [Ev.setShift t]) none s = (t, false) := by
  rw [exec_apps_none]; rfl

/-- does application `k` of `compute` fall into the root-selection probe? -/
def inProbe (nIter nProbe : Nat) (reachedSort : Bool) : Option Nat → Bool
  | none => false
  | some k => reachedSort && decide (nIter ≤ k) && decide (k < nIter + nProbe)

/-- complete description of `GenEigsComplexShiftSolver::compute` on the installed shift (code as it is now) -/
theorem exec_computeComplex (sigma probe : σ) (nIter nProbe : Nat) (rs : Bool) (th : Option Nat) (s : σ) :
    (exec (computeComplex sigma probe nIter nProbe rs) th s).1 =
      if inProbe nIter nProbe rs th then probe else if rs && (th.all (fun k => decide (nIter ≤ k))) then sigma else s := by
  unfold computeComplex
  cases rs with
  | false =>
    simp only [inProbe, Bool.false_and, Bool.false_eq_true, if_false]
    have h : NoSet (applications nIter ++ ([] : List (Ev σ))) := by
      rw [List.append_nil]; exact noSet_applications nIter
    have e := exec_noSet _ th s h
    cases th <;> simpa using e
  | true =>
    simp only [if_true]
    cases th with
    | none =>
      rw [exec_apps_none]
      show (exec (applications nProbe ++ [Ev.setShift sigma]) none probe).1 = _
      rw [exec_apps_end_none]
      simp [inProbe]
    | some k =>
      by_cases h1 : k < nIter
      · rw [exec_apps_lt nIter _ s k h1]
        have : ¬ nIter ≤ k := by omega
        simp [inProbe, this]
      · have h1' : nIter ≤ k := by omega
        rw [exec_apps_ge nIter _ s k h1']
        show (exec (applications nProbe ++ [Ev.setShift sigma]) (some (k - nIter)) probe).1 = _
        by_cases h2 : k - nIter < nProbe
        · rw [exec_apps_lt nProbe _ probe _ h2]
          have : k < nIter + nProbe := by omega
          simp [inProbe, h1', this]
        · rw [exec_apps_ge nProbe _ probe _ (by omega)]
          have : ¬ k < nIter + nProbe := by omega
          simp [inProbe, h1', this, exec]

/-- before the repair: whenever `sort_ritzpair` is reached and no exception ends the call earlier, the probe shift stays installed -/
theorem exec_computeComplexOld_none (probe : σ) (nIter nProbe : Nat) (s : σ) :
    (exec (computeComplexOld probe nIter nProbe true) none s).1 = probe := by
  unfold computeComplexOld
  rw [exec_apps_none]
  show (exec (applications nProbe) none probe).1 = probe
  exact exec_noSet _ none probe (noSet_applications nProbe)

theorem runCalls_cons (c : CallEv σ) (h : List (CallEv σ)) (s : σ) : runCalls (c :: h) s = runCalls h (exec c.evs c.throwAt s).1 := rfl

end OpShift
