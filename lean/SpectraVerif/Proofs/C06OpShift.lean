/-
  C06 — lemmas about the operator-side shift model (`Model/OpShift.lean`).
-/
import SpectraVerif.Model.OpShift

namespace OpShift
variable {σ : Type}

/-- events that are operator applications only (no `set_shift`, no `try` region) -/
def NoSet : List (Ev σ) → Prop
  | [] => True
  | .performOp :: r => NoSet r
  | _ :: _ => False

theorem noSet_applications (n : Nat) : NoSet (applications n : List (Ev σ)) := by
  induction n with
  | zero => trivial
  | succ n ih => exact ih

/-- without a `set_shift` the installed shift is what it was, whether or not an application throws -/
theorem exec_noSet : ∀ (evs : List (Ev σ)) (th : Option Nat) (s : σ), NoSet evs → (exec evs th s).1 = s := by
  intro evs
  induction evs with
  | nil => intro th s _; rfl
  | cons e r ih =>
    intro th s h
    cases e with
    | setShift t => exact absurd h (by simp [NoSet])
    | tryRestore t => exact absurd h (by simp [NoSet])
    | endTry => exact absurd h (by simp [NoSet])
    | performOp =>
      cases th with
      | none => exact ih none s h
      | some k =>
        cases k with
        | zero => rfl
        | succ k => exact ih (some k) s h

/-- `n` applications followed by `rest`, no throw -/
theorem exec_apps_none (n : Nat) (rest : List (Ev σ)) (h : Option σ) (s : σ) :
    execH (applications n ++ rest) none h s = execH rest none h s := by
  induction n with
  | zero => rfl
  | succ n ih => exact ih

/-- the throw falls among the first `n` applications: the handler in force (if any) installs its shift -/
theorem exec_apps_lt (n : Nat) (rest : List (Ev σ)) (h : Option σ) (s : σ) :
    ∀ k, k < n → execH (applications n ++ rest) (some k) h s = (h.getD s, true) := by
  induction n with
  | zero => intro k hk; omega
  | succ n ih =>
    intro k hk
    cases k with
    | zero => rfl
    | succ k => exact ih k (by omega)

/-- the throw index lies beyond the first `n` applications -/
theorem exec_apps_ge (n : Nat) (rest : List (Ev σ)) (h : Option σ) (s : σ) :
    ∀ k, n ≤ k → execH (applications n ++ rest) (some k) h s = execH rest (some (k - n)) h s := by
  induction n with
  | zero => intro k _; rfl
  | succ n ih =>
    intro k hk
    cases k with
    | zero => omega
    | succ k =>
      have := ih k (by omega)
      rw [show k + 1 - (n + 1) = k - n by omega]
      exact this

/-- does application `k` of `compute` fall into the root-selection probe? -/
def inProbe (nIter nProbe : Nat) (reachedSort : Bool) : Option Nat → Bool
  | none => false
  | some k => reachedSort && decide (nIter ≤ k) && decide (k < nIter + nProbe)

/-- complete description of `GenEigsComplexShiftSolver::compute` on the installed shift (code as it is now): once `sort_ritzpair`
    is reached the constructor's shift is installed at exit on EVERY path — normal return, exception after the probe, and exception
    of the user's operator inside the probe (the handler restores) -/
theorem exec_computeComplex (sigma probe : σ) (nIter nProbe : Nat) (rs : Bool) (th : Option Nat) (s : σ) :
    (exec (computeComplex sigma probe nIter nProbe rs) th s).1 =
      if rs && (th.all (fun k => decide (nIter ≤ k))) then sigma else s := by
  unfold computeComplex exec
  cases rs with
  | false =>
    simp only [Bool.false_and, Bool.false_eq_true, if_false]
    have h : NoSet (applications nIter ++ ([] : List (Ev σ))) := by
      rw [List.append_nil]; exact noSet_applications nIter
    exact exec_noSet _ th s h
  | true =>
    simp only [if_true]
    cases th with
    | none =>
      rw [exec_apps_none]
      show (execH (applications nProbe ++ [Ev.endTry, Ev.setShift sigma]) none (some sigma) probe).1 = _
      rw [exec_apps_none]
      simp [execH]
    | some k =>
      by_cases h1 : k < nIter
      · rw [exec_apps_lt nIter _ none s k h1]
        have : ¬ nIter ≤ k := by omega
        simp [this]
      · have h1' : nIter ≤ k := by omega
        rw [exec_apps_ge nIter _ none s k h1']
        show (execH (applications nProbe ++ [Ev.endTry, Ev.setShift sigma]) (some (k - nIter)) (some sigma) probe).1 = _
        by_cases h2 : k - nIter < nProbe
        · rw [exec_apps_lt nProbe _ (some sigma) probe _ h2]
          simp [h1']
        · rw [exec_apps_ge nProbe _ (some sigma) probe _ (by omega)]
          simp [h1', execH]

/-- the code BEFORE the catch-restore (F3b): a throw of the user's operator inside the probe leaves the probe shift installed -/
theorem exec_computeComplexUnguarded_inProbe (sigma probe : σ) (nIter nProbe k : Nat) (s : σ) (h1 : nIter ≤ k) (h2 : k < nIter + nProbe) :
    (exec (computeComplexUnguarded sigma probe nIter nProbe true) (some k) s).1 = probe := by
  unfold computeComplexUnguarded exec
  simp only [if_true]
  rw [exec_apps_ge nIter _ none s k h1]
  show (execH (applications nProbe ++ [Ev.setShift sigma]) (some (k - nIter)) none probe).1 = _
  rw [exec_apps_lt nProbe _ none probe _ (by omega)]
  rfl

/-- before the first repair (F3): whenever `sort_ritzpair` is reached and no exception ends the call earlier, the probe shift stays -/
theorem exec_computeComplexOld_none (probe : σ) (nIter nProbe : Nat) (s : σ) :
    (exec (computeComplexOld probe nIter nProbe true) none s).1 = probe := by
  unfold computeComplexOld exec
  rw [exec_apps_none]
  show (exec (applications nProbe) none probe).1 = probe
  exact exec_noSet _ none probe (noSet_applications nProbe)

theorem runCalls_cons (c : CallEv σ) (h : List (CallEv σ)) (s : σ) : runCalls (c :: h) s = runCalls h (exec c.evs c.throwAt s).1 := rfl

end OpShift
