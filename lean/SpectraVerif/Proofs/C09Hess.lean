/-
  C09 helper lemmas: the UpperHessenbergSchur model keeps `T` upper Hessenberg (position-level write footprint of every
  transformation + the clean-up loop of the Francis sweep), hence returns a quasi-upper-triangular `T`.
  Arbitrary scalar type, arbitrary `Sc` instance.
-/
import SpectraVerif.Proofs.C09Schur

set_option linter.unusedSectionVars false
set_option linter.unusedSimpArgs false
set_option linter.unusedVariables false
namespace C09Hess
open Lin EigenPrims HessSchur C09Mat C09Schur
variable {α : Type} [Add α] [Sub α] [Mul α] [Div α] [Neg α] [Sc α]

/-- `t'` is well-formed, has the shape of `t`, and agrees with `t` at every position `(i, j)` with `Keep i j` -/
def PresK (Keep : Nat → Nat → Prop) (t t' : Mat α) : Prop :=
  WF t' ∧ t'.rows = t.rows ∧ t'.cols = t.cols ∧ ∀ i j, Keep i j → i < t.rows → t'.get i j = t.get i j

theorem presK_refl (Keep : Nat → Nat → Prop) (t : Mat α) (h : WF t) : PresK Keep t t := ⟨h, rfl, rfl, fun _ _ _ _ => rfl⟩

theorem presK_trans {Keep : Nat → Nat → Prop} {t t' t'' : Mat α} (h1 : PresK Keep t t') (h2 : PresK Keep t' t'') : PresK Keep t t'' := by
  obtain ⟨w1, r1, c1, g1⟩ := h1
  obtain ⟨w2, r2, c2, g2⟩ := h2
  refine ⟨w2, by rw [r2, r1], by rw [c2, c1], ?_⟩
  intro i j hk hi
  rw [g2 i j hk (by rw [r1]; exact hi), g1 i j hk hi]

theorem presK_set (Keep : Nat → Nat → Prop) (t : Mat α) (h : WF t) (i0 j0 : Nat) (x : α) (hk : ¬ Keep i0 j0) :
    PresK Keep t (t.set i0 j0 x) := by
  refine ⟨set_wf _ _ _ _ h, set_rows _ _ _ _, set_cols _ _ _ _, ?_⟩
  intro i j hkeep hi
  by_cases hb : i0 < t.rows ∧ j0 < t.cols
  · rw [get_set _ h _ _ _ _ _ hb.1 hb.2 hi, if_neg (by rintro ⟨rfl, rfl⟩; exact hk hkeep)]
  · simp only [Mat.set, if_neg hb]

theorem presK_foldl {β : Type} (Keep : Nat → Nat → Prop) (l : List β) (f : Mat α → β → Mat α)
    (hf : ∀ acc x, x ∈ l → WF acc → PresK Keep acc (f acc x)) (t : Mat α) (h : WF t) : PresK Keep t (l.foldl f t) := by
  induction l generalizing t with
  | nil => exact presK_refl Keep t h
  | cons x l ih =>
    simp only [List.foldl_cons]
    have h1 := hf t x List.mem_cons_self h
    exact presK_trans h1 (ih (fun acc y hy => hf acc y (List.mem_cons_of_mem _ hy)) _ h1.1)

theorem presK_foldl_proj {σ β : Type} (Keep : Nat → Nat → Prop) (proj : σ → Mat α) (l : List β) (f : σ → β → σ)
    (hf : ∀ acc x, x ∈ l → WF (proj acc) → PresK Keep (proj acc) (proj (f acc x))) (s0 : σ) (h : WF (proj s0)) :
    PresK Keep (proj s0) (proj (l.foldl f s0)) := by
  induction l generalizing s0 with
  | nil => exact presK_refl Keep _ h
  | cons x l ih =>
    simp only [List.foldl_cons]
    have h1 := hf s0 x List.mem_cons_self h
    exact presK_trans h1 (ih (fun acc y hy => hf acc y (List.mem_cons_of_mem _ hy)) _ h1.1)

theorem presK_set2 (Keep : Nat → Nat → Prop) (t : Mat α) (h : WF t) (i0 j0 i1 j1 : Nat) (x y : α) (h0 : ¬ Keep i0 j0) (h1 : ¬ Keep i1 j1) :
    PresK Keep t ((t.set i0 j0 x).set i1 j1 y) :=
  presK_trans (presK_set Keep t h i0 j0 x h0) (presK_set Keep _ (set_wf _ _ _ _ h) i1 j1 y h1)

theorem presK_set3 (Keep : Nat → Nat → Prop) (t : Mat α) (h : WF t) (i0 j0 i1 j1 i2 j2 : Nat) (x y z : α)
    (h0 : ¬ Keep i0 j0) (h1 : ¬ Keep i1 j1) (h2 : ¬ Keep i2 j2) :
    PresK Keep t (((t.set i0 j0 x).set i1 j1 y).set i2 j2 z) :=
  presK_trans (presK_set2 Keep t h i0 j0 i1 j1 x y h0 h1) (presK_set Keep _ (set_wf _ _ _ _ (set_wf _ _ _ _ h)) i2 j2 z h2)

theorem presK_hhLeft (Keep : Nat → Nat → Prop) (t : Mat α) (h : WF t) (v1 v2 tau : α) (k c0 ncol : Nat)
    (hk : ∀ jj, jj < ncol → ¬ Keep k (c0 + jj) ∧ ¬ Keep (k + 1) (c0 + jj) ∧ ¬ Keep (k + 2) (c0 + jj)) :
    PresK Keep t (applyHouseholderLeft t v1 v2 tau k c0 ncol) := by
  simp only [applyHouseholderLeft]
  exact presK_foldl Keep _ _ (fun acc jj hjj hw => by
    have := hk jj (List.mem_range.mp hjj)
    exact presK_set3 Keep acc hw _ _ _ _ _ _ _ _ _ this.1 this.2.1 this.2.2) t h

theorem presK_hhRight (Keep : Nat → Nat → Prop) (t : Mat α) (h : WF t) (v1 v2 tau : α) (k nrow : Nat)
    (hk : ∀ i, i < nrow → ¬ Keep i k ∧ ¬ Keep i (k + 1) ∧ ¬ Keep i (k + 2)) :
    PresK Keep t (applyHouseholderRight t v1 v2 tau k nrow) := by
  simp only [applyHouseholderRight]
  exact presK_foldl Keep _ _ (fun acc i hi hw => by
    have := hk i (List.mem_range.mp hi)
    exact presK_set3 Keep acc hw _ _ _ _ _ _ _ _ _ this.1 this.2.1 this.2.2) t h

theorem presK_rotRight (Keep : Nat → Nat → Prop) (t : Mat α) (h : WF t) (nrow p q : Nat) (c s : α)
    (hk : ∀ i, i < nrow → ¬ Keep i p ∧ ¬ Keep i q) : PresK Keep t (applyOnTheRight t nrow p q c s) := by
  simp only [applyOnTheRight]
  split
  · exact presK_refl Keep t h
  · exact presK_foldl Keep _ _ (fun acc i hi hw => by
      have := hk i (List.mem_range.mp hi)
      exact presK_set2 Keep acc hw _ _ _ _ _ _ this.1 this.2) t h

theorem presK_rotLeft (Keep : Nat → Nat → Prop) (t : Mat α) (h : WF t) (c0 ncol p q : Nat) (c s : α)
    (hk : ∀ jj, jj < ncol → ¬ Keep p (c0 + jj) ∧ ¬ Keep q (c0 + jj)) : PresK Keep t (applyOnTheLeftAdj t c0 ncol p q c s) := by
  simp only [applyOnTheLeftAdj]
  split
  · exact presK_refl Keep t h
  · exact presK_foldl Keep _ _ (fun acc jj hjj hw => by
      have := hk jj (List.mem_range.mp hjj)
      exact presK_set2 Keep acc hw _ _ _ _ _ _ this.1 this.2) t h

theorem presK_subDiagShift (Keep : Nat → Nat → Prop) (t : Mat α) (h : WF t) (iu : Nat) (x : α) (hk : ∀ i, ¬ Keep i i) :
    PresK Keep t (subDiagShift t iu x) := by
  simp only [subDiagShift]
  exact presK_foldl Keep _ _ (fun acc i _ hw => presK_set Keep acc hw _ _ _ (hk i)) t h

theorem presK_computeShift (Keep : Nat → Nat → Prop) (t : Mat α) (h : WF t) (iu iter : Nat) (ex : α) (hk : ∀ i, ¬ Keep i i) :
    PresK Keep t (computeShift iu iter ex t).1 := by
  simp only [computeShift]
  by_cases h10 : iter = 10
  · have h30 : ¬ iter = 30 := by omega
    simp only [if_pos h10, if_neg h30]
    exact presK_subDiagShift Keep t h iu _ hk
  · simp only [if_neg h10]
    by_cases h30 : iter = 30
    · simp only [if_pos h30]
      split
      · exact presK_subDiagShift Keep t h iu _ hk
      · exact presK_refl Keep t h
    · simp only [if_neg h30]
      exact presK_refl Keep t h

/-- strictly below the sub-diagonal -/
def Below (i j : Nat) : Prop := j + 2 ≤ i
/-- the positions a Francis sweep on the window `im .. iu` may pollute; exactly the positions its clean-up loop zeroes -/
def Poll (im iu i j : Nat) : Prop := im + 2 ≤ i ∧ i ≤ iu ∧ (j + 2 = i ∨ (im + 2 < i ∧ j + 3 = i))
def KeepF (im iu i j : Nat) : Prop := Below i j ∧ ¬ Poll im iu i j

theorem presK_francisBody (n il im iu : Nat) (near0 : α) (fv : α × α × α) (s : TU α) (h : WF s.t) (k : Nat)
    (hk1 : im ≤ k) (hk2 : k + 2 ≤ iu) :
    PresK (KeepF im iu) s.t (francisBody n il im iu near0 fv s k).t := by
  simp only [francisBody]
  generalize (if k = im then fv else (s.t.get k (k - 1), s.t.get (k + 1) (k - 1), s.t.get (k + 2) (k - 1))) = v
  generalize makeHouseholder v.1 v.2.1 v.2.2 = hh
  have nk : ¬ KeepF im iu k (k - 1) := by unfold KeepF Below Poll; omega
  have hw0 : WF (if (decide (k = im) && decide (il < k)) = true then s.t.set k (k - 1) (-s.t.get k (k - 1))
      else if (!decide (k = im)) = true then s.t.set k (k - 1) hh.beta else s.t) := by
    split
    · exact set_wf _ _ _ _ h
    · split
      · exact set_wf _ _ _ _ h
      · exact h
  have hp0 : PresK (KeepF im iu) s.t (if (decide (k = im) && decide (il < k)) = true then s.t.set k (k - 1) (-s.t.get k (k - 1))
      else if (!decide (k = im)) = true then s.t.set k (k - 1) hh.beta else s.t) := by
    split
    · exact presK_set _ _ h _ _ _ nk
    · split
      · exact presK_set _ _ h _ _ _ nk
      · exact presK_refl _ _ h
  split
  · have hp1 := presK_hhLeft (KeepF im iu) _ hw0 hh.v1 hh.v2 hh.tau k k (n - k) (by
      intro jj _; unfold KeepF Below Poll; omega)
    have hp2 := presK_hhRight (KeepF im iu) _ hp1.1 hh.v1 hh.v2 hh.tau k (min iu (k + 3) + 1) (by
      intro i hi; unfold KeepF Below Poll; omega)
    exact presK_trans hp0 (presK_trans hp1 hp2)
  · exact presK_refl _ _ h

/-- writing zeros keeps a zero entry zero -/
theorem zero_set_zero (t : Mat α) (h : WF t) (i j i0 j0 : Nat) (hi : i < t.rows) (hz : t.get i j = (zero : α)) :
    (t.set i0 j0 zero).get i j = (zero : α) := by
  by_cases hb : i0 < t.rows ∧ j0 < t.cols
  · rw [get_set _ h _ _ _ _ _ hb.1 hb.2 hi]; split
    · rfl
    · exact hz
  · simp only [Mat.set, if_neg hb]; exact hz

/-- the clean-up loop of `perform_francis_qr_step` -/
def cleanStep (im : Nat) (acc : Mat α) (ii : Nat) : Mat α :=
  if im + 2 < im + 2 + ii then (acc.set (im + 2 + ii) (im + 2 + ii - 2) zero).set (im + 2 + ii) (im + 2 + ii - 3) zero
  else acc.set (im + 2 + ii) (im + 2 + ii - 2) zero

theorem cleanStep_wf (im : Nat) (acc : Mat α) (ii : Nat) (h : WF acc) : WF (cleanStep im acc ii) := by
  simp only [cleanStep]; split
  · exact set_wf _ _ _ _ (set_wf _ _ _ _ h)
  · exact set_wf _ _ _ _ h
theorem cleanStep_rows (im : Nat) (acc : Mat α) (ii : Nat) : (cleanStep im acc ii).rows = acc.rows := by
  simp only [cleanStep]; split
  · rw [set_rows, set_rows]
  · rw [set_rows]

theorem cleanStep_keeps_zero (im : Nat) (acc : Mat α) (ii : Nat) (h : WF acc) (i j : Nat) (hi : i < acc.rows)
    (hz : acc.get i j = (zero : α)) : (cleanStep im acc ii).get i j = (zero : α) := by
  simp only [cleanStep]; split
  · exact zero_set_zero _ (set_wf _ _ _ _ h) _ _ _ _ (by rw [set_rows]; exact hi) (zero_set_zero _ h _ _ _ _ hi hz)
  · exact zero_set_zero _ h _ _ _ _ hi hz

theorem clean_keeps_zero (im : Nat) (l : List Nat) (t : Mat α) (h : WF t) (i j : Nat) (hi : i < t.rows)
    (hz : t.get i j = (zero : α)) : (l.foldl (cleanStep im) t).get i j = (zero : α) := by
  induction l generalizing t with
  | nil => exact hz
  | cons x l ih =>
    simp only [List.foldl_cons]
    exact ih _ (cleanStep_wf im t x h) (by rw [cleanStep_rows]; exact hi) (cleanStep_keeps_zero im t x h i j hi hz)

theorem cleanStep_sets (im : Nat) (acc : Mat α) (ii : Nat) (h : WF acc) (j : Nat) (hi : im + 2 + ii < acc.rows) (hc : acc.cols = acc.rows)
    (hj : j + 2 = im + 2 + ii ∨ (im + 2 < im + 2 + ii ∧ j + 3 = im + 2 + ii)) : (cleanStep im acc ii).get (im + 2 + ii) j = (zero : α) := by
  simp only [cleanStep]
  rcases hj with hj | ⟨hlt, hj⟩
  · have e : j = im + 2 + ii - 2 := by omega
    split
    · apply zero_set_zero _ (set_wf _ _ _ _ h) _ _ _ _ (by rw [set_rows]; exact hi)
      rw [e]; exact get_set_self _ h _ _ _ hi (by omega)
    · rw [e]; exact get_set_self _ h _ _ _ hi (by omega)
  · have e : j = im + 2 + ii - 3 := by omega
    rw [if_pos hlt, e]
    exact get_set_self _ (set_wf _ _ _ _ h) _ _ _ (by rw [set_rows]; exact hi) (by rw [set_cols]; omega)

theorem clean_sets (im : Nat) (l : List Nat) (t : Mat α) (h : WF t) (ii0 j : Nat) (hmem : ii0 ∈ l) (hi : im + 2 + ii0 < t.rows)
    (hc : t.cols = t.rows)
    (hj : j + 2 = im + 2 + ii0 ∨ (im + 2 < im + 2 + ii0 ∧ j + 3 = im + 2 + ii0)) :
    (l.foldl (cleanStep im) t).get (im + 2 + ii0) j = (zero : α) := by
  induction l generalizing t with
  | nil => cases hmem
  | cons x l ih =>
    simp only [List.foldl_cons]
    by_cases hx : x = ii0
    · subst hx
      exact clean_keeps_zero im l _ (cleanStep_wf im t x h) _ _ (by rw [cleanStep_rows]; exact hi) (cleanStep_sets im t x h j hi hc hj)
    · have hmem' : ii0 ∈ l := by
        cases hmem with
        | head => exact absurd rfl hx
        | tail _ h' => exact h'
      have hc' : (cleanStep im t x).cols = (cleanStep im t x).rows := by
        simp only [cleanStep]; split
        · rw [set_cols, set_cols, set_rows, set_rows]; exact hc
        · rw [set_cols, set_rows]; exact hc
      exact ih _ (cleanStep_wf im t x h) hmem' (by rw [cleanStep_rows]; exact hi) hc'

/-- upper Hessenberg shape: every entry strictly below the sub-diagonal is exactly the constant `0` -/
def Hess (n : Nat) (t : Mat α) : Prop := ∀ i j, j + 2 ≤ i → i < n → t.get i j = (zero : α)

theorem hess_presK_below {n : Nat} {t t' : Mat α} (hr : t.rows = n) (hH : Hess n t) (hp : PresK Below t t') : Hess n t' := by
  intro i j hb hi
  rw [hp.2.2.2 i j hb (by rw [hr]; exact hi)]; exact hH i j hb hi

theorem hess_performFrancis (n il im iu : Nat) (near0 : α) (fv : α × α × α) (s : TU α) (h : WF s.t)
    (hr : s.t.rows = n) (hc : s.t.cols = n) (hiu : iu < n) (hH : Hess n s.t) :
    Hess n (performFrancis n il im iu near0 fv s).t := by
  simp only [performFrancis]
  have h1 : PresK (KeepF im iu) s.t ((List.range (iu - 1 - im)).foldl (fun acc kk => francisBody n il im iu near0 fv acc (im + kk)) s).t :=
    presK_foldl_proj (KeepF im iu) (fun x : TU α => x.t) _ _ (fun acc kk hkk hw => by
      have := List.mem_range.mp hkk
      exact presK_francisBody n il im iu near0 fv acc hw (im + kk) (by omega) (by omega)) s h
  generalize ((List.range (iu - 1 - im)).foldl (fun acc kk => francisBody n il im iu near0 fv acc (im + kk)) s) = s1 at h1 ⊢
  generalize makeGivens (s1.t.get (iu - 1) (iu - 2)) (s1.t.get iu (iu - 2)) = rot
  have h2 : PresK (KeepF im iu) s1.t (if Sc.gt (Sc.abs rot.r) near0 = true then
        ({ t := applyOnTheRight (applyOnTheLeftAdj (s1.t.set (iu - 1) (iu - 2) rot.r) (iu - 1) (n - iu + 1) (iu - 1) iu rot.c rot.s) (iu + 1) (iu - 1) iu rot.c rot.s,
           u := applyOnTheRight s1.u n (iu - 1) iu rot.c rot.s } : TU α) else s1).t := by
    split
    · have p1 := presK_set (KeepF im iu) s1.t h1.1 (iu - 1) (iu - 2) rot.r (by unfold KeepF Below Poll; omega)
      have p2 := presK_rotLeft (KeepF im iu) _ p1.1 (iu - 1) (n - iu + 1) (iu - 1) iu rot.c rot.s (by
        intro jj _; unfold KeepF Below Poll; omega)
      have p3 := presK_rotRight (KeepF im iu) _ p2.1 (iu + 1) (iu - 1) iu rot.c rot.s (by
        intro i hi; unfold KeepF Below Poll; omega)
      exact presK_trans p1 (presK_trans p2 p3)
    · exact presK_refl _ _ h1.1
  have h12 := presK_trans h1 h2
  generalize (if Sc.gt (Sc.abs rot.r) near0 = true then
        ({ t := applyOnTheRight (applyOnTheLeftAdj (s1.t.set (iu - 1) (iu - 2) rot.r) (iu - 1) (n - iu + 1) (iu - 1) iu rot.c rot.s) (iu + 1) (iu - 1) iu rot.c rot.s,
           u := applyOnTheRight s1.u n (iu - 1) iu rot.c rot.s } : TU α) else s1) = s2 at h12 ⊢
  have efun : (fun (acc : Mat α) ii => if im + 2 < im + 2 + ii then ((acc.set (im + 2 + ii) (im + 2 + ii - 2) zero).set (im + 2 + ii) (im + 2 + ii - 3) zero)
      else (acc.set (im + 2 + ii) (im + 2 + ii - 2) zero)) = cleanStep im := by
    funext acc ii; simp only [cleanStep]
  rw [efun]
  intro i j hb hi
  have hr2 : s2.t.rows = n := by rw [h12.2.1, hr]
  have hc2 : s2.t.cols = n := by rw [h12.2.2.1, hc]
  by_cases hp : Poll im iu i j
  · obtain ⟨p1, p2, p3⟩ := hp
    have ei : i = im + 2 + (i - im - 2) := by omega
    rw [ei]
    apply clean_sets im _ s2.t h12.1 (i - im - 2) j (List.mem_range.mpr (by omega)) (by rw [hr2]; omega) (by rw [hr2, hc2])
    omega
  · apply clean_keeps_zero im _ s2.t h12.1 i j (by rw [hr2]; exact hi)
    rw [h12.2.2.2 i j ⟨hb, hp⟩ (by rw [hr]; exact hi)]
    exact hH i j hb hi

theorem presK_split (n iu : Nat) (ex : α) (s : TU α) (h : WF s.t) : PresK Below s.t (splitOffTwoRows n iu ex s).t := by
  simp only [splitOffTwoRows]
  have p1 := presK_set Below s.t h iu iu (s.t.get iu iu + ex) (by unfold Below; omega)
  have p2 := presK_set Below _ p1.1 (iu - 1) (iu - 1) ((s.t.set iu iu (s.t.get iu iu + ex)).get (iu - 1) (iu - 1) + ex) (by unfold Below; omega)
  have p12 := presK_trans p1 p2
  generalize ((s.t.set iu iu (s.t.get iu iu + ex)).set (iu - 1) (iu - 1) ((s.t.set iu iu (s.t.get iu iu + ex)).get (iu - 1) (iu - 1) + ex)) = t2 at p2 p12 ⊢
  generalize (TridiagEigen.half * (s.t.get (iu - 1) (iu - 1) - s.t.get iu iu) : α) = p
  generalize (p * p + s.t.get iu (iu - 1) * s.t.get (iu - 1) iu : α) = q
  generalize makeGivens (if Sc.ge p zero = true then p + Sc.sqrt (Sc.abs q) else p - Sc.sqrt (Sc.abs q)) (t2.get iu (iu - 1)) = rot
  have p3 : PresK Below s.t (if Sc.ge q zero = true then
        ({ t := (applyOnTheRight (applyOnTheLeftAdj t2 (iu - 1) (n - iu + 1) (iu - 1) iu rot.c rot.s) (iu + 1) (iu - 1) iu rot.c rot.s).set iu (iu - 1) zero,
           u := applyOnTheRight s.u n (iu - 1) iu rot.c rot.s } : TU α) else { t := t2, u := s.u }).t := by
    split
    · have a1 := presK_rotLeft Below t2 p12.1 (iu - 1) (n - iu + 1) (iu - 1) iu rot.c rot.s (by intro jj _; unfold Below; omega)
      have a2 := presK_rotRight Below _ a1.1 (iu + 1) (iu - 1) iu rot.c rot.s (by intro i hi; unfold Below; omega)
      have a3 := presK_set Below _ a2.1 iu (iu - 1) zero (by unfold Below; omega)
      exact presK_trans p12 (presK_trans a1 (presK_trans a2 a3))
    · exact p12
  generalize (if Sc.ge q zero = true then
        ({ t := (applyOnTheRight (applyOnTheLeftAdj t2 (iu - 1) (n - iu + 1) (iu - 1) iu rot.c rot.s) (iu + 1) (iu - 1) iu rot.c rot.s).set iu (iu - 1) zero,
           u := applyOnTheRight s.u n (iu - 1) iu rot.c rot.s } : TU α) else { t := t2, u := s.u }) = s3 at p3 ⊢
  split
  · exact presK_trans p3 (presK_set Below _ p3.1 (iu - 1) (iu - 2) zero (by unfold Below; omega))
  · exact p3

/-- invariant: well-formed `n × n`, upper Hessenberg -/
structure HInv (n m : Nat) (t : Mat α) : Prop where
  wf : WF t
  rows : t.rows = n
  cols : t.cols = n
  le : m ≤ n
  hess : Hess n t

theorem hinv_presK {n m m' : Nat} {t t' : Mat α} (hI : HInv n m t) (hp : PresK Below t t') (hm : m' ≤ m) : HInv n m' t' :=
  ⟨hp.1, by rw [hp.2.1, hI.rows], by rw [hp.2.2.1, hI.cols], by have := hI.le; omega, hess_presK_below hI.rows hI.hess hp⟩

/-- **the Schur main loop keeps `T` upper Hessenberg**, whatever the comparisons decide -/
theorem mainLoop_hess (n : Nat) (near0 : α) (f m iter total : Nat) (ex : α) (s : TU α) (hI : HInv n m s.t) :
    Hess n (mainLoop n near0 f m iter total ex s).t := by
  induction f generalizing m iter total ex s with
  | zero => simp only [mainLoop]; exact hI.hess
  | succ f ih =>
    simp only [mainLoop]
    by_cases hm : m = 0
    · simp only [if_pos hm]; exact hI.hess
    · simp only [if_neg hm]
      have hmn := hI.le
      by_cases h1 : findSmallSubdiag s.t near0 (m - 1) = m - 1
      · simp only [if_pos h1]
        apply ih (m - 1)
        have hp : PresK Below s.t (if 0 < m - 1 then (s.t.set (m - 1) (m - 1) (s.t.get (m - 1) (m - 1) + ex)).set (m - 1) (m - 1 - 1) zero
            else s.t.set (m - 1) (m - 1) (s.t.get (m - 1) (m - 1) + ex)) := by
          split
          · exact presK_set2 Below s.t hI.wf _ _ _ _ _ _ (by unfold Below; omega) (by unfold Below; omega)
          · exact presK_set Below s.t hI.wf _ _ _ (by unfold Below; omega)
        exact hinv_presK hI hp (by omega)
      · simp only [if_neg h1]
        by_cases h2 : findSmallSubdiag s.t near0 (m - 1) + 1 = m - 1
        · simp only [if_pos h2]
          apply ih (m - 2)
          exact hinv_presK hI (presK_split n (m - 1) ex s hI.wf) (by omega)
        · simp only [if_neg h2]
          generalize hcs : computeShift (m - 1) iter ex s.t = cs
          obtain ⟨t, ex', sh⟩ := cs
          have ht : t = (computeShift (m - 1) iter ex s.t).1 := by rw [hcs]
          simp only
          by_cases hcap : 40 * n < total + 1
          · simp only [if_pos hcap]
            have hp1 : PresK Below s.t t := by
              rw [ht]; exact presK_computeShift Below s.t hI.wf (m - 1) iter ex (by intro i; unfold Below; omega)
            exact (hinv_presK hI hp1 (Nat.le_refl m)).hess
          · simp only [if_neg hcap]
            generalize hif : initFrancis t (findSmallSubdiag s.t near0 (m - 1)) sh (m - 1 - 1 - findSmallSubdiag s.t near0 (m - 1)) (m - 1 - 2) = fr
            obtain ⟨im, v0, v1, v2⟩ := fr
            simp only
            apply ih m
            have hp1 : PresK Below s.t t := by
              rw [ht]; exact presK_computeShift Below s.t hI.wf (m - 1) iter ex (by intro i; unfold Below; omega)
            have hI1 := hinv_presK hI hp1 (Nat.le_refl m)
            have hp2 := C09Schur.pres_performFrancis n (findSmallSubdiag s.t near0 (m - 1)) im (m - 1) near0 (v0, v1, v2) ⟨t, s.u⟩ hI1.wf
            refine ⟨hp2.1, by rw [hp2.2.1]; exact hI1.rows, by rw [hp2.2.2.1]; exact hI1.cols, hmn, ?_⟩
            exact hess_performFrancis n _ im (m - 1) near0 (v0, v1, v2) ⟨t, s.u⟩ hI1.wf hI1.rows hI1.cols (by omega) hI1.hess

/-- **`UpperHessenbergSchur::compute` returns a quasi-upper-triangular `T`** (model, every scalar type, every comparison outcome):
    for an upper Hessenberg input every entry strictly below the sub-diagonal of the returned `T` is exactly `0`, and
    (unless `norm == 0`) no two consecutive sub-diagonal entries are non-zero. -/
theorem compute_quasi (n : Nat) (h : Mat α) (hw : WF h) (hr : h.rows = n) (hc : h.cols = n) (hH : Hess n h) (r : Decomp α)
    (hok : compute n h = Res.ok r) :
    Hess n r.t ∧
    ((Sc.ne (l1norm n h) (zero : α) = false ∧ r.t = h) ∨
     (∀ i, 0 < i → i + 1 < n → r.t.get i (i - 1) = (zero : α) ∨ r.t.get (i + 1) i = (zero : α))) := by
  refine ⟨?_, C09Schur.compute_struct n h hw hr hc r hok⟩
  simp only [compute] at hok
  split at hok
  · cases hok
    simp only [core]
    split
    · exact mainLoop_hess n _ _ n 0 0 zero ⟨h, Mat.identity n⟩ ⟨hw, hr, hc, Nat.le_refl _, hH⟩
    · exact hH
  · cases hok

end C09Hess
