/-
  C12 helper: the statement shape "a guard accepts exactly a documented domain and rejects everything else with
  std::invalid_argument", and the tactic that proves the normal form of a regenerated shape guard.
-/
import SpectraVerif.Prelude.Sc

namespace C12

/-- the guard outcome `g` is acceptance exactly on `dom`; every rejection is `std::invalid_argument` -/
def Validates (g : Res Unit) (dom : Prop) : Prop :=
  (g = Res.ok () ↔ dom) ∧ (g ≠ Res.ok () → g = Res.throw "std::invalid_argument")

theorem validates_of_eq {g : Res Unit} {dom : Prop} [Decidable dom]
    (h : g = if dom then Res.ok () else Res.throw "std::invalid_argument") : Validates g dom := by
  unfold Validates
  by_cases hd : dom
  · rw [if_pos hd] at h; subst h; exact ⟨⟨fun _ => hd, fun _ => rfl⟩, fun hne => absurd rfl hne⟩
  · rw [if_neg hd] at h; subst h
    refine ⟨⟨fun hk => ?_, fun hk => absurd hk hd⟩, fun _ => rfl⟩
    cases hk

theorem Validates.throws_iff {g : Res Unit} {dom : Prop} (h : Validates g dom) :
    g = Res.throw "std::invalid_argument" ↔ ¬ dom := by
  constructor
  · intro ht hd
    have := h.1.mpr hd
    rw [ht] at this; cases this
  · intro hnd
    exact h.2 (fun hk => hnd (h.1.mp hk))

/-- normal form of a translated integer guard: unfold, turn the Boolean tests into propositions, split every `if`
    (of the guard and of the documented domain) and close each leaf by reflexivity or linear integer arithmetic.
    A product of two shape parameters (`size()`) is an opaque atom for `omega`: a guard that compares coefficient counts
    instead of shapes does not go through. -/
macro "shape_guard_eq " f:ident : tactic => `(tactic| (
  simp only [$f:ident, Bool.or_eq_true, Bool.and_eq_true, Bool.not_eq_true', decide_eq_true_eq, decide_eq_false_iff_not, ne_eq]
  repeat' split
  all_goals first | rfl | omega | simp_all))

end C12
