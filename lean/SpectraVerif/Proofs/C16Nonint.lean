/-
  C16: `PartialSVDSolver::compute` calls `m_eigs->init()` itself, so — by the non-interference theorem of the inner solver (C06) —
  its outcome and everything the inner solver hands out afterwards are independent of the object's history.  Together with
  `c16_latest` this says: the factors are exactly what a FRESH solver returns for the same arguments
  (the predicate the harness evaluates on the real class).
-/
import SpectraVerif.Proofs.OrchNonint
import SpectraVerif.Proofs.C16Model

namespace SVD
open Lin
set_option linter.unusedSectionVars false

section
variable {φ α ε κ β τ : Type} [Add α] [Sub α] [Mul α] [Div α] [Neg α] [Sc α]
variable (K : Orch.Kern φ α ε κ β τ (Vec α)) (c : Orch.Cfg) (v0 : β) {R : φ → φ → Prop}

theorem compute_history_independent (hK : Orch.Respects K R) (maxit : Nat) (tol : τ) (s1 s2 : St φ α ε κ) :
    (compute K c v0 maxit tol s1).2 = (compute K c v0 maxit tol s2).2 ∧
    (∀ r, (compute K c v0 maxit tol s1).2 = .ok r →
      Orch.eigenvalues K c (compute K c v0 maxit tol s1).1.eigs = Orch.eigenvalues K c (compute K c v0 maxit tol s2).1.eigs ∧
      ∀ nvec, Orch.eigenvectors K c nvec (compute K c v0 maxit tol s1).1.eigs =
              Orch.eigenvectors K c nvec (compute K c v0 maxit tol s2).1.eigs) := by
  obtain ⟨hs, he⟩ := Orch.init_sim K c hK v0 s1.eigs s2.eigs
  unfold compute
  rcases h1 : Orch.init K c v0 s1.eigs with ⟨e1, x1⟩
  rcases h2 : Orch.init K c v0 s2.eigs with ⟨e2, x2⟩
  rw [h1, h2] at hs he
  dsimp only at hs he
  subst he
  cases x1 with
  | some x => exact ⟨rfl, fun r h => by simp at h⟩
  | none =>
    dsimp only
    obtain ⟨hst, hout, _, _, _⟩ := Orch.compute_sim K c hK LARGEST_ALGE maxit tol LARGEST_ALGE e1 e2 hs
    cases ho1 : (Orch.compute K c LARGEST_ALGE maxit tol LARGEST_ALGE e1).out with
    | error x =>
      have ho2 : (Orch.compute K c LARGEST_ALGE maxit tol LARGEST_ALGE e2).out = .error x := by rw [← hout, ho1]
      rw [ho2]
      exact ⟨rfl, fun r h => by simp at h⟩
    | ok n =>
      have ho2 : (Orch.compute K c LARGEST_ALGE maxit tol LARGEST_ALGE e2).out = .ok n := by rw [← hout, ho1]
      rw [ho2]
      refine ⟨rfl, fun r _ => ?_⟩
      dsimp only
      exact ⟨(Orch.accessors_sim K c hK _ _ hst 0).1, fun nvec => (Orch.accessors_sim K c hK _ _ hst nvec).2.1⟩

end
end SVD
