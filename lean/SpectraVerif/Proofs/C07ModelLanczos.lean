/-
  C07 at the level of the executable model: ONE PASS of `Lanczos.factorStep` (Model/Lanczos.lean) at an exact field is a C07
  `extend` step (helper file of Properties/C07.lean and of the C01 discharge files).

  Setting: any `Sc` instance on an ordered field whose comparisons / abs / sqrt are the exact ones (`ExactSc`; satisfied by
  `scOfField F` with an exact `F.sqrt`), operator `op` with the identity `B` whose `perform_op` is a linear map `A`, self-adjoint
  for the Euclidean form (symmetric matrix).

  `PassInv n m A s i`: what `factorize_from`'s loop maintains at index `i` — array shapes, the `i`-step Krylov relation, `VᵀV = I`,
  `Vᵀf = 0`, `beta = ‖f‖`, `H` symmetric tridiagonal on the leading block and clean (zero off the three diagonals) outside it.

  `lanczos_pass_regular`: on a state with `PassInv … i`, `1 ≤ i < m`, `beta ≥ near_0`, `beta ≠ 0`, one pass
    * does not restart (the second, "local" criterion `|<v_{i-1}, f/beta>| > sqrt(eps)` cannot fire: the inner product is exactly 0),
    * does not enter the re-orthogonalisation loop (`V'ᵀ f' = 0` exactly: the three-term recurrence IS full Gram–Schmidt for a
      self-adjoint operator and an orthonormal basis, `C07.lanczos_coeffs`), in particular never takes the `f := 0` shortcut,
    * produces EXACTLY the state `(absAt i s).step (.extend beta h)` of `C07.St.step` (as functions: `V`, `H`, `f`, `k`, `R`),
      with `Step.ok` and `Step.orthOk`, and `PassInv … (i+1)` again.
-/
import SpectraVerif.Proofs.C07Bridge
import SpectraVerif.Proofs.C06StaleV
import SpectraVerif.Proofs.C01ExactOrth

set_option linter.unusedSectionVars false
set_option linter.unusedVariables false
open Finset Lin


namespace C07
variable {𝕜 : Type*} [Field 𝕜] {E : Type*} [AddCommGroup E] [Module 𝕜 E]

/-- the three-term residual: `A v_k − β v_{k−1} − α v_k` -/
theorem resid_lanH (A : E →ₗ[𝕜] E) (V' : ℕ → E) (k : ℕ) (hk : 1 ≤ k) (α β : 𝕜) :
    resid A V' k (lanH k α β) = A (V' k) - β • V' (k - 1) - α • V' k := by
  unfold resid
  rw [sum_range_succ]
  have h1 : ∑ x ∈ range k, lanH k α β x • V' x = β • V' (k - 1) := by
    rw [sum_eq_single (k - 1)]
    · have : k - 1 ≠ k := by omega
      have h2 : k - 1 + 1 = k := by omega
      simp [lanH, this, h2]
    · intro b hb hne
      have hb' := mem_range.mp hb
      have : b ≠ k := by omega
      have h2 : b + 1 ≠ k := by omega
      simp [lanH, this, h2]
    · intro h; exfalso; apply h; rw [mem_range]; omega
  rw [h1]
  simp only [lanH, if_true]
  abel

theorem resid_congr (A : E →ₗ[𝕜] E) (V' : ℕ → E) (k : ℕ) (h h' : ℕ → 𝕜) (hh : ∀ a, a < k + 1 → h a = h' a) :
    resid A V' k h = resid A V' k h' := by
  unfold resid
  congr 1
  apply sum_congr rfl
  intro a ha
  rw [hh a (mem_range.mp ha)]

theorem trisym_congr (H H' : ℕ → ℕ → 𝕜) (k : ℕ) (hH : ∀ a b, a < k → b < k → H' a b = H a b) (h : TriSym H k) : TriSym H' k := by
  constructor
  · intro i j hi hj hij
    rw [hH i j hi hj]; exact h.1 i j hi hj hij
  · intro i j hi hj
    rw [hH i j hi hj, hH j i hj hi]; exact h.2 i j hi hj

/-- the three-term step (`c07_extend_lanczos` of Properties/C07.lean, restated here for the helper files) -/
theorem extend_lanczos_core (P : IP 𝕜 E) (A : E →ₗ[𝕜] E) (V : ℕ → E) (H : ℕ → ℕ → 𝕜) (f : E) (k : ℕ) (β α : 𝕜)
    (hβ : β ≠ 0) (hK : Kry A V H f k) :
    Kry A (extV V k (β⁻¹ • f)) (extH H k β (lanH k α β)) (resid A (extV V k (β⁻¹ • f)) k (lanH k α β)) (k + 1) ∧
    ((∀ x y, P.ip x (A y) = P.ip (A x) y) → P.conj β = β → ON P (extV V k (β⁻¹ • f)) (k + 1) →
        α = P.ip (extV V k (β⁻¹ • f) k) (A (extV V k (β⁻¹ • f) k)) →
        (∀ i, i < k + 1 → lanH k α β i = P.ip (extV V k (β⁻¹ • f) i) (A (extV V k (β⁻¹ • f) k))) ∧
        FO P (extV V k (β⁻¹ • f)) (resid A (extV V k (β⁻¹ • f)) k (lanH k α β)) (k + 1)) := by
  constructor
  · have := step_general A V H f k (fun _ => 0) (β⁻¹ • f) β (lanH k α β) ((kry_iff_kryE A V H f k).mp hK)
    have hd : f - β • β⁻¹ • f = 0 := by rw [smul_smul, mul_inv_cancel₀ hβ, one_smul, sub_self]
    rw [hd, extR_zero] at this
    exact (kry_iff_kryE _ _ _ _ _).mpr this
  · intro hsa hβc hON hα
    have hco : ∀ i, i < k + 1 → lanH k α β i = P.ip (extV V k (β⁻¹ • f) i) (A (extV V k (β⁻¹ • f) k)) := by
      intro i hi
      rcases Nat.lt_succ_iff_lt_or_eq.mp hi with hlt | heq
      · have hne : i ≠ k := Nat.ne_of_lt hlt
        rw [lanczos_coeffs P A V H f k β hsa hβ hβc hK hON i hlt]
        simp [lanH, hne]
      · subst heq; simp [lanH, hα]
    exact ⟨hco, resid_orth P _ (k + 1) (A (extV V k (β⁻¹ • f) k)) (lanH k α β) hON hco⟩

end C07

namespace C07L

/-- exact-arithmetic reading of the scalar class (satisfied by `scOfField F` when `F.sqrt` is an exact square root) -/
structure ExactSc (K : Type) [Field K] [LinearOrder K] [IsStrictOrderedRing K] [Sc K] : Prop where
  ofInt0 : (Sc.ofInt 0 : K) = 0
  lt : ∀ a b : K, Sc.lt a b = decide (a < b)
  abs : ∀ a : K, Sc.abs a = |a|
  sqrt : ∀ x : K, 0 ≤ x → Sc.sqrt x * Sc.sqrt x = x ∧ 0 ≤ Sc.sqrt x

section
variable {K : Type} [Field K] [LinearOrder K] [IsStrictOrderedRing K] [Sc K] (E : ExactSc K)
include E

theorem zero_eq : (Lin.zero : K) = 0 := C07R.zero_eq E.ofInt0

theorem gt_iff (a b : K) : Sc.gt a b = decide (b < a) := by unfold Sc.gt; rw [E.lt]

theorem vget_oob (x : Vec K) (r : ℕ) (hr : x.size ≤ r) : vget x r = 0 := by
  unfold vget
  rw [Array.getD_eq_getD_getElem?]
  simp [Array.getElem?_eq_none hr, zero_eq E]

theorem vget_vdivs (x : Vec K) (c : K) (r : ℕ) : vget (vdivs x c) r = vget x r / c := by
  by_cases hr : r < x.size
  · exact C07R.vget_vdivs x c r hr
  · rw [vget_oob E _ _ (by simp [vdivs]; omega), vget_oob E _ _ (by omega), zero_div]

omit E in
theorem vget_col (V : Mat K) (j r : ℕ) (hr : r < V.rows) : vget (V.col j) r = V.get r j := by
  unfold Mat.col; exact C07R.vget_vofFn _ _ _ hr

omit E in
theorem size_col (V : Mat K) (j : ℕ) : (V.col j).size = V.rows := by unfold Mat.col; exact C07R.size_vofFn _ _

theorem get_oob (V : Mat K) (hw : C08Mat.WF V) (r j : ℕ) (hr : r < V.rows) (hj : V.cols ≤ j) : V.get r j = 0 := by
  unfold Mat.get
  rw [Array.getD_eq_getD_getElem?]
  have : V.d.size ≤ r + j * V.rows := by
    rw [hw]
    calc V.rows * V.cols ≤ V.rows * j := Nat.mul_le_mul_left _ hj
      _ = j * V.rows := Nat.mul_comm _ _
      _ ≤ r + j * V.rows := Nat.le_add_left _ _
  simp [Array.getElem?_eq_none this, zero_eq E]

theorem sqNorm_eq (x : Vec K) : Lin.sqNorm x = ∑ i ∈ range x.size, vget x i * vget x i := by
  unfold Lin.sqNorm; exact C07R.sumFrom0_eq E.ofInt0 _ _

theorem norm_spec (x : Vec K) : 0 ≤ Lin.norm x ∧ Lin.norm x * Lin.norm x = ∑ i ∈ range x.size, vget x i * vget x i := by
  have h : 0 ≤ ∑ i ∈ range x.size, vget x i * vget x i := Finset.sum_nonneg (fun i _ => mul_self_nonneg _)
  unfold Lin.norm
  rw [sqNorm_eq E]
  exact ⟨(E.sqrt _ h).2, (E.sqrt _ h).1⟩

theorem maxAbs_zero (x : Vec K) (h : ∀ i, i < x.size → vget x i = 0) : Lin.maxAbs x = 0 := by
  unfold Lin.maxAbs
  rw [← Array.foldl_toList]
  have hall : ∀ a ∈ x.toList, a = (0 : K) := by
    intro a ha
    obtain ⟨i, hi, rfl⟩ := List.getElem_of_mem ha
    have := h i (by simpa using hi)
    unfold vget at this
    rw [Array.getD_eq_getD_getElem?] at this
    simpa [show i < x.size by simpa using hi] using this
  have : ∀ (l : List K), (∀ a ∈ l, a = (0:K)) → l.foldl (fun m a => if Sc.lt m (Sc.abs a) then Sc.abs a else m) (0:K) = 0 := by
    intro l
    induction l with
    | nil => intro _; rfl
    | cons a l ih =>
      intro hl
      have ha : a = 0 := hl a (List.mem_cons_self)
      simp only [List.foldl_cons]
      rw [ha, E.abs, E.lt]
      simp only [abs_zero, lt_self_iff_false, decide_false, Bool.false_eq_true, if_false]
      exact ih (fun b hb => hl b (List.mem_cons_of_mem _ hb))
  rw [zero_eq E]
  exact this _ hall

end
end C07L

namespace C07L
section
variable {K : Type} [Add K] [Sub K] [Mul K] [Div K] [Neg K] [Sc K]

/-- the straight-line code of a regular pass of `Lanczos::factorize_from` (no restart, re-orthogonalisation loop not entered) -/
def regPass (op : Arnoldi.Op K) (s : Arnoldi.State K) (i : Nat) : Arnoldi.State K :=
  let V := s.V.setCol i (vdivs s.f s.beta)
  let vi := V.col i
  let H1 := (s.H.set i (i - 1) s.beta).set (i - 1) i s.beta
  let w0 := op.A vi
  let c := V.col (i - 1)
  let w := vofFn s.n (fun j => vget w0 j - s.beta * vget c j)
  let hii := op.inner vi w
  let f := vofFn s.n (fun j => vget w j - hii * vget vi j)
  { s with V := V, H := H1.set i i hii, f := f, beta := op.norm f, ops := s.ops + 1 }

theorem factorStep_regular (op : Arnoldi.Op K) (bt es : K) (s : Arnoldi.State K) (i : Nat)
    (h1 : Sc.lt s.beta s.near0 = false)
    (h2 : Sc.lt s.beta es = true →
      Sc.gt (Sc.abs (op.inner ((s.V.setCol i (vdivs s.f s.beta)).col (i - 1)) (vdivs s.f s.beta))) es = false)
    (h3 : Sc.gt (maxAbs (op.adjoint (regPass op s i).V (i + 1) (regPass op s i).f)) (s.eps * (regPass op s i).beta) = false) :
    Lanczos.factorStep op bt es s i = regPass op s i := by
  have e := C06StaleV.factorStep_stages op bt es s i s.V
  have hs : ({ s with V := s.V } : Arnoldi.State K) = s := by cases s; rfl
  rw [hs] at e
  rw [e]
  have s1 : C06StaleV.stage1 op es s i s.V = (s.V.setCol i (vdivs s.f s.beta), false) := by
    unfold C06StaleV.stage1
    simp only [h1, Bool.not_false, if_true]
    split
    · rename_i hlt
      rw [h2 hlt]
    · rfl
  rw [s1]
  unfold C06StaleV.stage2
  simp only [Bool.false_eq_true, if_false]
  unfold C06StaleV.stage3
  simp only [Bool.false_eq_true, if_false, Bool.not_false, if_true]
  unfold regPass at h3 ⊢
  simp only at h3 ⊢
  unfold Lanczos.reorth
  simp only [h3, Bool.and_false, Bool.false_eq_true, if_false]
end
end C07L

/-! ### bridge: arrays ↔ vectors of `Fin n → K` -/
namespace C07L
open C07 C01E
section
variable {K : Type} [Field K] [LinearOrder K] [IsStrictOrderedRing K] [Sc K] (E : ExactSc K)
include E

theorem dot_vec (n : ℕ) (x y : Vec K) (hx : x.size = n) : Lin.dot x y = dotProduct (vecOf n x) (vecOf n y) := by
  rw [C07R.dot_eq E.ofInt0, hx]
  simp only [dotProduct, vecOf]
  exact (Fin.sum_univ_eq_sum_range (fun i => vget x i * vget y i) n).symm

omit E in
theorem vecOf_col (n : ℕ) (V : Mat K) (j : ℕ) (hr : V.rows = n) : vecOf n (V.col j) = colOf n V j := by
  funext r
  simp only [vecOf, colOf]
  exact vget_col V j r.val (by rw [hr]; exact r.isLt)

theorem tmul_vec (n : ℕ) (V : Mat K) (k : ℕ) (y : Vec K) (j : ℕ) (hj : j < k) (hr : V.rows = n) :
    vget (Arnoldi.tmulVecK0 V k y) j = dotProduct (colOf n V j) (vecOf n y) := by
  rw [C07R.tmulVecK0_eq E.ofInt0 V k y j hj, hr]
  simp only [dotProduct, vecOf, colOf]
  exact (Fin.sum_univ_eq_sum_range (fun i => V.get i j * vget y i) n).symm

omit E in
theorem vecOf_vofFn (n : ℕ) (g : ℕ → K) : vecOf n (vofFn n g) = fun r => g r.val := by
  funext r
  simp only [vecOf]
  exact C07R.vget_vofFn n g r.val r.isLt

theorem norm_vec (n : ℕ) (x : Vec K) (hx : x.size = n) :
    0 ≤ Lin.norm x ∧ Lin.norm x * Lin.norm x = dotProduct (vecOf n x) (vecOf n x) := by
  obtain ⟨h1, h2⟩ := norm_spec E x
  refine ⟨h1, ?_⟩
  rw [h2, hx]
  simp only [dotProduct, vecOf]
  exact (Fin.sum_univ_eq_sum_range (fun i => vget x i * vget x i) n).symm

/-- the leading `i × i` block of `H` plus the sub-diagonal entry `(i, i-1)` that `compress_V` reads -/
def maskH (i : ℕ) (H : Mat K) : ℕ → ℕ → K := fun a b => if (a < i ∧ b < i) ∨ (a = i ∧ b + 1 = i) then H.get a b else 0

omit E in
theorem maskH_apply (i : ℕ) (H : Mat K) (a b : ℕ) :
    maskH i H a b = if (a < i ∧ b < i) ∨ (a = i ∧ b + 1 = i) then H.get a b else 0 := rfl
omit E in
theorem extH_apply (H : ℕ → ℕ → K) (k : ℕ) (sub : K) (h : ℕ → K) (i j : ℕ) :
    extH H k sub h i j = if j = k then h i else if i = k then (if j + 1 = k then sub else 0) else H i j := rfl
omit E in
theorem lanH_apply (k : ℕ) (α β : K) (i : ℕ) : lanH k α β i = if i = k then α else if i + 1 = k then β else 0 := rfl

/-- a model state read as a C07 state of dimension `i` (no error columns) -/
def absAt (n i : ℕ) (s : Arnoldi.State K) : C07.St K (Fin n → K) := ⟨colOf n s.V, maskH i s.H, vecOf n s.f, i, fun _ => 0⟩

/-- outside the leading `i × i` block `H` is zero off the three diagonals (true after `factorize_from`'s `setZero` calls, and for
    the tridiagonal `QᵀHQ` that `compress_H` installs) -/
def Clean (m i : ℕ) (H : Mat K) : Prop :=
  ∀ a b, a < m → b < m → (i ≤ a ∨ i ≤ b) → (a + 1 < b ∨ b + 1 < a) → H.get a b = 0

/-- the invariant of `Lanczos::factorize_from`'s loop at index `i` in exact arithmetic -/
structure PassInv (n m : ℕ) (A : (Fin n → K) →ₗ[K] (Fin n → K)) (s : Arnoldi.State K) (i : ℕ) : Prop where
  hn : s.n = n
  hm : s.m = m
  Vw : C08Mat.WF s.V
  Vr : s.V.rows = n
  Vc : s.V.cols = m
  Hw : C08Mat.WF s.H
  Hr : s.H.rows = m
  Hc : s.H.cols = m
  im : i ≤ m
  kry : Kry A (colOf n s.V) (maskH i s.H) (vecOf n s.f) i
  on : ON (dotIP n) (colOf n s.V) i
  fo : FO (dotIP n) (colOf n s.V) (vecOf n s.f) i
  beta0 : 0 ≤ s.beta
  betasq : s.beta * s.beta = dotProduct (vecOf n s.f) (vecOf n s.f)
  tri : TriSym (maskH i s.H) i
  clean : Clean m i s.H
  eps0 : 0 ≤ s.eps

end
end C07L

namespace C07L
open C07 C01E
section
variable {K : Type} [Field K] [LinearOrder K] [IsStrictOrderedRing K] [Sc K] (E : ExactSc K)
include E

omit E in
theorem St_ext {𝕜 E' : Type} (a b : C07.St 𝕜 E') (hV : a.V = b.V) (hH : a.H = b.H) (hf : a.f = b.f) (hk : a.k = b.k) (hR : a.R = b.R) :
    a = b := by
  cases a; cases b; simp_all

omit E in
/-- entries of `H` after the three writes of a pass -/
theorem set3_get (H : Mat K) (hw : C08Mat.WF H) (m i : ℕ) (hr : H.rows = m) (hc : H.cols = m) (hi1 : 1 ≤ i) (him : i < m) (x y z : K)
    (a b : ℕ) (ha : a < m) (hb : b < m) :
    (((H.set i (i - 1) x).set (i - 1) i y).set i i z).get a b =
      if a = i ∧ b = i then z else if a = i - 1 ∧ b = i then y else if a = i ∧ b = i - 1 then x else H.get a b := by
  have w1 := C08Mat.set_WF hw i (i - 1) x
  have w2 := C08Mat.set_WF w1 (i - 1) i y
  rw [C08Mat.get_set w2 z (by simp; omega) (by simp; omega) (by simp; omega) (by simp; omega)]
  rw [C08Mat.get_set w1 y (by simp; omega) (by simp; omega) (by simp; omega) (by simp; omega)]
  rw [C08Mat.get_set hw x (by omega) (by omega) (by omega) (by omega)]

omit E in
theorem set3_dims (H : Mat K) (hw : C08Mat.WF H) (i : ℕ) (x y z : K) :
    C08Mat.WF (((H.set i (i - 1) x).set (i - 1) i y).set i i z) ∧
    (((H.set i (i - 1) x).set (i - 1) i y).set i i z).rows = H.rows ∧
    (((H.set i (i - 1) x).set (i - 1) i y).set i i z).cols = H.cols :=
  ⟨C08Mat.set_WF (C08Mat.set_WF (C08Mat.set_WF hw _ _ _) _ _ _) _ _ _, by simp, by simp⟩

/-- column view of `setCol`: column `i` replaced, everything else (also out of range) as before -/
theorem colOf_setCol (n m : ℕ) (V : Mat K) (hw : C08Mat.WF V) (hr : V.rows = n) (hc : V.cols = m) (i : ℕ) (hi : i < m) (v : Vec K) :
    colOf n (V.setCol i v) = extV (colOf n V) i (vecOf n v) := by
  obtain ⟨w', r', c', g'⟩ := C06StaleV.setCol_spec V hw i (by omega) v
  funext j
  funext r
  simp only [colOf, extV, Function.update_apply]
  by_cases hj : j < m
  · rw [g' r.val j (by rw [hr]; exact r.isLt) (by omega)]
    by_cases hji : j = i
    · simp [hji, vecOf]
    · simp [hji, colOf]
  · have hji : j ≠ i := by omega
    rw [get_oob E _ w' r.val j (by rw [r', hr]; exact r.isLt) (by rw [c', hc]; omega)]
    simp [hji, colOf, get_oob E V hw r.val j (by rw [hr]; exact r.isLt) (by omega)]

theorem vecOf_vdivs (n : ℕ) (x : Vec K) (c : K) : vecOf n (vdivs x c) = c⁻¹ • vecOf n x := by
  funext r
  simp only [vecOf, Pi.smul_apply, smul_eq_mul]
  rw [vget_vdivs E, div_eq_inv_mul]

end
end C07L

namespace C07L
open C07 C01E
section
variable {K : Type} [Field K] [LinearOrder K] [IsStrictOrderedRing K] [Sc K] (E : ExactSc K)
include E

/-- the operator record is the identity-`B` wrapper of the linear map `A` on `Kⁿ` -/
structure OpOK (n : ℕ) (op : Arnoldi.Op K) (A : (Fin n → K) →ₗ[K] (Fin n → K)) : Prop where
  B : op.B = none
  is : OpIs n op A
  size : ∀ x, (op.A x).size = n

/-- what the abstract three-term step gives on a `PassInv` state (everything the array computation is compared with) -/
theorem pass_abstract (n m : ℕ) (A : (Fin n → K) →ₗ[K] (Fin n → K))
    (hsa : ∀ x y, dotProduct x (A y) = dotProduct (A x) y)
    (s : Arnoldi.State K) (i : ℕ) (hI : PassInv n m A s i) (hi1 : 1 ≤ i) (hβ : s.beta ≠ 0) :
    let V' := extV (colOf n s.V) i (s.beta⁻¹ • vecOf n s.f)
    let α := dotProduct (V' i) (A (V' i))
    ON (dotIP n) V' (i + 1) ∧
    Kry A V' (extH (maskH i s.H) i s.beta (lanH i α s.beta)) (A (V' i) - s.beta • V' (i - 1) - α • V' i) (i + 1) ∧
    (∀ a, a < i + 1 → lanH i α s.beta a = dotProduct (V' a) (A (V' i))) ∧
    FO (dotIP n) V' (A (V' i) - s.beta • V' (i - 1) - α • V' i) (i + 1) ∧
    dotProduct (V' i) (V' (i - 1)) = 0 ∧
    dotProduct (colOf n s.V (i - 1)) (s.beta⁻¹ • vecOf n s.f) = 0 := by
  intro V' α
  have hON' : ON (dotIP n) V' (i + 1) := on_extend (dotIP n) _ i _ s.beta hI.on hI.fo hβ rfl hI.betasq
  obtain ⟨k1, k2⟩ := extend_lanczos_core (dotIP n) A (colOf n s.V) (maskH i s.H) (vecOf n s.f) i s.beta α hβ hI.kry
  rw [resid_lanH A V' i hi1] at k1
  obtain ⟨hco, hfo⟩ := k2 hsa rfl hON' rfl
  rw [resid_lanH A V' i hi1] at hfo
  refine ⟨hON', k1, hco, hfo, ?_, ?_⟩
  · have := hON' i (by omega) (i - 1) (by omega)
    have hne : i ≠ i - 1 := by omega
    simpa [dotIP, hne] using this
  · have := hI.fo (i - 1) (by omega)
    simp only [dotIP] at this
    rw [dotProduct_smul, this, smul_zero]

end
end C07L

namespace C07L
open C07 C01E
section
variable {K : Type} [Field K] [LinearOrder K] [IsStrictOrderedRing K] [Sc K] (E : ExactSc K)
include E

/-- the array computation of a regular pass, read as vectors: new basis, new residual, new `H` entries -/
theorem regPass_spec (n m : ℕ) (A : (Fin n → K) →ₗ[K] (Fin n → K)) (op : Arnoldi.Op K) (hop : OpOK n op A)
    (s : Arnoldi.State K) (i : ℕ) (hI : PassInv n m A s i) (hi1 : 1 ≤ i) (him : i < m) :
    let V' := extV (colOf n s.V) i (s.beta⁻¹ • vecOf n s.f)
    let w := A (V' i) - s.beta • V' (i - 1)
    let hii := dotProduct (V' i) w
    colOf n (regPass op s i).V = V' ∧
    vecOf n (regPass op s i).f = w - hii • V' i ∧
    (regPass op s i).f.size = n ∧
    (∀ a b, a < m → b < m → (regPass op s i).H.get a b =
      if a = i ∧ b = i then hii else if a = i - 1 ∧ b = i then s.beta else if a = i ∧ b = i - 1 then s.beta else s.H.get a b) ∧
    C08Mat.WF (regPass op s i).V ∧ (regPass op s i).V.rows = n ∧ (regPass op s i).V.cols = m ∧
    C08Mat.WF (regPass op s i).H ∧ (regPass op s i).H.rows = m ∧ (regPass op s i).H.cols = m := by
  intro V' w hii
  obtain ⟨Vw', Vr', Vc', _⟩ := C06StaleV.setCol_spec s.V hI.Vw i (by rw [hI.Vc]; exact him) (vdivs s.f s.beta)
  have hV : colOf n (s.V.setCol i (vdivs s.f s.beta)) = V' := by
    rw [colOf_setCol E n m s.V hI.Vw hI.Vr hI.Vc i him, vecOf_vdivs E]
  have hrows : (s.V.setCol i (vdivs s.f s.beta)).rows = n := by rw [Vr', hI.Vr]
  -- the two columns read by the pass
  have hci : vecOf n ((s.V.setCol i (vdivs s.f s.beta)).col i) = V' i := by rw [vecOf_col n _ i hrows, hV]
  have hci1 : vecOf n ((s.V.setCol i (vdivs s.f s.beta)).col (i - 1)) = V' (i - 1) := by rw [vecOf_col n _ (i - 1) hrows, hV]
  have hsz : ((s.V.setCol i (vdivs s.f s.beta)).col i).size = n := by rw [size_col, hrows]
  have hAw : vecOf n (op.A ((s.V.setCol i (vdivs s.f s.beta)).col i)) = A (V' i) := by rw [hop.is _ hsz, hci]
  -- w
  have hw : vecOf n (vofFn s.n (fun j => vget (op.A ((s.V.setCol i (vdivs s.f s.beta)).col i)) j
      - s.beta * vget ((s.V.setCol i (vdivs s.f s.beta)).col (i - 1)) j)) = w := by
    rw [hI.hn, vecOf_vofFn]
    funext r
    have e1 := congrFun hAw r
    have e2 := congrFun hci1 r
    simp only [vecOf] at e1 e2
    simp only [w, Pi.sub_apply, Pi.smul_apply, smul_eq_mul]
    rw [e1, e2]
  have hhii : op.inner ((s.V.setCol i (vdivs s.f s.beta)).col i)
      (vofFn s.n (fun j => vget (op.A ((s.V.setCol i (vdivs s.f s.beta)).col i)) j
        - s.beta * vget ((s.V.setCol i (vdivs s.f s.beta)).col (i - 1)) j)) = hii := by
    unfold Arnoldi.Op.inner
    rw [hop.B]
    simp only []
    rw [dot_vec E n _ _ hsz, hci, hw]
  obtain ⟨d1, d2, d3⟩ := set3_dims s.H hI.Hw i s.beta s.beta hii
  refine ⟨hV, ?_, ?_, ?_, Vw', hrows, Vc'.trans hI.Vc, ?_, ?_, ?_⟩
  · show vecOf n (vofFn s.n _) = _
    rw [hI.hn, vecOf_vofFn]
    funext r
    have e1 := congrFun hw r
    have e2 := congrFun hci r
    simp only [vecOf] at e1 e2
    simp only [Pi.sub_apply, Pi.smul_apply, smul_eq_mul]
    rw [← e1, ← e2, ← hhii, hI.hn]
  · show (vofFn s.n _).size = n
    rw [C07R.size_vofFn, hI.hn]
  · intro a b ha hb
    show (((s.H.set i (i - 1) s.beta).set (i - 1) i s.beta).set i i _).get a b = _
    rw [hhii]
    exact set3_get s.H hI.Hw m i hI.Hr hI.Hc hi1 him _ _ _ a b ha hb
  · show C08Mat.WF (((s.H.set i (i - 1) s.beta).set (i - 1) i s.beta).set i i _)
    rw [hhii]; exact d1
  · show (((s.H.set i (i - 1) s.beta).set (i - 1) i s.beta).set i i _).rows = m
    rw [hhii, d2, hI.Hr]
  · show (((s.H.set i (i - 1) s.beta).set (i - 1) i s.beta).set i i _).cols = m
    rw [hhii, d3, hI.Hc]

end
end C07L

namespace C07L
open C07 C01E
section
variable {K : Type} [Field K] [LinearOrder K] [IsStrictOrderedRing K] [Sc K] (E : ExactSc K)
include E

/-- the regular pass as a whole: `Lanczos.factorStep` reduces to the straight-line code, and its result, read as vectors -/
theorem factorStep_eq_regPass (n m : ℕ) (A : (Fin n → K) →ₗ[K] (Fin n → K)) (op : Arnoldi.Op K) (hop : OpOK n op A)
    (hsa : ∀ x y, dotProduct x (A y) = dotProduct (A x) y)
    (bt es : K) (hes : 0 ≤ es)
    (s : Arnoldi.State K) (i : ℕ) (hI : PassInv n m A s i) (hi1 : 1 ≤ i) (him : i < m)
    (hreg : Sc.lt s.beta s.near0 = false) (hβ : s.beta ≠ 0) :
    let V' := extV (colOf n s.V) i (s.beta⁻¹ • vecOf n s.f)
    let α := dotProduct (V' i) (A (V' i))
    Lanczos.factorStep op bt es s i = regPass op s i ∧
    vecOf n (regPass op s i).f = A (V' i) - s.beta • V' (i - 1) - α • V' i ∧
    (∀ a b, a < m → b < m → (regPass op s i).H.get a b =
      if a = i ∧ b = i then α else if a = i - 1 ∧ b = i then s.beta else if a = i ∧ b = i - 1 then s.beta else s.H.get a b) ∧
    0 ≤ (regPass op s i).beta ∧
    (regPass op s i).beta * (regPass op s i).beta = dotProduct (vecOf n (regPass op s i).f) (vecOf n (regPass op s i).f) := by
  intro V' α
  obtain ⟨hON', hK', hco, hFO', hv01, hcrit⟩ := pass_abstract E n m A hsa s i hI hi1 hβ
  obtain ⟨tV, tf, tfs, tH, tVw, tVr, tVc, tHw, tHr, tHc⟩ := regPass_spec E n m A op hop s i hI hi1 him
  have hhii : dotProduct (V' i) (A (V' i) - s.beta • V' (i - 1)) = α := by
    rw [dotProduct_sub, dotProduct_smul, hv01, smul_zero, sub_zero]
  rw [hhii] at tf tH
  have hnorm : (regPass op s i).beta = Lin.norm (regPass op s i).f := by
    show op.norm _ = _
    unfold Arnoldi.Op.norm; rw [hop.B]; rfl
  obtain ⟨nb0, nbsq⟩ := norm_vec E n (regPass op s i).f tfs
  have h3 : Sc.gt (maxAbs (op.adjoint (regPass op s i).V (i + 1) (regPass op s i).f)) (s.eps * (regPass op s i).beta) = false := by
    have hz : maxAbs (op.adjoint (regPass op s i).V (i + 1) (regPass op s i).f) = 0 := by
      apply maxAbs_zero E
      intro j hj
      have hsz : (op.adjoint (regPass op s i).V (i + 1) (regPass op s i).f).size = i + 1 := C07R.size_adjoint _ _ _ _
      rw [hsz] at hj
      unfold Arnoldi.Op.adjoint
      rw [hop.B]
      simp only []
      rw [tmul_vec E n _ _ _ j hj tVr, tV, tf]
      exact hFO' j hj
    rw [hz, gt_iff E, hnorm]
    have : ¬ (s.eps * Lin.norm (regPass op s i).f < 0) := not_lt.mpr (mul_nonneg hI.eps0 nb0)
    simp [this]
  have h2 : Sc.lt s.beta es = true →
      Sc.gt (Sc.abs (op.inner ((s.V.setCol i (vdivs s.f s.beta)).col (i - 1)) (vdivs s.f s.beta))) es = false := by
    intro _
    have hz : op.inner ((s.V.setCol i (vdivs s.f s.beta)).col (i - 1)) (vdivs s.f s.beta) = 0 := by
      unfold Arnoldi.Op.inner
      rw [hop.B]
      simp only []
      have hr : (s.V.setCol i (vdivs s.f s.beta)).rows = n := tVr
      rw [dot_vec E n _ _ (by rw [size_col, hr]), vecOf_col n _ (i - 1) hr, vecOf_vdivs E]
      have : colOf n (s.V.setCol i (vdivs s.f s.beta)) (i - 1) = colOf n s.V (i - 1) := by
        have h := congrFun tV (i - 1)
        have hne : i - 1 ≠ i := by omega
        rw [show (regPass op s i).V = s.V.setCol i (vdivs s.f s.beta) from rfl] at h
        rw [h]; simp [extV, Function.update_of_ne hne]
      rw [this]; exact hcrit
    rw [hz, E.abs, gt_iff E]
    simp [not_lt.mpr hes]
  refine ⟨factorStep_regular op bt es s i hreg h2 h3, tf, tH, ?_, ?_⟩
  · rw [hnorm]; exact nb0
  · rw [hnorm]; exact nbsq

end
end C07L

namespace C07L
open C07 C01E
section
variable {K : Type} [Field K] [LinearOrder K] [IsStrictOrderedRing K] [Sc K] (E : ExactSc K)
include E

/-- **One regular pass of `Lanczos.factorStep` IS a C07 `extend` step** (exact field, self-adjoint operator, orthonormal basis):
    the result state read as a C07 state equals `(absAt i s).step (.extend beta h)` — `V`, `H`, `f`, `k`, `R` as functions —,
    the step is `ok` and `orthOk`, and the loop invariant holds at `i + 1`. -/
theorem lanczos_pass_regular (n m : ℕ) (A : (Fin n → K) →ₗ[K] (Fin n → K)) (op : Arnoldi.Op K) (hop : OpOK n op A)
    (hsa : ∀ x y, dotProduct x (A y) = dotProduct (A x) y)
    (bt es : K) (hes : 0 ≤ es)
    (s : Arnoldi.State K) (i : ℕ) (hI : PassInv n m A s i) (hi1 : 1 ≤ i) (him : i < m)
    (hreg : Sc.lt s.beta s.near0 = false) (hβ : s.beta ≠ 0) :
    ∃ h : ℕ → K,
      absAt n (i + 1) (Lanczos.factorStep op bt es s i) = (absAt n i s).step A (.extend s.beta h) ∧
      (Step.extend s.beta h : Step K (Fin n → K)).ok (absAt n i s) ∧
      (Step.extend s.beta h : Step K (Fin n → K)).exact (absAt n i s) ∧
      (Step.extend s.beta h : Step K (Fin n → K)).orthOk (dotIP n) A (absAt n i s) ∧
      PassInv n m A (Lanczos.factorStep op bt es s i) (i + 1) ∧
      (Lanczos.factorStep op bt es s i).k = s.k ∧ (Lanczos.factorStep op bt es s i).near0 = s.near0 ∧
      (Lanczos.factorStep op bt es s i).eps = s.eps := by
  obtain ⟨hON', hK', hco, hFO', hv01, hcrit⟩ := pass_abstract E n m A hsa s i hI hi1 hβ
  obtain ⟨tV, _, tfs, _, tVw, tVr, tVc, tHw, tHr, tHc⟩ := regPass_spec E n m A op hop s i hI hi1 him
  obtain ⟨hstep, tf, tH, tb0, tbsq⟩ := factorStep_eq_regPass E n m A op hop hsa bt es hes s i hI hi1 him hreg hβ
  rw [hstep]
  set t := regPass op s i with ht
  set V' := extV (colOf n s.V) i (s.beta⁻¹ • vecOf n s.f) with hV'
  set α := dotProduct (V' i) (A (V' i)) with hα
  -- the coefficient column
  have hcol : ∀ a, a < i + 1 → maskH (i + 1) t.H a i = lanH i α s.beta a := by
    intro a ha
    have h1 : (a < i + 1 ∧ i < i + 1) ∨ (a = i + 1 ∧ i + 1 = i + 1) := Or.inl ⟨ha, by omega⟩
    rw [maskH_apply, if_pos h1, tH a i (by omega) him, lanH_apply]
    by_cases e1 : a = i
    · rw [if_pos ⟨e1, rfl⟩, if_pos e1]
    · have n1 : ¬ (a = i ∧ i = i) := fun h => e1 h.1
      rw [if_neg n1, if_neg e1]
      by_cases e2 : a + 1 = i
      · have e2' : a = i - 1 := by omega
        rw [if_pos ⟨e2', rfl⟩, if_pos e2]
      · have n2 : ¬ (a = i - 1 ∧ i = i) := by omega
        have n3 : ¬ (a = i ∧ i = i - 1) := by omega
        rw [if_neg n2, if_neg n3, if_neg e2]
        exact hI.clean a i (by omega) him (Or.inr (le_refl i)) (Or.inl (by omega))
  have hHeq : ∀ a b, b ≠ i → maskH (i + 1) t.H a b = extH (maskH i s.H) i s.beta (fun a => maskH (i + 1) t.H a i) a b := by
    intro a b hb
    rw [extH_apply, if_neg hb]
    by_cases ha : a = i
    · rw [if_pos ha, maskH_apply]
      by_cases hbi : b < i
      · have h1 : (a < i + 1 ∧ b < i + 1) ∨ (a = i + 1 ∧ b + 1 = i + 1) := Or.inl ⟨by omega, by omega⟩
        rw [if_pos h1, tH a b (by omega) (by omega)]
        have n1 : ¬ (a = i ∧ b = i) := by omega
        have n2 : ¬ (a = i - 1 ∧ b = i) := by omega
        rw [if_neg n1, if_neg n2]
        by_cases hb1 : b + 1 = i
        · have : a = i ∧ b = i - 1 := by omega
          rw [if_pos this, if_pos hb1]
        · have n3 : ¬ (a = i ∧ b = i - 1) := by omega
          rw [if_neg n3, if_neg hb1]
          exact hI.clean a b (by omega) (by omega) (Or.inl (by omega)) (Or.inr (by omega))
      · have h1 : ¬ ((a < i + 1 ∧ b < i + 1) ∨ (a = i + 1 ∧ b + 1 = i + 1)) := by omega
        have h2 : ¬ (b + 1 = i) := by omega
        rw [if_neg h1, if_neg h2]
    · rw [if_neg ha, maskH_apply, maskH_apply]
      by_cases hin : a < i ∧ b < i
      · have h1 : (a < i + 1 ∧ b < i + 1) ∨ (a = i + 1 ∧ b + 1 = i + 1) := Or.inl ⟨by omega, by omega⟩
        have h2 : (a < i ∧ b < i) ∨ (a = i ∧ b + 1 = i) := Or.inl hin
        rw [if_pos h1, if_pos h2, tH a b (by omega) (by omega)]
        have e1 : ¬ (a = i ∧ b = i) := by omega
        have e2 : ¬ (a = i - 1 ∧ b = i) := by omega
        have e3 : ¬ (a = i ∧ b = i - 1) := by omega
        rw [if_neg e1, if_neg e2, if_neg e3]
      · have h1 : ¬ ((a < i + 1 ∧ b < i + 1) ∨ (a = i + 1 ∧ b + 1 = i + 1)) := by omega
        have h2 : ¬ ((a < i ∧ b < i) ∨ (a = i ∧ b + 1 = i)) := by omega
        rw [if_neg h1, if_neg h2]
  have hfres : vecOf n t.f = resid A V' i (fun a => maskH (i + 1) t.H a i) := by
    rw [resid_congr A V' i _ (lanH i α s.beta) hcol, resid_lanH A V' i hi1, tf]
  refine ⟨fun a => maskH (i + 1) t.H a i, ?_, hβ, trivial, ⟨hβ, rfl, hI.betasq, ?_⟩, ?_, rfl, rfl, rfl⟩
  · apply St_ext
    · exact tV
    · funext a b
      show maskH (i + 1) t.H a b = extH (maskH i s.H) i s.beta (fun a => maskH (i + 1) t.H a i) a b
      by_cases hb : b = i
      · rw [hb, extH_apply, if_pos rfl]
      · exact hHeq a b hb
    · exact hfres
    · rfl
    · show (fun _ => (0 : Fin n → K)) = extR (fun _ => 0) i 0
      exact (extR_zero i).symm
  · intro a ha
    show maskH (i + 1) t.H a i = _
    rw [hcol a ha]; exact hco a ha
  · -- the loop invariant at i + 1
    have hHlead : ∀ a b, a < i + 1 → b < i + 1 → maskH (i + 1) t.H a b = extH (maskH i s.H) i s.beta (lanH i α s.beta) a b := by
      intro a b ha hb
      by_cases hbi : b = i
      · rw [hbi, hcol a ha, extH_apply, if_pos rfl]
      · rw [hHeq a b hbi, extH_apply, extH_apply, if_neg hbi, if_neg hbi]
    refine ⟨hI.hn, hI.hm, tVw, tVr, tVc, tHw, tHr, tHc, by omega, ?_, ?_, ?_, tb0, tbsq, ?_, ?_, hI.eps0⟩
    · exact kry_congr A _ _ _ _ _ _ (i + 1) (fun j _ => by rw [tV]) hHlead tf hK'
    · rw [tV]; exact hON'
    · rw [tV, tf]; exact hFO'
    · exact trisym_congr _ _ (i + 1) hHlead (trisym_ext (maskH i s.H) i α s.beta hI.tri)
    · intro a b ha hb hab hoff
      rw [tH a b ha hb]
      have e1 : ¬ (a = i ∧ b = i) := by omega
      have e2 : ¬ (a = i - 1 ∧ b = i) := by omega
      have e3 : ¬ (a = i ∧ b = i - 1) := by omega
      simp only [e1, e2, e3, if_false]
      exact hI.clean a b ha hb (by omega) hoff

end
end C07L
