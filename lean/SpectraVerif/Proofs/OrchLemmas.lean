/-
  Lemmas about the orchestration model `Model/Orch.lean` (all kernels universally quantified).
-/
import SpectraVerif.Model.Orch

namespace Orch
open List

section lists
variable {α : Type}

theorem map_range_getD (l : List α) (d : α) : (List.range l.length).map (fun i => l.getD i d) = l := by
  apply List.ext_getElem
  · simp
  · intro i h1 h2
    simp at h1
    simp [List.getD_eq_getElem?_getD, h1]

theorem map_range_getD' (l : List α) (d : α) (n : Nat) (h : l.length = n) :
    (List.range n).map (fun i => l.getD i d) = l := by
  subst h; exact map_range_getD l d

/-- permuting a bool list by a permutation of its index range keeps the number of `true`s -/
theorem count_perm_index (conv : List Bool) (ind : List Nat) (n : Nat) (hl : conv.length = n)
    (hp : ind.Perm (List.range n)) :
    ((List.range n).map (fun i => conv.getD (ind.getD i 0) false)).count true = conv.count true := by
  have hlen : ind.length = n := by simpa using hp.length_eq
  have e1 : (List.range n).map (fun i => conv.getD (ind.getD i 0) false) = ind.map (fun j => conv.getD j false) := by
    have := map_range_getD' ind 0 n hlen
    conv => rhs; rw [← this]
    simp [List.map_map, Function.comp_def]
  rw [e1]
  have e2 : (ind.map (fun j => conv.getD j false)).Perm ((List.range n).map (fun j => conv.getD j false)) := hp.map _
  rw [e2.count_eq, map_range_getD' conv false n hl]

theorem filter_range_getD_length_aux (l : List Bool) :
    ((List.range l.length).filter (fun i => l.getD i false)).length = l.count true := by
  induction l with
  | nil => simp
  | cons b l ih =>
    rw [List.length_cons, List.range_succ_eq_map, List.filter_cons]
    have e : (List.filter (fun i => (b :: l).getD i false) (List.map Nat.succ (List.range l.length))).length
        = ((List.range l.length).filter (fun i => l.getD i false)).length := by
      rw [List.filter_map, List.length_map]
      congr 1
    rw [List.count_cons]
    cases b
    · have h0 : (false :: l).getD 0 false = false := rfl
      rw [h0]; simp only [Bool.false_eq_true, if_false]; rw [e, ih]; simp
    · have h0 : (true :: l).getD 0 false = true := rfl
      rw [h0]; simp only [if_true, List.length_cons]; rw [e, ih]; simp

theorem filter_range_getD_length (l : List Bool) (n : Nat) (h : l.length = n) :
    ((List.range n).filter (fun i => l.getD i false)).length = l.count true := by
  subst h; exact filter_range_getD_length_aux l

theorem count_true_replicate_false (n : Nat) : (List.replicate n false).count true = 0 := by
  induction n with
  | zero => rfl
  | succ n ih => simp [List.replicate_succ, ih]

end lists

variable {φ ρ ε κ β τ ω : Type} (K : Kern φ ρ ε κ β τ ω) (c : Cfg)

/-! ### what the individual member functions leave alone -/

theorem retrieve_frame (sel : Int) (s : St φ ρ ε κ) :
    (retrieve K c sel s).1.ritzConv = s.ritzConv ∧ (retrieve K c sel s).1.info = s.info ∧
    (retrieve K c sel s).1.niter = s.niter ∧ (retrieve K c sel s).1.nmatop = s.nmatop ∧ (retrieve K c sel s).1.fac = s.fac := by
  unfold retrieve
  split
  · simp
  · split <;> simp

theorem restart_frame (k : Nat) (sel : Int) (s : St φ ρ ε κ) :
    (restart K c k sel s).1.ritzConv = s.ritzConv ∧ (restart K c k sel s).1.info = s.info ∧
    (restart K c k sel s).1.niter = s.niter ∧ s.nmatop ≤ (restart K c k sel s).1.nmatop := by
  unfold restart
  split
  · simp
  · dsimp only
    split
    · simp
    · have h := retrieve_frame K c sel { s with fac := (K.restartFac k s.ritzVal s.fac).fac, nmatop := s.nmatop + (K.restartFac k s.ritzVal s.fac).ops }
      obtain ⟨h1, h2, h3, h4, _⟩ := h
      refine ⟨h1, h2, h3, ?_⟩
      rw [h4]; simp

theorem convFlags_length (tol : τ) (s : St φ ρ ε κ) : (convFlags K c tol s).length = c.nev := by
  simp [convFlags]

/-- everything the restart loop guarantees, for every kernel behaviour -/
theorem loop_spec (sel : Int) (tol : τ) (rem i nconv nres : Nat) (s : St φ ρ ε κ) :
    (loop K c sel tol rem i nconv nres s).st.info = s.info ∧ (loop K c sel tol rem i nconv nres s).st.niter = s.niter ∧
    s.nmatop ≤ (loop K c sel tol rem i nconv nres s).st.nmatop ∧
    i ≤ (loop K c sel tol rem i nconv nres s).i ∧ (loop K c sel tol rem i nconv nres s).i ≤ i + rem ∧
    ((loop K c sel tol rem i nconv nres s).exn = none →
        (loop K c sel tol rem i nconv nres s).restarts = nres + ((loop K c sel tol rem i nconv nres s).i - i)) ∧
    ((loop K c sel tol rem i nconv nres s).restarts ≤ nres + rem) ∧
    (rem = 0 → (loop K c sel tol rem i nconv nres s).st = s ∧ (loop K c sel tol rem i nconv nres s).nconv = nconv) ∧
    (0 < rem → (loop K c sel tol rem i nconv nres s).nconv = countTrue (loop K c sel tol rem i nconv nres s).st.ritzConv ∧
        (loop K c sel tol rem i nconv nres s).st.ritzConv.length = c.nev) ∧
    ((loop K c sel tol rem i nconv nres s).exn = none →
        ((loop K c sel tol rem i nconv nres s).nconv ≥ c.nev ∨ (loop K c sel tol rem i nconv nres s).i = i + rem)) := by
  induction rem generalizing i nconv nres s with
  | zero => simp [loop]
  | succ rem ih =>
    unfold loop
    dsimp only
    split
    · -- break
      rename_i hge
      refine ⟨rfl, rfl, Nat.le_refl _, Nat.le_refl _, ?_, ?_, ?_, ?_, ?_, ?_⟩
      · dsimp only; omega
      · intro _; dsimp only; omega
      · dsimp only; omega
      · intro h; omega
      · intro _; exact ⟨rfl, convFlags_length K c tol s⟩
      · intro _; left; exact hge
    · rename_i hlt
      generalize hk : K.nevAdj c (countTrue (convFlags K c tol s)) s.ritzVal s.ritzEst = k
      have hf := restart_frame K c k sel { s with ritzConv := convFlags K c tol s }
      split
      · -- restart threw
        rename_i s2 e heq
        rw [heq] at hf
        obtain ⟨h1, h2, h3, h4⟩ := hf
        dsimp only at h1 h2 h3 h4
        refine ⟨h2, h3, h4, Nat.le_refl _, ?_, ?_, ?_, ?_, ?_, ?_⟩
        · dsimp only; omega
        · intro h; cases h
        · dsimp only; omega
        · intro h; omega
        · intro _
          dsimp only
          rw [h1]; exact ⟨rfl, convFlags_length K c tol s⟩
        · intro h; cases h
      · rename_i s2 heq
        rw [heq] at hf
        obtain ⟨h1, h2, h3, h4⟩ := hf
        dsimp only at h1 h2 h3 h4
        obtain ⟨a1, a2, a3, a4, a5, a6, a7, a8, a9, a10⟩ := ih (i + 1) (countTrue (convFlags K c tol s)) (nres + 1) s2
        refine ⟨by rw [a1, h2], by rw [a2, h3], by omega, by omega, by omega, ?_, by omega, by intro h; omega, ?_, ?_⟩
        · intro h; have := a6 h; omega
        · intro _
          rcases Nat.eq_zero_or_pos rem with hz | hp
          · have := a8 hz
            rw [this.1, this.2, h1]; exact ⟨rfl, convFlags_length K c tol s⟩
          · exact a9 hp
        · intro h; rcases a10 h with h' | h'
          · left; exact h'
          · right; omega

/-- if the loop leaves before `maxit` is exhausted it left through the `break`, right after the flags were evaluated on the
    very state it returns -/
theorem loop_break_fresh (sel : Int) (tol : τ) (rem i nconv nres : Nat) (s : St φ ρ ε κ)
    (hl : (loop K c sel tol rem i nconv nres s).exn = none) (hlt : (loop K c sel tol rem i nconv nres s).i < i + rem) :
    (loop K c sel tol rem i nconv nres s).st.ritzConv = convFlags K c tol (loop K c sel tol rem i nconv nres s).st := by
  induction rem generalizing i nconv nres s with
  | zero => simp [loop] at hlt
  | succ rem ih =>
    unfold loop at hl hlt ⊢
    dsimp only at hl hlt ⊢
    split
    · rfl
    · rename_i hnc
      rw [if_neg hnc] at hl hlt
      split
      · rename_i s2 e heq
        rw [heq] at hl; simp at hl
      · rename_i s2 heq
        rw [heq] at hl hlt
        dsimp only at hl hlt
        exact ih (i + 1) _ _ s2 hl (by omega)

theorem sortRitz_frame (rule : Int) (s : St φ ρ ε κ) :
    (sortRitz K c rule s).1.info = s.info ∧ (sortRitz K c rule s).1.niter = s.niter ∧
    (sortRitz K c rule s).1.nmatop = s.nmatop ∧ (sortRitz K c rule s).1.fac = s.fac := by
  unfold sortRitz
  dsimp only
  split <;> simp

/-- `sort_ritzpair` permutes values, vectors and flags by ONE index vector (the pairing statement) -/
theorem sortRitz_pairing (hcfg : c.nev ≤ c.ncv) (rule : Int) (s s' : St φ ρ ε κ) (h : sortRitz K c rule s = (s', none)) :
    ∃ ind, K.sortIdx rule (mapHead c.nev K.backTransform s.ritzVal) c.nev = .ok ind ∧
      ∀ i, i < c.nev →
        s'.ritzVal.getD i K.zeroρ = (mapHead c.nev K.backTransform s.ritzVal).getD (ind.getD i 0) K.zeroρ ∧
        s'.ritzVec.getD i K.zeroκ = s.ritzVec.getD (ind.getD i 0) K.zeroκ ∧
        s'.ritzConv.getD i false = s.ritzConv.getD (ind.getD i 0) false := by
  unfold sortRitz at h
  dsimp only at h
  split at h
  · simp at h
  · rename_i ind hind
    refine ⟨ind, hind, ?_⟩
    intro i hi
    simp only [Prod.mk.injEq, and_true] at h
    subst h
    have hc : i < c.ncv := by omega
    refine ⟨?_, ?_, ?_⟩
    · simp [List.getD_eq_getElem?_getD, hc, hi]
    · simp [List.getD_eq_getElem?_getD, hi]
    · simp [List.getD_eq_getElem?_getD, hi]

end Orch

namespace Orch
variable {φ ρ ε κ β τ ω : Type} (K : Kern φ ρ ε κ β τ ω) (c : Cfg)

/-- the flags after `sort_ritzpair` are the old flags read through the sort's index vector -/
theorem sortRitz_flags (rule : Int) (s s' : St φ ρ ε κ) (h : sortRitz K c rule s = (s', none)) :
    ∃ ind, K.sortIdx rule (mapHead c.nev K.backTransform s.ritzVal) c.nev = .ok ind ∧
      s'.ritzConv = (List.range c.nev).map (fun i => s.ritzConv.getD (ind.getD i 0) false) := by
  unfold sortRitz at h
  dsimp only at h
  split at h
  · simp at h
  · rename_i ind hind
    simp only [Prod.mk.injEq, and_true] at h
    subst h
    exact ⟨ind, hind, rfl⟩

/-- the state after the initial factorization inside `compute` -/
def afterFactorize (s : St φ ρ ε κ) : St φ ρ ε κ :=
  { s with fac := (K.factorize (max 1 (K.facDim s.fac)) c.ncv s.fac).fac,
           nmatop := s.nmatop + (K.factorize (max 1 (K.facDim s.fac)) c.ncv s.fac).ops }

/-- after the post-loop refresh the flags are ALWAYS the ones counted by `nconv`, and there are `nev` of them -/
theorem refresh_spec (sel : Int) (tol : τ) (maxit : Nat) (s2 : St φ ρ ε κ) :
    (refresh K c tol maxit (loop K c sel tol maxit 0 0 0 s2)).2 = countTrue (refresh K c tol maxit (loop K c sel tol maxit 0 0 0 s2)).1.ritzConv ∧
    (refresh K c tol maxit (loop K c sel tol maxit 0 0 0 s2)).1.ritzConv.length = c.nev ∧
    (refresh K c tol maxit (loop K c sel tol maxit 0 0 0 s2)).1.info = s2.info ∧
    (refresh K c tol maxit (loop K c sel tol maxit 0 0 0 s2)).1.niter = s2.niter ∧
    s2.nmatop ≤ (refresh K c tol maxit (loop K c sel tol maxit 0 0 0 s2)).1.nmatop := by
  have hL := loop_spec K c sel tol maxit 0 0 0 s2
  unfold refresh
  split
  · exact ⟨rfl, convFlags_length K c tol _, hL.1, hL.2.1, hL.2.2.1⟩
  · rename_i hlt
    have hm : 0 < maxit := by omega
    have := hL.2.2.2.2.2.2.2.2.1 hm
    exact ⟨this.1, this.2, hL.1, hL.2.1, hL.2.2.1⟩

/-- the flags after the refresh are exactly the convergence test evaluated on the state they are stored in (fresh), provided the
    loop itself did not end by an exception -/
theorem refresh_fresh (sel : Int) (tol : τ) (maxit : Nat) (s2 : St φ ρ ε κ)
    (hl : (loop K c sel tol maxit 0 0 0 s2).exn = none) :
    (refresh K c tol maxit (loop K c sel tol maxit 0 0 0 s2)).1.ritzConv =
      convFlags K c tol (refresh K c tol maxit (loop K c sel tol maxit 0 0 0 s2)).1 ∧ True := by
  refine ⟨?_, trivial⟩
  unfold refresh
  split
  · rfl
  · rename_i hlt
    exact loop_break_fresh K c sel tol maxit 0 0 0 s2 hl (by omega)

/-- a normal return of `compute` went through every stage without an exception -/
theorem compute_ok_unfold (sel : Int) (maxit : Nat) (tol : τ) (sorting : Int) (s : St φ ρ ε κ) (r : Nat)
    (h : (compute K c sel maxit tol sorting s).out = .ok r) :
    ∃ s2 s4, (K.factorize (max 1 (K.facDim s.fac)) c.ncv s.fac).exn = none ∧
      retrieve K c sel (afterFactorize K c s) = (s2, none) ∧
      (loop K c sel tol maxit 0 0 0 s2).exn = none ∧
      sortRitz K c sorting (refresh K c tol maxit (loop K c sel tol maxit 0 0 0 s2)).1 = (s4, none) ∧
      (compute K c sel maxit tol sorting s).st =
        { s4 with niter := s4.niter + ((loop K c sel tol maxit 0 0 0 s2).i + 1),
                  info := if (refresh K c tol maxit (loop K c sel tol maxit 0 0 0 s2)).2 ≥ c.nev then .successful else .notConverging } ∧
      r = min c.nev (refresh K c tol maxit (loop K c sel tol maxit 0 0 0 s2)).2 ∧
      (compute K c sel maxit tol sorting s).i = (loop K c sel tol maxit 0 0 0 s2).i ∧
      (compute K c sel maxit tol sorting s).restarts = (loop K c sel tol maxit 0 0 0 s2).restarts := by
  unfold compute at h ⊢
  dsimp only at h ⊢
  split at h
  · simp at h
  · rename_i hf
    split at h
    · simp at h
    · rename_i s2 hr
      split at h
      · simp at h
      · rename_i hl
        split at h
        · simp at h
        · rename_i s4 hs
          refine ⟨s2, s4, hf, ?_, hl, hs, ?_⟩
          · simpa [afterFactorize] using hr
          · simp only [Except.ok.injEq] at h
            exact ⟨rfl, h.symm, rfl, rfl⟩

/-- whatever happens, `compute` touches `m_info` only when it returns normally -/
theorem compute_error_info (sel : Int) (maxit : Nat) (tol : τ) (sorting : Int) (s : St φ ρ ε κ) (e : Exn)
    (h : (compute K c sel maxit tol sorting s).out = .error e) :
    (compute K c sel maxit tol sorting s).st.info = s.info ∧ (compute K c sel maxit tol sorting s).st.niter = s.niter := by
  unfold compute at h ⊢
  dsimp only at h ⊢
  split
  · simp
  · split
    · rename_i s2 e2 hr
      have := retrieve_frame K c sel (afterFactorize K c s)
      unfold afterFactorize at this
      rw [hr] at this; simpa using ⟨this.2.1, this.2.2.1⟩
    · rename_i s2 hr
      have hrf := retrieve_frame K c sel (afterFactorize K c s)
      unfold afterFactorize at hrf
      rw [hr] at hrf
      have hl := loop_spec K c sel tol maxit 0 0 0 s2
      have hR := refresh_spec K c sel tol maxit s2
      split
      · dsimp only; exact ⟨by rw [hl.1, hrf.2.1], by rw [hl.2.1, hrf.2.2.1]⟩
      · split
        · rename_i s4 e4 hs
          have hsf := sortRitz_frame K c sorting (refresh K c tol maxit (loop K c sel tol maxit 0 0 0 s2)).1
          rw [hs] at hsf
          dsimp only at hsf ⊢
          exact ⟨by rw [hsf.1, hR.2.2.1, hrf.2.1], by rw [hsf.2.1, hR.2.2.2.1, hrf.2.2.1]⟩
        · -- normal return contradicts h
          rename_i hf _ _ hle _ _ hs
          rw [hf] at h; dsimp only at h; rw [hr] at h; dsimp only at h; rw [hle] at h; dsimp only at h; rw [hs] at h
          simp at h

end Orch
