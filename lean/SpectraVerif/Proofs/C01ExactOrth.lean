/-
  Orthonormality of the pairs handed back, for every history, in exact arithmetic (helper file of Properties/C01.lean).

  `ExactOrth X` adds to `ExactKernels X` the orthogonality halves of the kernel specifications: every step the factorization kernels
  perform uses the exact projection coefficients / norms / orthonormal `Q` (C07: `Step.orthOk`, composed by `run_orth` = `c07_run` (c)),
  `init` hands over a unit vector with an orthogonal residual (`c07_init`, which needs `‖A v0‖ ≠ 0`), the small eigen-solver returns
  orthonormal columns (C09: `Z` orthogonal for all runs), the two index vectors are injective (C18: permutations).
-/
import SpectraVerif.Proofs.C01Exact

set_option linter.unusedSectionVars false
set_option linter.unusedVariables false
open Finset Matrix

namespace C01E
open Orch C07 C01O C01B C01M

variable {φ ρ ε κ β τ ω : Type} {F : Type} [Field F] [LinearOrder F] [IsStrictOrderedRing F]

/-- the Euclidean inner product of real vectors as a C07 form (`conj = id`) -/
def dotIP (n : ℕ) : IP F (Fin n → F) where
  ip x y := x ⬝ᵥ y
  conj := RingHom.id F
  add_right x y z := dotProduct_add x y z
  smul_right x c y := by rw [dotProduct_smul, smul_eq_mul]
  symm x y := by simp only [RingHom.id_apply]; exact dotProduct_comm y x

/-- `VᵀV = I` and `Vᵀf = 0` at the advertised dimension -/
def OrthGood {n : ℕ} (s : C07.St F (Fin n → F)) : Prop := ON (dotIP n) s.V s.k ∧ FO (dotIP n) s.V s.f s.k

variable {K : Kern φ ρ ε κ β τ ω} {c : Cfg} {n : ℕ} {M : Matrix (Fin n) (Fin n) F} {eps23 : F}

structure ExactOrth (X : ExactKernels K c n M eps23) where
  init_orth : ∀ v0 fac, OrthGood (X.abs fac) → OrthGood (X.abs (K.facInit v0 fac).fac)
  factorize_orth : ∀ a b fac, ∃ l, allOrthOk (dotIP n) (opOf M) (X.abs fac) l ∧ X.abs (K.factorize a b fac).fac = C07.run (opOf M) (X.abs fac) l
  restart_orth : ∀ k vals fac, ∃ l, allOrthOk (dotIP n) (opOf M) (X.abs fac) l ∧ X.abs (K.restartFac k vals fac).fac = C07.run (opOf M) (X.abs fac) l
  /-- C09: the eigenvector matrix of the projected problem has orthonormal columns -/
  eig_orth : ∀ fac evals lastRow cols, K.eig fac = .ok (evals, lastRow, cols) → ∀ j, j < c.ncv → ∀ j', j' < c.ncv →
      ∑ a ∈ range c.ncv, X.vec (cols.getD j K.zeroκ) a * X.vec (cols.getD j' K.zeroκ) a = if j = j' then 1 else 0
  /-- C18: both index vectors are injective on their range (they are permutations) -/
  select_inj : ∀ sel evals ind, K.select sel evals c.ncv = .ok ind → ∀ i, i < c.ncv → ∀ i', i' < c.ncv → ind.getD i 0 = ind.getD i' 0 → i = i'
  sort_inj : ∀ rule vals ind, K.sortIdx rule vals c.nev = .ok ind → ∀ i, i < c.nev → ∀ i', i' < c.nev → ind.getD i 0 = ind.getD i' 0 → i = i'

theorem orthgood_run {n : ℕ} (A : (Fin n → F) →ₗ[F] (Fin n → F)) (s : C07.St F (Fin n → F)) (l : List (C07.Step F (Fin n → F)))
    (hok : allOrthOk (dotIP n) A s l) (h : OrthGood s) : OrthGood (C07.run A s l) :=
  run_orth (dotIP n) A l s hok h.1 h.2

theorem ExactOrth.factorize_keeps {X : ExactKernels K c n M eps23} (O : ExactOrth X) (a b : Nat) (fac : φ) (h : OrthGood (X.abs fac)) :
    OrthGood (X.abs (K.factorize a b fac).fac) := by
  obtain ⟨l, hok, he⟩ := O.factorize_orth a b fac
  rw [he]; exact orthgood_run _ _ l hok h

theorem ExactOrth.restart_keeps {X : ExactKernels K c n M eps23} (O : ExactOrth X) (k : Nat) (vals : List ρ) (fac : φ) (h : OrthGood (X.abs fac)) :
    OrthGood (X.abs (K.restartFac k vals fac).fac) := by
  obtain ⟨l, hok, he⟩ := O.restart_orth k vals fac
  rw [he]; exact orthgood_run _ _ l hok h

/-- an orthonormal family of columns is a matrix with `VᵀV = I` -/
theorem on_vmat (V : ℕ → Fin n → F) (m : ℕ) (h : ON (dotIP n) V m) : (Vmat V m)ᵀ * Vmat V m = 1 := by
  ext i j
  have := h i.val i.isLt j.val j.isLt
  simp only [dotIP] at this
  simp only [Matrix.mul_apply, Matrix.transpose_apply, Vmat, Matrix.one_apply]
  have e : ∑ r, V i.val r * V j.val r = V i.val ⬝ᵥ V j.val := rfl
  rw [e, this]
  by_cases hij : i = j
  · simp [hij]
  · have : i.val ≠ j.val := fun h => hij (Fin.ext h)
    simp [hij, this]

/-- **Orthonormality for one compute()**: from any state whose factorization is `Good` and `OrthGood`, the vectors handed back at
    two flagged positions `i`, `i'` satisfy `x_i · x_i' = δ_{i i'}`. -/
theorem compute_orth (X : ExactKernels K c n M eps23) (O : ExactOrth X) (sel : Int) (maxit : Nat) (tol : τ) (sorting : Int)
    (s : St φ ρ ε κ) (hs : Good (opOf M) (X.abs s.fac) ∧ OrthGood (X.abs s.fac)) (r : Nat)
    (h : (compute K c sel maxit tol sorting s).out = .ok r) :
    ∀ i, i < c.nev → ∀ i', i' < c.nev →
      X.out (K.assemble (compute K c sel maxit tol sorting s).st.fac ((compute K c sel maxit tol sorting s).st.ritzVec.getD i K.zeroκ))
        ⬝ᵥ X.out (K.assemble (compute K c sel maxit tol sorting s).st.fac ((compute K c sel maxit tol sorting s).st.ritzVec.getD i' K.zeroκ))
      = if i = i' then 1 else 0 := by
  intro i hi i' hi'
  obtain ⟨s3, ind, hret, hfull, _, hfac, hind, hpair⟩ :=
    compute_ok_final K c (fun fac => Good (opOf M) (X.abs fac) ∧ OrthGood (X.abs fac))
      (fun fac => Full X fac ∧ OrthGood (X.abs fac))
      (fun fac hg hex => ⟨⟨X.factorize_good _ _ fac hg.1, X.factorize_full fac hex⟩, O.factorize_keeps _ _ fac hg.2⟩)
      (fun k vals fac hg hk hex => ⟨⟨X.restart_good k vals fac hg.1.1, X.restart_full k vals fac hk hex⟩, O.restart_keeps k vals fac hg.2⟩)
      X.nev_le sel maxit tol sorting s hs r h
  obtain ⟨_, hvec, _⟩ := hpair i hi
  obtain ⟨_, hvec', _⟩ := hpair i' hi'
  obtain ⟨evals, lastRow, cols, sidx, heig, hsel, _, _, hrvec⟩ := hret
  have hj : ind.getD i 0 < c.nev := X.sort_lt sorting _ ind hind i hi
  have hj' : ind.getD i' 0 < c.nev := X.sort_lt sorting _ ind hind i' hi'
  have hjc : ind.getD i 0 < c.ncv := lt_of_lt_of_le hj X.nev_le
  have hjc' : ind.getD i' 0 < c.ncv := lt_of_lt_of_le hj' X.nev_le
  have hp : sidx.getD (ind.getD i 0) 0 < c.ncv := X.select_lt sel evals sidx hsel _ hjc
  have hp' : sidx.getD (ind.getD i' 0) 0 < c.ncv := X.select_lt sel evals sidx hsel _ hjc'
  have e_vec : s3.ritzVec.getD (ind.getD i 0) K.zeroκ = cols.getD (sidx.getD (ind.getD i 0) 0) K.zeroκ := by
    rw [hrvec, getD_map_range _ _ _ _ hj]
  have e_vec' : s3.ritzVec.getD (ind.getD i' 0) K.zeroκ = cols.getD (sidx.getD (ind.getD i' 0) 0) K.zeroκ := by
    rw [hrvec, getD_map_range _ _ _ _ hj']
  have hON : ON (dotIP n) (X.abs s3.fac).V c.ncv := by
    have := hfull.2.1; rw [hfull.1.2] at this; exact this
  rw [hfac, hvec, hvec', e_vec, e_vec', X.assemble_spec, X.assemble_spec, ← Vmat_mulVec, ← Vmat_mulVec,
    dot_mulVec_of_orth _ (on_vmat _ _ hON)]
  have hdot : yvec (X.vec (cols.getD (sidx.getD (ind.getD i 0) 0) K.zeroκ)) c.ncv ⬝ᵥ
      yvec (X.vec (cols.getD (sidx.getD (ind.getD i' 0) 0) K.zeroκ)) c.ncv
      = ∑ a ∈ range c.ncv, X.vec (cols.getD (sidx.getD (ind.getD i 0) 0) K.zeroκ) a * X.vec (cols.getD (sidx.getD (ind.getD i' 0) 0) K.zeroκ) a := by
    simp only [dotProduct, yvec]
    exact Fin.sum_univ_eq_sum_range (fun a => X.vec (cols.getD (sidx.getD (ind.getD i 0) 0) K.zeroκ) a * X.vec (cols.getD (sidx.getD (ind.getD i' 0) 0) K.zeroκ) a) c.ncv
  rw [hdot, O.eig_orth s3.fac evals lastRow cols heig _ hp _ hp']
  by_cases hii : i = i'
  · subst hii; simp
  · have : sidx.getD (ind.getD i 0) 0 ≠ sidx.getD (ind.getD i' 0) 0 := by
      intro he
      have h1 := O.select_inj sel evals sidx hsel _ hjc _ hjc' he
      exact hii (O.sort_inj sorting _ ind hind i hi i' hi' h1)
    rw [if_neg this, if_neg hii]

end C01E
