/-
  C09 (proof deepening): entry-level statements of the whole-run decomposition of `TridiagEigen::compute`, what a deflation pass
  does to each sub-diagonal entry, the exact corollary (`T₀ Z = Z D` when nothing non-zero was dropped) and its shape for
  `HermSolver.eigH` (the `eig_spec` field of `C01E.ExactKernels`).
-/
import SpectraVerif.Proofs.C09SimT
import SpectraVerif.Model.HermSolver

set_option linter.unusedSectionVars false
set_option linter.unusedSimpArgs false
set_option linter.unusedVariables false
set_option linter.unusedTactic false
set_option linter.unreachableTactic false
set_option linter.style.haveILetI false

namespace C09Sim
open Lin EigenPrims TridiagEigen C09Loop C09Step C09Mat C09Orth Finset
open scoped Matrix

/-- the symmetric tridiagonal matrix with diagonal `d` and sub-diagonal `e` -/
def tridiag {R : Type} [Zero R] (d e : ℕ → R) : ℕ → ℕ → R := fun i j =>
  if i = j then d i else if i = j + 1 then e j else if j = i + 1 then e i else 0

theorem band_tridiag {R : Type} [CommRing R] (d e : ℕ → R) : band d e 0 0 = tridiag d e := by
  funext i j; simp only [band, tridiag, ite_self]

section field
variable {K : Type} [Field K] [LinearOrder K] [IsStrictOrderedRing K] (F : FieldFns K)

/-- the deflation test on one entry: the entry is kept, or it is replaced by `0` and then it passed one of the two tests -/
theorem deflateEntry_cases (caz pinv di di1 si : K) :
    let _ : Sc K := scOfField F
    deflateEntry caz pinv di di1 si = si ∨
      (deflateEntry caz pinv di di1 si = 0 ∧ (|si| ≤ caz ∨ (pinv * si) * (pinv * si) ≤ |di| + |di1|)) := by
  intro _
  simp only [deflateEntry, ScF.le, ScF.abs, decide_eq_true_eq, zero, ScF.ofInt, Int.cast_zero]
  split
  · rename_i h; right; exact ⟨rfl, Or.inl h⟩
  · split
    · rename_i h; right; exact ⟨rfl, Or.inr h⟩
    · left; rfl

/-- entries of the sub-diagonal after `for (i = start; i < end; i++)` of the deflation pass -/
theorem deflatePass_get (caz pinv : K) (start end_ : Nat) (d s : Vec K) (hsz : end_ ≤ s.size) (j : Nat) :
    let _ : Sc K := scOfField F
    vget (deflatePass caz pinv start end_ d s) j =
      if start ≤ j ∧ j < end_ then deflateEntry caz pinv (vget d j) (vget d (j + 1)) (vget s j) else vget s j := by
  intro _
  simp only [deflatePass]
  have key : ∀ m, start + m ≤ s.size →
      ((List.range m).foldl (fun s ii => vset s (start + ii) (deflateEntry caz pinv (vget d (start + ii)) (vget d (start + ii + 1)) (vget s (start + ii)))) s).size = s.size ∧
      ∀ j, vget ((List.range m).foldl (fun s ii => vset s (start + ii) (deflateEntry caz pinv (vget d (start + ii)) (vget d (start + ii + 1)) (vget s (start + ii)))) s) j =
        if start ≤ j ∧ j < start + m then deflateEntry caz pinv (vget d j) (vget d (j + 1)) (vget s j) else vget s j := by
    intro m
    induction m with
    | zero => intro _; refine ⟨rfl, fun j => ?_⟩; rw [if_neg (by omega)]; rfl
    | succ m ih =>
      intro hm
      obtain ⟨hsz', hg⟩ := ih (by omega)
      rw [List.range_succ, List.foldl_append]
      simp only [List.foldl_cons, List.foldl_nil]
      refine ⟨by rw [vset_size, hsz'], fun j => ?_⟩
      by_cases hj : j = start + m
      · subst hj
        rw [vget_vset_eq _ _ _ (by rw [hsz']; omega), hg (start + m), if_neg (by omega), if_pos (by omega)]
      · rw [vget_vset_ne _ _ _ _ (Ne.symm hj), hg j]
        by_cases h1 : start ≤ j ∧ j < start + m
        · rw [if_pos h1, if_pos (by omega)]
        · rw [if_neg h1, if_neg (by omega)]
  by_cases hse : start ≤ end_
  · have := (key (end_ - start) (by omega)).2 j
    rw [this, show start + (end_ - start) = end_ by omega]
  · rw [show end_ - start = 0 by omega, if_neg (by omega)]; rfl

/-- **what a deflation pass drops**: every sub-diagonal entry is either unchanged, or replaced by exactly `0` after passing the
    code's negligibility test `|eⱼ| ≤ considerAsZero ∨ (precision_inv·eⱼ)² ≤ |dⱼ| + |dⱼ₊₁|` on its CURRENT value -/
theorem deflatePass_cases (caz pinv : K) (start end_ : Nat) (d s : Vec K) (hsz : end_ ≤ s.size) (j : Nat) :
    let _ : Sc K := scOfField F
    vget (deflatePass caz pinv start end_ d s) j = vget s j ∨
      (vget (deflatePass caz pinv start end_ d s) j = 0 ∧ start ≤ j ∧ j < end_ ∧
        (|vget s j| ≤ caz ∨ (pinv * vget s j) * (pinv * vget s j) ≤ |vget d j| + |vget d (j + 1)|)) := by
  intro _
  have := deflatePass_get F caz pinv start end_ d s hsz j
  simp only at this
  rw [this]
  by_cases h : start ≤ j ∧ j < end_
  · rw [if_pos h]
    rcases deflateEntry_cases F caz pinv (vget d j) (vget d (j + 1)) (vget s j) with h1 | ⟨h1, h2⟩
    · left; exact h1
    · right; exact ⟨h1, h.1, h.2, h2⟩
  · rw [if_neg h]; left; rfl

/-- a matrix as an entry function (`0` outside the `n × n` block) -/
def toFn (n : Nat) (M : Matrix (Fin n) (Fin n) K) : ℕ → ℕ → K := fun i j => if h : i < n ∧ j < n then M ⟨i, h.1⟩ ⟨j, h.2⟩ else 0

theorem toFn_pos (n : Nat) (M : Matrix (Fin n) (Fin n) K) (i j : Nat) (hi : i < n) (hj : j < n) : toFn n M i j = M ⟨i, hi⟩ ⟨j, hj⟩ := by
  simp only [toFn]; rw [dif_pos ⟨hi, hj⟩]

theorem toFn_neg (n : Nat) (M : Matrix (Fin n) (Fin n) K) (i j : Nat) (h : ¬ (i < n ∧ j < n)) : toFn n M i j = 0 := by
  simp only [toFn]; rw [dif_neg h]

/-- **`c09_trideig_decomp`, entry form.** -/
theorem compute_decomp (hu : UnitRot F) (hmin : 0 < F.minPos) (n : Nat) (hn : 0 < n) (d e : Vec K) (hd : d.size = n)
    (he : e.size = n - 1) (r : Decomp K) (hok : @compute K _ _ _ _ _ (scOfField F) n d e = Res.ok r) :
    let _ : Sc K := scOfField F
    ∃ P : ℕ → ℕ → K, (∀ i j, P i j = P j i) ∧ (∀ i j, i < n → j < n → |P i j| ≤ 2 * totalDrop F n d e) ∧
      (∀ i j, i < n → j < n →
        ∑ a ∈ range n, (tridiag (vget d) (vget e) i a - P i a) * r.evecs.get a j = r.evecs.get i j * vget r.evals j) ∧
      (∀ i j, i < n → j < n →
        ∑ a ∈ range n, (tridiag (vget d) (vget e) i a - P i a) * r.evecs.get a j = vget r.evals j * r.evecs.get i j) := by
  intro _
  obtain ⟨Pm, hPs, hPb, hdec, _, _⟩ := compute_sim F hu hmin n hn d e hd he r hok
  refine ⟨toFn n Pm, ?_, ?_, ?_⟩
  · intro i j
    by_cases h : i < n ∧ j < n
    · rw [toFn_pos n Pm i j h.1 h.2, toFn_pos n Pm j i h.2 h.1]
      have := congrFun (congrFun hPs ⟨j, h.2⟩) ⟨i, h.1⟩
      simpa [Matrix.transpose_apply] using this
    · rw [toFn_neg n Pm i j h, toFn_neg n Pm j i (by tauto)]
  · intro i j hi hj
    rw [toFn_pos n Pm i j hi hj]; exact hPb _ _
  · have main : ∀ i j, i < n → j < n →
        ∑ a ∈ range n, (tridiag (vget d) (vget e) i a - toFn n Pm i a) * r.evecs.get a j = r.evecs.get i j * vget r.evals j := by
      intro i j hi hj
      have := congrFun (congrFun hdec ⟨i, hi⟩) ⟨j, hj⟩
      rw [Matrix.mul_diagonal] at this
      simp only [Matrix.mul_apply, Matrix.sub_apply, mat, Matrix.of_apply, band_tridiag] at this
      rw [← this, ← Fin.sum_univ_eq_sum_range (fun a => (tridiag (vget d) (vget e) i a - toFn n Pm i a) * r.evecs.get a j) n]
      apply Finset.sum_congr rfl
      intro a _
      rw [toFn_pos n Pm i a.val hi a.isLt]
    exact ⟨main, fun i j hi hj => by rw [main i j hi hj, mul_comm]⟩

/-- **exact corollary**: if the perturbation budget is `0` (the tiny-matrix exit was not taken on a non-zero input and every
    deflation only overwrote entries that already were `0`), then `T₀ Z = Z D` exactly: every column of `Z` is an eigenvector -/
theorem compute_exact (hu : UnitRot F) (hmin : 0 < F.minPos) (n : Nat) (hn : 0 < n) (d e : Vec K) (hd : d.size = n)
    (he : e.size = n - 1) (r : Decomp K) (hok : @compute K _ _ _ _ _ (scOfField F) n d e = Res.ok r)
    (h0 : totalDrop F n d e = 0) :
    let _ : Sc K := scOfField F
    ∀ i j, i < n → j < n →
      ∑ a ∈ range n, tridiag (vget d) (vget e) i a * r.evecs.get a j = vget r.evals j * r.evecs.get i j := by
  intro _
  obtain ⟨P, _, hb, _, hdec⟩ := compute_decomp F hu hmin n hn d e hd he r hok
  intro i j hi hj
  rw [← hdec i j hi hj]
  apply Finset.sum_congr rfl
  intro a ha
  have := hb i a hi (Finset.mem_range.mp ha)
  rw [h0, mul_zero] at this
  rw [abs_nonpos_iff.mp this, sub_zero]

theorem vget_vofFn (n : Nat) (f : Nat → K) (i : Nat) (hi : i < n) : @vget K (scOfField F) (vofFn n f) i = f i := by
  simp [vget, vofFn, Array.getD_eq_getD_getElem?, hi]

theorem vget_vofFn_oob (n : Nat) (f : Nat → K) (i : Nat) (hi : n ≤ i) : @vget K (scOfField F) (vofFn n f) i = 0 := by
  simp [vget, vofFn, Array.getD_eq_getD_getElem?, hi, zero]

/-- **the `eig_spec` obligation of `C01E.ExactKernels` for `HermSolver.eigH`** (exact arithmetic, ideal rotations, zero perturbation
    budget): every returned column `y = cols[j]` satisfies `H y = θ y` for the symmetric tridiagonal `H` read from the
    factorization (diagonal `H(i,i)`, sub-diagonal `H(i+1,i)`), `θ = evals[j]`, and `lastRow[j]` is its last coordinate. -/
theorem eigH_spec (hu : UnitRot F) (hmin : 0 < F.minPos) (ncv : Nat) (hn : 0 < ncv) (st : Arnoldi.State K)
    (evals lastRow : List K) (cols : List (Vec K))
    (h : @HermSolver.eigH K _ _ _ _ _ (scOfField F) ncv st = .ok (evals, lastRow, cols))
    (h0 : totalDrop F ncv (vofFn ncv (fun i => @Mat.get K (scOfField F) st.H i i))
      (vofFn (ncv - 1) (fun i => @Mat.get K (scOfField F) st.H (i + 1) i)) = 0) :
    let _ : Sc K := scOfField F
    ∀ j, j < ncv →
      (∀ i, i < ncv → ∑ a ∈ range ncv, tridiag (fun i => st.H.get i i) (fun i => st.H.get (i + 1) i) i a * vget (cols.getD j (vzero ncv)) a
          = evals.getD j zero * vget (cols.getD j (vzero ncv)) i) ∧
      lastRow.getD j zero = vget (cols.getD j (vzero ncv)) (ncv - 1) := by
  intro _
  simp only [HermSolver.eigH] at h
  split at h
  · cases h
  · rename_i r hr
    cases h
    have hex := compute_exact F hu hmin ncv hn _ _ (by simp [vofFn]) (by simp [vofFn]) r hr h0
    have hco := compute_orth F hu ncv hn _ _ r hr
    obtain ⟨hw, hrows, hcols, _⟩ := hco
    simp only at hex
    intro j hj
    have hcol : ∀ a, a < ncv → vget (((List.range ncv).map (fun j => r.evecs.col j)).getD j (vzero ncv)) a = r.evecs.get a j := by
      intro a ha
      rw [List.getD_eq_getElem?_getD, List.getElem?_map, List.getElem?_range hj]
      simp only [Option.map_some, Option.getD_some, Mat.col]
      rw [hrows]; exact vget_vofFn F ncv _ a ha
    have hev : r.evals.toList.getD j zero = vget r.evals j := by
      simp [vget, List.getD_eq_getElem?_getD, Array.getD_eq_getD_getElem?]
    refine ⟨fun i hi => ?_, ?_⟩
    · rw [hev, hcol i hi, ← hex i j hi hj]
      apply Finset.sum_congr rfl
      intro a ha
      have ha' := Finset.mem_range.mp ha
      rw [hcol a ha']
      congr 1
      simp only [tridiag]
      split_ifs with c1 c2 c3
      · exact (vget_vofFn F ncv (fun i => st.H.get i i) i hi).symm
      · exact (vget_vofFn F (ncv - 1) (fun i => st.H.get (i + 1) i) a (by omega)).symm
      · exact (vget_vofFn F (ncv - 1) (fun i => st.H.get (i + 1) i) i (by omega)).symm
      · rfl
    · rw [hcol (ncv - 1) (by omega), List.getD_eq_getElem?_getD, List.getElem?_map, List.getElem?_range hj]
      rfl

end field
end C09Sim
