/-
  C09 helper lemmas: entries of the Householder reflector applications of UpperHessenbergSchur (array level, any commutative ring).
-/
import SpectraVerif.Proofs.C09Step

set_option linter.unusedSectionVars false
set_option linter.unusedSimpArgs false
namespace C09HH
open Lin EigenPrims C09Mat HessSchur

variable {R : Type} [CommRing R] [Div R] [Sc R]

theorem set3_get (m : Mat R) (h : WF m) (i0 i j j0 j1 j2 : Nat) (a b c : R)
    (hi0 : i0 < m.rows) (hi : i < m.rows) (h0 : j0 < m.cols) (h1 : j1 < m.cols) (h2 : j2 < m.cols)
    (d01 : j0 ≠ j1) (d02 : j0 ≠ j2) (d12 : j1 ≠ j2) :
    (((m.set i0 j0 a).set i0 j1 b).set i0 j2 c).get i j =
      if i = i0 then (if j = j0 then a else if j = j1 then b else if j = j2 then c else m.get i j) else m.get i j := by
  rw [get_set _ (set_wf _ _ _ _ (set_wf _ _ _ _ h)) _ _ _ _ _ (by rw [set_rows, set_rows]; exact hi0) (by rw [set_cols, set_cols]; exact h2) (by rw [set_rows, set_rows]; exact hi),
      get_set _ (set_wf _ _ _ _ h) _ _ _ _ _ (by rw [set_rows]; exact hi0) (by rw [set_cols]; exact h1) (by rw [set_rows]; exact hi),
      get_set _ h _ _ _ _ _ hi0 h0 hi]
  by_cases hii : i = i0
  · subst hii
    by_cases e2 : j = j2
    · subst e2; simp [Ne.symm d02, Ne.symm d12]
    · by_cases e1 : j = j1
      · subst e1; simp [e2, Ne.symm d01]
      · simp [e1, e2]
  · simp [hii]

/-- entries of `apply_householder_right(_simd)(ess, tau, &M(0,k), nrow, stride)`: rows `i < nrow` of the three columns
    `k, k+1, k+2` become `x − τ (x·v) vᵀ`, i.e. `M P` with `P = I − τ v vᵀ`, `v = (1, v1, v2)`; nothing else changes -/
theorem applyHouseholderRight_get (m : Mat R) (h : WF m) (v1 v2 tau : R) (k nrow : Nat)
    (hk : k + 2 < m.cols) (hn : nrow ≤ m.rows) (i j : Nat) (hi : i < m.rows) :
    (applyHouseholderRight m v1 v2 tau k nrow).get i j =
      if i < nrow then
        (if j = k then m.get i k - tau * (m.get i k + v1 * m.get i (k + 1) + v2 * m.get i (k + 2))
         else if j = k + 1 then m.get i (k + 1) - tau * (m.get i k + v1 * m.get i (k + 1) + v2 * m.get i (k + 2)) * v1
         else if j = k + 2 then m.get i (k + 2) - tau * (m.get i k + v1 * m.get i (k + 1) + v2 * m.get i (k + 2)) * v2
         else m.get i j)
      else m.get i j := by
  simp only [applyHouseholderRight, hhKernel]
  have key : ∀ n, n ≤ m.rows →
      WF ((List.range n).foldl (fun acc i =>
        ((acc.set i k (acc.get i k - tau * (acc.get i k + v1 * acc.get i (k + 1) + v2 * acc.get i (k + 2)))).set i (k + 1)
          (acc.get i (k + 1) - tau * (acc.get i k + v1 * acc.get i (k + 1) + v2 * acc.get i (k + 2)) * v1)).set i (k + 2)
          (acc.get i (k + 2) - tau * (acc.get i k + v1 * acc.get i (k + 1) + v2 * acc.get i (k + 2)) * v2)) m) ∧
      ((List.range n).foldl (fun acc i =>
        ((acc.set i k (acc.get i k - tau * (acc.get i k + v1 * acc.get i (k + 1) + v2 * acc.get i (k + 2)))).set i (k + 1)
          (acc.get i (k + 1) - tau * (acc.get i k + v1 * acc.get i (k + 1) + v2 * acc.get i (k + 2)) * v1)).set i (k + 2)
          (acc.get i (k + 2) - tau * (acc.get i k + v1 * acc.get i (k + 1) + v2 * acc.get i (k + 2)) * v2)) m).rows = m.rows ∧
      ((List.range n).foldl (fun acc i =>
        ((acc.set i k (acc.get i k - tau * (acc.get i k + v1 * acc.get i (k + 1) + v2 * acc.get i (k + 2)))).set i (k + 1)
          (acc.get i (k + 1) - tau * (acc.get i k + v1 * acc.get i (k + 1) + v2 * acc.get i (k + 2)) * v1)).set i (k + 2)
          (acc.get i (k + 2) - tau * (acc.get i k + v1 * acc.get i (k + 1) + v2 * acc.get i (k + 2)) * v2)) m).cols = m.cols ∧
      ∀ i j, i < m.rows →
        ((List.range n).foldl (fun acc i =>
        ((acc.set i k (acc.get i k - tau * (acc.get i k + v1 * acc.get i (k + 1) + v2 * acc.get i (k + 2)))).set i (k + 1)
          (acc.get i (k + 1) - tau * (acc.get i k + v1 * acc.get i (k + 1) + v2 * acc.get i (k + 2)) * v1)).set i (k + 2)
          (acc.get i (k + 2) - tau * (acc.get i k + v1 * acc.get i (k + 1) + v2 * acc.get i (k + 2)) * v2)) m).get i j =
          if i < n then
            (if j = k then m.get i k - tau * (m.get i k + v1 * m.get i (k + 1) + v2 * m.get i (k + 2))
             else if j = k + 1 then m.get i (k + 1) - tau * (m.get i k + v1 * m.get i (k + 1) + v2 * m.get i (k + 2)) * v1
             else if j = k + 2 then m.get i (k + 2) - tau * (m.get i k + v1 * m.get i (k + 1) + v2 * m.get i (k + 2)) * v2
             else m.get i j)
          else m.get i j := by
    intro n
    induction n with
    | zero => intro _; simp [h]
    | succ n ih =>
      intro hn'
      obtain ⟨wf, hr, hc, hg⟩ := ih (by omega)
      rw [List.range_succ, List.foldl_append]
      simp only [List.foldl_cons, List.foldl_nil]
      refine ⟨set_wf _ _ _ _ (set_wf _ _ _ _ (set_wf _ _ _ _ wf)), by rw [set_rows, set_rows, set_rows, hr],
        by rw [set_cols, set_cols, set_cols, hc], ?_⟩
      intro i j hi
      rw [set3_get _ wf n i j k (k + 1) (k + 2) _ _ _ (by rw [hr]; omega) (by rw [hr]; exact hi)
        (by rw [hc]; omega) (by rw [hc]; omega) (by rw [hc]; omega) (by omega) (by omega) (by omega)]
      by_cases hin : i = n
      · subst hin
        simp only [if_true, hg i _ hi, lt_irrefl, if_false, Nat.lt_succ_self]
      · simp only [if_neg hin, hg i j hi]
        by_cases hlt : i < n
        · simp only [if_pos hlt, if_pos (Nat.lt_succ_of_lt hlt)]
        · simp only [if_neg hlt, if_neg (show ¬ i < n + 1 by omega)]
  exact (key nrow hn).2.2.2 i j hi

theorem set3c_get (m : Mat R) (h : WF m) (j0 i j r0 r1 r2 : Nat) (a b c : R)
    (hj0 : j0 < m.cols) (hi : i < m.rows) (h0 : r0 < m.rows) (h1 : r1 < m.rows) (h2 : r2 < m.rows)
    (d01 : r0 ≠ r1) (d02 : r0 ≠ r2) (d12 : r1 ≠ r2) :
    (((m.set r0 j0 a).set r1 j0 b).set r2 j0 c).get i j =
      if j = j0 then (if i = r0 then a else if i = r1 then b else if i = r2 then c else m.get i j) else m.get i j := by
  rw [get_set _ (set_wf _ _ _ _ (set_wf _ _ _ _ h)) _ _ _ _ _ (by rw [set_rows, set_rows]; exact h2) (by rw [set_cols, set_cols]; exact hj0) (by rw [set_rows, set_rows]; exact hi),
      get_set _ (set_wf _ _ _ _ h) _ _ _ _ _ (by rw [set_rows]; exact h1) (by rw [set_cols]; exact hj0) (by rw [set_rows]; exact hi),
      get_set _ h _ _ _ _ _ h0 hj0 hi]
  by_cases hjj : j = j0
  · subst hjj
    by_cases e2 : i = r2
    · subst e2; simp [Ne.symm d02, Ne.symm d12]
    · by_cases e1 : i = r1
      · subst e1; simp [e2, Ne.symm d01]
      · simp [e1, e2]
  · simp [hjj]

/-- entries of `apply_householder_left(ess, tau, &M(k,c0), ncol, stride)`: columns `c0 ≤ j < c0+ncol` of the three rows
    `k, k+1, k+2` become `x − τ v (vᵀx)`, i.e. `P M` with `P = I − τ v vᵀ`, `v = (1, v1, v2)`; nothing else changes -/
theorem applyHouseholderLeft_get (m : Mat R) (h : WF m) (v1 v2 tau : R) (k c0 ncol : Nat)
    (hk : k + 2 < m.rows) (hn : c0 + ncol ≤ m.cols) (i j : Nat) (hi : i < m.rows) :
    (applyHouseholderLeft m v1 v2 tau k c0 ncol).get i j =
      if c0 ≤ j ∧ j < c0 + ncol then
        (if i = k then m.get k j - tau * (m.get k j + v1 * m.get (k + 1) j + v2 * m.get (k + 2) j)
         else if i = k + 1 then m.get (k + 1) j - tau * (m.get k j + v1 * m.get (k + 1) j + v2 * m.get (k + 2) j) * v1
         else if i = k + 2 then m.get (k + 2) j - tau * (m.get k j + v1 * m.get (k + 1) j + v2 * m.get (k + 2) j) * v2
         else m.get i j)
      else m.get i j := by
  simp only [applyHouseholderLeft, hhKernel]
  have key : ∀ n, c0 + n ≤ m.cols →
      WF ((List.range n).foldl (fun acc jj =>
        ((acc.set k (c0 + jj) (acc.get k (c0 + jj) - tau * (acc.get k (c0 + jj) + v1 * acc.get (k + 1) (c0 + jj) + v2 * acc.get (k + 2) (c0 + jj)))).set (k + 1) (c0 + jj)
          (acc.get (k + 1) (c0 + jj) - tau * (acc.get k (c0 + jj) + v1 * acc.get (k + 1) (c0 + jj) + v2 * acc.get (k + 2) (c0 + jj)) * v1)).set (k + 2) (c0 + jj)
          (acc.get (k + 2) (c0 + jj) - tau * (acc.get k (c0 + jj) + v1 * acc.get (k + 1) (c0 + jj) + v2 * acc.get (k + 2) (c0 + jj)) * v2)) m) ∧
      ((List.range n).foldl (fun acc jj =>
        ((acc.set k (c0 + jj) (acc.get k (c0 + jj) - tau * (acc.get k (c0 + jj) + v1 * acc.get (k + 1) (c0 + jj) + v2 * acc.get (k + 2) (c0 + jj)))).set (k + 1) (c0 + jj)
          (acc.get (k + 1) (c0 + jj) - tau * (acc.get k (c0 + jj) + v1 * acc.get (k + 1) (c0 + jj) + v2 * acc.get (k + 2) (c0 + jj)) * v1)).set (k + 2) (c0 + jj)
          (acc.get (k + 2) (c0 + jj) - tau * (acc.get k (c0 + jj) + v1 * acc.get (k + 1) (c0 + jj) + v2 * acc.get (k + 2) (c0 + jj)) * v2)) m).rows = m.rows ∧
      ((List.range n).foldl (fun acc jj =>
        ((acc.set k (c0 + jj) (acc.get k (c0 + jj) - tau * (acc.get k (c0 + jj) + v1 * acc.get (k + 1) (c0 + jj) + v2 * acc.get (k + 2) (c0 + jj)))).set (k + 1) (c0 + jj)
          (acc.get (k + 1) (c0 + jj) - tau * (acc.get k (c0 + jj) + v1 * acc.get (k + 1) (c0 + jj) + v2 * acc.get (k + 2) (c0 + jj)) * v1)).set (k + 2) (c0 + jj)
          (acc.get (k + 2) (c0 + jj) - tau * (acc.get k (c0 + jj) + v1 * acc.get (k + 1) (c0 + jj) + v2 * acc.get (k + 2) (c0 + jj)) * v2)) m).cols = m.cols ∧
      ∀ i j, i < m.rows →
        ((List.range n).foldl (fun acc jj =>
        ((acc.set k (c0 + jj) (acc.get k (c0 + jj) - tau * (acc.get k (c0 + jj) + v1 * acc.get (k + 1) (c0 + jj) + v2 * acc.get (k + 2) (c0 + jj)))).set (k + 1) (c0 + jj)
          (acc.get (k + 1) (c0 + jj) - tau * (acc.get k (c0 + jj) + v1 * acc.get (k + 1) (c0 + jj) + v2 * acc.get (k + 2) (c0 + jj)) * v1)).set (k + 2) (c0 + jj)
          (acc.get (k + 2) (c0 + jj) - tau * (acc.get k (c0 + jj) + v1 * acc.get (k + 1) (c0 + jj) + v2 * acc.get (k + 2) (c0 + jj)) * v2)) m).get i j =
          if c0 ≤ j ∧ j < c0 + n then
            (if i = k then m.get k j - tau * (m.get k j + v1 * m.get (k + 1) j + v2 * m.get (k + 2) j)
             else if i = k + 1 then m.get (k + 1) j - tau * (m.get k j + v1 * m.get (k + 1) j + v2 * m.get (k + 2) j) * v1
             else if i = k + 2 then m.get (k + 2) j - tau * (m.get k j + v1 * m.get (k + 1) j + v2 * m.get (k + 2) j) * v2
             else m.get i j)
          else m.get i j := by
    intro n
    induction n with
    | zero => intro _; refine ⟨by simpa using h, rfl, rfl, ?_⟩; intro i j _; simp
    | succ n ih =>
      intro hn'
      obtain ⟨wf, hr, hc, hg⟩ := ih (by omega)
      rw [List.range_succ, List.foldl_append]
      simp only [List.foldl_cons, List.foldl_nil]
      refine ⟨set_wf _ _ _ _ (set_wf _ _ _ _ (set_wf _ _ _ _ wf)), by rw [set_rows, set_rows, set_rows, hr],
        by rw [set_cols, set_cols, set_cols, hc], ?_⟩
      intro i j hi
      rw [set3c_get _ wf (c0 + n) i j k (k + 1) (k + 2) _ _ _ (by rw [hc]; omega) (by rw [hr]; exact hi)
        (by rw [hr]; omega) (by rw [hr]; omega) (by rw [hr]; omega) (by omega) (by omega) (by omega)]
      have hnot : ¬ (c0 ≤ c0 + n ∧ c0 + n < c0 + n) := by omega
      by_cases hjn : j = c0 + n
      · subst hjn
        simp only [if_true, hg _ _ (show k < m.rows by omega), hg _ _ (show k + 1 < m.rows by omega), hg _ _ (show k + 2 < m.rows by omega),
          hg i _ hi, if_neg hnot, if_pos (show c0 ≤ c0 + n ∧ c0 + n < c0 + (n + 1) by omega)]
      · simp only [if_neg hjn, hg i j hi]
        by_cases hlt : c0 ≤ j ∧ j < c0 + n
        · simp only [if_pos hlt, if_pos (show c0 ≤ j ∧ j < c0 + (n + 1) by omega)]
        · simp only [if_neg hlt, if_neg (show ¬ (c0 ≤ j ∧ j < c0 + (n + 1)) by omega)]
  exact (key ncol hn).2.2.2 i j hi

end C09HH
