/-
  C11 helper lemmas: triangle algebra of the MatOp wrappers (`Model/Ops.lean`), the composite operators over Mathlib matrices,
  the permutation around the sparse Cholesky factor, the real block system of the complex shift solve,
  the lift of the regenerated solver-call table to "no undocumented configuration call" and the pivoting rule of SparseLU.
-/
import Mathlib.Tactic.Ring
import Mathlib.Tactic.Linarith
import Mathlib.Data.Matrix.Mul
import Mathlib.LinearAlgebra.Matrix.NonsingularInverse
import Mathlib.Data.Complex.BigOperators
import Mathlib.Algebra.Order.Field.Basic
import Mathlib.Algebra.Order.AbsoluteValue.Basic
import SpectraVerif.Model.Ops
import SpectraVerif.Proofs.ScField
set_option linter.unusedSectionVars false
set_option linter.unusedVariables false
set_option linter.unnecessarySeqFocus false
set_option linter.unnecessarySimpa false
namespace Ops
open Lin

/-! ### triangles -/
open Lin

theorem inTri_total (u : Uplo) (i j : Nat) (h : inTri u i j = false) : inTri u j i = true := by
  cases u <;> simp [inTri] at * <;> omega

theorem inTri_both (u : Uplo) (i j : Nat) (h : inTri u i j = true) (h' : inTri u j i = true) : i = j := by
  cases u <;> simp [inTri] at * <;> omega

/-- the opposite triangle -/
theorem inTri_opp {u v : Uplo} (huv : u ≠ v) (i j : Nat) : inTri v i j = inTri u j i := by
  cases u <;> cases v <;> simp [inTri] at * 

theorem symFromTri_congr {β : Type} (u : Uplo) (M M' : Nat → Nat → β)
    (h : ∀ i j, inTri u i j = true → M i j = M' i j) : symFromTri u M = symFromTri u M' := by
  funext i j
  unfold symFromTri
  by_cases hij : inTri u i j = true
  · simp [hij, h i j hij]
  · have hf : inTri u i j = false := by simpa using hij
    simp [hf, h j i (inTri_total u i j hf)]

theorem symFromTri_symm {β : Type} (u : Uplo) (M : Nat → Nat → β) (i j : Nat) :
    symFromTri u M i j = symFromTri u M j i := by
  unfold symFromTri
  by_cases h1 : inTri u i j = true <;> by_cases h2 : inTri u j i = true
  · have := inTri_both u i j h1 h2; subst this; rfl
  · simp [h1, h2]
  · simp [h1, h2]
  · have hf : inTri u i j = false := by simpa using h1
    exact absurd (inTri_total u i j hf) h2

/-- how the factorized matrix of `SymShiftInvert` combines the two symmetric completions, per pairing (no ring laws used) -/
def ssiCombine {β : Type} [Add β] [Sub β] [Mul β] [Neg β] (p : Pairing) (a b sigma : β) : β :=
  match p with
  | .denseDense | .denseSparse => a - b * sigma
  | .sparseDense => (-sigma) * b + a
  | .sparseSparse => a - sigma * b

theorem ssiMatrix_eq_combine {β : Type} [Add β] [Sub β] [Mul β] [Neg β]
    (p : Pairing) (ua ub : Uplo) (A B : Nat → Nat → β) (sigma : β) (junk : Nat → Nat → β) (i j : Nat) :
    ssiMatrix p ua ub A B sigma junk i j = ssiCombine p (symFromTri ua A i j) (symFromTri ub B i j) sigma := by
  rcases Nat.lt_trichotomy i j with h | h | h
  · have h1 : ¬ j ≤ i := by omega
    have h2 : i ≤ j := by omega
    cases p <;> cases ua <;> cases ub <;>
      simp [ssiMatrix, ssiCombine, symFromTri, ssiAssembleDenseA, ssiAssembleDenseB, ssiAssembleSparse, inTri, h1, h2]
  · subst h
    cases p <;> cases ua <;> cases ub <;>
      simp [ssiMatrix, ssiCombine, symFromTri, ssiAssembleDenseA, ssiAssembleDenseB, ssiAssembleSparse, inTri]
  · have h1 : ¬ i ≤ j := by omega
    have h2 : j ≤ i := by omega
    cases p <;> cases ua <;> cases ub <;>
      simp [ssiMatrix, ssiCombine, symFromTri, ssiAssembleDenseA, ssiAssembleDenseB, ssiAssembleSparse, inTri, h1, h2]

theorem hermFromTri_congr {β : Type} [Neg β] (u : Uplo) (M M' : Nat → Nat → β × β)
    (h : ∀ i j, inTri u i j = true → M i j = M' i j) : hermFromTri u M = hermFromTri u M' := by
  funext i j
  unfold hermFromTri
  by_cases hij : inTri u i j = true
  · simp [hij, h i j hij]
  · have hf : inTri u i j = false := by simpa using hij
    simp [hf, h j i (inTri_total u i j hf)]

/-- in a commutative ring all pairings combine to `a - σ b` -/
theorem ssiCombine_ring {R : Type} [CommRing R] (p : Pairing) (a b sigma : R) : ssiCombine p a b sigma = a - sigma * b := by
  cases p <;> simp [ssiCombine] <;> ring

/-! ### the same on the executable `Lin.Mat` layer -/
open Lin

section
variable {α : Type} [Add α] [Sub α] [Mul α] [Div α] [Neg α] [Sc α]

theorem Mat_ofFn_congr (r c : Nat) (f g : Nat → Nat → α) (h : ∀ i j, i < r → j < c → f i j = g i j) :
    Mat.ofFn r c f = Mat.ofFn r c g := by
  unfold Mat.ofFn
  congr 1
  apply congrArg
  funext k
  have hk := k.isLt
  have hr : 0 < r := by
    rcases Nat.eq_zero_or_pos r with h0 | h0
    · subst h0; simp at hk
    · exact h0
  exact h _ _ (Nat.mod_lt _ hr) (Nat.div_lt_of_lt_mul (by simpa [Nat.mul_comm] using hk))

/-- two stored square matrices that agree on triangle `u` denote the same symmetric matrix -/
theorem symMat_congr (u : Uplo) (M M' : Mat α) (n : Nat) (hr : M.rows = n) (hc : M.cols = n) (hr' : M'.rows = n) (hc' : M'.cols = n)
    (h : ∀ i j, i < n → j < n → inTri u i j = true → M.get i j = M'.get i j) : symMat u M = symMat u M' := by
  unfold symMat
  rw [hr, hc, hr', hc']
  apply Mat_ofFn_congr
  intro i j hi hj
  unfold symFromTri
  by_cases hij : inTri u i j = true
  · simp [hij, h i j hi hj hij]
  · have hf : inTri u i j = false := by simpa using hij
    have : inTri u j i = true := by cases u <;> simp [inTri] at * <;> omega
    simp [hf, h j i hj hi this]
end

section
variable {α : Type} [Add α] [Sub α] [Mul α] [Div α] [Neg α] [Sc α]

theorem symFromTri_get_congr (u : Uplo) (M M' : Mat α) (n : Nat)
    (h : ∀ i j, i < n → j < n → inTri u i j = true → M.get i j = M'.get i j) (i j : Nat) (hi : i < n) (hj : j < n) :
    symFromTri u (fun a b => M.get a b) i j = symFromTri u (fun a b => M'.get a b) i j := by
  unfold symFromTri
  by_cases hij : inTri u i j = true
  · simp [hij, h i j hi hj hij]
  · have hf : inTri u i j = false := by simpa using hij
    simp [hf, h j i hj hi (inTri_total u i j hf)]

/-- two stored `n × n` matrices agree on triangle `u` -/
def AgreeOn (u : Uplo) (n : Nat) (M M' : Mat α) : Prop :=
  M.rows = n ∧ M.cols = n ∧ M'.rows = n ∧ M'.cols = n ∧ ∀ i j, i < n → j < n → inTri u i j = true → M.get i j = M'.get i j

theorem AgreeOn.symMat_eq {u : Uplo} {n : Nat} {M M' : Mat α} (h : AgreeOn u n M M') : symMat u M = symMat u M' :=
  symMat_congr u M M' n h.1 h.2.1 h.2.2.1 h.2.2.2.1 h.2.2.2.2

/-- the matrix factorized by `SymShiftInvert::set_shift` depends on `A` only through triangle `ua`, on `B` only through `ub` -/
theorem ssiMat_congr (p : Pairing) (ua ub : Uplo) (A A' B B' : Mat α) (sigma : α) (n : Nat)
    (hA : A.rows = n) (hA' : A'.rows = n)
    (ha : ∀ i j, i < n → j < n → inTri ua i j = true → A.get i j = A'.get i j)
    (hb : ∀ i j, i < n → j < n → inTri ub i j = true → B.get i j = B'.get i j) :
    ssiMat p ua ub A B sigma = ssiMat p ua ub A' B' sigma := by
  unfold ssiMat matOfFn
  rw [hA, hA']
  apply Mat_ofFn_congr
  intro i j hi hj
  rw [ssiMatrix_eq_combine, ssiMatrix_eq_combine, symFromTri_get_congr ua A A' n ha i j hi hj, symFromTri_get_congr ub B B' n hb i j hi hj]
end

/-! ### composite operators, sparse Cholesky permutation (Mathlib matrices over a commutative ring) -/
open Matrix

section comp
variable {n R : Type} [Fintype n] [DecidableEq n] [CommRing R]

theorem shiftInvert_apply (A B Minv : Matrix n n R) (sigma : R) (hM : (A - sigma • B) * Minv = 1)
    (op Bop : (n → R) → (n → R)) (hop : ∀ v, op v = Minv *ᵥ v) (hB : ∀ v, Bop v = B *ᵥ v) (x : n → R) :
    shiftInvertOp op Bop x = (Minv * B) *ᵥ x ∧ (A - sigma • B) *ᵥ shiftInvertOp op Bop x = B *ᵥ x := by
  unfold shiftInvertOp
  rw [hop, hB]
  refine ⟨by rw [Matrix.mulVec_mulVec], ?_⟩
  rw [Matrix.mulVec_mulVec, Matrix.mulVec_mulVec, hM, Matrix.one_mul]

theorem cayley_apply (A B Minv : Matrix n n R) (sigma : R) (hM : (A - sigma • B) * Minv = 1)
    (op Bop : (n → R) → (n → R)) (hop : ∀ v, op v = Minv *ᵥ v) (hB : ∀ v, Bop v = B *ᵥ v) (x : n → R) :
    (A - sigma • B) *ᵥ cayleyOp op Bop sigma x = (A + sigma • B) *ᵥ x ∧
    cayleyOp op Bop sigma x = (Minv * (A + sigma • B)) *ᵥ x := by
  have hM' : Minv * (A - sigma • B) = 1 := mul_eq_one_comm.mp hM
  have key : cayleyOp op Bop sigma x = (Minv * (A + sigma • B)) *ᵥ x := by
    unfold cayleyOp
    rw [hop, hB, Matrix.mulVec_mulVec]
    have e : A + sigma • B = (A - sigma • B) + (2 * sigma) • B := by
      rw [two_mul, add_smul]; abel
    rw [e, Matrix.mul_add, hM', Matrix.add_mulVec, Matrix.one_mulVec, Matrix.mul_smul, Matrix.smul_mulVec]
  refine ⟨?_, key⟩
  rw [key, Matrix.mulVec_mulVec, ← Matrix.mul_assoc, hM, Matrix.one_mul]

theorem cholesky_apply (A L Linv : Matrix n n R) (hL : L * Linv = 1)
    (op lower upper : (n → R) → (n → R)) (hop : ∀ v, op v = A *ᵥ v) (hlo : ∀ v, lower v = Linv *ᵥ v) (hup : ∀ v, upper v = Linvᵀ *ᵥ v)
    (x : n → R) : choleskyOp op lower upper x = (Linv * A * Linvᵀ) *ᵥ x := by
  unfold choleskyOp
  rw [hup, hop, hlo, Matrix.mulVec_mulVec, Matrix.mulVec_mulVec, Matrix.mul_assoc]

theorem reginv_apply (A B Binv : Matrix n n R) (hB : B * Binv = 1)
    (op solve : (n → R) → (n → R)) (hop : ∀ v, op v = A *ᵥ v) (hs : ∀ v, solve v = Binv *ᵥ v) (x : n → R) :
    regInvOp op solve x = (Binv * A) *ᵥ x ∧ B *ᵥ regInvOp op solve x = A *ᵥ x := by
  unfold regInvOp
  rw [hs, hop, Matrix.mulVec_mulVec]
  refine ⟨rfl, ?_⟩
  rw [Matrix.mulVec_mulVec, ← Matrix.mul_assoc, hB, Matrix.one_mul]

theorem sparse_chol_perm (P L Linv : Matrix n n R) (hP : Pᵀ * P = 1) (hL : L * Linv = 1) :
    (Pᵀ * (L * Lᵀ) * P) * (Pᵀ * Linvᵀ * (Linv * P)) = 1 := by
  have hP' : P * Pᵀ = 1 := mul_eq_one_comm.mp hP
  have hL' : Linv * L = 1 := mul_eq_one_comm.mp hL
  have hLt : Lᵀ * Linvᵀ = 1 := by rw [← Matrix.transpose_mul, hL', Matrix.transpose_one]
  calc (Pᵀ * (L * Lᵀ) * P) * (Pᵀ * Linvᵀ * (Linv * P))
      = Pᵀ * (L * (Lᵀ * ((P * Pᵀ) * (Linvᵀ * (Linv * P))))) := by simp only [Matrix.mul_assoc]
    _ = Pᵀ * (L * ((Lᵀ * Linvᵀ) * (Linv * P))) := by rw [hP', Matrix.one_mul, Matrix.mul_assoc]
    _ = Pᵀ * ((L * Linv) * P) := by rw [hLt, Matrix.one_mul, Matrix.mul_assoc]
    _ = 1 := by rw [hL, Matrix.one_mul, hP]
end comp

/-! ### the executable permutation functions -/
theorem find_range_inj (p : Nat → Nat) (n i : Nat) (hi : i < n)
    (hinj : ∀ a b, a < n → b < n → p a = p b → a = b) :
    (List.range n).find? (fun a => p a == p i) = some i := by
  rw [List.find?_eq_some_iff_getElem]
  refine ⟨by simp, i, by simpa using hi, by simp, ?_⟩
  intro j hj
  simp only [List.getElem_range, Bool.not_eq_true', beq_eq_false_iff_ne, ne_eq]
  intro h
  have := hinj j i (by omega) hi h
  omega

theorem permBwd_permFwd {β : Type} (p : Nat → Nat) (n : Nat) (x : Nat → β) (d : β)
    (hinj : ∀ a b, a < n → b < n → p a = p b → a = b) (i : Nat) (hi : i < n) :
    permBwd p (permFwd p n x d) i = x i := by
  unfold permBwd permFwd
  rw [find_range_inj p n i hi hinj]

/-! ### complex shift: the real block system -/
open Matrix

theorem real_part_block {n : Type} [Fintype n] [DecidableEq n] (A : Matrix n n ℝ) (a b : ℝ) (u v x : n → ℝ)
    (h1 : (A - a • (1 : Matrix n n ℝ)) *ᵥ u + b • v = x)
    (h2 : (A - a • (1 : Matrix n n ℝ)) *ᵥ v - b • u = 0) :
    (A.map (fun r => (r : ℂ)) - (⟨a, b⟩ : ℂ) • (1 : Matrix n n ℂ)) *ᵥ (fun i => (⟨u i, v i⟩ : ℂ)) = fun i => ((x i : ℝ) : ℂ) := by
  funext i
  have e1 : ∑ j, (A i j - a * (if i = j then 1 else 0)) * u j + b * v i = x i := by
    have := congrFun h1 i
    simpa [Matrix.mulVec, dotProduct, Matrix.sub_apply, Matrix.smul_apply, Matrix.one_apply] using this
  have e2 : ∑ j, (A i j - a * (if i = j then 1 else 0)) * v j - b * u i = 0 := by
    have := congrFun h2 i
    simpa [Matrix.mulVec, dotProduct, Matrix.sub_apply, Matrix.smul_apply, Matrix.one_apply] using this
  show ∑ j, ((A.map (fun r => (r : ℂ)) - (⟨a, b⟩ : ℂ) • (1 : Matrix n n ℂ)) i j) * (⟨u j, v j⟩ : ℂ) = ((x i : ℝ) : ℂ)
  have t : ∀ j, ((A.map (fun r => (r : ℂ)) - (⟨a, b⟩ : ℂ) • (1 : Matrix n n ℂ)) i j) * (⟨u j, v j⟩ : ℂ)
      = (⟨(A i j - a * (if i = j then 1 else 0)) * u j + (if i = j then b * v j else 0),
          (A i j - a * (if i = j then 1 else 0)) * v j - (if i = j then b * u j else 0)⟩ : ℂ) := by
    intro j
    by_cases hij : i = j
    · subst hij; apply Complex.ext <;> simp [Matrix.sub_apply, Matrix.smul_apply, Matrix.map_apply] <;> ring
    · apply Complex.ext <;> simp [Matrix.sub_apply, Matrix.smul_apply, Matrix.map_apply, Matrix.one_apply_ne hij, hij]
  rw [Finset.sum_congr rfl (fun j _ => t j)]
  apply Complex.ext
  · rw [Complex.re_sum]
    simp only [Complex.ofReal_re, Finset.sum_add_distrib, Finset.sum_ite_eq, Finset.mem_univ, if_true]
    exact e1
  · rw [Complex.im_sum]
    simp only [Complex.ofReal_im, Finset.sum_sub_distrib, Finset.sum_ite_eq, Finset.mem_univ, if_true]
    exact e2

/-- the four quadrants of the model's `cshiftBlock`: `[[A - aI, bI], [-bI, A - aI]]` -/
theorem cshiftBlock_entries {β : Type} [Sub β] [Neg β] (z : β) (n : Nat) (A : Nat → Nat → β) (a b : β) (i j : Nat) (hi : i < n) (hj : j < n) :
    cshiftBlock z n A a b i j = (if i = j then A i j - a else A i j) ∧
    cshiftBlock z n A a b i (n + j) = (if i = j then b else z) ∧
    cshiftBlock z n A a b (n + i) j = (if i = j then -b else z) ∧
    cshiftBlock z n A a b (n + i) (n + j) = (if i = j then A i j - a else A i j) := by
  have h1 : ¬ (n + i < n) := by omega
  have h2 : ¬ (n + j < n) := by omega
  refine ⟨?_, ?_, ?_, ?_⟩
  · simp [cshiftBlock, hi, hj]
  · simp [cshiftBlock, hi, h2]; by_cases h : i = j <;> simp [h, eq_comm]
  · simp [cshiftBlock, hj, h1]
  · simp [cshiftBlock, h1, h2]

/-! ### solver-object footprint -/

/-- a documented call has a documented name (or is the one documented hand-over) -/
theorem documentedCall_name (call args : String) (h : documentedCall call args = true) : call ∈ documentedNames ∨ call = "(use)" := by
  simp only [documentedCall, Bool.or_eq_true, Bool.and_eq_true, beq_iff_eq] at h
  simp only [documentedNames, List.mem_cons, List.mem_nil_iff, or_false]
  rcases h with (((h | h) | ⟨((((h | h) | h) | h) | h), _⟩) | ⟨h, _⟩) | ⟨h, _⟩ <;> simp [h]

/-- **lift from the finite table to all names**: if every entry of a table is a documented call, then NO member function outside the documented
    list is called in it -/
theorem only_documented_names (tbl : List SolverCall) (h : ∀ e ∈ tbl, documentedCall e.call e.args = true)
    (name : String) (hn : name ∉ documentedNames) (hu : name ≠ "(use)") : ∀ e ∈ tbl, e.call ≠ name := by
  intro e he heq
  rcases documentedCall_name _ _ (h e he) with h1 | h1
  · exact hn (heq ▸ h1)
  · exact hu (heq ▸ h1)

theorem LUConfig.step_threshold (c : LUConfig) (call args : String) (h : call ≠ "setPivotThreshold") :
    (c.step call args).pivotThreshold = c.pivotThreshold := by
  unfold LUConfig.step
  split <;> rfl

/-- a history without `setPivotThreshold` leaves the pivot threshold where it was (any length, any order) -/
theorem LUConfig.run_threshold (hist : List SolverCall) (c : LUConfig) (h : ∀ e ∈ hist, e.call ≠ "setPivotThreshold") :
    (c.run hist).pivotThreshold = c.pivotThreshold := by
  induction hist generalizing c with
  | nil => rfl
  | cons e t ih =>
    have := ih (c.step e.call e.args) (fun x hx => h x (List.mem_cons_of_mem _ hx))
    simp only [LUConfig.run, List.foldl_cons] at this ⊢
    rw [this, LUConfig.step_threshold c _ _ (h e List.mem_cons_self)]

theorem LUConfig.step_symmetric (c : LUConfig) (call args : String) (h : call = "isSymmetric" → args = "true") (hc : c.symmetricMode = true ∨ call = "isSymmetric") :
    (c.step call args).symmetricMode = true := by
  unfold LUConfig.step
  by_cases h1 : call = "isSymmetric"
  · simp [h1, h h1]
  · rcases hc with hc | hc
    · simp only [h1, if_false]; split <;> simp [hc]
    · exact absurd hc h1

section pivot
variable {K : Type} [Field K] [LinearOrder K] [IsStrictOrderedRing K]

/-- the multipliers of a column whose accepted diagonal pivot is `d`: with threshold `t > 0` they are bounded by `1 / t` -/
theorem diagPivot_multiplier_bound (F : FieldFns K) (t pivmax d : K) (ht : 0 < t)
    (hacc : @diagPivotAccepted K _ (scOfField F) t pivmax d = true) (a : K) (ha : |a| ≤ pivmax) : |a / d| ≤ 1 / t := by
  simp only [diagPivotAccepted, Bool.and_eq_true, Bool.not_eq_true', ScF.eq, ScF.le, ScF.abs, ScF.ofInt, decide_eq_false_iff_not, decide_eq_true_eq, Int.cast_zero] at hacc
  obtain ⟨hd0, hle⟩ := hacc
  have hd : 0 < |d| := lt_of_le_of_ne (abs_nonneg d) (Ne.symm hd0)
  rw [abs_div, div_le_div_iff₀ hd ht, one_mul]
  calc |a| * t ≤ pivmax * t := by gcongr
    _ = t * pivmax := by ring
    _ ≤ |d| := hle

/-- threshold 1 (the constructor's value) is partial pivoting: all multipliers are at most 1 in magnitude -/
theorem diagPivot_partial (F : FieldFns K) (pivmax d : K)
    (hacc : @diagPivotAccepted K _ (scOfField F) 1 pivmax d = true) (a : K) (ha : |a| ≤ pivmax) : |a / d| ≤ 1 := by
  simpa using diagPivot_multiplier_bound F 1 pivmax d one_pos hacc a ha
end pivot

end Ops
