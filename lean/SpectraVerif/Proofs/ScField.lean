/-
  The field instance of the scalar class: exact arithmetic over any linearly ordered field `K`.
  `sqrt`, `pow` and the machine parameters are *parameters* (`FieldFns`), constrained only by the hypotheses that
  individual theorems state, so results hold for float, double and long double parameters alike.
-/
import Mathlib.Algebra.Order.Field.Basic
import Mathlib.Algebra.Order.AbsoluteValue.Basic
import SpectraVerif.Prelude.Sc

structure FieldFns (K : Type) where
  sqrt : K → K
  pow : K → K → K
  eps : K
  minPos : K

/-- exact-arithmetic semantics of `Sc` -/
@[reducible] def scOfField {K : Type} [Field K] [LinearOrder K] [IsStrictOrderedRing K] (F : FieldFns K) : Sc K where
  abs := fun x => |x|
  sqrt := F.sqrt
  pow := F.pow
  ofInt := fun i => (i : K)
  lit m e := (m : K) * (10 : K) ^ e
  lt a b := decide (a < b)
  le a b := decide (a ≤ b)
  eq a b := decide (a = b)
  eps := F.eps
  minPos := F.minPos
  cabs z := F.sqrt (z.1 * z.1 + z.2 * z.2)
