/-
  The field instance of the scalar class: exact arithmetic over any linearly ordered field `K`.
  `sqrt`, `pow` and the machine parameters are *parameters* (`FieldFns`), constrained only by the hypotheses that
  individual theorems state, so results hold for float, double and long double parameters alike.
-/
import Mathlib.Algebra.Order.Field.Basic
import Mathlib.Algebra.Order.AbsoluteValue.Basic
import SpectraVerif.Prelude.Sc

structure FieldFns (K : Type) where
  sqrt : K → K
  pow : K → K → K
  eps : K
  minPos : K

/-- exact-arithmetic semantics of `Sc` -/
@[reducible] def scOfField {K : Type} [Field K] [LinearOrder K] [IsStrictOrderedRing K] (F : FieldFns K) : Sc K where
  abs := fun x => |x|
  sqrt := F.sqrt
  pow := F.pow
  ofInt := fun i => (i : K)
  lit m e := (m : K) * (10 : K) ^ e
  lt a b := decide (a < b)
  le a b := decide (a ≤ b)
  eq a b := decide (a = b)
  eps := F.eps
  minPos := F.minPos
  cabs z := F.sqrt (z.1 * z.1 + z.2 * z.2)

namespace ScF
variable {K : Type} [Field K] [LinearOrder K] [IsStrictOrderedRing K] (F : FieldFns K)

@[simp] theorem ofInt (i : Int) : @Sc.ofInt K (scOfField F) i = (i : K) := rfl
@[simp] theorem abs (x : K) : @Sc.abs K (scOfField F) x = |x| := rfl
@[simp] theorem sqrt (x : K) : @Sc.sqrt K (scOfField F) x = F.sqrt x := rfl
@[simp] theorem pow (x y : K) : @Sc.pow K (scOfField F) x y = F.pow x y := rfl
@[simp] theorem lit (m : Nat) (e : Int) : @Sc.lit K (scOfField F) m e = (m : K) * (10 : K) ^ e := rfl
@[simp] theorem lt (a b : K) : @Sc.lt K (scOfField F) a b = decide (a < b) := rfl
@[simp] theorem le (a b : K) : @Sc.le K (scOfField F) a b = decide (a ≤ b) := rfl
@[simp] theorem eq (a b : K) : @Sc.eq K (scOfField F) a b = decide (a = b) := rfl
@[simp] theorem gt (a b : K) : @Sc.gt K (scOfField F) a b = decide (b < a) := rfl
@[simp] theorem ge (a b : K) : @Sc.ge K (scOfField F) a b = decide (b ≤ a) := rfl
@[simp] theorem ne (a b : K) : @Sc.ne K (scOfField F) a b = !decide (a = b) := rfl
@[simp] theorem eps : @Sc.eps K (scOfField F) = F.eps := rfl
@[simp] theorem minPos : @Sc.minPos K (scOfField F) = F.minPos := rfl
@[simp] theorem cabs (z : K × K) : @Sc.cabs K (scOfField F) z = F.sqrt (z.1 * z.1 + z.2 * z.2) := rfl

end ScF
