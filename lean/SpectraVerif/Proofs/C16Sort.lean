/-
  C16: the `SortDesc` hypothesis of `c16_order` is a THEOREM for the library's own final sort: `SVD.argsortIdx` is the
  source-translated `argsort` (Gen/Sort.lean, regenerated from Util/SelectionRule.h on every run) wrapped into the index-list shape
  the orchestration model uses; at exact arithmetic (any linearly ordered field) rule LargestAlge lists the values in non-increasing
  order — from C18's `c18_argsort_value`, `c18_perm_base`, `c18_sorted`.
-/
import SpectraVerif.Properties.C18
import SpectraVerif.Proofs.C16Order

namespace SVD
open Gen.Sort

section
variable {K : Type} [Field K] [LinearOrder K] [IsStrictOrderedRing K] (F : FieldFns K)

theorem argsortIdx_desc (vals : List K) (n : Nat) :
    ∃ ind, @argsortIdx K _ _ _ _ _ (scOfField F) LARGEST_ALGE vals n = .ok ind ∧ ind.length = n ∧
      ∀ i j, i < j → j < n → vals.getD (ind.getD j 0) 0 ≤ vals.getD (ind.getD i 0) 0 := by
  let values : Int → K := @listFn K (scOfField F) vals
  obtain ⟨f, hf, hval⟩ := C18.c18_argsort_value F 3 values n (by decide)
  have hperm := C18.c18_perm_base F 3 values n
  have hsorted := C18.c18_sorted F 3 values n
  have hlen : (C18.baseOrder F 3 values n).length = n := by
    have := hperm.length_eq
    rw [intRange_length] at this
    omega
  refine ⟨(List.range n).map (fun (i : Nat) => (f (i : Int)).toNat), ?_, by simp, ?_⟩
  · unfold argsortIdx
    show (match @argsort K _ _ _ _ _ (scOfField F) 3 values (n : Int) with
          | .ok f => Except.ok ((List.range n).map (fun (i : Nat) => (f (i : Int)).toNat))
          | .throw _ => Except.error (Orch.Exn.invalidArgument "unsupported selection rule")) = _
    rw [hf]
  · intro i j hij hj
    have hi : i < n := by omega
    have gi : ((List.range n).map (fun (i : Nat) => (f (i : Int)).toNat)).getD i 0 = (f (i : Int)).toNat := by
      simp [List.getD_eq_getElem?_getD, hi]
    have gj : ((List.range n).map (fun (i : Nat) => (f (i : Int)).toNat)).getD j 0 = (f (j : Int)).toNat := by
      simp [List.getD_eq_getElem?_getD, hj]
    rw [gi, gj]
    have fi := hval (i : Int) (by omega) (by omega)
    have fj := hval (j : Int) (by omega) (by omega)
    simp only [show ¬ ((3 : Int) = 8) by decide, if_false, Int.toNat_natCast] at fi fj
    have ei : (C18.baseOrder F 3 values n).getD i 0 = (C18.baseOrder F 3 values n)[i]'(by omega) := by
      simp [List.getD_eq_getElem?_getD, hlen, hi]
    have ej : (C18.baseOrder F 3 values n).getD j 0 = (C18.baseOrder F 3 values n)[j]'(by omega) := by
      simp [List.getD_eq_getElem?_getD, hlen, hj]
    have hpw := (List.pairwise_iff_getElem.mp hsorted) i j (by omega) (by omega) hij
    have hle := hpw.2.1 (Or.inl rfl)
    -- entries of the base order are indices in [0, n)
    have memi : (C18.baseOrder F 3 values n)[i]'(by omega) ∈ intRange 0 (n : Int) :=
      hperm.subset (List.getElem_mem _)
    have memj : (C18.baseOrder F 3 values n)[j]'(by omega) ∈ intRange 0 (n : Int) :=
      hperm.subset (List.getElem_mem _)
    have bi := (mem_intRange.mp memi).1
    have bj := (mem_intRange.mp memj).1
    rw [fi, fj, ei, ej]
    have vi : values ((C18.baseOrder F 3 values n)[i]'(by omega)) = vals.getD ((C18.baseOrder F 3 values n)[i]'(by omega)).toNat 0 := by
      show @listFn K (scOfField F) vals _ = _
      unfold listFn
      have : ¬ ((C18.baseOrder F 3 values n)[i]'(by omega) < 0) := by omega
      simp [this, Lin.zero]
    have vj : values ((C18.baseOrder F 3 values n)[j]'(by omega)) = vals.getD ((C18.baseOrder F 3 values n)[j]'(by omega)).toNat 0 := by
      show @listFn K (scOfField F) vals _ = _
      unfold listFn
      have : ¬ ((C18.baseOrder F 3 values n)[j]'(by omega) < 0) := by omega
      simp [this, Lin.zero]
    rw [← vi, ← vj]
    exact hle

end
end SVD
