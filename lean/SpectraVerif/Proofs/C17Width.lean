import SpectraVerif.Proofs.C17Lemmas
import Mathlib.Data.List.Basic
import Mathlib.Data.List.Range

namespace Lobpcg
section width
variable {α V : Type}

/-- number of columns kept by `removeColumns`: those whose index is not listed -/
theorem removeColsFrom_length (i : Nat) (del : List Nat) (M : List V) :
    (removeColsFrom i del M).length = ((List.range' i M.length).filter (fun j => !del.contains j)).length := by
  induction M generalizing i with
  | nil => simp [removeColsFrom]
  | cons v vs ih =>
    simp only [removeColsFrom, List.length_cons, List.range'_succ, List.filter_cons]
    by_cases h : del.contains i
    · simp only [h, if_true, Bool.not_true, Bool.false_eq_true, if_false]; exact ih (i + 1)
    · simp only [h, Bool.false_eq_true, if_false, Bool.not_false, if_true, List.length_cons]; rw [ih (i + 1)]

/-- if the removed indices are the `i < m` selected by a predicate and the block has `m` columns, `m - #removed` columns are left:
    the width the code calls `BlockSize` -/
theorem removeCols_length_filter (p : Nat → Bool) (M : List V) :
    (removeCols M ((List.range M.length).filter p)).length = M.length - ((List.range M.length).filter p).length := by
  unfold removeCols
  rw [removeColsFrom_length, ← List.range_eq_range']
  have hcongr : (List.range M.length).filter (fun j => !((List.range M.length).filter p).contains j)
      = (List.range M.length).filter (fun j => !p j) := by
    apply List.filter_congr
    intro j hj
    have hj' : j < M.length := List.mem_range.mp hj
    by_cases hp : p j = true
    · have : ((List.range M.length).filter p).contains j = true := by
        simp only [List.contains_iff_mem, List.mem_filter, List.mem_range]; exact ⟨hj', hp⟩
      rw [this, hp]
    · have : ((List.range M.length).filter p).contains j = false := by
        rw [Bool.eq_false_iff]; intro hc
        simp only [List.contains_iff_mem, List.mem_filter, List.mem_range] at hc
        exact hp hc.2
      simp only [Bool.not_eq_true] at hp
      rw [this, hp]
  rw [hcongr]
  have := List.length_eq_length_filter_add (l := List.range M.length) p
  simp only [List.length_range] at this
  omega
end width

section model
variable {α V : Type} [Add V] [Sub V] [SMul α V] (K : Kern α V) (c : Cfg)

omit [Add V] [Sub V] [SMul α V] in
/-- the removed-column indices of the model are exactly a filter of `range nev`, so a block of `nev` columns is cut down to
    `BlockSize = nev - #removed` columns: the indices computed on `m_residuals` fit `directions`, `AD`, `BD` too -/
theorem removeCols_delCols_length (t : α) (W M : List V) (hM : M.length = c.nev) :
    (removeCols M (delCols K c t W)).length = c.nev - (delCols K c t W).length := by
  unfold delCols
  rw [← hM]
  exact removeCols_length_filter _ M

/-- after a completed iteration the direction blocks `directions`, `AD`, `BD` have exactly `nev` columns (they are products with
    the `nev`-column coefficient blocks), the width the NEXT iteration's `columnsToDelete` (indices `< nev`) refers to -/
theorem step_dwidth (hrr : ∀ inp θ C, K.rr inp = .ok θ C → θ.length = c.nev ∧ C.length = c.nev)
    (t : α) (iter : Nat) (s : St α V) (l : Loc V) :
    (step K c t iter s l).Sat
      (fun _ l' => l'.D.length = c.nev ∧ l'.AD.length = c.nev ∧ l'.BD.length = c.nev)
      (fun _ _ _ => True) := by
  unfold step
  simp only []
  repeat' split
  all_goals simp only [StepRes.Sat]
  all_goals
    rename_i hg
    obtain ⟨h1, h2⟩ := hrr _ _ _ hg
    obtain ⟨h3, h4⟩ := sortEpairs_length K.lt _ _ (h1.trans h2.symm)
    simp only [length_addB, length_mulCoef, length_rowsOf, h4, h2, Nat.min_self, and_self]
end model
end Lobpcg
