/-
  Real embedding of the complex kernels of Model/HermCplx.lean at an exact field (helper file of the `cplx` section of
  Properties/C05.lean): on data whose imaginary parts are zero, every complex vector kernel of the Hermitian solver model computes
  the corresponding REAL kernel of Model/Arnoldi.lean / Model/Lin.lean, with zero imaginary parts.

  Setting: any `Sc` instance on an ordered field with `ofInt 0 = 0`, `ofInt (-1) = -1`, `ofInt 2 = 2`, exact `lt`/`le`/`abs` and
  `cabs (x, 0) = |x|` (`EmbSc`; satisfied by `scOfField F` as soon as `F.sqrt (x * x) = |x|`, see `embSc_scOfField`).
-/
import Mathlib.Tactic.Ring
import Mathlib.Tactic.FieldSimp
import Mathlib.Tactic.Linarith
import SpectraVerif.Proofs.ScField
import SpectraVerif.Model.HermCplx

set_option linter.unusedSectionVars false
set_option linter.unusedVariables false

namespace HermCplxEmbed
open Lin HermCplx

/-- what the embedding lemmas use from the scalar class -/
structure EmbSc (K : Type) [Field K] [LinearOrder K] [IsStrictOrderedRing K] [Sc K] : Prop where
  ofInt0 : (Sc.ofInt 0 : K) = 0
  ofIntm1 : (Sc.ofInt (-1) : K) = -1
  ofInt2 : (Sc.ofInt 2 : K) = 2
  lt : ∀ a b : K, Sc.lt a b = decide (a < b)
  le : ∀ a b : K, Sc.le a b = decide (a ≤ b)
  abs : ∀ a : K, Sc.abs a = |a|
  cabs : ∀ x : K, Sc.cabs (x, (0 : K)) = |x|

theorem embSc_scOfField {K : Type} [Field K] [LinearOrder K] [IsStrictOrderedRing K] (F : FieldFns K)
    (hsqrt : ∀ x : K, F.sqrt (x * x) = |x|) : @EmbSc K _ _ _ (scOfField F) := by
  refine @EmbSc.mk K _ _ _ (scOfField F) (by simp) (by simp) (by simp) (fun _ _ => rfl) (fun _ _ => rfl) (fun _ => rfl) ?_
  intro x
  show F.sqrt (x * x + 0 * 0) = |x|
  rw [mul_zero, add_zero]; exact hsqrt x

section
variable {K : Type} [Field K] [LinearOrder K] [IsStrictOrderedRing K] [Sc K]

/-- a real number as a complex one -/
def emb (x : K) : Cx K := (x, 0)
/-- a real vector as a complex one -/
def embV (x : Vec K) : CVec K := x.map emb
/-- a real matrix as a complex one -/
def embM (V : Mat K) : CMat K := ⟨V.rows, V.cols, V.d.map emb⟩

theorem emb_cadd (a b : K) : cadd (emb a) (emb b) = emb (a + b) := by simp [cadd, emb]
theorem emb_csub (a b : K) : csub (emb a) (emb b) = emb (a - b) := by simp [csub, emb]
theorem emb_cmul (a b : K) : cmul (emb a) (emb b) = emb (a * b) := by simp [cmul, emb]
theorem emb_cmul_conj (a b : K) : cmul (cconj (emb a)) (emb b) = emb (a * b) := by simp [cmul, cconj, emb]
theorem emb_cmulR (a r : K) : cmulR (emb a) r = emb (a * r) := by simp [cmulR, emb]
theorem emb_cdivR (a r : K) : cdivR (emb a) r = emb (a / r) := by simp [cdivR, emb]
theorem emb_cabs2 (a : K) : cabs2 (emb a) = a * a := by simp [cabs2, emb]

variable (E : EmbSc K)
include E

theorem zero_eq : (Lin.zero : K) = 0 := E.ofInt0
theorem cz_eq : (cz : Cx K) = emb 0 := by simp [cz, emb, zero_eq E]
theorem emb_cabs (a : K) : cabs (emb a) = Sc.abs a := by rw [E.abs]; exact E.cabs a
theorem cofReal_eq (a : K) : cofReal a = emb a := by simp [cofReal, emb, zero_eq E]

/-- multiplication by `alpha = (-1, 0)` (fact 7 of the model header) is negation on embedded values -/
theorem emb_cmul_m1 (a : K) : cmul ((Sc.ofInt (-1) : K), (Lin.zero : K)) (emb a) = emb (-a) := by
  simp [cmul, emb, E.ofIntm1, zero_eq E]

/-- libgcc's complex division by an embedded real (the `v /= vnorm` of `Arnoldi::init`) is the real division, whatever scaling
    branch is taken (`rminscal ≠ 0`) -/
theorem emb_cdiv (D : DivK K) (hs : D.rminscal ≠ 0) (a c : K) : cdiv D (emb a) (emb c) = emb (a / c) := by
  have h2 : (2 : K) ≠ 0 := two_ne_zero
  have hlt : Sc.lt (Sc.abs c) (Sc.abs (0 : K)) = false := by
    rw [E.lt, E.abs, E.abs, abs_zero]; simp
  unfold cdiv
  simp only [emb, hlt, Bool.false_eq_true, if_false, E.ofInt2]
  split_ifs <;> ext <;> simp <;> field_simp

omit E in
theorem foldl_cadd_emb (g : Nat → K) (l : List Nat) (a : K) :
    l.foldl (fun acc i => cadd acc (emb (g i))) (emb a) = emb (l.foldl (fun acc i => acc + g i) a) := by
  induction l generalizing a with
  | nil => rfl
  | cons x t ih => simp only [List.foldl_cons, emb_cadd]; exact ih _

theorem csum0_emb (n : Nat) (g : Nat → K) : csum0 n (fun i => emb (g i)) = emb (Arnoldi.sum0 n g) := by
  unfold csum0 Arnoldi.sum0
  rw [cz_eq E, foldl_cadd_emb, zero_eq E]

theorem csumFrom0_emb (n : Nat) (g : Nat → K) : csumFrom0 n (fun i => emb (g i)) = emb (sumFrom0 n g) := by
  cases n with
  | zero => simp [csumFrom0, sumFrom0, cz_eq E, zero_eq E]
  | succ k =>
    simp only [csumFrom0, sumFrom0]
    exact foldl_cadd_emb (fun i => g (i + 1)) (List.range k) (g 0)

theorem cvget_embV (x : Vec K) (i : Nat) : cvget (embV x) i = emb (vget x i) := by
  unfold cvget vget embV
  by_cases h : i < x.size
  · simp [Array.getD, h]
  · simp [Array.getD, h, cz_eq E, zero_eq E]

theorem get_embM (V : Mat K) (i j : Nat) : (embM V).get i j = emb (V.get i j) := by
  unfold CMat.get Mat.get embM
  by_cases h : i + j * V.rows < V.d.size
  · simp [Array.getD, h]
  · simp [Array.getD, h, cz_eq E, zero_eq E]

omit E in
theorem embV_vofFn (n : Nat) (f : Nat → K) : embV (vofFn n f) = cvofFn n (fun i => emb (f i)) := by
  unfold embV vofFn cvofFn
  apply Array.ext
  · simp
  · intro i h1 h2; simp

omit E in
theorem size_embV (x : Vec K) : (embV x).size = x.size := by simp [embV]

/-- `x.dot(y)` -/
theorem cdot_emb (x y : Vec K) : cdot (embV x) (embV y) = emb (dot x y) := by
  unfold cdot dot
  simp only [cvget_embV E, emb_cmul_conj, size_embV]
  exact csumFrom0_emb E _ _

/-- `x.norm()` -/
theorem cnorm_emb (x : Vec K) : cnorm (embV x) = Lin.norm x := by
  unfold cnorm Lin.norm csqNorm sqNorm
  simp only [cvget_embV E, emb_cabs2, size_embV]

/-- `x.cwiseAbs().maxCoeff()` -/
theorem cmaxAbs_emb (x : Vec K) : cmaxAbs (embV x) = maxAbs x := by
  unfold cmaxAbs maxAbs embV
  rw [← Array.foldl_toList, ← Array.foldl_toList, Array.toList_map, List.foldl_map]
  simp only [emb_cabs E]

/-- `V.leftCols(k).adjoint() * y` -/
theorem cadjoint_emb (V : Mat K) (k : Nat) (y : Vec K) :
    cadjoint (embM V) k (embV y) = embV (Arnoldi.tmulVecK0 V k y) := by
  unfold cadjoint Arnoldi.tmulVecK0
  rw [embV_vofFn]
  simp only [get_embM E, cvget_embV E, emb_cmul_conj, csum0_emb E]
  rfl

/-- `f.noalias() -= V.leftCols(k) * g` -/
theorem csubMulVecK0_emb (f : Vec K) (V : Mat K) (k : Nat) (g : Vec K) :
    csubMulVecK0 (embV f) (embM V) k (embV g) = embV (Arnoldi.subMulVecK0 f V k g) := by
  unfold csubMulVecK0 Arnoldi.subMulVecK0
  rw [embV_vofFn]
  simp only [get_embM E, cvget_embV E, emb_cmul, csum0_emb E, emb_cmul_m1 E, emb_cadd, size_embV, ← sub_eq_add_neg]

/-- `V.leftCols(k) * y` with a real `y` (`compress_V`, `eigenvectors`) -/
theorem cmulVecRealK0_emb (V : Mat K) (k : Nat) (y : Vec K) :
    cmulVecRealK0 (embM V) k y = embV (Arnoldi.mulVecK0 V k y) := by
  unfold cmulVecRealK0 Arnoldi.mulVecK0
  rw [embV_vofFn]
  simp only [get_embM E, emb_cmulR, csum0_emb E]
  rfl

/-- the explicit-loop operator of the correspondence stream -/
theorem crowMajorOp_emb (n : Nat) (a : Array K) (x : Vec K) :
    crowMajorOp n (a.map emb) (embV x) = embV (Arnoldi.rowMajorOp n a x) := by
  unfold crowMajorOp Arnoldi.rowMajorOp
  rw [embV_vofFn]
  have hget : ∀ i, (a.map emb).getD i cz = emb (a.getD i Lin.zero) := by
    intro i
    by_cases h : i < a.size
    · simp [Array.getD, h]
    · simp [Array.getD, h, cz_eq E, zero_eq E]
  simp only [hget, cvget_embV E, emb_cmul, csum0_emb E]

end
end HermCplxEmbed

/-! ### `Arnoldi::init` through the complex code path on real data -/
namespace HermCplxEmbed
open Lin HermCplx

section
variable {K : Type} [Field K] [LinearOrder K] [IsStrictOrderedRing K] [Sc K]

/-- a real factorization object as a complex one -/
def embS (s : Arnoldi.State K) : CState K :=
  { n := s.n, m := s.m, k := s.k, V := embM s.V, H := embM s.H, f := embV s.f, beta := s.beta, near0 := s.near0, eps := s.eps,
    ops := s.ops, nexpand := s.nexpand, nreorth := s.nreorth }

variable (E : EmbSc K)
include E

theorem embM_zeros (r c : Nat) : (CMat.zeros r c : CMat K) = embM (Mat.zeros r c) := by
  simp [CMat.zeros, Mat.zeros, embM, cz_eq E, zero_eq E, emb]

theorem cvzero_eq (n : Nat) : (cvzero n : CVec K) = embV (vzero n) := by
  simp [cvzero, vzero, embV, cz_eq E, zero_eq E, emb]

omit E in
theorem embM_set (M : Mat K) (i j : Nat) (x : K) : (embM M).set i j (emb x) = embM (M.set i j x) := by
  unfold CMat.set Mat.set
  by_cases h : i < M.rows ∧ j < M.cols
  · have h' : i < (embM M).rows ∧ j < (embM M).cols := h
    rw [if_pos h, if_pos h']
    simp only [embM, Array.map_setIfInBounds]
  · have h' : ¬ (i < (embM M).rows ∧ j < (embM M).cols) := h
    rw [if_neg h, if_neg h']

theorem embM_setCol (M : Mat K) (j : Nat) (v : Vec K) : (embM M).setCol j (embV v) = embM (M.setCol j v) := by
  unfold CMat.setCol Mat.setCol
  show (List.range M.rows).foldl _ (embM M) = _
  generalize List.range M.rows = l
  induction l generalizing M with
  | nil => rfl
  | cons a t ih =>
    simp only [List.foldl_cons]
    rw [cvget_embV E, embM_set]
    exact ih _

omit E in
theorem embV_vdivs_via (D : DivK K) (x : Vec K) (c : K)
    (h : ∀ a : K, cdiv D (emb a) (cofReal c) = emb (a / c)) :
    (embV x).map (fun z => cdiv D z (cofReal c)) = embV (vdivs x c) := by
  unfold embV vdivs
  rw [Array.map_map, Array.map_map]
  congr 1
  funext a
  exact h a

/-- `Arnoldi::init` with `Scalar = std::complex`, run on a real operator and a real start vector, is the real `Arnoldi::init`
    (identity `B`), embedded: same acceptance decision, same `V`, `H`, `f`, `beta`, `k`, op counter -/
theorem cinit_emb (op : COp K) (opr : Arnoldi.Op K) (hB : opr.B = none) (hD : op.dk.rminscal ≠ 0)
    (hA : ∀ x : Vec K, op.A (embV x) = embV (opr.A x)) (s : Arnoldi.State K) (v0 : Vec K) :
    cinit op (embS s) (embV v0) = (Arnoldi.init opr s v0).map embS := by
  unfold cinit Arnoldi.init
  simp only [Arnoldi.Op.norm, Arnoldi.Op.inner, hB, cnorm_emb E, hA, embS]
  by_cases h0 : Sc.lt (Lin.norm v0) s.near0 = true
  · simp [h0]
  · rw [if_neg h0, if_neg h0]
    have hdiv : ∀ a : K, cdiv op.dk (emb a) (cofReal (Lin.norm (opr.A v0))) = emb (a / Lin.norm (opr.A v0)) := by
      intro a; rw [cofReal_eq E]; exact emb_cdiv E op.dk hD a _
    simp only [embV_vdivs_via op.dk _ _ hdiv, hA, cdot_emb E, cvget_embV E, emb_cmul, emb_csub, emb_cabs E,
      embM_zeros E, embM_set, embM_setCol E, Option.map_some]
    rw [← embV_vofFn, cmaxAbs_emb E]
    split <;> simp [cvzero_eq E, cnorm_emb E, embS]

end
end HermCplxEmbed
