import SpectraVerif.Proofs.C17Lemmas
import SpectraVerif.Proofs.C17Sort

namespace Lobpcg
section asc
variable {α V : Type} [LinearOrder α] [Add V] [Sub V] [SMul α V] (K : Kern α V) (c : Cfg)

omit [LinearOrder α] in
/-- every exit other than a completed iteration leaves `m_evalues` untouched -/
theorem step_stop_evals (t : α) (iter : Nat) (s : St α V) (l : Loc V) :
    (step K c t iter s l).Sat (fun _ _ => True) (fun s' _ _ => s'.evals = s.evals) := by
  unfold step
  simp only []
  repeat' split
  all_goals simp only [StepRes.Sat]

theorem step_sorted (hlt : K.lt = ltDec)
    (hrr : ∀ inp θ C, K.rr inp = .ok θ C → θ.Nodup ∧ θ.length = C.length)
    (t : α) (iter : Nat) (s : St α V) (l : Loc V) (h : s.evals.Pairwise (· < ·)) :
    (step K c t iter s l).Sat (fun s' _ => s'.evals.Pairwise (· < ·)) (fun s' _ _ => s'.evals.Pairwise (· < ·)) := by
  cases hr : step K c t iter s l with
  | cont s' l' =>
    obtain ⟨inp, θ0, C0, hg, _, _, _, he, _⟩ := (step_evecs K c t iter s l).cont hr
    obtain ⟨h1, h2⟩ := hrr _ _ _ hg
    simp only [StepRes.Sat]
    rw [he, hlt]; exact (sortEpairs_sorted θ0 C0 h2 h1).1
  | stop s' l' e =>
    have := (step_stop_evals K c t iter s l).stop hr
    simp only [StepRes.Sat]
    rw [this]; exact h

omit [Sub V] in
theorem initPhase_sorted (hlt : K.lt = ltDec)
    (heig : ∀ X AX θ C, K.eig0 X AX = some (θ, C) → θ.Nodup ∧ θ.length = C.length)
    (s0 : St α V) (hok : (initPhase K s0).2.2 = true) : (initPhase K s0).1.evals.Pairwise (· < ·) := by
  revert hok
  unfold initPhase
  cases ho : K.orth .initX s0.X (s0.X.map K.applyB) with
  | none =>
    simp only []
    split <;> simp
  | some X' =>
    simp only []
    split
    · simp
    rename_i hg
    intro _
    obtain ⟨h1, h2⟩ := heig _ _ _ _ hg
    simp only [hlt]
    exact (sortEpairs_sorted _ _ h2 h1).1

/-- `eigenvalues()` is strictly ascending after `compute()` whenever the initial phase succeeded, `std::less` is the order and the
    small eigen-solvers return pairwise distinct values -/
theorem compute_ascending (hlt : K.lt = ltDec)
    (heig : ∀ X AX θ C, K.eig0 X AX = some (θ, C) → θ.Nodup ∧ θ.length = C.length)
    (hrr : ∀ inp θ C, K.rr inp = .ok θ C → θ.Nodup ∧ θ.length = C.length)
    (maxit : Int) (tol : α) (s0 : St α V) (hok : (compute K c maxit tol s0).initOk = true) :
    (eigenvalues (compute K c maxit tol s0).s).Pairwise (· < ·) := by
  obtain ⟨fuel, _, hl, he, hi, hs⟩ := compute_cases K c maxit tol s0
  rw [hi] at hok
  have hloop := loop_sat K c (K.tolL2 tol c.n) (fun s' _ => s'.evals.Pairwise (· < ·))
    (fun s' _ _ => s'.evals.Pairwise (· < ·))
    (fun it s1 l1 h1 => step_sorted K c hlt hrr _ it s1 l1 h1) (fun _ _ h => h)
    fuel 0 (initPhase K (reset s0)).1 (initPhase K (reset s0)).2.1 (initPhase_sorted K hlt heig (reset s0) hok)
  unfold eigenvalues
  rcases hs with ⟨_, _, hs⟩ | ⟨_, _, hs⟩
  · rw [hs]; exact hloop
  · obtain ⟨_, fe, _, _⟩ := finalize_frame K c (K.tolL2 tol c.n)
      (loop K c (K.tolL2 tol c.n) fuel 0 (initPhase K (reset s0)).1 (initPhase K (reset s0)).2.1).1
      (loop K c (K.tolL2 tol c.n) fuel 0 (initPhase K (reset s0)).1 (initPhase K (reset s0)).2.1).2.1
    rw [hs, fe]; exact hloop
end asc
end Lobpcg
