import SpectraVerif.Model.LOBPCG
import Mathlib.Order.Basic
import Mathlib.Data.List.Perm.Basic
import Mathlib.Data.List.Nodup

namespace Lobpcg
variable {α β : Type} [LinearOrder α]

/-- `std::less` on a linear order -/
def ltDec (a b : α) : Bool := decide (a < b)

theorem insertKey_lt (k k' : α) (v v' : β) (t : List (α × β)) (h : k < k') :
    insertKey ltDec k v ((k', v') :: t) = (k, v) :: (k', v') :: t := by
  simp [insertKey, ltDec, h]
theorem insertKey_gt (k k' : α) (v v' : β) (t : List (α × β)) (h : k' < k) :
    insertKey ltDec k v ((k', v') :: t) = (k', v') :: insertKey ltDec k v t := by
  simp [insertKey, ltDec, h, not_lt.mpr (le_of_lt h)]
theorem insertKey_eq (k : α) (v v' : β) (t : List (α × β)) :
    insertKey ltDec k v ((k, v') :: t) = (k, v') :: t := by
  simp [insertKey, ltDec]

theorem insertKey_mem (k : α) (v : β) (m : List (α × β)) (p : α × β) (h : p ∈ insertKey ltDec k v m) :
    p = (k, v) ∨ p ∈ m := by
  induction m with
  | nil => simp [insertKey] at h; exact Or.inl h
  | cons q t ih =>
    obtain ⟨k', v'⟩ := q
    rcases lt_trichotomy k k' with hlt | rfl | hgt
    · rw [insertKey_lt _ _ _ _ _ hlt] at h
      simp only [List.mem_cons] at h ⊢; tauto
    · rw [insertKey_eq] at h; exact Or.inr h
    · rw [insertKey_gt _ _ _ _ _ hgt] at h
      simp only [List.mem_cons] at h ⊢
      rcases h with h | h
      · exact Or.inr (Or.inl h)
      · rcases ih h with h | h
        · exact Or.inl h
        · exact Or.inr (Or.inr h)

theorem insertKey_sorted (k : α) (v : β) (m : List (α × β)) (h : m.Pairwise (fun p q => p.1 < q.1)) :
    (insertKey ltDec k v m).Pairwise (fun p q => p.1 < q.1) := by
  induction m with
  | nil => simp [insertKey]
  | cons q t ih =>
    obtain ⟨k', v'⟩ := q
    rw [List.pairwise_cons] at h
    rcases lt_trichotomy k k' with hlt | rfl | hgt
    · rw [insertKey_lt _ _ _ _ _ hlt, List.pairwise_cons]
      refine ⟨?_, List.pairwise_cons.mpr h⟩
      intro p hp
      rcases List.mem_cons.mp hp with rfl | hp
      · exact hlt
      · exact lt_trans hlt (h.1 p hp)
    · rw [insertKey_eq]; exact List.pairwise_cons.mpr h
    · rw [insertKey_gt _ _ _ _ _ hgt, List.pairwise_cons]
      refine ⟨?_, ih h.2⟩
      intro p hp
      rcases insertKey_mem k v t p hp with rfl | hp
      · exact hgt
      · exact h.1 p hp

theorem insertKey_perm (k : α) (v : β) (m : List (α × β)) (hk : ∀ p ∈ m, p.1 ≠ k) :
    (insertKey ltDec k v m).Perm ((k, v) :: m) := by
  induction m with
  | nil => simp [insertKey]
  | cons q t ih =>
    obtain ⟨k', v'⟩ := q
    have hne : k' ≠ k := hk (k', v') (by simp)
    rcases lt_trichotomy k k' with hlt | rfl | hgt
    · rw [insertKey_lt _ _ _ _ _ hlt]
    · exact absurd rfl hne
    · rw [insertKey_gt _ _ _ _ _ hgt]
      have := ih (fun p hp => hk p (List.mem_cons_of_mem _ hp))
      exact (List.Perm.cons _ this).trans (List.Perm.swap _ _ _)

/-- the `std::map` built from pairs with pairwise distinct keys: strictly sorted by key and a permutation of the input -/
theorem foldl_insertKey (l : List (α × β)) (m0 : List (α × β))
    (h0 : m0.Pairwise (fun p q => p.1 < q.1)) (hn : (l.map Prod.fst).Nodup) (hd : ∀ p ∈ l, ∀ q ∈ m0, q.1 ≠ p.1) :
    let m := l.foldl (fun m p => insertKey ltDec p.1 p.2 m) m0
    m.Pairwise (fun p q => p.1 < q.1) ∧ m.Perm (l ++ m0) := by
  induction l generalizing m0 with
  | nil => simp [h0]
  | cons x xs ih =>
    simp only [List.foldl_cons]
    rw [List.map_cons, List.nodup_cons] at hn
    have hperm := insertKey_perm x.1 x.2 m0 (fun q hq => hd x (by simp) q hq)
    have := ih (insertKey ltDec x.1 x.2 m0) (insertKey_sorted _ _ _ h0) hn.2 (by
      intro p hp q hq
      rcases insertKey_mem _ _ _ _ hq with rfl | hq
      · intro he; exact hn.1 (by rw [show x.1 = p.1 from he]; exact List.mem_map_of_mem hp)
      · exact hd p (List.mem_cons_of_mem _ hp) q hq)
    refine ⟨this.1, this.2.trans ?_⟩
    have : (xs ++ insertKey ltDec x.1 x.2 m0).Perm (xs ++ (x.1, x.2) :: m0) := List.Perm.append_left _ hperm
    exact this.trans (List.perm_middle (a := x) (l₁ := xs) (l₂ := m0))

/-- `sort_epairs` with pairwise distinct eigenvalues: the values come out strictly ascending, and the (value, vector) pairs are a
    permutation of the input pairs (nothing is lost, pairing is kept) -/
theorem sortEpairs_sorted (θ : List α) (C : List β) (hl : θ.length = C.length) (hn : θ.Nodup) :
    let r := sortEpairs ltDec θ C
    r.1.Pairwise (· < ·) ∧ (r.1.zip r.2).Perm (θ.zip C) ∧ r.1.length = θ.length ∧ r.2.length = C.length := by
  have hz : ((θ.zip C).map Prod.fst) = θ := by
    rw [List.map_fst_zip]; omega
  have key := foldl_insertKey (θ.zip C) [] List.Pairwise.nil (by rw [hz]; exact hn) (by simp)
  simp only [List.append_nil] at key
  obtain ⟨hs, hp⟩ := key
  have hlen : ((θ.zip C).foldl (fun m p => insertKey ltDec p.1 p.2 m) []).length = θ.length := by
    rw [hp.length_eq, List.length_zip]; omega
  simp only [sortEpairs]
  rw [hlen]
  have d1 : θ.drop θ.length = [] := List.drop_length
  have d2 : C.drop θ.length = [] := by rw [hl]; exact List.drop_length
  rw [d1, d2, List.append_nil, List.append_nil]
  refine ⟨?_, ?_, by simp [hlen], by simp [hlen, hl]⟩
  · rw [List.pairwise_map]; exact hs
  · rw [← List.zip_of_prod (xs := List.foldl (fun m p => insertKey ltDec p.1 p.2 m) [] (θ.zip C)) rfl rfl]; exact hp
    
end Lobpcg
