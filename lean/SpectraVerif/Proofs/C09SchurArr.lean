/-
  C09 (whole-run similarity of UpperHessenbergSchur), part 3: array level.
  Entries of `applyOnTheLeft(adjoint)`, of the state written by one `francisBody` trip / by the closing rotation of
  `perform_francis_qr_step`, as the windowed function-level operations of `Proofs/C09SchurFn.lean`; `makeGivens` returns
  `r = c·p − s·q` (exact `sqrt`).
-/
import SpectraVerif.Proofs.C09SchurFn
import SpectraVerif.Proofs.C09Hess

set_option linter.unusedSectionVars false
set_option linter.unusedSimpArgs false
set_option linter.unusedVariables false
set_option linter.unusedTactic false
set_option linter.unreachableTactic false
set_option linter.style.haveILetI false

namespace C09SS
open Lin EigenPrims HessSchur C09Mat C09Step C09Sim C09OrthU C09Orth Finset
open scoped Matrix

section field
variable {K : Type} [Field K] [LinearOrder K] [IsStrictOrderedRing K] (F : FieldFns K)

/-- entry function of an array matrix (field instance) -/
def gf (t : Mat K) : ℕ → ℕ → K := fun i j => @Mat.get K (scOfField F) t i j

/-- one column of `applyOnTheLeft(adjoint)` -/
theorem colStep_get (m : Mat K) (h : @WF K m) (c s' : K) (p q j0 i j : Nat) (hpq : p ≠ q)
    (hp : p < m.rows) (hq : q < m.rows) (hj0 : j0 < m.cols) (hi : i < m.rows) :
    let _ : Sc K := scOfField F
    ((m.set p j0 (rotPair c s' (m.get p j0) (m.get q j0)).1).set q j0 (rotPair c s' (m.get p j0) (m.get q j0)).2).get i j =
      if j = j0 then (if i = p then c * m.get p j0 + s' * m.get q j0 else if i = q then (-s') * m.get p j0 + c * m.get q j0 else m.get i j)
      else m.get i j := by
  intro _
  rw [get_set _ (set_wf _ _ _ _ h) _ _ _ _ _ (by rw [set_rows]; exact hq) (by rw [set_cols]; exact hj0) (by rw [set_rows]; exact hi),
      get_set _ h _ _ _ _ _ hp hj0 hi]
  simp only [rotPair]
  by_cases hjj : j = j0
  · subst hjj
    by_cases hiq : i = q
    · subst hiq; simp [hpq, Ne.symm hpq]
    · by_cases hip : i = p
      · subst hip; simp [hiq]
      · simp [hiq, hip]
  · simp [hjj]

/-- **entries of `M.rightCols/middleCols(…).applyOnTheLeft(p, q, rot.adjoint())`** (field instance): on the columns
    `c0 ≤ j < c0 + ncol` row `p` becomes `c·row_p − s·row_q`, row `q` becomes `s·row_p + c·row_q` (`Gᵀ M`) -/
theorem applyOnTheLeftAdj_get (m : Mat K) (h : @WF K m) (c0 ncol p q : Nat) (c s : K) (hpq : p ≠ q)
    (hp : p < m.rows) (hq : q < m.rows) (hn : c0 + ncol ≤ m.cols) (i j : Nat) (hi : i < m.rows) :
    let _ : Sc K := scOfField F
    (applyOnTheLeftAdj m c0 ncol p q c s).get i j =
      if c0 ≤ j ∧ j < c0 + ncol then
        (if i = p then c * m.get p j - s * m.get q j else if i = q then s * m.get p j + c * m.get q j else m.get i j)
      else m.get i j := by
  intro _
  simp only [applyOnTheLeftAdj]
  split
  · rename_i he
    simp only [Bool.and_eq_true, ScF.eq, decide_eq_true_eq, one, zero, ScF.ofInt, Int.cast_one, Int.cast_zero, neg_eq_zero] at he
    obtain ⟨hc, hs⟩ := he
    subst hc; subst hs
    split
    · split
      · rename_i hj; subst hj; simp
      · split
        · rename_i hj; subst hj; simp
        · rfl
    · rfl
  · have key : ∀ k, c0 + k ≤ m.cols →
        @WF K ((List.range k).foldl (fun acc jj => (acc.set p (c0 + jj) (rotPair c (-s) (acc.get p (c0 + jj)) (acc.get q (c0 + jj))).1).set q (c0 + jj) (rotPair c (-s) (acc.get p (c0 + jj)) (acc.get q (c0 + jj))).2) m) ∧
        ((List.range k).foldl (fun acc jj => (acc.set p (c0 + jj) (rotPair c (-s) (acc.get p (c0 + jj)) (acc.get q (c0 + jj))).1).set q (c0 + jj) (rotPair c (-s) (acc.get p (c0 + jj)) (acc.get q (c0 + jj))).2) m).rows = m.rows ∧
        ((List.range k).foldl (fun acc jj => (acc.set p (c0 + jj) (rotPair c (-s) (acc.get p (c0 + jj)) (acc.get q (c0 + jj))).1).set q (c0 + jj) (rotPair c (-s) (acc.get p (c0 + jj)) (acc.get q (c0 + jj))).2) m).cols = m.cols ∧
        ∀ i j, i < m.rows →
          ((List.range k).foldl (fun acc jj => (acc.set p (c0 + jj) (rotPair c (-s) (acc.get p (c0 + jj)) (acc.get q (c0 + jj))).1).set q (c0 + jj) (rotPair c (-s) (acc.get p (c0 + jj)) (acc.get q (c0 + jj))).2) m).get i j =
            if c0 ≤ j ∧ j < c0 + k then
              (if i = p then c * m.get p j - s * m.get q j else if i = q then s * m.get p j + c * m.get q j else m.get i j)
            else m.get i j := by
      intro k
      induction k with
      | zero => intro _; refine ⟨by simpa using h, rfl, rfl, ?_⟩; intro i j _; simp
      | succ k ih =>
        intro hk
        obtain ⟨wf, hr, hc', hg⟩ := ih (by omega)
        rw [List.range_succ, List.foldl_append]
        simp only [List.foldl_cons, List.foldl_nil]
        refine ⟨set_wf _ _ _ _ (set_wf _ _ _ _ wf), by rw [set_rows, set_rows, hr], by rw [set_cols, set_cols, hc'], ?_⟩
        intro i j hi
        have := colStep_get F _ wf c (-s) p q (c0 + k) i j hpq (by rw [hr]; exact hp) (by rw [hr]; exact hq) (by rw [hc']; omega)
          (by rw [hr]; exact hi)
        simp only at this
        rw [this]
        have hnot : ¬ (c0 ≤ c0 + k ∧ c0 + k < c0 + k) := by omega
        by_cases hjk : j = c0 + k
        · subst hjk
          simp only [if_pos rfl, hg p _ hp, hg q _ hq, hg i _ hi, if_neg hnot, if_pos (show c0 ≤ c0 + k ∧ c0 + k < c0 + (k + 1) by omega)]
          split_ifs <;> first | ring | rfl
        · simp only [if_neg hjk, hg i j hi]
          by_cases hlt : c0 ≤ j ∧ j < c0 + k
          · simp only [if_pos hlt, if_pos (show c0 ≤ j ∧ j < c0 + (k + 1) by omega)]
          · simp only [if_neg hlt, if_neg (show ¬ (c0 ≤ j ∧ j < c0 + (k + 1)) by omega)]
    exact (key ncol hn).2.2.2 i j hi

/-- `makeGivens(p, q)` returns `r = c·p − s·q` (exact square root): the rotated pair is `(r, 0)` -/
theorem makeGivens_r (hs : ∀ x : K, 0 ≤ x → F.sqrt x * F.sqrt x = x) (p q : K) :
    let _ : Sc K := scOfField F
    (makeGivens p q).c * p - (makeGivens p q).s * q = (makeGivens p q).r := by
  intro _
  have key : ∀ t u : K, (u = F.sqrt (1 + t * t) ∨ u = -F.sqrt (1 + t * t)) → u ≠ 0 ∧ (1 + t * t) / u = u := by
    intro t u hu
    have h1 : (0 : K) ≤ 1 + t * t := by have := mul_self_nonneg t; linarith
    have h2 : u * u = 1 + t * t := by
      rcases hu with rfl | rfl
      · exact hs _ h1
      · rw [neg_mul_neg]; exact hs _ h1
    have hu0 : u ≠ 0 := by
      intro h0; rw [h0] at h2; simp at h2
      have := mul_self_nonneg t
      linarith
    exact ⟨hu0, by rw [← h2]; field_simp⟩
  simp only [makeGivens, ScF.eq, ScF.lt, Sc.gt, zero, one, ScF.ofInt, Int.cast_zero, Int.cast_one, ScF.sqrt, ScF.abs,
    decide_eq_true_eq]
  split
  · rename_i hq; rw [hq]
    split
    · rename_i hp; simp [abs_of_neg hp]
    · rename_i hp; simp [abs_of_nonneg (not_lt.mp hp)]
  · rename_i hq
    split
    · rename_i hp; rw [hp]
      split
      · rename_i hq'; simp [abs_of_neg hq']
      · rename_i hq'; simp [abs_of_nonneg (not_lt.mp hq')]
    · rename_i hp
      split
      · obtain ⟨hu0, hu⟩ := key (q / p) (if p < 0 then -F.sqrt (1 + q / p * (q / p)) else F.sqrt (1 + q / p * (q / p)))
          (by split <;> simp)
        generalize (if p < 0 then -F.sqrt (1 + q / p * (q / p)) else F.sqrt (1 + q / p * (q / p))) = u at hu0 hu
        show 1 / u * p - -(q / p) * (1 / u) * q = p * u
        have e : 1 / u * p - -(q / p) * (1 / u) * q = p * ((1 + q / p * (q / p)) / u) := by field_simp; ring
        rw [e, hu]
      · obtain ⟨hu0, hu⟩ := key (p / q) (if q < 0 then -F.sqrt (1 + p / q * (p / q)) else F.sqrt (1 + p / q * (p / q)))
          (by split <;> simp)
        generalize (if q < 0 then -F.sqrt (1 + p / q * (p / q)) else F.sqrt (1 + p / q * (p / q))) = u at hu0 hu
        show -(p / q) * (-1 / u) * p - -1 / u * q = q * u
        have e : -(p / q) * (-1 / u) * p - -1 / u * q = q * ((1 + p / q * (p / q)) / u) := by field_simp; ring
        rw [e, hu]

end field
end C09SS
