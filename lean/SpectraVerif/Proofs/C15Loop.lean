/-
  Lemmas for C15 (Davidson): discrete content of the loop of `compute_with_guess`, for arbitrary scalar / vector types and
  ALL kernels (no algebra needed): status, convergence flags, return value, iteration count, search-space sizes.
-/
import SpectraVerif.Model.Davidson

namespace C15L
open Dav

variable {σ ν : Type} (K : Kern σ ν)

/-- the state the first half of the loop body works on after the optional restart and the operator products -/
def headState (c : Cfg) (s : St σ ν) : St σ ν :=
  updateOperatorBasisProduct K (if s.basis.length > c.maxSize then restart K c.initSize s else s)

theorem iterHead_fields (c : Cfg) (sel : Int) (tol : σ) (s : St σ ν) :
    (iterHead K c sel tol s).2.info = s.info ∧ (iterHead K c sel tol s).2.niter = s.niter ∧
    (iterHead K c sel tol s).2.sizes = s.sizes ++ [(headState K c s).basis.length] ∧
    (iterHead K c sel tol s).2.basis = (headState K c s).basis := by
  unfold iterHead headState
  simp only
  split <;> split <;> simp [computeEigenPairs, sortPairs, checkConvergence, updateOperatorBasisProduct, restart]

/-- when the small eigenproblem succeeded, the stored flags are exactly `norm(residue) < tol` of the stored (sorted) pairs
    and the returned Boolean is their conjunction over the first `nev` -/
theorem iterHead_conv (c : Cfg) (sel : Int) (tol : σ) (s s1 : St σ ν) (b : Bool)
    (h : iterHead K c sel tol s = (some b, s1)) :
    s1.conv = convFlags K tol s1 ∧ b = (decide (c.nev ≤ s1.conv.length) && (s1.conv.take c.nev).all id) := by
  have e : iterHead K c sel tol s =
      (if !(computeEigenPairs K { headState K c s with sizes := (headState K c s).sizes ++ [(headState K c s).basis.length] }).1
       then (none, (computeEigenPairs K { headState K c s with sizes := (headState K c s).sizes ++ [(headState K c s).basis.length] }).2)
       else (some (checkConvergence K tol c.nev (sortPairs K sel (computeEigenPairs K { headState K c s with sizes := (headState K c s).sizes ++ [(headState K c s).basis.length] }).2)).1,
             (checkConvergence K tol c.nev (sortPairs K sel (computeEigenPairs K { headState K c s with sizes := (headState K c s).sizes ++ [(headState K c s).basis.length] }).2)).2)) := rfl
  rw [e] at h
  split at h
  · simp at h
  · simp only [checkConvergence, Prod.mk.injEq, Option.some.injEq] at h
    obtain ⟨hb, hs⟩ := h
    subst hs
    exact ⟨rfl, hb.symm⟩

/-- post-condition of a `Successful` exit -/
def SuccPost (c : Cfg) (tol : σ) (s : St σ ν) : Prop :=
  s.conv = convFlags K tol s ∧ c.nev ≤ s.conv.length ∧ (s.conv.take c.nev).all id = true

theorem loop_successful (c : Cfg) (corr : List (Pair σ ν) → List ν) (sel : Int) (tol : σ) (maxit fuel : Nat) (s : St σ ν)
    (h0 : s.info ≠ .successful) (h : (loop K c corr sel tol maxit fuel s).info = .successful) :
    SuccPost K c tol (loop K c corr sel tol maxit fuel s) := by
  induction fuel generalizing s with
  | zero => exact absurd h h0
  | succ f ih =>
    unfold loop at h ⊢
    have hf := iterHead_fields K c sel tol s
    rcases hh : iterHead K c sel tol s with ⟨r, s1⟩
    rw [hh] at h hf
    simp only at h hf ⊢
    match r with
    | none => simp at h
    | some true =>
      have := iterHead_conv K c sel tol s s1 true hh
      have h2 := this.2.symm
      rw [Bool.and_eq_true, decide_eq_true_eq] at h2
      exact ⟨this.1, h2.1, h2.2⟩
    | some false =>
      simp only at h ⊢
      split at h
      · simp at h
      · rename_i hne
        simp only [hne, if_false]
        apply ih
        · simp only [extendBasis]; rw [hf.1]; exact h0
        · simpa only [hne, if_false] using h

/-- the flags of the first `nev` pairs and the return value after a `Successful` exit -/
theorem succPost_consequences (c : Cfg) (tol : σ) (s : St σ ν) (h : SuccPost K c tol s) :
    (∀ p ∈ s.pairs.take c.nev, K.lt (K.norm p.residue) tol = true) ∧ returnValue c s = c.nev ∧ c.nev ≤ s.pairs.length := by
  obtain ⟨h1, hlen, h2⟩ := h
  have hall : ∀ b ∈ s.conv.take c.nev, b = true := by
    intro b hb
    have := List.all_eq_true.mp h2 b hb
    simpa using this
  constructor
  · intro p hp
    apply hall
    rw [h1, convFlags, ← List.map_take]
    exact List.mem_map_of_mem hp
  · unfold returnValue
    have : (s.conv.take c.nev).count true = (s.conv.take c.nev).length := by
      rw [List.count_eq_length]
      intro b hb; exact (hall b hb).symm
    have hl : s.conv.length = s.pairs.length := by rw [h1, convFlags, List.length_map]
    rw [this, List.length_take]
    omega

/-! ### iteration count and sizes -/

theorem loop_niter (c : Cfg) (corr : List (Pair σ ν) → List ν) (sel : Int) (tol : σ) (maxit fuel : Nat) (s : St σ ν)
    (h : s.niter + fuel = maxit) (hf : 0 < fuel) :
    (loop K c corr sel tol maxit fuel s).niter < maxit ∧
    (loop K c corr sel tol maxit fuel s).sizes.length
      = s.sizes.length + ((loop K c corr sel tol maxit fuel s).niter - s.niter) + 1 ∧
    s.niter ≤ (loop K c corr sel tol maxit fuel s).niter := by
  induction fuel generalizing s with
  | zero => omega
  | succ f ih =>
    unfold loop
    have hfl := iterHead_fields K c sel tol s
    rcases hh : iterHead K c sel tol s with ⟨r, s1⟩
    rw [hh] at hfl
    simp only at hfl ⊢
    obtain ⟨_, hn, hs, _⟩ := hfl
    match r with
    | none => simp only [hn, hs, List.length_append, List.length_singleton]; omega
    | some true => simp only [hn, hs, List.length_append, List.length_singleton]; omega
    | some false =>
      simp only
      split
      · simp only [hn, hs, List.length_append, List.length_singleton]; omega
      · rename_i hne
        have hf' : 0 < f := by omega
        have := ih { extendBasis K (corr s1.pairs) s1 with niter := (extendBasis K (corr s1.pairs) s1).niter + 1 }
          (by simp only [extendBasis, hn]; omega) hf'
        simp only [extendBasis, hn, hs, List.length_append, List.length_singleton] at this ⊢
        omega

theorem headState_size_le (c : Cfg) (s : St σ ν) (hc : c.initSize ≤ c.maxSize) : (headState K c s).basis.length ≤ c.maxSize := by
  unfold headState updateOperatorBasisProduct
  simp only
  split
  · simp only [restart, List.length_map, List.length_take]; omega
  · omega

/-- every Rayleigh–Ritz step sees a search space of at most `maxSize` columns, and the space at exit is the last one seen -/
theorem loop_sizes (c : Cfg) (corr : List (Pair σ ν) → List ν) (sel : Int) (tol : σ) (maxit fuel : Nat) (s : St σ ν)
    (hc : c.initSize ≤ c.maxSize) (hs : ∀ z ∈ s.sizes, z ≤ c.maxSize) :
    ∀ z ∈ (loop K c corr sel tol maxit fuel s).sizes, z ≤ c.maxSize := by
  induction fuel generalizing s with
  | zero => exact hs
  | succ f ih =>
    unfold loop
    have hfl := iterHead_fields K c sel tol s
    have hle := headState_size_le K c s hc
    rcases hh : iterHead K c sel tol s with ⟨r, s1⟩
    rw [hh] at hfl
    simp only at hfl ⊢
    obtain ⟨_, _, hsz, _⟩ := hfl
    have h1 : ∀ z ∈ s1.sizes, z ≤ c.maxSize := by
      intro z hz; rw [hsz, List.mem_append, List.mem_singleton] at hz
      rcases hz with hz | rfl
      · exact hs z hz
      · exact hle
    match r with
    | none => exact h1
    | some true => exact h1
    | some false =>
      simp only
      split
      · exact h1
      · apply ih; exact h1

theorem loop_exit_size (c : Cfg) (corr : List (Pair σ ν) → List ν) (sel : Int) (tol : σ) (maxit fuel : Nat) (s : St σ ν)
    (hc : c.initSize ≤ c.maxSize) (hf : 0 < fuel) (h : s.niter + fuel = maxit) :
    (loop K c corr sel tol maxit fuel s).basis.length ≤ c.maxSize := by
  induction fuel generalizing s with
  | zero => omega
  | succ f ih =>
    unfold loop
    have hfl := iterHead_fields K c sel tol s
    have hle := headState_size_le K c s hc
    rcases hh : iterHead K c sel tol s with ⟨r, s1⟩
    rw [hh] at hfl
    simp only at hfl ⊢
    obtain ⟨_, hn, _, hb⟩ := hfl
    match r with
    | none => simp only [hb]; exact hle
    | some true => simp only [hb]; exact hle
    | some false =>
      simp only
      split
      · simp only [hb]; exact hle
      · rename_i hne
        apply ih
        · omega
        · simp only [extendBasis, hn]; omega

/-- when the small eigenproblem succeeded, the stored pairs are the output of `RitzPairs::sort` -/
theorem iterHead_pairs (c : Cfg) (sel : Int) (tol : σ) (s s1 : St σ ν) (b : Bool)
    (h : iterHead K c sel tol s = (some b, s1)) : ∃ s', s1.pairs = (sortPairs K sel s').pairs := by
  have e : iterHead K c sel tol s =
      (if !(computeEigenPairs K { headState K c s with sizes := (headState K c s).sizes ++ [(headState K c s).basis.length] }).1
       then (none, (computeEigenPairs K { headState K c s with sizes := (headState K c s).sizes ++ [(headState K c s).basis.length] }).2)
       else (some (checkConvergence K tol c.nev (sortPairs K sel (computeEigenPairs K { headState K c s with sizes := (headState K c s).sizes ++ [(headState K c s).basis.length] }).2)).1,
             (checkConvergence K tol c.nev (sortPairs K sel (computeEigenPairs K { headState K c s with sizes := (headState K c s).sizes ++ [(headState K c s).basis.length] }).2)).2)) := rfl
  rw [e] at h
  split at h
  · simp at h
  · simp only [checkConvergence, Prod.mk.injEq, Option.some.injEq] at h
    obtain ⟨_, hs⟩ := h
    subst hs
    exact ⟨_, rfl⟩

/-- every exit of the loop other than `NumericalIssue` leaves the pairs as `RitzPairs::sort` produced them -/
theorem loop_pairs_sorted (P : List (Pair σ ν) → Prop) (c : Cfg) (corr : List (Pair σ ν) → List ν) (sel : Int) (tol : σ)
    (hP : ∀ s', P (sortPairs K sel s').pairs) (maxit fuel : Nat) (s : St σ ν)
    (h : s.niter + fuel = maxit) (hf : 0 < fuel) :
    (loop K c corr sel tol maxit fuel s).info = .numericalIssue ∨ P (loop K c corr sel tol maxit fuel s).pairs := by
  induction fuel generalizing s with
  | zero => omega
  | succ f ih =>
    unfold loop
    have hfl := iterHead_fields K c sel tol s
    rcases hh : iterHead K c sel tol s with ⟨r, s1⟩
    rw [hh] at hfl
    simp only at hfl ⊢
    obtain ⟨_, hn, _, _⟩ := hfl
    match r with
    | none => left; rfl
    | some true => right; obtain ⟨s', hs'⟩ := iterHead_pairs K c sel tol s s1 true hh; simp only [hs']; exact hP s'
    | some false =>
      simp only
      split
      · right; obtain ⟨s', hs'⟩ := iterHead_pairs K c sel tol s s1 false hh; simp only [hs']; exact hP s'
      · rename_i hne
        apply ih
        · simp only [extendBasis, hn]; omega
        · omega

/-! ### the executable orthogonaliser meets the structural part of its specification -/
section exec
open Dav.Exec Lin
set_option linter.unusedSectionVars false
variable {α : Type} [Add α] [Sub α] [Mul α] [Div α] [Neg α] [Sc α]

theorem take_take_append {β : Type} (l r : List β) (k : Nat) (h : l.drop k = [] → r = []) :
    (l.take k ++ r).take k = l.take k := by
  by_cases hk : k ≤ l.length
  · exact List.take_left' (by simp [hk])
  · have hd : l.drop k = [] := List.drop_eq_nil_of_le (by omega)
    rw [h hd, List.append_nil, List.take_take, Nat.min_self]

theorem jwPass_keepsLeft (cols : List (Vec α)) (skip : Nat) : (jwPass cols skip).take skip = cols.take skip := by
  unfold jwPass
  apply take_take_append
  intro hd
  simp [hd]

/-- the model's own orthogonaliser (project, Gram–Schmidt, twice) does not write the first `skip` columns: the executable
    instance satisfies the hypothesis `OrthKeepsLeft` of the C15 theorems -/
theorem orthTwice_keepsLeft (cols : List (Vec α)) (skip : Nat) : (orthTwice cols skip).take skip = cols.take skip := by
  unfold orthTwice
  rw [jwPass_keepsLeft, jwPass_keepsLeft]

end exec

end C15L
