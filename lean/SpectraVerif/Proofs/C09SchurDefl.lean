/-
  C09 (whole-run similarity of UpperHessenbergSchur), part 6: the three non-sweep branches of the main loop —
  1x1 deflation, `split_off_two_rows` (2x2 standardisation), `compute_shift` — carry `Uᵀ H U = T + S + E`.
-/
import SpectraVerif.Proofs.C09SchurFrancis
import SpectraVerif.Proofs.C09SimU

set_option linter.unusedSectionVars false
set_option linter.unusedSimpArgs false
set_option linter.unusedVariables false
set_option linter.unusedTactic false
set_option linter.unreachableTactic false
set_option linter.style.haveILetI false

namespace C09SS
open Lin EigenPrims HessSchur C09Mat C09Step C09Sim C09OrthU C09Orth Finset
open scoped Matrix

section field
variable {K : Type} [Field K] [LinearOrder K] [IsStrictOrderedRing K] (F : FieldFns K)

theorem zero_eq : (@zero K (scOfField F)) = 0 := by simp [zero]

/-- **1x1 deflation**: `T(iu,iu) += ex`, `T(iu,iu−1) = 0`; the window shrinks by one row; the dropped entry goes to `E` -/
theorem defl1_sim (n iu : ℕ) (H : Matrix (Fin n) (Fin n) K) (ex : K) (t : Mat K) (U : ℕ → ℕ → K) (b : K) (hiu : iu < n)
    (hw : @WF K t) (hr : t.rows = n) (hc : t.cols = n) (E : Matrix (Fin n) (Fin n) K) (hE : Bnd E b)
    (sim : (mat n U)ᵀ * H * mat n U = mat n (gf F t) + Sm n (iu + 1) ex + E) :
    let _ : Sc K := scOfField F
    ∃ E' : Matrix (Fin n) (Fin n) K, Bnd E' (b + (if 0 < iu then |t.get iu (iu - 1)| else 0)) ∧
      (mat n U)ᵀ * H * mat n U =
        mat n (gf F (if 0 < iu then (t.set iu iu (t.get iu iu + ex)).set iu (iu - 1) zero else t.set iu iu (t.get iu iu + ex))) +
          Sm n iu ex + E' := by
  intro _
  have w1 : WF (t.set iu iu (t.get iu iu + ex)) := set_wf _ _ _ _ hw
  have g1 : ∀ i j, i < n → j < n → gf F (t.set iu iu (t.get iu iu + ex)) i j = gf F t i j + sgl iu iu ex i j := by
    intro i j hi hj
    simp only [gf, sgl]
    rw [get_set _ hw _ _ _ _ _ (by rw [hr]; exact hiu) (by rw [hc]; exact hiu) (by rw [hr]; exact hi)]
    by_cases hcnd : i = iu ∧ j = iu
    · rw [if_pos hcnd, if_pos hcnd, hcnd.1, hcnd.2]
    · rw [if_neg hcnd, if_neg hcnd, add_zero]
  by_cases h0 : 0 < iu
  · simp only [if_pos h0]
    have g2 : ∀ i j, i < n → j < n → gf F ((t.set iu iu (t.get iu iu + ex)).set iu (iu - 1) zero) i j =
        gf F t i j + sgl iu iu ex i j - sgl iu (iu - 1) (t.get iu (iu - 1)) i j := by
      intro i j hi hj
      have := g1 i j hi hj
      simp only [gf, sgl] at this ⊢
      rw [get_set _ w1 _ _ _ _ _ (by rw [set_rows, hr]; exact hiu) (by rw [set_cols, hc]; omega) (by rw [set_rows, hr]; exact hi), this]
      by_cases hcnd : i = iu ∧ j = iu - 1
      · rw [if_pos hcnd, if_pos hcnd, if_neg (by omega), hcnd.1, hcnd.2, zero_eq]; ring
      · rw [if_neg hcnd, if_neg hcnd]; ring
    refine ⟨E + mat n (sgl iu (iu - 1) (t.get iu (iu - 1))), bnd_add_sgl hE _ _ _, ?_⟩
    rw [sim, Sm_split1, mat_congr n _ _ g2, mat_sub, mat_add]; abel
  · simp only [if_neg h0]
    refine ⟨E, by simpa using hE, ?_⟩
    rw [sim, Sm_split1, mat_congr n _ _ g1, mat_add]; abel

/-- **`compute_shift` keeps `T + ex·D`** as matrices -/
theorem shift_sim (n iu iter : ℕ) (ex : K) (t : Mat K) (hw : @WF K t) (hr : t.rows = n) (hc : t.cols = n) (hiu : iu < n) :
    mat n (gf F (@computeShift K _ _ _ _ _ (scOfField F) iu iter ex t).1) +
      Sm n (iu + 1) (@computeShift K _ _ _ _ _ (scOfField F) iu iter ex t).2.1 = mat n (gf F t) + Sm n (iu + 1) ex := by
  obtain ⟨_, _, _, g⟩ := C09SimU.computeShift_shifted F t hw iu iter ex (by rw [hr]; exact hiu) (by rw [hc]; exact hiu)
  ext i j
  have := g i.val j.val (by rw [hr]; exact i.isLt)
  simp only [Matrix.add_apply, mat, Matrix.of_apply, Sm, Matrix.diagonal_apply, gf, Fin.ext_iff]
  by_cases hij : i.val = j.val
  · by_cases hle : i.val ≤ iu
    · simp only [if_pos (And.intro hij hle)] at this
      simp only [if_pos hij, if_pos (show i.val < iu + 1 by omega)]; exact this
    · simp only [if_neg (show ¬ (i.val = j.val ∧ i.val ≤ iu) by omega)] at this
      simp only [if_pos hij, if_neg (show ¬ i.val < iu + 1 by omega)]; exact this
  · simp only [if_neg (show ¬ (i.val = j.val ∧ i.val ≤ iu) by omega)] at this
    simp only [if_neg hij]; exact this

/-- the standardisation rotation annihilates the `(2,1)` entry of the shifted block (model form of `C09SimU.standardise_zero`) -/
theorem standardise_model (hs : ∀ x : K, 0 ≤ x → F.sqrt x * F.sqrt x = x) (hs0 : ∀ x : K, 0 ≤ F.sqrt x) (a b y d ex : K)
    (hq : @Sc.ge K (scOfField F) ((@TridiagEigen.half K (scOfField F)) * (a - d) * ((@TridiagEigen.half K (scOfField F)) * (a - d)) + y * b)
      (@zero K (scOfField F)) = true) :
    let _ : Sc K := scOfField F
    let pp : K := TridiagEigen.half * (a - d)
    let rot := makeGivens (if Sc.ge pp zero = true then pp + Sc.sqrt (Sc.abs (pp * pp + y * b)) else pp - Sc.sqrt (Sc.abs (pp * pp + y * b))) y
    rot.c * (rot.s * (a + ex) + rot.c * y) - rot.s * (rot.s * b + rot.c * (d + ex)) = 0 := by
  intro _ pp rot
  have ep : (1 / 2 : K) * ((a + ex) - (d + ex)) = pp := by
    show _ = TridiagEigen.half * (a - d); rw [C09SimU.half_eq]; ring
  have hq' : 0 ≤ (1 / 2 * ((a + ex) - (d + ex))) * (1 / 2 * ((a + ex) - (d + ex))) + y * b := by
    rw [ep]
    simpa [zero] using hq
  have := C09SimU.standardise_zero F hs hs0 (a + ex) b y (d + ex) hq'
  simp only [ep] at this
  have er : rot = makeGivens (if 0 ≤ pp then pp + F.sqrt |pp * pp + y * b| else pp - F.sqrt |pp * pp + y * b|) y := by
    show makeGivens _ y = _
    congr 1
    simp [zero]
  rw [er]; exact this

/-- **`split_off_two_rows`** (window rows `p, p+1`, `iu = p + 1`): both diagonal entries take the accumulated shift, the block is
    rotated to upper triangular form when its eigenvalues are real (the `(2,1)` entry overwritten by `0` IS `0`), the window shrinks
    by two rows, and the sub-diagonal entry `T(iu−1, iu−2)` in front of the block is dropped into `E` -/
theorem split_sim (hs : ∀ x : K, 0 ≤ x → F.sqrt x * F.sqrt x = x) (hs0 : ∀ x : K, 0 ≤ F.sqrt x) (n p : ℕ)
    (H : Matrix (Fin n) (Fin n) K) (ex : K) (s : TU K) (b : K) (hiu : p + 1 < n)
    (hw : @WF K s.t) (hr : s.t.rows = n) (hc : s.t.cols = n) (hH : @C09Hess.Hess K (scOfField F) n s.t)
    (hz : p + 1 + 1 < n → @Mat.get K (scOfField F) s.t (p + 1 + 1) (p + 1) = 0) (orth : ColsOrth F n s.u)
    (E : Matrix (Fin n) (Fin n) K) (hE : Bnd E b)
    (sim : (mat n (gf F s.u))ᵀ * H * mat n (gf F s.u) = mat n (gf F s.t) + Sm n (p + 1 + 1) ex + E) :
    ∃ E' : Matrix (Fin n) (Fin n) K, Bnd E' (b + (if 1 < p + 1 then |@Mat.get K (scOfField F) s.t p (p - 1)| else 0)) ∧
      (mat n (gf F (@splitOffTwoRows K _ _ _ _ _ (scOfField F) n (p + 1) ex s).u))ᵀ * H *
          mat n (gf F (@splitOffTwoRows K _ _ _ _ _ (scOfField F) n (p + 1) ex s).u) =
        mat n (gf F (@splitOffTwoRows K _ _ _ _ _ (scOfField F) n (p + 1) ex s).t) + Sm n p ex + E' := by
  letI : Sc K := scOfField F
  have hA : ∀ i j, j + 2 ≤ i → i < n → gf F s.t i j = 0 := by
    intro i j h1 h2; have := hH i j h1 h2; simp only [gf]; rw [this, zero_eq]
  -- the two shifted diagonal entries
  have w1 : WF (s.t.set (p + 1) (p + 1) (s.t.get (p + 1) (p + 1) + ex)) := set_wf _ _ _ _ hw
  have g1 : ∀ i j, i < n → j < n → gf F (s.t.set (p + 1) (p + 1) (s.t.get (p + 1) (p + 1) + ex)) i j = gf F s.t i j + sgl (p + 1) (p + 1) ex i j := by
    intro i j hi hj
    simp only [gf, sgl]
    rw [get_set _ hw _ _ _ _ _ (by rw [hr]; exact hiu) (by rw [hc]; exact hiu) (by rw [hr]; exact hi)]
    by_cases hcnd : i = p + 1 ∧ j = p + 1
    · rw [if_pos hcnd, if_pos hcnd, hcnd.1, hcnd.2]
    · rw [if_neg hcnd, if_neg hcnd, add_zero]
  generalize ht2 : (s.t.set (p + 1) (p + 1) (s.t.get (p + 1) (p + 1) + ex)).set p p
      ((s.t.set (p + 1) (p + 1) (s.t.get (p + 1) (p + 1) + ex)).get p p + ex) = t2
  have w2 : WF t2 := by rw [← ht2]; exact set_wf _ _ _ _ w1
  have r2 : t2.rows = n := by rw [← ht2, set_rows, set_rows, hr]
  have c2 : t2.cols = n := by rw [← ht2, set_cols, set_cols, hc]
  have g2 : ∀ i j, i < n → j < n → gf F t2 i j = gf F s.t i j + sgl (p + 1) (p + 1) ex i j + sgl p p ex i j := by
    intro i j hi hj
    rw [← ht2]
    have e1 := g1 i j hi hj
    have e2 := g1 p p (by omega) (by omega)
    simp only [gf, sgl] at e1 e2 ⊢
    rw [get_set _ w1 _ _ _ _ _ (by rw [set_rows, hr]; omega) (by rw [set_cols, hc]; omega) (by rw [set_rows, hr]; exact hi), e1, e2]
    by_cases hcnd : i = p ∧ j = p
    · rw [if_pos hcnd, if_pos hcnd, if_neg (by omega), if_neg (by omega), hcnd.1, hcnd.2]; try ring
    · rw [if_neg hcnd, if_neg hcnd]; ring
  -- the dropped entry and the matrix that is actually rotated
  generalize hx : (if 0 < p then gf F s.t p (p - 1) else 0) = x
  have hsx : ∀ i j, p ≤ j → sgl p (p - 1) x i j = 0 := by
    intro i j hj
    simp only [sgl]
    by_cases h0 : 0 < p
    · rw [if_neg (by omega)]
    · rw [← hx, if_neg h0]; try (split <;> rfl)
  have hz0 : ∀ j, j < n → j < p → gf F t2 p j - sgl p (p - 1) x p j = 0 := by
    intro j hj hjp
    rw [g2 p j (by omega) hj]
    simp only [sgl]
    rw [if_neg (by omega), if_neg (by omega)]
    by_cases hjc : j = p - 1
    · rw [if_pos ⟨trivial, hjc⟩, ← hx, if_pos (by omega), hjc]; ring
    · rw [if_neg (by omega), hA p j (by omega) (by omega)]; ring
  have hz1 : ∀ j, j < n → j < p → gf F t2 (p + 1) j - sgl p (p - 1) x (p + 1) j = 0 := by
    intro j hj hjp
    rw [g2 (p + 1) j (by omega) hj]
    simp only [sgl]
    rw [if_neg (by omega), if_neg (by omega), if_neg (by omega), hA (p + 1) j (by omega) hiu]; ring
  have hz2 : ∀ i, p + 1 + 1 ≤ i → i < n → gf F t2 i p - sgl p (p - 1) x i p = 0 ∧ gf F t2 i (p + 1) - sgl p (p - 1) x i (p + 1) = 0 := by
    intro i h1 h2
    constructor
    · rw [g2 i p h2 (by omega), hsx i p (le_refl _)]
      simp only [sgl]
      rw [if_neg (by omega), if_neg (by omega), hA i p (by omega) h2]; ring
    · rw [g2 i (p + 1) h2 (by omega), hsx i (p + 1) (by omega)]
      simp only [sgl]
      rw [if_neg (by omega), if_neg (by omega)]
      by_cases hi2 : i = p + 1 + 1
      · subst hi2; have := hz h2; simp only [gf]; rw [this]; ring
      · rw [hA i (p + 1) (by omega) h2]; ring
  -- the similarity before the rotation, in terms of the matrix that is rotated
  have sim0 : (mat n (gf F s.u))ᵀ * H * mat n (gf F s.u) =
      mat n (fun i j => gf F t2 i j - sgl p (p - 1) x i j) + Sm n p ex + (E + mat n (sgl p (p - 1) x)) := by
    rw [sim, Sm_split1, Sm_split1, mat_sub, mat_congr n _ _ g2, mat_add, mat_add]; abel
  have hE0 : Bnd (E + mat n (sgl p (p - 1) x)) (b + (if 1 < p + 1 then |s.t.get p (p - 1)| else 0)) := by
    refine bnd_mono (bnd_add_sgl hE p (p - 1) x) ?_
    rw [← hx]
    by_cases h0 : 0 < p
    · rw [if_pos h0, if_pos (by omega)]; exact le_refl _
    · rw [if_neg h0, if_neg (by omega)]; simp
  -- unfold the model
  simp only [splitOffTwoRows, Nat.add_sub_cancel, show p + 1 - 2 = p - 1 from rfl]
  rw [ht2]
  have ey : t2.get (p + 1) p = s.t.get (p + 1) p := by
    have := g2 (p + 1) p (by omega) (by omega)
    simp only [gf, sgl] at this
    rw [this, if_neg (by omega), if_neg (by omega)]; ring
  rw [ey]
  by_cases hq : Sc.ge (TridiagEigen.half * (s.t.get p p - s.t.get (p + 1) (p + 1)) * (TridiagEigen.half * (s.t.get p p - s.t.get (p + 1) (p + 1))) +
      s.t.get (p + 1) p * s.t.get p (p + 1)) (zero : K) = true
  · simp only [if_pos hq]
    have hstd := standardise_model F hs hs0 (s.t.get p p) (s.t.get p (p + 1)) (s.t.get (p + 1) p) (s.t.get (p + 1) (p + 1)) ex hq
    simp only at hstd
    have hcs := makeGivens_unit F hs (if Sc.ge (TridiagEigen.half * (s.t.get p p - s.t.get (p + 1) (p + 1))) (zero : K) = true then
        TridiagEigen.half * (s.t.get p p - s.t.get (p + 1) (p + 1)) + Sc.sqrt (Sc.abs (TridiagEigen.half * (s.t.get p p - s.t.get (p + 1) (p + 1)) * (TridiagEigen.half * (s.t.get p p - s.t.get (p + 1) (p + 1))) +
          s.t.get (p + 1) p * s.t.get p (p + 1)))
      else TridiagEigen.half * (s.t.get p p - s.t.get (p + 1) (p + 1)) - Sc.sqrt (Sc.abs (TridiagEigen.half * (s.t.get p p - s.t.get (p + 1) (p + 1)) * (TridiagEigen.half * (s.t.get p p - s.t.get (p + 1) (p + 1))) +
          s.t.get (p + 1) p * s.t.get p (p + 1)))) (s.t.get (p + 1) p)
    simp only at hcs
    generalize makeGivens (if Sc.ge (TridiagEigen.half * (s.t.get p p - s.t.get (p + 1) (p + 1))) (zero : K) = true then
        TridiagEigen.half * (s.t.get p p - s.t.get (p + 1) (p + 1)) + Sc.sqrt (Sc.abs (TridiagEigen.half * (s.t.get p p - s.t.get (p + 1) (p + 1)) * (TridiagEigen.half * (s.t.get p p - s.t.get (p + 1) (p + 1))) +
          s.t.get (p + 1) p * s.t.get p (p + 1)))
      else TridiagEigen.half * (s.t.get p p - s.t.get (p + 1) (p + 1)) - Sc.sqrt (Sc.abs (TridiagEigen.half * (s.t.get p p - s.t.get (p + 1) (p + 1)) * (TridiagEigen.half * (s.t.get p p - s.t.get (p + 1) (p + 1))) +
          s.t.get (p + 1) p * s.t.get p (p + 1)))) (s.t.get (p + 1) p) = rot at hstd hcs ⊢
    obtain ⟨w3, r3, c3, g3⟩ := rot_apply_T F n t2 w2 r2 c2 p (p + 1) (p + 1 + 1) rfl hiu (by omega) rot.c rot.s
    generalize ht3 : applyOnTheRight (applyOnTheLeftAdj t2 p (n - (p + 1) + 1) p (p + 1) rot.c rot.s) (p + 1 + 1) p (p + 1) rot.c rot.s = t3
      at w3 r3 c3 g3 ⊢
    -- the rotated matrix
    have g3' : ∀ i j, i < n → j < n → gf F t3 i j =
        mulG (mulGt (fun i j => gf F t2 i j - sgl p (p - 1) x i j) p rot.c rot.s) p rot.c rot.s i j + sgl p (p - 1) x i j := by
      intro i j hi hj
      rw [g3 i j hi hj]
      by_cases hpj : p ≤ j
      · rw [wLRg_right n p _ hiu (by omega) (gf F t2) (fun i j => gf F t2 i j - sgl p (p - 1) x i j) rot.c rot.s
          (fun i j _ _ hj' => by simp only [hsx i j hj', sub_zero]) hz2 i j hi hj hpj, hsx i j hpj, add_zero]
      · rw [wLRg_left p _ _ _ _ i j (by omega),
          conjG_left_col p _ rot.c rot.s i j (by omega) (hz0 j hj (by omega)) (hz1 j hj (by omega))]
        ring
    have m00 : gf F t2 p p - sgl p (p - 1) x p p = s.t.get p p + ex := by
      rw [g2 p p (by omega) (by omega), hsx p p (le_refl _)]; simp [sgl, gf]
    have m10 : gf F t2 (p + 1) p - sgl p (p - 1) x (p + 1) p = s.t.get (p + 1) p := by
      rw [g2 (p + 1) p (by omega) (by omega), hsx (p + 1) p (le_refl _)]; simp [sgl, gf]
    have m01 : gf F t2 p (p + 1) - sgl p (p - 1) x p (p + 1) = s.t.get p (p + 1) := by
      rw [g2 p (p + 1) (by omega) (by omega), hsx p (p + 1) (by omega)]; simp [sgl, gf]
    have m11 : gf F t2 (p + 1) (p + 1) - sgl p (p - 1) x (p + 1) (p + 1) = s.t.get (p + 1) (p + 1) + ex := by
      rw [g2 (p + 1) (p + 1) (by omega) (by omega), hsx (p + 1) (p + 1) (by omega)]; simp [sgl, gf]
    have hzero : mulG (mulGt (fun i j => gf F t2 i j - sgl p (p - 1) x i j) p rot.c rot.s) p rot.c rot.s (p + 1) p = 0 := by
      simp only [mulG, mulGt, if_true, if_neg (show ¬ p + 1 = p by omega), eq_self_iff_true, m00, m10, m01, m11]
      exact hstd
    have w4 : WF (t3.set (p + 1) p zero) := set_wf _ _ _ _ w3
    have g4 : ∀ i j, i < n → j < n → gf F (t3.set (p + 1) p zero) i j =
        mulG (mulGt (fun i j => gf F t2 i j - sgl p (p - 1) x i j) p rot.c rot.s) p rot.c rot.s i j + sgl p (p - 1) x i j := by
      intro i j hi hj
      have := g3' i j hi hj
      show (t3.set (p + 1) p zero).get i j = _
      rw [get_set _ w3 _ _ _ _ _ (by rw [r3]; omega) (by rw [c3]; omega) (by rw [r3]; exact hi)]
      by_cases hcnd : i = p + 1 ∧ j = p
      · rw [if_pos hcnd, hcnd.1, hcnd.2, hzero, hsx (p + 1) p (le_refl _), zero_eq]; ring
      · rw [if_neg hcnd]; exact this
    have hU : ∀ i j, i < n → j < n → gf F (applyOnTheRight s.u n p (p + 1) rot.c rot.s) i j = mulG (gf F s.u) p rot.c rot.s i j := by
      intro i j hi hj
      have := applyOnTheRight_get F s.u orth.1 n p (p + 1) rot.c rot.s (by omega) (by rw [orth.2.2.1]; omega) (by rw [orth.2.2.1]; exact hiu)
        (by rw [orth.2.1]) i j (by rw [orth.2.1]; exact hi)
      simp only at this
      simp only [gf]
      rw [this, if_pos hi]
      simp only [mulG, gf]
    by_cases h0 : 0 < p
    · simp only [if_pos (show 1 < p + 1 by omega)] at hE0 ⊢
      have hT : ∀ i j, i < n → j < n → gf F ((t3.set (p + 1) p zero).set p (p - 1) zero) i j =
          mulG (mulGt (fun i j => gf F t2 i j - sgl p (p - 1) x i j) p rot.c rot.s) p rot.c rot.s i j - spike p 0 0 0 i j := by
        intro i j hi hj
        have := g4 i j hi hj
        show ((t3.set (p + 1) p zero).set p (p - 1) zero).get i j = _
        rw [get_set _ w4 _ _ _ _ _ (by rw [set_rows, r3]; omega) (by rw [set_cols, c3]; omega) (by rw [set_rows, r3]; exact hi)]
        have hsp : spike p (0 : K) 0 0 i j = 0 := by simp only [spike]; split_ifs <;> rfl
        rw [hsp, sub_zero]
        by_cases hcnd : i = p ∧ j = p - 1
        · rw [if_pos hcnd, hcnd.1, hcnd.2,
            conjG_left_col p _ rot.c rot.s p (p - 1) (by omega) (hz0 (p - 1) (by omega) (by omega)) (hz1 (p - 1) (by omega) (by omega)),
            hz0 (p - 1) (by omega) (by omega), zero_eq]
        · rw [if_neg hcnd]
          refine this.trans ?_
          simp only [sgl]; rw [if_neg hcnd, add_zero]
      obtain ⟨E', hE', sim'⟩ := sim_rot n p p hiu (Or.inr (le_refl p)) H ex _ _ _ _ rot.c rot.s 0 0 hcs _ _ hE0 sim0 hU hT
      exact ⟨E', bnd_mono hE' (by split_ifs <;> simp), sim'⟩
    · simp only [if_neg (show ¬ 1 < p + 1 by omega)] at hE0 ⊢
      have hx0 : x = 0 := by rw [← hx, if_neg h0]
      have hT : ∀ i j, i < n → j < n → gf F (t3.set (p + 1) p zero) i j =
          mulG (mulGt (fun i j => gf F t2 i j - sgl p (p - 1) x i j) p rot.c rot.s) p rot.c rot.s i j - spike p 0 0 0 i j := by
        intro i j hi hj
        have hsp : spike p (0 : K) 0 0 i j = 0 := by simp only [spike]; split_ifs <;> rfl
        rw [g4 i j hi hj, hsp, sub_zero]
        simp only [sgl, hx0]; split_ifs <;> ring
      obtain ⟨E', hE', sim'⟩ := sim_rot n p p hiu (Or.inr (le_refl p)) H ex _ _ _ _ rot.c rot.s 0 0 hcs _ _ hE0 sim0 hU hT
      exact ⟨E', bnd_mono hE' (by split_ifs <;> simp), sim'⟩
  · simp only [if_neg hq]
    by_cases h0 : 0 < p
    · simp only [if_pos (show 1 < p + 1 by omega)] at hE0 ⊢
      refine ⟨_, hE0, ?_⟩
      rw [sim0]; congr 2
      apply mat_congr; intro i j hi hj
      simp only [gf, sgl]
      rw [get_set _ w2 _ _ _ _ _ (by rw [r2]; omega) (by rw [c2]; omega) (by rw [r2]; exact hi)]
      by_cases hcnd : i = p ∧ j = p - 1
      · have := hz0 (p - 1) (by omega) (by omega)
        simp only [gf, sgl] at this
        rw [if_pos hcnd, if_pos hcnd, hcnd.1, hcnd.2, zero_eq]
        rw [if_pos ⟨trivial, trivial⟩] at this; exact this
      · rw [if_neg hcnd, if_neg hcnd, sub_zero]
    · simp only [if_neg (show ¬ 1 < p + 1 by omega)] at hE0 ⊢
      have hx0 : x = 0 := by rw [← hx, if_neg h0]
      refine ⟨_, hE0, ?_⟩
      rw [sim0]; congr 2
      apply mat_congr; intro i j hi hj
      simp only [sgl, hx0]; split_ifs <;> ring

end field
end C09SS
