/-
  C08 — the Householder-reflector kernel of `Spectra::DoubleShiftQR` (`LinAlg/DoubleShiftQR.h` : `stable_norm3`,
  `stable_scaling`, `compute_reflector`) at the exact-arithmetic instance `scOfField F` over an arbitrary linearly ordered
  field `K`.

  Objects: the GENERATED `Gen.Refl.stable_norm3`, `Gen.Refl.stable_scaling` (`Gen/Refl.lean`) and the hand model
  `QRModel.eigenHypot`, `QRModel.near0`, `QRModel.DoubleShiftQR.computeReflector` (`Model/DoubleShiftQR.lean`).  The local
  names `n3`, `sc3`, `hyp`, `cRef` are definitional abbreviations of these at the instance (`n3_def`, … are `rfl`).

  * `sqrt` is abstract: `hsq : ∀ x ≥ 0, sqrt x * sqrt x = x ∧ 0 ≤ sqrt x`.
  * the series cutoff `0.1 * pow eps 0.25` is an arbitrary element of `K`; "ideal" theorems take `hcut : cutoff F ≤ 0`
    (series branch disabled).  The defect of the series branch of `stable_scaling` is quantified in `scaling_series`.
  * `near0 = minPos * 10`; `hmin : 0 < minPos` only where needed.

  Main results
  * `hypot_spec`, `norm3_spec`, `norm3_small`, `scaling_spec`     the three scalar kernels compute `‖·‖₂` / the unit vector
  * `reflVec`, `cRef_eq`                                          `compute_reflector` stores exactly `reflVec x1 x2 x3` in column `ind`
  * `reflVec_unit3`, `reflVec_unit2`, `reflector_unit`, `reflector_unit2`
                                                                  the stored `u` is a unit vector and `(I - 2uuᵀ) x = ρ‖x‖ e₁`
  * `reflector_involution`, `reflector_isometry`, `reflector_apply_forms` (+ `…2` for pairs)   ring identities of `I - 2uuᵀ`
  * `scaling_series`                                              series branch: `0 ≤ y·y - 1 ≤ 23/32 ρ³` (`≤ 5/8 ρ³` if `ρ ≤ 1`)
-/
import Mathlib.Tactic.Ring
import Mathlib.Tactic.Linarith
import Mathlib.Tactic.FieldSimp
import Mathlib.Tactic.Positivity
import Mathlib.Tactic.NormNum
import Mathlib.Tactic.LinearCombination
import Mathlib.Algebra.Order.Field.Basic
import SpectraVerif.Model.DoubleShiftQR
import SpectraVerif.Proofs.ScField
import SpectraVerif.Proofs.C08Givens

set_option linter.unusedSectionVars false
set_option linter.unusedSimpArgs false
set_option linter.unusedVariables false

namespace C08Refl
open QRModel QRModel.DoubleShiftQR Lin

variable {K : Type} [Field K] [LinearOrder K] [IsStrictOrderedRing K] (F : FieldFns K)

/-- the series cutoff `0.1 * pow eps 0.25` (the same expression as in the Givens kernel) -/
abbrev cutoff : K := C08Givens.cutoff F
def hyp (x y : K) : K := @eigenHypot K _ _ _ (scOfField F) x y
def n3 (x1 x2 x3 : K) : K := @Gen.Refl.stable_norm3 K _ _ _ _ _ (scOfField F) x1 x2 x3
def sc3 (x1 x2 x3 : K) : K × K × K := @Gen.Refl.stable_scaling K _ _ _ _ _ (scOfField F) x1 x2 x3
def cRef (u : Mat K) (nr : Array Nat) (x1 x2 x3 : K) (ind : Nat) : Mat K × Array Nat :=
  @computeReflector K _ _ _ _ _ (scOfField F) u nr x1 x2 x3 ind
/-- `H(i, j)` -/
abbrev mget (H : Mat K) (i j : Nat) : K := @Mat.get K (scOfField F) H i j
/-- `m_near_0` -/
def nz : K := F.minPos * 10

theorem nz_eq : @near0 K _ (scOfField F) = nz F := by
  show F.minPos * ((10 : Int) : K) = F.minPos * 10
  norm_num

theorem nz_pos (hmin : 0 < F.minPos) : 0 < nz F := by
  unfold nz; positivity

/-! ### closed forms of the translated definitions -/

/-- `stable_norm3` after the two swaps: `a` is the largest modulus -/
def n3core (a b c : K) : K :=
  if a < nz F then 0
  else a * (if cutoff F ≤ b / a ∨ cutoff F ≤ c / a then F.sqrt (1 + (b / a * (b / a) + c / a * (c / a)))
            else 1 + (b / a * (b / a) + c / a * (c / a)) * (1 / 2 - 1 / 8 * (b / a * (b / a) + c / a * (c / a))))

theorem n3_eq (x1 x2 x3 : K) :
    n3 F x1 x2 x3 =
      if |x1| < |x2| then (if |x2| < |x3| then n3core F |x3| |x1| |x2| else n3core F |x2| |x1| |x3|)
      else (if |x1| < |x3| then n3core F |x3| |x2| |x1| else n3core F |x1| |x2| |x3|) := by
  unfold n3 Gen.Refl.stable_norm3 n3core
  simp only [ScF.ge, ScF.lt, ScF.abs, ScF.lit, ScF.eps, ScF.pow, ScF.ofInt, ScF.sqrt, ScF.minPos]
  by_cases h1 : |x1| < |x2|
  · simp only [h1, decide_true, if_true]
    by_cases h2 : |x2| < |x3|
    · simp only [h2, decide_true, if_true]
      simp only [nz, cutoff, C08Givens.cutoff, Int.cast_ofNat, Int.cast_one, Int.cast_zero, C08Givens.lit5,
        C08Givens.lit125, Bool.or_eq_true, decide_eq_true_eq]
      rfl
    · simp only [h2, decide_false, if_false, Bool.false_eq_true]
      simp only [nz, cutoff, C08Givens.cutoff, Int.cast_ofNat, Int.cast_one, Int.cast_zero, C08Givens.lit5,
        C08Givens.lit125, Bool.or_eq_true, decide_eq_true_eq]
      rfl
  · simp only [h1, decide_false, if_false, Bool.false_eq_true]
    by_cases h2 : |x1| < |x3|
    · simp only [h2, decide_true, if_true]
      simp only [nz, cutoff, C08Givens.cutoff, Int.cast_ofNat, Int.cast_one, Int.cast_zero, C08Givens.lit5,
        C08Givens.lit125, Bool.or_eq_true, decide_eq_true_eq]
      rfl
    · simp only [h2, decide_false, if_false, Bool.false_eq_true]
      simp only [nz, cutoff, C08Givens.cutoff, Int.cast_ofNat, Int.cast_one, Int.cast_zero, C08Givens.lit5,
        C08Givens.lit125, Bool.or_eq_true, decide_eq_true_eq]
      rfl

/-- the common factor `r` of `stable_scaling` as a function of `r2 = x2/|x1|`, `r3 = x3/|x1|` -/
def scFac (s t : K) : K :=
  if cutoff F ≤ |s| ∨ cutoff F ≤ |t| then 1 / F.sqrt (1 + (s * s + t * t))
  else 1 - (s * s + t * t) * (1 / 2 - 3 / 8 * (s * s + t * t))

theorem sc3_eq (x1 x2 x3 : K) :
    sc3 F x1 x2 x3 =
      (C08Givens.sg x1 * scFac F (x2 / |x1|) (x3 / |x1|), x2 / |x1| * scFac F (x2 / |x1|) (x3 / |x1|),
       x3 / |x1| * scFac F (x2 / |x1|) (x3 / |x1|)) := by
  unfold sc3 Gen.Refl.stable_scaling scFac C08Givens.sg
  simp only [ScF.ge, ScF.gt, ScF.lt, ScF.abs, ScF.lit, ScF.eps, ScF.pow, ScF.ofInt, ScF.sqrt,
    cutoff, C08Givens.cutoff, Int.cast_ofNat, Int.cast_one, Int.cast_zero, Int.cast_neg, C08Givens.lit5,
    C08Givens.lit375, Bool.or_eq_true, decide_eq_true_eq]
  rfl

theorem hyp_eq (x y : K) :
    hyp F x y = if (if |x| < |y| then |y| else |x|) = 0 then 0
      else (if |x| < |y| then |y| else |x|) *
        F.sqrt (1 + (if |y| < |x| then |y| else |x|) / (if |x| < |y| then |y| else |x|) *
          ((if |y| < |x| then |y| else |x|) / (if |x| < |y| then |y| else |x|))) := by
  unfold hyp eigenHypot
  simp only [ScF.eq, ScF.lt, ScF.abs, ScF.sqrt, Lin.zero, Lin.one, ScF.ofInt, Int.cast_one, Int.cast_zero,
    decide_eq_true_eq]

/-! ### pure algebra -/

/-- `a * sqrt (1 + (b/a)² + (c/a)²)` is the Euclidean norm of `(a, b, c)` -/
theorem norm_core (a b c d : K) (ha : 0 ≤ a) (h0 : a = 0 → b = 0 ∧ c = 0)
    (hd : d * d = 1 + (b / a * (b / a) + c / a * (c / a))) (hd0 : 0 ≤ d) :
    0 ≤ a * d ∧ (a * d) * (a * d) = a * a + b * b + c * c := by
  refine ⟨mul_nonneg ha hd0, ?_⟩
  rcases eq_or_lt_of_le ha with h | h
  · obtain ⟨rfl, rfl⟩ := h0 h.symm
    rw [← h]; ring
  · have hb : b / a * a = b := div_mul_cancel₀ b h.ne'
    have hc : c / a * a = c := div_mul_cancel₀ c h.ne'
    generalize b / a = s at *
    generalize c / a = t at *
    linear_combination (a * a) * hd + (s * a + b) * hb + (t * a + c) * hc

theorem scal_core (x1 x2 x3 d : K) (h1 : x1 ≠ 0)
    (hd : d * d = 1 + (x2 / |x1| * (x2 / |x1|) + x3 / |x1| * (x3 / |x1|))) (hd0 : 0 ≤ d) :
    0 < |x1| * d ∧ (|x1| * d) * (|x1| * d) = x1 * x1 + x2 * x2 + x3 * x3 ∧
    (C08Givens.sg x1 * (1 / d)) * (|x1| * d) = x1 ∧ (x2 / |x1| * (1 / d)) * (|x1| * d) = x2 ∧
    (x3 / |x1| * (1 / d)) * (|x1| * d) = x3 := by
  have ha : 0 < |x1| := abs_pos.mpr h1
  have hsg := C08Givens.sg_mul_abs x1
  have hsq := abs_mul_abs_self x1
  have hb : x2 / |x1| * |x1| = x2 := div_mul_cancel₀ x2 ha.ne'
  have hc : x3 / |x1| * |x1| = x3 := div_mul_cancel₀ x3 ha.ne'
  generalize x2 / |x1| = s at *
  generalize x3 / |x1| = t at *
  generalize |x1| = a at *
  have hpos : 0 < d * d := by rw [hd]; nlinarith [mul_self_nonneg s, mul_self_nonneg t]
  have hdne : d ≠ 0 := by rintro rfl; simp at hpos
  have hdpos : 0 < d := lt_of_le_of_ne hd0 (Ne.symm hdne)
  have hi : d * (1 / d) = 1 := mul_one_div_cancel hdne
  generalize 1 / d = i at *
  refine ⟨mul_pos ha hdpos, ?_, ?_, ?_, ?_⟩
  · linear_combination (a * a) * hd + (s * a + x2) * hb + (t * a + x3) * hc + hsq
  · linear_combination (C08Givens.sg x1 * a) * hi + hsg
  · linear_combination (s * a) * hi + hb
  · linear_combination (t * a) * hi + hc

/-- the Householder algebra: `u = v/ν`, `v = x - ρ N e₁`, `ν² = vᵀv`, `N² = xᵀx`, `ρ² = 1`:
    `u` is a unit vector and `2 uᵀx = ν`, i.e. `2 (uᵀx) u = v` -/
theorem householder_core (N ρ x1 x2 x3 ν u0 u1 u2 : K) (hρ : ρ * ρ = 1) (hν0 : ν ≠ 0)
    (hN : N * N = x1 * x1 + x2 * x2 + x3 * x3)
    (hν : ν * ν = (x1 - ρ * N) * (x1 - ρ * N) + x2 * x2 + x3 * x3)
    (e0 : u0 * ν = x1 - ρ * N) (e1 : u1 * ν = x2) (e2 : u2 * ν = x3) :
    u0 * u0 + u1 * u1 + u2 * u2 = 1 ∧ 2 * (u0 * x1 + u1 * x2 + u2 * x3) = ν := by
  have hνν : ν * ν ≠ 0 := mul_ne_zero hν0 hν0
  constructor
  · apply mul_left_cancel₀ hνν
    linear_combination (u0 * ν + (x1 - ρ * N)) * e0 + (u1 * ν + x2) * e1 + (u2 * ν + x3) * e2 - hν
  · apply mul_left_cancel₀ hν0
    linear_combination 2 * x1 * e0 + 2 * x2 * e1 + 2 * x3 * e2 - hν - hN - N * N * hρ

/-! ### 1. `numext::hypot` -/

theorem hypot_spec (hsq : ∀ x : K, 0 ≤ x → F.sqrt x * F.sqrt x = x ∧ 0 ≤ F.sqrt x) (x y : K) :
    0 ≤ hyp F x y ∧ hyp F x y * hyp F x y = x * x + y * y := by
  rw [hyp_eq]
  have hax := abs_mul_abs_self x
  have hay := abs_mul_abs_self y
  have key : ∀ p q : K, 0 ≤ p → 0 ≤ q → q ≤ p → p * p + q * q = x * x + y * y →
      0 ≤ (if p = 0 then 0 else p * F.sqrt (1 + q / p * (q / p))) ∧
      (if p = 0 then 0 else p * F.sqrt (1 + q / p * (q / p))) *
        (if p = 0 then 0 else p * F.sqrt (1 + q / p * (q / p))) = x * x + y * y := by
    intro p q hp hq hqp he
    by_cases h0 : p = 0
    · rw [if_pos h0]
      have hq0 : q = 0 := le_antisymm (h0 ▸ hqp) hq
      rw [h0, hq0] at he
      refine ⟨le_refl _, ?_⟩
      rw [← he]; ring
    · rw [if_neg h0]
      have hnn : (0 : K) ≤ 1 + q / p * (q / p) := by nlinarith [mul_self_nonneg (q / p)]
      obtain ⟨s1, s2⟩ := hsq _ hnn
      have hd : F.sqrt (1 + q / p * (q / p)) * F.sqrt (1 + q / p * (q / p)) =
          1 + (q / p * (q / p) + 0 / p * (0 / p)) := by rw [s1]; simp
      obtain ⟨r1, r2⟩ := norm_core p q 0 _ hp (fun h => absurd h h0) hd s2
      refine ⟨r1, ?_⟩
      rw [r2, ← he]; ring
  by_cases h : |x| < |y|
  · have h' : ¬ |y| < |x| := not_lt.mpr h.le
    simp only [h, h', if_true, if_false]
    exact key |y| |x| (abs_nonneg y) (abs_nonneg x) h.le (by rw [hax, hay]; ring)
  · have hle : |y| ≤ |x| := not_lt.mp h
    simp only [h, if_false]
    by_cases h2 : |y| < |x|
    · simp only [h2, if_true]
      exact key |x| |y| (abs_nonneg x) (abs_nonneg y) hle (by rw [hax, hay])
    · simp only [h2, if_false]
      have hxy : |x| = |y| := le_antisymm (not_lt.mp h2) hle
      exact key |x| |x| (abs_nonneg x) (abs_nonneg x) (le_refl _) (by rw [hax, ← hay, ← hxy, hax])

/-! ### 2. `stable_norm3` -/

theorem n3core_spec (hsq : ∀ x : K, 0 ≤ x → F.sqrt x * F.sqrt x = x ∧ 0 ≤ F.sqrt x) (hcut : cutoff F ≤ 0)
    (a b c : K) (hb : 0 ≤ b) (hc : 0 ≤ c) (hba : b ≤ a) (hca : c ≤ a) (hnz : nz F ≤ a) :
    0 ≤ n3core F a b c ∧ n3core F a b c * n3core F a b c = a * a + b * b + c * c := by
  have ha : 0 ≤ a := le_trans hb hba
  unfold n3core
  rw [if_neg (not_lt.mpr hnz), if_pos (Or.inl (le_trans hcut (div_nonneg hb ha)))]
  have hnn : (0 : K) ≤ 1 + (b / a * (b / a) + c / a * (c / a)) := by
    nlinarith [mul_self_nonneg (b / a), mul_self_nonneg (c / a)]
  obtain ⟨s1, s2⟩ := hsq _ hnn
  exact norm_core a b c _ ha
    (fun h => ⟨le_antisymm (h ▸ hba) hb, le_antisymm (h ▸ hca) hc⟩) s1 s2

theorem n3core_small (a b c : K) (h : a < nz F) : n3core F a b c = 0 := by
  unfold n3core; rw [if_pos h]

theorem norm3_spec (hsq : ∀ x : K, 0 ≤ x → F.sqrt x * F.sqrt x = x ∧ 0 ≤ F.sqrt x) (hcut : cutoff F ≤ 0)
    (x1 x2 x3 : K) (hbig : nz F ≤ max |x1| (max |x2| |x3|)) :
    0 ≤ n3 F x1 x2 x3 ∧ n3 F x1 x2 x3 * n3 F x1 x2 x3 = x1 * x1 + x2 * x2 + x3 * x3 := by
  rw [n3_eq]
  have h1 := abs_mul_abs_self x1
  have h2 := abs_mul_abs_self x2
  have h3 := abs_mul_abs_self x3
  have n1 := abs_nonneg x1
  have n2 := abs_nonneg x2
  have n3' := abs_nonneg x3
  by_cases c1 : |x1| < |x2|
  · rw [if_pos c1]
    by_cases c2 : |x2| < |x3|
    · rw [if_pos c2]
      have := n3core_spec F hsq hcut |x3| |x1| |x2| n1 n2 (le_trans c1.le c2.le) c2.le
        (le_trans hbig (max_le (le_trans c1.le c2.le) (max_le c2.le (le_refl _))))
      rw [h1, h2, h3] at this
      refine ⟨this.1, ?_⟩; rw [this.2]; ring
    · rw [if_neg c2]
      have c2' := not_lt.mp c2
      have := n3core_spec F hsq hcut |x2| |x1| |x3| n1 n3' c1.le c2'
        (le_trans hbig (max_le c1.le (max_le (le_refl _) c2')))
      rw [h1, h2, h3] at this
      refine ⟨this.1, ?_⟩; rw [this.2]; ring
  · rw [if_neg c1]
    have c1' := not_lt.mp c1
    by_cases c2 : |x1| < |x3|
    · rw [if_pos c2]
      have := n3core_spec F hsq hcut |x3| |x2| |x1| n2 n1 (le_trans c1' c2.le) c2.le
        (le_trans hbig (max_le c2.le (max_le (le_trans c1' c2.le) (le_refl _))))
      rw [h1, h2, h3] at this
      refine ⟨this.1, ?_⟩; rw [this.2]; ring
    · rw [if_neg c2]
      have c2' := not_lt.mp c2
      have := n3core_spec F hsq hcut |x1| |x2| |x3| n2 n3' c1' c2'
        (le_trans hbig (max_le (le_refl _) (max_le c1' c2')))
      rw [h1, h2, h3] at this
      exact this

/-- below `m_near_0` the function returns exactly 0 (no hypothesis on `sqrt` or the cutoff) -/
theorem norm3_small (x1 x2 x3 : K) (hsmall : max |x1| (max |x2| |x3|) < nz F) : n3 F x1 x2 x3 = 0 := by
  rw [n3_eq]
  have s1 : |x1| < nz F := lt_of_le_of_lt (le_max_left _ _) hsmall
  have s2 : |x2| < nz F := lt_of_le_of_lt (le_trans (le_max_left _ _) (le_max_right _ _)) hsmall
  have s3 : |x3| < nz F := lt_of_le_of_lt (le_trans (le_max_right _ _) (le_max_right _ _)) hsmall
  split
  · split
    · exact n3core_small F _ _ _ s3
    · exact n3core_small F _ _ _ s2
  · split
    · exact n3core_small F _ _ _ s3
    · exact n3core_small F _ _ _ s1

/-! ### 3. `stable_scaling` -/

theorem scaling_spec (hsq : ∀ x : K, 0 ≤ x → F.sqrt x * F.sqrt x = x ∧ 0 ≤ F.sqrt x) (hcut : cutoff F ≤ 0)
    (x1 x2 x3 : K) (h1 : x1 ≠ 0) (y1 y2 y3 : K) (h : sc3 F x1 x2 x3 = (y1, y2, y3)) :
    ∃ ν : K, 0 < ν ∧ ν * ν = x1 * x1 + x2 * x2 + x3 * x3 ∧ y1 * ν = x1 ∧ y2 * ν = x2 ∧ y3 * ν = x3 ∧
      y1 * y1 + y2 * y2 + y3 * y3 = 1 := by
  rw [sc3_eq] at h
  have hfac : scFac F (x2 / |x1|) (x3 / |x1|) =
      1 / F.sqrt (1 + (x2 / |x1| * (x2 / |x1|) + x3 / |x1| * (x3 / |x1|))) := by
    unfold scFac
    rw [if_pos (Or.inl (le_trans hcut (abs_nonneg _)))]
  rw [hfac] at h
  have hnn : (0 : K) ≤ 1 + (x2 / |x1| * (x2 / |x1|) + x3 / |x1| * (x3 / |x1|)) := by
    nlinarith [mul_self_nonneg (x2 / |x1|), mul_self_nonneg (x3 / |x1|)]
  obtain ⟨s1, s2⟩ := hsq _ hnn
  obtain ⟨p0, p1, p2, p3, p4⟩ := scal_core x1 x2 x3 _ h1 s1 s2
  simp only [Prod.mk.injEq] at h
  obtain ⟨rfl, rfl, rfl⟩ := h
  refine ⟨_, p0, p1, p2, p3, p4, ?_⟩
  generalize |x1| * F.sqrt (1 + (x2 / |x1| * (x2 / |x1|) + x3 / |x1| * (x3 / |x1|))) = ν at *
  generalize C08Givens.sg x1 * (1 / F.sqrt (1 + (x2 / |x1| * (x2 / |x1|) + x3 / |x1| * (x3 / |x1|)))) = y1 at *
  generalize x2 / |x1| * (1 / F.sqrt (1 + (x2 / |x1| * (x2 / |x1|) + x3 / |x1| * (x3 / |x1|)))) = y2 at *
  generalize x3 / |x1| * (1 / F.sqrt (1 + (x2 / |x1| * (x2 / |x1|) + x3 / |x1| * (x3 / |x1|)))) = y3 at *
  have hνν : ν * ν ≠ 0 := mul_ne_zero p0.ne' p0.ne'
  apply mul_left_cancel₀ hνν
  linear_combination (y1 * ν + x1) * p2 + (y2 * ν + x2) * p3 + (y3 * ν + x3) * p4 - p1

/-! ### 4. `compute_reflector` -/

/-- the three numbers `compute_reflector` stores in column `ind` of `m_ref_u` when the reflector is not the identity: the `let`
    chain of `computeReflector` from `x_norm` to `w`, verbatim, at the instance -/
def reflVec (x1 x2 x3 : K) : K × K × K :=
  let x_norm := if |x3| < nz F then hyp F x1 x2 else n3 F x1 x2 x3
  let rho : K := if x1 ≤ 0 then 1 else -1
  let x1_new := x1 - rho * x_norm
  if |x2| ≤ |x1_new| ∧ |x3| ≤ |x1_new| then sc3 F x1_new x2 x3
  else if |x1_new| ≤ |x2| ∧ |x3| ≤ |x2| then
    ((sc3 F x2 x1_new x3).2.1, (sc3 F x2 x1_new x3).1, (sc3 F x2 x1_new x3).2.2)
  else
    ((sc3 F x3 x1_new x2).2.1, (sc3 F x3 x1_new x2).2.2, (sc3 F x3 x1_new x2).1)

/-- the model stores exactly `reflVec` (and the row count 1/2/3) -/
theorem cRef_eq (u : Mat K) (nr : Array Nat) (x1 x2 x3 : K) (ind : Nat) :
    cRef F u nr x1 x2 x3 ind =
      if |x2| < nz F ∧ |x3| < nz F then (u, nr.setIfInBounds ind 1)
      else (((u.set 0 ind (reflVec F x1 x2 x3).1).set 1 ind (reflVec F x1 x2 x3).2.1).set 2 ind (reflVec F x1 x2 x3).2.2,
            nr.setIfInBounds ind (if |x3| < nz F then 2 else 3)) := by
  unfold cRef computeReflector reflVec hyp n3 sc3
  simp only [nz_eq, ScF.lt, ScF.le, ScF.ge, ScF.abs, ScF.ofInt, Lin.zero, Lin.one, Int.cast_zero, Int.cast_one,
    Int.cast_neg, Bool.and_eq_true, decide_eq_true_eq]

/-- whichever of the three orderings `compute_reflector` picks, the stored triple is `v / ‖v‖` for `v = (v1, x2, x3)` -/
theorem branches_scaled (hsq : ∀ x : K, 0 ≤ x → F.sqrt x * F.sqrt x = x ∧ 0 ≤ F.sqrt x) (hcut : cutoff F ≤ 0)
    (v1 x2 x3 : K) (hv : v1 ≠ 0) (w : K × K × K)
    (hw : w = if |x2| ≤ |v1| ∧ |x3| ≤ |v1| then sc3 F v1 x2 x3
      else if |v1| ≤ |x2| ∧ |x3| ≤ |x2| then ((sc3 F x2 v1 x3).2.1, (sc3 F x2 v1 x3).1, (sc3 F x2 v1 x3).2.2)
      else ((sc3 F x3 v1 x2).2.1, (sc3 F x3 v1 x2).2.2, (sc3 F x3 v1 x2).1)) :
    ∃ ν : K, 0 < ν ∧ ν * ν = v1 * v1 + x2 * x2 + x3 * x3 ∧ w.1 * ν = v1 ∧ w.2.1 * ν = x2 ∧ w.2.2 * ν = x3 := by
  by_cases c1 : |x2| ≤ |v1| ∧ |x3| ≤ |v1|
  · rw [if_pos c1] at hw
    obtain ⟨ν, a, b, e1, e2, e3, _⟩ := scaling_spec F hsq hcut v1 x2 x3 hv _ _ _ rfl
    subst hw
    exact ⟨ν, a, b, e1, e2, e3⟩
  · rw [if_neg c1] at hw
    by_cases c2 : |v1| ≤ |x2| ∧ |x3| ≤ |x2|
    · rw [if_pos c2] at hw
      have hx2 : x2 ≠ 0 := by
        intro h0
        have : |v1| ≤ 0 := by simpa [h0] using c2.1
        exact hv (abs_eq_zero.mp (le_antisymm this (abs_nonneg _)))
      obtain ⟨ν, a, b, e1, e2, e3, _⟩ := scaling_spec F hsq hcut x2 v1 x3 hx2 _ _ _ rfl
      subst hw
      exact ⟨ν, a, by rw [b]; ring, e2, e1, e3⟩
    · rw [if_neg c2] at hw
      have hx3 : x3 ≠ 0 := by
        intro h0
        rw [h0, abs_zero] at c1 c2
        have a1 : ¬ |x2| ≤ |v1| := fun h => c1 ⟨h, abs_nonneg _⟩
        have a2 : ¬ |v1| ≤ |x2| := fun h => c2 ⟨h, abs_nonneg _⟩
        exact a1 (le_of_lt (not_le.mp a2))
      obtain ⟨ν, a, b, e1, e2, e3, _⟩ := scaling_spec F hsq hcut x3 v1 x2 hx3 _ _ _ rfl
      subst hw
      exact ⟨ν, a, by rw [b]; ring, e2, e3, e1⟩

/-- `x_norm` of `compute_reflector` is the Euclidean norm, and it is positive, whenever the reflector is not the identity and
    either three rows are used or `x3 = 0` exactly -/
theorem xnorm_spec (hsq : ∀ x : K, 0 ≤ x → F.sqrt x * F.sqrt x = x ∧ 0 ≤ F.sqrt x) (hcut : cutoff F ≤ 0)
    (hmin : 0 < F.minPos) (x1 x2 x3 : K) (hnid : ¬ (|x2| < nz F ∧ |x3| < nz F)) (h3 : |x3| < nz F → x3 = 0) :
    0 < (if |x3| < nz F then hyp F x1 x2 else n3 F x1 x2 x3) ∧
    (if |x3| < nz F then hyp F x1 x2 else n3 F x1 x2 x3) * (if |x3| < nz F then hyp F x1 x2 else n3 F x1 x2 x3)
      = x1 * x1 + x2 * x2 + x3 * x3 := by
  have hz := nz_pos F hmin
  have pos_of : ∀ N t : K, 0 ≤ N → N * N = x1 * x1 + x2 * x2 + x3 * x3 → (t = x2 ∨ t = x3) → 0 < |t| → 0 < N := by
    intro N t hN he ht htp
    have ht0 : t ≠ 0 := abs_pos.mp htp
    have : 0 < t * t := mul_self_pos.mpr ht0
    have hNN : 0 < N * N := by
      rw [he]
      rcases ht with rfl | rfl
      · nlinarith [mul_self_nonneg x1, mul_self_nonneg x3]
      · nlinarith [mul_self_nonneg x1, mul_self_nonneg x2]
    rcases eq_or_lt_of_le hN with h | h
    · rw [← h] at hNN; simp at hNN
    · exact h
  by_cases c : |x3| < nz F
  · simp only [if_pos c]
    have hx3 := h3 c
    obtain ⟨a, b⟩ := hypot_spec F hsq x1 x2
    have hx2 : nz F ≤ |x2| := not_lt.mp (fun h => hnid ⟨h, c⟩)
    have b' : hyp F x1 x2 * hyp F x1 x2 = x1 * x1 + x2 * x2 + x3 * x3 := by rw [b, hx3]; ring
    exact ⟨pos_of _ x2 a b' (Or.inl rfl) (lt_of_lt_of_le hz hx2), b'⟩
  · simp only [if_neg c]
    have hx3 : nz F ≤ |x3| := not_lt.mp c
    obtain ⟨a, b⟩ := norm3_spec F hsq hcut x1 x2 x3
      (le_trans hx3 (le_trans (le_max_right _ _) (le_max_right _ _)))
    exact ⟨pos_of _ x3 a b (Or.inr rfl) (lt_of_lt_of_le hz hx3), b⟩

/-- MAIN (vector form).  Hypotheses: the reflector is not the identity, and `x3` is either `≥ near0` in modulus (3-row case) or
    exactly 0 (2-row case as `update_block` calls it).  Then with `(u0, u1, u2) = reflVec x1 x2 x3` and `N = ‖x‖₂`:
    `u` is a unit vector, `d = 2 uᵀx`, `x - d u = (ρ N, 0, 0)` with `ρ = if x1 ≤ 0 then 1 else -1`. -/
theorem reflVec_spec (hsq : ∀ x : K, 0 ≤ x → F.sqrt x * F.sqrt x = x ∧ 0 ≤ F.sqrt x) (hcut : cutoff F ≤ 0)
    (hmin : 0 < F.minPos) (x1 x2 x3 : K) (hnid : ¬ (|x2| < nz F ∧ |x3| < nz F)) (h3 : |x3| < nz F → x3 = 0)
    (u0 u1 u2 : K) (hu : reflVec F x1 x2 x3 = (u0, u1, u2)) :
    ∃ N : K, 0 < N ∧ N * N = x1 * x1 + x2 * x2 + x3 * x3 ∧
      u0 * u0 + u1 * u1 + u2 * u2 = 1 ∧
      x1 - 2 * (u0 * x1 + u1 * x2 + u2 * x3) * u0 = (if x1 ≤ 0 then 1 else -1) * N ∧
      x2 - 2 * (u0 * x1 + u1 * x2 + u2 * x3) * u1 = 0 ∧
      x3 - 2 * (u0 * x1 + u1 * x2 + u2 * x3) * u2 = 0 ∧
      (x3 = 0 → u2 = 0) := by
  obtain ⟨hN0, hN⟩ := xnorm_spec F hsq hcut hmin x1 x2 x3 hnid h3
  unfold reflVec at hu
  simp only [] at hu
  generalize (if |x3| < nz F then hyp F x1 x2 else n3 F x1 x2 x3) = N at *
  have hρ : (if x1 ≤ 0 then (1 : K) else -1) * (if x1 ≤ 0 then (1 : K) else -1) = 1 := by split <;> ring
  have hv : x1 - (if x1 ≤ 0 then (1 : K) else -1) * N ≠ 0 := by
    split
    · next h => intro e; linarith
    · next h => intro e; have := not_le.mp h; linarith
  generalize (if x1 ≤ 0 then (1 : K) else -1) = ρ at *
  obtain ⟨ν, ν0, νν, e0, e1, e2⟩ := branches_scaled F hsq hcut (x1 - ρ * N) x2 x3 hv _ hu.symm
  simp only [] at e0 e1 e2
  obtain ⟨uu, hd⟩ := householder_core N ρ x1 x2 x3 ν u0 u1 u2 hρ ν0.ne' hN νν e0 e1 e2
  refine ⟨N, hN0, hN, uu, ?_, ?_, ?_, ?_⟩
  · rw [hd]; linear_combination (-1 : K) * e0
  · rw [hd]; linear_combination (-1 : K) * e1
  · rw [hd]; linear_combination (-1 : K) * e2
  · intro h0
    rw [h0] at e2
    rcases mul_eq_zero.mp e2 with h | h
    · exact h
    · exact absurd h ν0.ne'

/-! #### the matrix plumbing: three successive `set`s into column `ind` of a well-formed `3 × n` matrix -/

theorem get_set3 (u : Mat K) (ind : Nat) (hr : u.rows = 3) (hc : ind < u.cols) (hd : u.d.size = 3 * u.cols)
    (a b c : K) :
    mget F (((u.set 0 ind a).set 1 ind b).set 2 ind c) 0 ind = a ∧
    mget F (((u.set 0 ind a).set 1 ind b).set 2 ind c) 1 ind = b ∧
    mget F (((u.set 0 ind a).set 1 ind b).set 2 ind c) 2 ind = c := by
  obtain ⟨r, n, d⟩ := u
  simp only at hr hc hd
  subst hr
  have h0 : ind * 3 < d.size := by omega
  have h1 : 1 + ind * 3 < d.size := by omega
  have h2 : 2 + ind * 3 < d.size := by omega
  have e1 : (0 : Nat) < 3 ∧ ind < n := ⟨by omega, hc⟩
  have e2 : (1 : Nat) < 3 ∧ ind < n := ⟨by omega, hc⟩
  have e3 : (2 : Nat) < 3 ∧ ind < n := ⟨by omega, hc⟩
  unfold mget Mat.get Mat.set
  simp only [e1, e2, e3, and_self, if_true, Array.getD_eq_getD_getElem?, Array.getElem?_setIfInBounds,
    Array.size_setIfInBounds]
  refine ⟨?_, ?_, ?_⟩
  · simp [h0]
  · simp [h1]
  · simp [h2]

/-- 3-row case of `reflVec_spec` (`|x3| ≥ near0`) in the requested form -/
theorem reflVec_unit3 (hsq : ∀ x : K, 0 ≤ x → F.sqrt x * F.sqrt x = x ∧ 0 ≤ F.sqrt x) (hcut : cutoff F ≤ 0)
    (hmin : 0 < F.minPos) (x1 x2 x3 : K) (h3 : ¬ |x3| < nz F)
    (u0 u1 u2 : K) (hu : reflVec F x1 x2 x3 = (u0, u1, u2)) :
    u0 * u0 + u1 * u1 + u2 * u2 = 1 ∧
    x2 - 2 * (u0 * x1 + u1 * x2 + u2 * x3) * u1 = 0 ∧
    x3 - 2 * (u0 * x1 + u1 * x2 + u2 * x3) * u2 = 0 ∧
    (x1 - 2 * (u0 * x1 + u1 * x2 + u2 * x3) * u0) * (x1 - 2 * (u0 * x1 + u1 * x2 + u2 * x3) * u0)
      = x1 * x1 + x2 * x2 + x3 * x3 ∧
    ∃ N : K, 0 < N ∧ N * N = x1 * x1 + x2 * x2 + x3 * x3 ∧
      x1 - 2 * (u0 * x1 + u1 * x2 + u2 * x3) * u0 = (if x1 ≤ 0 then 1 else -1) * N := by
  obtain ⟨N, hN0, hN, uu, a0, a1, a2, _⟩ :=
    reflVec_spec F hsq hcut hmin x1 x2 x3 (fun h => h3 h.2) (fun h => absurd h h3) u0 u1 u2 hu
  refine ⟨uu, a1, a2, ?_, N, hN0, hN, a0⟩
  rw [a0, ← hN]
  split <;> ring

/-- 2-row case with `x3 = 0` exactly (first reflector of a 2×2 block, last reflector of every block) -/
theorem reflVec_unit2 (hsq : ∀ x : K, 0 ≤ x → F.sqrt x * F.sqrt x = x ∧ 0 ≤ F.sqrt x) (hcut : cutoff F ≤ 0)
    (hmin : 0 < F.minPos) (x1 x2 : K) (h2 : ¬ |x2| < nz F)
    (u0 u1 u2 : K) (hu : reflVec F x1 x2 0 = (u0, u1, u2)) :
    u2 = 0 ∧ u0 * u0 + u1 * u1 = 1 ∧
    x2 - 2 * (u0 * x1 + u1 * x2) * u1 = 0 ∧
    (x1 - 2 * (u0 * x1 + u1 * x2) * u0) * (x1 - 2 * (u0 * x1 + u1 * x2) * u0) = x1 * x1 + x2 * x2 ∧
    ∃ N : K, 0 < N ∧ N * N = x1 * x1 + x2 * x2 ∧
      x1 - 2 * (u0 * x1 + u1 * x2) * u0 = (if x1 ≤ 0 then 1 else -1) * N := by
  obtain ⟨N, hN0, hN, uu, a0, a1, a2, a3⟩ :=
    reflVec_spec F hsq hcut hmin x1 x2 0 (fun h => h2 h.1) (fun _ => rfl) u0 u1 u2 hu
  have hu2 := a3 rfl
  subst hu2
  have hN' : N * N = x1 * x1 + x2 * x2 := by rw [hN]; ring
  have e : u0 * x1 + u1 * x2 + 0 * 0 = u0 * x1 + u1 * x2 := by ring
  rw [e] at a0 a1
  refine ⟨rfl, by rw [← uu]; ring, a1, ?_, N, hN0, hN', a0⟩
  rw [a0, ← hN']
  split <;> ring

/-- the row count stored by `compute_reflector` (re-derived here; the same fact is `C08Nr.reflector_nr_eq`) -/
theorem cRef_nr (u : Mat K) (nr : Array Nat) (x1 x2 x3 : K) (ind : Nat) :
    (cRef F u nr x1 x2 x3 ind).2 =
      nr.setIfInBounds ind (if |x2| < nz F ∧ |x3| < nz F then 1 else if |x3| < nz F then 2 else 3) := by
  rw [cRef_eq]
  split <;> rfl

/-- MAIN, 3-row case on the model: after `compute_reflector(x1, x2, x3, ind)` with `|x3| ≥ near0`, column `ind` of `m_ref_u`
    holds a unit vector `u`, `m_ref_nr[ind] = 3`, and `(I - 2uuᵀ)(x1, x2, x3)ᵀ = (ρ‖x‖, 0, 0)ᵀ` -/
theorem reflector_unit (hsq : ∀ x : K, 0 ≤ x → F.sqrt x * F.sqrt x = x ∧ 0 ≤ F.sqrt x) (hcut : cutoff F ≤ 0)
    (hmin : 0 < F.minPos) (u : Mat K) (nr : Array Nat) (x1 x2 x3 : K) (ind : Nat)
    (hind : ind < nr.size) (hr : u.rows = 3) (hc : ind < u.cols) (hd : u.d.size = 3 * u.cols)
    (h3 : ¬ |x3| < nz F) (u0 u1 u2 : K)
    (h0 : u0 = mget F (cRef F u nr x1 x2 x3 ind).1 0 ind) (h1 : u1 = mget F (cRef F u nr x1 x2 x3 ind).1 1 ind)
    (h2 : u2 = mget F (cRef F u nr x1 x2 x3 ind).1 2 ind) :
    (cRef F u nr x1 x2 x3 ind).2.getD ind 0 = 3 ∧
    u0 * u0 + u1 * u1 + u2 * u2 = 1 ∧
    x2 - 2 * (u0 * x1 + u1 * x2 + u2 * x3) * u1 = 0 ∧
    x3 - 2 * (u0 * x1 + u1 * x2 + u2 * x3) * u2 = 0 ∧
    (x1 - 2 * (u0 * x1 + u1 * x2 + u2 * x3) * u0) * (x1 - 2 * (u0 * x1 + u1 * x2 + u2 * x3) * u0)
      = x1 * x1 + x2 * x2 + x3 * x3 ∧
    ∃ N : K, 0 < N ∧ N * N = x1 * x1 + x2 * x2 + x3 * x3 ∧
      x1 - 2 * (u0 * x1 + u1 * x2 + u2 * x3) * u0 = (if x1 ≤ 0 then 1 else -1) * N := by
  have hnid : ¬ (|x2| < nz F ∧ |x3| < nz F) := fun h => h3 h.2
  constructor
  · rw [cRef_nr, if_neg hnid, if_neg h3]
    simp [hind]
  · rw [cRef_eq, if_neg hnid] at h0 h1 h2
    obtain ⟨g0, g1, g2⟩ := get_set3 F u ind hr hc hd (reflVec F x1 x2 x3).1 (reflVec F x1 x2 x3).2.1
      (reflVec F x1 x2 x3).2.2
    simp only [] at h0 h1 h2
    rw [g0] at h0
    rw [g1] at h1
    rw [g2] at h2
    exact reflVec_unit3 F hsq hcut hmin x1 x2 x3 h3 u0 u1 u2 (by rw [h0, h1, h2])

/-- MAIN, 2-row case on the model with `x3 = 0` exactly and `|x2| ≥ near0`: `m_ref_nr[ind] = 2`, the third stored entry is 0,
    `(u0, u1)` is a unit vector and `(I - 2uuᵀ)(x1, x2)ᵀ = (ρ‖x‖, 0)ᵀ` -/
theorem reflector_unit2 (hsq : ∀ x : K, 0 ≤ x → F.sqrt x * F.sqrt x = x ∧ 0 ≤ F.sqrt x) (hcut : cutoff F ≤ 0)
    (hmin : 0 < F.minPos) (u : Mat K) (nr : Array Nat) (x1 x2 : K) (ind : Nat)
    (hind : ind < nr.size) (hr : u.rows = 3) (hc : ind < u.cols) (hd : u.d.size = 3 * u.cols)
    (hx2 : ¬ |x2| < nz F) (u0 u1 u2 : K)
    (h0 : u0 = mget F (cRef F u nr x1 x2 0 ind).1 0 ind) (h1 : u1 = mget F (cRef F u nr x1 x2 0 ind).1 1 ind)
    (h2 : u2 = mget F (cRef F u nr x1 x2 0 ind).1 2 ind) :
    (cRef F u nr x1 x2 0 ind).2.getD ind 0 = 2 ∧
    u2 = 0 ∧ u0 * u0 + u1 * u1 = 1 ∧
    x2 - 2 * (u0 * x1 + u1 * x2) * u1 = 0 ∧
    (x1 - 2 * (u0 * x1 + u1 * x2) * u0) * (x1 - 2 * (u0 * x1 + u1 * x2) * u0) = x1 * x1 + x2 * x2 ∧
    ∃ N : K, 0 < N ∧ N * N = x1 * x1 + x2 * x2 ∧
      x1 - 2 * (u0 * x1 + u1 * x2) * u0 = (if x1 ≤ 0 then 1 else -1) * N := by
  have hnid : ¬ (|x2| < nz F ∧ |(0 : K)| < nz F) := fun h => hx2 h.1
  have hz : |(0 : K)| < nz F := by rw [abs_zero]; exact nz_pos F hmin
  constructor
  · rw [cRef_nr, if_neg hnid, if_pos hz]
    simp [hind]
  · rw [cRef_eq, if_neg hnid] at h0 h1 h2
    obtain ⟨g0, g1, g2⟩ := get_set3 F u ind hr hc hd (reflVec F x1 x2 0).1 (reflVec F x1 x2 0).2.1
      (reflVec F x1 x2 0).2.2
    simp only [] at h0 h1 h2
    rw [g0] at h0
    rw [g1] at h1
    rw [g2] at h2
    exact reflVec_unit2 F hsq hcut hmin x1 x2 hx2 u0 u1 u2 (by rw [h0, h1, h2])

/-- the literal `Scalar(0)` that `update_block` passes as `x3` is `0` -/
theorem zero_eq : @Lin.zero K (scOfField F) = 0 := by
  show ((0 : Int) : K) = 0
  simp

/-! ### 5. ring identities of `P = I - 2uuᵀ` (any commutative ring, any `u`) -/

section ring
variable {R : Type} [CommRing R]

/-- `P x` for triples -/
def refl3 (u0 u1 u2 x0 x1 x2 : R) : R × R × R :=
  (x0 - 2 * (u0 * x0 + u1 * x1 + u2 * x2) * u0, x1 - 2 * (u0 * x0 + u1 * x1 + u2 * x2) * u1,
   x2 - 2 * (u0 * x0 + u1 * x1 + u2 * x2) * u2)

/-- `P x` for pairs -/
def refl2 (u0 u1 x0 x1 : R) : R × R :=
  (x0 - 2 * (u0 * x0 + u1 * x1) * u0, x1 - 2 * (u0 * x0 + u1 * x1) * u1)

theorem reflector_involution (u0 u1 u2 x0 x1 x2 : R) (hu : u0 * u0 + u1 * u1 + u2 * u2 = 1) :
    refl3 u0 u1 u2 (refl3 u0 u1 u2 x0 x1 x2).1 (refl3 u0 u1 u2 x0 x1 x2).2.1 (refl3 u0 u1 u2 x0 x1 x2).2.2
      = (x0, x1, x2) := by
  simp only [refl3, Prod.mk.injEq]
  refine ⟨?_, ?_, ?_⟩
  · linear_combination (4 * u0 * (u0 * x0 + u1 * x1 + u2 * x2)) * hu
  · linear_combination (4 * u1 * (u0 * x0 + u1 * x1 + u2 * x2)) * hu
  · linear_combination (4 * u2 * (u0 * x0 + u1 * x1 + u2 * x2)) * hu

theorem reflector_isometry (u0 u1 u2 x0 x1 x2 y0 y1 y2 : R) (hu : u0 * u0 + u1 * u1 + u2 * u2 = 1) :
    (refl3 u0 u1 u2 x0 x1 x2).1 * (refl3 u0 u1 u2 y0 y1 y2).1 +
    (refl3 u0 u1 u2 x0 x1 x2).2.1 * (refl3 u0 u1 u2 y0 y1 y2).2.1 +
    (refl3 u0 u1 u2 x0 x1 x2).2.2 * (refl3 u0 u1 u2 y0 y1 y2).2.2 = x0 * y0 + x1 * y1 + x2 * y2 := by
  simp only [refl3]
  linear_combination (4 * (u0 * x0 + u1 * x1 + u2 * x2) * (u0 * y0 + u1 * y1 + u2 * y2)) * hu

theorem reflector_involution2 (u0 u1 x0 x1 : R) (hu : u0 * u0 + u1 * u1 = 1) :
    refl2 u0 u1 (refl2 u0 u1 x0 x1).1 (refl2 u0 u1 x0 x1).2 = (x0, x1) := by
  simp only [refl2, Prod.mk.injEq]
  refine ⟨?_, ?_⟩
  · linear_combination (4 * u0 * (u0 * x0 + u1 * x1)) * hu
  · linear_combination (4 * u1 * (u0 * x0 + u1 * x1)) * hu

theorem reflector_isometry2 (u0 u1 x0 x1 y0 y1 : R) (hu : u0 * u0 + u1 * u1 = 1) :
    (refl2 u0 u1 x0 x1).1 * (refl2 u0 u1 y0 y1).1 + (refl2 u0 u1 x0 x1).2 * (refl2 u0 u1 y0 y1).2
      = x0 * y0 + x1 * y1 := by
  simp only [refl2]
  linear_combination (4 * (u0 * x0 + u1 * x1) * (u0 * y0 + u1 * y1)) * hu

/-- the two ways the class evaluates `P x` agree with `refl3`: `tmp = 2u0·x0 + 2u1·x1 + 2u2·x2` (matrix loops of `apply_PX` /
    `apply_XP`) and `dot2 = 2 (x0·u0 + x1·u1 + x2·u2)` (`apply_PX` on a vector) -/
theorem reflector_apply_forms (u0 u1 u2 x0 x1 x2 : R) :
    (x0 - (2 * u0 * x0 + 2 * u1 * x1 + 2 * u2 * x2) * u0, x1 - (2 * u0 * x0 + 2 * u1 * x1 + 2 * u2 * x2) * u1,
      x2 - (2 * u0 * x0 + 2 * u1 * x1 + 2 * u2 * x2) * u2) = refl3 u0 u1 u2 x0 x1 x2 ∧
    (x0 - 2 * (x0 * u0 + x1 * u1 + x2 * u2) * u0, x1 - 2 * (x0 * u0 + x1 * u1 + x2 * u2) * u1,
      x2 - 2 * (x0 * u0 + x1 * u1 + x2 * u2) * u2) = refl3 u0 u1 u2 x0 x1 x2 := by
  simp only [refl3, Prod.mk.injEq]
  refine ⟨⟨?_, ?_, ?_⟩, ⟨?_, ?_, ?_⟩⟩ <;> ring

theorem reflector_apply_forms2 (u0 u1 x0 x1 : R) :
    (x0 - (2 * u0 * x0 + 2 * u1 * x1) * u0, x1 - (2 * u0 * x0 + 2 * u1 * x1) * u1) = refl2 u0 u1 x0 x1 ∧
    (x0 - 2 * (x0 * u0 + x1 * u1 + 0) * u0, x1 - 2 * (x0 * u0 + x1 * u1 + 0) * u1) = refl2 u0 u1 x0 x1 := by
  simp only [refl2, Prod.mk.injEq]
  refine ⟨⟨?_, ?_⟩, ⟨?_, ?_⟩⟩ <;> ring

/-- with a third component `u2 = 0` the 3-row reflector acts as the 2-row one on the first two rows and fixes the third -/
theorem refl3_u2_zero (u0 u1 x0 x1 x2 : R) :
    refl3 u0 u1 0 x0 x1 x2 = ((refl2 u0 u1 x0 x1).1, (refl2 u0 u1 x0 x1).2, x2) := by
  simp only [refl3, refl2, Prod.mk.injEq]
  refine ⟨?_, ?_, ?_⟩ <;> ring

end ring

/-! ### 6. the series branch of `stable_scaling` -/

/-- series branch (`|r2| < cutoff` and `|r3| < cutoff`), `x1 ≠ 0`, `ρ = r2² + r3²` with `r2 = x2/|x1|`, `r3 = x3/|x1|`:
    the output is `(sign x1, r2, r3) · (1 - ρ/2 + 3ρ²/8)`, exactly parallel to `x`, and its squared length exceeds 1 by
    `5/8 ρ³ - 15/64 ρ⁴ + 9/64 ρ⁵ ∈ [0, 23/32 ρ³]` for `ρ ≤ 2` (guaranteed by the caller's `|x1| ≥ |x2|, |x3|`), `≤ 5/8 ρ³` for `ρ ≤ 1` -/
theorem scaling_series (x1 x2 x3 : K) (h1 : x1 ≠ 0)
    (hser : ¬ (cutoff F ≤ abs (x2 / |x1|) ∨ cutoff F ≤ abs (x3 / |x1|)))
    (y1 y2 y3 : K) (h : sc3 F x1 x2 x3 = (y1, y2, y3)) (ρ : K)
    (hρ : ρ = x2 / |x1| * (x2 / |x1|) + x3 / |x1| * (x3 / |x1|)) :
    y1 = C08Givens.sg x1 * (1 - ρ / 2 + 3 / 8 * ρ ^ 2) ∧ y2 = x2 / |x1| * (1 - ρ / 2 + 3 / 8 * ρ ^ 2) ∧
    y3 = x3 / |x1| * (1 - ρ / 2 + 3 / 8 * ρ ^ 2) ∧
    y1 * y1 + y2 * y2 + y3 * y3 - 1 = 5 / 8 * ρ ^ 3 - 15 / 64 * ρ ^ 4 + 9 / 64 * ρ ^ 5 ∧
    (ρ ≤ 2 → 0 ≤ y1 * y1 + y2 * y2 + y3 * y3 - 1 ∧ y1 * y1 + y2 * y2 + y3 * y3 - 1 ≤ 23 / 32 * ρ ^ 3) ∧
    (ρ ≤ 1 → y1 * y1 + y2 * y2 + y3 * y3 - 1 ≤ 5 / 8 * ρ ^ 3) := by
  rw [sc3_eq] at h
  have hfac : scFac F (x2 / |x1|) (x3 / |x1|) = 1 - ρ / 2 + 3 / 8 * ρ ^ 2 := by
    unfold scFac
    rw [if_neg hser, ← hρ]; ring
  rw [hfac] at h
  simp only [Prod.mk.injEq] at h
  obtain ⟨rfl, rfl, rfl⟩ := h
  have hs := C08Givens.sg_mul_self x1
  have hρ0 : 0 ≤ ρ := by rw [hρ]; nlinarith [mul_self_nonneg (x2 / |x1|), mul_self_nonneg (x3 / |x1|)]
  generalize x2 / |x1| = s at *
  generalize x3 / |x1| = t at *
  have e : C08Givens.sg x1 * (1 - ρ / 2 + 3 / 8 * ρ ^ 2) * (C08Givens.sg x1 * (1 - ρ / 2 + 3 / 8 * ρ ^ 2)) +
      s * (1 - ρ / 2 + 3 / 8 * ρ ^ 2) * (s * (1 - ρ / 2 + 3 / 8 * ρ ^ 2)) +
      t * (1 - ρ / 2 + 3 / 8 * ρ ^ 2) * (t * (1 - ρ / 2 + 3 / 8 * ρ ^ 2)) - 1
      = 5 / 8 * ρ ^ 3 - 15 / 64 * ρ ^ 4 + 9 / 64 * ρ ^ 5 := by
    linear_combination ((1 - ρ / 2 + 3 / 8 * ρ ^ 2) ^ 2) * hs - ((1 - ρ / 2 + 3 / 8 * ρ ^ 2) ^ 2) * hρ
  refine ⟨rfl, rfl, rfl, e, ?_, ?_⟩
  · intro h2
    rw [e]
    have h3 : 0 ≤ ρ ^ 3 := by positivity
    have f : 5 / 8 * ρ ^ 3 - 15 / 64 * ρ ^ 4 + 9 / 64 * ρ ^ 5 = ρ ^ 3 * (5 / 8 - 15 / 64 * ρ + 9 / 64 * ρ ^ 2) := by ring
    have g : 23 / 32 * ρ ^ 3 = ρ ^ 3 * (23 / 32) := by ring
    rw [f, g]
    constructor
    · apply mul_nonneg h3
      nlinarith [sq_nonneg (ρ - 5 / 6)]
    · apply mul_le_mul_of_nonneg_left _ h3
      nlinarith
  · intro h1'
    rw [e]
    have h3 : 0 ≤ ρ ^ 3 := by positivity
    have f : 5 / 8 * ρ ^ 3 - 15 / 64 * ρ ^ 4 + 9 / 64 * ρ ^ 5 = ρ ^ 3 * (5 / 8 - 15 / 64 * ρ + 9 / 64 * ρ ^ 2) := by ring
    have g : 5 / 8 * ρ ^ 3 = ρ ^ 3 * (5 / 8) := by ring
    rw [f, g]
    apply mul_le_mul_of_nonneg_left _ h3
    nlinarith

/-! ### the local names are the generated / model definitions at the exact-arithmetic instance -/

theorem n3_def (x1 x2 x3 : K) : n3 F x1 x2 x3 = @Gen.Refl.stable_norm3 K _ _ _ _ _ (scOfField F) x1 x2 x3 := rfl
theorem sc3_def (x1 x2 x3 : K) : sc3 F x1 x2 x3 = @Gen.Refl.stable_scaling K _ _ _ _ _ (scOfField F) x1 x2 x3 := rfl
theorem hyp_def (x y : K) : hyp F x y = @eigenHypot K _ _ _ (scOfField F) x y := rfl
theorem cRef_def (u : Mat K) (nr : Array Nat) (x1 x2 x3 : K) (ind : Nat) :
    cRef F u nr x1 x2 x3 ind = @computeReflector K _ _ _ _ _ (scOfField F) u nr x1 x2 x3 ind := rfl
theorem cutoff_def :
    cutoff F = @Sc.lit K (scOfField F) 1 (-1) * @Sc.pow K (scOfField F) (@Sc.eps K (scOfField F))
      (@Sc.lit K (scOfField F) 25 (-2)) := rfl

/-- `norm3_spec` stated directly on `Gen.Refl.stable_norm3` and `QRModel.near0` -/
theorem norm3_spec_gen (hsq : ∀ x : K, 0 ≤ x → F.sqrt x * F.sqrt x = x ∧ 0 ≤ F.sqrt x) (hcut : cutoff F ≤ 0)
    (x1 x2 x3 : K) (hbig : @near0 K _ (scOfField F) ≤ max |x1| (max |x2| |x3|)) :
    0 ≤ @Gen.Refl.stable_norm3 K _ _ _ _ _ (scOfField F) x1 x2 x3 ∧
    @Gen.Refl.stable_norm3 K _ _ _ _ _ (scOfField F) x1 x2 x3 * @Gen.Refl.stable_norm3 K _ _ _ _ _ (scOfField F) x1 x2 x3
      = x1 * x1 + x2 * x2 + x3 * x3 :=
  norm3_spec F hsq hcut x1 x2 x3 (by rw [← nz_eq]; exact hbig)

/-- `scaling_spec` stated directly on `Gen.Refl.stable_scaling` -/
theorem scaling_spec_gen (hsq : ∀ x : K, 0 ≤ x → F.sqrt x * F.sqrt x = x ∧ 0 ≤ F.sqrt x) (hcut : cutoff F ≤ 0)
    (x1 x2 x3 : K) (h1 : x1 ≠ 0) :
    ∃ ν : K, 0 < ν ∧ ν * ν = x1 * x1 + x2 * x2 + x3 * x3 ∧
      (@Gen.Refl.stable_scaling K _ _ _ _ _ (scOfField F) x1 x2 x3).1 * ν = x1 ∧
      (@Gen.Refl.stable_scaling K _ _ _ _ _ (scOfField F) x1 x2 x3).2.1 * ν = x2 ∧
      (@Gen.Refl.stable_scaling K _ _ _ _ _ (scOfField F) x1 x2 x3).2.2 * ν = x3 ∧
      (@Gen.Refl.stable_scaling K _ _ _ _ _ (scOfField F) x1 x2 x3).1 *
        (@Gen.Refl.stable_scaling K _ _ _ _ _ (scOfField F) x1 x2 x3).1 +
      (@Gen.Refl.stable_scaling K _ _ _ _ _ (scOfField F) x1 x2 x3).2.1 *
        (@Gen.Refl.stable_scaling K _ _ _ _ _ (scOfField F) x1 x2 x3).2.1 +
      (@Gen.Refl.stable_scaling K _ _ _ _ _ (scOfField F) x1 x2 x3).2.2 *
        (@Gen.Refl.stable_scaling K _ _ _ _ _ (scOfField F) x1 x2 x3).2.2 = 1 :=
  scaling_spec F hsq hcut x1 x2 x3 h1 _ _ _ rfl

end C08Refl
