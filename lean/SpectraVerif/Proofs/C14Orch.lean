/-
  C14: lifting the kernel-level fault theorems to `Orch.init` / `Orch.compute`.

  Part A (generic, all kernels): let `KF` differ from `K` only in the three kernels that apply the operator, such that every call
  of such a kernel either AGREES with the fault-free kernel or reports the exception `e`, and such that the faulted kernels keep
  the invariant "operation counter of the factorization object = `m_nmatop` < k" (they never complete a k-th application).
  Then for every fault index `k` up to the number of applications of the fault-free `init(v); compute(args)`, the faulted
  `init`/`compute` ends with exactly `e`.
  Part B: `FaultOp.hermKernF op (faultAt op.A k e)` satisfies these hypotheses w.r.t. `HermSolver.hermKern op`
  (from `runF_faultAt_hit/_miss` and the counter lemmas), and `hermKernF op (never op.A)` IS `hermKern op`.
-/
import SpectraVerif.Proofs.C14Kernel
import SpectraVerif.Proofs.OrchNonint

set_option linter.unusedSectionVars false

namespace Orch
variable {φ ρ ε κ β τ ω : Type}

/-- `K` with the three operator-applying kernels replaced -/
def withFac (K : Kern φ ρ ε κ β τ ω) (fi : β → φ → FacRes φ) (fz : Nat → Nat → φ → FacRes φ)
    (rf : Nat → List ρ → φ → FacRes φ) : Kern φ ρ ε κ β τ ω :=
  { K with facInit := fi, factorize := fz, restartFac := rf }

/-- the replaced kernels agree with the fault-free ones or report `e`; they keep "`cnt fac = nmatop < k`" -/
structure FaultedBy (K : Kern φ ρ ε κ β τ ω) (fi : β → φ → FacRes φ) (fz : Nat → Nat → φ → FacRes φ)
    (rf : Nat → List ρ → φ → FacRes φ) (cnt : φ → Nat) (k : Nat) (e : Exn) : Prop where
  agree_init : ∀ v a, fi v a = K.facInit v a ∨ (fi v a).exn = some e
  agree_fac : ∀ i m a, fz i m a = K.factorize i m a ∨ (fz i m a).exn = some e
  agree_restart : ∀ j vals a, rf j vals a = K.restartFac j vals a ∨ (rf j vals a).exn = some e
  inv_init : ∀ v a, (fi v a).exn = none → cnt (fi v a).fac = (fi v a).ops ∧ (fi v a).ops < k
  inv_fac : ∀ i m a, cnt a < k → cnt (fz i m a).fac = cnt a + (fz i m a).ops ∧ cnt (fz i m a).fac < k
  inv_restart : ∀ j vals a, cnt a < k → cnt (rf j vals a).fac = cnt a + (rf j vals a).ops ∧ cnt (rf j vals a).fac < k

section
variable (K : Kern φ ρ ε κ β τ ω) (c : Cfg) (fi : β → φ → FacRes φ) (fz : Nat → Nat → φ → FacRes φ)
  (rf : Nat → List ρ → φ → FacRes φ)

theorem retrieve_withFac (sel : Int) (s : St φ ρ ε κ) : retrieve (withFac K fi fz rf) c sel s = retrieve K c sel s := rfl
theorem convFlags_withFac (tol : τ) (s : St φ ρ ε κ) : convFlags (withFac K fi fz rf) c tol s = convFlags K c tol s := rfl
theorem sortRitz_withFac (rule : Int) (s : St φ ρ ε κ) : sortRitz (withFac K fi fz rf) c rule s = sortRitz K c rule s := rfl
theorem refresh_withFac (tol : τ) (maxit : Nat) (L : LoopRes φ ρ ε κ) :
    refresh (withFac K fi fz rf) c tol maxit L = refresh K c tol maxit L := rfl

variable {cnt : φ → Nat} {k : Nat} {e : Exn} (hF : FaultedBy K fi fz rf cnt k e)
include hF

/-! ### agree or fault -/

theorem restart_agree (j : Nat) (sel : Int) (s : St φ ρ ε κ) :
    restart (withFac K fi fz rf) c j sel s = restart K c j sel s ∨ (restart (withFac K fi fz rf) c j sel s).2 = some e := by
  unfold restart
  split
  · exact Or.inl rfl
  · have hrf : (withFac K fi fz rf).restartFac = rf := rfl
    rw [hrf]
    dsimp only
    rcases hF.agree_restart j s.ritzVal s.fac with h | h
    · left; rw [h]; rfl
    · right; rw [h]

theorem loop_agree (sel : Int) (tol : τ) (rem i nconv nres : Nat) (s : St φ ρ ε κ) :
    loop (withFac K fi fz rf) c sel tol rem i nconv nres s = loop K c sel tol rem i nconv nres s ∨
    (loop (withFac K fi fz rf) c sel tol rem i nconv nres s).exn = some e := by
  induction rem generalizing i nconv nres s with
  | zero => exact Or.inl rfl
  | succ rem ih =>
    unfold loop
    dsimp only
    rw [convFlags_withFac]
    split
    · exact Or.inl rfl
    · have hn : (withFac K fi fz rf).nevAdj = K.nevAdj := rfl
      rw [hn]
      rcases restart_agree K c fi fz rf hF
        (K.nevAdj c (countTrue (convFlags K c tol s)) s.ritzVal s.ritzEst) sel { s with ritzConv := convFlags K c tol s } with h | h
      · rw [h]
        split
        · exact Or.inl rfl
        · exact ih _ _ _ _
      · right
        revert h
        generalize restart (withFac K fi fz rf) c _ sel { s with ritzConv := convFlags K c tol s } = p
        intro h
        obtain ⟨s2, x⟩ := p
        dsimp only at h
        subst h
        rfl

theorem compute_agree (sel : Int) (maxit : Nat) (tol : τ) (sorting : Int) (s : St φ ρ ε κ) :
    compute (withFac K fi fz rf) c sel maxit tol sorting s = compute K c sel maxit tol sorting s ∨
    (compute (withFac K fi fz rf) c sel maxit tol sorting s).out = .error e := by
  unfold compute
  dsimp only
  have hd : (withFac K fi fz rf).facDim = K.facDim := rfl
  rw [hd]
  rcases hF.agree_fac (max 1 (K.facDim s.fac)) c.ncv s.fac with h | h
  · have h' : (withFac K fi fz rf).factorize (max 1 (K.facDim s.fac)) c.ncv s.fac = K.factorize (max 1 (K.facDim s.fac)) c.ncv s.fac := h
    rw [h']
    split
    · exact Or.inl rfl
    · rw [retrieve_withFac]
      split
      · exact Or.inl rfl
      · rename_i s2 hr
        rcases loop_agree K c fi fz rf hF sel tol maxit 0 0 0 s2 with hl | hl
        · rw [hl]
          exact Or.inl rfl
        · right
          rw [hl]
  · right
    have h' : ((withFac K fi fz rf).factorize (max 1 (K.facDim s.fac)) c.ncv s.fac).exn = some e := h
    rw [h']

/-! ### the faulted kernels never complete a k-th application -/

theorem restart_inv (j : Nat) (sel : Int) (s : St φ ρ ε κ) (hI : cnt s.fac = s.nmatop ∧ s.nmatop < k) :
    cnt (restart (withFac K fi fz rf) c j sel s).1.fac = (restart (withFac K fi fz rf) c j sel s).1.nmatop ∧
    (restart (withFac K fi fz rf) c j sel s).1.nmatop < k := by
  unfold restart
  split
  · exact hI
  · have h := hF.inv_restart j s.ritzVal s.fac (by omega)
    have hrf : (withFac K fi fz rf).restartFac = rf := rfl
    rw [hrf]
    dsimp only
    split
    · dsimp only; omega
    · have hr := retrieve_frame (withFac K fi fz rf) c sel
        { s with fac := (rf j s.ritzVal s.fac).fac, nmatop := s.nmatop + (rf j s.ritzVal s.fac).ops }
      obtain ⟨_, _, _, h4, h5⟩ := hr
      rw [h4, h5]
      dsimp only; omega

theorem loop_inv (sel : Int) (tol : τ) (rem i nconv nres : Nat) (s : St φ ρ ε κ) (hI : cnt s.fac = s.nmatop ∧ s.nmatop < k) :
    cnt (loop (withFac K fi fz rf) c sel tol rem i nconv nres s).st.fac = (loop (withFac K fi fz rf) c sel tol rem i nconv nres s).st.nmatop ∧
    (loop (withFac K fi fz rf) c sel tol rem i nconv nres s).st.nmatop < k := by
  induction rem generalizing i nconv nres s with
  | zero => exact hI
  | succ rem ih =>
    unfold loop
    dsimp only
    split
    · exact hI
    · have hr := restart_inv K c fi fz rf hF
        ((withFac K fi fz rf).nevAdj c (countTrue (convFlags (withFac K fi fz rf) c tol s)) s.ritzVal s.ritzEst) sel
        { s with ritzConv := convFlags (withFac K fi fz rf) c tol s } hI
      revert hr
      generalize restart (withFac K fi fz rf) c _ sel { s with ritzConv := convFlags (withFac K fi fz rf) c tol s } = p
      intro hr
      obtain ⟨s2, x⟩ := p
      cases x with
      | some x => exact hr
      | none => exact ih _ _ _ s2 hr

theorem compute_inv (sel : Int) (maxit : Nat) (tol : τ) (sorting : Int) (s : St φ ρ ε κ)
    (hI : cnt s.fac = s.nmatop ∧ s.nmatop < k) :
    (compute (withFac K fi fz rf) c sel maxit tol sorting s).st.nmatop < k := by
  unfold compute
  dsimp only
  have h := hF.inv_fac (max 1 ((withFac K fi fz rf).facDim s.fac)) c.ncv s.fac (by omega)
  have h' : (withFac K fi fz rf).factorize = fz := rfl
  rw [h']
  split
  · dsimp only; omega
  · have hr := retrieve_frame (withFac K fi fz rf) c sel
      { s with fac := (fz (max 1 ((withFac K fi fz rf).facDim s.fac)) c.ncv s.fac).fac,
               nmatop := s.nmatop + (fz (max 1 ((withFac K fi fz rf).facDim s.fac)) c.ncv s.fac).ops }
    obtain ⟨_, _, _, h4, h5⟩ := hr
    split
    · rename_i s2 x hq
      rw [hq] at h4; dsimp only at h4 ⊢; omega
    · rename_i s2 hq
      rw [hq] at h4 h5
      dsimp only at h4 h5
      have hl := loop_inv K c fi fz rf hF sel tol maxit 0 0 0 s2 (by rw [h4, h5]; omega)
      split
      · exact hl.2
      · have hrf : (refresh (withFac K fi fz rf) c tol maxit (loop (withFac K fi fz rf) c sel tol maxit 0 0 0 s2)).1.nmatop =
            (loop (withFac K fi fz rf) c sel tol maxit 0 0 0 s2).st.nmatop := by
          unfold refresh; split <;> rfl
        have hs := sortRitz_frame (withFac K fi fz rf) c sorting
          (refresh (withFac K fi fz rf) c tol maxit (loop (withFac K fi fz rf) c sel tol maxit 0 0 0 s2)).1
        split
        · rename_i s4 x hq2
          rw [hq2] at hs; dsimp only at hs ⊢; rw [hs.2.2.1, hrf]; exact hl.2
        · rename_i s4 hq2
          rw [hq2] at hs; dsimp only at hs ⊢; rw [hs.2.2.1, hrf]; exact hl.2

/-- **propagation, all fault positions**: if the fault-free `init(v)` succeeds and the fault index is at most the number of
    operator applications the fault-free `init(v); compute(args)` makes (`num_operations()` afterwards), then the faulted
    `init` ends with `e`, or it returns normally and the faulted `compute` ends with `e` -/
theorem init_compute_faulted (v0 : β) (sel : Int) (maxit : Nat) (tol : τ) (sorting : Int) (s : St φ ρ ε κ)
    (hinit : (init K c v0 s).2 = none)
    (hk : k ≤ (compute K c sel maxit tol sorting (init K c v0 s).1).st.nmatop) :
    (init (withFac K fi fz rf) c v0 s).2 = some e ∨
    ((init (withFac K fi fz rf) c v0 s).2 = none ∧
      (compute (withFac K fi fz rf) c sel maxit tol sorting (init (withFac K fi fz rf) c v0 s).1).out = .error e) := by
  rcases hF.agree_init v0 s.fac with h | h
  · right
    have hi : init (withFac K fi fz rf) c v0 s = init K c v0 s := by
      unfold init
      have : (withFac K fi fz rf).facInit v0 s.fac = K.facInit v0 s.fac := h
      rw [this]; rfl
    rw [hi]
    refine ⟨hinit, ?_⟩
    have hx : (fi v0 s.fac).exn = none := by rw [h]; exact hinit
    have hI := hF.inv_init v0 s.fac hx
    rw [h] at hI
    have hI' : cnt (init K c v0 s).1.fac = (init K c v0 s).1.nmatop ∧ (init K c v0 s).1.nmatop < k := by
      unfold init; dsimp only; omega
    rcases compute_agree K c fi fz rf hF sel maxit tol sorting (init K c v0 s).1 with ha | ha
    · have := compute_inv K c fi fz rf hF sel maxit tol sorting (init K c v0 s).1 hI'
      rw [ha] at this
      omega
    · exact ha
  · left
    exact h

end
end Orch

namespace FaultOp
open Lin Arnoldi Orch Prog

section
variable {α : Type} [Add α] [Sub α] [Mul α] [Div α] [Neg α] [Sc α]

theorem facRes_never (A : Vec α → Vec α) (P : Prog α (Option (State α))) (s sOld : State α) (msg : String) (c : Nat) :
    facRes s sOld msg (P.runF (never A) c) =
      (match evalT A P with
       | some s' => ⟨s', s'.ops - s.ops, none⟩
       | none => ⟨sOld, 0, some (.invalidArgument msg)⟩) := by
  rw [runF_never]
  unfold facRes
  dsimp only
  cases evalT A P <;> rfl

/-- a kernel call with the operator whose `k`-th application fails -/
theorem facRes_fault (A : Vec α → Vec α) (k : Nat) (e : Exn) (P : Prog α (Option (State α))) (s sOld : State α) (msg : String)
    (hsome : ∀ s', evalT A P = some s' → s'.ops = s.ops + count A P) (_hnone : evalT A P = none → count A P = 0) :
    (facRes s sOld msg (P.runF (faultAt A k e) s.ops) = facRes s sOld msg (P.runF (never A) s.ops) ∨
      (facRes s sOld msg (P.runF (faultAt A k e) s.ops)).exn = some e) ∧
    (s.ops < k → ((facRes s sOld msg (P.runF (faultAt A k e) s.ops)).exn = none ∨ sOld.ops = s.ops) →
      (facRes s sOld msg (P.runF (faultAt A k e) s.ops)).fac.ops = s.ops + (facRes s sOld msg (P.runF (faultAt A k e) s.ops)).ops ∧
      (facRes s sOld msg (P.runF (faultAt A k e) s.ops)).fac.ops < k) ∧
    (s.ops < k → k ≤ s.ops + count A P →
      facRes s sOld msg (P.runF (faultAt A k e) s.ops) = ⟨{ s with ops := k - 1 }, k - 1 - s.ops, some e⟩) := by
  by_cases hit : s.ops < k ∧ k ≤ s.ops + count A P
  · have hr := runF_faultAt_hit A k e P s.ops hit.1 hit.2
    rw [hr]
    have hv : facRes s sOld msg ⟨.error e, k - 1, (log A P).take (k - s.ops)⟩ = ⟨{ s with ops := k - 1 }, k - 1 - s.ops, some e⟩ := rfl
    rw [hv]
    refine ⟨Or.inr rfl, fun h1 _ => ?_, fun _ _ => rfl⟩
    dsimp only; omega
  · have hr := runF_faultAt_miss A k e P s.ops (by omega)
    rw [hr]
    refine ⟨Or.inl rfl, fun h1 hx => ?_, fun h1 h2 => absurd ⟨h1, h2⟩ hit⟩
    rw [facRes_never] at hx ⊢
    cases hev : evalT A P with
    | none =>
      rw [hev] at hx
      dsimp only at hx ⊢
      rcases hx with hx | hx
      · cases hx
      · omega
    | some s' =>
      have := hsome s' hev
      dsimp only
      omega

variable (op : Op α) (c : Cfg) (eps23 : α) (back : α → α)

theorem hermKernF_eq (opF : Nat → Vec α → Except Exn (Vec α)) :
    hermKernF op opF c eps23 back = withFac (HermSolver.hermKern op c eps23 back)
      (hermKernF op opF c eps23 back).facInit (hermKernF op opF c eps23 back).factorize
      (hermKernF op opF c eps23 back).restartFac := rfl

/-- with an operator that never fails the fault-aware solver kernels ARE the kernels of `HermSolver.hermKern`
    (so the bit-exact correspondence of C05/C07 carries over) -/
theorem hermKernF_never : hermKernF op (never op.A) c eps23 back = HermSolver.hermKern op c eps23 back := by
  have h1 : (hermKernF op (never op.A) c eps23 back).facInit = (HermSolver.hermKern op c eps23 back).facInit := by
    funext v0 s
    show facRes _ _ _ _ = _
    rw [facRes_never, initF_eval]
    show _ = (match Arnoldi.init op { s with ops := 0 } v0 with | some s' => _ | none => _)
    cases Arnoldi.init op { s with ops := 0 } v0 <;> rfl
  have h2 : (hermKernF op (never op.A) c eps23 back).factorize = (HermSolver.hermKern op c eps23 back).factorize := by
    funext a b s
    show facRes _ _ _ _ = _
    rw [facRes_never, lanczosFactorizeF_eval]
    rfl
  have h3 : (hermKernF op (never op.A) c eps23 back).restartFac = (HermSolver.hermKern op c eps23 back).restartFac := by
    funext j vals s
    show facRes _ _ _ _ = HermSolver.restartFac op c.ncv j vals s
    rw [facRes_never, restartFacF_eval]
    cases evalT op.A (restartFacF op c.ncv j vals s) <;> rfl
  rw [hermKernF_eq, h1, h2, h3]
  rfl

/-- the solver kernels with the operator whose `k`-th application (since `init()`) fails are `FaultedBy` the fault-free ones -/
theorem hermKernF_faultedBy (k : Nat) (e : Exn) (hk : 1 ≤ k) :
    FaultedBy (HermSolver.hermKern op c eps23 back)
      (hermKernF op (faultAt op.A k e) c eps23 back).facInit (hermKernF op (faultAt op.A k e) c eps23 back).factorize
      (hermKernF op (faultAt op.A k e) c eps23 back).restartFac (fun s => s.ops) k e := by
  have hK := hermKernF_never op c eps23 back
  have fI : ∀ v0 (s : State α), _ := fun v0 (s : State α) =>
    facRes_fault op.A k e (initF op { s with ops := 0 } v0) { s with ops := 0 } s "initial residual vector cannot be zero"
      (by rw [initF_eval]; exact (initF_count op { s with ops := 0 } v0).1)
      (by rw [initF_eval]; exact (initF_count op { s with ops := 0 } v0).2)
  have fZ : ∀ a b (s : State α), _ := fun a b (s : State α) =>
    facRes_fault op.A k e (lanczosFactorizeF op s a b) s s "Arnoldi: from_k is larger than the current subspace dimension"
      (by rw [lanczosFactorizeF_eval]; exact (lanczosFactorizeF_count op s a b).1)
      (by rw [lanczosFactorizeF_eval]; exact (lanczosFactorizeF_count op s a b).2)
  have fR : ∀ j vals (s : State α), _ := fun j vals (s : State α) =>
    facRes_fault op.A k e (restartFacF op c.ncv j vals s) s (restartPre op c.ncv j vals s)
      "Arnoldi: from_k is larger than the current subspace dimension"
      (by unfold restartFacF; rw [lanczosFactorizeF_eval]
          have := (lanczosFactorizeF_count op (restartPre op c.ncv j vals s) j c.ncv).1
          rw [restartPre_ops] at this; exact this)
      (by unfold restartFacF; rw [lanczosFactorizeF_eval]; exact (lanczosFactorizeF_count op (restartPre op c.ncv j vals s) j c.ncv).2)
  refine ⟨?_, ?_, ?_, ?_, ?_, ?_⟩
  · intro v a
    have h := (fI v a).1
    rw [← hK]
    exact h
  · intro i m a
    have h := (fZ i m a).1
    rw [← hK]
    exact h
  · intro j vals a
    have h := (fR j vals a).1
    rw [← hK]
    exact h
  · intro v a hx
    have h := (fI v a).2.1 (by show 0 < k; omega) (Or.inl hx)
    have h0 : ({ a with ops := 0 } : State α).ops = 0 := rfl
    rw [h0] at h
    have h1 := h.1
    have h2 := h.2
    simp only [Nat.zero_add] at h1
    rw [h1] at h2
    exact ⟨h1, h2⟩
  · intro i m a hlt
    exact (fZ i m a).2.1 hlt (Or.inr rfl)
  · intro j vals a hlt
    exact (fR j vals a).2.1 hlt (Or.inr (restartPre_ops op c.ncv j vals a))

end
end FaultOp
