/-
  Lemmas for C15 (Davidson): with kernels that meet their SPECIFICATION (orthonormal eigen-decomposition; orthonormal
  completion of an orthonormal left part; argsort without repeated indices) an orthonormal initial space stays orthonormal
  through update / Rayleigh–Ritz / sort / extend / restart, and the stored Ritz vectors are orthonormal at every exit.
-/
import SpectraVerif.Proofs.C15Gram

namespace C15L
open Dav

variable {R M : Type} [CommRing R] [AddCommGroup M] [Module R M]
set_option linter.unusedSectionVars false
variable {K : Kern R M} {A : M →ₗ[R] M}

/-- specification of `SelfAdjointEigenSolver` used here: as many values as vectors, one coefficient per row of the small
    matrix, eigenvector columns orthonormal for the Euclidean dot product -/
def EigSpec (K : Kern R M) : Prop :=
  ∀ G : List (List R), (K.eig G).2.2.Pairwise (fun y z => sdot y z = 0) ∧
    ∀ y ∈ (K.eig G).2.2, sdot y y = 1 ∧ y.length = G.length

/-- specification of `twice_is_enough_orthogonalisation(M, k)`: if the first `k` columns are orthonormal the result is -/
def OrthSpec (ip : M → M → R) (K : Kern R M) : Prop := ∀ (l : List M) (k : Nat), ON ip (l.take k) → ON ip (K.orth l k)

/-- specification of `argsort`: no index twice -/
def ArgsortSpec (K : Kern R M) : Prop := ∀ (sel : Int) (vals : List R), (K.argsort sel vals).Nodup

/-- orthonormal Ritz vectors -/
def PairsON (ip : M → M → R) (ps : List (Pair R M)) : Prop :=
  ps.Pairwise (fun p q => ip p.vector q.vector = 0) ∧ ∀ p ∈ ps, ip p.vector p.vector = 1

theorem pairsON_basis {ip : M → M → R} {ps : List (Pair R M)} (h : PairsON ip ps) (k : Nat) :
    ON ip ((ps.take k).map (fun p => p.vector)) := by
  obtain ⟨h1, h2⟩ := h
  constructor
  · rw [List.pairwise_map]
    exact h1.sublist (List.take_sublist _ _)
  · intro u hu
    obtain ⟨p, hp, rfl⟩ := List.mem_map.mp hu
    exact h2 p (List.mem_of_mem_take hp)

theorem pairwise_zipWith {α β γ : Type} (f : α → β → γ) (Rb : β → β → Prop) (Rc : γ → γ → Prop)
    (h : ∀ a b a' b', Rb b b' → Rc (f a b) (f a' b')) (as : List α) (bs : List β) (hb : bs.Pairwise Rb) :
    (List.zipWith f as bs).Pairwise Rc := by
  induction as generalizing bs with
  | nil => simp
  | cons a as ih =>
    cases bs with
    | nil => simp
    | cons b bs =>
      rw [List.pairwise_cons] at hb
      simp only [List.zipWith_cons_cons, List.pairwise_cons]
      refine ⟨?_, ih bs hb.2⟩
      intro c hc
      -- c = f a' b' with b' ∈ bs
      have : ∃ a' b', b' ∈ bs ∧ c = f a' b' := by
        clear ih hb
        induction as generalizing bs with
        | nil => simp at hc
        | cons x xs ih2 =>
          cases bs with
          | nil => simp at hc
          | cons y ys =>
            simp only [List.zipWith_cons_cons, List.mem_cons] at hc
            rcases hc with rfl | hc
            · exact ⟨x, y, List.mem_cons_self .., rfl⟩
            · obtain ⟨a', b', hb', rfl⟩ := ih2 ys hc
              exact ⟨a', b', List.mem_cons_of_mem _ hb', rfl⟩
      obtain ⟨a', b', hb', rfl⟩ := this
      exact h a b a' b' (hb.1 b' hb')

theorem mem_zipWith_right {α β γ : Type} (f : α → β → γ) (as : List α) (bs : List β) (c : γ)
    (hc : c ∈ List.zipWith f as bs) : ∃ a b, b ∈ bs ∧ c = f a b := by
  induction as generalizing bs with
  | nil => simp at hc
  | cons x xs ih =>
    cases bs with
    | nil => simp at hc
    | cons y ys =>
      simp only [List.zipWith_cons_cons, List.mem_cons] at hc
      rcases hc with rfl | hc
      · exact ⟨x, y, List.mem_cons_self .., rfl⟩
      · obtain ⟨a', b', hb', rfl⟩ := ih ys hc
        exact ⟨a', b', List.mem_cons_of_mem _ hb', rfl⟩

/-- Rayleigh–Ritz with an orthonormal basis and a specification-conforming eigen-solver gives orthonormal Ritz vectors -/
theorem computeEigenPairs_pairsON (ip : M → M → R) (hip : IsSymBilin ip) (hL : Linear K A) (hE : EigSpec K)
    {s : St R M} (hc : CachedFull A s) (hB : ON ip s.basis) : PairsON ip (computeEigenPairs K s).2.pairs := by
  have hG : (smallMatrix K s).length = s.basis.length := by
    unfold CachedFull at hc
    simp [smallMatrix, hc]
  obtain ⟨hpw, hun⟩ := hE (smallMatrix K s)
  simp only [computeEigenPairs]
  constructor
  · apply pairwise_zipWith (mkPair K s) (fun y z => sdot y z = 0 ∧ y.length = s.basis.length ∧ z.length = s.basis.length)
    · intro a b a' b' ⟨h0, hl, hl'⟩
      simp only [mkPair]
      rw [gram ip hip hL _ hB _ _ hl hl']; exact h0
    · -- strengthen the pairwise relation with the length facts
      have : ∀ y ∈ (K.eig (smallMatrix K s)).2.2, y.length = s.basis.length := fun y hy => by rw [(hun y hy).2, hG]
      exact (List.pairwise_and_iff.mpr ⟨hpw, List.pairwise_of_forall_mem_list (fun y hy z hz => ⟨this y hy, this z hz⟩)⟩)
  · intro p hp
    obtain ⟨θ, y, hy, rfl⟩ := mem_zipWith_right (mkPair K s) _ _ p hp
    have hl : y.length = s.basis.length := by rw [(hun y hy).2, hG]
    simp only [mkPair]
    rw [gram ip hip hL _ hB _ _ hl hl]; exact (hun y hy).1

/-- selecting along an index list without repetitions preserves orthonormality -/
theorem pairsON_filterMap (ip : M → M → R) (hip : IsSymBilin ip) {ps : List (Pair R M)} (h : PairsON ip ps)
    (idx : List Nat) (hn : idx.Nodup) : PairsON ip (idx.filterMap (fun i => ps[i]?)) := by
  obtain ⟨h1, h2⟩ := h
  constructor
  · apply List.Pairwise.filterMap (fun i => ps[i]?) (R := fun i j => i ≠ j) ?_ hn
    intro i j hij p hp q hq
    have hi := List.getElem?_eq_some_iff.mp hp
    have hj := List.getElem?_eq_some_iff.mp hq
    obtain ⟨hi1, rfl⟩ := hi
    obtain ⟨hj1, rfl⟩ := hj
    rcases Nat.lt_or_gt_of_ne hij with hlt | hgt
    · exact List.pairwise_iff_getElem.mp h1 i j hi1 hj1 hlt
    · rw [hip.symm]; exact List.pairwise_iff_getElem.mp h1 j i hj1 hi1 hgt
  · intro p hp
    exact h2 p (mem_filterMap_getElem? hp)

/-- loop-head invariant for specification-conforming kernels -/
def InvON (ip : M → M → R) (K : Kern R M) (A : M →ₗ[R] M) (s : St R M) : Prop :=
  Inv K A s ∧ ON ip s.basis ∧ PairsON ip s.pairs

def InvFullON (ip : M → M → R) (K : Kern R M) (A : M →ₗ[R] M) (s : St R M) : Prop :=
  InvFull K A s ∧ ON ip s.basis ∧ PairsON ip s.pairs

theorem iterHead_invFullON (ip : M → M → R) (hip : IsSymBilin ip) (hL : Linear K A) (hE : EigSpec K) (hS : ArgsortSpec K)
    (c : Cfg) (sel : Int) (tol : R) {s : St R M} (h : InvON ip K A s) :
    InvFullON ip K A (iterHead K c sel tol s).2 := by
  obtain ⟨hI, hB, hP⟩ := h
  refine ⟨iterHead_invFull hL c sel tol hI, ?_⟩
  have hf := head_prefix_full hL c hI
  -- the basis after the optional restart is orthonormal
  have hB1 : ON ip (updateOperatorBasisProduct K (if s.basis.length > c.maxSize then restart K c.initSize s else s)).basis := by
    simp only [updateOperatorBasisProduct]
    split
    · exact pairsON_basis hP _
    · exact hB
  unfold iterHead
  simp only
  set s1 := updateOperatorBasisProduct K (if s.basis.length > c.maxSize then restart K c.initSize s else s) with hs1
  have hf' : CachedFull A { s1 with sizes := s1.sizes ++ [s1.basis.length] } := hf
  have hB' : ON ip ({ s1 with sizes := s1.sizes ++ [s1.basis.length] } : St R M).basis := hB1
  have hP' := computeEigenPairs_pairsON ip hip hL hE hf' hB'
  split
  · exact ⟨hB1, hP'⟩
  · refine ⟨hB1, ?_⟩
    simp only [checkConvergence, sortPairs]
    exact pairsON_filterMap ip hip hP' _ (hS _ _)

theorem extend_invON (ip : M → M → R) (hO : OrthKeepsLeft K) (hQ : OrthSpec ip K) {s : St R M} (h : InvFullON ip K A s)
    (newv : List M) : InvON ip K A (extendBasis K newv s) := by
  obtain ⟨hI, hB, hP⟩ := h
  refine ⟨extend_inv hO hI newv, ?_, hP⟩
  simp only [extendBasis]
  apply hQ
  rw [List.take_left' rfl]; exact hB

theorem loop_invFullON (ip : M → M → R) (hip : IsSymBilin ip) (hL : Linear K A) (hO : OrthKeepsLeft K) (hQ : OrthSpec ip K)
    (hE : EigSpec K) (hS : ArgsortSpec K) (c : Cfg) (corr : List (Pair R M) → List M) (sel : Int) (tol : R)
    (maxit fuel : Nat) (s : St R M) (h : InvON ip K A s) (hs : s.niter + fuel = maxit) (hf : 0 < fuel) :
    InvFullON ip K A (loop K c corr sel tol maxit fuel s) := by
  induction fuel generalizing s with
  | zero => omega
  | succ f ih =>
    unfold loop
    have hI := iterHead_invFullON ip hip hL hE hS c sel tol h
    have hfl := iterHead_fields K c sel tol s
    rcases hh : iterHead K c sel tol s with ⟨r, s1⟩
    rw [hh] at hI hfl
    simp only at hI hfl
    obtain ⟨_, hn, _, _⟩ := hfl
    have keep : ∀ i : Info, InvFullON ip K A { s1 with info := i } :=
      fun i => ⟨invFull_of_pairs_subset hI.1 rfl rfl (fun p hp => hp), hI.2.1, hI.2.2⟩
    match r with
    | none => exact keep _
    | some true => exact keep _
    | some false =>
      simp only
      split
      · exact keep _
      · rename_i hne
        apply ih
        · have := extend_invON ip hO hQ hI (corr s1.pairs)
          exact ⟨inv_of_fields this.1 rfl rfl rfl, this.2.1, this.2.2⟩
        · simp only [extendBasis, hn]; omega
        · omega

end C15L
