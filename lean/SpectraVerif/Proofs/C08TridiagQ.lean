/-
  C08 (TridiagQR part, whole-loop theorems) -- exact-arithmetic theorems about the executable model
  `QRModel.TridiagQR` (Model/TridiagQR.lean, mirror of `Spectra::TridiagQR` in LinAlg/UpperHessenbergQR.h) at the
  instance `scOfField F` over any linearly ordered field `K`, for EVERY size `n`, input and shift, under ideal
  rotations (`hsqrt`: exact square root, `hcut`: series branch of `stable_scaling` disabled).

  Notation: `d`, `e` the stored diagonal / (deflated) subdiagonal of the input, `σ` the shift, `fk k` the compact state
  `(cos, sin, Rd, Rs, Rs2)` after `k` factorization steps, `piv k = (r_k, c_k, s_k)` the rotation of the pivot pair
  `(Rd_k[k], e[k])`, `qthqAt q k = (D_k, E_k)` the (diagonal, subdiagonal) of `dest` after `k` steps of `matrix_QtHQ`.

  * `tqr_rot_orth`, `tqr_R_diag_nonneg`, `tqr_rot_pivot`: stored rotations are orthogonal, `r ≥ 0`, `r² = x² + y²`;
  * `tqr_bulge_zero` (main): the component `s_{i+1} y' + c_{i+1} o'` that `matrix_QtHQ` silently drops is exactly `0`;
    `tqr_qthq_step_rot`: so the stored `y''` together with `0` IS the rotation `i+1` of `(y', o')`;
  * `tqr_qthq_subdiag`: the subdiagonal after the rotation loop is `E[i] = -s_i * R_diag (i+1)`  (entry `(i+1,i)` of `RQ`);
  * `tqr_qthq_diag`, `tqr_qthq_diag_last`: the diagonal after the rotation loop, `D[i] - σ` = entry `(i,i)` of `RQ`;
  * `tqr_factor`, `tqr_factor_eq`: `Qᵀ (T̃ - σ I) = R` (entrywise / as matrices); `tqr_QR_eq`: `Q R = T̃ - σ I`.
-/
import Mathlib.Tactic.Ring
import Mathlib.Tactic.Linarith
import Mathlib.Tactic.LinearCombination
import Mathlib.Algebra.Order.Field.Basic
import SpectraVerif.Model.TridiagQR
import SpectraVerif.Proofs.ScField
import SpectraVerif.Proofs.C08Givens
import SpectraVerif.Proofs.C08Mat
import SpectraVerif.Proofs.C08Hess
import SpectraVerif.Proofs.C08Tridiag

set_option linter.unusedSectionVars false
set_option linter.unusedVariables false
set_option linter.unusedSimpArgs false

namespace C08TridiagQ
open QRModel Lin QRModel.TridiagQR

section field
variable {K : Type} [Field K] [LinearOrder K] [IsStrictOrderedRing K] (F : FieldFns K)

local notation "vg" => @Lin.vget K (scOfField F)
local notation "mg" => @Lin.Mat.get K (scOfField F)
local notation "fstep" => @facStep K _ _ _ _ _ (scOfField F)
local notation "qstep" => @qthqStep K _ _ _ _ (scOfField F)
local notation "qloc" => @qthqLocal K _ _ _ (scOfField F)
local notation "tcompute" => @compute K _ _ _ _ _ (scOfField F)
local notation "rot" => C08Givens.rot F

/-! ### 0. small facts of the `Lin` layer -/

theorem zero_eq : @Lin.zero K (scOfField F) = (0 : K) := C08Tridiag.zero_eq F

theorem vget_map (v : Vec K) (f : K → K) (j : Nat) (hj : j < v.size) : vg (v.map f) j = f (vg v j) := by
  unfold vget
  simp [Array.getD_eq_getD_getElem?, hj]

theorem vget_vzero (m j : Nat) : vg (@vzero K (scOfField F) m) j = 0 := by
  unfold vget vzero
  rw [Array.getD_eq_getD_getElem?]
  by_cases h : j < m
  · simp [h, Lin.zero]
  · simp [h, Lin.zero]

/-- ideal rotations: what `hsqrt` and `hcut` give for every input pair -/
def IdealF : Prop :=
  ∀ x y : K, (rot x y).2.1 * (rot x y).2.1 + (rot x y).2.2 * (rot x y).2.2 = 1 ∧
    (rot x y).2.1 * x - (rot x y).2.2 * y = (rot x y).1 ∧
    (rot x y).1 * (rot x y).1 = x * x + y * y ∧ 0 ≤ (rot x y).1 ∧
    (rot x y).2.2 * x + (rot x y).2.1 * y = 0

theorem idealF_of (hsqrt : ∀ x : K, 0 ≤ x → F.sqrt x * F.sqrt x = x ∧ 0 ≤ F.sqrt x) (hcut : C08Givens.cutoff F ≤ 0) :
    IdealF F := fun x y =>
  C08Givens.rot_std_of_cutoff_nonpos F hsqrt hcut x y (rot x y).1 (rot x y).2.1 (rot x y).2.2 rfl

/-! ### 1. the factorization loop -/

section fac
variable (n : Nat) (d e : Vec K) (σ : K)

/-- initial state of the factorization loop -/
def st0 : FacSt K := ⟨#[], #[], d.map (fun a => a - σ), e, @vzero K (scOfField F) (n - 2)⟩

/-- state after `k` factorization steps -/
def fk (k : Nat) : FacSt K := (List.range k).foldl (fstep n e) (st0 F n d e σ)

theorem fk_succ (k : Nat) : fk F n d e σ (k + 1) = fstep n e (fk F n d e σ k) k := by
  unfold fk
  rw [List.range_succ, List.foldl_append]
  rfl

/-- the pivot diagonal entry `Rd_k[k]` -/
def pd (k : Nat) : K := vg (fk F n d e σ k).Rd k

/-- `(r_k, c_k, s_k)`: rotation of the pivot pair `(Rd_k[k], e[k])` -/
def piv (k : Nat) : K × K × K := rot (pd F n d e σ k) (vg e k)

/-- the cosine of the previous rotation (`1` for the first step) -/
def cprev (k : Nat) : K := if k = 0 then 1 else (piv F n d e σ (k - 1)).2.1

theorem cprev_zero : cprev F n d e σ 0 = 1 := rfl
theorem cprev_succ (k : Nat) : cprev F n d e σ (k + 1) = (piv F n d e σ k).2.1 := by
  unfold cprev; simp

theorem fk_sizes (k : Nat) :
    (fk F n d e σ k).cos.size = k ∧ (fk F n d e σ k).sin.size = k ∧ (fk F n d e σ k).Rd.size = d.size ∧
    (fk F n d e σ k).Rs.size = e.size ∧ (fk F n d e σ k).Rs2.size = n - 2 := by
  obtain ⟨g1, g2, g3, g4, g5⟩ := C08Tridiag.facFold_sizes F n e (st0 F n d e σ) k
  refine ⟨g1.trans (by simp [st0]), g2.trans (by simp [st0]), g3.trans (by simp [st0]), g4,
    g5.trans (by simp [st0])⟩

/-- entries beyond the current step are untouched -/
theorem fk_frame (k : Nat) :
    (∀ j, k < j → vg (fk F n d e σ k).Rd j = vg (d.map (fun a => a - σ)) j) ∧
    (∀ j, k < j → vg (fk F n d e σ k).Rs j = vg e j) ∧
    (∀ j, k ≤ j → vg (fk F n d e σ k).Rs2 j = 0) := by
  induction k with
  | zero =>
    refine ⟨fun j _ => rfl, fun j _ => rfl, fun j _ => ?_⟩
    exact vget_vzero F _ _
  | succ k ih =>
    obtain ⟨h1, h2, h3⟩ := ih
    rw [fk_succ]
    refine ⟨fun j hj => ?_, fun j hj => ?_, fun j hj => ?_⟩
    · rw [(C08Tridiag.tqr_facStep_frame F n e (fk F n d e σ k) k j).1 (by omega) (by omega)]
      exact h1 j (by omega)
    · rw [(C08Tridiag.tqr_facStep_frame F n e (fk F n d e σ k) k j).2.1 (by omega) (by omega)]
      exact h2 j (by omega)
    · rw [(C08Tridiag.tqr_facStep_frame F n e (fk F n d e σ k) k j).2.2 (by omega)]
      exact h3 j (by omega)

/-- one step, entry formulas -/
theorem fk_step (hd : d.size = n) (he : e.size = n - 1) (k : Nat) (hk : k + 1 < n) :
    (fk F n d e σ (k + 1)).cos = (fk F n d e σ k).cos.push (piv F n d e σ k).2.1 ∧
    (fk F n d e σ (k + 1)).sin = (fk F n d e σ k).sin.push (piv F n d e σ k).2.2 ∧
    vg (fk F n d e σ (k + 1)).Rd k = (piv F n d e σ k).1 ∧
    vg (fk F n d e σ (k + 1)).Rs k =
      (piv F n d e σ k).2.1 * vg (fk F n d e σ k).Rs k - (piv F n d e σ k).2.2 * vg (fk F n d e σ k).Rd (k + 1) ∧
    vg (fk F n d e σ (k + 1)).Rd (k + 1) =
      (piv F n d e σ k).2.2 * vg (fk F n d e σ k).Rs k + (piv F n d e σ k).2.1 * vg (fk F n d e σ k).Rd (k + 1) ∧
    (k < n - 2 →
      vg (fk F n d e σ (k + 1)).Rs2 k = -(piv F n d e σ k).2.2 * vg (fk F n d e σ k).Rs (k + 1) ∧
      vg (fk F n d e σ (k + 1)).Rs (k + 1) = vg (fk F n d e σ k).Rs (k + 1) * (piv F n d e σ k).2.1) ∧
    (¬ k < n - 2 → (fk F n d e σ (k + 1)).Rs2 = (fk F n d e σ k).Rs2) := by
  obtain ⟨s1, s2, s3, s4, s5⟩ := fk_sizes F n d e σ k
  obtain ⟨g1, g2, g3, g4, g5, g6, g7⟩ := C08Tridiag.tqr_facStep_local F n e (fk F n d e σ k) k
    (piv F n d e σ k).1 (piv F n d e σ k).2.1 (piv F n d e σ k).2.2 rfl (by omega) (by omega)
  rw [fk_succ]
  exact ⟨g1, g2, g3, g4, g5, fun h => g6 h (by omega) (by omega), g7⟩

/-- the stored rotation `i` is `piv i`, whatever happens later -/
theorem fk_rot (hd : d.size = n) (he : e.size = n - 1) (k : Nat) (hk : k ≤ n - 1) :
    ∀ i, i < k → vg (fk F n d e σ k).cos i = (piv F n d e σ i).2.1 ∧
                 vg (fk F n d e σ k).sin i = (piv F n d e σ i).2.2 := by
  induction k with
  | zero => intro i h; omega
  | succ k ih =>
    obtain ⟨s1, s2, _⟩ := fk_sizes F n d e σ k
    obtain ⟨e1, e2, _⟩ := fk_step F n d e σ hd he k (by omega)
    intro i hi
    rw [e1, e2]
    by_cases h : i = k
    · subst h
      constructor
      · have := @C08Mat.vget_push_eq K (scOfField F) (fk F n d e σ i).cos (piv F n d e σ i).2.1
        rw [s1] at this; exact this
      · have := @C08Mat.vget_push_eq K (scOfField F) (fk F n d e σ i).sin (piv F n d e σ i).2.2
        rw [s2] at this; exact this
    · have hik : i < k := by omega
      rw [@C08Mat.vget_push_lt K (scOfField F) _ _ _ (by rw [s1]; exact hik),
        @C08Mat.vget_push_lt K (scOfField F) _ _ _ (by rw [s2]; exact hik)]
      exact ih (by omega) i hik

/-- rows above the pivot are final: `Rd`, `Rs`, `Rs2` at index `i < k` keep the values they got in step `i` -/
theorem fk_final (k : Nat) : ∀ i, i < k →
    vg (fk F n d e σ k).Rd i = vg (fk F n d e σ (i + 1)).Rd i ∧
    vg (fk F n d e σ k).Rs i = vg (fk F n d e σ (i + 1)).Rs i ∧
    vg (fk F n d e σ k).Rs2 i = vg (fk F n d e σ (i + 1)).Rs2 i := by
  induction k with
  | zero => intro i h; omega
  | succ k ih =>
    intro i hi
    by_cases h : i = k
    · subst h; exact ⟨rfl, rfl, rfl⟩
    · have hik : i < k := by omega
      obtain ⟨h1, h2, h3⟩ := ih i hik
      obtain ⟨f1, f2, f3⟩ := C08Tridiag.tqr_facStep_frame F n e (fk F n d e σ k) k i
      rw [fk_succ, f1 (by omega) (by omega), f2 (by omega) (by omega), f3 (by omega)]
      exact ⟨h1, h2, h3⟩

/-- the superdiagonal entry next to the pivot: `Rs_k[k] = c_{k-1} e[k]` -/
theorem fk_Rs_piv (hd : d.size = n) (he : e.size = n - 1) (k : Nat) (hk : k + 1 < n) :
    vg (fk F n d e σ k).Rs k = cprev F n d e σ k * vg e k := by
  cases k with
  | zero => rw [cprev_zero, one_mul]; rfl
  | succ k =>
    obtain ⟨_, _, _, _, _, g6, _⟩ := fk_step F n d e σ hd he k (by omega)
    rw [(g6 (by omega)).2, (fk_frame F n d e σ k).2.1 (k + 1) (by omega), cprev_succ, mul_comm]

theorem pd_zero (hd : d.size = n) (hn : 0 < n) : pd F n d e σ 0 = vg d 0 - σ := by
  show vg (d.map (fun a => a - σ)) 0 = _
  rw [vget_map F _ _ _ (by omega)]

/-- the next pivot diagonal entry -/
theorem pd_succ (hd : d.size = n) (he : e.size = n - 1) (k : Nat) (hk : k + 1 < n) :
    pd F n d e σ (k + 1) =
      (piv F n d e σ k).2.2 * (cprev F n d e σ k * vg e k) + (piv F n d e σ k).2.1 * (vg d (k + 1) - σ) := by
  obtain ⟨_, _, _, _, g5, _, _⟩ := fk_step F n d e σ hd he k hk
  unfold pd
  rw [g5, fk_Rs_piv F n d e σ hd he k hk, (fk_frame F n d e σ k).1 (k + 1) (by omega),
    vget_map F _ _ _ (by omega)]

end fac

/-! ### 2. the object returned by `compute` -/

/-- `q` stores the result of the factorization loop run on its own `T_diag`, `T_subd`, `shift` -/
structure Linked (q : TridiagQR K) : Prop where
  hd : q.T_diag.size = q.n
  he : q.T_subd.size = q.n - 1
  hcos : q.cos = (fk F q.n q.T_diag q.T_subd q.shift (q.n - 1)).cos
  hsin : q.sin = (fk F q.n q.T_diag q.T_subd q.shift (q.n - 1)).sin
  hRd : q.R_diag = (fk F q.n q.T_diag q.T_subd q.shift (q.n - 1)).Rd
  hRs : q.R_supd = (fk F q.n q.T_diag q.T_subd q.shift (q.n - 1)).Rs
  hRs2 : q.R_supd2 = (fk F q.n q.T_diag q.T_subd q.shift (q.n - 1)).Rs2

theorem linked_compute (mat : Mat K) (shift : K) : Linked F (tcompute mat shift) := by
  obtain ⟨_, _, _, _, _, _, h7, h8⟩ := C08Tridiag.tqr_compute_sizes F mat shift
  exact ⟨h7, h8, rfl, rfl, rfl, rfl, rfl⟩

section linked
variable (q : TridiagQR K) (hq : Linked F q)

local notation "Pv" => piv F q.n q.T_diag q.T_subd q.shift
local notation "Pd" => pd F q.n q.T_diag q.T_subd q.shift
local notation "Cp" => cprev F q.n q.T_diag q.T_subd q.shift
local notation "Fk" => fk F q.n q.T_diag q.T_subd q.shift

include hq in
theorem linked_rot (i : Nat) (hi : i + 1 < q.n) : vg q.cos i = (Pv i).2.1 ∧ vg q.sin i = (Pv i).2.2 := by
  rw [hq.hcos, hq.hsin]
  exact fk_rot F q.n q.T_diag q.T_subd q.shift hq.hd hq.he (q.n - 1) (Nat.le_refl _) i (by omega)

include hq in
/-- `R_diag i = r_i` for `i < n - 1` -/
theorem linked_Rd (i : Nat) (hi : i + 1 < q.n) : vg q.R_diag i = (Pv i).1 := by
  rw [hq.hRd, (fk_final F q.n q.T_diag q.T_subd q.shift (q.n - 1) i (by omega)).1]
  exact (fk_step F q.n q.T_diag q.T_subd q.shift hq.hd hq.he i hi).2.2.1

include hq in
/-- `R_diag (n-1)` is the last pivot diagonal entry -/
theorem linked_Rd_last : vg q.R_diag (q.n - 1) = Pd (q.n - 1) := by
  rw [hq.hRd]; rfl

include hq in
/-- `R_diag (i+1)` as the result of the rotation of the pair `(Rd_{i+1}[i+1], e[i+1])` -/
theorem linked_Rd_succ (hid : IdealF F) (i : Nat) (hi : i + 1 < q.n) :
    vg q.R_diag (i + 1) =
      (if i + 2 < q.n then (Pv (i + 1)).2.1 * Pd (i + 1) - (Pv (i + 1)).2.2 * vg q.T_subd (i + 1) else Pd (i + 1)) := by
  by_cases h : i + 2 < q.n
  · rw [if_pos h, linked_Rd F q hq (i + 1) h]
    exact ((hid (Pd (i + 1)) (vg q.T_subd (i + 1))).2.1).symm
  · rw [if_neg h]
    have : i + 1 = q.n - 1 := by omega
    rw [this]
    exact linked_Rd_last F q hq

/-! ### 3. the `matrix_QtHQ` loop -/

/-- (diagonal, subdiagonal) of `dest` after `k` steps of the rotation loop of `matrix_QtHQ` -/
def qthqAt (k : Nat) : Vec K × Vec K := (List.range k).foldl (qstep q) (q.T_diag, q.T_subd)

theorem qthqAt_succ (k : Nat) : qthqAt F q (k + 1) = qstep q (qthqAt F q k) k := by
  unfold qthqAt
  rw [List.range_succ, List.foldl_append]
  rfl

theorem qthqRaw_eq : C08Tridiag.qthqRaw F q = qthqAt F q (q.n - 1) := rfl

theorem qloc_eq (c s x y z : K) :
    qloc c s x y z =
      (c * c * x - 2 * c * s * y + s * s * z, c * s * (x - z) + (c * c - s * s) * y,
        s * s * x + 2 * c * s * y + c * c * z) := by
  simp [qthqLocal]

/-- one step of the loop, entry formulas and frame -/
theorem qstep_spec (de : Vec K × Vec K) (i : Nat) (hD : i + 1 < de.1.size) (hE : i < de.2.size) :
    (qstep q de i).1.size = de.1.size ∧ (qstep q de i).2.size = de.2.size ∧
    vg (qstep q de i).1 i = (qloc (vg q.cos i) (vg q.sin i) (vg de.1 i) (vg de.2 i) (vg de.1 (i + 1))).1 ∧
    vg (qstep q de i).1 (i + 1) = (qloc (vg q.cos i) (vg q.sin i) (vg de.1 i) (vg de.2 i) (vg de.1 (i + 1))).2.2 ∧
    (∀ j, j ≠ i → j ≠ i + 1 → vg (qstep q de i).1 j = vg de.1 j) ∧
    (∀ j, j ≠ i → j ≠ i + 1 → vg (qstep q de i).2 j = vg de.2 j) ∧
    (i < q.n - 2 → i + 1 < de.2.size →
      vg (qstep q de i).2 i =
        vg q.cos (i + 1) * (qloc (vg q.cos i) (vg q.sin i) (vg de.1 i) (vg de.2 i) (vg de.1 (i + 1))).2.1 -
          vg q.sin (i + 1) * (-(vg q.sin i) * vg q.T_subd (i + 1)) ∧
      vg (qstep q de i).2 (i + 1) = vg de.2 (i + 1) * vg q.cos i) ∧
    (¬ i < q.n - 2 →
      vg (qstep q de i).2 i = (qloc (vg q.cos i) (vg q.sin i) (vg de.1 i) (vg de.2 i) (vg de.1 (i + 1))).2.1) := by
  have hi : i < de.1.size := by omega
  unfold qthqStep
  by_cases h : i < q.n - 2
  · simp only [h, if_true, @C08Tridiag.vget_vset K (scOfField F), C08Tridiag.size_vset, hD, hE, hi]
    refine ⟨trivial, trivial, ?_, ?_, ?_, ?_, ?_, ?_⟩
    · simp
    · simp
    · intro j h1 h2
      rw [if_neg (fun hh => h2 hh.1.symm), if_neg (fun hh => h1 hh.1.symm)]
    · intro j h1 h2
      rw [if_neg (fun hh => h1 hh.1.symm), if_neg (fun hh => h2 hh.1.symm), if_neg (fun hh => h1 hh.1.symm)]
    · intro _ h2
      simp [h2]
    · intro hh; exact absurd trivial hh
  · simp only [h, if_false, @C08Tridiag.vget_vset K (scOfField F), C08Tridiag.size_vset, hD, hE, hi]
    refine ⟨trivial, trivial, ?_, ?_, ?_, ?_, ?_, ?_⟩
    · simp
    · simp
    · intro j h1 h2
      rw [if_neg (fun hh => h2 hh.1.symm), if_neg (fun hh => h1 hh.1.symm)]
    · intro j h1 h2
      rw [if_neg (fun hh => h1 hh.1.symm)]
    · intro hh; exact absurd hh (by trivial)
    · intro _; simp

/-! pure algebra of one step: `(x, y, z)` the 2x2 block of `dest`, `(xR, yR)` the pivot pair of the factorization,
    `p` the previous cosine -/

omit [LinearOrder K] [IsStrictOrderedRing K] in
theorem alg_z (c s p xR yR x y z σ : K) (horth : c * c + s * s = 1) (hann : s * xR + c * yR = 0)
    (hx : x - σ = p * xR) (hy : y = p * yR) :
    s * s * x + 2 * c * s * y + c * c * z - σ = c * (s * (p * yR) + c * (z - σ)) := by
  linear_combination (s * s) * hx + (2 * c * s) * hy + σ * horth + (s * p) * hann

omit [LinearOrder K] [IsStrictOrderedRing K] in
theorem alg_y (c s p xR yR x y z σ : K) (hann : s * xR + c * yR = 0)
    (hx : x - σ = p * xR) (hy : y = p * yR) :
    c * s * (x - z) + (c * c - s * s) * y = -s * (s * (p * yR) + c * (z - σ)) := by
  linear_combination (c * s) * hx + (c * c - s * s) * hy + (c * p) * hann

omit [LinearOrder K] [IsStrictOrderedRing K] in
theorem alg_x (c s p xR yR x y z σ r : K) (horth : c * c + s * s = 1) (hr : c * xR - s * yR = r)
    (hx : x - σ = p * xR) (hy : y = p * yR) :
    c * c * x - 2 * c * s * y + s * s * z - σ = p * c * r - s * (c * (p * yR) - s * (z - σ)) := by
  linear_combination (c * c) * hx - (2 * c * s) * hy + σ * horth + (p * c) * hr

include hq in
/-- the facts about rotation `k`, on the stored `cos`/`sin` -/
theorem linked_ideal (hid : IdealF F) (k : Nat) (hk : k + 1 < q.n) :
    vg q.cos k * vg q.cos k + vg q.sin k * vg q.sin k = 1 ∧
    vg q.cos k * Pd k - vg q.sin k * vg q.T_subd k = (Pv k).1 ∧
    (Pv k).1 * (Pv k).1 = Pd k * Pd k + vg q.T_subd k * vg q.T_subd k ∧ 0 ≤ (Pv k).1 ∧
    vg q.sin k * Pd k + vg q.cos k * vg q.T_subd k = 0 := by
  obtain ⟨e1, e2⟩ := linked_rot F q hq k hk
  rw [e1, e2]
  exact hid (Pd k) (vg q.T_subd k)

include hq in
/-- invariant of the rotation loop of `matrix_QtHQ`: entries beyond `k` are the inputs, and the active pair
    `(D[k] - σ, E[k])` is `c_{k-1}` times the pivot pair `(Rd_k[k], e[k])` of the factorization -/
theorem qthq_inv (hid : IdealF F) (k : Nat) (hk : k ≤ q.n - 1) :
    (qthqAt F q k).1.size = q.n ∧ (qthqAt F q k).2.size = q.n - 1 ∧
    (∀ j, k < j → vg (qthqAt F q k).1 j = vg q.T_diag j) ∧
    (∀ j, k < j → vg (qthqAt F q k).2 j = vg q.T_subd j) ∧
    (k < q.n → vg (qthqAt F q k).1 k - q.shift = Cp k * Pd k) ∧
    (k + 1 < q.n → vg (qthqAt F q k).2 k = Cp k * vg q.T_subd k) := by
  induction k with
  | zero =>
    refine ⟨hq.hd, hq.he, fun j _ => rfl, fun j _ => rfl, fun h => ?_, fun h => ?_⟩
    · rw [cprev_zero, one_mul, pd_zero F q.n q.T_diag q.T_subd q.shift hq.hd h]; rfl
    · rw [cprev_zero, one_mul]; rfl
  | succ k ih =>
    have hk1 : k + 1 < q.n := by omega
    obtain ⟨s1, s2, i3, i4, i5, i6⟩ := ih (by omega)
    obtain ⟨g1, g2, g3, g4, g5, g6, g7, g8⟩ := qstep_spec F q (qthqAt F q k) k (by omega) (by omega)
    obtain ⟨o1, o2, o3, o4, o5⟩ := linked_ideal F q hq hid k hk1
    obtain ⟨e1, e2⟩ := linked_rot F q hq k hk1
    rw [qthqAt_succ]
    refine ⟨g1.trans s1, g2.trans s2, fun j hj => ?_, fun j hj => ?_, fun _ => ?_, fun h => ?_⟩
    · rw [g5 j (by omega) (by omega)]; exact i3 j (by omega)
    · rw [g6 j (by omega) (by omega)]; exact i4 j (by omega)
    · rw [g4, qloc_eq, cprev_succ, pd_succ F q.n q.T_diag q.T_subd q.shift hq.hd hq.he k hk1, ← e1, ← e2,
        i3 (k + 1) (by omega)]
      exact alg_z _ _ _ _ _ _ _ _ _ o1 o5 (i5 (by omega)) (i6 hk1)
    · rw [(g7 (by omega) (by omega)).2, i4 (k + 1) (by omega), cprev_succ, ← e1, mul_comm]

include hq in
/-- (I2) the off-diagonal entry `y'` formed in step `k` is `-s_k` times the next pivot diagonal entry -/
theorem qthq_yprime (hid : IdealF F) (k : Nat) (hk : k + 1 < q.n) :
    (qloc (vg q.cos k) (vg q.sin k) (vg (qthqAt F q k).1 k) (vg (qthqAt F q k).2 k) (vg (qthqAt F q k).1 (k + 1))).2.1
      = -(vg q.sin k) * Pd (k + 1) := by
  obtain ⟨s1, s2, i3, i4, i5, i6⟩ := qthq_inv F q hq hid k (by omega)
  obtain ⟨o1, o2, o3, o4, o5⟩ := linked_ideal F q hq hid k hk
  obtain ⟨e1, e2⟩ := linked_rot F q hq k hk
  rw [qloc_eq, pd_succ F q.n q.T_diag q.T_subd q.shift hq.hd hq.he k hk, ← e1, ← e2, i3 (k + 1) (by omega)]
  exact alg_y _ _ _ _ _ _ _ _ _ o5 (i5 (by omega)) (i6 hk)

include hq in
/-- the bulge dropped in step `k` is exactly zero -/
theorem qthq_bulge (hid : IdealF F) (k : Nat) (hk : k + 2 < q.n) :
    vg q.sin (k + 1) *
        (qloc (vg q.cos k) (vg q.sin k) (vg (qthqAt F q k).1 k) (vg (qthqAt F q k).2 k)
          (vg (qthqAt F q k).1 (k + 1))).2.1 +
      vg q.cos (k + 1) * (-(vg q.sin k) * vg q.T_subd (k + 1)) = 0 := by
  obtain ⟨o1, o2, o3, o4, o5⟩ := linked_ideal F q hq hid (k + 1) hk
  rw [qthq_yprime F q hq hid k (by omega)]
  linear_combination (-(vg q.sin k)) * o5

include hq in
/-- the stored `y''` and the assumed `0` are rotation `k+1` of `(y', o')` -/
theorem qthq_step_rot (hid : IdealF F) (k : Nat) (hk : k + 2 < q.n) :
    (vg (qthqAt F q (k + 1)).2 k, (0 : K)) =
      @rotT K _ _ _ (vg q.cos (k + 1)) (vg q.sin (k + 1))
        (qloc (vg q.cos k) (vg q.sin k) (vg (qthqAt F q k).1 k) (vg (qthqAt F q k).2 k)
          (vg (qthqAt F q k).1 (k + 1))).2.1
        (-(vg q.sin k) * vg q.T_subd (k + 1)) := by
  obtain ⟨s1, s2, _⟩ := qthq_inv F q hq hid k (by omega)
  obtain ⟨g1, g2, g3, g4, g5, g6, g7, g8⟩ := qstep_spec F q (qthqAt F q k) k (by omega) (by omega)
  rw [qthqAt_succ]
  unfold rotT
  refine Prod.ext ?_ ?_
  · exact (g7 (by omega) (by omega)).1
  · exact (qthq_bulge F q hq hid k hk).symm

include hq in
/-- the subdiagonal entry `k` right after step `k` -/
theorem qthq_sub_at (hid : IdealF F) (k : Nat) (hk : k + 1 < q.n) :
    vg (qthqAt F q (k + 1)).2 k = -(vg q.sin k) * vg q.R_diag (k + 1) := by
  obtain ⟨s1, s2, i3, i4, i5, i6⟩ := qthq_inv F q hq hid k (by omega)
  obtain ⟨g1, g2, g3, g4, g5, g6, g7, g8⟩ := qstep_spec F q (qthqAt F q k) k (by omega) (by omega)
  rw [qthqAt_succ, linked_Rd_succ F q hq hid k hk]
  by_cases h : k + 2 < q.n
  · obtain ⟨e1, e2⟩ := linked_rot F q hq (k + 1) h
    rw [if_pos h, (g7 (by omega) (by omega)).1, qthq_yprime F q hq hid k hk, ← e1, ← e2]
    ring
  · rw [if_neg h, g8 (by omega), qthq_yprime F q hq hid k hk]

include hq in
/-- the diagonal entry `k` right after step `k` -/
theorem qthq_diag_at (hid : IdealF F) (k : Nat) (hk : k + 1 < q.n) :
    vg (qthqAt F q (k + 1)).1 k - q.shift =
      Cp k * vg q.cos k * vg q.R_diag k - vg q.sin k * vg q.R_supd k := by
  obtain ⟨s1, s2, i3, i4, i5, i6⟩ := qthq_inv F q hq hid k (by omega)
  obtain ⟨g1, g2, g3, g4, g5, g6, g7, g8⟩ := qstep_spec F q (qthqAt F q k) k (by omega) (by omega)
  obtain ⟨o1, o2, o3, o4, o5⟩ := linked_ideal F q hq hid k hk
  obtain ⟨e1, e2⟩ := linked_rot F q hq k hk
  have hRs : vg q.R_supd k = vg q.cos k * (Cp k * vg q.T_subd k) - vg q.sin k * (vg q.T_diag (k + 1) - q.shift) := by
    rw [hq.hRs, (fk_final F q.n q.T_diag q.T_subd q.shift (q.n - 1) k (by omega)).2.1,
      (fk_step F q.n q.T_diag q.T_subd q.shift hq.hd hq.he k hk).2.2.2.1,
      fk_Rs_piv F q.n q.T_diag q.T_subd q.shift hq.hd hq.he k hk,
      (fk_frame F q.n q.T_diag q.T_subd q.shift k).1 (k + 1) (by omega),
      vget_map F _ _ _ (by rw [hq.hd]; omega), ← e1, ← e2]
  rw [qthqAt_succ, g3, qloc_eq, hRs, linked_Rd F q hq k hk, i3 (k + 1) (by omega)]
  exact alg_x _ _ _ _ _ _ _ _ _ _ o1 o2 (i5 (by omega)) (i6 hk)

include hq in
/-- later steps do not touch the entries `i < k` -/
theorem qthq_stable (hid : IdealF F) (k : Nat) (hk : k ≤ q.n - 1) : ∀ i, i < k →
    vg (qthqAt F q k).1 i = vg (qthqAt F q (i + 1)).1 i ∧ vg (qthqAt F q k).2 i = vg (qthqAt F q (i + 1)).2 i := by
  induction k with
  | zero => intro i h; omega
  | succ k ih =>
    intro i hi
    by_cases h : i = k
    · subst h; exact ⟨rfl, rfl⟩
    · have hik : i < k := by omega
      obtain ⟨h1, h2⟩ := ih (by omega) i hik
      obtain ⟨s1, s2, _⟩ := qthq_inv F q hq hid k (by omega)
      obtain ⟨g1, g2, g3, g4, g5, g6, g7, g8⟩ := qstep_spec F q (qthqAt F q k) k (by omega) (by omega)
      rw [qthqAt_succ, g5 i (by omega) (by omega), g6 i (by omega) (by omega)]
      exact ⟨h1, h2⟩

include hq in
/-- `c_{k-1}` on the stored cosines -/
theorem cprev_stored (k : Nat) (hk : k < q.n) : Cp k = if k = 0 then 1 else vg q.cos (k - 1) := by
  unfold cprev
  by_cases h : k = 0
  · rw [if_pos h, if_pos h]
  · rw [if_neg h, if_neg h, (linked_rot F q hq (k - 1) (by omega)).1]

include hq in
theorem qthq_sub_final (hid : IdealF F) (i : Nat) (hi : i + 1 < q.n) :
    vg (C08Tridiag.qthqRaw F q).2 i = -(vg q.sin i) * vg q.R_diag (i + 1) := by
  rw [qthqRaw_eq, (qthq_stable F q hq hid (q.n - 1) (Nat.le_refl _) i (by omega)).2]
  exact qthq_sub_at F q hq hid i hi

include hq in
theorem qthq_diag_final (hid : IdealF F) (i : Nat) (hi : i + 1 < q.n) :
    vg (C08Tridiag.qthqRaw F q).1 i - q.shift =
      (if i = 0 then 1 else vg q.cos (i - 1)) * vg q.cos i * vg q.R_diag i - vg q.sin i * vg q.R_supd i := by
  rw [qthqRaw_eq, (qthq_stable F q hq hid (q.n - 1) (Nat.le_refl _) i (by omega)).1,
    ← cprev_stored F q hq i (by omega)]
  exact qthq_diag_at F q hq hid i hi

include hq in
theorem qthq_diag_last (hid : IdealF F) (hn : 0 < q.n) :
    vg (C08Tridiag.qthqRaw F q).1 (q.n - 1) - q.shift =
      (if q.n - 1 = 0 then 1 else vg q.cos (q.n - 1 - 1)) * vg q.R_diag (q.n - 1) := by
  rw [qthqRaw_eq, ← cprev_stored F q hq (q.n - 1) (by omega), linked_Rd_last F q hq]
  exact (qthq_inv F q hq hid (q.n - 1) (Nat.le_refl _)).2.2.2.2.1 (by omega)

/-! ### 3'. `Qᵀ (T̃ - σ I) = R`: the compact three-band update is the full-row rotation -/

/-- `T̃ - σ I`, from the stored diagonal and subdiagonal -/
def Tshift (n : Nat) (d e : Vec K) (σ : K) : Mat K :=
  Mat.ofFn n n (fun i j =>
    if i = j then vg d i - σ else if i = j + 1 then vg e j else if j = i + 1 then vg e i else 0)

/-- row `a` of the three-band storage -/
def Rband (st : FacSt K) (a b : Nat) : K :=
  if b = a then vg st.Rd a else if b = a + 1 then vg st.Rs a else if b = a + 2 then vg st.Rs2 a else 0

local notation "QTK" => @C08Hess.qtk K _ (scOfField F)
local notation "TS" => Tshift F q.n q.T_diag q.T_subd q.shift

theorem Tshift_get (n : Nat) (d e : Vec K) (σ : K) (i j : Nat) (hi : i < n) (hj : j < n) :
    mg (Tshift F n d e σ) i j =
      if i = j then vg d i - σ else if i = j + 1 then vg e j else if j = i + 1 then vg e i else 0 :=
  @C08Mat.get_ofFn K (scOfField F) _ _ _ _ _ hi hj

omit [LinearOrder K] [IsStrictOrderedRing K] in
/-- the two rows of the window before the rotation, combined column by column -/
theorem row_calc (k b : Nat) (c s x a1 z eb w : K) :
    (c * (if b = k then x else if b = k + 1 then a1 else 0) -
        s * (if k + 1 = b then z else if k + 1 = b + 1 then eb else if b = k + 1 + 1 then w else 0) =
      if b = k then c * x - s * eb else if b = k + 1 then c * a1 - s * z else if b = k + 2 then -s * w else 0) ∧
    (s * (if b = k then x else if b = k + 1 then a1 else 0) +
        c * (if k + 1 = b then z else if k + 1 = b + 1 then eb else if b = k + 1 + 1 then w else 0) =
      if b = k then s * x + c * eb else if b = k + 1 then s * a1 + c * z else if b = k + 2 then w * c else 0) := by
  by_cases h1 : b = k
  · subst h1
    have e1 : ¬ (b + 1 = b) := by omega
    simp [e1]
  · by_cases h2 : b = k + 1
    · subst h2
      have e1 : ¬ (k + 1 = k) := by omega
      simp [e1]
    · by_cases h3 : b = k + 2
      · subst h3
        have e1 : ¬ (k + 2 = k) := by omega
        have e2 : ¬ (k + 2 = k + 1) := by omega
        have e3 : ¬ (k + 1 = k + 2) := by omega
        have e4 : ¬ (k + 1 = k + 2 + 1) := by omega
        simp [e1, e2, e3, e4]
        ring
      · have e1 : ¬ (k + 1 = b) := fun h => h2 h.symm
        have e2 : ¬ (k + 1 = b + 1) := by omega
        have e3 : ¬ (b = k + 1 + 1) := by omega
        simp only [if_neg h1, if_neg h2, if_neg h3, if_neg e1, if_neg e2, if_neg e3, mul_zero, sub_zero, add_zero,
          and_self]

include hq in
/-- joint invariant of the factorization loop (compact storage) and of the `apply_QtY_mat` loop started at
    `T̃ - σ I`: rows `< k` are final rows of `R`, row `k` is the active row, rows `> k` are untouched -/
theorem factor_inv (hid : IdealF F) (k : Nat) (hk : k ≤ q.n - 1) :
    (∀ a b, a < k → a < q.n → b < q.n → mg (QTK q.cos q.sin k TS) a b = Rband F (Fk k) a b) ∧
    (∀ b, k < q.n → b < q.n → mg (QTK q.cos q.sin k TS) k b =
      if b = k then vg (Fk k).Rd k else if b = k + 1 then vg (Fk k).Rs k else 0) ∧
    (∀ a b, k < a → a < q.n → b < q.n → mg (QTK q.cos q.sin k TS) a b = mg TS a b) := by
  induction k with
  | zero =>
    refine ⟨fun a b h => absurd h (by omega), fun b h0 hb => ?_, fun a b _ _ _ => rfl⟩
    show mg TS 0 b = _
    rw [Tshift_get F _ _ _ _ _ _ h0 hb]
    have e0 : vg (Fk 0).Rd 0 = vg q.T_diag 0 - q.shift := pd_zero F q.n q.T_diag q.T_subd q.shift hq.hd h0
    have e1 : vg (Fk 0).Rs 0 = vg q.T_subd 0 := rfl
    rw [e0, e1]
    by_cases h1 : b = 0
    · subst h1; simp
    · have e2 : ¬ (0 = b) := fun h => h1 h.symm
      have e3 : ¬ (0 = b + 1) := by omega
      rw [if_neg e2, if_neg e3, if_neg h1]
  | succ k ih =>
    have hk1 : k + 1 < q.n := by omega
    obtain ⟨i1, i2, i3⟩ := ih (by omega)
    have hwA : C08Mat.WF TS := C08Mat.ofFn_WF _ _ _
    obtain ⟨wA, rA, cA⟩ := @C08Hess.qtk_dims K _ (scOfField F) q.cos q.sin _ hwA k (by show k ≤ q.n - 1; omega)
    have rA' : (QTK q.cos q.sin k TS).rows = q.n := rA
    have cA' : (QTK q.cos q.sin k TS).cols = q.n := cA
    obtain ⟨_, _, _, gA⟩ := @C08Mat.rowsPair_full K (scOfField F)
      (@rotT K _ _ _ (vg q.cos k) (vg q.sin k)) _ wA (i := k) (by rw [rA']; exact hk1)
    have gA := fun a b (ha : a < q.n) (hb : b < q.n) => gA a b (by rw [rA']; exact ha) (by rw [cA']; exact hb)
    rw [@C08Hess.qtk_succ K _ (scOfField F)]
    obtain ⟨o1, o2, o3, o4, o5⟩ := linked_ideal F q hq hid k hk1
    obtain ⟨e1, e2⟩ := linked_rot F q hq k hk1
    obtain ⟨g1, g2, g3, g4, g5, g6, g7⟩ := fk_step F q.n q.T_diag q.T_subd q.shift hq.hd hq.he k hk1
    obtain ⟨f1, f2, f3⟩ := fk_frame F q.n q.T_diag q.T_subd q.shift k
    rw [← e1, ← e2] at g4 g5 g6
    -- the two rows of the window, before the rotation
    have hrowk : ∀ b, b < q.n → mg (QTK q.cos q.sin k TS) k b =
        if b = k then vg (Fk k).Rd k else if b = k + 1 then vg (Fk k).Rs k else 0 := fun b hb => i2 b (by omega) hb
    have hrowk1 : ∀ b, b < q.n → mg (QTK q.cos q.sin k TS) (k + 1) b =
        if k + 1 = b then vg (Fk k).Rd (k + 1) else if k + 1 = b + 1 then vg q.T_subd b
        else if b = k + 1 + 1 then vg (Fk k).Rs (k + 1) else 0 := by
      intro b hb
      rw [i3 (k + 1) b (by omega) hk1 hb, Tshift_get F _ _ _ _ _ _ hk1 hb, f1 (k + 1) (by omega),
        vget_map F _ _ _ (by rw [hq.hd]; exact hk1), f2 (k + 1) (by omega)]
    have hpd : vg (Fk k).Rd k = Pd k := rfl
    refine ⟨fun a b hak ha hb => ?_, fun b _ hb => ?_, fun a b hka ha hb => ?_⟩
    · rw [gA a b ha hb]
      by_cases h : a = k
      · subst h
        rw [if_pos rfl, @C08Hess.rotT_fst K _ (scOfField F), hrowk b hb, hrowk1 b hb, (row_calc a b _ _ _ _ _ _ _).1]
        unfold Rband
        by_cases h1 : b = a
        · rw [if_pos h1, if_pos h1, h1, g3, hpd]; exact o2
        · rw [if_neg h1, if_neg h1]
          by_cases h2 : b = a + 1
          · rw [if_pos h2, if_pos h2, g4]
          · rw [if_neg h2, if_neg h2]
            by_cases h3 : b = a + 2
            · rw [if_pos h3, if_pos h3, (g6 (by omega)).1]
            · rw [if_neg h3, if_neg h3]
      · have h' : ¬ a = k + 1 := by omega
        rw [if_neg h, if_neg h', i1 a b (by omega) ha hb]
        obtain ⟨t1, t2, t3⟩ := C08Tridiag.tqr_facStep_frame F q.n q.T_subd (Fk k) k a
        unfold Rband
        rw [fk_succ, t1 h h', t2 h h', t3 h]
    · rw [gA (k + 1) b hk1 hb]
      have h : ¬ (k + 1 = k) := by omega
      rw [if_neg h, if_pos rfl, @C08Hess.rotT_snd K _ (scOfField F), hrowk b hb, hrowk1 b hb, (row_calc k b _ _ _ _ _ _ _).2]
      by_cases h1 : b = k
      · have h1' : ¬ (b = k + 1) := by omega
        have h1'' : ¬ (b = k + 1 + 1) := by omega
        rw [if_pos h1, if_neg h1', if_neg h1'', h1, hpd]; exact o5
      · rw [if_neg h1]
        by_cases h2 : b = k + 1
        · rw [if_pos h2, if_pos h2, g5]
        · rw [if_neg h2, if_neg h2]
          by_cases h3 : b = k + 2
          · rw [if_pos h3, if_pos h3, (g6 (by omega)).2]
          · rw [if_neg h3, if_neg h3]
    · have h : ¬ a = k := by omega
      have h' : ¬ a = k + 1 := by omega
      rw [gA a b ha hb, if_neg h, if_neg h']
      exact i3 a b (by omega) ha hb

include hq in
/-- T3, on a linked object: `Qᵀ (T̃ - σ I) = R` entrywise -/
theorem factor_linked (hid : IdealF F) (i j : Nat) (hi : i < q.n) (hj : j < q.n) :
    mg (@TridiagQR.apply_QtY_mat K _ _ _ (scOfField F) q TS) i j = mg (@matrix_R K (scOfField F) q) i j := by
  obtain ⟨i1, i2, _⟩ := factor_inv F q hq hid (q.n - 1) (Nat.le_refl _)
  have e : @TridiagQR.apply_QtY_mat K _ _ _ (scOfField F) q TS = QTK q.cos q.sin (q.n - 1) TS := rfl
  rw [e]
  unfold matrix_R
  rw [@C08Tridiag.get_bandMat K (scOfField F) _ _ _ _ _ _ _ hi hj, hq.hRd, hq.hRs, hq.hRs2]
  by_cases h : i < q.n - 1
  · rw [i1 i j h hi hj]
    unfold Rband
    by_cases h1 : i = j
    · rw [if_pos h1, if_pos h1.symm]
    · have h1' : ¬ j = i := fun hh => h1 hh.symm
      rw [if_neg h1, if_neg h1']
      by_cases h2 : i + 1 = j
      · rw [if_pos h2, if_pos h2.symm]
      · have h2' : ¬ j = i + 1 := fun hh => h2 hh.symm
        rw [if_neg h2, if_neg h2']
        by_cases h3 : i + 2 = j
        · rw [if_pos h3, if_pos h3.symm]
        · have h3' : ¬ j = i + 2 := fun hh => h3 hh.symm
          rw [if_neg h3, if_neg h3']
          simp [zero_eq F]
  · have hi' : i = q.n - 1 := by omega
    subst hi'
    rw [i2 j (by omega) hj]
    by_cases h1 : q.n - 1 = j
    · rw [if_pos h1, if_pos h1.symm]
    · have h1' : ¬ j = q.n - 1 := fun hh => h1 hh.symm
      have h2 : ¬ (j = q.n - 1 + 1) := by omega
      have h3 : ¬ (q.n - 1 + 1 = j) := by omega
      have h4 : ¬ (q.n - 1 + 2 = j) := by omega
      rw [if_neg h1, if_neg h1', if_neg h2, if_neg h3, if_neg h4]
      simp [zero_eq F]

include hq in
/-- T3, on a linked object, as an equality of matrices -/
theorem factor_linked_eq (hid : IdealF F) :
    @TridiagQR.apply_QtY_mat K _ _ _ (scOfField F) q TS = @matrix_R K (scOfField F) q := by
  have hwA : C08Mat.WF TS := C08Mat.ofFn_WF _ _ _
  obtain ⟨wq, rq, cq⟩ := @C08Hess.qtk_dims K _ (scOfField F) q.cos q.sin _ hwA (q.n - 1)
    (by show q.n - 1 ≤ q.n - 1; omega)
  have wR : C08Mat.WF (@matrix_R K (scOfField F) q) := C08Mat.ofFn_WF _ _ _
  have e : @TridiagQR.apply_QtY_mat K _ _ _ (scOfField F) q TS = QTK q.cos q.sin (q.n - 1) TS := rfl
  have rq' : (QTK q.cos q.sin (q.n - 1) TS).rows = q.n := rq
  have cq' : (QTK q.cos q.sin (q.n - 1) TS).cols = q.n := cq
  apply @C08Mat.ext_get K (scOfField F) _ _ (by rw [e]; exact wq) wR (by rw [e, rq']; rfl) (by rw [e, cq']; rfl)
  intro a b ha hb
  rw [e, rq'] at ha
  rw [e, cq'] at hb
  exact factor_linked F q hq hid a b ha hb

include hq in
/-- `Q R = T̃ - σ I`, on a linked object -/
theorem QR_linked_eq (hid : IdealF F) :
    @TridiagQR.apply_QY_mat K _ _ _ (scOfField F) q (@matrix_R K (scOfField F) q) = TS := by
  have hwA : C08Mat.WF TS := C08Mat.ofFn_WF _ _ _
  rw [← factor_linked_eq F q hq hid]
  show @C08Hess.qk K _ (scOfField F) q.cos q.sin (q.n - 1) (QTK q.cos q.sin (q.n - 1) TS) = TS
  exact @C08Hess.qk_qtk K _ (scOfField F) q.cos q.sin (q.n - 1)
    (fun i hi => (linked_ideal F q hq hid i (by omega)).1) _ hwA (by show q.n - 1 ≤ q.n - 1; omega)

end linked

/-! ### 4. the theorems about `compute` -/

/-- T1: every stored rotation is orthogonal -/
theorem tqr_rot_orth (hsqrt : ∀ x : K, 0 ≤ x → F.sqrt x * F.sqrt x = x ∧ 0 ≤ F.sqrt x) (hcut : C08Givens.cutoff F ≤ 0)
    (mat : Mat K) (shift : K) (i : Nat) (hi : i < mat.rows - 1) :
    vg (tcompute mat shift).cos i * vg (tcompute mat shift).cos i +
      vg (tcompute mat shift).sin i * vg (tcompute mat shift).sin i = 1 :=
  (linked_ideal F _ (linked_compute F mat shift) (idealF_of F hsqrt hcut) i
    (by show i + 1 < mat.rows; omega)).1

/-- T1: the diagonal of `R` is nonnegative except possibly its last entry -/
theorem tqr_R_diag_nonneg (hsqrt : ∀ x : K, 0 ≤ x → F.sqrt x * F.sqrt x = x ∧ 0 ≤ F.sqrt x)
    (hcut : C08Givens.cutoff F ≤ 0) (mat : Mat K) (shift : K) (i : Nat) (hi : i < mat.rows - 1) :
    0 ≤ vg (tcompute mat shift).R_diag i := by
  have hi' : i + 1 < (tcompute mat shift).n := by show i + 1 < mat.rows; omega
  rw [linked_Rd F _ (linked_compute F mat shift) i hi']
  exact (linked_ideal F _ (linked_compute F mat shift) (idealF_of F hsqrt hcut) i hi').2.2.2.1

/-- T1: the stored rotation `i` maps the pivot pair `(x, y) = (Rd_i[i], e[i])` of the working `R` after `i` steps to
    `(R_diag i, 0)`, and `R_diag i` is its Euclidean norm -/
theorem tqr_rot_pivot (hsqrt : ∀ x : K, 0 ≤ x → F.sqrt x * F.sqrt x = x ∧ 0 ≤ F.sqrt x)
    (hcut : C08Givens.cutoff F ≤ 0) (mat : Mat K) (shift : K) (i : Nat) (hi : i < mat.rows - 1) :
    vg (tcompute mat shift).cos i *
        pd F mat.rows (tcompute mat shift).T_diag (tcompute mat shift).T_subd shift i -
      vg (tcompute mat shift).sin i * vg (tcompute mat shift).T_subd i = vg (tcompute mat shift).R_diag i ∧
    vg (tcompute mat shift).sin i *
        pd F mat.rows (tcompute mat shift).T_diag (tcompute mat shift).T_subd shift i +
      vg (tcompute mat shift).cos i * vg (tcompute mat shift).T_subd i = 0 ∧
    vg (tcompute mat shift).R_diag i * vg (tcompute mat shift).R_diag i =
      pd F mat.rows (tcompute mat shift).T_diag (tcompute mat shift).T_subd shift i *
        pd F mat.rows (tcompute mat shift).T_diag (tcompute mat shift).T_subd shift i +
      vg (tcompute mat shift).T_subd i * vg (tcompute mat shift).T_subd i := by
  have hi' : i + 1 < (tcompute mat shift).n := by show i + 1 < mat.rows; omega
  obtain ⟨_, o2, o3, _, o5⟩ := linked_ideal F _ (linked_compute F mat shift) (idealF_of F hsqrt hcut) i hi'
  rw [linked_Rd F _ (linked_compute F mat shift) i hi']
  exact ⟨o2, o5, o3⟩

/-- T2 (MAIN): in step `i < n - 2` of `matrix_QtHQ`, with `(D, E) = qthqAt q i` the state entering the step,
    `y'` the new `(i+1, i)` entry and `o' = -s_i e[i+1]` the bulge at `(i+2, i)`, the component
    `s_{i+1} y' + c_{i+1} o'` that the code never forms (it assumes the next rotation annihilates it) is exactly `0` -/
theorem tqr_bulge_zero (hsqrt : ∀ x : K, 0 ≤ x → F.sqrt x * F.sqrt x = x ∧ 0 ≤ F.sqrt x) (hcut : C08Givens.cutoff F ≤ 0)
    (mat : Mat K) (shift : K) (i : Nat) (hi : i + 2 < mat.rows) :
    vg (tcompute mat shift).sin (i + 1) *
        (qloc (vg (tcompute mat shift).cos i) (vg (tcompute mat shift).sin i)
          (vg (qthqAt F (tcompute mat shift) i).1 i) (vg (qthqAt F (tcompute mat shift) i).2 i)
          (vg (qthqAt F (tcompute mat shift) i).1 (i + 1))).2.1 +
      vg (tcompute mat shift).cos (i + 1) *
        (-(vg (tcompute mat shift).sin i) * vg (tcompute mat shift).T_subd (i + 1)) = 0 :=
  qthq_bulge F _ (linked_compute F mat shift) (idealF_of F hsqrt hcut) i hi

/-- T2: hence what step `i` stores at `(i+1, i)`, together with the `0` it assumes at `(i+2, i)`, IS rotation `i+1`
    applied to the pair `(y', o')` -/
theorem tqr_qthq_step_rot (hsqrt : ∀ x : K, 0 ≤ x → F.sqrt x * F.sqrt x = x ∧ 0 ≤ F.sqrt x)
    (hcut : C08Givens.cutoff F ≤ 0) (mat : Mat K) (shift : K) (i : Nat) (hi : i + 2 < mat.rows) :
    (vg (qthqAt F (tcompute mat shift) (i + 1)).2 i, (0 : K)) =
      @rotT K _ _ _ (vg (tcompute mat shift).cos (i + 1)) (vg (tcompute mat shift).sin (i + 1))
        (qloc (vg (tcompute mat shift).cos i) (vg (tcompute mat shift).sin i)
          (vg (qthqAt F (tcompute mat shift) i).1 i) (vg (qthqAt F (tcompute mat shift) i).2 i)
          (vg (qthqAt F (tcompute mat shift) i).1 (i + 1))).2.1
        (-(vg (tcompute mat shift).sin i) * vg (tcompute mat shift).T_subd (i + 1)) :=
  qthq_step_rot F _ (linked_compute F mat shift) (idealF_of F hsqrt hcut) i hi

/-- T2: the subdiagonal that the rotation loop of `matrix_QtHQ` produces (before the final deflation pass) is
    `E[i] = -s_i * R_diag (i+1)`, the entry `(i+1, i)` of `R Q` -/
theorem tqr_qthq_subdiag (hsqrt : ∀ x : K, 0 ≤ x → F.sqrt x * F.sqrt x = x ∧ 0 ≤ F.sqrt x)
    (hcut : C08Givens.cutoff F ≤ 0) (mat : Mat K) (shift : K) (i : Nat) (hi : i < mat.rows - 1) :
    vg (C08Tridiag.qthqRaw F (tcompute mat shift)).2 i =
      -(vg (tcompute mat shift).sin i) * vg (tcompute mat shift).R_diag (i + 1) :=
  qthq_sub_final F _ (linked_compute F mat shift) (idealF_of F hsqrt hcut) i (by show i + 1 < mat.rows; omega)

/-- T2: the diagonal that the rotation loop produces is `σ` plus the entry `(i, i)` of `R Q`:
    `D[i] - σ = c_{i-1} c_i R_diag i - s_i R_supd i`  (`c_{-1} = 1`) for `i < n - 1` -/
theorem tqr_qthq_diag (hsqrt : ∀ x : K, 0 ≤ x → F.sqrt x * F.sqrt x = x ∧ 0 ≤ F.sqrt x)
    (hcut : C08Givens.cutoff F ≤ 0) (mat : Mat K) (shift : K) (i : Nat) (hi : i < mat.rows - 1) :
    vg (C08Tridiag.qthqRaw F (tcompute mat shift)).1 i - shift =
      (if i = 0 then 1 else vg (tcompute mat shift).cos (i - 1)) * vg (tcompute mat shift).cos i *
          vg (tcompute mat shift).R_diag i -
        vg (tcompute mat shift).sin i * vg (tcompute mat shift).R_supd i :=
  qthq_diag_final F _ (linked_compute F mat shift) (idealF_of F hsqrt hcut) i (by show i + 1 < mat.rows; omega)

/-- T2: ... and `D[n-1] - σ = c_{n-2} R_diag (n-1)` -/
theorem tqr_qthq_diag_last (hsqrt : ∀ x : K, 0 ≤ x → F.sqrt x * F.sqrt x = x ∧ 0 ≤ F.sqrt x)
    (hcut : C08Givens.cutoff F ≤ 0) (mat : Mat K) (shift : K) (hn : 0 < mat.rows) :
    vg (C08Tridiag.qthqRaw F (tcompute mat shift)).1 (mat.rows - 1) - shift =
      (if mat.rows - 1 = 0 then 1 else vg (tcompute mat shift).cos (mat.rows - 1 - 1)) *
        vg (tcompute mat shift).R_diag (mat.rows - 1) :=
  qthq_diag_last F _ (linked_compute F mat shift) (idealF_of F hsqrt hcut) hn

/-- T3: `Qᵀ (T̃ - σ I) = R` entrywise, `T̃ - σ I = Tshift F n T_diag T_subd shift` (entries: `Tshift_get`) -/
theorem tqr_factor (hsqrt : ∀ x : K, 0 ≤ x → F.sqrt x * F.sqrt x = x ∧ 0 ≤ F.sqrt x) (hcut : C08Givens.cutoff F ≤ 0)
    (mat : Mat K) (shift : K) (i j : Nat) (hi : i < mat.rows) (hj : j < mat.rows) :
    mg (@UpperHessenbergQR.apply_QtY_mat K _ _ _ (scOfField F) (@toHess K (scOfField F) (tcompute mat shift))
        (Tshift F mat.rows (tcompute mat shift).T_diag (tcompute mat shift).T_subd shift)) i j =
      mg (@matrix_R K (scOfField F) (tcompute mat shift)) i j :=
  factor_linked F _ (linked_compute F mat shift) (idealF_of F hsqrt hcut) i j hi hj

/-- T3 as an equality of matrices -/
theorem tqr_factor_eq (hsqrt : ∀ x : K, 0 ≤ x → F.sqrt x * F.sqrt x = x ∧ 0 ≤ F.sqrt x)
    (hcut : C08Givens.cutoff F ≤ 0) (mat : Mat K) (shift : K) :
    @UpperHessenbergQR.apply_QtY_mat K _ _ _ (scOfField F) (@toHess K (scOfField F) (tcompute mat shift))
        (Tshift F mat.rows (tcompute mat shift).T_diag (tcompute mat shift).T_subd shift) =
      @matrix_R K (scOfField F) (tcompute mat shift) :=
  factor_linked_eq F _ (linked_compute F mat shift) (idealF_of F hsqrt hcut)

/-- `Q R = T̃ - σ I` as an equality of matrices -/
theorem tqr_QR_eq (hsqrt : ∀ x : K, 0 ≤ x → F.sqrt x * F.sqrt x = x ∧ 0 ≤ F.sqrt x)
    (hcut : C08Givens.cutoff F ≤ 0) (mat : Mat K) (shift : K) :
    @UpperHessenbergQR.apply_QY_mat K _ _ _ (scOfField F) (@toHess K (scOfField F) (tcompute mat shift))
        (@matrix_R K (scOfField F) (tcompute mat shift)) =
      Tshift F mat.rows (tcompute mat shift).T_diag (tcompute mat shift).T_subd shift :=
  QR_linked_eq F _ (linked_compute F mat shift) (idealF_of F hsqrt hcut)

/-- `Q R = T̃ - σ I`, entrywise with the entries of `T̃ - σ I` spelled out -/
theorem tqr_QR (hsqrt : ∀ x : K, 0 ≤ x → F.sqrt x * F.sqrt x = x ∧ 0 ≤ F.sqrt x)
    (hcut : C08Givens.cutoff F ≤ 0) (mat : Mat K) (shift : K) (i j : Nat) (hi : i < mat.rows) (hj : j < mat.rows) :
    mg (@UpperHessenbergQR.apply_QY_mat K _ _ _ (scOfField F) (@toHess K (scOfField F) (tcompute mat shift))
        (@matrix_R K (scOfField F) (tcompute mat shift))) i j =
      if i = j then vg (tcompute mat shift).T_diag i - shift
      else if i = j + 1 then vg (tcompute mat shift).T_subd j
      else if j = i + 1 then vg (tcompute mat shift).T_subd i else 0 := by
  rw [tqr_QR_eq F hsqrt hcut mat shift]
  exact Tshift_get F _ _ _ _ i j hi hj

end field
end C08TridiagQ
