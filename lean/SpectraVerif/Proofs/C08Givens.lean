/-
  C08 — scalar facts about the generated Givens kernel (`Gen/Givens.lean`, translated from
  `LinAlg/UpperHessenbergQR.h` : `stable_scaling`, `compute_rotation`), at the exact-arithmetic instance
  `scOfField F` over an arbitrary linearly ordered field `K`.

  * `sqrt` is abstract: the only hypothesis is `hsq : ∀ x ≥ 0, sqrt x * sqrt x = x ∧ 0 ≤ sqrt x`.
  * the branch cutoff `0.1 * pow eps 0.25` is an ARBITRARY element of `K` (`pow`, `eps` unconstrained): every theorem
    holds for every value of it; theorems about one branch take the branch condition as hypothesis.
  * results are triples `(r, c, s)` (r first), as in the generated code.

  Main results: `rot_spec` (all inputs: `0 ≤ r`, exact annihilation `s x + c y = 0`), `rot_annihilate` (the same
  annihilation without any hypothesis on `sqrt`), `rot_std` (standard branch or a zero component: exactly orthogonal,
  `c x - s y = r`, `r² = x² + y²`), `rot_taylor` (series branch: orthogonality defect ≤ 5/8 t⁶, closed forms of `r`
  and `c x - s y`, `|r² - (x² + y²)| ≤ 5/64 max² t⁸`), and the `stable_scaling` counterparts `ss_std`, `ss_taylor`,
  `ss_annihilate`.
-/
import Mathlib.Tactic.Ring
import Mathlib.Tactic.Linarith
import Mathlib.Tactic.FieldSimp
import Mathlib.Tactic.Positivity
import Mathlib.Tactic.NormNum
import Mathlib.Tactic.LinearCombination
import Mathlib.Algebra.Order.Field.Basic
import SpectraVerif.Gen.Givens
import SpectraVerif.Proofs.ScField

namespace C08Givens
variable {K : Type} [Field K] [LinearOrder K] [IsStrictOrderedRing K] (F : FieldFns K)

def ss (a b : K) : K × K × K := @Gen.Givens.stable_scaling K _ _ _ _ _ (scOfField F) a b
def rot (x y : K) : K × K × K := @Gen.Givens.compute_rotation K _ _ _ _ _ (scOfField F) x y

def cutoff : K := ((1 : ℕ) : K) * (10 : K) ^ (-1 : ℤ) * F.pow F.eps (((25 : ℕ) : K) * (10 : K) ^ (-2 : ℤ))

def stdB (a b : K) : K × K × K :=
  (a * F.sqrt (1 + b / a * (b / a)), 1 / F.sqrt (1 + b / a * (b / a)), b / a * (1 / F.sqrt (1 + b / a * (b / a))))

def tcP (t : K) : K := t * t * (1 / 2 - 3 / 8 * (t * t))

def serB (a b : K) : K × K × K :=
  (a + 1 / 2 * b * (b / a) * (1 - b / a * (b / a) * (1 / 4 - 1 / 8 * (b / a * (b / a)))),
   1 - tcP (b / a), b / a - b / a * tcP (b / a))

theorem lit5 : ((5 : ℕ) : K) * (10 : K) ^ (-1 : ℤ) = 1 / 2 := by
  norm_num [zpow_neg]
theorem lit25 : ((25 : ℕ) : K) * (10 : K) ^ (-2 : ℤ) = 1 / 4 := by
  norm_num [zpow_neg]
theorem lit125 : ((125 : ℕ) : K) * (10 : K) ^ (-3 : ℤ) = 1 / 8 := by
  norm_num [zpow_neg]
theorem lit375 : ((375 : ℕ) : K) * (10 : K) ^ (-3 : ℤ) = 3 / 8 := by
  norm_num [zpow_neg]

theorem ss_eq (a b : K) : ss F a b = if cutoff F ≤ b / a then stdB F a b else serB a b := by
  unfold ss Gen.Givens.stable_scaling
  simp only [ScF.ge, ScF.lit, ScF.eps, ScF.pow, ScF.ofInt, ScF.sqrt]
  by_cases h : cutoff F ≤ b / a
  · have h' := h
    unfold cutoff at h'
    simp only [h, h', decide_true, if_true, stdB, Int.cast_one]
  · have h' := h
    unfold cutoff at h'
    simp only [h, h', decide_false, if_false, Bool.false_eq_true]
    simp only [serB, tcP, Int.cast_one, lit5, lit25, lit125, lit375]


/-! ### pure facts -/

theorem std_core (a b d : K) (ha : 0 < a) (hb : 0 ≤ b) (hd : d * d = 1 + b / a * (b / a)) (hd0 : 0 ≤ d) :
    (1 / d) * (1 / d) + (b / a * (1 / d)) * (b / a * (1 / d)) = 1 ∧ (a * d) * (1 / d) = a ∧
    (a * d) * (b / a * (1 / d)) = b ∧ (a * d) * (a * d) = a * a + b * b ∧ 0 < a * d ∧ 0 < 1 / d ∧
    0 ≤ b / a * (1 / d) := by
  have hta : b / a * a = b := div_mul_cancel₀ b ha.ne'
  have ht0 : 0 ≤ b / a := div_nonneg hb ha.le
  generalize b / a = t at *
  have hpos : 0 < d * d := by rw [hd]; nlinarith [mul_self_nonneg t]
  have hdne : d ≠ 0 := by rintro rfl; simp at hpos
  have hdpos : 0 < d := lt_of_le_of_ne hd0 (Ne.symm hdne)
  have hi : d * (1 / d) = 1 := mul_one_div_cancel hdne
  have hipos : 0 < 1 / d := one_div_pos.mpr hdpos
  generalize 1 / d = i at *
  refine ⟨?_, ?_, ?_, ?_, mul_pos ha hdpos, hipos, mul_nonneg ht0 hipos.le⟩
  · linear_combination (-(i * i)) * hd + (d * i + 1) * hi
  · linear_combination a * hi
  · linear_combination (a * t) * hi + hta
  · linear_combination (a * a) * hd + (t * a + b) * hta

theorem ser_orth (t : K) (h0 : 0 ≤ t) (h1 : t ≤ 1) :
    |(1 - tcP t) * (1 - tcP t) + (t - t * tcP t) * (t - t * tcP t) - 1| ≤ 5 / 8 * t ^ 6 := by
  have e : (1 - tcP t) * (1 - tcP t) + (t - t * tcP t) * (t - t * tcP t) - 1
      = 5 / 8 * t ^ 6 - 15 / 64 * t ^ 8 + 9 / 64 * t ^ 10 := by
    simp only [tcP]; ring
  rw [e, abs_le]
  have h2 : t ^ 2 ≤ 1 := pow_le_one₀ h0 h1
  have h6 : 0 ≤ t ^ 6 := by positivity
  have h8n : 0 ≤ t ^ 8 := by positivity
  have h10n : 0 ≤ t ^ 10 := by positivity
  have h8 : t ^ 8 ≤ t ^ 6 := by
    have : t ^ 8 = t ^ 6 * t ^ 2 := by ring
    rw [this]; nlinarith
  have h10 : t ^ 10 ≤ t ^ 8 := by
    have : t ^ 10 = t ^ 8 * t ^ 2 := by ring
    rw [this]; nlinarith
  constructor <;> nlinarith

theorem ser_c_ge (t : K) (h0 : 0 ≤ t) (h1 : t ≤ 1) : 1 / 2 ≤ 1 - tcP t := by
  have h2 : t * t ≤ 1 := by nlinarith
  simp only [tcP]
  nlinarith [mul_self_nonneg (t * t)]

theorem ser_c_le (t : K) (h0 : 0 ≤ t) (h1 : t ≤ 1) : 1 - tcP t ≤ 1 := by
  have h2 : t * t ≤ 1 := by nlinarith
  have h3 : 0 ≤ t * t := mul_self_nonneg t
  simp only [tcP]
  nlinarith [mul_nonneg h3 (sub_nonneg.mpr h2)]

/-- the series value of `r` is `a` times the degree-6 Taylor polynomial of `sqrt (1 + t^2)` -/
theorem ser_r_eq (a b : K) (ha : a ≠ 0) :
    a + 1 / 2 * b * (b / a) * (1 - b / a * (b / a) * (1 / 4 - 1 / 8 * (b / a * (b / a))))
      = a * (1 + (b / a) ^ 2 / 2 - (b / a) ^ 4 / 8 + (b / a) ^ 6 / 16) := by
  have hta : b / a * a = b := div_mul_cancel₀ b ha
  generalize b / a = t at *
  subst hta; ring

theorem ser_r_ge (a b : K) (ha : 0 < a) (hb : 0 ≤ b) :
    a ≤ a + 1 / 2 * b * (b / a) * (1 - b / a * (b / a) * (1 / 4 - 1 / 8 * (b / a * (b / a)))) := by
  have ht0 : 0 ≤ b / a := div_nonneg hb ha.le
  generalize b / a = t at *
  have h : 0 ≤ 1 - t * t * (1 / 4 - 1 / 8 * (t * t)) := by nlinarith [mul_self_nonneg (t * t - 1)]
  have : 0 ≤ 1 / 2 * b * t * (1 - t * t * (1 / 4 - 1 / 8 * (t * t))) := by positivity
  linarith

theorem ser_r_defect (a t : K) (h0 : 0 ≤ t) (h1 : t ≤ 1) :
    |(a * (1 + t ^ 2 / 2 - t ^ 4 / 8 + t ^ 6 / 16)) * (a * (1 + t ^ 2 / 2 - t ^ 4 / 8 + t ^ 6 / 16))
      - (a * a + (t * a) * (t * a))| ≤ 5 / 64 * (a * a) * t ^ 8 := by
  have e : (a * (1 + t ^ 2 / 2 - t ^ 4 / 8 + t ^ 6 / 16)) * (a * (1 + t ^ 2 / 2 - t ^ 4 / 8 + t ^ 6 / 16))
      - (a * a + (t * a) * (t * a)) = (a * a) * (5 / 64 * t ^ 8 - 1 / 64 * t ^ 10 + 1 / 256 * t ^ 12) := by ring
  have e2 : 5 / 64 * (a * a) * t ^ 8 = (a * a) * (5 / 64 * t ^ 8) := by ring
  rw [e, e2, abs_mul, abs_of_nonneg (mul_self_nonneg a)]
  apply mul_le_mul_of_nonneg_left _ (mul_self_nonneg a)
  have h2 : t ^ 2 ≤ 1 := pow_le_one₀ h0 h1
  have h8n : 0 ≤ t ^ 8 := by positivity
  have h10n : 0 ≤ t ^ 10 := by positivity
  have h10 : t ^ 10 ≤ t ^ 8 := by
    have : t ^ 10 = t ^ 8 * t ^ 2 := by ring
    rw [this]; nlinarith
  have h12 : t ^ 12 ≤ t ^ 10 := by
    have : t ^ 12 = t ^ 10 * t ^ 2 := by ring
    rw [this]; nlinarith
  have h12n : 0 ≤ t ^ 12 := by positivity
  rw [abs_le]; constructor <;> nlinarith


/-! ### `stable_scaling` -/

theorem ss_std (hsq : ∀ x : K, 0 ≤ x → F.sqrt x * F.sqrt x = x ∧ 0 ≤ F.sqrt x)
    (a b : K) (ha : 0 < a) (hb : 0 ≤ b) (hbr : cutoff F ≤ b / a)
    (r c s : K) (h : ss F a b = (r, c, s)) :
    c * c + s * s = 1 ∧ r * c = a ∧ r * s = b ∧ r * r = a * a + b * b ∧ 0 < r ∧ 0 < c ∧ 0 ≤ s := by
  rw [ss_eq, if_pos hbr, stdB] at h
  have hp : (0 : K) ≤ 1 + b / a * (b / a) := by nlinarith [mul_self_nonneg (b / a)]
  obtain ⟨h1, h2⟩ := hsq _ hp
  have := std_core a b _ ha hb h1 h2
  simp only [Prod.mk.injEq] at h
  obtain ⟨rfl, rfl, rfl⟩ := h
  exact this

theorem ss_taylor (a b : K) (ha : 0 < a) (hb : 0 ≤ b) (hba : b ≤ a) (hbr : b / a < cutoff F)
    (r c s : K) (h : ss F a b = (r, c, s)) :
    s = b / a * c ∧ |c * c + s * s - 1| ≤ 5 / 8 * (b / a) ^ 6 ∧ 1 / 2 ≤ c ∧ c ≤ 1 ∧ 0 ≤ s ∧ a ≤ r ∧
    c = 1 - (b / a) ^ 2 / 2 + 3 / 8 * (b / a) ^ 4 ∧
    r = a * (1 + (b / a) ^ 2 / 2 - (b / a) ^ 4 / 8 + (b / a) ^ 6 / 16) ∧
    |r * r - (a * a + b * b)| ≤ 5 / 64 * (a * a) * (b / a) ^ 8 := by
  rw [ss_eq, if_neg (not_le.mpr hbr), serB] at h
  simp only [Prod.mk.injEq] at h
  obtain ⟨hr, rfl, rfl⟩ := h
  have ht0 : 0 ≤ b / a := div_nonneg hb ha.le
  have ht1 : b / a ≤ 1 := (div_le_one ha).mpr hba
  have hc := ser_c_ge (b / a) ht0 ht1
  have hr2 := ser_r_eq a b ha.ne'
  rw [hr] at hr2
  refine ⟨by ring, ser_orth _ ht0 ht1, hc, ser_c_le _ ht0 ht1, ?_, ?_, by simp only [tcP]; ring, hr2, ?_⟩
  · have : b / a - b / a * tcP (b / a) = b / a * (1 - tcP (b / a)) := by ring
    rw [this]; exact mul_nonneg ht0 (by linarith)
  · rw [← hr]; exact ser_r_ge a b ha hb
  · have hta : b / a * a = b := div_mul_cancel₀ b ha.ne'
    have := ser_r_defect a (b / a) ht0 ht1
    rw [hta] at this
    rw [hr2]; exact this

/-- in both branches `s = (b / a) * c` -/
theorem ss_s_eq (a b : K) (r c s : K) (h : ss F a b = (r, c, s)) : s = b / a * c := by
  rw [ss_eq] at h
  split at h
  · simp only [stdB, Prod.mk.injEq] at h
    obtain ⟨_, rfl, rfl⟩ := h; rfl
  · simp only [serB, Prod.mk.injEq] at h
    obtain ⟨_, rfl, rfl⟩ := h; ring

theorem ss_annihilate (a b : K) (ha : 0 < a) (r c s : K) (h : ss F a b = (r, c, s)) : s * a = c * b := by
  have hs := ss_s_eq F a b r c s h
  have hta : b / a * a = b := div_mul_cancel₀ b ha.ne'
  rw [hs]; linear_combination c * hta

/-- `0 < r` in both branches (`b ≤ a` is not needed) -/
theorem ss_r_pos (hsq : ∀ x : K, 0 ≤ x → F.sqrt x * F.sqrt x = x ∧ 0 ≤ F.sqrt x)
    (a b : K) (ha : 0 < a) (hb : 0 ≤ b) (r c s : K) (h : ss F a b = (r, c, s)) : 0 < r := by
  by_cases hbr : cutoff F ≤ b / a
  · exact (ss_std F hsq a b ha hb hbr r c s h).2.2.2.2.1
  · rw [ss_eq, if_neg hbr, serB] at h
    simp only [Prod.mk.injEq] at h
    obtain ⟨hr, _, _⟩ := h
    rw [← hr]; exact lt_of_lt_of_le ha (ser_r_ge a b ha hb)


/-! ### `compute_rotation` -/

/-- the sign convention of the source: `+1` for positive, `-1` otherwise -/
def sg (x : K) : K := if 0 < x then 1 else -1

omit [IsStrictOrderedRing K] in
theorem sg_mul_self (x : K) : sg x * sg x = 1 := by
  unfold sg; split <;> ring

theorem sg_mul_abs (x : K) : sg x * |x| = x := by
  unfold sg; split
  · next h => rw [abs_of_pos h]; ring
  · next h => rw [abs_of_nonpos (not_lt.mp h)]; ring

theorem rot_eq (x y : K) :
    rot F x y =
      if y = 0 then (|x|, (if x = 0 then 1 else sg x), 0)
      else if x = 0 then (|y|, 0, -sg y)
      else if |y| < |x| then ((ss F |x| |y|).1, sg x * (ss F |x| |y|).2.1, -sg y * (ss F |x| |y|).2.2)
      else ((ss F |y| |x|).1, sg x * (ss F |y| |x|).2.2, -sg y * (ss F |y| |x|).2.1) := by
  unfold rot Gen.Givens.compute_rotation
  simp only [ss, ScF.gt, ScF.eq, ScF.ofInt, ScF.abs, Int.cast_zero, Int.cast_one, Int.cast_neg, decide_eq_true_eq, sg]


theorem sg_mul_eq_abs (x : K) : sg x * x = |x| := by
  have h1 := sg_mul_abs x
  have h2 := sg_mul_self x
  linear_combination (-(sg x)) * h1 + |x| * h2

theorem rot_zero_y (x : K) :
    rot F x 0 = (|x|, (if x = 0 then 1 else if 0 < x then 1 else -1), 0) := by
  rw [rot_eq, if_pos rfl]; rfl

theorem rot_zero_x (y : K) (hy : y ≠ 0) :
    rot F 0 y = (|y|, 0, -(if 0 < y then 1 else -1)) := by
  rw [rot_eq, if_neg hy, if_pos rfl]; rfl

/-- the trivial cases are exact: orthogonality, the value of `r`, annihilation -/
theorem rot_zero_y_spec (x : K) (r c s : K) (h : rot F x 0 = (r, c, s)) :
    c * c + s * s = 1 ∧ c * x - s * 0 = r ∧ s * x + c * 0 = 0 ∧ r * r = x * x + 0 * 0 ∧ r = |x| := by
  rw [rot_eq, if_pos rfl] at h
  simp only [Prod.mk.injEq] at h
  obtain ⟨rfl, rfl, rfl⟩ := h
  refine ⟨?_, ?_, by ring, by rw [abs_mul_abs_self]; ring, rfl⟩
  · split
    · ring
    · rw [sg_mul_self]; ring
  · split
    · next h => subst h; simp
    · have := sg_mul_eq_abs x; linear_combination this

theorem rot_zero_x_spec (y : K) (hy : y ≠ 0) (r c s : K) (h : rot F 0 y = (r, c, s)) :
    c * c + s * s = 1 ∧ c * 0 - s * y = r ∧ s * 0 + c * y = 0 ∧ r * r = 0 * 0 + y * y ∧ r = |y| := by
  rw [rot_eq, if_neg hy, if_pos rfl] at h
  simp only [Prod.mk.injEq] at h
  obtain ⟨rfl, rfl, rfl⟩ := h
  refine ⟨?_, ?_, by ring, by rw [abs_mul_abs_self]; ring, rfl⟩
  · have := sg_mul_self y; linear_combination this
  · have := sg_mul_eq_abs y; linear_combination this

/-- EXACT annihilation in every branch (no hypothesis on `sqrt`, `pow`, `eps`) -/
theorem rot_annihilate (x y : K) (r c s : K) (h : rot F x y = (r, c, s)) : s * x + c * y = 0 := by
  rw [rot_eq] at h
  have hx := sg_mul_abs x
  have hy := sg_mul_abs y
  split at h
  · next h0 =>
    simp only [Prod.mk.injEq] at h
    obtain ⟨_, _, rfl⟩ := h; subst h0; ring
  · split at h
    · next _ h0 =>
      simp only [Prod.mk.injEq] at h
      obtain ⟨_, rfl, _⟩ := h; subst h0; ring
    · next hy0 hx0 =>
      split at h
      · rcases hss : ss F |x| |y| with ⟨r0, c0, s0⟩
        rw [hss] at h
        simp only [Prod.mk.injEq] at h
        obtain ⟨_, rfl, rfl⟩ := h
        have := ss_annihilate F |x| |y| (abs_pos.mpr hx0) _ _ _ hss
        linear_combination (-(sg x * sg y)) * this + (sg y * s0) * hx + (-(sg x * c0)) * hy
      · rcases hss : ss F |y| |x| with ⟨r0, c0, s0⟩
        rw [hss] at h
        simp only [Prod.mk.injEq] at h
        obtain ⟨_, rfl, rfl⟩ := h
        have := ss_annihilate F |y| |x| (abs_pos.mpr hy0) _ _ _ hss
        linear_combination (sg x * sg y) * this + (sg y * c0) * hx + (-(sg x * s0)) * hy


/-- reduction of the generic case to `stable_scaling (max |x| |y|) (min |x| |y|)` -/
theorem rot_nz (x y : K) (hx0 : x ≠ 0) (hy0 : y ≠ 0) (r c s : K) (h : rot F x y = (r, c, s)) :
    ∃ c0 s0, ss F (max |x| |y|) (min |x| |y|) = (r, c0, s0) ∧
      0 < max |x| |y| ∧ 0 < min |x| |y| ∧ min |x| |y| ≤ max |x| |y| ∧
      c * c + s * s = c0 * c0 + s0 * s0 ∧
      c * x - s * y = c0 * max |x| |y| + s0 * min |x| |y| ∧
      x * x + y * y = max |x| |y| * max |x| |y| + min |x| |y| * min |x| |y| := by
  rw [rot_eq, if_neg hy0, if_neg hx0] at h
  have hx := sg_mul_eq_abs x
  have hy := sg_mul_eq_abs y
  have hsx := sg_mul_self x
  have hsy := sg_mul_self y
  have hax := abs_mul_abs_self x
  have hay := abs_mul_abs_self y
  have hpx : 0 < |x| := abs_pos.mpr hx0
  have hpy : 0 < |y| := abs_pos.mpr hy0
  split at h
  · next hlt =>
    rw [max_eq_left hlt.le, min_eq_right hlt.le]
    rcases hss : ss F |x| |y| with ⟨r0, c0, s0⟩
    rw [hss] at h
    simp only [Prod.mk.injEq] at h
    obtain ⟨rfl, rfl, rfl⟩ := h
    refine ⟨c0, s0, rfl, hpx, hpy, hlt.le, ?_, ?_, ?_⟩
    · linear_combination (c0 * c0) * hsx + (s0 * s0) * hsy
    · linear_combination c0 * hx + s0 * hy
    · linear_combination (-1 : K) * hax - hay
  · next hlt =>
    have hle : |x| ≤ |y| := not_lt.mp hlt
    rw [max_eq_right hle, min_eq_left hle]
    rcases hss : ss F |y| |x| with ⟨r0, c0, s0⟩
    rw [hss] at h
    simp only [Prod.mk.injEq] at h
    obtain ⟨rfl, rfl, rfl⟩ := h
    refine ⟨c0, s0, rfl, hpy, hpx, hle, ?_, ?_, ?_⟩
    · linear_combination (s0 * s0) * hsx + (c0 * c0) * hsy
    · linear_combination s0 * hx + c0 * hy
    · linear_combination (-1 : K) * hax - hay

/-- MAIN: for all inputs, `0 ≤ r` and the rotation annihilates `y` exactly, in every branch -/
theorem rot_spec (hsq : ∀ x : K, 0 ≤ x → F.sqrt x * F.sqrt x = x ∧ 0 ≤ F.sqrt x)
    (x y : K) (r c s : K) (h : rot F x y = (r, c, s)) : 0 ≤ r ∧ s * x + c * y = 0 := by
  refine ⟨?_, rot_annihilate F x y r c s h⟩
  by_cases hy0 : y = 0
  · subst hy0
    rw [(rot_zero_y_spec F x r c s h).2.2.2.2]; exact abs_nonneg x
  by_cases hx0 : x = 0
  · subst hx0
    rw [(rot_zero_x_spec F y hy0 r c s h).2.2.2.2]; exact abs_nonneg y
  obtain ⟨c0, s0, hss, hM, hm, _, _⟩ := rot_nz F x y hx0 hy0 r c s h
  exact (ss_r_pos F hsq _ _ hM hm.le r c0 s0 hss).le

/-- when the standard branch is taken (or one component is zero) the rotation is exactly orthogonal
    and `r` is exactly the norm -/
theorem rot_std (hsq : ∀ x : K, 0 ≤ x → F.sqrt x * F.sqrt x = x ∧ 0 ≤ F.sqrt x)
    (x y : K) (hcase : x = 0 ∨ y = 0 ∨ cutoff F ≤ min |x| |y| / max |x| |y|)
    (r c s : K) (h : rot F x y = (r, c, s)) :
    c * c + s * s = 1 ∧ c * x - s * y = r ∧ r * r = x * x + y * y ∧ 0 ≤ r ∧ s * x + c * y = 0 := by
  obtain ⟨hr0, han⟩ := rot_spec F hsq x y r c s h
  refine ⟨?_, ?_, ?_, hr0, han⟩
  all_goals
    by_cases hy0 : y = 0
    · subst hy0
      obtain ⟨h1, h2, _, h4, _⟩ := rot_zero_y_spec F x r c s h
      first | exact h1 | exact h2 | exact h4
    by_cases hx0 : x = 0
    · subst hx0
      obtain ⟨h1, h2, _, h4, _⟩ := rot_zero_x_spec F y hy0 r c s h
      first | exact h1 | exact h2 | exact h4
    have hcut : cutoff F ≤ min |x| |y| / max |x| |y| := by
      rcases hcase with h | h | h
      · exact absurd h hx0
      · exact absurd h hy0
      · exact h
    obtain ⟨c0, s0, hss, hM, hm, _, e1, e2, e3⟩ := rot_nz F x y hx0 hy0 r c s h
    obtain ⟨h1, h2, h3, h4, h5, _, _⟩ := ss_std F hsq _ _ hM hm.le hcut r c0 s0 hss
  · rw [e1]; exact h1
  · rw [e2]
    have key : r * (c0 * max |x| |y| + s0 * min |x| |y|) = r * r := by
      linear_combination (max |x| |y|) * h2 + (min |x| |y|) * h3 - h4
    exact mul_left_cancel₀ h5.ne' key
  · rw [e3]; exact h4

/-- if the cutoff is not positive the series branch is never taken -/
theorem rot_std_of_cutoff_nonpos (hsq : ∀ x : K, 0 ≤ x → F.sqrt x * F.sqrt x = x ∧ 0 ≤ F.sqrt x)
    (hc : cutoff F ≤ 0) (x y : K) (r c s : K) (h : rot F x y = (r, c, s)) :
    c * c + s * s = 1 ∧ c * x - s * y = r ∧ r * r = x * x + y * y ∧ 0 ≤ r ∧ s * x + c * y = 0 := by
  apply rot_std F hsq x y _ r c s h
  right; right
  exact le_trans hc (div_nonneg (le_min (abs_nonneg x) (abs_nonneg y)) (le_max_of_le_left (abs_nonneg x)))

/-- series branch: orthogonality defect, value of `r`, and of `c x - s y` -/
theorem rot_taylor (x y : K) (hx0 : x ≠ 0) (hy0 : y ≠ 0)
    (hcut : min |x| |y| / max |x| |y| < cutoff F)
    (r c s : K) (h : rot F x y = (r, c, s)) :
    |c * c + s * s - 1| ≤ 5 / 8 * (min |x| |y| / max |x| |y|) ^ 6 ∧
    0 < r ∧ max |x| |y| ≤ r ∧
    r = max |x| |y| * (1 + (min |x| |y| / max |x| |y|) ^ 2 / 2 - (min |x| |y| / max |x| |y|) ^ 4 / 8
          + (min |x| |y| / max |x| |y|) ^ 6 / 16) ∧
    |r * r - (x * x + y * y)| ≤ 5 / 64 * (max |x| |y| * max |x| |y|) * (min |x| |y| / max |x| |y|) ^ 8 ∧
    c * x - s * y = (1 - (min |x| |y| / max |x| |y|) ^ 2 / 2 + 3 / 8 * (min |x| |y| / max |x| |y|) ^ 4)
          * (1 + (min |x| |y| / max |x| |y|) ^ 2) * max |x| |y| ∧
    s * x + c * y = 0 := by
  obtain ⟨c0, s0, hss, hM, hm, hmM, e1, e2, e3⟩ := rot_nz F x y hx0 hy0 r c s h
  obtain ⟨h1, h2, _, _, _, h6, h7, h8, h9⟩ := ss_taylor F _ _ hM hm.le hmM hcut r c0 s0 hss
  refine ⟨by rw [e1]; exact h2, lt_of_lt_of_le hM h6, h6, h8, by rw [e3]; exact h9, ?_,
    rot_annihilate F x y r c s h⟩
  rw [e2, h1, ← h7]
  have hta : min |x| |y| / max |x| |y| * max |x| |y| = min |x| |y| := div_mul_cancel₀ _ hM.ne'
  generalize min |x| |y| / max |x| |y| = t at *
  rw [← hta]; ring


/-! ### the same statements on the generated names (`ss`, `rot` are definitional abbreviations) -/

theorem ss_def (a b : K) : ss F a b = @Gen.Givens.stable_scaling K _ _ _ _ _ (scOfField F) a b := rfl
theorem rot_def (x y : K) : rot F x y = @Gen.Givens.compute_rotation K _ _ _ _ _ (scOfField F) x y := rfl
theorem cutoff_def :
    cutoff F = @Sc.lit K (scOfField F) 1 (-1) * @Sc.pow K (scOfField F) (@Sc.eps K (scOfField F))
      (@Sc.lit K (scOfField F) 25 (-2)) := rfl

/-- `rot_spec` stated directly on `Gen.Givens.compute_rotation` -/
theorem rot_spec_gen (hsq : ∀ x : K, 0 ≤ x → F.sqrt x * F.sqrt x = x ∧ 0 ≤ F.sqrt x) (x y : K) :
    0 ≤ (@Gen.Givens.compute_rotation K _ _ _ _ _ (scOfField F) x y).1 ∧
    (@Gen.Givens.compute_rotation K _ _ _ _ _ (scOfField F) x y).2.2 * x +
      (@Gen.Givens.compute_rotation K _ _ _ _ _ (scOfField F) x y).2.1 * y = 0 :=
  rot_spec F hsq x y _ _ _ rfl

end C08Givens
-- #print axioms C08Givens.rot_spec_gen
-- #print axioms C08Givens.rot_std
-- #print axioms C08Givens.rot_taylor
-- #print axioms C08Givens.ss_std
-- #print axioms C08Givens.ss_taylor
