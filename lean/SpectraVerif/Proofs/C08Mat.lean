/-
  C08 — array infrastructure for the column-major `Lin.Mat` / `Lin.Vec` layer and for the loop combinators of
  `Model/HessQR.lean` (`rowsPair`, `colsPair`, `vecPair`, `addDiag`, `subDiag`, `zeroBelow`).
  Generic in the scalar: only `[Sc α]` (needed by `get`, whose out-of-range value is `Sc.ofInt 0`).  Core Lean only.

  Every loop gets an entrywise specification: which entries change and to what, plus preservation of the
  dimensions and of well-formedness `WF m : m.d.size = m.rows * m.cols`.
-/
import SpectraVerif.Model.HessQR

set_option linter.unusedSectionVars false
set_option linter.unusedVariables false

namespace C08Mat
open Lin QRModel

variable {α : Type}

/-! ### index arithmetic of the column-major layout -/

theorem idx_lt {r c i j : Nat} (hi : i < r) (hj : j < c) : i + j * r < r * c := by
  have h1 : (j + 1) * r ≤ c * r := Nat.mul_le_mul_right r hj
  have h2 : (j + 1) * r = j * r + r := Nat.succ_mul j r
  have h3 : c * r = r * c := Nat.mul_comm c r
  omega

theorem idx_mod {r i : Nat} (j : Nat) (hi : i < r) : (i + j * r) % r = i := by
  rw [Nat.add_mul_mod_self_right, Nat.mod_eq_of_lt hi]

theorem idx_div {r i : Nat} (j : Nat) (hi : i < r) : (i + j * r) / r = j := by
  have hr : 0 < r := by omega
  rw [Nat.add_mul_div_right _ _ hr, Nat.div_eq_of_lt hi, Nat.zero_add]

theorem idx_inj {r i j i' j' : Nat} (hi : i < r) (hi' : i' < r) (h : i + j * r = i' + j' * r) : i = i' ∧ j = j' := by
  have h1 := idx_mod j hi
  have h2 := idx_mod j' hi'
  have h3 := idx_div j hi
  have h4 := idx_div j' hi'
  rw [h] at h1 h3
  exact ⟨by omega, by omega⟩

/-! ### well-formed matrices, `get` / `set` / `ofFn` -/

def WF (m : Mat α) : Prop := m.d.size = m.rows * m.cols

@[simp] theorem set_rows (m : Mat α) (i j : Nat) (x : α) : (m.set i j x).rows = m.rows := by
  unfold Mat.set; split <;> rfl

@[simp] theorem set_cols (m : Mat α) (i j : Nat) (x : α) : (m.set i j x).cols = m.cols := by
  unfold Mat.set; split <;> rfl

theorem set_WF {m : Mat α} (hw : WF m) (i j : Nat) (x : α) : WF (m.set i j x) := by
  unfold WF at hw ⊢
  unfold Mat.set; split
  · simpa [Array.size_setIfInBounds] using hw
  · exact hw

theorem getD_setIfInBounds (d : Array α) (k k' : Nat) (x z : α) (hk : k < d.size) :
    (d.setIfInBounds k x).getD k' z = if k' = k then x else d.getD k' z := by
  rw [Array.getD_eq_getD_getElem?, Array.getD_eq_getD_getElem?, Array.getElem?_setIfInBounds]
  by_cases h : k = k'
  · subst h; simp [hk]
  · have h' : ¬ k' = k := fun e => h e.symm
    simp [h, h']

variable [Sc α]

theorem get_set {m : Mat α} (hw : WF m) {i j i' j' : Nat} (x : α)
    (hi : i < m.rows) (hj : j < m.cols) (hi' : i' < m.rows) (hj' : j' < m.cols) :
    (m.set i j x).get i' j' = if i' = i ∧ j' = j then x else m.get i' j' := by
  have hk : i + j * m.rows < m.d.size := by rw [hw]; exact idx_lt hi hj
  unfold Mat.set
  rw [if_pos ⟨hi, hj⟩]
  unfold Mat.get
  simp only []
  rw [getD_setIfInBounds _ _ _ _ _ hk]
  by_cases h : i' = i ∧ j' = j
  · obtain ⟨rfl, rfl⟩ := h; simp
  · have h2 : ¬ (i' + j' * m.rows = i + j * m.rows) := fun e => h (idx_inj hi' hi e)
    rw [if_neg h2, if_neg h]

omit [Sc α] in
/-- `set` outside the range is the identity -/
theorem set_oob (m : Mat α) (i j : Nat) (x : α) (h : ¬ (i < m.rows ∧ j < m.cols)) : m.set i j x = m := by
  unfold Mat.set; rw [if_neg h]

omit [Sc α] in
@[simp] theorem ofFn_rows (r c : Nat) (f : Nat → Nat → α) : (Mat.ofFn r c f).rows = r := rfl
omit [Sc α] in
@[simp] theorem ofFn_cols (r c : Nat) (f : Nat → Nat → α) : (Mat.ofFn r c f).cols = c := rfl

omit [Sc α] in
theorem ofFn_WF (r c : Nat) (f : Nat → Nat → α) : WF (Mat.ofFn r c f) := by
  unfold WF Mat.ofFn; simp

theorem get_ofFn (r c : Nat) (f : Nat → Nat → α) {i j : Nat} (hi : i < r) (hj : j < c) :
    (Mat.ofFn r c f).get i j = f i j := by
  have hk : i + j * r < r * c := idx_lt hi hj
  unfold Mat.get Mat.ofFn
  simp only []
  rw [Array.getD_eq_getD_getElem?, Array.getElem?_ofFn, dif_pos hk]
  simp only [Option.getD_some]
  rw [idx_mod j hi, idx_div j hi]

@[simp] theorem zeros_rows (r c : Nat) : (Mat.zeros r c : Mat α).rows = r := rfl
@[simp] theorem zeros_cols (r c : Nat) : (Mat.zeros r c : Mat α).cols = c := rfl

theorem zeros_WF (r c : Nat) : WF (Mat.zeros r c : Mat α) := by
  unfold WF Mat.zeros; simp

/-- every entry of `zeros` (in or out of range) is `zero` -/
theorem get_zeros (r c i j : Nat) : (Mat.zeros r c : Mat α).get i j = zero := by
  unfold Mat.get Mat.zeros
  simp only []
  rw [Array.getD_eq_getD_getElem?]
  by_cases h : i + j * r < r * c
  · simp [h]
  · simp [h]

/-- extensionality: two well-formed matrices of the same shape with the same in-range entries are equal -/
theorem ext_get {m1 m2 : Mat α} (h1 : WF m1) (h2 : WF m2) (hr : m1.rows = m2.rows) (hc : m1.cols = m2.cols)
    (h : ∀ a b, a < m1.rows → b < m1.cols → m1.get a b = m2.get a b) : m1 = m2 := by
  obtain ⟨r1, c1, d1⟩ := m1
  obtain ⟨r2, c2, d2⟩ := m2
  simp only at hr hc
  subst hr; subst hc
  unfold WF at h1 h2
  simp only at h1 h2
  have hd : d1 = d2 := by
    apply Array.ext
    · rw [h1, h2]
    · intro k hk1 hk2
      have hk : k < r1 * c1 := by rw [← h1]; exact hk1
      have hr0 : 0 < r1 := by
        rcases Nat.eq_zero_or_pos r1 with h0 | h0
        · subst h0; simp at hk
        · exact h0
      have hmod : k % r1 < r1 := Nat.mod_lt _ hr0
      have hdiv : k / r1 < c1 := by
        rw [Nat.div_lt_iff_lt_mul hr0, Nat.mul_comm]; exact hk
      have hkk : k % r1 + k / r1 * r1 = k := by
        rw [Nat.mul_comm]; exact Nat.mod_add_div k r1
      have := h (k % r1) (k / r1) hmod hdiv
      unfold Mat.get at this
      simp only [hkk] at this
      rw [Array.getD_eq_getD_getElem?, Array.getD_eq_getD_getElem?] at this
      simpa [hk1, hk2] using this
  rw [hd]

/-! ### vectors -/

omit [Sc α] in
theorem vset_size (v : Vec α) (i : Nat) (x : α) : (vset v i x).size = v.size := by
  unfold vset; exact Array.size_setIfInBounds

theorem vget_vset (v : Vec α) {i i' : Nat} (x : α) (hi : i < v.size) :
    vget (vset v i x) i' = if i' = i then x else vget v i' := by
  unfold vget vset; exact getD_setIfInBounds v i i' x zero hi

theorem vget_push_lt (v : Vec α) (x : α) {i : Nat} (hi : i < v.size) : vget (v.push x) i = vget v i := by
  unfold vget
  rw [Array.getD_eq_getD_getElem?, Array.getD_eq_getD_getElem?, Array.getElem?_push]
  have : ¬ i = v.size := by omega
  rw [if_neg this]

theorem vget_push_eq (v : Vec α) (x : α) : vget (v.push x) v.size = x := by
  unfold vget
  rw [Array.getD_eq_getD_getElem?, Array.getElem?_push]
  simp

/-- `vecPair`: entries `i`, `i+1` are replaced by the image of the pair -/
theorem vecPair_spec (f : α → α → α × α) (y : Vec α) {i : Nat} (hi : i + 1 < y.size) :
    (vecPair f y i).size = y.size ∧
    ∀ a, vget (vecPair f y i) a =
      if a = i then (f (vget y i) (vget y (i + 1))).1
      else if a = i + 1 then (f (vget y i) (vget y (i + 1))).2 else vget y a := by
  unfold vecPair
  simp only []
  refine ⟨by rw [vset_size, vset_size], ?_⟩
  intro a
  have h1 : i < y.size := by omega
  have h2 : i + 1 < (vset y i (f (vget y i) (vget y (i + 1))).1).size := by rw [vset_size]; exact hi
  rw [vget_vset _ _ h2, vget_vset _ _ h1]
  by_cases ha : a = i
  · subst ha
    simp
  · simp [ha]

/-! ### `rowsPair` -/

theorem rowsPair_succ (f : α → α → α × α) (Y : Mat α) (i j0 cnt : Nat) :
    rowsPair f Y i j0 (cnt + 1) =
      (((rowsPair f Y i j0 cnt).set i (j0 + cnt)
          (f ((rowsPair f Y i j0 cnt).get i (j0 + cnt)) ((rowsPair f Y i j0 cnt).get (i + 1) (j0 + cnt))).1).set
        (i + 1) (j0 + cnt)
          (f ((rowsPair f Y i j0 cnt).get i (j0 + cnt)) ((rowsPair f Y i j0 cnt).get (i + 1) (j0 + cnt))).2) := by
  unfold rowsPair
  rw [List.range_succ, List.foldl_append]
  rfl

theorem rowsPair_zero (f : α → α → α × α) (Y : Mat α) (i j0 : Nat) : rowsPair f Y i j0 0 = Y := rfl

theorem rowsPair_spec (f : α → α → α × α) {Y : Mat α} (hw : WF Y) {i j0 : Nat} (cnt : Nat)
    (hi : i + 1 < Y.rows) (hc : j0 + cnt ≤ Y.cols) :
    WF (rowsPair f Y i j0 cnt) ∧ (rowsPair f Y i j0 cnt).rows = Y.rows ∧ (rowsPair f Y i j0 cnt).cols = Y.cols ∧
    ∀ a b, a < Y.rows → b < Y.cols →
      (rowsPair f Y i j0 cnt).get a b =
        if j0 ≤ b ∧ b < j0 + cnt then
          (if a = i then (f (Y.get i b) (Y.get (i + 1) b)).1
           else if a = i + 1 then (f (Y.get i b) (Y.get (i + 1) b)).2 else Y.get a b)
        else Y.get a b := by
  induction cnt with
  | zero =>
    refine ⟨hw, rfl, rfl, ?_⟩
    intro a b _ _
    have : ¬ (j0 ≤ b ∧ b < j0 + 0) := by omega
    rw [if_neg this]; rfl
  | succ n ih =>
    obtain ⟨w, hr, hcn, hg⟩ := ih (by omega)
    rw [rowsPair_succ]
    generalize rowsPair f Y i j0 n = Z at w hr hcn hg ⊢
    have hi0 : i < Z.rows := by omega
    have hi1 : i + 1 < Z.rows := by omega
    have hjc : j0 + n < Z.cols := by omega
    have e0 : Z.get i (j0 + n) = Y.get i (j0 + n) := by
      rw [hg i (j0 + n) (by omega) (by omega)]
      have : ¬ (j0 ≤ j0 + n ∧ j0 + n < j0 + n) := by omega
      rw [if_neg this]
    have e1 : Z.get (i + 1) (j0 + n) = Y.get (i + 1) (j0 + n) := by
      rw [hg (i + 1) (j0 + n) (by omega) (by omega)]
      have : ¬ (j0 ≤ j0 + n ∧ j0 + n < j0 + n) := by omega
      rw [if_neg this]
    rw [e0, e1]
    generalize hp : (f (Y.get i (j0 + n)) (Y.get (i + 1) (j0 + n))) = p
    have w1 : WF (Z.set i (j0 + n) p.1) := set_WF w _ _ _
    refine ⟨set_WF w1 _ _ _, by simp [hr], by simp [hcn], ?_⟩
    intro a b ha hb
    rw [get_set w1 _ (by simpa using hi1) (by simpa using hjc) (by simpa [hr] using ha) (by simpa [hcn] using hb)]
    rw [get_set w _ hi0 hjc (by omega) (by omega)]
    rw [hg a b ha hb]
    by_cases hb' : b = j0 + n
    · subst hb'
      have c1 : (j0 ≤ j0 + n ∧ j0 + n < j0 + (n + 1)) := by omega
      have c2 : ¬ (j0 ≤ j0 + n ∧ j0 + n < j0 + n) := by omega
      rw [if_pos c1, if_neg c2]
      by_cases ha1 : a = i + 1
      · subst ha1
        simp [hp]
      · by_cases ha0 : a = i
        · subst ha0; simp [hp]
        · simp [ha0, ha1]
    · have c1 : ¬ (a = i + 1 ∧ b = j0 + n) := fun h => hb' h.2
      have c2 : ¬ (a = i ∧ b = j0 + n) := fun h => hb' h.2
      rw [if_neg c1, if_neg c2]
      by_cases hr1 : j0 ≤ b ∧ b < j0 + n
      · have : j0 ≤ b ∧ b < j0 + (n + 1) := by omega
        rw [if_pos hr1, if_pos this]
      · have : ¬ (j0 ≤ b ∧ b < j0 + (n + 1)) := by omega
        rw [if_neg hr1, if_neg this]

/-- the full-row form used by the `apply_*_mat` loops (`j0 = 0`, `cnt = Y.cols`) -/
theorem rowsPair_full (f : α → α → α × α) {Y : Mat α} (hw : WF Y) {i : Nat} (hi : i + 1 < Y.rows) :
    WF (rowsPair f Y i 0 Y.cols) ∧ (rowsPair f Y i 0 Y.cols).rows = Y.rows ∧
    (rowsPair f Y i 0 Y.cols).cols = Y.cols ∧
    ∀ a b, a < Y.rows → b < Y.cols →
      (rowsPair f Y i 0 Y.cols).get a b =
        if a = i then (f (Y.get i b) (Y.get (i + 1) b)).1
        else if a = i + 1 then (f (Y.get i b) (Y.get (i + 1) b)).2 else Y.get a b := by
  obtain ⟨w, hr, hc, hg⟩ := rowsPair_spec f hw (i := i) (j0 := 0) Y.cols hi (by omega)
  refine ⟨w, hr, hc, ?_⟩
  intro a b ha hb
  rw [hg a b ha hb]
  have : 0 ≤ b ∧ b < 0 + Y.cols := by omega
  rw [if_pos this]

/-! ### `colsPair` -/

theorem colsPair_succ (f : α → α → α × α) (Y : Mat α) (i cnt : Nat) :
    colsPair f Y i (cnt + 1) =
      (((colsPair f Y i cnt).set cnt i
          (f ((colsPair f Y i cnt).get cnt i) ((colsPair f Y i cnt).get cnt (i + 1))).1).set
        cnt (i + 1)
          (f ((colsPair f Y i cnt).get cnt i) ((colsPair f Y i cnt).get cnt (i + 1))).2) := by
  unfold colsPair
  rw [List.range_succ, List.foldl_append]
  rfl

theorem colsPair_zero (f : α → α → α × α) (Y : Mat α) (i : Nat) : colsPair f Y i 0 = Y := rfl

theorem colsPair_spec (f : α → α → α × α) {Y : Mat α} (hw : WF Y) {i : Nat} (cnt : Nat)
    (hi : i + 1 < Y.cols) (hc : cnt ≤ Y.rows) :
    WF (colsPair f Y i cnt) ∧ (colsPair f Y i cnt).rows = Y.rows ∧ (colsPair f Y i cnt).cols = Y.cols ∧
    ∀ a b, a < Y.rows → b < Y.cols →
      (colsPair f Y i cnt).get a b =
        if a < cnt then
          (if b = i then (f (Y.get a i) (Y.get a (i + 1))).1
           else if b = i + 1 then (f (Y.get a i) (Y.get a (i + 1))).2 else Y.get a b)
        else Y.get a b := by
  induction cnt with
  | zero =>
    refine ⟨hw, rfl, rfl, ?_⟩
    intro a b _ _
    have : ¬ (a < 0) := by omega
    rw [if_neg this]; rfl
  | succ n ih =>
    obtain ⟨w, hr, hcn, hg⟩ := ih (by omega)
    rw [colsPair_succ]
    generalize colsPair f Y i n = Z at w hr hcn hg ⊢
    have hi0 : i < Z.cols := by omega
    have hi1 : i + 1 < Z.cols := by omega
    have hjc : n < Z.rows := by omega
    have e0 : Z.get n i = Y.get n i := by
      rw [hg n i (by omega) (by omega)]
      have : ¬ (n < n) := by omega
      rw [if_neg this]
    have e1 : Z.get n (i + 1) = Y.get n (i + 1) := by
      rw [hg n (i + 1) (by omega) (by omega)]
      have : ¬ (n < n) := by omega
      rw [if_neg this]
    rw [e0, e1]
    generalize hp : (f (Y.get n i) (Y.get n (i + 1))) = p
    have w1 : WF (Z.set n i p.1) := set_WF w _ _ _
    refine ⟨set_WF w1 _ _ _, by simp [hr], by simp [hcn], ?_⟩
    intro a b ha hb
    rw [get_set w1 _ (by simpa using hjc) (by simpa using hi1) (by simpa [hr] using ha) (by simpa [hcn] using hb)]
    rw [get_set w _ hjc hi0 (by omega) (by omega)]
    rw [hg a b ha hb]
    by_cases ha' : a = n
    · subst ha'
      have c1 : a < a + 1 := by omega
      have c2 : ¬ (a < a) := by omega
      rw [if_pos c1, if_neg c2]
      by_cases hb1 : b = i + 1
      · subst hb1
        simp [hp]
      · by_cases hb0 : b = i
        · subst hb0; simp [hp]
        · simp [hb0, hb1]
    · have c1 : ¬ (a = n ∧ b = i + 1) := fun h => ha' h.1
      have c2 : ¬ (a = n ∧ b = i) := fun h => ha' h.1
      rw [if_neg c1, if_neg c2]
      by_cases hr1 : a < n
      · have : a < n + 1 := by omega
        rw [if_pos hr1, if_pos this]
      · have : ¬ (a < n + 1) := by omega
        rw [if_neg hr1, if_neg this]

/-- the full-column form used by `apply_YQ` / `apply_YQt` (`cnt = Y.rows`) -/
theorem colsPair_full (f : α → α → α × α) {Y : Mat α} (hw : WF Y) {i : Nat} (hi : i + 1 < Y.cols) :
    WF (colsPair f Y i Y.rows) ∧ (colsPair f Y i Y.rows).rows = Y.rows ∧
    (colsPair f Y i Y.rows).cols = Y.cols ∧
    ∀ a b, a < Y.rows → b < Y.cols →
      (colsPair f Y i Y.rows).get a b =
        if b = i then (f (Y.get a i) (Y.get a (i + 1))).1
        else if b = i + 1 then (f (Y.get a i) (Y.get a (i + 1))).2 else Y.get a b := by
  obtain ⟨w, hr, hc, hg⟩ := colsPair_spec f hw (i := i) Y.rows hi (by omega)
  refine ⟨w, hr, hc, ?_⟩
  intro a b ha hb
  rw [hg a b ha hb, if_pos ha]

/-! ### diagonal updates -/

/-- generic diagonal fold: `M(k,k) ← g (M(k,k))` for `k < n` -/
def mapDiag (g : α → α) (M : Mat α) (n : Nat) : Mat α :=
  (List.range n).foldl (fun M i => M.set i i (g (M.get i i))) M

theorem mapDiag_succ (g : α → α) (M : Mat α) (n : Nat) :
    mapDiag g M (n + 1) = (mapDiag g M n).set n n (g ((mapDiag g M n).get n n)) := by
  unfold mapDiag
  rw [List.range_succ, List.foldl_append]
  rfl

theorem mapDiag_spec (g : α → α) {M : Mat α} (hw : WF M) (n : Nat) (hr : n ≤ M.rows) (hc : n ≤ M.cols) :
    WF (mapDiag g M n) ∧ (mapDiag g M n).rows = M.rows ∧ (mapDiag g M n).cols = M.cols ∧
    ∀ a b, a < M.rows → b < M.cols →
      (mapDiag g M n).get a b = if a = b ∧ a < n then g (M.get a b) else M.get a b := by
  induction n with
  | zero =>
    refine ⟨hw, rfl, rfl, ?_⟩
    intro a b _ _
    have : ¬ (a = b ∧ a < 0) := by omega
    rw [if_neg this]; rfl
  | succ n ih =>
    obtain ⟨w, hr', hc', hg⟩ := ih (by omega) (by omega)
    rw [mapDiag_succ]
    generalize mapDiag g M n = Z at w hr' hc' hg ⊢
    refine ⟨set_WF w _ _ _, by simp [hr'], by simp [hc'], ?_⟩
    intro a b ha hb
    rw [get_set w _ (by omega) (by omega) (by omega) (by omega)]
    rw [hg a b ha hb, hg n n (by omega) (by omega)]
    have cn : ¬ (n = n ∧ n < n) := by omega
    rw [if_neg cn]
    by_cases h : a = n ∧ b = n
    · have : a = b ∧ a < n + 1 := by omega
      rw [if_pos h, if_pos this, h.1, h.2]
    · rw [if_neg h]
      by_cases h2 : a = b ∧ a < n
      · have : a = b ∧ a < n + 1 := by omega
        rw [if_pos h2, if_pos this]
      · have : ¬ (a = b ∧ a < n + 1) := by omega
        rw [if_neg h2, if_neg this]

theorem addDiag_eq [Add α] (M : Mat α) (n : Nat) (d : α) : addDiag M n d = mapDiag (fun x => x + d) M n := rfl
theorem subDiag_eq [Sub α] (M : Mat α) (n : Nat) (d : α) : subDiag M n d = mapDiag (fun x => x - d) M n := rfl

theorem addDiag_spec [Add α] {M : Mat α} (hw : WF M) (n : Nat) (d : α) (hr : n ≤ M.rows) (hc : n ≤ M.cols) :
    WF (addDiag M n d) ∧ (addDiag M n d).rows = M.rows ∧ (addDiag M n d).cols = M.cols ∧
    ∀ a b, a < M.rows → b < M.cols →
      (addDiag M n d).get a b = if a = b ∧ a < n then M.get a b + d else M.get a b := by
  rw [addDiag_eq]; exact mapDiag_spec _ hw n hr hc

theorem subDiag_spec [Sub α] {M : Mat α} (hw : WF M) (n : Nat) (d : α) (hr : n ≤ M.rows) (hc : n ≤ M.cols) :
    WF (subDiag M n d) ∧ (subDiag M n d).rows = M.rows ∧ (subDiag M n d).cols = M.cols ∧
    ∀ a b, a < M.rows → b < M.cols →
      (subDiag M n d).get a b = if a = b ∧ a < n then M.get a b - d else M.get a b := by
  rw [subDiag_eq]; exact mapDiag_spec _ hw n hr hc

/-! ### `zeroBelow` -/

/-- `R(i+2 … i+1+m, i) ← zero` -/
def zeroCol (R : Mat α) (i m : Nat) : Mat α :=
  (List.range m).foldl (fun R k => R.set (i + 2 + k) i zero) R

theorem zeroCol_succ (R : Mat α) (i m : Nat) : zeroCol R i (m + 1) = (zeroCol R i m).set (i + 2 + m) i zero := by
  unfold zeroCol
  rw [List.range_succ, List.foldl_append]
  rfl

theorem zeroCol_spec {R : Mat α} (hw : WF R) (i m : Nat) (hr : i + 2 + m ≤ R.rows) (hc : i < R.cols) :
    WF (zeroCol R i m) ∧ (zeroCol R i m).rows = R.rows ∧ (zeroCol R i m).cols = R.cols ∧
    ∀ a b, a < R.rows → b < R.cols →
      (zeroCol R i m).get a b = if b = i ∧ i + 2 ≤ a ∧ a < i + 2 + m then zero else R.get a b := by
  induction m with
  | zero =>
    refine ⟨hw, rfl, rfl, ?_⟩
    intro a b _ _
    have : ¬ (b = i ∧ i + 2 ≤ a ∧ a < i + 2 + 0) := by omega
    rw [if_neg this]; rfl
  | succ m ih =>
    obtain ⟨w, hr', hc', hg⟩ := ih (by omega)
    rw [zeroCol_succ]
    generalize zeroCol R i m = Z at w hr' hc' hg ⊢
    refine ⟨set_WF w _ _ _, by simp [hr'], by simp [hc'], ?_⟩
    intro a b ha hb
    rw [get_set w _ (by omega) (by omega) (by omega) (by omega)]
    rw [hg a b ha hb]
    by_cases h : a = i + 2 + m ∧ b = i
    · obtain ⟨rfl, rfl⟩ := h
      have : b = b ∧ b + 2 ≤ b + 2 + m ∧ b + 2 + m < b + 2 + (m + 1) := by omega
      rw [if_pos ⟨rfl, rfl⟩, if_pos this]
    · rw [if_neg h]
      by_cases h2 : b = i ∧ i + 2 ≤ a ∧ a < i + 2 + m
      · have : b = i ∧ i + 2 ≤ a ∧ a < i + 2 + (m + 1) := by omega
        rw [if_pos h2, if_pos this]
      · have : ¬ (b = i ∧ i + 2 ≤ a ∧ a < i + 2 + (m + 1)) := by omega
        rw [if_neg h2, if_neg this]

theorem zeroBelow_eq (R : Mat α) (n i : Nat) : UpperHessenbergQR.zeroBelow R n i = zeroCol R i (n - i - 2) := rfl

/-- `zeroBelow R n i` (with `n = R.rows`): column `i` is zeroed from row `i + 2` down, nothing else changes -/
theorem zeroBelow_spec {R : Mat α} (hw : WF R) (n i : Nat) (hn : n = R.rows) (hi : i + 1 < n) (hc : i < R.cols) :
    WF (UpperHessenbergQR.zeroBelow R n i) ∧ (UpperHessenbergQR.zeroBelow R n i).rows = R.rows ∧
    (UpperHessenbergQR.zeroBelow R n i).cols = R.cols ∧
    ∀ a b, a < R.rows → b < R.cols →
      (UpperHessenbergQR.zeroBelow R n i).get a b = if b = i ∧ i + 2 ≤ a then zero else R.get a b := by
  rw [zeroBelow_eq]
  obtain ⟨w, hr, hc', hg⟩ := zeroCol_spec hw i (n - i - 2) (by omega) hc
  refine ⟨w, hr, hc', ?_⟩
  intro a b ha hb
  rw [hg a b ha hb]
  by_cases h : b = i ∧ i + 2 ≤ a
  · have : b = i ∧ i + 2 ≤ a ∧ a < i + 2 + (n - i - 2) := by omega
    rw [if_pos h, if_pos this]
  · have : ¬ (b = i ∧ i + 2 ≤ a ∧ a < i + 2 + (n - i - 2)) := by omega
    rw [if_neg h, if_neg this]

end C08Mat
-- #print axioms C08Mat.get_set
-- #print axioms C08Mat.get_ofFn
-- #print axioms C08Mat.ext_get
-- #print axioms C08Mat.rowsPair_spec
-- #print axioms C08Mat.colsPair_spec
-- #print axioms C08Mat.vecPair_spec
-- #print axioms C08Mat.addDiag_spec
-- #print axioms C08Mat.subDiag_spec
-- #print axioms C08Mat.zeroBelow_spec
