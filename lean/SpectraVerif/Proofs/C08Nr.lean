/-
  C08 helper lemmas: DISCRETE safety of the reflector row counts `m_ref_nr` of `Spectra::DoubleShiftQR`
  (model: `QRModel.DoubleShiftQR`, `Model/DoubleShiftQR.lean`), for every size `n`, every input matrix (hence every deflation
  pattern) and all shifts, at the exact-arithmetic scalar instance `scOfField F` over an ordered field `K`.

  The only numerical hypothesis is `0 < F.minPos` (so that `|0| < near0 = minPos * 10`); every other `Sc.lt`/`Sc.le` test of the
  model may come out either way, `sqrt`, `pow`, `eps` are arbitrary.

  Contents
  * `reflector_nr`, `reflector_nr_zero`, `reflector_nr_eq`    what `compute_reflector` stores in `m_ref_nr[ind]`
  * `apply_PX_nr`, `apply_XP_nr`, `chaseStep_nr`              the `apply_*` functions return only `H`; a chase step stores one count
  * `update_block_nr` (+ `update_block_blockOK`)              the counts of one block: values 1/2/3, live rows inside the block,
                                                              identity at the last index, nothing outside the block is touched
  * `zeroInd`, `zeroInd_spec`                                 the block boundaries `zero_ind` of `compute`: first 0, last n, increasing
  * `compute_nr_blocks`, `compute_nr_safe`                    per-block and flat safety of `m_ref_nr` after `compute`
  * `apply_reads_in_range`, `apply_YQ_last_nr`                arithmetic corollaries for `apply_QtY` / `apply_YQ`
-/
import SpectraVerif.Model.DoubleShiftQR
import SpectraVerif.Proofs.ScField
import Mathlib.Tactic.Linarith

set_option linter.unusedSectionVars false

namespace C08Nr
open QRModel QRModel.DoubleShiftQR Lin

variable {K : Type} [Field K] [LinearOrder K] [IsStrictOrderedRing K] (F : FieldFns K)

/-! ### the model's functions at the instance `scOfField F` -/

abbrev cRef (u : Mat K) (nr : Array Nat) (x1 x2 x3 : K) (ind : Nat) : Mat K × Array Nat :=
  @computeReflector K _ _ _ _ _ (scOfField F) u nr x1 x2 x3 ind
abbrev ub (n : Nat) (s t : K) (st : St K) (il iu : Nat) : St K :=
  @update_block K _ _ _ _ _ (scOfField F) n s t st il iu
abbrev cs (n il bsize : Nat) (st : St K) (i : Nat) : St K :=
  @chaseStep K _ _ _ _ _ (scOfField F) n il bsize st i
abbrev aPX (H u : Mat K) (nr : Array Nat) (r0 c0 nrow ncol ind : Nat) : Mat K :=
  @apply_PX K _ _ _ (scOfField F) H u nr r0 c0 nrow ncol ind
abbrev aXP (H u : Mat K) (nr : Array Nat) (r0 c0 nrow ncol ind : Nat) : Mat K :=
  @apply_XP K _ _ _ (scOfField F) H u nr r0 c0 nrow ncol ind
abbrev comp (mat : Mat K) (s t : K) : DoubleShiftQR K :=
  @DoubleShiftQR.compute K _ _ _ _ _ (scOfField F) mat s t
/-- `H(i, j)` -/
abbrev mget (H : Mat K) (i j : Nat) : K := @Mat.get K (scOfField F) H i j
/-- `m_near_0` -/
abbrev nz : K := @near0 K _ (scOfField F)
/-- the literal `Scalar(0)` the model passes as `x3` for 2-row reflectors -/
abbrev z0 : K := @Lin.zero K (scOfField F)

/-! ### array facts -/

theorem getD_set (a : Array Nat) (i k v : Nat) :
    (a.setIfInBounds i v).getD k 0 = if k = i ∧ i < a.size then v else a.getD k 0 := by
  simp only [Array.getD_eq_getD_getElem?, Array.getElem?_setIfInBounds]
  by_cases h : i = k
  · subst h; by_cases h2 : i < a.size <;> simp [h2]
  · have : ¬ k = i := fun e => h e.symm
    simp [h, this]

theorem getD_push (a : Array Nat) (k v : Nat) :
    (a.push v).getD k 0 = if k < a.size then a.getD k 0 else if k = a.size then v else 0 := by
  simp only [Array.getD_eq_getD_getElem?, Array.getElem?_push]
  by_cases h : k = a.size
  · subst h; simp
  · by_cases h2 : k < a.size
    · simp [h, h2]
    · simp [h, h2]

/-! ### 1. `compute_reflector` -/

/-- the exact value `compute_reflector` stores: 1 if both `|x2|` and `|x3|` are below `m_near_0`, else 2 if `|x3|` is, else 3 -/
theorem reflector_nr_eq (u : Mat K) (nr : Array Nat) (x1 x2 x3 : K) (ind : Nat) :
    (cRef F u nr x1 x2 x3 ind).2 = nr.setIfInBounds ind
      (if |x2| < nz F ∧ |x3| < nz F then 1 else if |x3| < nz F then 2 else 3) := by
  unfold cRef computeReflector
  simp only [ScF.lt, ScF.abs, Bool.and_eq_true, decide_eq_true_eq]
  split <;> rfl

theorem near0_pos (hmin : 0 < F.minPos) : (0 : K) < nz F := by
  show (0 : K) < F.minPos * ((10 : Int) : K)
  have h10 : ((10 : Int) : K) = 10 := by norm_cast
  rw [h10]; positivity

theorem z0_eq : z0 F = 0 := by
  show ((0 : Int) : K) = 0
  simp

theorem reflector_nr (u : Mat K) (nr : Array Nat) (x1 x2 x3 : K) (ind : Nat) :
    ∃ k, (k = 1 ∨ k = 2 ∨ k = 3) ∧ (cRef F u nr x1 x2 x3 ind).2 = nr.setIfInBounds ind k := by
  refine ⟨_, ?_, reflector_nr_eq F u nr x1 x2 x3 ind⟩
  split
  · simp
  · split <;> simp

/-- with `x3 = 0` (what `update_block` passes for the 2-row reflectors) the count is 1 or 2 -/
theorem reflector_nr_zero (hmin : 0 < F.minPos) (u : Mat K) (nr : Array Nat) (x1 x2 x3 : K) (ind : Nat) (h3 : x3 = 0) :
    ∃ k, (k = 1 ∨ k = 2) ∧ (cRef F u nr x1 x2 x3 ind).2 = nr.setIfInBounds ind k := by
  refine ⟨_, ?_, reflector_nr_eq F u nr x1 x2 x3 ind⟩
  have h0 : |x3| < nz F := by rw [h3, abs_zero]; exact near0_pos F hmin
  split
  · simp
  · simp

/-- the same for the model's literal `zero` -/
theorem reflector_nr_z0 (hmin : 0 < F.minPos) (u : Mat K) (nr : Array Nat) (x1 x2 : K) (ind : Nat) :
    ∃ k, (k = 1 ∨ k = 2) ∧ (cRef F u nr x1 x2 (z0 F) ind).2 = nr.setIfInBounds ind k :=
  reflector_nr_zero F hmin u nr x1 x2 (z0 F) ind (z0_eq F)

/-! ### 2. `apply_PX`, `apply_XP`, `chaseStep` and `m_ref_nr`

`apply_PX`/`apply_XP` return the matrix only (their type has no `Array Nat` component): `m_ref_nr` is an input.  In
`chaseStep` and `update_block` the third component of the state is, by construction, what `computeReflector` returned. -/

/-- `apply_PX` with the identity count is the identity (the only way the `nr` array influences it when `nr[ind] = 1`) -/
theorem apply_PX_nr (H u : Mat K) (nr : Array Nat) (r0 c0 nrow ncol ind : Nat) (h : nr.getD ind 0 = 1) :
    aPX F H u nr r0 c0 nrow ncol ind = H := by
  unfold aPX apply_PX
  simp [h]

theorem apply_XP_nr (H u : Mat K) (nr : Array Nat) (r0 c0 nrow ncol ind : Nat) (h : nr.getD ind 0 = 1) :
    aXP F H u nr r0 c0 nrow ncol ind = H := by
  unfold aXP apply_XP
  simp [h]

/-- the `nr` component of a chase step is the one `compute_reflector` returned for index `il + i` -/
theorem chaseStep_nr_eq (n il bsize : Nat) (st : St K) (i : Nat) :
    (cs F n il bsize st i).2.2 =
      (cRef F st.2.1 st.2.2 (mget F st.1 (il + i) (il + i - 1)) (mget F st.1 (il + i + 1) (il + i - 1))
        (mget F st.1 (il + i + 2) (il + i - 1)) (il + i)).2 := rfl

theorem chaseStep_nr (n il bsize : Nat) (st : St K) (i : Nat) :
    ∃ k, (k = 1 ∨ k = 2 ∨ k = 3) ∧ (cs F n il bsize st i).2.2 = st.2.2.setIfInBounds (il + i) k :=
  reflector_nr F _ _ _ _ _ _

/-- the chase loop `i = 1 … m` stores counts in `1..3` at `il+1 … il+m` and touches nothing else -/
theorem chase_fold_nr (n il bsize : Nat) (m : Nat) (st : St K) (hb : il + m < st.2.2.size) :
    ((List.range m).foldl (fun st k => cs F n il bsize st (k + 1)) st).2.2.size = st.2.2.size ∧
    (∀ k, (k ≤ il ∨ il + m < k) →
      ((List.range m).foldl (fun st k => cs F n il bsize st (k + 1)) st).2.2.getD k 0 = st.2.2.getD k 0) ∧
    (∀ k, il < k → k ≤ il + m →
      (1 ≤ ((List.range m).foldl (fun st k => cs F n il bsize st (k + 1)) st).2.2.getD k 0 ∧
       ((List.range m).foldl (fun st k => cs F n il bsize st (k + 1)) st).2.2.getD k 0 ≤ 3)) := by
  induction m with
  | zero =>
    refine ⟨rfl, fun _ _ => rfl, ?_⟩
    intro k h1 h2; omega
  | succ m ih =>
    obtain ⟨ih1, ih2, ih3⟩ := ih (by omega)
    rw [List.range_succ, List.foldl_append, List.foldl_cons, List.foldl_nil]
    generalize (List.range m).foldl (fun st k => cs F n il bsize st (k + 1)) st = r at ih1 ih2 ih3 ⊢
    obtain ⟨v, hv, he⟩ := chaseStep_nr F n il bsize r (m + 1)
    rw [he]
    refine ⟨by rw [Array.size_setIfInBounds, ih1], ?_, ?_⟩
    · intro k hk
      rw [getD_set, if_neg (by omega)]
      exact ih2 k (by omega)
    · intro k h1 h2
      rw [getD_set]
      split
      · omega
      · exact ih3 k h1 (by omega)

/-! ### 3. `update_block` -/

/-- block size 1: only `m_ref_nr[il] = 1` -/
theorem ub_nr_1 (n : Nat) (s t : K) (st : St K) (il iu : Nat) (h : iu - il + 1 = 1) :
    (ub F n s t st il iu).2.2 = st.2.2.setIfInBounds il 1 := by
  unfold ub update_block
  have h1 : (iu - il + 1 == 1) = true := by simp [h]
  simp only [h1, ↓reduceIte]

/-- block size 2: one reflector with `x3 = 0` at `il`, then `m_ref_nr[il+1] = 1` -/
theorem ub_nr_2 (n : Nat) (s t : K) (st : St K) (il iu : Nat) (h : iu - il + 1 = 2) :
    ∃ x1 x2 : K, (ub F n s t st il iu).2.2 =
      (cRef F st.2.1 st.2.2 x1 x2 (z0 F) il).2.setIfInBounds (il + 1) 1 := by
  unfold ub update_block
  have h1 : (iu - il + 1 == 1) = false := by simp [h]
  have h2 : (iu - il + 1 == 2) = true := by simp [h]
  simp only [h1, h2, ↓reduceIte, Bool.false_eq_true]
  exact ⟨_, _, rfl⟩

/-- block size ≥ 3: a reflector at `il`, the chase loop, a reflector with `x3 = 0` at `iu-1`, then `m_ref_nr[iu] = 1` -/
theorem ub_nr_3 (n : Nat) (s t : K) (st : St K) (il iu : Nat) (h : 3 ≤ iu - il + 1) :
    ∃ (H0 : Mat K) (x1 x2 x3 y1 y2 : K) (stc : St K),
      stc = (List.range (iu - il + 1 - 3)).foldl (fun st k => cs F n il (iu - il + 1) st (k + 1))
              (H0, (cRef F st.2.1 st.2.2 x1 x2 x3 il).1, (cRef F st.2.1 st.2.2 x1 x2 x3 il).2) ∧
      (ub F n s t st il iu).2.2 =
        (cRef F stc.2.1 stc.2.2 y1 y2 (z0 F) (iu - 1)).2.setIfInBounds iu 1 := by
  unfold ub update_block
  have h1 : (iu - il + 1 == 1) = false := by simp; omega
  have h2 : (iu - il + 1 == 2) = false := by simp; omega
  simp only [h1, h2, ↓reduceIte, Bool.false_eq_true]
  exact ⟨_, _, _, _, _, _, _, rfl, rfl⟩

/-- what a block `[il, iu]` of `m_ref_nr` must look like: counts in `{1,2,3}`, a 3-row (2-row) reflector has its three (two) rows
    inside the block, and the last index of the block carries the identity -/
def BlockOK (nr : Array Nat) (il iu : Nat) : Prop :=
  (∀ k, il ≤ k → k ≤ iu → (nr.getD k 0 = 1 ∨ nr.getD k 0 = 2 ∨ nr.getD k 0 = 3)) ∧
  (∀ k, il ≤ k → k ≤ iu → nr.getD k 0 = 3 → k + 2 ≤ iu) ∧
  (∀ k, il ≤ k → k ≤ iu → nr.getD k 0 = 2 → k + 1 ≤ iu) ∧
  nr.getD iu 0 = 1

theorem BlockOK.congr {nr nr' : Array Nat} {il iu : Nat} (h : BlockOK nr il iu)
    (he : ∀ k, il ≤ k → k ≤ iu → nr'.getD k 0 = nr.getD k 0) (hle : il ≤ iu) : BlockOK nr' il iu := by
  obtain ⟨h1, h2, h3, h4⟩ := h
  refine ⟨?_, ?_, ?_, ?_⟩
  · intro k a b; rw [he k a b]; exact h1 k a b
  · intro k a b; rw [he k a b]; exact h2 k a b
  · intro k a b; rw [he k a b]; exact h3 k a b
  · rw [he iu hle (Nat.le_refl _)]; exact h4

/-- general-state form of `update_block_nr` -/
theorem update_block_nr_st (hmin : 0 < F.minPos) (n : Nat) (s t : K) (st : St K) (il iu : Nat)
    (hle : il ≤ iu) (hsz : iu < st.2.2.size) :
    (ub F n s t st il iu).2.2.size = st.2.2.size ∧
    (∀ k, (k < il ∨ iu < k) → (ub F n s t st il iu).2.2.getD k 0 = st.2.2.getD k 0) ∧
    BlockOK (ub F n s t st il iu).2.2 il iu := by
  rcases Nat.lt_or_ge (iu - il + 1) 3 with hlt | hge
  · rcases Nat.lt_or_ge (iu - il + 1) 2 with hlt2 | hge2
    · -- block size 1
      have hb : iu - il + 1 = 1 := by omega
      rw [ub_nr_1 F n s t st il iu hb]
      have hi : iu = il := by omega
      subst hi
      refine ⟨Array.size_setIfInBounds, ?_, ?_, ?_, ?_, ?_⟩
      · intro k hk; rw [getD_set, if_neg (by omega)]
      · intro k a b; rw [getD_set, if_pos ⟨by omega, hsz⟩]; simp
      · intro k a b; rw [getD_set, if_pos ⟨by omega, hsz⟩]; simp
      · intro k a b; rw [getD_set, if_pos ⟨by omega, hsz⟩]; simp
      · rw [getD_set, if_pos ⟨rfl, hsz⟩]
    · -- block size 2
      have hb : iu - il + 1 = 2 := by omega
      obtain ⟨x1, x2, he⟩ := ub_nr_2 F n s t st il iu hb
      obtain ⟨v, hv, hr⟩ := reflector_nr_z0 F hmin st.2.1 st.2.2 x1 x2 il
      rw [he, hr]
      have hi : iu = il + 1 := by omega
      subst hi
      have hs1 : il < st.2.2.size := by omega
      have hs2 : il + 1 < (st.2.2.setIfInBounds il v).size := by rw [Array.size_setIfInBounds]; exact hsz
      have key : ∀ k, ((st.2.2.setIfInBounds il v).setIfInBounds (il + 1) 1).getD k 0 =
          if k = il + 1 then 1 else if k = il then v else st.2.2.getD k 0 := by
        intro k
        rw [getD_set, getD_set]
        by_cases a : k = il + 1
        · rw [if_pos ⟨a, hs2⟩, if_pos a]
        · rw [if_neg (fun h => a h.1), if_neg a]
          by_cases b : k = il
          · rw [if_pos ⟨b, hs1⟩, if_pos b]
          · rw [if_neg (fun h => b h.1), if_neg b]
      refine ⟨by rw [Array.size_setIfInBounds, Array.size_setIfInBounds], ?_, ?_, ?_, ?_, ?_⟩
      · intro k hk; rw [key, if_neg (by omega), if_neg (by omega)]
      · intro k a b; rw [key]; split
        · simp
        · rw [if_pos (by omega)]; omega
      · intro k a b; rw [key]; split
        · simp
        · rw [if_pos (by omega)]; omega
      · intro k a b; rw [key]; split
        · simp
        · rw [if_pos (by omega)]; omega
      · rw [key, if_pos rfl]
  · -- block size ≥ 3
    obtain ⟨H0, x1, x2, x3, y1, y2, stc, hstc, he⟩ := ub_nr_3 F n s t st il iu hge
    obtain ⟨v0, hv0, hr0⟩ := reflector_nr F st.2.1 st.2.2 x1 x2 x3 il
    obtain ⟨v1, hv1, hr1⟩ := reflector_nr_z0 F hmin stc.2.1 stc.2.2 y1 y2 (iu - 1)
    have hs0 : il < st.2.2.size := by omega
    have hsz1 : (cRef F st.2.1 st.2.2 x1 x2 x3 il).2.size = st.2.2.size := by rw [hr0, Array.size_setIfInBounds]
    have hm : il + (iu - il + 1 - 3) = iu - 2 := by omega
    have hch := chase_fold_nr F n il (iu - il + 1) (iu - il + 1 - 3)
      (H0, (cRef F st.2.1 st.2.2 x1 x2 x3 il).1, (cRef F st.2.1 st.2.2 x1 x2 x3 il).2)
      (by show il + (iu - il + 1 - 3) < (cRef F st.2.1 st.2.2 x1 x2 x3 il).2.size; rw [hsz1]; omega)
    rw [← hstc] at hch
    obtain ⟨c1, c2, c3⟩ := hch
    have c1' : stc.2.2.size = st.2.2.size := by rw [c1]; exact hsz1
    have c2' : ∀ k, (k ≤ il ∨ iu - 2 < k) → stc.2.2.getD k 0 = if k = il then v0 else st.2.2.getD k 0 := by
      intro k hk
      rw [c2 k (by omega)]
      show (cRef F st.2.1 st.2.2 x1 x2 x3 il).2.getD k 0 = _
      rw [hr0, getD_set]
      by_cases a : k = il
      · rw [if_pos ⟨a, hs0⟩, if_pos a]
      · rw [if_neg (fun h => a h.1), if_neg a]
    have c3' : ∀ k, il < k → k ≤ iu - 2 → (1 ≤ stc.2.2.getD k 0 ∧ stc.2.2.getD k 0 ≤ 3) := by
      intro k a b; exact c3 k a (by omega)
    rw [he, hr1]
    have hsa : iu - 1 < stc.2.2.size := by omega
    have hsb : iu < (stc.2.2.setIfInBounds (iu - 1) v1).size := by rw [Array.size_setIfInBounds]; omega
    have key : ∀ k, ((stc.2.2.setIfInBounds (iu - 1) v1).setIfInBounds iu 1).getD k 0 =
        if k = iu then 1 else if k = iu - 1 then v1 else stc.2.2.getD k 0 := by
      intro k
      rw [getD_set, getD_set]
      by_cases a : k = iu
      · rw [if_pos ⟨a, hsb⟩, if_pos a]
      · rw [if_neg (fun h => a h.1), if_neg a]
        by_cases b : k = iu - 1
        · rw [if_pos ⟨b, hsa⟩, if_pos b]
        · rw [if_neg (fun h => b h.1), if_neg b]
    -- value of every entry of the block
    have val : ∀ k, il ≤ k → k ≤ iu →
        (k = iu ∧ ((stc.2.2.setIfInBounds (iu - 1) v1).setIfInBounds iu 1).getD k 0 = 1) ∨
        (k = iu - 1 ∧ (((stc.2.2.setIfInBounds (iu - 1) v1).setIfInBounds iu 1).getD k 0 = 1 ∨
                       ((stc.2.2.setIfInBounds (iu - 1) v1).setIfInBounds iu 1).getD k 0 = 2)) ∨
        (k ≤ iu - 2 ∧ 1 ≤ ((stc.2.2.setIfInBounds (iu - 1) v1).setIfInBounds iu 1).getD k 0 ∧
                       ((stc.2.2.setIfInBounds (iu - 1) v1).setIfInBounds iu 1).getD k 0 ≤ 3) := by
      intro k a b
      rw [key]
      by_cases e1 : k = iu
      · left; exact ⟨e1, by rw [if_pos e1]⟩
      · right
        rw [if_neg e1]
        by_cases e2 : k = iu - 1
        · left; rw [if_pos e2]; exact ⟨e2, hv1⟩
        · right
          rw [if_neg e2]
          refine ⟨by omega, ?_⟩
          by_cases e3 : k = il
          · rw [c2' k (by omega), if_pos e3]; omega
          · exact c3' k (by omega) (by omega)
    refine ⟨by rw [Array.size_setIfInBounds, Array.size_setIfInBounds]; exact c1', ?_, ?_, ?_, ?_, ?_⟩
    · intro k hk
      rw [key, if_neg (by omega), if_neg (by omega), c2' k (by omega), if_neg (by omega)]
    · intro k a b; have := val k a b; omega
    · intro k a b; have := val k a b; omega
    · intro k a b; have := val k a b; omega
    · rw [key, if_pos rfl]

/-- `update_block(il, iu)` on the counts, `il ≤ iu < nr.size`:
    (a) the size is unchanged, (b) entries outside `[il, iu]` are untouched, (c) entries inside are 1, 2 or 3,
    (d) a 3-row reflector at `k` has `k + 2 ≤ iu`, (e) a 2-row reflector at `k` has `k + 1 ≤ iu`, (f) the last index is the
    identity.  Covers block sizes 1, 2 and ≥ 3. -/
theorem update_block_nr (hmin : 0 < F.minPos) (n : Nat) (s t : K) (H u : Mat K) (nr : Array Nat) (il iu : Nat)
    (hle : il ≤ iu) (hsz : iu < nr.size) :
    (ub F n s t (H, u, nr) il iu).2.2.size = nr.size ∧
    (∀ k, (k < il ∨ iu < k) → (ub F n s t (H, u, nr) il iu).2.2.getD k 0 = nr.getD k 0) ∧
    (∀ k, il ≤ k → k ≤ iu → ((ub F n s t (H, u, nr) il iu).2.2.getD k 0 = 1 ∨
        (ub F n s t (H, u, nr) il iu).2.2.getD k 0 = 2 ∨ (ub F n s t (H, u, nr) il iu).2.2.getD k 0 = 3)) ∧
    (∀ k, il ≤ k → k ≤ iu → (ub F n s t (H, u, nr) il iu).2.2.getD k 0 = 3 → k + 2 ≤ iu) ∧
    (∀ k, il ≤ k → k ≤ iu → (ub F n s t (H, u, nr) il iu).2.2.getD k 0 = 2 → k + 1 ≤ iu) ∧
    (ub F n s t (H, u, nr) il iu).2.2.getD iu 0 = 1 :=
  update_block_nr_st F hmin n s t (H, u, nr) il iu hle hsz

/-! ### 4. `compute` -/

/-- the array `zero_ind` of `compute` (block starts, with the leading 0 and the trailing n) -/
def zeroInd (mat : Mat K) : Array Nat :=
  ((List.range (mat.rows - 1)).foldl
    (@splitStep K _ _ (scOfField F) mat.rows (nz F * (@Sc.ofInt K (scOfField F) (mat.rows : Int) / F.eps)))
    (@Mat.ofFn K mat.rows mat.rows (fun i j => @Mat.get K (scOfField F) mat i j), (#[0] : Array Nat))).2.push mat.rows

/-- the state `compute` starts the block loop from -/
def st0 (mat : Mat K) : St K :=
  (((List.range (mat.rows - 1)).foldl
    (@splitStep K _ _ (scOfField F) mat.rows (nz F * (@Sc.ofInt K (scOfField F) (mat.rows : Int) / F.eps)))
    (@Mat.ofFn K mat.rows mat.rows (fun i j => @Mat.get K (scOfField F) mat i j), (#[0] : Array Nat))).1,
   @Mat.zeros K (scOfField F) 3 mat.rows, Array.replicate mat.rows 0)

/-- `m_ref_nr` after `compute` is the result of the block loop over `zero_ind` -/
theorem compute_nr_eq (mat : Mat K) (s t : K) :
    (comp F mat s t).nr =
      ((List.range ((zeroInd F mat).size - 1)).foldl
        (fun st i => ub F mat.rows s t st ((zeroInd F mat).getD i 0) ((zeroInd F mat).getD (i + 1) 0 - 1)) (st0 F mat)).2.2 := rfl

theorem compute_n_eq (mat : Mat K) (s t : K) : (comp F mat s t).n = mat.rows := rfl

/-- one deflation step either leaves `zero_ind` alone or pushes `i + 1` -/
theorem splitStep_zi (n : Nat) (e : K) (st : Mat K × Array Nat) (i : Nat) :
    (@splitStep K _ _ (scOfField F) n e st i).2 = st.2 ∨
    (@splitStep K _ _ (scOfField F) n e st i).2 = st.2.push (i + 1) := by
  unfold splitStep
  simp only []
  split
  · right; rfl
  · left; rfl

/-- invariant of the first pass: non-empty, first entry 0, strictly increasing, all entries `≤ b` -/
def ZI (zi : Array Nat) (b : Nat) : Prop :=
  0 < zi.size ∧ zi.getD 0 0 = 0 ∧ (∀ a, a + 1 < zi.size → zi.getD a 0 < zi.getD (a + 1) 0) ∧
  (∀ a, a < zi.size → zi.getD a 0 ≤ b)

theorem ZI.push {zi : Array Nat} {b v : Nat} (h : ZI zi b) (hv : b < v) : ZI (zi.push v) v := by
  obtain ⟨h1, h2, h3, h4⟩ := h
  refine ⟨by rw [Array.size_push]; omega, ?_, ?_, ?_⟩
  · rw [getD_push, if_pos h1]; exact h2
  · intro a ha
    rw [Array.size_push] at ha
    rw [getD_push, getD_push, if_pos (by omega)]
    by_cases hl : a + 1 < zi.size
    · rw [if_pos hl]; exact h3 a hl
    · rw [if_neg hl, if_pos (by omega)]
      have := h4 a (by omega); omega
  · intro a ha
    rw [Array.size_push] at ha
    rw [getD_push]
    by_cases hl : a < zi.size
    · rw [if_pos hl]; have := h4 a hl; omega
    · rw [if_neg hl, if_pos (by omega)]

theorem ZI.mono {zi : Array Nat} {b b' : Nat} (h : ZI zi b) (hb : b ≤ b') : ZI zi b' := by
  obtain ⟨h1, h2, h3, h4⟩ := h
  exact ⟨h1, h2, h3, fun a ha => Nat.le_trans (h4 a ha) hb⟩

theorem split_fold_ZI (n : Nat) (e : K) (H0 : Mat K) (m : Nat) :
    ZI ((List.range m).foldl (@splitStep K _ _ (scOfField F) n e) (H0, (#[0] : Array Nat))).2 m := by
  induction m with
  | zero =>
    refine ⟨by simp, by simp, ?_, ?_⟩
    · intro a ha; simp at ha
    · intro a ha
      have : a = 0 := by simpa using ha
      subst this; simp
  | succ m ih =>
    rw [List.range_succ, List.foldl_append, List.foldl_cons, List.foldl_nil]
    rcases splitStep_zi F n e ((List.range m).foldl (@splitStep K _ _ (scOfField F) n e) (H0, (#[0] : Array Nat))) m
      with h | h
    · rw [h]; exact ih.mono (Nat.le_succ m)
    · rw [h]; exact ih.push (Nat.lt_succ_self m)

/-- `zero_ind`: at least two entries, first 0, last n, strictly increasing (adjacent form), all entries `≤ n`  (`1 ≤ n`) -/
theorem zeroInd_spec (mat : Mat K) (hn : 1 ≤ mat.rows) :
    2 ≤ (zeroInd F mat).size ∧ (zeroInd F mat).getD 0 0 = 0 ∧
    (zeroInd F mat).getD ((zeroInd F mat).size - 1) 0 = mat.rows ∧
    (∀ a, a + 1 < (zeroInd F mat).size → (zeroInd F mat).getD a 0 < (zeroInd F mat).getD (a + 1) 0) ∧
    (∀ a, a < (zeroInd F mat).size → (zeroInd F mat).getD a 0 ≤ mat.rows) := by
  have h := (split_fold_ZI F mat.rows (nz F * (@Sc.ofInt K (scOfField F) (mat.rows : Int) / F.eps))
    (@Mat.ofFn K mat.rows mat.rows (fun i j => @Mat.get K (scOfField F) mat i j)) (mat.rows - 1)).push
    (v := mat.rows) (by omega)
  have hsz : 0 < ((List.range (mat.rows - 1)).foldl
      (@splitStep K _ _ (scOfField F) mat.rows (nz F * (@Sc.ofInt K (scOfField F) (mat.rows : Int) / F.eps)))
      (@Mat.ofFn K mat.rows mat.rows (fun i j => @Mat.get K (scOfField F) mat i j), (#[0] : Array Nat))).2.size :=
    (split_fold_ZI F _ _ _ _).1
  obtain ⟨h1, h2, h3, h4⟩ := h
  refine ⟨?_, h2, ?_, h3, h4⟩
  · show 2 ≤ (Array.push _ _).size
    rw [Array.size_push]; omega
  · show (Array.push _ _).getD ((Array.push _ _).size - 1) 0 = _
    rw [Array.size_push, getD_push, if_neg (by omega), if_pos (by omega)]

/-- adjacent-strict implies monotone -/
theorem zi_mono (zi : Array Nat) (hadj : ∀ a, a + 1 < zi.size → zi.getD a 0 < zi.getD (a + 1) 0)
    (a b : Nat) (hab : a ≤ b) (hb : b < zi.size) : zi.getD a 0 ≤ zi.getD b 0 := by
  induction b with
  | zero => have : a = 0 := by omega
            subst this; exact Nat.le_refl _
  | succ b ih =>
    rcases Nat.lt_or_ge a (b + 1) with h | h
    · have := ih (by omega) (by omega)
      have := hadj b hb
      omega
    · have : a = b + 1 := by omega
      subst this; exact Nat.le_refl _

/-- the block loop of `compute` over any increasing boundary array: after `j` blocks every processed block is `BlockOK` -/
theorem blocks_fold (hmin : 0 < F.minPos) (n : Nat) (s t : K) (zi : Array Nat)
    (hadj : ∀ a, a + 1 < zi.size → zi.getD a 0 < zi.getD (a + 1) 0)
    (hbd : ∀ a, a < zi.size → zi.getD a 0 ≤ n) (st : St K) (h0 : st.2.2.size = n)
    (j : Nat) (hj : j + 1 ≤ zi.size) :
    ((List.range j).foldl (fun st i => ub F n s t st (zi.getD i 0) (zi.getD (i + 1) 0 - 1)) st).2.2.size = n ∧
    (∀ i, i < j → BlockOK ((List.range j).foldl
        (fun st i => ub F n s t st (zi.getD i 0) (zi.getD (i + 1) 0 - 1)) st).2.2 (zi.getD i 0) (zi.getD (i + 1) 0 - 1)) := by
  induction j with
  | zero => exact ⟨h0, fun i hi => absurd hi (Nat.not_lt_zero i)⟩
  | succ j ih =>
    obtain ⟨ih1, ih2⟩ := ih (by omega)
    rw [List.range_succ, List.foldl_append, List.foldl_cons, List.foldl_nil]
    generalize (List.range j).foldl (fun st i => ub F n s t st (zi.getD i 0) (zi.getD (i + 1) 0 - 1)) st = r
      at ih1 ih2 ⊢
    have hlt := hadj j (by omega)
    have hle := hbd (j + 1) (by omega)
    obtain ⟨u1, u2, u3⟩ := update_block_nr_st F hmin n s t r (zi.getD j 0) (zi.getD (j + 1) 0 - 1)
      (by omega) (by omega)
    refine ⟨by rw [u1, ih1], ?_⟩
    intro i hi
    rcases Nat.lt_or_ge i j with h | h
    · have hm := zi_mono zi hadj (i + 1) j (by omega) (by omega)
      have hlt' := hadj i (by omega)
      exact (ih2 i h).congr (fun k _ hk => u2 k (by omega)) (by omega)
    · have : i = j := by omega
      subst this; exact u3

/-- every index below the `j`-th boundary lies in one of the first `j` blocks -/
theorem block_of (zi : Array Nat) (h0 : zi.getD 0 0 = 0) (j k : Nat) (hk : k < zi.getD j 0) :
    ∃ i, i < j ∧ zi.getD i 0 ≤ k ∧ k ≤ zi.getD (i + 1) 0 - 1 := by
  induction j with
  | zero => omega
  | succ j ih =>
    rcases Nat.lt_or_ge k (zi.getD j 0) with h | h
    · obtain ⟨i, hi, a, b⟩ := ih h
      exact ⟨i, by omega, a, b⟩
    · exact ⟨j, by omega, h, by omega⟩

/-- per-block safety of `m_ref_nr` after `compute`: with `zi = zero_ind` (first 0, last n, strictly increasing), every
    consecutive pair `(zi[i], zi[i+1])` delimits a block `[zi[i], zi[i+1]-1]` whose counts are 1/2/3, whose 3-row (2-row)
    reflectors have their rows inside the block, and whose last index carries the identity -/
theorem compute_nr_blocks (hmin : 0 < F.minPos) (mat : Mat K) (s t : K) (hn : 1 ≤ mat.rows) :
    (comp F mat s t).nr.size = mat.rows ∧
    2 ≤ (zeroInd F mat).size ∧ (zeroInd F mat).getD 0 0 = 0 ∧
    (zeroInd F mat).getD ((zeroInd F mat).size - 1) 0 = mat.rows ∧
    (∀ a, a + 1 < (zeroInd F mat).size → (zeroInd F mat).getD a 0 < (zeroInd F mat).getD (a + 1) 0) ∧
    (∀ i, i + 1 < (zeroInd F mat).size →
      BlockOK (comp F mat s t).nr ((zeroInd F mat).getD i 0) ((zeroInd F mat).getD (i + 1) 0 - 1)) := by
  obtain ⟨z1, z2, z3, z4, z5⟩ := zeroInd_spec F mat hn
  have hst0 : (st0 F mat).2.2.size = mat.rows := by show (Array.replicate _ _).size = _; simp
  obtain ⟨b1, b2⟩ := blocks_fold F hmin mat.rows s t (zeroInd F mat) z4 z5 (st0 F mat) hst0
    ((zeroInd F mat).size - 1) (by omega)
  rw [compute_nr_eq]
  exact ⟨b1, z1, z2, z3, z4, fun i hi => b2 i (by omega)⟩

/-- MAIN THEOREM: flat safety of `m_ref_nr` after `compute`, for every matrix with `n = mat.rows ≥ 1` and all shifts:
    `nr.size = n`; every count is 1, 2 or 3; a 3-row reflector at `k` has `k + 2 ≤ n - 1`; a 2-row reflector at `k` has
    `k + 1 ≤ n - 1`; `nr[n-1] = 1` -/
theorem compute_nr_safe (hmin : 0 < F.minPos) (mat : Mat K) (s t : K) (hn : 1 ≤ mat.rows) :
    (comp F mat s t).nr.size = mat.rows ∧
    (∀ k, k < mat.rows → ((comp F mat s t).nr.getD k 0 = 1 ∨ (comp F mat s t).nr.getD k 0 = 2 ∨
        (comp F mat s t).nr.getD k 0 = 3)) ∧
    (∀ k, k < mat.rows → (comp F mat s t).nr.getD k 0 = 3 → k + 2 ≤ mat.rows - 1) ∧
    (∀ k, k < mat.rows → (comp F mat s t).nr.getD k 0 = 2 → k + 1 ≤ mat.rows - 1) ∧
    (comp F mat s t).nr.getD (mat.rows - 1) 0 = 1 := by
  obtain ⟨c1, z1, z2, z3, z4, cb⟩ := compute_nr_blocks F hmin mat s t hn
  have hbd := (zeroInd_spec F mat hn).2.2.2.2
  have loc : ∀ k, k < mat.rows → ∃ i, i + 1 < (zeroInd F mat).size ∧ (zeroInd F mat).getD i 0 ≤ k ∧
      k ≤ (zeroInd F mat).getD (i + 1) 0 - 1 ∧ (zeroInd F mat).getD (i + 1) 0 ≤ mat.rows := by
    intro k hk
    obtain ⟨i, hi, a, b⟩ := block_of (zeroInd F mat) z2 ((zeroInd F mat).size - 1) k (by rw [z3]; exact hk)
    exact ⟨i, by omega, a, b, hbd (i + 1) (by omega)⟩
  refine ⟨c1, ?_, ?_, ?_, ?_⟩
  · intro k hk
    obtain ⟨i, hi, a, b, _⟩ := loc k hk
    exact (cb i hi).1 k a b
  · intro k hk h3
    obtain ⟨i, hi, a, b, c⟩ := loc k hk
    have := (cb i hi).2.1 k a b h3
    omega
  · intro k hk h2
    obtain ⟨i, hi, a, b, c⟩ := loc k hk
    have := (cb i hi).2.2.1 k a b h2
    omega
  · have := (cb ((zeroInd F mat).size - 2) (by omega)).2.2.2
    have e : (zeroInd F mat).size - 2 + 1 = (zeroInd F mat).size - 1 := by omega
    rw [e, z3] at this
    exact this

/-! ### 5. corollaries for `apply_QtY` / `apply_YQ` -/

/-- `apply_QtY` calls `apply_PX_vec q.u q.nr y i i` for `i < n - 1`; the call reads/writes `y[i], …, y[i + nr[i] - 1]`
    (nothing for `nr[i] = 1`): the highest index is inside the vector of length `n` -/
theorem apply_reads_in_range (hmin : 0 < F.minPos) (mat : Mat K) (s t : K) (hn : 1 ≤ mat.rows) (i : Nat)
    (hi : i < mat.rows - 1) :
    i + (comp F mat s t).nr.getD i 0 - 1 ≤ mat.rows - 1 ∧
    (comp F mat s t).nr.getD i 0 ≤ 3 ∧ 1 ≤ (comp F mat s t).nr.getD i 0 := by
  obtain ⟨_, h1, h2, h3, _⟩ := compute_nr_safe F hmin mat s t hn
  have a := h1 i (by omega)
  have b := h2 i (by omega)
  have c := h3 i (by omega)
  omega

/-- `apply_YQ`: the loop `i < n - 2` calls `apply_XP` with `ncol = 3` on columns `i, i+1, i+2 ≤ n - 1`; the last call
    (`i = n - 2`, `ncol = 2`) has `nr[n-2] ∈ {1, 2}` and, whatever the count, takes the two-column branch, so it touches only
    columns `n - 2` and `n - 1`: column `n` is never touched -/
theorem apply_YQ_last_nr (hmin : 0 < F.minPos) (mat : Mat K) (s t : K) (hn : 2 ≤ mat.rows) :
    ((comp F mat s t).nr.getD (mat.rows - 2) 0 = 1 ∨ (comp F mat s t).nr.getD (mat.rows - 2) 0 = 2) ∧
    (mat.rows - 2) + 1 ≤ mat.rows - 1 ∧
    (∀ i, i < mat.rows - 2 → i + 2 ≤ mat.rows - 1) := by
  obtain ⟨_, h1, h2, _, _⟩ := compute_nr_safe F hmin mat s t (by omega)
  have a := h1 (mat.rows - 2) (by omega)
  have b := h2 (mat.rows - 2) (by omega)
  refine ⟨by omega, by omega, fun i hi => by omega⟩

/-- the two-column branch of `apply_XP` is the one taken when `ncol = 2`, whatever the stored count (`≠ 1`) is -/
theorem apply_XP_ncol2 (H u : Mat K) (nr : Array Nat) (r0 c0 nrow ind : Nat) (h : nr.getD ind 0 ≠ 1) :
    aXP F H u nr r0 c0 nrow 2 ind =
      (List.range nrow).foldl (fun H i =>
        (H.set (r0 + i) c0 (mget F H (r0 + i) c0 -
            ((2 : Int) * mget F u 0 ind * mget F H (r0 + i) c0 +
             (2 : Int) * mget F u 1 ind * mget F H (r0 + i) (c0 + 1)) * mget F u 0 ind)).set (r0 + i) (c0 + 1)
          (mget F H (r0 + i) (c0 + 1) -
            ((2 : Int) * mget F u 0 ind * mget F H (r0 + i) c0 +
             (2 : Int) * mget F u 1 ind * mget F H (r0 + i) (c0 + 1)) * mget F u 1 ind)) H := by
  unfold aXP apply_XP
  have h1 : (nr.getD ind 0 == 1) = false := by simpa using h
  simp only [h1, beq_self_eq_true, Bool.or_true, ↓reduceIte, Bool.false_eq_true]
  rfl

-- #print axioms reflector_nr
-- #print axioms reflector_nr_zero
-- #print axioms update_block_nr
-- #print axioms compute_nr_blocks
-- #print axioms compute_nr_safe
-- #print axioms apply_reads_in_range
-- #print axioms apply_YQ_last_nr

end C08Nr
