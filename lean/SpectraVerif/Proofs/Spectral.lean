/-
  Exact-arithmetic algebra behind the spectral transformations and Ritz residuals (any field `K`; matrices over a finite index
  type).  These are the `Spectral.*` and `Ritz.residual` entries of DESIGN §4.2, used by C01, C02, C03, C04.

  Convention: the solver iterates on an operator `Op` and obtains a Ritz pair `(ν, x)` with residual `r`, i.e. `Op x = ν x + r`
  (for the B-inner-product modes `x`, `r` live in the same space).  `y` below always stands for `Op x`.
  The operator is characterised by the linear system it solves (`M y = N x`), never by an inverse, so no invertibility
  machinery is needed and singular `M` is simply a case where the hypothesis cannot be met.
-/
import Mathlib.Data.Matrix.Mul
import Mathlib.Algebra.Field.Basic
import Mathlib.Algebra.Order.Field.Basic
import Mathlib.Tactic.LinearCombination
import Mathlib.Tactic.FieldSimp
import Mathlib.Tactic.Ring
import Mathlib.Tactic.Linarith
import Mathlib.Tactic.Positivity
import Mathlib.Tactic.Abel

set_option linter.unusedSectionVars false
set_option linter.unusedVariables false
open Matrix

namespace Spectral
variable {n : Type} [Fintype n] [DecidableEq n] {K : Type} [Field K]

/-- shift-and-invert, standard problem: `Op = (A - σI)⁻¹`, `λ = σ + 1/ν`:  `A x - λ x = -(1/ν) (A - σI) r` -/
theorem shift_invert (A : Matrix n n K) (σ ν : K) (x r y : n → K) (hν : ν ≠ 0)
    (hy : y = ν • x + r) (hM : (A - σ • (1 : Matrix n n K)) *ᵥ y = x) :
    A *ᵥ x - (σ + ν⁻¹) • x = -ν⁻¹ • ((A - σ • (1 : Matrix n n K)) *ᵥ r) := by
  subst hy
  simp only [mulVec_add, mulVec_smul, sub_mulVec, smul_mulVec, one_mulVec] at hM ⊢
  ext i
  have hMi := congrFun hM i
  simp only [Pi.add_apply, Pi.smul_apply, Pi.sub_apply, smul_eq_mul] at hMi ⊢
  field_simp
  linear_combination hMi

/-- generalized shift-and-invert: `Op = (A - σB)⁻¹ B`, `λ = σ + 1/ν`:  `A x - λ B x = -(1/ν) (A - σB) r` -/
theorem gen_shift_invert (A B : Matrix n n K) (σ ν : K) (x r y : n → K) (hν : ν ≠ 0)
    (hy : y = ν • x + r) (hM : (A - σ • B) *ᵥ y = B *ᵥ x) :
    A *ᵥ x - (σ + ν⁻¹) • (B *ᵥ x) = -ν⁻¹ • ((A - σ • B) *ᵥ r) := by
  subst hy
  simp only [mulVec_add, mulVec_smul, sub_mulVec, smul_mulVec] at hM ⊢
  ext i
  have hMi := congrFun hM i
  simp only [Pi.add_apply, Pi.smul_apply, Pi.sub_apply, smul_eq_mul] at hMi ⊢
  field_simp
  linear_combination hMi

/-- buckling mode: `Op = (K - σ K_G)⁻¹ K`, `λ = σν/(ν-1)`:  `K x - λ K_G x = (K - σK_G) r / (1 - ν)` -/
theorem buckling (Km KG : Matrix n n K) (σ ν : K) (x r y : n → K) (hν : ν - 1 ≠ 0)
    (hy : y = ν • x + r) (hM : (Km - σ • KG) *ᵥ y = Km *ᵥ x) :
    Km *ᵥ x - (σ * ν / (ν - 1)) • (KG *ᵥ x) = (1 - ν)⁻¹ • ((Km - σ • KG) *ᵥ r) := by
  subst hy
  have h1 : (1 - ν) ≠ 0 := by intro h; apply hν; linear_combination -h
  simp only [mulVec_add, mulVec_smul, sub_mulVec, smul_mulVec] at hM ⊢
  ext i
  have hMi := congrFun hM i
  simp only [Pi.add_apply, Pi.smul_apply, Pi.sub_apply, smul_eq_mul] at hMi ⊢
  field_simp
  linear_combination (1 - ν) * hMi

/-- Cayley mode: `Op = (A - σB)⁻¹ (A + σB)`, `λ = σ(ν+1)/(ν-1)`:  `A x - λ B x = (A - σB) r / (1 - ν)` -/
theorem cayley (A B : Matrix n n K) (σ ν : K) (x r y : n → K) (hν : ν - 1 ≠ 0)
    (hy : y = ν • x + r) (hM : (A - σ • B) *ᵥ y = (A + σ • B) *ᵥ x) :
    A *ᵥ x - (σ * (ν + 1) / (ν - 1)) • (B *ᵥ x) = (1 - ν)⁻¹ • ((A - σ • B) *ᵥ r) := by
  subst hy
  have h1 : (1 - ν) ≠ 0 := by intro h; apply hν; linear_combination -h
  simp only [mulVec_add, mulVec_smul, sub_mulVec, add_mulVec, smul_mulVec] at hM ⊢
  ext i
  have hMi := congrFun hM i
  simp only [Pi.add_apply, Pi.smul_apply, Pi.sub_apply, smul_eq_mul] at hMi ⊢
  field_simp
  linear_combination (1 - ν) * hMi

/-- the vector returned in Cayley mode is the Ritz vector itself; the operator identity the code documents:
    `x + 2σ (A - σB)⁻¹ B x = (A - σB)⁻¹ (A + σB) x`, i.e. if `(A - σB) z = B x` then `(A - σB)(x + 2σ z) = (A + σB) x` -/
theorem cayley_op (A B : Matrix n n K) (σ : K) (x z : n → K) (hz : (A - σ • B) *ᵥ z = B *ᵥ x) :
    (A - σ • B) *ᵥ (x + (2 * σ) • z) = (A + σ • B) *ᵥ x := by
  rw [mulVec_add, mulVec_smul, hz]
  simp only [sub_mulVec, add_mulVec, smul_mulVec]
  ext i
  simp only [Pi.add_apply, Pi.smul_apply, Pi.sub_apply, smul_eq_mul]
  ring

/-- regular-inverse mode: `Op = B⁻¹ A` (B-inner product):  `A x - θ B x = B r` -/
theorem reg_inverse (A B : Matrix n n K) (θ : K) (x r y : n → K)
    (hy : y = θ • x + r) (hM : B *ᵥ y = A *ᵥ x) :
    A *ᵥ x - θ • (B *ᵥ x) = B *ᵥ r := by
  subst hy
  rw [mulVec_add, mulVec_smul] at hM
  rw [← hM]; abel

/-- Cholesky mode: `B = L Lᵀ`, `Op = L⁻¹ A L⁻ᵀ`, returned vector `x = L⁻ᵀ y`:  `A x - θ B x = L r` -/
theorem cholesky (A L : Matrix n n K) (θ : K) (x yv r : n → K)
    (hx : Lᵀ *ᵥ x = yv) (hop : L *ᵥ (θ • yv + r) = A *ᵥ x) :
    A *ᵥ x - θ • ((L * Lᵀ) *ᵥ x) = L *ᵥ r := by
  rw [← hop, mulVec_add, mulVec_smul, ← mulVec_mulVec, hx]; abel

/-- Cholesky mode, Gram matrix of the returned vectors: `Xᵀ B X = Yᵀ Y` when `Lᵀ X = Y` (so orthonormal `Y` gives `B`-orthonormal `X`) -/
theorem cholesky_gram {m : Type} [Fintype m] (L : Matrix n n K) (X Y : Matrix n m K) (hX : Lᵀ * X = Y) :
    Xᵀ * (L * Lᵀ) * X = Yᵀ * Y := by
  rw [← hX, transpose_mul, transpose_transpose]
  simp only [Matrix.mul_assoc]

/-! ### the eigenvalue maps and their inverses ("λ is reported in the spectrum of the user's problem") -/

theorem shift_invert_inverse (σ lam : K) (h : lam - σ ≠ 0) : σ + ((lam - σ)⁻¹)⁻¹ = lam := by
  field_simp; ring

theorem buckling_inverse (σ lam : K) (h : lam - σ ≠ 0) (hσ : σ ≠ 0) :
    σ * (lam / (lam - σ)) / (lam / (lam - σ) - 1) = lam := by
  have : lam / (lam - σ) - 1 = σ / (lam - σ) := by field_simp; ring
  rw [this]; field_simp

theorem cayley_inverse (σ lam : K) (h : lam - σ ≠ 0) (hσ : σ ≠ 0) (h2 : (2 : K) ≠ 0) :
    σ * ((lam + σ) / (lam - σ) + 1) / ((lam + σ) / (lam - σ) - 1) = lam := by
  have e1 : (lam + σ) / (lam - σ) - 1 = 2 * σ / (lam - σ) := by field_simp; ring
  have e2 : (lam + σ) / (lam - σ) + 1 = 2 * lam / (lam - σ) := by field_simp; ring
  rw [e1, e2]; field_simp

/-- buckling and Cayley keys are affine in `1/(λ - σ)`: `ν - 1 = σ/(λ-σ)` resp. `ν - 1 = 2σ/(λ-σ)` -/
theorem buckling_key (σ lam : K) (h : lam - σ ≠ 0) : lam / (lam - σ) - 1 = σ / (lam - σ) := by field_simp; ring
theorem cayley_key (σ lam : K) (h : lam - σ ≠ 0) : (lam + σ) / (lam - σ) - 1 = 2 * σ / (lam - σ) := by field_simp; ring

end Spectral

namespace Spectral
variable {K : Type} [Field K] [LinearOrder K] [IsStrictOrderedRing K]

/-- shift-and-invert turns "closest to σ" into "largest magnitude": `|ν₁| > |ν₂| ⇔ |λ₁ - σ| < |λ₂ - σ|` for `ν = 1/(λ - σ)` -/
theorem shift_invert_monotone (σ l1 l2 : K) (h1 : l1 - σ ≠ 0) (h2 : l2 - σ ≠ 0) :
    |(l2 - σ)⁻¹| < |(l1 - σ)⁻¹| ↔ |l1 - σ| < |l2 - σ| := by
  rw [abs_inv, abs_inv]
  have p1 : 0 < |l1 - σ| := abs_pos.mpr h1
  have p2 : 0 < |l2 - σ| := abs_pos.mpr h2
  exact inv_lt_inv₀ p2 p1

end Spectral

namespace Ritz
variable {n m : Type} [Fintype n] [Fintype m] [DecidableEq m] {K : Type} [Field K]

/-- **Ritz estimate = true residual**: if `A V = V H + f e_lastᵀ`, `H y = θ y` and `x = V y`, then `A x - θ x = y_last • f`.
    (`e_last` is the unit vector at the index `last`; commutative ring suffices) -/
theorem residual (A : Matrix n n K) (V : Matrix n m K) (H : Matrix m m K) (f : n → K) (last : m) (θ : K) (y : m → K)
    (hfac : A * V = V * H + vecMulVec f (Pi.single last 1)) (hy : H *ᵥ y = θ • y) :
    A *ᵥ (V *ᵥ y) - θ • (V *ᵥ y) = y last • f := by
  rw [mulVec_mulVec, hfac, add_mulVec, ← mulVec_mulVec, hy, mulVec_smul]
  have : vecMulVec f (Pi.single last 1) *ᵥ y = y last • f := by
    ext i
    simp [mulVec, vecMulVec, dotProduct, Pi.single_apply, mul_comm]
  rw [this]; abel

end Ritz
