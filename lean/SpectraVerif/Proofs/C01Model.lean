/-
  Three of the `ExactKernels` fields discharged for the EXECUTABLE kernel record `HermSolver.hermKern` (the definitions the driver runs
  at `Float` against the real classes), instantiated at the exact-arithmetic scalar instance `scOfField` of any ordered field
  (helper file of Properties/C01.lean):

    * `convTest`     is the documented flag test  `|est| * beta < tol * max(eps23, |theta|)`,
    * `backTransform` acts entry by entry and keeps the length,
    * `assemble`     is `x = V y` (`Σ_j y_j v_j`, via C07's kernel-sum lemma for `mulVecK0`).
-/
import SpectraVerif.Model.HermSolver
import SpectraVerif.Proofs.ScField
import SpectraVerif.Proofs.C07Refine
import SpectraVerif.Proofs.C07Bridge

set_option linter.unusedSectionVars false
set_option linter.unusedVariables false
open Finset

namespace C01Model

variable {K : Type} [Field K] [LinearOrder K] [IsStrictOrderedRing K] (F : FieldFns K)

/-- the model's `num_converged` entry at exact arithmetic: a set flag IS the documented inequality -/
theorem convTest_iff (eps23 tol : K) (s : letI := scOfField F; Arnoldi.State K) (θ est : K) :
    (letI := scOfField F; HermSolver.convTest eps23 tol s θ est) = true ↔ |est| * s.beta < tol * max eps23 |θ| := by
  let _ := scOfField F
  show HermSolver.convTest eps23 tol s θ est = true ↔ _
  unfold HermSolver.convTest
  simp only [ScF.abs, ScF.lt, decide_eq_true_eq]
  by_cases h : |θ| < eps23
  · rw [if_pos h, max_eq_left (le_of_lt h)]
  · rw [if_neg h, max_eq_right (not_lt.mp h)]

/-- the derived class's back-transformation of the first `nev` Ritz values acts entry by entry -/
theorem back_spec (back : K → K) (d : K) (l : List K) :
    (l.map back).length = l.length ∧ ∀ i, i < l.length → (l.map back).getD i d = back (l.getD i d) := by
  refine ⟨List.length_map _, ?_⟩
  intro i hi
  simp [List.getD_eq_getElem?_getD, hi]

/-- the model's `eigenvectors()` product is `x = Σ_j y_j v_j` over the first `ncv` columns -/
theorem assemble_eq (ncv : ℕ) (s : letI := scOfField F; Arnoldi.State K) (y : Lin.Vec K) (n : ℕ) (hV : s.V.rows = n) :
    (letI := scOfField F; C07.vecOf n (HermSolver.assemble ncv s y))
      = ∑ j ∈ range ncv, (letI := scOfField F; Lin.vget y j) • (letI := scOfField F; C07.colOf n s.V j) := by
  let _ := scOfField F
  show C07.vecOf n (HermSolver.assemble ncv s y) = ∑ j ∈ range ncv, Lin.vget y j • C07.colOf n s.V j
  funext r
  have h0 : (Sc.ofInt 0 : K) = 0 := by simp
  have := C07R.mulVecK0_eq h0 s.V ncv y r.val (by rw [hV]; exact r.isLt)
  simp only [C07.vecOf, HermSolver.assemble, C07.colOf, Finset.sum_apply, Pi.smul_apply, smul_eq_mul]
  rw [this]
  apply Finset.sum_congr rfl; intro j _; ring

end C01Model
