/-
  Refinement of the executable array kernels of `Model/Arnoldi.lean` to `Finset.sum` expressions, and discrete facts of the
  executable model (advertised dimension), for Properties/C07.lean.

  The kernel lemmas hold for ANY `Sc` instance on a field `K` whose `ofInt 0` is `0` (in particular the exact-arithmetic instance
  `scOfField F` of `Proofs/ScField.lean`, see `h0_scOfField`): the kernels use nothing else from `Sc`.
-/
import Mathlib.Algebra.BigOperators.Intervals
import Mathlib.Algebra.Order.Field.Basic
import Mathlib.Tactic.Ring
import SpectraVerif.Proofs.ScField
import SpectraVerif.Model.Arnoldi
import SpectraVerif.Model.Lanczos

set_option linter.unusedSectionVars false

open Finset

namespace C07R

theorem h0_scOfField {K : Type} [Field K] [LinearOrder K] [IsStrictOrderedRing K] (F : FieldFns K) :
    @Sc.ofInt K (scOfField F) 0 = 0 := by simp

section kernels
variable {K : Type} [Field K] [Sc K] (h0 : (Sc.ofInt 0 : K) = 0)
include h0

theorem zero_eq : (Lin.zero : K) = 0 := by simp [Lin.zero, h0]

omit h0 [Sc K] in
theorem foldl_add (f : ℕ → K) (n : ℕ) (a : K) :
    (List.range n).foldl (fun acc i => acc + f i) a = a + ∑ i ∈ range n, f i := by
  induction n with
  | zero => simp
  | succ n ih => rw [List.range_succ, List.foldl_append, ih, sum_range_succ]; simp [add_assoc]

/-- gemv accumulator: `0 + f 0 + … + f (n-1)` is the sum -/
theorem sum0_eq (n : ℕ) (f : ℕ → K) : Arnoldi.sum0 n f = ∑ i ∈ range n, f i := by
  unfold Arnoldi.sum0
  rw [foldl_add, zero_eq h0, zero_add]

/-- redux accumulator (dot / norm): starts from the first term -/
theorem sumFrom0_eq (n : ℕ) (f : ℕ → K) : Lin.sumFrom0 n f = ∑ i ∈ range n, f i := by
  cases n with
  | zero => simp [Lin.sumFrom0, zero_eq h0]
  | succ k =>
    simp only [Lin.sumFrom0]
    rw [foldl_add (fun i => f (i + 1)) k (f 0), sum_range_succ', add_comm]

omit h0 in
theorem vget_vofFn (n : ℕ) (f : ℕ → K) (i : ℕ) (hi : i < n) : Lin.vget (Lin.vofFn n f) i = f i := by
  simp [Lin.vget, Lin.vofFn, hi]

omit h0 in
theorem size_vofFn (n : ℕ) (f : ℕ → K) : (Lin.vofFn n f).size = n := by simp [Lin.vofFn]

omit h0 in
theorem get_ofFn (r c : ℕ) (f : ℕ → ℕ → K) (i j : ℕ) (hi : i < r) (hj : j < c) :
    (Lin.Mat.ofFn r c f).get i j = f i j := by
  have hlt : i + j * r < r * c := by
    calc i + j * r < r + j * r := by omega
      _ = r * (j + 1) := by ring
      _ ≤ r * c := Nat.mul_le_mul_left r hj
  have h1 : (i + j * r) % r = i := by rw [Nat.add_mul_mod_self_right, Nat.mod_eq_of_lt hi]
  have h2 : (i + j * r) / r = j := by
    rw [Nat.add_mul_div_right _ _ (by omega : 0 < r), Nat.div_eq_of_lt hi, zero_add]
  simp [Lin.Mat.get, Lin.Mat.ofFn, hlt, h1, h2]

/-- `x.dot(y)` -/
theorem dot_eq (x y : Lin.Vec K) : Lin.dot x y = ∑ i ∈ range x.size, Lin.vget x i * Lin.vget y i := by
  unfold Lin.dot; exact sumFrom0_eq h0 _ _

/-- `V.leftCols(k) * x` -/
theorem mulVecK0_eq (V : Lin.Mat K) (k : ℕ) (x : Lin.Vec K) (i : ℕ) (hi : i < V.rows) :
    Lin.vget (Arnoldi.mulVecK0 V k x) i = ∑ j ∈ range k, V.get i j * Lin.vget x j := by
  unfold Arnoldi.mulVecK0; rw [vget_vofFn _ _ _ hi, sum0_eq h0]

/-- `V.leftCols(k).adjoint() * y` -/
theorem tmulVecK0_eq (V : Lin.Mat K) (k : ℕ) (y : Lin.Vec K) (j : ℕ) (hj : j < k) :
    Lin.vget (Arnoldi.tmulVecK0 V k y) j = ∑ i ∈ range V.rows, V.get i j * Lin.vget y i := by
  unfold Arnoldi.tmulVecK0; rw [vget_vofFn _ _ _ hj, sum0_eq h0]

/-- `f -= V.leftCols(k) * g` -/
theorem subMulVecK0_eq (f : Lin.Vec K) (V : Lin.Mat K) (k : ℕ) (g : Lin.Vec K) (i : ℕ) (hi : i < f.size) :
    Lin.vget (Arnoldi.subMulVecK0 f V k g) i = Lin.vget f i - ∑ j ∈ range k, V.get i j * Lin.vget g j := by
  unfold Arnoldi.subMulVecK0; rw [vget_vofFn _ _ _ hi, sum0_eq h0]

/-- the harness operator class: `y = a x` for the row-major array `a` -/
theorem rowMajorOp_eq (n : ℕ) (a : Array K) (x : Lin.Vec K) (i : ℕ) (hi : i < n) :
    Lin.vget (Arnoldi.rowMajorOp n a x) i = ∑ j ∈ range n, a.getD (i * n + j) 0 * Lin.vget x j := by
  unfold Arnoldi.rowMajorOp; rw [vget_vofFn _ _ _ hi, sum0_eq h0, zero_eq h0]

/-- `Arnoldi::compress_V`, columns `i < k`: only the first `m - k + i + 1` entries of column `i` of `Q` are used -/
theorem compress_V_col (op : Arnoldi.Op K) (s : Arnoldi.State K) (Q : Lin.Mat K) (r i : ℕ)
    (hr : r < s.n) (hi : i < s.k) (hkm : s.k < s.m) :
    (Arnoldi.compress_V op s Q).V.get r i = ∑ j ∈ range (s.m - s.k + i + 1), s.V.get r j * Q.get j i := by
  simp only [Arnoldi.compress_V]
  rw [get_ofFn _ _ _ _ _ hr (by omega)]
  have h1 : i < s.k + 1 := by omega
  simp only [h1, if_true]
  rw [get_ofFn _ _ _ _ _ hr h1]
  simp only [hi, if_true]
  exact sum0_eq h0 _ _

/-- `Arnoldi::compress_V`, column `k`: the full product `V * Q.col(k)` -/
theorem compress_V_colk (op : Arnoldi.Op K) (s : Arnoldi.State K) (Q : Lin.Mat K) (r : ℕ)
    (hr : r < s.n) (hkm : s.k < s.m) :
    (Arnoldi.compress_V op s Q).V.get r s.k = ∑ j ∈ range s.m, s.V.get r j * Q.get j s.k := by
  simp only [Arnoldi.compress_V]
  rw [get_ofFn _ _ _ _ _ hr hkm]
  have h1 : s.k < s.k + 1 := by omega
  simp only [h1, if_true]
  rw [get_ofFn _ _ _ _ _ hr h1]
  simp only [lt_irrefl, if_false]
  exact sum0_eq h0 _ _

/-- `Arnoldi::compress_V`: `f⁺ = f * Q(m-1,k-1) + V⁺.col(k) * H(k,k-1)` -/
theorem compress_V_f (op : Arnoldi.Op K) (s : Arnoldi.State K) (Q : Lin.Mat K) (r : ℕ)
    (hr : r < s.n) (hkm : s.k < s.m) :
    Lin.vget (Arnoldi.compress_V op s Q).f r
      = Lin.vget s.f r * Q.get (s.m - 1) (s.k - 1) + (∑ j ∈ range s.m, s.V.get r j * Q.get j s.k) * s.H.get s.k (s.k - 1) := by
  have := compress_V_colk h0 op s Q r hr hkm
  simp only [Arnoldi.compress_V] at this ⊢
  rw [vget_vofFn _ _ _ hr, this]

end kernels

/-! ### discrete facts of the executable model, any scalar type (in particular `Float`) -/
section discrete
variable {α : Type} [Add α] [Sub α] [Mul α] [Div α] [Neg α] [Sc α]

theorem init_dim (op : Arnoldi.Op α) (s s' : Arnoldi.State α) (v0 : Lin.Vec α) (h : Arnoldi.init op s v0 = some s') :
    s'.k = 1 ∧ s'.n = s.n ∧ s'.m = s.m ∧ s'.ops = s.ops + 2 := by
  unfold Arnoldi.init at h
  simp only at h
  split at h
  · cases h
  · cases h; exact ⟨rfl, rfl, rfl, rfl⟩

theorem arnoldi_factorize_dim (op : Arnoldi.Op α) (s s' : Arnoldi.State α) (a b : ℕ)
    (h : Arnoldi.factorize_from op s a b = some s') : (a < b → s'.k = b) ∧ (b ≤ a → s' = s) := by
  unfold Arnoldi.factorize_from at h
  split at h
  · cases h; exact ⟨fun hab => by omega, fun _ => rfl⟩
  · split at h
    · cases h
    · cases h; exact ⟨fun _ => rfl, fun hba => by omega⟩

theorem arnoldi_factorize_throws (op : Arnoldi.Op α) (s : Arnoldi.State α) (a b : ℕ) :
    Arnoldi.factorize_from op s a b = none ↔ (a < b ∧ s.k < a) := by
  unfold Arnoldi.factorize_from
  split
  · simp; omega
  · split
    · simp; omega
    · simp; omega

theorem lanczos_factorize_dim (op : Arnoldi.Op α) (s s' : Arnoldi.State α) (a b : ℕ)
    (h : Lanczos.factorize_from op s a b = some s') : (a < b → s'.k = b) ∧ (b ≤ a → s' = s) := by
  unfold Lanczos.factorize_from at h
  split at h
  · cases h; exact ⟨fun hab => by omega, fun _ => rfl⟩
  · split at h
    · cases h
    · cases h; exact ⟨fun _ => rfl, fun hba => by omega⟩

theorem lanczos_factorize_throws (op : Arnoldi.Op α) (s : Arnoldi.State α) (a b : ℕ) :
    Lanczos.factorize_from op s a b = none ↔ (a < b ∧ s.k < a) := by
  unfold Lanczos.factorize_from
  split
  · simp; omega
  · split
    · simp; omega
    · simp; omega

theorem compress_dim (op : Arnoldi.Op α) (s : Arnoldi.State α) (QtHQ Q : Lin.Mat α) (shifts : ℕ) :
    (Arnoldi.compress_V op (Arnoldi.compress_H s QtHQ shifts) Q).k = s.k - shifts := by
  simp [Arnoldi.compress_V, Arnoldi.compress_H]

end discrete
end C07R
