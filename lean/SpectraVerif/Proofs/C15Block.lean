/-
  Lemmas for C15 (Davidson): the part of the specification of the orthogonalisation kernel that holds for EVERY input.
  `QR_orthogonalisation` (the routine `JensWehner_orthogonalisation` applies to the block of new columns — see
  `C15.c15_extension_uses_householder_qr`, read off the regenerated call footprint) overwrites the block with the leading columns of
  the Q factor of its Householder QR decomposition.  Those columns are orthonormal among themselves whatever the block is — also when
  the correction vectors are linearly dependent (exactly parallel DPR corrections of an arrowhead matrix) — and whatever the old
  columns are.  (`OrthSpec` in C15Orth.lean is the conditional part: orthonormal old columns ⇒ the whole list is orthonormal.)
-/
import SpectraVerif.Proofs.C15Orth

namespace C15L
open Dav

variable {R M : Type} [CommRing R] [AddCommGroup M] [Module R M]
set_option linter.unusedSectionVars false
variable {K : Kern R M}

/-- unconditional specification of `twice_is_enough_orthogonalisation(M, k)` with the Householder-QR kernel in a space of dimension
    `d` (`QR_orthogonalisation` takes `min(rows, cols)` columns of the Q factor): for a block of at most `d` new columns, as many
    columns come back as went in and the columns behind the first `k` are orthonormal among themselves (unit norm, mutually orthogonal) -/
def OrthBlockSpec (ip : M → M → R) (K : Kern R M) (d : Nat) : Prop :=
  ∀ (l : List M) (k : Nat), l.length ≤ k + d → (K.orth l k).length = l.length ∧ ON ip ((K.orth l k).drop k)

/-- `extend_basis`: old columns kept, exactly `newv.length` columns appended, the appended block orthonormal in itself -/
theorem extend_block (ip : M → M → R) {d : Nat} (hO : OrthKeepsLeft K) (hB : OrthBlockSpec ip K d) (s : St R M) (newv : List M)
    (hd : newv.length ≤ d) :
    (extendBasis K newv s).basis = s.basis ++ (extendBasis K newv s).basis.drop s.basis.length ∧
    ((extendBasis K newv s).basis.drop s.basis.length).length = newv.length ∧
    ON ip ((extendBasis K newv s).basis.drop s.basis.length) := by
  have h1 := hO (s.basis ++ newv) s.basis.length
  have h2 := hB (s.basis ++ newv) s.basis.length (by simp; omega)
  simp only [extendBasis]
  refine ⟨?_, ?_, h2.2⟩
  · conv_lhs => rw [← List.take_append_drop s.basis.length (K.orth (s.basis ++ newv) s.basis.length)]
    rw [h1]; simp
  · rw [List.length_drop, h2.1]; simp

end C15L
