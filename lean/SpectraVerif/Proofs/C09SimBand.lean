/-
  C09 (proof deepening): whole-matrix form of one rotation of the tridiagonal bulge chase (`band_step`), and the bridge from the
  entrywise rotation formulas `mulG / mulGt / conjG` of `Proofs/C09Step.lean` to Mathlib matrices (`mat_conjG`).
-/
import Mathlib.Tactic.Ring
import Mathlib.Algebra.BigOperators.Fin
import Mathlib.Tactic.Linarith
import Mathlib.Tactic.LinearCombination
import Mathlib.Data.Matrix.Mul
import SpectraVerif.Proofs.C09Step

set_option linter.unusedSectionVars false
set_option linter.unusedSimpArgs false
set_option linter.unusedVariables false
set_option linter.unusedTactic false
set_option linter.unreachableTactic false

namespace C09Sim
open C09Step Finset

section ring
variable {R : Type} [CommRing R]

/-- symmetric tridiagonal matrix (diagonal `d`, sub-diagonal `e`) plus the bulge `z` of the `q`-th rotation of a QR step at
    `(q+1, q−1)` and `(q−1, q+1)` (no such entry for `q = 0`) -/
def band (d e : ℕ → R) (q : ℕ) (z : R) : ℕ → ℕ → R := fun i j =>
  if i = j then d i else if i = j + 1 then e j else if j = i + 1 then e i
  else if (i = q + 1 ∧ j + 1 = q) ∨ (j = q + 1 ∧ i + 1 = q) then z else 0

theorem band_far (d e d' e' : ℕ → R) (k : ℕ) (zb zb' : R)
    (hd' : ∀ j, j ≠ k → j ≠ k + 1 → d' j = d j) (he' : ∀ j, j ≠ k → j + 1 ≠ k → j ≠ k + 1 → e' j = e j)
    (i j : ℕ) (hi1 : i ≠ k) (hi2 : i ≠ k + 1) (hj1 : j ≠ k) (hj2 : j ≠ k + 1) :
    band d' e' (k + 1) zb' i j = band d e k zb i j := by
  simp only [band]
  by_cases h1 : i = j
  · rw [if_pos h1, if_pos h1]; exact hd' i hi1 hi2
  · rw [if_neg h1, if_neg h1]
    by_cases h2 : i = j + 1
    · rw [if_pos h2, if_pos h2]; exact he' j hj1 (by omega) hj2
    · rw [if_neg h2, if_neg h2]
      by_cases h3 : j = i + 1
      · rw [if_pos h3, if_pos h3]; exact he' i hi1 (by omega) hi2
      · rw [if_neg h3, if_neg h3, if_neg (by omega), if_neg (by omega)]

/-- **one rotation of the bulge chase, whole matrix**: if the arrays are updated the way `qrBody` updates them and the rotation
    annihilates the old bulge (`s·e_{k-1} + c·z = 0`), then `Gᵀ (T + bulge_k) G = T' + bulge_{k+1}` entry by entry. -/
theorem band_step (d e d' e' : ℕ → R) (k : ℕ) (c s zb zb' : R)
    (hdk : d' k = c * c * d k - 2 * c * s * e k + s * s * d (k + 1))
    (hdk1 : d' (k + 1) = s * s * d k + 2 * c * s * e k + c * c * d (k + 1))
    (hek : e' k = c * s * (d k - d (k + 1)) + (c * c - s * s) * e k)
    (H1 : ∀ m, m + 1 = k → e' m = c * e m - s * zb) (H2 : ∀ m, m + 1 = k → s * e m + c * zb = 0)
    (H3 : zb' = -(s * e (k + 1))) (H4 : e' (k + 1) = c * e (k + 1))
    (hd' : ∀ j, j ≠ k → j ≠ k + 1 → d' j = d j)
    (he' : ∀ j, j ≠ k → j + 1 ≠ k → j ≠ k + 1 → e' j = e j) (i j : ℕ) :
    conjG (band d e k zb) k c s i j = band d' e' (k + 1) zb' i j := by
  have hi : i + 1 = k ∨ i = k ∨ i = k + 1 ∨ i = k + 2 ∨ (i + 1 ≠ k ∧ i ≠ k ∧ i ≠ k + 1 ∧ i ≠ k + 2) := by omega
  have hj : j + 1 = k ∨ j = k ∨ j = k + 1 ∨ j = k + 2 ∨ (j + 1 ≠ k ∧ j ≠ k ∧ j ≠ k + 1 ∧ j ≠ k + 2) := by omega
  by_cases hff : (i ≠ k ∧ i ≠ k + 1) ∧ (j ≠ k ∧ j ≠ k + 1)
  · rw [band_far d e d' e' k zb zb' hd' he' i j hff.1.1 hff.1.2 hff.2.1 hff.2.2]
    simp only [conjG, mulGt, mulG]
    rw [if_neg hff.1.1, if_neg hff.1.2, if_neg hff.2.1, if_neg hff.2.2]
  · rcases hi with hi | hi | hi | hi | hi <;> rcases hj with hj | hj | hj | hj | hj <;>
      first
      | (exfalso; omega)
      | (try rw [hi]
         try rw [hj]
         simp (disch := omega) only [conjG, mulGt, mulG, band, if_pos, if_neg, ↓reduceIte, and_self, or_true, true_or,
           and_true, true_and, and_false, false_and, or_false, false_or, or_self]
         try simp only [hdk, hdk1, hek, H3, H4]
         try rw [H1 i (by omega)]
         try rw [H1 j (by omega)]
         first
          | done
          | ring1
          | linear_combination (H2 i (by omega))
          | linear_combination (H2 j (by omega))
          | linear_combination (-1 : R) * (H2 i (by omega))
          | linear_combination (-1 : R) * (H2 j (by omega)))

theorem band_symm (d e : ℕ → R) (q : ℕ) (z : R) (i j : ℕ) : band d e q z i j = band d e q z j i := by
  simp only [band]
  by_cases h1 : i = j
  · subst h1; rfl
  · rw [if_neg h1, if_neg (Ne.symm h1)]
    by_cases h2 : i = j + 1
    · rw [if_pos h2, if_neg (by omega), if_pos h2]
    · rw [if_neg h2]
      by_cases h3 : j = i + 1
      · rw [if_pos h3, if_pos h3]
      · rw [if_neg h3, if_neg h3, if_neg h2]
        by_cases h4 : (i = q + 1 ∧ j + 1 = q) ∨ (j = q + 1 ∧ i + 1 = q)
        · rw [if_pos h4, if_pos (by omega)]
        · rw [if_neg h4, if_neg (by omega)]

/-- with a zero bulge value the bulge position is irrelevant -/
theorem band_zero (d e : ℕ → R) (q q' : ℕ) : band d e q 0 = band d e q' 0 := by
  funext i j; simp only [band, ite_self]

/-- `band` is linear in the two diagonals -/
theorem band_sub (d e e2 : ℕ → R) (i j : ℕ) :
    band d e 0 0 i j - band (fun _ => 0) e2 0 0 i j = band d (fun k => e k - e2 k) 0 0 i j := by
  simp only [band]; split_ifs <;> ring

end ring

section mat
variable {R : Type} [CommRing R]
open Matrix

/-- the leading `n × n` block of an entry function as a Mathlib matrix -/
def mat (n : ℕ) (f : ℕ → ℕ → R) : Matrix (Fin n) (Fin n) R := Matrix.of fun i j => f i.val j.val

/-- the plane rotation `G` in the plane `(k, k+1)` as an `n × n` matrix -/
def Gm (n k : ℕ) (c s : R) : Matrix (Fin n) (Fin n) R := mat n (mulG (fun i j => if i = j then 1 else 0) k c s)

theorem mat_congr (n : ℕ) (f g : ℕ → ℕ → R) (h : ∀ i j, i < n → j < n → f i j = g i j) : mat n f = mat n g := by
  ext i j; exact h i.val j.val i.isLt j.isLt

theorem sum_delta (n k : ℕ) (hk : k < n) (f : ℕ → R) : ∑ a ∈ range n, f a * (if a = k then 1 else 0) = f k := by
  simp only [mul_ite, mul_one, mul_zero]
  rw [Finset.sum_ite_eq' (range n) k]; simp [hk]

theorem mat_mulG (n k : ℕ) (hk : k + 1 < n) (M : ℕ → ℕ → R) (c s : R) : mat n (mulG M k c s) = mat n M * Gm n k c s := by
  ext i j
  simp only [mat, Gm, Matrix.mul_apply, Matrix.of_apply]
  rw [Fin.sum_univ_eq_sum_range (fun a => M i.val a * mulG (fun i j => if i = j then (1 : R) else 0) k c s a j.val) n]
  simp only [mulG]
  have hk0 : k < n := by omega
  split_ifs with h1 h2
  · rw [Finset.sum_congr rfl (fun a _ => show M i.val a * (c * (if a = k then (1 : R) else 0) - s * (if a = k + 1 then 1 else 0)) =
      c * (M i.val a * (if a = k then 1 else 0)) - s * (M i.val a * (if a = k + 1 then 1 else 0)) by ring)]
    rw [Finset.sum_sub_distrib, ← Finset.mul_sum, ← Finset.mul_sum, sum_delta n k hk0, sum_delta n (k + 1) hk]
  · rw [Finset.sum_congr rfl (fun a _ => show M i.val a * (s * (if a = k then (1 : R) else 0) + c * (if a = k + 1 then 1 else 0)) =
      s * (M i.val a * (if a = k then 1 else 0)) + c * (M i.val a * (if a = k + 1 then 1 else 0)) by ring)]
    rw [Finset.sum_add_distrib, ← Finset.mul_sum, ← Finset.mul_sum, sum_delta n k hk0, sum_delta n (k + 1) hk]
  · exact (sum_delta n j.val j.isLt (fun a => M i.val a)).symm

theorem mat_transpose (n : ℕ) (M : ℕ → ℕ → R) : (mat n M)ᵀ = mat n (fun i j => M j i) := by
  ext i j; rfl

theorem mat_mulGt (n k : ℕ) (hk : k + 1 < n) (M : ℕ → ℕ → R) (c s : R) : mat n (mulGt M k c s) = (Gm n k c s)ᵀ * mat n M := by
  have e : mat n (mulGt M k c s) = (mat n (mulG (fun i j => M j i) k c s))ᵀ := by
    ext i j; simp only [mat, Matrix.transpose_apply, Matrix.of_apply, mulGt, mulG]
  rw [e, mat_mulG n k hk, Matrix.transpose_mul, ← mat_transpose]
  rfl

/-- `Gᵀ M G` entrywise is the matrix product -/
theorem mat_conjG (n k : ℕ) (hk : k + 1 < n) (M : ℕ → ℕ → R) (c s : R) :
    mat n (conjG M k c s) = (Gm n k c s)ᵀ * mat n M * Gm n k c s := by
  simp only [conjG]; rw [mat_mulGt n k hk, mat_mulG n k hk, Matrix.mul_assoc]

/-- a rotation of the basis conjugates the projected matrix: `(QG)ᵀ X (QG) = Gᵀ (Qᵀ X Q) G` -/
theorem conj_rot (n k : ℕ) (hk : k + 1 < n) (Q : ℕ → ℕ → R) (X : Matrix (Fin n) (Fin n) R) (c s : R) (T : ℕ → ℕ → R)
    (h : (mat n Q)ᵀ * X * mat n Q = mat n T) :
    (mat n (mulG Q k c s))ᵀ * X * mat n (mulG Q k c s) = mat n (conjG T k c s) := by
  rw [mat_conjG n k hk, ← h, mat_mulG n k hk, Matrix.transpose_mul]
  simp only [Matrix.mul_assoc]

end mat
end C09Sim
