/-
  C03 helper: a boolean checker over member / shift-sink / member-read tables (the shape `xlate/tgt_c03.py` regenerates into
  `Gen.GSymMembers`) and its soundness FOR EVERY TABLE.  `Properties/C03.lean` instantiates it on the regenerated tables and discharges
  the boolean by kernel evaluation (`decide`): a proof for the finite table extracted from the headers of the current working tree.
-/
import SpectraVerif.Gen.GSymMembers

namespace C03M
open Gen.GSymMembers

/-- the three specializations of `SymGEigsShiftSolver` -/
def shiftSpecs : List String := ["ShiftInvert", "Buckling", "Cayley"]

/-- `m` STORES THE SHIFT w.r.t. the tables: a parameter named `sigma`/`shift` is written into it (constructor initializer or assignment),
    or the back-transformation `sort_ritzpair` of its class reads it -/
def storesShift (sinks : List Sink) (reads : List (String × String × String × String)) (m : Member) : Bool :=
  sinks.any (fun s => !s.isBase && s.cls == m.cls && s.spec == m.spec && s.target == m.name) ||
  reads.any (fun r => r.1 == m.cls && r.2.1 == m.spec && r.2.2.1 == "sort_ritzpair" && r.2.2.2 == m.name)

/-- the shift member of `SymGEigsShiftSolver<spec>`: a by-value, `const`, non-`mutable` member that the constructor initializes as a COPY of its
    `sigma` argument and that is the only own member the back-transformation reads -/
def isShiftMember (sinks : List Sink) (reads : List (String × String × String × String)) (spec : String) (m : Member) : Bool :=
  m.cls == "SymGEigsShiftSolver" && m.spec == spec && !m.isRef && !m.isPtr && m.isConst && !m.isMutable &&
  sinks.contains { cls := "SymGEigsShiftSolver", spec := spec, fn := "SymGEigsShiftSolver", target := m.name, isBase := false, how := "copy" } &&
  reads.contains ("SymGEigsShiftSolver", spec, "sort_ritzpair", m.name) &&
  reads.all (fun r => !(r.1 == "SymGEigsShiftSolver" && r.2.1 == spec && r.2.2.1 == "sort_ritzpair") || r.2.2.2 == m.name)

/-- the boolean the kernel evaluates on the regenerated tables -/
def sigmaByValueB (ms : List Member) (sinks : List Sink) (reads : List (String × String × String × String)) : Bool :=
  ms.all (fun m => !storesShift sinks reads m || (!m.isRef && !m.isPtr)) &&
  sinks.all (fun s => s.isBase || ms.any (fun m => m.cls == s.cls && m.spec == s.spec && m.name == s.target)) &&
  shiftSpecs.all (fun spec => ms.any (isShiftMember sinks reads spec))

/-- what it means, as a proposition -/
structure SigmaByValue (ms : List Member) (sinks : List Sink) (reads : List (String × String × String × String)) : Prop where
  /-- every member that stores the shift is held by value: neither a reference nor a pointer / non-owning handle -/
  by_value : ∀ m ∈ ms, storesShift sinks reads m = true → m.isRef = false ∧ m.isPtr = false
  /-- every member a shift parameter is written into is in the member table (nothing escapes the table) -/
  resolved : ∀ s ∈ sinks, s.isBase = false → ∃ m ∈ ms, m.cls = s.cls ∧ m.spec = s.spec ∧ m.name = s.target
  /-- in EVERY specialization of the shift solver there is a by-value `const` non-`mutable` member, initialized as a copy of the constructor's
      `sigma` argument, which the back-transformation `sort_ritzpair` reads and which is the only own member it reads -/
  every_spec : ∀ spec ∈ shiftSpecs, ∃ m ∈ ms, m.cls = "SymGEigsShiftSolver" ∧ m.spec = spec ∧
      m.isRef = false ∧ m.isPtr = false ∧ m.isConst = true ∧ m.isMutable = false ∧
      ({ cls := "SymGEigsShiftSolver", spec := spec, fn := "SymGEigsShiftSolver", target := m.name, isBase := false, how := "copy" } : Sink) ∈ sinks ∧
      ("SymGEigsShiftSolver", spec, "sort_ritzpair", m.name) ∈ reads ∧
      ∀ r ∈ reads, r.1 = "SymGEigsShiftSolver" → r.2.1 = spec → r.2.2.1 = "sort_ritzpair" → r.2.2.2 = m.name

/-- soundness of the checker, for every table -/
theorem sigmaByValueB_sound (ms : List Member) (sinks : List Sink) (reads : List (String × String × String × String))
    (h : sigmaByValueB ms sinks reads = true) : SigmaByValue ms sinks reads := by
  simp only [sigmaByValueB, Bool.and_eq_true, List.all_eq_true, List.any_eq_true, Bool.or_eq_true, Bool.not_eq_true', beq_iff_eq] at h
  obtain ⟨⟨h1, h2⟩, h3⟩ := h
  refine ⟨?_, ?_, ?_⟩
  · intro m hm hs
    rcases h1 m hm with hn | hv
    · rw [hs] at hn; exact absurd hn (by decide)
    · exact hv
  · intro s hs hb
    rcases h2 s hs with hb' | ⟨m, hm, hc⟩
    · rw [hb] at hb'; exact absurd hb' (by decide)
    · exact ⟨m, hm, hc.1.1, hc.1.2, hc.2⟩
  · intro spec hspec
    obtain ⟨m, hm, hi⟩ := h3 spec hspec
    simp only [isShiftMember, Bool.and_eq_true, Bool.not_eq_true', beq_iff_eq, List.contains_eq_mem, decide_eq_true_eq, List.all_eq_true,
      Bool.or_eq_true] at hi
    obtain ⟨⟨⟨⟨⟨⟨⟨⟨hc, hsp⟩, hr⟩, hp⟩, hk⟩, hmu⟩, hsink⟩, hread⟩, honly⟩ := hi
    refine ⟨m, hm, hc, hsp, hr, hp, hk, hmu, hsink, hread, ?_⟩
    intro r hr' e1 e2 e3
    rcases honly r hr' with hno | hy
    · rw [e1, e2, e3] at hno; simp at hno
    · exact hy

end C03M
