/-
  C08 (TridiagQR part, `Matrix` language) -- exact-arithmetic correctness of the array model `QRModel.TridiagQR`
  (Model/TridiagQR.lean, mirror of `Spectra::TridiagQR`) stated with Mathlib matrices.

  Notation: `q = tqr F mat shift` the computed object, `n = mat.rows`, `Q = TQ F q = G₀ G₁ ⋯ G_{n-2}` the product of the stored
  rotations (`= Qof F (toHess q)`), `R = toM (matrix_R q)`, `Tm = toM (symTri n d e)` the symmetric tridiagonal matrix of
  the stored diagonal `d = q.T_diag` and (deflated) subdiagonal `e = q.T_subd`, `σ = shift`.

  * TM1 `tqr_apply_*`, `tqr_apply_matrix`: the six inherited `apply_*` methods multiply by `Q` / `Qᵀ` from the stated side, for
    EVERY `q : TridiagQR K` (no hypothesis on the stored rotations).
  * TM2 `tqr_Q_orth`, `tqr_QR_matrix`, `tqr_R_band_matrix`: `QᵀQ = QQᵀ = 1`, `Q R = Tm - σ I`, `R` upper triangular with upper
    bandwidth 2.
  * `RQ_hessenberg`, `RQ_subdiag`, `RQ_diag`, `RQ_diag_last`: for every upper triangular `R` and every rotation sequence,
    `R Q` is upper Hessenberg and its subdiagonal / diagonal entries are given by closed formulas.
  * TM3 `tqr_QtHQ_raw_matrix`: the symmetric tridiagonal matrix formed by the rotation loop of `matrix_QtHQ` (before the final
    deflation pass) IS `Qᵀ Tm Q`.
  * TM4 `tqr_QtHQ_matrix`: `matrix_QtHQ` is `Qᵀ Tm Q` with exactly the negligible sub/superdiagonal entries replaced by `0`.
  * TM5 `tqr_matrix`: the package.
-/
import Mathlib.Data.Matrix.Basic
import Mathlib.Data.Matrix.Mul
import Mathlib.Data.Fintype.BigOperators
import Mathlib.Algebra.BigOperators.Fin
import Mathlib.Tactic.Ring
import Mathlib.Tactic.LinearCombination
import SpectraVerif.Proofs.C08HessMatrix
import SpectraVerif.Proofs.C08TridiagQ

set_option linter.unusedSectionVars false
set_option linter.unusedVariables false
set_option linter.unusedSimpArgs false

namespace C08TridiagMatrix
open Lin QRModel C08Mat C08Hess C08HessMatrix
open Matrix

section AtField
variable {K : Type} [Field K] [LinearOrder K] [IsStrictOrderedRing K] (F : FieldFns K)

/-! ### notation -/

/-- `TridiagQR::compute(mat, shift)` at the exact-arithmetic instance -/
abbrev tqr (mat : Mat K) (shift : K) : TridiagQR K := @TridiagQR.compute K _ _ _ _ _ (scOfField F) mat shift

/-- the base-class view read by the inherited `apply_*` methods -/
abbrev hessOf (q : TridiagQR K) : UpperHessenbergQR K := @TridiagQR.toHess K (scOfField F) q

/-- `matrix_R` -/
abbrev Rmat (q : TridiagQR K) : Mat K := @TridiagQR.matrix_R K (scOfField F) q

/-- `matrix_QtHQ` -/
abbrev TQtHQ (q : TridiagQR K) : Mat K := @TridiagQR.matrix_QtHQ K _ _ _ _ (scOfField F) q

/-- the orthogonal factor `Q = G₀ ⋯ G_{n-2}` of `q`, indexed by `Fin q.n` (`= Qof F (toHess q)`) -/
def TQ (q : TridiagQR K) : Matrix (Fin q.n) (Fin q.n) K := Qof F (hessOf F q)

theorem TQ_eq (q : TridiagQR K) : TQ F q = Qof F (hessOf F q) := rfl
theorem TQ_eq_Qm (q : TridiagQR K) : TQ F q = Qm F q.n q.cos q.sin (q.n - 1) := rfl

/-- the symmetric tridiagonal `n × n` matrix with diagonal `d` and sub/superdiagonal `e` -/
abbrev symTri (n : Nat) (d e : Vec K) : Mat K :=
  Mat.ofFn n n (fun i j => if i = j then vgt F d i else if i = j + 1 then vgt F e j else if j = i + 1 then vgt F e i else 0)

theorem symTri_get (n : Nat) (d e : Vec K) (i j : Nat) (hi : i < n) (hj : j < n) :
    mget F (symTri F n d e) i j =
      if i = j then vgt F d i else if i = j + 1 then vgt F e j else if j = i + 1 then vgt F e i else 0 :=
  @get_ofFn K (scOfField F) _ _ _ _ _ hi hj

/-- the test of the deflation passes at position `m` of the pair (diagonal `D`, subdiagonal `E`) -/
abbrev negl (D E : Vec K) (m : Nat) : Prop := |vgt F E m| ≤ F.eps * (|vgt F D m| + |vgt F D (m + 1)|)

/-- the symmetric tridiagonal matrix with the bands `(D, E)` that the rotation loop of `matrix_QtHQ` produces -/
abbrev rawMat (q : TridiagQR K) : Mat K :=
  @TridiagQR.bandMat K (scOfField F) q.n (vgt F (C08Tridiag.qthqRaw F q).2) (vgt F (C08Tridiag.qthqRaw F q).1)
    (vgt F (C08Tridiag.qthqRaw F q).2) (fun _ => 0)

/-! ### TM1: the inherited `apply_*` methods, for every `q : TridiagQR K` -/

theorem tqr_apply_QY_mat (q : TridiagQR K) {m : Nat} {Y : Mat K} (hw : WF Y) (hr : Y.rows = q.n) (hc : Y.cols = m) :
    toM F q.n m (@TridiagQR.apply_QY_mat K _ _ _ (scOfField F) q Y) = TQ F q * toM F q.n m Y :=
  apply_QY_mat_toM F (hessOf F q) hw hr hc

theorem tqr_apply_QtY_mat (q : TridiagQR K) {m : Nat} {Y : Mat K} (hw : WF Y) (hr : Y.rows = q.n) (hc : Y.cols = m) :
    toM F q.n m (@TridiagQR.apply_QtY_mat K _ _ _ (scOfField F) q Y) = (TQ F q)ᵀ * toM F q.n m Y :=
  apply_QtY_mat_toM F (hessOf F q) hw hr hc

theorem tqr_apply_YQ (q : TridiagQR K) {m : Nat} {Y : Mat K} (hw : WF Y) (hr : Y.rows = m) (hc : Y.cols = q.n) :
    toM F m q.n (@TridiagQR.apply_YQ K _ _ _ (scOfField F) q Y) = toM F m q.n Y * TQ F q :=
  apply_YQ_toM F (hessOf F q) hw hr hc

theorem tqr_apply_YQt (q : TridiagQR K) {m : Nat} {Y : Mat K} (hw : WF Y) (hr : Y.rows = m) (hc : Y.cols = q.n) :
    toM F m q.n (@TridiagQR.apply_YQt K _ _ _ (scOfField F) q Y) = toM F m q.n Y * (TQ F q)ᵀ :=
  apply_YQt_toM F (hessOf F q) hw hr hc

theorem tqr_apply_QY_vec (q : TridiagQR K) (y : Vec K) (hy : y.size = q.n) :
    (fun i : Fin q.n => vgt F (@TridiagQR.apply_QY K _ _ _ (scOfField F) q y) i.val) =
      (TQ F q).mulVec (fun i : Fin q.n => vgt F y i.val) :=
  apply_QY_vec F (hessOf F q) y hy

theorem tqr_apply_QtY_vec (q : TridiagQR K) (y : Vec K) (hy : y.size = q.n) :
    (fun i : Fin q.n => vgt F (@TridiagQR.apply_QtY K _ _ _ (scOfField F) q y) i.val) =
      (TQ F q)ᵀ.mulVec (fun i : Fin q.n => vgt F y i.val) :=
  apply_QtY_vec F (hessOf F q) y hy

/-- TM1: the six `apply_*` methods of `TridiagQR` are multiplications by `Q = Qof F (toHess q)` or its transpose, for EVERY
    stored rotation sequence -/
theorem tqr_apply_matrix (q : TridiagQR K) :
    (∀ y : Vec K, y.size = q.n →
      (fun i : Fin q.n => vgt F (@TridiagQR.apply_QY K _ _ _ (scOfField F) q y) i.val) =
        (TQ F q).mulVec (fun i : Fin q.n => vgt F y i.val)) ∧
    (∀ y : Vec K, y.size = q.n →
      (fun i : Fin q.n => vgt F (@TridiagQR.apply_QtY K _ _ _ (scOfField F) q y) i.val) =
        (TQ F q)ᵀ.mulVec (fun i : Fin q.n => vgt F y i.val)) ∧
    (∀ (m : Nat) (Y : Mat K), WF Y → Y.rows = q.n → Y.cols = m →
      toM F q.n m (@TridiagQR.apply_QY_mat K _ _ _ (scOfField F) q Y) = TQ F q * toM F q.n m Y) ∧
    (∀ (m : Nat) (Y : Mat K), WF Y → Y.rows = q.n → Y.cols = m →
      toM F q.n m (@TridiagQR.apply_QtY_mat K _ _ _ (scOfField F) q Y) = (TQ F q)ᵀ * toM F q.n m Y) ∧
    (∀ (m : Nat) (Y : Mat K), WF Y → Y.rows = m → Y.cols = q.n →
      toM F m q.n (@TridiagQR.apply_YQ K _ _ _ (scOfField F) q Y) = toM F m q.n Y * TQ F q) ∧
    (∀ (m : Nat) (Y : Mat K), WF Y → Y.rows = m → Y.cols = q.n →
      toM F m q.n (@TridiagQR.apply_YQt K _ _ _ (scOfField F) q Y) = toM F m q.n Y * (TQ F q)ᵀ) :=
  ⟨fun y hy => tqr_apply_QY_vec F q y hy, fun y hy => tqr_apply_QtY_vec F q y hy,
    fun m Y hw hr hc => tqr_apply_QY_mat F q hw hr hc, fun m Y hw hr hc => tqr_apply_QtY_mat F q hw hr hc,
    fun m Y hw hr hc => tqr_apply_YQ F q hw hr hc, fun m Y hw hr hc => tqr_apply_YQt F q hw hr hc⟩

/-! ### TM2: `Q` orthogonal, `Q R = Tm - σ I`, `R` banded upper triangular -/

theorem tqr_n (mat : Mat K) (shift : K) : (tqr F mat shift).n = mat.rows := rfl
theorem tqr_shift (mat : Mat K) (shift : K) : (tqr F mat shift).shift = shift := rfl

theorem Rmat_WF (q : TridiagQR K) : WF (Rmat F q) := ofFn_WF _ _ _
theorem Rmat_rows (q : TridiagQR K) : (Rmat F q).rows = q.n := rfl
theorem Rmat_cols (q : TridiagQR K) : (Rmat F q).cols = q.n := rfl

/-- TM2 (a): `Q` is orthogonal -/
theorem tqr_Q_orth (hsqrt : ∀ x : K, 0 ≤ x → F.sqrt x * F.sqrt x = x ∧ 0 ≤ F.sqrt x) (hcut : C08Givens.cutoff F ≤ 0)
    (mat : Mat K) (shift : K) (q : TridiagQR K) (hq : q = tqr F mat shift) :
    (TQ F q)ᵀ * TQ F q = 1 ∧ TQ F q * (TQ F q)ᵀ = 1 := by
  subst hq
  exact Qof_orth F (hessOf F (tqr F mat shift))
    (fun i hi => C08TridiagQ.tqr_rot_orth F hsqrt hcut mat shift i hi)

/-- `T̃ - σ I` as a `Matrix` -/
theorem toM_Tshift (n : Nat) (d e : Vec K) (σ : K) :
    toM F n n (C08TridiagQ.Tshift F n d e σ) =
      toM F n n (symTri F n d e) - σ • (1 : Matrix (Fin n) (Fin n) K) := by
  ext i j
  have t1 : mget F (C08TridiagQ.Tshift F n d e σ) i.val j.val = _ :=
    C08TridiagQ.Tshift_get F n d e σ i.val j.val i.isLt j.isLt
  rw [Matrix.sub_apply, Matrix.smul_apply, Matrix.one_apply, toM_apply, toM_apply, t1,
    symTri_get F n d e i.val j.val i.isLt j.isLt]
  have e1 : (i = j) = (i.val = j.val) := propext Fin.ext_iff
  simp only [e1, smul_eq_mul]
  by_cases h1 : i.val = j.val
  · rw [if_pos h1, if_pos h1, if_pos h1, mul_one]
  · rw [if_neg h1, if_neg h1, if_neg h1, mul_zero, sub_zero]

/-- TM2 (b): `Q R = Tm - σ I` -/
theorem tqr_QR_matrix (hsqrt : ∀ x : K, 0 ≤ x → F.sqrt x * F.sqrt x = x ∧ 0 ≤ F.sqrt x) (hcut : C08Givens.cutoff F ≤ 0)
    (mat : Mat K) (shift : K) (q : TridiagQR K) (hq : q = tqr F mat shift) :
    TQ F q * toM F q.n q.n (Rmat F q) =
      toM F q.n q.n (symTri F q.n q.T_diag q.T_subd) - shift • (1 : Matrix (Fin q.n) (Fin q.n) K) := by
  have h := tqr_apply_QY_mat F q (m := q.n) (Rmat_WF F q) (Rmat_rows F q) (Rmat_cols F q)
  have e : @TridiagQR.apply_QY_mat K _ _ _ (scOfField F) q (Rmat F q) =
      C08TridiagQ.Tshift F q.n q.T_diag q.T_subd shift := by
    rw [hq]; exact C08TridiagQ.tqr_QR_eq F hsqrt hcut mat shift
  rw [e, toM_Tshift] at h
  exact h.symm

/-- TM2 (c): `R` is upper triangular with upper bandwidth 2 (every `q`) -/
theorem tqr_R_band_matrix (q : TridiagQR K) (i j : Fin q.n) :
    (j < i → toM F q.n q.n (Rmat F q) i j = 0) ∧ (i.val + 2 < j.val → toM F q.n q.n (Rmat F q) i j = 0) :=
  C08Tridiag.matrix_R_band F q i.val j.val i.isLt j.isLt

/-! ### `R Q` for an upper triangular `R`: pure `Matrix` algebra over the rotation product -/

/-- the matrix with entries `f i j` -/
def ofNat (n : Nat) (f : Nat → Nat → K) : Matrix (Fin n) (Fin n) K := fun i j => f i.val j.val

theorem toM_eq_ofNat (n : Nat) (A : Mat K) : toM F n n A = ofNat n (mget F A) := rfl

/-- `c_{k-1}`, with `c_{-1} = 1` -/
def cprev (cs : Vec K) (k : Nat) : K := if k = 0 then 1 else vgt F cs (k - 1)

include F in
/-- right multiplication by `Gₖ` mixes the columns `k`, `k+1` only -/
theorem mul_Gm_apply {m n : Nat} (A : Matrix (Fin m) (Fin n) K) (c s : K) (k : Nat) (hk : k + 1 < n)
    (i : Fin m) (j : Fin n) :
    (A * Gm n c s k) i j =
      if j.val = k then c * A i ⟨k, by omega⟩ - s * A i ⟨k + 1, hk⟩
      else if j.val = k + 1 then s * A i ⟨k, by omega⟩ + c * A i ⟨k + 1, hk⟩ else A i j := by
  rw [@mul_apply_transpose K _ (scOfField F), @Gm_transpose K _ (scOfField F),
    @Gm_sum K _ (scOfField F) n c (-s) k hk (fun l => A i l) j]
  by_cases h1 : j.val = k
  · rw [if_pos h1, if_pos h1]; ring
  · rw [if_neg h1, if_neg h1]
    by_cases h2 : j.val = k + 1
    · rw [if_pos h2, if_pos h2]; ring
    · rw [if_neg h2, if_neg h2]

/-- `R (G₀ ⋯ G_{k-1})` -/
def RQk (n : Nat) (cs sn : Vec K) (f : Nat → Nat → K) (k : Nat) : Matrix (Fin n) (Fin n) K :=
  ofNat n f * Qm F n cs sn k

theorem RQk_succ (n : Nat) (cs sn : Vec K) (f : Nat → Nat → K) (k : Nat) :
    RQk F n cs sn f (k + 1) = RQk F n cs sn f k * Gm n (vgt F cs k) (vgt F sn k) k := by
  unfold RQk
  rw [Qm_succ, Matrix.mul_assoc]

/-- the invariant of `R ↦ R G₀ ↦ R G₀ G₁ ↦ ⋯` for an upper triangular `R = (f i j)`: columns `> k` are untouched, the
    active column `k` is `c_{k-1} R(k,k)` on the diagonal and `0` below, the columns `< k` are final -/
def RQInv (n : Nat) (cs sn : Vec K) (f : Nat → Nat → K) (k : Nat) (A : Matrix (Fin n) (Fin n) K) : Prop :=
  (∀ i j : Fin n, k < j.val → A i j = f i.val j.val) ∧
  (∀ i j : Fin n, j.val = k → k < i.val → A i j = 0) ∧
  (∀ i j : Fin n, j.val = k → i.val = k → A i j = cprev F cs k * f k k) ∧
  (∀ i j : Fin n, j.val < k → j.val + 1 < i.val → A i j = 0) ∧
  (∀ i j : Fin n, j.val < k → i.val = j.val + 1 → A i j = -(vgt F sn j.val) * f (j.val + 1) (j.val + 1)) ∧
  (∀ i j : Fin n, j.val < k → i.val = j.val →
    A i j = cprev F cs j.val * vgt F cs j.val * f j.val j.val - vgt F sn j.val * f j.val (j.val + 1))

theorem RQInv_zero (n : Nat) (cs sn : Vec K) (f : Nat → Nat → K)
    (hup : ∀ i j, i < n → j < i → f i j = 0) : RQInv F n cs sn f 0 (RQk F n cs sn f 0) := by
  have e : RQk F n cs sn f 0 = ofNat n f := by unfold RQk; rw [Qm_zero, Matrix.mul_one]
  rw [e]
  refine ⟨fun i j _ => rfl, fun i j hj hi => ?_, fun i j hj hi => ?_, fun i j h => absurd h (by omega),
    fun i j h => absurd h (by omega), fun i j h => absurd h (by omega)⟩
  · exact hup i.val j.val i.isLt (by omega)
  · show f i.val j.val = _
    rw [hi, hj]; unfold cprev; simp

theorem RQInv_step (n : Nat) (cs sn : Vec K) (f : Nat → Nat → K)
    (hup : ∀ i j, i < n → j < i → f i j = 0) (k : Nat) (hk : k + 1 < n) (A : Matrix (Fin n) (Fin n) K)
    (h : RQInv F n cs sn f k A) :
    RQInv F n cs sn f (k + 1) (A * Gm n (vgt F cs k) (vgt F sn k) k) := by
  obtain ⟨h1, h2, h3, h4, h5, h6⟩ := h
  have a1 : ∀ i : Fin n, A i ⟨k + 1, hk⟩ = f i.val (k + 1) := fun i => h1 i ⟨k + 1, hk⟩ (by simp)
  have cp : cprev F cs (k + 1) = vgt F cs k := by unfold cprev; simp
  refine ⟨fun i j hj => ?_, fun i j hj hi => ?_, fun i j hj hi => ?_, fun i j hj hi => ?_, fun i j hj hi => ?_,
    fun i j hj hi => ?_⟩
  · rw [mul_Gm_apply F A _ _ k hk i j, if_neg (by omega), if_neg (by omega)]
    exact h1 i j (by omega)
  · rw [mul_Gm_apply F A _ _ k hk i j, if_neg (by omega), if_pos hj, a1 i, h2 i ⟨k, by omega⟩ rfl (by omega),
      hup i.val (k + 1) i.isLt hi]
    ring
  · rw [mul_Gm_apply F A _ _ k hk i j, if_neg (by omega), if_pos hj, a1 i, h2 i ⟨k, by omega⟩ rfl (by omega), cp, hi]
    ring
  · rw [mul_Gm_apply F A _ _ k hk i j]
    by_cases hjk : j.val = k
    · rw [if_pos hjk, a1 i, h2 i ⟨k, by omega⟩ rfl (by omega), hup i.val (k + 1) i.isLt (by omega)]
      ring
    · rw [if_neg hjk, if_neg (by omega)]
      exact h4 i j (by omega) hi
  · rw [mul_Gm_apply F A _ _ k hk i j]
    by_cases hjk : j.val = k
    · rw [if_pos hjk, a1 i, h2 i ⟨k, by omega⟩ rfl (by omega), hi, hjk]
      ring
    · rw [if_neg hjk, if_neg (by omega)]
      exact h5 i j (by omega) hi
  · rw [mul_Gm_apply F A _ _ k hk i j]
    by_cases hjk : j.val = k
    · rw [if_pos hjk, a1 i, h3 i ⟨k, by omega⟩ rfl (by omega), hi, hjk]
      ring
    · rw [if_neg hjk, if_neg (by omega)]
      exact h6 i j (by omega) hi

theorem RQInv_all (n : Nat) (cs sn : Vec K) (f : Nat → Nat → K)
    (hup : ∀ i j, i < n → j < i → f i j = 0) (k : Nat) (hk : k ≤ n - 1) :
    RQInv F n cs sn f k (RQk F n cs sn f k) := by
  induction k with
  | zero => exact RQInv_zero F n cs sn f hup
  | succ k ih =>
    rw [RQk_succ]
    exact RQInv_step F n cs sn f hup k (by omega) _ (ih (by omega))

/-- `R Q` is upper Hessenberg when `R` is upper triangular (every rotation sequence) -/
theorem RQ_hessenberg (n : Nat) (cs sn : Vec K) (f : Nat → Nat → K) (hup : ∀ i j, i < n → j < i → f i j = 0)
    (i j : Fin n) (hji : j.val + 1 < i.val) : (ofNat n f * Qm F n cs sn (n - 1)) i j = 0 :=
  (RQInv_all F n cs sn f hup (n - 1) (Nat.le_refl _)).2.2.2.1 i j (by omega) hji

/-- the subdiagonal of `R Q`: `(R Q)(j+1, j) = -s_j R(j+1, j+1)` -/
theorem RQ_subdiag (n : Nat) (cs sn : Vec K) (f : Nat → Nat → K) (hup : ∀ i j, i < n → j < i → f i j = 0)
    (i j : Fin n) (hij : i.val = j.val + 1) :
    (ofNat n f * Qm F n cs sn (n - 1)) i j = -(vgt F sn j.val) * f (j.val + 1) (j.val + 1) :=
  (RQInv_all F n cs sn f hup (n - 1) (Nat.le_refl _)).2.2.2.2.1 i j (by omega) hij

/-- the diagonal of `R Q` except its last entry: `(R Q)(j, j) = c_{j-1} c_j R(j,j) - s_j R(j,j+1)` -/
theorem RQ_diag (n : Nat) (cs sn : Vec K) (f : Nat → Nat → K) (hup : ∀ i j, i < n → j < i → f i j = 0)
    (j : Fin n) (hj : j.val + 1 < n) :
    (ofNat n f * Qm F n cs sn (n - 1)) j j =
      cprev F cs j.val * vgt F cs j.val * f j.val j.val - vgt F sn j.val * f j.val (j.val + 1) :=
  (RQInv_all F n cs sn f hup (n - 1) (Nat.le_refl _)).2.2.2.2.2 j j (by omega) rfl

/-- the last diagonal entry of `R Q`: `(R Q)(n-1, n-1) = c_{n-2} R(n-1,n-1)` -/
theorem RQ_diag_last (n : Nat) (cs sn : Vec K) (f : Nat → Nat → K) (hup : ∀ i j, i < n → j < i → f i j = 0)
    (j : Fin n) (hj : j.val = n - 1) :
    (ofNat n f * Qm F n cs sn (n - 1)) j j = cprev F cs (n - 1) * f (n - 1) (n - 1) :=
  (RQInv_all F n cs sn f hup (n - 1) (Nat.le_refl _)).2.2.1 j j hj hj

/-! ### TM3: the bands formed by the rotation loop of `matrix_QtHQ` are `Qᵀ Tm Q` -/

theorem symTri_symm (n : Nat) (d e : Vec K) (i j : Nat) (hi : i < n) (hj : j < n) :
    mget F (symTri F n d e) i j = mget F (symTri F n d e) j i := by
  rw [symTri_get F n d e i j hi hj, symTri_get F n d e j i hj hi]
  by_cases h1 : i = j
  · subst h1; rfl
  · have h1' : ¬ j = i := fun h => h1 h.symm
    rw [if_neg h1, if_neg h1']
    by_cases h2 : i = j + 1
    · have h3 : ¬ j = i + 1 := by omega
      rw [if_pos h2, if_neg h3, if_pos h2]
    · rw [if_neg h2]
      by_cases h3 : j = i + 1
      · rw [if_pos h3, if_pos h3]
      · rw [if_neg h3, if_neg h3, if_neg h2]

theorem toM_symTri_transpose (n : Nat) (d e : Vec K) :
    (toM F n n (symTri F n d e))ᵀ = toM F n n (symTri F n d e) := by
  ext i j
  rw [Matrix.transpose_apply, toM_apply, toM_apply]
  exact symTri_symm F n d e j.val i.val j.isLt i.isLt

theorem Rmat_get (q : TridiagQR K) (i j : Nat) (hi : i < q.n) (hj : j < q.n) :
    mget F (Rmat F q) i j =
      if i = j then vgt F q.R_diag i else if i + 1 = j then vgt F q.R_supd i
      else if i + 2 = j then vgt F q.R_supd2 i else 0 := by
  have h : mget F (Rmat F q) i j = _ :=
    @C08Tridiag.get_bandMat K (scOfField F) q.n (fun _ => @Lin.zero K (scOfField F)) (vgt F q.R_diag)
      (vgt F q.R_supd) (vgt F q.R_supd2) i j hi hj
  rw [h, C08Tridiag.zero_eq]
  simp

theorem Rmat_upper (q : TridiagQR K) (i j : Nat) (hi : i < q.n) (hji : j < i) : mget F (Rmat F q) i j = 0 :=
  (C08Tridiag.matrix_R_band F q i j hi (by omega)).1 hji

theorem rawMat_get (q : TridiagQR K) (i j : Nat) (hi : i < q.n) (hj : j < q.n) :
    mget F (rawMat F q) i j =
      mget F (symTri F q.n (C08Tridiag.qthqRaw F q).1 (C08Tridiag.qthqRaw F q).2) i j := by
  have h : mget F (rawMat F q) i j = _ :=
    @C08Tridiag.get_bandMat K (scOfField F) q.n (vgt F (C08Tridiag.qthqRaw F q).2)
      (vgt F (C08Tridiag.qthqRaw F q).1) (vgt F (C08Tridiag.qthqRaw F q).2) (fun _ => 0) i j hi hj
  rw [symTri_get F _ _ _ i j hi hj]
  rw [h, C08Tridiag.zero_eq]
  by_cases h1 : i = j
  · rw [if_pos h1, if_pos h1]
  · rw [if_neg h1, if_neg h1]
    by_cases h2 : i + 1 = j
    · have h3 : ¬ i = j + 1 := by omega
      rw [if_pos h2, if_neg h3, if_pos h2.symm]
    · have h2' : ¬ j = i + 1 := fun h => h2 h.symm
      rw [if_neg h2, if_neg h2']
      by_cases h4 : i + 2 = j
      · have h3 : ¬ i = j + 1 := by omega
        rw [if_pos h4, if_neg h3]
      · rw [if_neg h4]

/-- the raw bands as a `Matrix`: the symmetric tridiagonal matrix of `(D, E)` -/
theorem toM_rawMat (q : TridiagQR K) :
    toM F q.n q.n (rawMat F q) =
      toM F q.n q.n (symTri F q.n (C08Tridiag.qthqRaw F q).1 (C08Tridiag.qthqRaw F q).2) := by
  ext i j
  exact rawMat_get F q i.val j.val i.isLt j.isLt

/-- `Qᵀ Tm Q = R Q + σ I` -/
theorem tqr_similarity (hsqrt : ∀ x : K, 0 ≤ x → F.sqrt x * F.sqrt x = x ∧ 0 ≤ F.sqrt x) (hcut : C08Givens.cutoff F ≤ 0)
    (mat : Mat K) (shift : K) (q : TridiagQR K) (hq : q = tqr F mat shift) :
    (TQ F q)ᵀ * toM F q.n q.n (symTri F q.n q.T_diag q.T_subd) * TQ F q =
      toM F q.n q.n (Rmat F q) * TQ F q + shift • (1 : Matrix (Fin q.n) (Fin q.n) K) :=
  similarity_of_QR (TQ F q) _ _ shift (tqr_Q_orth F hsqrt hcut mat shift q hq).1
    (tqr_QR_matrix F hsqrt hcut mat shift q hq)

/-- `Qᵀ Tm Q` is symmetric (every `q`) -/
theorem QtTQ_symm (q : TridiagQR K) (d e : Vec K) (i j : Fin q.n) :
    ((TQ F q)ᵀ * toM F q.n q.n (symTri F q.n d e) * TQ F q) i j =
      ((TQ F q)ᵀ * toM F q.n q.n (symTri F q.n d e) * TQ F q) j i := by
  have h : ((TQ F q)ᵀ * toM F q.n q.n (symTri F q.n d e) * TQ F q)ᵀ =
      (TQ F q)ᵀ * toM F q.n q.n (symTri F q.n d e) * TQ F q := by
    rw [Matrix.transpose_mul, Matrix.transpose_mul, Matrix.transpose_transpose, toM_symTri_transpose, Matrix.mul_assoc]
  have h2 := congrFun (congrFun h j) i
  rw [Matrix.transpose_apply] at h2
  exact h2

theorem tqr_RQ_eq (q : TridiagQR K) :
    toM F q.n q.n (Rmat F q) * TQ F q = ofNat q.n (mget F (Rmat F q)) * Qm F q.n q.cos q.sin (q.n - 1) := rfl

/-- on and below the diagonal the raw bands `(D, E)` are the entries of `R Q + σ I` -/
theorem tqr_raw_lower (hsqrt : ∀ x : K, 0 ≤ x → F.sqrt x * F.sqrt x = x ∧ 0 ≤ F.sqrt x) (hcut : C08Givens.cutoff F ≤ 0)
    (mat : Mat K) (shift : K) (q : TridiagQR K) (hq : q = tqr F mat shift) (i j : Fin q.n) (hji : j.val ≤ i.val) :
    toM F q.n q.n (symTri F q.n (C08Tridiag.qthqRaw F q).1 (C08Tridiag.qthqRaw F q).2) i j =
      (toM F q.n q.n (Rmat F q) * TQ F q + shift • (1 : Matrix (Fin q.n) (Fin q.n) K)) i j := by
  subst hq
  have hn : (tqr F mat shift).n = mat.rows := rfl
  have hup : ∀ a b, a < (tqr F mat shift).n → b < a → mget F (Rmat F (tqr F mat shift)) a b = 0 :=
    fun a b ha hb => Rmat_upper F _ a b ha hb
  have e1 : (i = j) = (i.val = j.val) := propext Fin.ext_iff
  rw [Matrix.add_apply, Matrix.smul_apply, Matrix.one_apply, toM_apply, symTri_get F _ _ _ _ _ i.isLt j.isLt,
    smul_eq_mul, tqr_RQ_eq]
  simp only [e1]
  by_cases h1 : i.val = j.val
  · have e : i = j := Fin.ext h1
    subst e
    rw [if_pos rfl, if_pos rfl, mul_one]
    by_cases h2 : i.val + 1 < (tqr F mat shift).n
    · rw [RQ_diag F _ _ _ _ hup i h2, Rmat_get F _ i.val i.val i.isLt i.isLt,
        Rmat_get F _ i.val (i.val + 1) i.isLt h2, if_pos rfl, if_neg (by omega), if_pos rfl]
      have hd := C08TridiagQ.tqr_qthq_diag F hsqrt hcut mat shift i.val (by omega)
      unfold cprev
      linear_combination hd
    · have h3 : i.val = (tqr F mat shift).n - 1 := by omega
      have hn' : (tqr F mat shift).n - 1 = mat.rows - 1 := rfl
      rw [RQ_diag_last F _ _ _ _ hup i h3, Rmat_get F _ _ _ (by omega) (by omega), if_pos rfl, h3, hn']
      have hd := C08TridiagQ.tqr_qthq_diag_last F hsqrt hcut mat shift (by omega)
      unfold cprev
      linear_combination hd
  · rw [if_neg h1, if_neg h1, mul_zero, add_zero]
    by_cases h2 : i.val = j.val + 1
    · rw [if_pos h2, RQ_subdiag F _ _ _ _ hup i j h2,
        Rmat_get F _ (j.val + 1) (j.val + 1) (by omega) (by omega), if_pos rfl]
      exact C08TridiagQ.tqr_qthq_subdiag F hsqrt hcut mat shift j.val (by omega)
    · rw [if_neg h2, if_neg (by omega), RQ_hessenberg F _ _ _ _ hup i j (by omega)]

/-- TM3 (MAIN): the symmetric tridiagonal matrix with the diagonal `D` and the sub/superdiagonal `E` that the rotation loop of
    `matrix_QtHQ` produces (before the final deflation pass) is `Qᵀ Tm Q` -/
theorem tqr_QtHQ_raw_matrix (hsqrt : ∀ x : K, 0 ≤ x → F.sqrt x * F.sqrt x = x ∧ 0 ≤ F.sqrt x)
    (hcut : C08Givens.cutoff F ≤ 0) (mat : Mat K) (shift : K) (q : TridiagQR K) (hq : q = tqr F mat shift) :
    toM F q.n q.n (rawMat F q) =
      (TQ F q)ᵀ * toM F q.n q.n (symTri F q.n q.T_diag q.T_subd) * TQ F q := by
  rw [toM_rawMat]
  have hS := tqr_similarity F hsqrt hcut mat shift q hq
  ext i j
  by_cases h : j.val ≤ i.val
  · rw [tqr_raw_lower F hsqrt hcut mat shift q hq i j h, hS]
  · rw [QtTQ_symm F q _ _ i j, toM_apply, symTri_symm F _ _ _ _ _ i.isLt j.isLt, ← toM_apply,
      tqr_raw_lower F hsqrt hcut mat shift q hq j i (by omega), hS]

/-! ### TM4: the final deflation pass of `matrix_QtHQ` -/

/-- entries of `matrix_QtHQ` against the raw bands `(D, E)` of its rotation loop: exactly the negligible sub/superdiagonal
    entries are replaced by `0` (every `q`, no hypothesis) -/
theorem QtHQ_get (q : TridiagQR K) (i j : Nat) (hi : i < q.n) (hj : j < q.n) :
    mget F (TQtHQ F q) i j =
      if (i = j + 1 ∨ j = i + 1) ∧ negl F (C08Tridiag.qthqRaw F q).1 (C08Tridiag.qthqRaw F q).2 (min i j) then 0
      else mget F (symTri F q.n (C08Tridiag.qthqRaw F q).1 (C08Tridiag.qthqRaw F q).2) i j := by
  have h : mget F (TQtHQ F q) i j = _ :=
    @C08Tridiag.get_bandMat K (scOfField F) q.n
      (vgt F (@TridiagQR.deflate K _ _ (scOfField F) (C08Tridiag.qthqRaw F q).1 (C08Tridiag.qthqRaw F q).2 q.n))
      (vgt F (C08Tridiag.qthqRaw F q).1)
      (vgt F (@TridiagQR.deflate K _ _ (scOfField F) (C08Tridiag.qthqRaw F q).1 (C08Tridiag.qthqRaw F q).2 q.n))
      (fun _ => @Lin.zero K (scOfField F)) i j hi hj
  rw [h, symTri_get F _ _ _ i j hi hj, C08Tridiag.zero_eq]
  by_cases h1 : i = j
  · have c : ¬ ((i = j + 1 ∨ j = i + 1) ∧
        negl F (C08Tridiag.qthqRaw F q).1 (C08Tridiag.qthqRaw F q).2 (min i j)) := fun hh => by
      have := hh.1; omega
    rw [if_pos h1, if_neg c, if_pos h1]
  · rw [if_neg h1, if_neg h1]
    by_cases h2 : i + 1 = j
    · have hm : min i j = i := by omega
      have h3 : ¬ i = j + 1 := by omega
      rw [if_pos h2, hm, if_neg h3, if_pos h2.symm]
      have hd : vgt F (@TridiagQR.deflate K _ _ (scOfField F) (C08Tridiag.qthqRaw F q).1
          (C08Tridiag.qthqRaw F q).2 q.n) i = _ := C08Tridiag.deflate_get F _ _ q.n i
      rw [hd]
      by_cases hng : negl F (C08Tridiag.qthqRaw F q).1 (C08Tridiag.qthqRaw F q).2 i
      · rw [if_pos ⟨by omega, hng⟩, if_pos ⟨Or.inr h2.symm, hng⟩]
      · rw [if_neg (fun hh => hng hh.2), if_neg (fun hh => hng hh.2)]
    · have h2' : ¬ j = i + 1 := fun hh => h2 hh.symm
      rw [if_neg h2]
      by_cases h4 : i + 2 = j
      · have c : ¬ ((i = j + 1 ∨ j = i + 1) ∧
            negl F (C08Tridiag.qthqRaw F q).1 (C08Tridiag.qthqRaw F q).2 (min i j)) := fun hh => by
          have := hh.1; omega
        have h3 : ¬ i = j + 1 := by omega
        rw [if_pos h4, if_neg c, if_neg h3, if_neg h2']
      · rw [if_neg h4]
        by_cases h3 : i = j + 1
        · have hm : min i j = j := by omega
          rw [if_pos h3, hm, if_pos h3]
          have hd : vgt F (@TridiagQR.deflate K _ _ (scOfField F) (C08Tridiag.qthqRaw F q).1
              (C08Tridiag.qthqRaw F q).2 q.n) j = _ := C08Tridiag.deflate_get F _ _ q.n j
          rw [hd]
          by_cases hng : negl F (C08Tridiag.qthqRaw F q).1 (C08Tridiag.qthqRaw F q).2 j
          · rw [if_pos ⟨by omega, hng⟩, if_pos ⟨Or.inl h3, hng⟩]
          · rw [if_neg (fun hh => hng hh.2), if_neg (fun hh => hng hh.2)]
        · have c : ¬ ((i = j + 1 ∨ j = i + 1) ∧
              negl F (C08Tridiag.qthqRaw F q).1 (C08Tridiag.qthqRaw F q).2 (min i j)) := fun hh => by
            have := hh.1; omega
          rw [if_neg h3, if_neg c, if_neg h3, if_neg h2']

/-- the same on `Matrix` entries, against `toM (rawMat q)` -/
theorem QtHQ_vs_raw (q : TridiagQR K) (i j : Fin q.n) :
    toM F q.n q.n (TQtHQ F q) i j =
      if (i.val = j.val + 1 ∨ j.val = i.val + 1) ∧
          negl F (C08Tridiag.qthqRaw F q).1 (C08Tridiag.qthqRaw F q).2 (min i.val j.val) then 0
      else toM F q.n q.n (rawMat F q) i j := by
  rw [toM_rawMat]
  exact QtHQ_get F q i.val j.val i.isLt j.isLt

/-- TM4: `matrix_QtHQ` is `Qᵀ Tm Q` with exactly the sub/superdiagonal entries that pass the negligibility test
    `|E[m]| ≤ eps (|D[m]| + |D[m+1]|)` (`m = min i j`, `(D, E)` the bands of `Qᵀ Tm Q`) replaced by `0` -/
theorem tqr_QtHQ_matrix (hsqrt : ∀ x : K, 0 ≤ x → F.sqrt x * F.sqrt x = x ∧ 0 ≤ F.sqrt x)
    (hcut : C08Givens.cutoff F ≤ 0) (mat : Mat K) (shift : K) (q : TridiagQR K) (hq : q = tqr F mat shift)
    (i j : Fin q.n) :
    toM F q.n q.n (TQtHQ F q) i j =
      if (i.val = j.val + 1 ∨ j.val = i.val + 1) ∧
          negl F (C08Tridiag.qthqRaw F q).1 (C08Tridiag.qthqRaw F q).2 (min i.val j.val) then 0
      else ((TQ F q)ᵀ * toM F q.n q.n (symTri F q.n q.T_diag q.T_subd) * TQ F q) i j := by
  rw [← tqr_QtHQ_raw_matrix F hsqrt hcut mat shift q hq]
  exact QtHQ_vs_raw F q i j

/-- the symmetric matrix `Δ` of the entries that the final deflation pass of `matrix_QtHQ` drops -/
def dropMat (q : TridiagQR K) : Matrix (Fin q.n) (Fin q.n) K := fun i j =>
  if (i.val = j.val + 1 ∨ j.val = i.val + 1) ∧
      negl F (C08Tridiag.qthqRaw F q).1 (C08Tridiag.qthqRaw F q).2 (min i.val j.val)
  then vgt F (C08Tridiag.qthqRaw F q).2 (min i.val j.val) else 0

theorem dropMat_symm (q : TridiagQR K) : (dropMat F q)ᵀ = dropMat F q := by
  ext i j
  rw [Matrix.transpose_apply]
  unfold dropMat
  rw [Nat.min_comm j.val i.val]
  have e : (j.val = i.val + 1 ∨ i.val = j.val + 1) = (i.val = j.val + 1 ∨ j.val = i.val + 1) := propext Or.comm
  simp only [e]

/-- every dropped entry is negligible -/
theorem dropMat_small (q : TridiagQR K) (i j : Fin q.n) (h : dropMat F q i j ≠ 0) :
    (i.val = j.val + 1 ∨ j.val = i.val + 1) ∧ dropMat F q i j = vgt F (C08Tridiag.qthqRaw F q).2 (min i.val j.val) ∧
    |dropMat F q i j| ≤ F.eps * (|vgt F (C08Tridiag.qthqRaw F q).1 (min i.val j.val)| +
      |vgt F (C08Tridiag.qthqRaw F q).1 (min i.val j.val + 1)|) := by
  unfold dropMat at h ⊢
  by_cases c : (i.val = j.val + 1 ∨ j.val = i.val + 1) ∧
      negl F (C08Tridiag.qthqRaw F q).1 (C08Tridiag.qthqRaw F q).2 (min i.val j.val)
  · rw [if_pos c]
    exact ⟨c.1, rfl, c.2⟩
  · rw [if_neg c] at h
    exact absurd rfl h

/-- `matrix_QtHQ = raw bands - Δ` (every `q`) -/
theorem QtHQ_eq_raw_sub (q : TridiagQR K) :
    toM F q.n q.n (TQtHQ F q) = toM F q.n q.n (rawMat F q) - dropMat F q := by
  ext i j
  rw [Matrix.sub_apply, QtHQ_vs_raw F q i j]
  unfold dropMat
  by_cases c : (i.val = j.val + 1 ∨ j.val = i.val + 1) ∧
      negl F (C08Tridiag.qthqRaw F q).1 (C08Tridiag.qthqRaw F q).2 (min i.val j.val)
  · rw [if_pos c, if_pos c, toM_rawMat, toM_apply, symTri_get F _ _ _ _ _ i.isLt j.isLt]
    rcases c.1 with h | h
    · have hm : min i.val j.val = j.val := by omega
      have h1 : ¬ i.val = j.val := by omega
      rw [if_neg h1, if_pos h, hm, sub_self]
    · have hm : min i.val j.val = i.val := by omega
      have h1 : ¬ i.val = j.val := by omega
      have h2 : ¬ i.val = j.val + 1 := by omega
      rw [if_neg h1, if_neg h2, if_pos h, hm, sub_self]
  · rw [if_neg c, if_neg c, sub_zero]

/-- TM4, matrix form: `matrix_QtHQ = Qᵀ Tm Q - Δ` -/
theorem tqr_QtHQ_matrix_sub (hsqrt : ∀ x : K, 0 ≤ x → F.sqrt x * F.sqrt x = x ∧ 0 ≤ F.sqrt x)
    (hcut : C08Givens.cutoff F ≤ 0) (mat : Mat K) (shift : K) (q : TridiagQR K) (hq : q = tqr F mat shift) :
    toM F q.n q.n (TQtHQ F q) =
      (TQ F q)ᵀ * toM F q.n q.n (symTri F q.n q.T_diag q.T_subd) * TQ F q - dropMat F q := by
  rw [← tqr_QtHQ_raw_matrix F hsqrt hcut mat shift q hq]
  exact QtHQ_eq_raw_sub F q

/-! ### TM5: the package -/

/-- TM5: the computed tridiagonal QR decomposition in `Matrix` language (`n = mat.rows`, `q = compute(mat, shift)`, `d`, `e` the
    stored diagonal / deflated subdiagonal of the input, `(D, E)` the bands left by the rotation loop of `matrix_QtHQ`) -/
theorem tqr_matrix (hsqrt : ∀ x : K, 0 ≤ x → F.sqrt x * F.sqrt x = x ∧ 0 ≤ F.sqrt x) (hcut : C08Givens.cutoff F ≤ 0)
    (mat : Mat K) (shift : K) :
    let n := mat.rows
    let q := tqr F mat shift
    let Q : Matrix (Fin n) (Fin n) K := Qof F (hessOf F q)
    let R : Matrix (Fin n) (Fin n) K := toM F n n (Rmat F q)
    let Tm : Matrix (Fin n) (Fin n) K := toM F n n (Mat.ofFn n n (fun i j =>
      if i = j then vgt F q.T_diag i else if i = j + 1 then vgt F q.T_subd j
      else if j = i + 1 then vgt F q.T_subd i else 0))
    let D := (C08Tridiag.qthqRaw F q).1
    let E := (C08Tridiag.qthqRaw F q).2
    let B : Matrix (Fin n) (Fin n) K :=
      toM F n n (@TridiagQR.bandMat K (scOfField F) n (vgt F E) (vgt F D) (vgt F E) (fun _ => 0))
    let T : Matrix (Fin n) (Fin n) K := toM F n n (TQtHQ F q)
    let Δ : Matrix (Fin n) (Fin n) K := dropMat F q
    (Qᵀ * Q = 1 ∧ Q * Qᵀ = 1) ∧
    Q * R = Tm - shift • (1 : Matrix (Fin n) (Fin n) K) ∧
    (∀ i j : Fin n, j < i → R i j = 0) ∧
    (∀ i j : Fin n, i.val + 2 < j.val → R i j = 0) ∧
    Qᵀ * Tm * Q = R * Q + shift • (1 : Matrix (Fin n) (Fin n) K) ∧
    B = Qᵀ * Tm * Q ∧
    (∀ i j : Fin n, T i j =
      if (i.val = j.val + 1 ∨ j.val = i.val + 1) ∧
          |vgt F E (min i.val j.val)| ≤
            F.eps * (|vgt F D (min i.val j.val)| + |vgt F D (min i.val j.val + 1)|) then 0
      else (Qᵀ * Tm * Q) i j) ∧
    (T = Qᵀ * Tm * Q - Δ ∧ Δᵀ = Δ) := by
  intro n q Q R Tm D E B T Δ
  exact ⟨tqr_Q_orth F hsqrt hcut mat shift _ rfl, tqr_QR_matrix F hsqrt hcut mat shift _ rfl,
    fun i j h => (tqr_R_band_matrix F (tqr F mat shift) i j).1 h,
    fun i j h => (tqr_R_band_matrix F (tqr F mat shift) i j).2 h,
    tqr_similarity F hsqrt hcut mat shift _ rfl,
    tqr_QtHQ_raw_matrix F hsqrt hcut mat shift _ rfl,
    fun i j => tqr_QtHQ_matrix F hsqrt hcut mat shift _ rfl i j,
    tqr_QtHQ_matrix_sub F hsqrt hcut mat shift _ rfl, dropMat_symm F (tqr F mat shift)⟩

end AtField
end C08TridiagMatrix
