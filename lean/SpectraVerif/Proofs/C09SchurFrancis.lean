/-
  C09 (whole-run similarity of UpperHessenbergSchur), part 5: the closing rotation and the clean-up loop of
  `perform_francis_qr_step`; the whole step carries `Uᵀ H U = T + S + E` with the budget of `E` growing by `performFrancisDrop`.
-/
import SpectraVerif.Proofs.C09SchurSweep

set_option linter.unusedSectionVars false
set_option linter.unusedSimpArgs false
set_option linter.unusedVariables false
set_option linter.unusedTactic false
set_option linter.unreachableTactic false
set_option linter.style.haveILetI false

namespace C09SS
open Lin EigenPrims HessSchur C09Mat C09Step C09Sim C09OrthU C09Orth Finset
open scoped Matrix

section ring
variable {R : Type} [CommRing R]
theorem mulG_id (M : ℕ → ℕ → R) (k : ℕ) (i j : ℕ) : mulG M k 1 0 i j = M i j := by
  simp only [mulG]; split_ifs with h1 h2
  · subst h1; ring
  · subst h2; ring
  · rfl
theorem mulGt_id (M : ℕ → ℕ → R) (k : ℕ) (i j : ℕ) : mulGt M k 1 0 i j = M i j := by
  simp only [mulGt]; split_ifs with h1 h2
  · subst h1; ring
  · subst h2; ring
  · rfl
end ring

section field
variable {K : Type} [Field K] [LinearOrder K] [IsStrictOrderedRing K] (F : FieldFns K)

/-- **the closing rotation of the sweep** (rows/columns `p, p+1`, `iu = p + 1`): with an exact `sqrt` the rotated bulge column is
    `(r, 0)ᵀ` exactly, so an applied rotation drops nothing; a skipped one (`|r| ≤ near_0`) drops the bulge entry `T(iu, iu−2)`. -/
theorem givens_sim (hs : ∀ x : K, 0 ≤ x → F.sqrt x * F.sqrt x = x) (n im p : ℕ) (near0 : K) (H : Matrix (Fin n) (Fin n) K) (ex : K)
    (s1 : TU K) (b1 : K) (him : im + 1 ≤ p) (hiu : p + 1 < n) (h : SInv F n im (p + 1) p H ex s1 b1) :
    let _ : Sc K := scOfField F
    let rot := makeGivens (s1.t.get p (p - 1)) (s1.t.get (p + 1) (p - 1))
    let s2 : TU K := if Sc.gt (Sc.abs rot.r) near0 = true then
        ({ t := applyOnTheRight (applyOnTheLeftAdj (s1.t.set p (p - 1) rot.r) p (n - (p + 1) + 1) p (p + 1) rot.c rot.s) (p + 1 + 1) p (p + 1) rot.c rot.s,
           u := applyOnTheRight s1.u n p (p + 1) rot.c rot.s } : TU K) else s1
    WF s2.t ∧ s2.t.rows = n ∧ s2.t.cols = n ∧ ColsOrth F n s2.u ∧
    ∃ E' : Matrix (Fin n) (Fin n) K, Bnd E' (b1 + (if Sc.gt (Sc.abs rot.r) near0 = true then 0 else |s1.t.get (p + 1) (p - 1)|)) ∧
      (mat n (gf F s2.u))ᵀ * H * mat n (gf F s2.u) = mat n (live im (p + 1) (gf F s2.t)) + Sm n (p + 1 + 1) ex + E' := by
  intro _ rot s2
  obtain ⟨hw, hr, hc, orth, hP, E, hE, sim⟩ := h
  have hcs := makeGivens_unit F hs (s1.t.get p (p - 1)) (s1.t.get (p + 1) (p - 1))
  have hrr := makeGivens_r F hs (s1.t.get p (p - 1)) (s1.t.get (p + 1) (p - 1))
  have hann := makeGivens_annih F (s1.t.get p (p - 1)) (s1.t.get (p + 1) (p - 1))
  simp only at hcs hrr hann
  have hLA : ∀ i j, p ≤ j → live im p (gf F s1.t) i j = gf F s1.t i j := by
    intro i j hkj; simp only [live]; rw [if_neg (by omega)]
  by_cases happ : Sc.gt (Sc.abs rot.r) near0 = true
  · have es2 : s2 = _ := if_pos happ
    rw [es2, if_pos happ]
    have w0 : WF (s1.t.set p (p - 1) rot.r) := set_wf _ _ _ _ hw
    have r0 : (s1.t.set p (p - 1) rot.r).rows = n := by rw [set_rows, hr]
    have c0 : (s1.t.set p (p - 1) rot.r).cols = n := by rw [set_cols, hc]
    have g0 : ∀ i j, i < n → j < n → gf F (s1.t.set p (p - 1) rot.r) i j = if i = p ∧ j + 1 = p then rot.r else gf F s1.t i j := by
      intro i j hi hj
      simp only [gf]
      rw [get_set _ hw _ _ _ _ _ (by rw [hr]; omega) (by rw [hc]; omega) (by rw [hr]; exact hi)]
      by_cases hcnd : i = p ∧ j + 1 = p
      · rw [if_pos ⟨hcnd.1, by omega⟩, if_pos hcnd]
      · rw [if_neg (by omega), if_neg hcnd]
    obtain ⟨w1, r1, c1, g1⟩ := rot_apply_T F n _ w0 r0 c0 p (p + 1) (p + 1 + 1) rfl hiu (by omega) rot.c rot.s
    have hAL : ∀ i j, i < n → j < n → p ≤ j → gf F (s1.t.set p (p - 1) rot.r) i j = live im p (gf F s1.t) i j := by
      intro i j hi hj hkj
      rw [g0 i j hi hj, if_neg (by omega), hLA i j hkj]
    have hZ2 : ∀ i, p + 1 + 1 ≤ i → i < n → live im p (gf F s1.t) i p = 0 ∧ live im p (gf F s1.t) i (p + 1) = 0 := by
      intro i h1 h2
      exact ⟨hP i p h2 (by omega) (Or.inl (by omega)) (by unfold Bulge; omega),
        hP i (p + 1) h2 (by omega) (by omega) (by unfold Bulge; omega)⟩
    have hR : ∀ i j, i < n → j < n → p ≤ j →
        gf F (applyOnTheRight (applyOnTheLeftAdj (s1.t.set p (p - 1) rot.r) p (n - (p + 1) + 1) p (p + 1) rot.c rot.s) (p + 1 + 1) p (p + 1) rot.c rot.s) i j =
          mulG (mulGt (live im p (gf F s1.t)) p rot.c rot.s) p rot.c rot.s i j := by
      intro i j hi hj hkj
      rw [g1 i j hi hj]
      exact wLRg_right n p _ (by omega) (by omega) _ _ _ _ hAL hZ2 i j hi hj hkj
    have hLft : ∀ i j, i < n → j < n → j < p →
        gf F (applyOnTheRight (applyOnTheLeftAdj (s1.t.set p (p - 1) rot.r) p (n - (p + 1) + 1) p (p + 1) rot.c rot.s) (p + 1 + 1) p (p + 1) rot.c rot.s) i j =
          if i = p ∧ j + 1 = p then rot.r else gf F s1.t i j := by
      intro i j hi hj hjk
      rw [g1 i j hi hj, wLRg_left p _ _ _ _ i j hjk, g0 i j hi hj]
    have hT := live_rot n im (p + 1) p (gf F s1.t) _ rot.c rot.s rot.r (by omega) rfl hiu hP hR hLft
    have hU : ∀ i j, i < n → j < n → gf F (applyOnTheRight s1.u n p (p + 1) rot.c rot.s) i j = mulG (gf F s1.u) p rot.c rot.s i j := by
      intro i j hi hj
      have := applyOnTheRight_get F s1.u orth.1 n p (p + 1) rot.c rot.s (by omega) (by rw [orth.2.2.1]; omega) (by rw [orth.2.2.1]; exact hiu)
        (by rw [orth.2.1]) i j (by rw [orth.2.1]; exact hi)
      simp only at this
      simp only [gf]
      rw [this, if_pos hi]
      simp only [mulG, gf]
    obtain ⟨E', hE', sim'⟩ := sim_rot n p (p + 1 + 1) hiu (Or.inl (by omega)) H ex _ _ _ _ rot.c rot.s _ _ hcs E b1 hE sim hU hT
    refine ⟨w1, r1, c1, colsOrth_rot F n p s1.u rot.c rot.s hcs hiu orth, E', bnd_mono hE' ?_, sim'⟩
    have d0 : rot.c * gf F s1.t p (p - 1) - rot.s * gf F s1.t (p + 1) (p - 1) - rot.r = 0 := sub_eq_zero.mpr hrr
    have d1 : rot.s * gf F s1.t p (p - 1) + rot.c * gf F s1.t (p + 1) (p - 1) = 0 := hann
    rw [d0, d1]; split_ifs <;> simp
  · have es2 : s2 = s1 := if_neg happ
    rw [es2, if_neg happ]
    have hR : ∀ i j, i < n → j < n → p ≤ j → gf F s1.t i j = mulG (mulGt (live im p (gf F s1.t)) p 1 0) p 1 0 i j := by
      intro i j hi hj hkj
      rw [mulG_id, mulGt_id, hLA i j hkj]
    have hLft : ∀ i j, i < n → j < n → j < p → gf F s1.t i j = if i = p ∧ j + 1 = p then gf F s1.t p (p - 1) else gf F s1.t i j := by
      intro i j hi hj hjk
      split
      · rename_i hcnd
        obtain ⟨rfl, h2⟩ := hcnd
        congr 1; omega
      · rfl
    have hT := live_rot n im (p + 1) p (gf F s1.t) (gf F s1.t) 1 0 _ (by omega) rfl hiu hP hR hLft
    have hU : ∀ i j, i < n → j < n → gf F s1.u i j = mulG (gf F s1.u) p 1 0 i j := by
      intro i j _ _; rw [mulG_id]
    obtain ⟨E', hE', sim'⟩ := sim_rot n p (p + 1 + 1) hiu (Or.inl (by omega)) H ex _ _ _ _ 1 0 _ _ (by ring) E b1 hE sim hU hT
    refine ⟨hw, hr, hc, orth, E', bnd_mono hE' ?_, sim'⟩
    rw [if_neg (by omega)]
    simp [gf]

/-- after the clean-up loop the stored matrix IS the logical matrix (the loop zeroes exactly the stale entries; everything else the
    logical matrix regards as `0` is `0` because the result is upper Hessenberg) -/
theorem cleanup_live (n im iu : ℕ) (t : Mat K) (hw : @WF K t) (hr : t.rows = n) (l : List ℕ) (hl : ∀ ii ∈ l, im + 2 + ii ≤ iu)
    (hH : @C09Hess.Hess K (scOfField F) n (l.foldl (@C09Hess.cleanStep K (scOfField F) im) t))
    (i j : ℕ) (hi : i < n) (hj : j < n) :
    gf F (l.foldl (@C09Hess.cleanStep K (scOfField F) im) t) i j = live im iu (gf F t) i j := by
  letI : Sc K := scOfField F
  have hp : C09Hess.PresK (fun i j => ¬ C09Hess.Poll im iu i j) t (l.foldl (C09Hess.cleanStep im) t) :=
    C09Hess.presK_foldl _ _ _ (fun acc ii hii hwacc => by
      have := hl ii hii
      simp only [C09Hess.cleanStep]
      split
      · exact C09Hess.presK_set2 _ acc hwacc _ _ _ _ _ _ (by intro h; apply h; unfold C09Hess.Poll; omega)
          (by intro h; apply h; unfold C09Hess.Poll; omega)
      · exact C09Hess.presK_set _ acc hwacc _ _ _ (by intro h; apply h; unfold C09Hess.Poll; omega)) t hw
  simp only [live]
  by_cases hd : im ≤ j ∧ j + 2 ≤ iu ∧ j + 2 ≤ i
  · rw [if_pos hd]
    have := hH i j hd.2.2 hi
    simp only [gf]; rw [this]; simp [zero]
  · rw [if_neg hd]
    simp only [gf]
    exact hp.2.2.2 i j (by unfold C09Hess.Poll; omega) (by rw [hr]; exact hi)

/-- ghost: the budget of one `perform_francis_qr_step`: the reflector trips (`francisDrop`) plus the bulge entry `T(iu, iu−2)`
    when the closing rotation is skipped -/
def performFrancisDrop (n il im iu : ℕ) (near0 : K) (fv : K × K × K) (s : TU K) : K :=
  letI : Sc K := scOfField F
  let sp := sweepPair F n il im iu near0 fv s (iu - 1 - im)
  let rot := makeGivens (sp.1.t.get (iu - 1) (iu - 2)) (sp.1.t.get iu (iu - 2))
  sp.2 + (if Sc.gt (Sc.abs rot.r) near0 = true then 0 else |sp.1.t.get iu (iu - 2)|)

theorem performFrancisDrop_nonneg (n il im iu : ℕ) (near0 : K) (fv : K × K × K) (s : TU K) :
    0 ≤ performFrancisDrop F n il im iu near0 fv s := by
  simp only [performFrancisDrop]
  refine add_nonneg (sweepPair_nonneg F n il im iu near0 fv s _) ?_
  split
  · exact le_refl _
  · exact abs_nonneg _

/-- **one `perform_francis_qr_step` carries the invariant** `Uᵀ H U = T + S + E` (exact `sqrt`, ideal reflectors): the input `T` is
    upper Hessenberg with `T(iu+1, iu) = 0`, the budget of `E` grows by `performFrancisDrop` -/
theorem performFrancis_sim (hs : ∀ x : K, 0 ≤ x → F.sqrt x * F.sqrt x = x) (hh : IdealHH F) (n il im iu : ℕ) (near0 : K)
    (fv : K × K × K) (H : Matrix (Fin n) (Fin n) K) (ex : K) (s : TU K) (b : K) (him : im + 2 ≤ iu) (hiu : iu < n)
    (hw : @WF K s.t) (hr : s.t.rows = n) (hc : s.t.cols = n) (hH : @C09Hess.Hess K (scOfField F) n s.t)
    (hz : iu + 1 < n → @Mat.get K (scOfField F) s.t (iu + 1) iu = 0) (orth : ColsOrth F n s.u)
    (E : Matrix (Fin n) (Fin n) K) (hE : Bnd E b)
    (sim : (mat n (gf F s.u))ᵀ * H * mat n (gf F s.u) = mat n (gf F s.t) + Sm n (iu + 1) ex + E) :
    ∃ E' : Matrix (Fin n) (Fin n) K, Bnd E' (b + performFrancisDrop F n il im iu near0 fv s) ∧
      (mat n (gf F (@performFrancis K _ _ _ _ _ (scOfField F) n il im iu near0 fv s).u))ᵀ * H *
          mat n (gf F (@performFrancis K _ _ _ _ _ (scOfField F) n il im iu near0 fv s).u) =
        mat n (gf F (@performFrancis K _ _ _ _ _ (scOfField F) n il im iu near0 fv s).t) + Sm n (iu + 1) ex + E' := by
  letI : Sc K := scOfField F
  have hHf := C09Hess.hess_performFrancis n il im iu near0 fv s hw hr hc hiu hH
  obtain ⟨p, rfl⟩ : ∃ p, iu = p + 1 := ⟨iu - 1, by omega⟩
  -- the invariant when the sweep starts
  have hlive0 : ∀ i j, live im im (gf F s.t) i j = gf F s.t i j := by
    intro i j; simp only [live]; rw [if_neg (by omega)]
  have h0 : SInv F n im (p + 1) im H ex s b := by
    refine ⟨hw, hr, hc, orth, ?_, E, hE, ?_⟩
    · intro i j hi hj hpos _
      rw [hlive0]
      rcases hpos with h1 | ⟨h1, h2⟩
      · have := hH i j h1 hi; simp only [gf]; rw [this]; simp [zero]
      · subst h1; subst h2; exact hz hi
    · rw [sim]; congr 2; exact mat_congr _ _ _ (fun i j _ _ => (hlive0 i j).symm)
  have h1 := sweep_sinv F hh n il im (p + 1) near0 fv H ex s b hiu h0 (p - im) (by omega)
  rw [show im + (p - im) = p by omega] at h1
  have hg := givens_sim F hs n im p near0 H ex _ _ (by omega) hiu h1
  simp only [performFrancis, performFrancisDrop, Nat.add_sub_cancel, show p + 1 - 2 = p - 1 from rfl] at hHf ⊢
  simp only at hg
  rw [← sweepPair_fst F n il im (p + 1) near0 fv s (p - im)] at hHf ⊢
  generalize sweepPair F n il im (p + 1) near0 fv s (p - im) = sp at hg hHf ⊢
  generalize hs2 : (if Sc.gt (Sc.abs (makeGivens (sp.1.t.get p (p - 1)) (sp.1.t.get (p + 1) (p - 1))).r) near0 = true then
      ({ t := applyOnTheRight (applyOnTheLeftAdj (sp.1.t.set p (p - 1) (makeGivens (sp.1.t.get p (p - 1)) (sp.1.t.get (p + 1) (p - 1))).r) p (n - (p + 1) + 1) p (p + 1)
              (makeGivens (sp.1.t.get p (p - 1)) (sp.1.t.get (p + 1) (p - 1))).c (makeGivens (sp.1.t.get p (p - 1)) (sp.1.t.get (p + 1) (p - 1))).s) (p + 1 + 1) p (p + 1)
              (makeGivens (sp.1.t.get p (p - 1)) (sp.1.t.get (p + 1) (p - 1))).c (makeGivens (sp.1.t.get p (p - 1)) (sp.1.t.get (p + 1) (p - 1))).s,
         u := applyOnTheRight sp.1.u n p (p + 1) (makeGivens (sp.1.t.get p (p - 1)) (sp.1.t.get (p + 1) (p - 1))).c
              (makeGivens (sp.1.t.get p (p - 1)) (sp.1.t.get (p + 1) (p - 1))).s } : TU K) else sp.1) = s2 at hg hHf ⊢
  obtain ⟨w2, r2, c2, o2, E', hE', sim'⟩ := hg
  have efun : (fun (acc : Mat K) ii => if im + 2 < im + 2 + ii then ((acc.set (im + 2 + ii) (im + 2 + ii - 2) zero).set (im + 2 + ii) (im + 2 + ii - 3) zero)
      else (acc.set (im + 2 + ii) (im + 2 + ii - 2) zero)) = C09Hess.cleanStep im := by
    funext acc ii; simp only [C09Hess.cleanStep]
  rw [efun] at hHf ⊢
  refine ⟨E', ?_, ?_⟩
  · rw [← add_assoc]; exact hE'
  · rw [sim']
    congr 2
    apply mat_congr
    intro i j hi hj
    exact (cleanup_live F n im (p + 1) s2.t w2 r2 _ (fun ii hii => by have := List.mem_range.mp hii; omega) hHf i j hi hj).symm

end field
end C09SS
