/-
  C06 — the stale columns of a reused basis matrix are harmless ("column i of V is written before it is read").

  The C++ `Arnoldi::init` calls `m_fac_V.resize(m_n, m_m)`, which on an object that has been used before keeps the OLD contents:
  only column 0 is assigned, columns >= 1 hold whatever the previous run left.  The executable model `Arnoldi.init` builds `V`
  from a zero matrix instead.  This file proves that the difference is invisible: `Lanczos.factorize_from op s from_k m` on a basis
  matrix with `m` columns reads column `i` only after writing it (`v <- f/beta` resp. the `expand_basis` branch, which reads
  `leftCols(i)` only; the re-orthogonalisation reads `leftCols(i+1)`), so its result — the whole object state, all `m` columns
  included — does not depend on the columns `>= from_k` it starts from (`factorize_overwrites`); hence the C++-faithful
  `initKeepV` followed by the first factorization of `compute()` equals the model's `init` followed by it
  (`init_stale_columns_harmless`).  Hypotheses: the old matrix has the right shape (what `resize` guarantees) and the operator
  returns vectors of the problem dimension (`OpWF`; an out-of-range row index would alias the next column in the column-major array).
  Core Lean + `Proofs/C08Mat.lean` (array lemmas: `WF`, `get_set`, `ext_get`).
-/
import SpectraVerif.Proofs.C08Mat
import SpectraVerif.Model.Lanczos
open Lin Arnoldi C08Mat

namespace C06StaleV
section
variable {α : Type} [Add α] [Sub α] [Mul α] [Div α] [Neg α] [Sc α]
set_option linter.unusedSectionVars false
set_option linter.unusedVariables false

/-! ### congruence of the array builders -/

theorem vofFn_congr (n : Nat) (f g : Nat → α) (h : ∀ i, i < n → f i = g i) : vofFn n f = vofFn n g := by
  unfold vofFn
  apply Array.ext
  · simp
  · intro i h1 h2
    simp only [Array.getElem_ofFn]
    exact h i (by simpa using h1)

theorem foldl_congr_mem {σ ι : Type} (F G : σ → ι → σ) (l : List ι) (h : ∀ x i, i ∈ l → F x i = G x i) (x : σ) :
    l.foldl F x = l.foldl G x := by
  induction l generalizing x with
  | nil => rfl
  | cons a l ih =>
    simp only [List.foldl_cons]
    rw [h x a (List.mem_cons_self), ih (fun y i hi => h y i (List.mem_cons_of_mem _ hi))]

theorem sum0_congr (n : Nat) (f g : Nat → α) (h : ∀ i, i < n → f i = g i) : sum0 n f = sum0 n g := by
  unfold sum0
  apply foldl_congr_mem
  intro x i hi
  rw [h i (List.mem_range.mp hi)]

/-! ### `setCol` -/

theorem setCol_fold (j : Nat) (v : Vec α) (l : List Nat) : ∀ (m : Mat α), WF m → j < m.cols → (∀ a ∈ l, a < m.rows) →
    WF (l.foldl (fun acc i => acc.set i j (vget v i)) m) ∧
    (l.foldl (fun acc i => acc.set i j (vget v i)) m).rows = m.rows ∧
    (l.foldl (fun acc i => acc.set i j (vget v i)) m).cols = m.cols ∧
    ∀ r c, r < m.rows → c < m.cols →
      (l.foldl (fun acc i => acc.set i j (vget v i)) m).get r c = if c = j ∧ r ∈ l then vget v r else m.get r c := by
  induction l with
  | nil => intro m hw hj hl; exact ⟨hw, rfl, rfl, fun r c _ _ => by simp⟩
  | cons a l ih =>
    intro m hw hj hl
    have ha : a < m.rows := hl a (List.mem_cons_self)
    have hw' : WF (m.set a j (vget v a)) := set_WF hw _ _ _
    obtain ⟨w1, w2, w3, w4⟩ := ih (m.set a j (vget v a)) hw' (by simpa using hj) (fun b hb => by simpa using hl b (List.mem_cons_of_mem _ hb))
    simp only [List.foldl_cons]
    refine ⟨w1, by simpa using w2, by simpa using w3, ?_⟩
    intro r c hr hc
    rw [w4 r c (by simpa using hr) (by simpa using hc), get_set hw _ ha hj hr hc]
    by_cases h1 : c = j
    · by_cases h2 : r ∈ l
      · simp [h1, h2]
      · by_cases h3 : r = a
        · subst h3; simp [h1, h2]
        · simp [h1, h2, h3]
    · simp [h1]

theorem setCol_spec (m : Mat α) (hw : WF m) (j : Nat) (hj : j < m.cols) (v : Vec α) :
    WF (m.setCol j v) ∧ (m.setCol j v).rows = m.rows ∧ (m.setCol j v).cols = m.cols ∧
    ∀ r c, r < m.rows → c < m.cols → (m.setCol j v).get r c = if c = j then vget v r else m.get r c := by
  obtain ⟨w1, w2, w3, w4⟩ := setCol_fold j v (List.range m.rows) m hw hj (fun a ha => List.mem_range.mp ha)
  refine ⟨w1, w2, w3, ?_⟩
  intro r c hr hc
  have := w4 r c hr hc
  unfold Mat.setCol
  rw [this]
  simp [List.mem_range, hr]


/-! ### agreement on the leading columns -/

/-- two well-formed matrices of the same shape whose columns `< j` coincide (columns `>= j`: anything) -/
structure AgreeCols (j : Nat) (A B : Mat α) : Prop where
  wfA : WF A
  wfB : WF B
  rows : A.rows = B.rows
  cols : A.cols = B.cols
  get : ∀ r c, r < A.rows → c < j → c < A.cols → A.get r c = B.get r c

theorem AgreeCols.mono {j k : Nat} {A B : Mat α} (h : AgreeCols j A B) (hk : k ≤ j) : AgreeCols k A B :=
  ⟨h.wfA, h.wfB, h.rows, h.cols, fun r c hr hc hcc => h.get r c hr (by omega) hcc⟩

/-- all columns agree: the matrices are equal -/
theorem AgreeCols.eq {j : Nat} {A B : Mat α} (h : AgreeCols j A B) (hj : A.cols ≤ j) : A = B :=
  ext_get h.wfA h.wfB h.rows h.cols (fun a b ha hb => h.get a b ha (by omega) hb)

theorem AgreeCols.setCol {i : Nat} {A B : Mat α} (h : AgreeCols i A B) (hi : i < A.cols) (v : Vec α) :
    AgreeCols (i + 1) (A.setCol i v) (B.setCol i v) := by
  obtain ⟨a1, a2, a3, a4⟩ := setCol_spec A h.wfA i hi v
  obtain ⟨b1, b2, b3, b4⟩ := setCol_spec B h.wfB i (by rw [← h.cols]; exact hi) v
  refine ⟨a1, b1, by rw [a2, b2, h.rows], by rw [a3, b3, h.cols], ?_⟩
  intro r c hr hc hcc
  rw [a2] at hr; rw [a3] at hcc
  rw [a4 r c hr hcc, b4 r c (by rw [← h.rows]; exact hr) (by rw [← h.cols]; exact hcc)]
  by_cases e : c = i
  · simp [e]
  · simp only [e, if_false]; exact h.get r c hr (by omega) hcc

/-- same column written into an agreeing pair when the column index is already below the agreement bound -/
theorem AgreeCols.setCol_le {i j : Nat} {A B : Mat α} (h : AgreeCols j A B) (hi : i < A.cols) (v : Vec α) :
    AgreeCols j (A.setCol i v) (B.setCol i v) := by
  obtain ⟨a1, a2, a3, a4⟩ := setCol_spec A h.wfA i hi v
  obtain ⟨b1, b2, b3, b4⟩ := setCol_spec B h.wfB i (by rw [← h.cols]; exact hi) v
  refine ⟨a1, b1, by rw [a2, b2, h.rows], by rw [a3, b3, h.cols], ?_⟩
  intro r c hr hc hcc
  rw [a2] at hr; rw [a3] at hcc
  rw [a4 r c hr hcc, b4 r c (by rw [← h.rows]; exact hr) (by rw [← h.cols]; exact hcc)]
  by_cases e : c = i
  · simp [e]
  · simp only [e, if_false]; exact h.get r c hr hc hcc

theorem tmulVecK0_agree {j k : Nat} {A B : Mat α} (h : AgreeCols j A B) (hk : k ≤ j) (hkc : k ≤ A.cols) (y : Vec α) :
    tmulVecK0 A k y = tmulVecK0 B k y := by
  unfold tmulVecK0
  rw [← h.rows]
  apply vofFn_congr
  intro c hc
  apply sum0_congr
  intro r hr
  rw [h.get r c hr (by omega) (by omega)]

theorem adjoint_agree (op : Op α) {j k : Nat} {A B : Mat α} (h : AgreeCols j A B) (hk : k ≤ j) (hkc : k ≤ A.cols) (y : Vec α) :
    op.adjoint A k y = op.adjoint B k y := by
  unfold Op.adjoint
  split <;> exact tmulVecK0_agree h hk hkc _

theorem subMulVecK0_agree {j k : Nat} {A B : Mat α} (h : AgreeCols j A B) (hk : k ≤ j) (hkc : k ≤ A.cols) (f g : Vec α)
    (hf : f.size ≤ A.rows) : subMulVecK0 f A k g = subMulVecK0 f B k g := by
  unfold subMulVecK0
  apply vofFn_congr
  intro r hr
  congr 1
  apply sum0_congr
  intro c hc
  rw [h.get r c (by omega) (by omega) (by omega)]

theorem col_agree {j c : Nat} {A B : Mat α} (h : AgreeCols j A B) (hc : c < j) (hcc : c < A.cols) : A.col c = B.col c := by
  unfold Mat.col
  rw [← h.rows]
  apply vofFn_congr
  intro r hr
  exact h.get r c hr hc hcc

theorem size_vofFn (n : Nat) (f : Nat → α) : (vofFn n f).size = n := by unfold vofFn; simp
theorem size_subMulVecK0 (f : Vec α) (V : Mat α) (k : Nat) (g : Vec α) : (subMulVecK0 f V k g).size = f.size := size_vofFn _ _

/-! ### expand_basis -/

theorem expandRefine_agree (op : Op α) (eps : α) {j i : Nat} {A B : Mat α} (h : AgreeCols j A B) (hi : i ≤ j) (hic : i ≤ A.cols) :
    ∀ (fuel count : Nat) (f : Vec α) (fnorm : α) (Vf : Vec α) (oerr : α), f.size ≤ A.rows →
      expandRefine op eps A i fuel count f fnorm Vf oerr = expandRefine op eps B i fuel count f fnorm Vf oerr := by
  intro fuel
  induction fuel with
  | zero => intros; rfl
  | succ fuel ih =>
    intro count f fnorm Vf oerr hf
    unfold expandRefine
    split
    · dsimp only
      rw [subMulVecK0_agree h hi hic f Vf hf, adjoint_agree op h hi hic]
      exact ih _ _ _ _ _ (by rw [size_subMulVecK0]; exact hf)
    · rfl


theorem randomVec_fold_size (l : List Nat) : ∀ (st : Int × Array α),
    (l.foldl (fun (st : Int × Array α) _ => ((Gen.Rand.draw (α := α) st.1).1, st.2.push (Gen.Rand.draw (α := α) st.1).2)) st).2.size = st.2.size + l.length := by
  induction l with
  | nil => intro st; simp
  | cons a l ih => intro st; simp only [List.foldl_cons, List.length_cons]; rw [ih]; simp; omega

theorem randomVec_size (n : Nat) (seed : Int) : (randomVec (α := α) n seed).size = n := by
  unfold randomVec
  have := randomVec_fold_size (α := α) (List.range n) (Gen.Rand.seed_norm seed, Array.mkEmpty n)
  simpa using this

/-- the operator returns vectors of the problem dimension -/
structure OpWF (op : Op α) (dim : Nat) : Prop where
  n : op.n = dim
  size : ∀ x, (op.A x).size = dim

theorem expand_go_agree (op : Op α) (eps : α) {j i : Nat} {A B : Mat α} (h : AgreeCols j A B) (hi : i ≤ j) (hic : i ≤ A.cols)
    (hop : OpWF op A.rows) (seed : Int) :
    ∀ (fuel iter : Nat) (f : Vec α) (fnorm : α) (ops : Nat),
      expand_basis.go op eps A i seed fuel iter f fnorm ops = expand_basis.go op eps B i seed fuel iter f fnorm ops := by
  intro fuel
  induction fuel with
  | zero => intros; rfl
  | succ fuel ih =>
    intro iter f fnorm ops
    unfold expand_basis.go
    dsimp only
    have hsz : ∀ (p : Vec α × Nat), p = (if (iter == 0) = true then (op.A (randomVec (α := α) op.n (seed + 123 * (iter : Int))), ops + 1)
        else (randomVec (α := α) op.n (seed + 123 * (iter : Int)), ops)) → p.1.size ≤ A.rows := by
      intro p hp
      subst hp
      split
      · rw [hop.size]; exact Nat.le_refl _
      · rw [randomVec_size, hop.n]; exact Nat.le_refl _
    generalize hp : (if (iter == 0) = true then (op.A (randomVec (α := α) op.n (seed + 123 * (iter : Int))), ops + 1)
        else (randomVec (α := α) op.n (seed + 123 * (iter : Int)), ops)) = p
    have hps := hsz p hp.symm
    obtain ⟨f1, ops1⟩ := p
    dsimp only at hps ⊢
    rw [adjoint_agree op h hi hic f1, subMulVecK0_agree h hi hic f1 _ hps, adjoint_agree op h hi hic]
    rw [expandRefine_agree op eps h hi hic 3 0 _ _ _ _ (by rw [size_subMulVecK0]; exact hps)]
    split
    · rfl
    · exact ih _ _ _ _

theorem expand_basis_agree (op : Op α) (eps : α) {j i : Nat} {A B : Mat α} (h : AgreeCols j A B) (hi : i ≤ j) (hic : i ≤ A.cols)
    (hop : OpWF op A.rows) (seed : Int) (f0 : Vec α) (fnorm0 : α) (ops0 : Nat) :
    expand_basis op eps A i seed f0 fnorm0 ops0 = expand_basis op eps B i seed f0 fnorm0 ops0 := by
  unfold expand_basis
  exact expand_go_agree op eps h hi hic hop seed 5 0 f0 fnorm0 ops0


/-! ### Lanczos::factorize_from reads column `i` of `V` only after writing it -/

theorem lreorth_agree (op : Op α) (eps bt : α) {j i : Nat} {A B : Mat α} (h : AgreeCols j A B) (hi : i + 1 ≤ j) (hic : i + 1 ≤ A.cols) (n : Nat) :
    ∀ (fuel count : Nat) (f : Vec α) (H : Mat α) (beta : α) (Vf : Vec α) (oerr : α) (np : Nat), f.size ≤ A.rows →
      Lanczos.reorth op eps bt A i n fuel count f H beta Vf oerr np = Lanczos.reorth op eps bt B i n fuel count f H beta Vf oerr np := by
  intro fuel
  induction fuel with
  | zero => intros; rfl
  | succ fuel ih =>
    intro count f H beta Vf oerr np hf
    unfold Lanczos.reorth
    split
    · split
      · rfl
      · dsimp only
        rw [subMulVecK0_agree h hi hic f Vf hf, adjoint_agree op h hi hic]
        exact ih _ _ _ _ _ _ _ (by rw [size_subMulVecK0]; exact hf)
    · rfl

/-- first stage of a Lanczos step on basis matrix `V0`: `v <- f / beta` into column `i`, local orthogonality test -/
def stage1 (op : Op α) (es : α) (s : State α) (i : Nat) (V0 : Mat α) : Mat α × Bool :=
  if !(Sc.lt s.beta s.near0) then
    let v := vdivs s.f s.beta
    let V := V0.setCol i v
    if Sc.lt s.beta es then
      let viv := op.inner (V.col (i - 1)) v
      (V, Sc.gt (Sc.abs viv) es)
    else (V, false)
  else (V0, true)

/-- second stage: on restart a new direction from `expand_basis` goes into column `i` -/
def stage2 (op : Op α) (s : State α) (i : Nat) (p : Mat α × Bool) : Mat α × Vec α × α × Nat × Nat :=
  if p.2 then
    let (f, b, ops, acc) := expand_basis op s.eps p.1 i (2 * (i : Int)) s.f s.beta s.ops
    (p.1.setCol i (vdivs f b), f, b, ops, if acc then s.nexpand + 1 else s.nexpand)
  else (p.1, s.f, s.beta, s.ops, s.nexpand)

/-- third stage: the three-term recurrence and the re-orthogonalisation on columns `0..i` -/
def stage3 (op : Op α) (bt : α) (s : State α) (i : Nat) (restart : Bool) (q : Mat α × Vec α × α × Nat × Nat) : State α :=
  let V := q.1
  let beta := q.2.2.1
  let ops := q.2.2.2.1
  let nexp := q.2.2.2.2
  let v := V.col i
  let hsub : α := if restart then zero else beta
  let H := (s.H.set i (i - 1) hsub).set (i - 1) i hsub
  let w := op.A v
  let ops := ops + 1
  let w := if !restart then
      let c := V.col (i - 1)
      vofFn s.n (fun j => vget w j - hsub * vget c j)
    else w
  let hii := op.inner v w
  let H := H.set i i hii
  let f := vofFn s.n (fun j => vget w j - hii * vget v j)
  let beta := op.norm f
  let Vf := op.adjoint V (i + 1) f
  let oerr := maxAbs Vf
  let (f, H, beta, np) := Lanczos.reorth op s.eps bt V i s.n 5 0 f H beta Vf oerr s.nreorth
  { s with V := V, H := H, f := f, beta := beta, ops := ops, nexpand := nexp, nreorth := np }

/-- `Lanczos.factorStep` on a state whose basis matrix is `V0`, in stages -/
theorem factorStep_stages (op : Op α) (bt es : α) (s : State α) (i : Nat) (V0 : Mat α) :
    Lanczos.factorStep op bt es { s with V := V0 } i =
      stage3 op bt s i (stage1 op es s i V0).2 (stage2 op s i (stage1 op es s i V0)) := by
  unfold Lanczos.factorStep stage3 stage2 stage1
  rfl


theorem stage1_agree (op : Op α) (es : α) (s : State α) {i : Nat} {A B : Mat α} (h : AgreeCols i A B) (hi : i < A.cols) :
    (stage1 op es s i A).2 = (stage1 op es s i B).2 ∧
    AgreeCols i (stage1 op es s i A).1 (stage1 op es s i B).1 ∧
    ((stage1 op es s i A).2 = false → AgreeCols (i + 1) (stage1 op es s i A).1 (stage1 op es s i B).1) ∧
    (stage1 op es s i A).1.rows = A.rows ∧ (stage1 op es s i A).1.cols = A.cols := by
  have hS := h.setCol hi (vdivs s.f s.beta)
  obtain ⟨_, a2, a3, _⟩ := setCol_spec A h.wfA i hi (vdivs s.f s.beta)
  unfold stage1
  split
  · dsimp only
    split
    · have hc : (A.setCol i (vdivs s.f s.beta)).col (i - 1) = (B.setCol i (vdivs s.f s.beta)).col (i - 1) :=
        col_agree hS (by omega) (by rw [a3]; omega)
      rw [hc]
      exact ⟨rfl, hS.mono (by omega), fun _ => hS, a2, a3⟩
    · exact ⟨rfl, hS.mono (by omega), fun _ => hS, a2, a3⟩
  · exact ⟨rfl, h, fun e => Bool.noConfusion e, rfl, rfl⟩

theorem stage2_agree (op : Op α) (s : State α) {i : Nat} {p p' : Mat α × Bool} (hb : p.2 = p'.2) (h : AgreeCols i p.1 p'.1)
    (h1 : p.2 = false → AgreeCols (i + 1) p.1 p'.1) (hi : i < p.1.cols) (hop : OpWF op p.1.rows) :
    (stage2 op s i p).2 = (stage2 op s i p').2 ∧ AgreeCols (i + 1) (stage2 op s i p).1 (stage2 op s i p').1 ∧
    (stage2 op s i p).1.rows = p.1.rows ∧ (stage2 op s i p).1.cols = p.1.cols := by
  obtain ⟨V, b⟩ := p
  obtain ⟨V', b'⟩ := p'
  dsimp only at hb h h1 hi hop
  subst hb
  unfold stage2
  cases b with
  | false => exact ⟨by trivial, h1 rfl, by trivial, by trivial⟩
  | true =>
    dsimp only
    rw [← expand_basis_agree op s.eps h (Nat.le_refl i) (by omega) hop]
    simp only [if_true]
    obtain ⟨_, a2, a3, _⟩ := setCol_spec V h.wfA i hi
      (vdivs (expand_basis op s.eps V i (2 * (i : Int)) s.f s.beta s.ops).1 (expand_basis op s.eps V i (2 * (i : Int)) s.f s.beta s.ops).2.1)
    exact ⟨by trivial, h.setCol hi _, a2, a3⟩

theorem stage3_agree (op : Op α) (bt : α) (s : State α) {i : Nat} (restart : Bool) {q q' : Mat α × Vec α × α × Nat × Nat}
    (hq : q.2 = q'.2) (h : AgreeCols (i + 1) q.1 q'.1) (hi : i < q.1.cols) (hn : s.n ≤ q.1.rows) :
    stage3 op bt s i restart q' = { stage3 op bt s i restart q with V := q'.1 } ∧ (stage3 op bt s i restart q).V = q.1 ∧
    (stage3 op bt s i restart q').V = q'.1 ∧ (stage3 op bt s i restart q).n = s.n := by
  obtain ⟨V, r⟩ := q
  obtain ⟨V', r'⟩ := q'
  dsimp only at hq h hi hn
  subst hq
  have c1 : V.col i = V'.col i := col_agree h (by omega) hi
  have c2 : V.col (i - 1) = V'.col (i - 1) := col_agree h (by omega) (by omega)
  unfold stage3
  dsimp only
  rw [← c1, ← c2, ← adjoint_agree op h (Nat.le_refl _) (by omega),
    ← lreorth_agree op s.eps bt h (Nat.le_refl _) (by omega) s.n 5 0 _ _ _ _ _ _ (by rw [size_vofFn]; exact hn)]
  exact ⟨rfl, rfl, rfl, rfl⟩

/-- `t` is `s` with another basis matrix whose columns `< j` agree with those of `s` -/
structure Rel (j : Nat) (s t : State α) : Prop where
  agree : AgreeCols j s.V t.V
  rest : t = { s with V := t.V }

theorem eta_V (s : State α) : s = { s with V := s.V } := by cases s; rfl

theorem factorStep_rel (op : Op α) (bt es : α) {i : Nat} {s t : State α} (h : Rel i s t) (hi : i < s.V.cols) (hn : s.n ≤ s.V.rows)
    (hop : OpWF op s.V.rows) :
    Rel (i + 1) (Lanczos.factorStep op bt es s i) (Lanczos.factorStep op bt es t i) ∧
    (Lanczos.factorStep op bt es s i).V.rows = s.V.rows ∧ (Lanczos.factorStep op bt es s i).V.cols = s.V.cols ∧
    (Lanczos.factorStep op bt es s i).n = s.n := by
  obtain ⟨hag, hrest⟩ := h
  have e1 : Lanczos.factorStep op bt es s i = _ := (congrArg (fun x => Lanczos.factorStep op bt es x i) (eta_V s)).trans (factorStep_stages op bt es s i s.V)
  have e2 : Lanczos.factorStep op bt es t i = _ := (congrArg (fun x => Lanczos.factorStep op bt es x i) hrest).trans (factorStep_stages op bt es s i t.V)
  obtain ⟨s1, s2, s3, s4, s5⟩ := stage1_agree op es s hag hi
  obtain ⟨t1, t2, t3, t4⟩ := stage2_agree op s s1 s2 s3 (by rw [s5]; exact hi) (by rw [s4]; exact hop)
  obtain ⟨u1, u2, u3, u4⟩ := stage3_agree op bt s (stage1 op es s i s.V).2 t1 t2 (by rw [t4, s5]; exact hi) (by rw [t3, s4]; exact hn)
  rw [e1, e2, ← s1]
  refine ⟨⟨?_, ?_⟩, ?_, ?_, u4⟩
  · rw [u2, u3]; exact t2
  · rw [u3]; exact u1
  · rw [u2, t3, s4]
  · rw [u2, t4, s5]


/-- `cnt` consecutive Lanczos steps starting at column `k` -/
theorem steps_rel (op : Op α) (bt es : α) (k : Nat) : ∀ (cnt : Nat) {s t : State α}, Rel k s t → k + cnt ≤ s.V.cols → s.n ≤ s.V.rows →
    OpWF op s.V.rows →
    Rel (k + cnt) ((List.range cnt).foldl (fun st d => Lanczos.factorStep op bt es st (k + d)) s)
                  ((List.range cnt).foldl (fun st d => Lanczos.factorStep op bt es st (k + d)) t) ∧
    ((List.range cnt).foldl (fun st d => Lanczos.factorStep op bt es st (k + d)) s).V.rows = s.V.rows ∧
    ((List.range cnt).foldl (fun st d => Lanczos.factorStep op bt es st (k + d)) s).V.cols = s.V.cols ∧
    ((List.range cnt).foldl (fun st d => Lanczos.factorStep op bt es st (k + d)) s).n = s.n := by
  intro cnt
  induction cnt with
  | zero => intro s t h _ _ _; exact ⟨h, rfl, rfl, rfl⟩
  | succ cnt ih =>
    intro s t h hc hn hop
    obtain ⟨r1, r2, r3, r4⟩ := ih h (by omega) hn hop
    rw [List.range_succ, List.foldl_append, List.foldl_append]
    simp only [List.foldl_cons, List.foldl_nil]
    obtain ⟨q1, q2, q3, q4⟩ := factorStep_rel op bt es r1 (by rw [r3]; omega) (by rw [r4, r2]; exact hn) (by rw [r2]; exact hop)
    exact ⟨q1, by rw [q2, r2], by rw [q3, r3], by rw [q4, r4]⟩

/-- **written before read**: `Lanczos::factorize_from(from_k, ncv)` on a basis matrix with `ncv` columns does not depend on the
    columns `>= from_k` it finds — every one of them is overwritten before anything reads it — and what it leaves behind is
    identical, stale columns and all -/
theorem factorize_overwrites (op : Op α) (s : State α) (B : Mat α) (from_k : Nat) (h : AgreeCols from_k s.V B)
    (hn : s.n ≤ s.V.rows) (hop : OpWF op s.V.rows) :
    Lanczos.factorize_from op { s with V := B } from_k s.V.cols = Lanczos.factorize_from op s from_k s.V.cols := by
  unfold Lanczos.factorize_from
  dsimp only
  split
  · rename_i hle
    -- nothing to do: only possible when the matrices already agree everywhere
    have : s.V = B := h.eq hle
    rw [← this]
  · rename_i hlt
    split
    · rfl
    · have hrel : Rel from_k { s with H := keepTopLeft s.H from_k } { s with V := B, H := keepTopLeft s.H from_k } := ⟨h, rfl⟩
      obtain ⟨r1, r2, r3, r4⟩ := steps_rel op (s.eps * Sc.sqrt (Sc.ofInt (s.n : Int))) (Sc.sqrt s.eps) from_k (s.V.cols - from_k) hrel
        (by show from_k + (s.V.cols - from_k) ≤ s.V.cols; omega) hn hop
      have hcols : from_k + (s.V.cols - from_k) = s.V.cols := by omega
      rw [hcols] at r1
      have hV := r1.agree.eq (by rw [r3]; exact Nat.le_refl _)
      have hrest := r1.rest
      rw [← hV] at hrest
      rw [hrest]

/-- `Arnoldi::init` as the C++ does it on an ALREADY ALLOCATED object: `m_fac_V.resize(m_n, m_m)` keeps the old contents, only
    column 0 is written (`H` is zeroed, `f`, `beta`, `k` are assigned) -/
def initKeepV (op : Op α) (s : State α) (v0 : Vec α) : Option (State α) :=
  let v0norm := op.norm v0
  if Sc.lt v0norm s.near0 then none else
  let v := op.A v0
  let vnorm := op.norm v
  let v := vdivs v vnorm
  let w := op.A v
  let h00 := op.inner v w
  let f := vofFn s.n (fun i => vget w i - vget v i * h00)
  let H := (Mat.zeros s.m s.m).set 0 0 h00
  let V := s.V.setCol 0 v
  let (f, beta) :=
    if Sc.lt (maxAbs f) (s.eps * Sc.abs h00) then (vzero s.n, zero) else (f, op.norm f)
  some { s with V := V, H := H, f := f, beta := beta, k := 1, ops := s.ops + 2 }

/-- **the stale columns of a reused `m_fac_V` are harmless**: whatever the old basis matrix of the object holds (right shape, as
    `resize` guarantees), the C++-faithful `init` followed by the first factorization of `compute()` gives EXACTLY the object state
    that the model's zero-filling `Arnoldi.init` gives — so the model's simplification loses nothing, and `c06_herm_*` speak about
    the code as it is -/
theorem init_helper (op : Op α) (s : State α) (v : Vec α) (H : Mat α) (f : Vec α) (beta : α) (hw : WF s.V) (hr : s.V.rows = s.n)
    (hc : s.V.cols = s.m) (hm : 1 ≤ s.m) (hop : OpWF op s.n) :
    Lanczos.factorize_from op { s with V := s.V.setCol 0 v, H := H, f := f, beta := beta, k := 1, ops := s.ops + 2 } 1 s.m =
    Lanczos.factorize_from op { s with V := (Mat.zeros s.n s.m : Mat α).setCol 0 v, H := H, f := f, beta := beta, k := 1, ops := s.ops + 2 } 1 s.m := by
  have h0 : AgreeCols 0 (Mat.zeros s.n s.m : Mat α) s.V :=
    ⟨zeros_WF _ _, hw, by simp [hr], by simp [hc], fun r c _ hc0 _ => by omega⟩
  have h1 := h0.setCol (i := 0) (by simp; omega) v
  obtain ⟨_, a2, a3, _⟩ := setCol_spec (Mat.zeros s.n s.m : Mat α) (zeros_WF _ _) 0 (by simp; omega) v
  have key := factorize_overwrites op
    { s with V := (Mat.zeros s.n s.m : Mat α).setCol 0 v, H := H, f := f, beta := beta, k := 1, ops := s.ops + 2 }
    (s.V.setCol 0 v) 1 h1 (by show s.n ≤ ((Mat.zeros s.n s.m : Mat α).setCol 0 v).rows; rw [a2]; simp)
    (by show OpWF op ((Mat.zeros s.n s.m : Mat α).setCol 0 v).rows; rw [a2]; simpa using hop)
  have hcols : ((Mat.zeros s.n s.m : Mat α).setCol 0 v).cols = s.m := by rw [a3]; simp
  simp only [hcols] at key
  exact key

theorem init_stale_columns_harmless (op : Op α) (s : State α) (v0 : Vec α) (hw : WF s.V) (hr : s.V.rows = s.n) (hc : s.V.cols = s.m)
    (hm : 1 ≤ s.m) (hop : OpWF op s.n) :
    (initKeepV op s v0).bind (fun s' => Lanczos.factorize_from op s' 1 s.m) =
    (Arnoldi.init op s v0).bind (fun s' => Lanczos.factorize_from op s' 1 s.m) := by
  unfold initKeepV Arnoldi.init
  dsimp only
  split
  · rfl
  · simp only [Option.bind_some]
    split <;> exact init_helper op s _ _ _ _ hw hr hc hm hop

end
end C06StaleV
