/-
  C10 — Lower/Upper: the packed copy does not depend on the triangle read (helper lemmas).
-/
import Mathlib.Tactic.Ring
import Mathlib.Tactic.Linarith
import SpectraVerif.Proofs.C10Index
open Gen.BK

set_option linter.unusedSectionVars false
set_option linter.unusedVariables false
set_option linter.unusedSimpArgs false
namespace BKLDLT
section
variable {α : Type} [Add α] [Sub α] [Mul α] [Div α] [Neg α] [Sc α]

/-- two folds over the same index list stay related -/
theorem fold2_nat {σ τ : Type} (R : Nat → σ → τ → Prop) (f : σ → Nat → σ) (g : τ → Nat → τ) (m : Nat) (a : σ) (b : τ)
    (h0 : R 0 a b) (hs : ∀ k a b, k < m → R k a b → R (k + 1) (f a k) (g b k)) :
    R m ((List.range m).foldl f a) ((List.range m).foldl g b) := by
  induction m with
  | zero => simpa using h0
  | succ m ih =>
    rw [List.range_succ, List.foldl_append, List.foldl_append]
    simp only [List.foldl_cons, List.foldl_nil]
    exact hs m _ _ (Nat.lt_succ_self m) (ih (fun k a b hk => hs k a b (Nat.lt_succ_of_lt hk)))

theorem foldl_congr_mem {σ β : Type} (f g : σ → β → σ) (l : List β) (s : σ) (h : ∀ s x, x ∈ l → f s x = g s x) :
    l.foldl f s = l.foldl g s := by
  induction l generalizing s with
  | nil => rfl
  | cons a l ih =>
    simp only [List.foldl_cons]
    rw [h s a List.mem_cons_self]
    exact ih _ (fun s x hx => h s x (List.mem_cons_of_mem _ hx))

@[simp] theorem wr_n (s : St α) (i j : Int) (v : α) : (s.wr i j v).n = s.n := rfl
@[simp] theorem get_n (s : St α) (i j : Int) : (s.get i j).2.n = s.n := rfl
@[simp] theorem wrAt_n (s : St α) (d i j : Int) (v : α) : (s.wrAt d i j v).n = s.n := rfl
theorem shift_diag_n (s : St α) (j : Int) (shift : α) : (shift_diag s j shift).n = s.n := rfl

theorem wrAt_eq_wr (s : St α) (d i j : Int) (v : α) (h : d = off s.n i j) : s.wrAt d i j v = s.wr i j v := by
  simp only [St.wrAt, St.wr, h, decide_true, Bool.and_true]

theorem copy_col_fast_n (n : Int) (src : Array α) (j : Int) (s : St α) : (copy_col_fast n src j s).n = s.n := by
  unfold copy_col_fast
  apply foldl_inv (fun s' : St α => s'.n = s.n) _ _ _ rfl
  intro s' t _ h; simpa using h

/-- general path with the Lower values = fast path, column by column (the running `dest` is the column pointer) -/
theorem copy_col_gen_eq_fast (n : Int) (src : Array α) (j : Int) (s : St α) (hn : s.n = n) (hj : j ≤ n) :
    copy_col_gen n src false 1 j (colptr n j, s) = (colptr n (j + 1), copy_col_fast n src j s) := by
  unfold copy_col_gen copy_col_fast
  have e1 : intRange j n = (List.range (n - j).toNat).map (fun (k : Nat) => j + (k : Int)) := rfl
  have e2 : intRange 0 (n - j) = (List.range (n - j).toNat).map (fun (k : Nat) => (0 : Int) + (k : Int)) := by
    unfold intRange; rw [Int.sub_zero]
  rw [e1, e2, List.foldl_map, List.foldl_map]
  have key := fold2_nat (fun (k : Nat) (a : Int × St α) (b : St α) => a = (colptr n j + k, b) ∧ b.n = n)
    (fun (acc : Int × St α) (k : Nat) => (acc.1 + 1, acc.2.wrAt acc.1 (j + (k : Int)) j
      (if decide ((1 : Int) = 1) then srcCoeff src false n (j + (k : Int)) j else scalarop_conj (srcCoeff src false n j (j + (k : Int))))))
    (fun (s : St α) (k : Nat) => s.wr (j + (0 + (k : Int))) j (src.getD (srcIdx false n j j + (0 + (k : Int))).toNat zero))
    (n - j).toNat (colptr n j, s) s ⟨by simp, hn⟩
    (fun k a b hk hab => by
      obtain ⟨ha, hb⟩ := hab
      subst ha
      refine ⟨?_, by simpa using hb⟩
      simp only [decide_true, if_true, Int.zero_add]
      rw [wrAt_eq_wr _ _ _ _ _ (by rw [hb]; unfold off; ring)]
      have : srcCoeff src false n (j + (k : Int)) j = src.getD (srcIdx false n j j + (k : Int)).toNat zero := by
        unfold srcCoeff srcIdx; simp only [Bool.false_eq_true, if_false]
        congr 2; ring
      rw [this]
      congr 1; push_cast; ring)
  rw [key.1, colptr_succ]
  congr 1
  have : ((n - j).toNat : Int) = n - j := by omega
  rw [this]

theorem copy_col_gen_uplo (n : Int) (src : Array α) (rm : Bool) (j : Int) (acc : Int × St α) (hj : 0 ≤ j)
    (hsym : ∀ i j, 0 ≤ j → j ≤ i → i < n → srcCoeff src rm n i j = srcCoeff src rm n j i) :
    copy_col_gen n src rm 2 j acc = copy_col_gen n src rm 1 j acc := by
  unfold copy_col_gen
  apply foldl_congr_mem
  intro a i hi
  have hi' := mem_intRange.1 hi
  have e2 : decide ((2 : Int) = 1) = false := by decide
  have e1 : decide ((1 : Int) = 1) = true := by decide
  simp [scalarop_conj, hsym i j hj hi'.1 hi'.2]

theorem uplo_equal (src : Array α) (rm : Bool) (n : Int) (shift : α)
    (hsym : ∀ i j, 0 ≤ j → j ≤ i → i < n → srcCoeff src rm n i j = srcCoeff src rm n j i) :
    copy_data (initSt n) src rm 2 shift = copy_data (initSt n) src rm 1 shift := by
  have hn0 : (initSt (α := α) n).n = n := rfl
  -- Upper (general path) = general path with the Lower values
  have hA : copy_data (initSt n) src rm 2 shift =
      ((intRange 0 n).foldl (fun (acc : Int × St α) j =>
        ((copy_col_gen n src rm 1 j acc).1, shift_diag (copy_col_gen n src rm 1 j acc).2 j shift)) ((0 : Int), initSt n)).2 := by
    unfold copy_data
    have e2 : decide ((2 : Int) = 1) = false := by decide
    simp only [hn0, e2, Bool.and_false, Bool.false_eq_true, if_false]
    congr 1
    apply foldl_congr_mem
    intro a j hj
    rw [copy_col_gen_uplo n src rm j a (mem_intRange.1 hj).1 hsym]
  rw [hA]
  unfold copy_data
  have e1 : decide ((1 : Int) = 1) = true := by decide
  simp only [hn0, e1, Bool.and_true]
  cases rm
  · -- column-major: Lower uses the fast path
    have er : intRange 0 n = (List.range n.toNat).map (fun (k : Nat) => (0 : Int) + (k : Int)) := by
      unfold intRange; rw [Int.sub_zero]
    rw [er, List.foldl_map, List.foldl_map]
    have key := fold2_nat (fun (k : Nat) (a : Int × St α) (b : St α) => a = (colptr n (0 + (k : Int)), b) ∧ b.n = n)
      (fun (acc : Int × St α) (k : Nat) => ((copy_col_gen n src false 1 (0 + (k : Int)) acc).1, shift_diag (copy_col_gen n src false 1 (0 + (k : Int)) acc).2 (0 + (k : Int)) shift))
      (fun (s : St α) (k : Nat) => shift_diag (copy_col_fast n src (0 + (k : Int)) s) (0 + (k : Int)) shift)
      n.toNat ((0 : Int), initSt n) (initSt n) ⟨by simp [colptr_zero], hn0⟩
      (fun k a b hk hab => by
        obtain ⟨ha, hb⟩ := hab
        subst ha
        rw [copy_col_gen_eq_fast n src (0 + (k : Int)) b hb (by omega)]
        refine ⟨?_, by rw [shift_diag_n, copy_col_fast_n, hb]⟩
        simp only []
        congr 2)
    rw [key.1]
    simp
  · -- row-major: both triangles use the general path
    simp

end
end BKLDLT
