/-
  C10 — index safety of the BKLDLT model (Model/BKLDLT.lean): helper lemmas.
  `Good n s` = the state still has size `n` and no illegal access has been recorded.  Every routine of the factorization
  preserves it under its (index) precondition, for EVERY scalar type, `Sc` instance and data (so for every pivot decision).
-/
import Mathlib.Tactic.Ring
import Mathlib.Tactic.Linarith
import Mathlib.Algebra.Ring.Int.Parity
import Mathlib.Tactic.NormNum
import SpectraVerif.Model.BKLDLT
open Gen.BK

set_option linter.unusedSectionVars false
set_option linter.unusedVariables false
namespace BKLDLT
section
variable {α : Type} [Add α] [Sub α] [Mul α] [Div α] [Neg α] [Sc α]

/-- generic invariant rule for `List.foldl` -/
theorem foldl_inv {σ β : Type} (P : σ → Prop) (f : σ → β → σ) (l : List β) (init : σ)
    (h0 : P init) (hs : ∀ s x, x ∈ l → P s → P (f s x)) : P (l.foldl f init) := by
  induction l generalizing init with
  | nil => exact h0
  | cons a l ih =>
    simp only [List.foldl_cons]
    exact ih _ (hs _ _ (List.mem_cons_self) h0) (fun s x hx hp => hs s x (List.mem_cons_of_mem _ hx) hp)

/-- the state has size `n` and no illegal access has happened so far -/
def Good (n : Int) (s : St α) : Prop := s.n = n ∧ s.ok = true

theorem inb_iff {n i j : Int} : inb n i j = true ↔ 0 ≤ j ∧ j ≤ i ∧ i < n := by
  simp [inb, and_assoc]
theorem inr_iff {n i : Int} : inr n i = true ↔ 0 ≤ i ∧ i < n := by simp [inr]

theorem good_chk {n : Int} {s : St α} {i j : Int} (h : Good n s) (hi : 0 ≤ j ∧ j ≤ i ∧ i < n) : Good n (s.chk i j) := by
  obtain ⟨hn, hok⟩ := h
  refine ⟨hn, ?_⟩
  simp only [St.chk, hok, Bool.true_and, hn]; exact inb_iff.2 hi
theorem good_get {n : Int} {s : St α} {i j : Int} (h : Good n s) (hi : 0 ≤ j ∧ j ≤ i ∧ i < n) : Good n (s.get i j).2 := good_chk h hi
theorem good_wr {n : Int} {s : St α} {i j : Int} {v : α} (h : Good n s) (hi : 0 ≤ j ∧ j ≤ i ∧ i < n) : Good n (s.wr i j v) := by
  obtain ⟨hn, hok⟩ := h
  refine ⟨hn, ?_⟩
  simp only [St.wr, hok, Bool.true_and, hn]; exact inb_iff.2 hi
theorem good_wrAt {n : Int} {s : St α} {d i j : Int} {v : α} (h : Good n s) (hi : 0 ≤ j ∧ j ≤ i ∧ i < n) (hd : d = off n i j) : Good n (s.wrAt d i j v) := by
  obtain ⟨hn, hok⟩ := h
  refine ⟨hn, ?_⟩
  simp only [St.wrAt, hok, Bool.true_and, hn, Bool.and_eq_true, decide_eq_true_eq]; exact ⟨inb_iff.2 hi, hd⟩
theorem good_swap {n : Int} {s : St α} {i1 j1 i2 j2 : Int} (h : Good n s) (h1 : 0 ≤ j1 ∧ j1 ≤ i1 ∧ i1 < n) (h2 : 0 ≤ j2 ∧ j2 ≤ i2 ∧ i2 < n) :
    Good n (s.swap i1 j1 i2 j2) := by
  simp only [St.swap]
  exact good_wr (good_wr (good_get (good_get h h1) h2) h1) h2
theorem good_setPerm {n : Int} {s : St α} {i v : Int} (h : Good n s) (hi : 0 ≤ i ∧ i < n) : Good n (s.setPerm i v) := by
  obtain ⟨hn, hok⟩ := h
  refine ⟨hn, ?_⟩
  simp only [St.setPerm, hok, Bool.true_and, hn]; exact inr_iff.2 hi
theorem good_getPerm {n : Int} {s : St α} {i : Int} (h : Good n s) (hi : 0 ≤ i ∧ i < n) : Good n (s.getPerm i).2 := by
  obtain ⟨hn, hok⟩ := h
  refine ⟨hn, ?_⟩
  simp only [St.getPerm, hok, Bool.true_and, hn]; exact inr_iff.2 hi

theorem pivoting_1x1_good {n : Int} {s : St α} {k r : Int} (h : Good n s) (hk : 0 ≤ k) (hkr : k ≤ r) (hr : r < n) :
    Good n (pivoting_1x1 s k r) := by
  unfold pivoting_1x1
  have h1 := good_setPerm (v := r) h ⟨hk, by omega⟩
  split
  · exact h1
  · have h2 := good_swap (i1 := k) (j1 := k) (i2 := r) (j2 := r) h1 ⟨hk, le_refl _, by omega⟩ ⟨by omega, le_refl _, hr⟩
    apply foldl_inv (Good n)
    · rw [h2.1]
      apply foldl_inv (Good n)
      · exact h2
      · intro s i hi hs
        have := mem_intRange.1 hi
        exact good_swap hs ⟨hk, by omega, by omega⟩ ⟨by omega, by omega, by omega⟩
    · intro s j hj hs
      have := mem_intRange.1 hj
      exact good_swap hs ⟨hk, by omega, by omega⟩ ⟨by omega, by omega, by omega⟩

theorem interchange_rows_good {n : Int} {s : St α} {r1 r2 c1 c2 : Int} (h : Good n s) (hc : 0 ≤ c1) (h1 : c2 < r1) (h2 : r1 ≤ r2) (h3 : r2 < n) :
    Good n (interchange_rows s r1 r2 c1 c2) := by
  unfold interchange_rows
  split
  · exact h
  · apply foldl_inv (Good n) _ _ _ h
    intro s j hj hs
    have := mem_intRange.1 hj
    exact good_swap hs ⟨by omega, by omega, by omega⟩ ⟨by omega, by omega, by omega⟩

theorem find_lambda_good {n : Int} {s : St α} {k : Int} (h : Good n s) (hk : 0 ≤ k) (hk1 : k + 1 < n) :
    Good n (find_lambda s k).2.2 ∧ k + 1 ≤ (find_lambda s k).2.1 ∧ (find_lambda s k).2.1 < n := by
  unfold find_lambda
  have h1 := good_get (i := k + 1) (j := k) h ⟨hk, by omega, hk1⟩
  simp only []
  apply foldl_inv (fun (acc : α × Int × St α) => Good n acc.2.2 ∧ k + 1 ≤ acc.2.1 ∧ acc.2.1 < n)
  · exact ⟨h1, le_refl _, hk1⟩
  · rintro ⟨lam, r, s'⟩ i hi ⟨hs, hr1, hr2⟩
    have hi' := mem_intRange.1 hi
    have hn : (s.get (k + 1) k).2.n = n := h1.1
    rw [hn] at hi'
    have hg := good_get (i := i) (j := k) hs ⟨hk, by omega, hi'.2⟩
    simp only []
    split
    · exact ⟨hg, by dsimp only; omega, by dsimp only; omega⟩
    · exact ⟨hg, hr1, hr2⟩

theorem find_sigma_good {n : Int} {s : St α} {k r p : Int} (h : Good n s) (hk : 0 ≤ k) (hkr : k < r) (hr : r < n) (hp1 : k ≤ p) (hp2 : p < n) :
    Good n (find_sigma s k r p).2.2 ∧ k ≤ (find_sigma s k r p).2.1 ∧ (find_sigma s k r p).2.1 < n := by
  unfold find_sigma
  have h0 : Good n ((if r < s.n - 1 then find_lambda s r else ((Sc.ofInt (-1) : α), p, s)) : α × Int × St α).2.2 ∧
      k ≤ ((if r < s.n - 1 then find_lambda s r else ((Sc.ofInt (-1) : α), p, s)) : α × Int × St α).2.1 ∧
      ((if r < s.n - 1 then find_lambda s r else ((Sc.ofInt (-1) : α), p, s)) : α × Int × St α).2.1 < n := by
    split
    · rename_i hlt
      rw [h.1] at hlt
      have := find_lambda_good (k := r) h (by omega) (by omega)
      exact ⟨this.1, by omega, this.2.2⟩
    · exact ⟨h, hp1, hp2⟩
  generalize ((if r < s.n - 1 then find_lambda s r else ((Sc.ofInt (-1) : α), p, s)) : α × Int × St α) = init at h0
  obtain ⟨sg, p', s'⟩ := init
  simp only []
  apply foldl_inv (fun (acc : α × Int × St α) => Good n acc.2.2 ∧ k ≤ acc.2.1 ∧ acc.2.1 < n)
  · exact h0
  · rintro ⟨sg2, p2, s2⟩ j hj ⟨hs, hq1, hq2⟩
    have hj' := mem_intRange.1 hj
    have hg := good_get (i := r) (j := j) hs ⟨by omega, by omega, hr⟩
    simp only []
    split
    · exact ⟨hg, by dsimp only; omega, by dsimp only; omega⟩
    · exact ⟨hg, hq1, hq2⟩

theorem pivoting_2x2_good {n : Int} {s : St α} {k r p : Int} (h : Good n s) (hk : 0 ≤ k) (hp1 : k ≤ p) (hp2 : p < n) (hr1 : k + 1 ≤ r) (hr2 : r < n) :
    Good n (pivoting_2x2 s k r p) := by
  unfold pivoting_2x2
  have h1 := pivoting_1x1_good h hk hp1 hp2
  have h2 := pivoting_1x1_good (k := k + 1) h1 (by omega) hr1 hr2
  have h3 := good_swap (i1 := k + 1) (j1 := k) (i2 := r) (j2 := k) h2 ⟨hk, by omega, by omega⟩ ⟨hk, by omega, hr2⟩
  simp only []
  exact good_setPerm (good_getPerm (good_setPerm (good_getPerm h3 ⟨hk, by omega⟩) ⟨hk, by omega⟩) ⟨by omega, by omega⟩) ⟨by omega, by omega⟩

theorem permutate_mat_good {n : Int} {s : St α} {k : Int} {alpha : α} (h : Good n s) (hk : 0 ≤ k) (hk1 : k + 1 < n) :
    Good n (permutate_mat s k alpha).2.2 := by
  unfold permutate_mat
  obtain ⟨hl, hr1, hr2⟩ := find_lambda_good h hk hk1
  generalize find_lambda s k = fl at hl hr1 hr2
  obtain ⟨lam, r, s1⟩ := fl
  simp only [] at hl hr1 hr2 ⊢
  split
  · have hg := good_get (i := k) (j := k) hl ⟨hk, le_refl _, by omega⟩
    split
    · obtain ⟨hs, hp1, hp2⟩ := find_sigma_good (p := k) hg hk (by omega) hr2 (le_refl _) (by omega)
      generalize find_sigma (s1.get k k).2 k r k = fs at hs hp1 hp2
      obtain ⟨sg, p, s2⟩ := fs
      simp only [] at hs hp1 hp2 ⊢
      split
      · have hg2 := good_get (i := r) (j := r) hs ⟨by omega, le_refl _, hr2⟩
        split
        · exact interchange_rows_good (pivoting_1x1_good hg2 hk (by omega) hr2) (le_refl _) (by omega) (by omega) hr2
        · exact interchange_rows_good (interchange_rows_good (pivoting_2x2_good hg2 hk (le_refl _) (by omega) hr1 hr2) (le_refl _) (by omega) (le_refl _) (by omega)) (le_refl _) (by omega) hr1 hr2
      · exact hs
    · exact hg
  · exact hl

theorem ge1_update_good {n : Int} {s : St α} {k ldim : Int} {akk : α} (h : Good n s) (hk : 0 ≤ k) (hl : k + 1 + ldim ≤ n) :
    Good n (ge1_update s k akk ldim) := by
  unfold ge1_update
  apply foldl_inv (Good n) _ _ _ h
  intro s j hj hs
  have hj' := mem_intRange.1 hj
  apply foldl_inv (Good n) _ _ _ (good_get hs ⟨hk, by omega, by omega⟩)
  intro s t ht hs
  have ht' := mem_intRange.1 ht
  exact good_wr (good_get (good_get hs ⟨hk, by omega, by omega⟩) ⟨by omega, by omega, by omega⟩) ⟨by omega, by omega, by omega⟩

theorem ge1_scale_good {n : Int} {s : St α} {k ldim : Int} {akk : α} (h : Good n s) (hk : 0 ≤ k) (hl : k + 1 + ldim ≤ n) :
    Good n (ge1_scale s k akk ldim) := by
  unfold ge1_scale
  apply foldl_inv (Good n) _ _ _ h
  intro s t ht hs
  have ht' := mem_intRange.1 ht
  exact good_wr (good_get hs ⟨hk, by omega, by omega⟩) ⟨hk, by omega, by omega⟩

theorem ge1_good {n : Int} {s : St α} {k : Int} (h : Good n s) (hk : 0 ≤ k) (hk1 : k < n) :
    Good n (gaussian_elimination_1x1 s k).2 := by
  unfold gaussian_elimination_1x1
  have hkk : 0 ≤ k ∧ k ≤ k ∧ k < n := ⟨hk, le_refl _, hk1⟩
  have h1 := good_wr (v := scalarop_real (s.get k k).1) (good_get h hkk) hkk
  simp only []
  split
  · exact h1
  · rw [h1.1]
    exact ge1_scale_good (ge1_update_good h1 hk (by omega)) hk (by omega)

theorem ge2_X_good {n : Int} {s : St α} {k ldim : Int} {e11 e21 e22 : α} (h : Good n s) (hk : 0 ≤ k) (hl : k + 2 + ldim ≤ n) :
    Good n (ge2_X s k e11 e21 e22 ldim).2.2 := by
  unfold ge2_X
  apply foldl_inv (fun (acc : Array α × Array α × St α) => Good n acc.2.2) _ _ _ h
  rintro ⟨x0, x1, s'⟩ t ht hs
  have ht' := mem_intRange.1 ht
  exact good_get (good_get hs ⟨hk, by omega, by omega⟩) ⟨by omega, by omega, by omega⟩

theorem ge2_update_good {n : Int} {s : St α} {k ldim : Int} {x0 x1 : Array α} (h : Good n s) (hk : 0 ≤ k) (hl : k + 2 + ldim ≤ n) :
    Good n (ge2_update s k ldim x0 x1) := by
  unfold ge2_update
  apply foldl_inv (Good n) _ _ _ h
  intro s j hj hs
  have hj' := mem_intRange.1 hj
  apply foldl_inv (Good n) _ _ _ (good_get (good_get hs ⟨hk, by omega, by omega⟩) ⟨by omega, by omega, by omega⟩)
  intro s t ht hs
  have ht' := mem_intRange.1 ht
  exact good_wr (good_get hs ⟨by omega, by omega, by omega⟩) ⟨by omega, by omega, by omega⟩

theorem ge2_store_good {n : Int} {s : St α} {k ldim : Int} {x0 x1 : Array α} (h : Good n s) (hk : 0 ≤ k) (hl : k + 2 + ldim ≤ n) :
    Good n (ge2_store s k ldim x0 x1) := by
  unfold ge2_store
  apply foldl_inv (Good n)
  · apply foldl_inv (Good n) _ _ _ h
    intro s t ht hs
    have ht' := mem_intRange.1 ht
    exact good_wr hs ⟨by omega, by omega, by omega⟩
  · intro s t ht hs
    have ht' := mem_intRange.1 ht
    exact good_wr hs ⟨by omega, by omega, by omega⟩

theorem ge2_good {n : Int} {s : St α} {k : Int} (h : Good n s) (hk : 0 ≤ k) (hk1 : k + 1 < n) :
    Good n (gaussian_elimination_2x2 s k).2 := by
  unfold gaussian_elimination_2x2
  have hkk : 0 ≤ k ∧ k ≤ k ∧ k < n := ⟨hk, le_refl _, by omega⟩
  have hk2 : 0 ≤ k + 1 ∧ k + 1 ≤ k + 1 ∧ k + 1 < n := ⟨by omega, le_refl _, hk1⟩
  have hk3 : 0 ≤ k ∧ k ≤ k + 1 ∧ k + 1 < n := ⟨hk, by omega, hk1⟩
  have h1 := good_get (good_wr (v := scalarop_real ((s.get k k).2.get (k + 1) (k + 1)).1) (good_wr (v := scalarop_real (s.get k k).1) (good_get (good_get h hkk) hk2) hkk) hk2) hk3
  simp only []
  split
  · exact h1
  · rw [h1.1]
    exact ge2_store_good (ge2_update_good (ge2_X_good h1 hk (by omega)) hk (by omega)) hk (by omega)

theorem computeLoop_good {n : Int} {alpha : α} (fuel : Nat) (k info : Int) (s : St α) (tags : List Nat) (h : Good n s) (hk : 0 ≤ k) :
    Good n (computeLoop alpha fuel k info s tags).2.2.1 ∧ 0 ≤ (computeLoop alpha fuel k info s tags).1 := by
  induction fuel generalizing k info s tags with
  | zero => exact ⟨h, hk⟩
  | succ fuel ih =>
    unfold computeLoop
    split
    · rename_i hlt
      rw [h.1] at hlt
      have hp := permutate_mat_good (alpha := alpha) h hk (by omega)
      generalize permutate_mat s k alpha = pm at hp
      obtain ⟨is1, tag, s1⟩ := pm
      simp only [] at hp ⊢
      cases is1
      · have hg := ge2_good hp hk (by omega)
        simp only [Bool.false_eq_true, if_false]
        split
        · exact ⟨hg, by omega⟩
        · exact ih _ _ _ _ hg (by omega)
      · have hg := ge1_good hp hk (by omega)
        simp only [if_true]
        split
        · exact ⟨hg, by omega⟩
        · exact ih _ _ _ _ hg (by omega)
    · exact ⟨h, hk⟩

/-! ### packed offsets -/
theorem colptr_succ (n j : Int) : colptr n (j + 1) = colptr n j + (n - j) := by
  unfold colptr
  have e : (j + 1) * (j + 1 - 1) = j * (j - 1) + j * 2 := by ring
  rw [e, Int.add_mul_ediv_right _ _ (by norm_num : (2 : Int) ≠ 0)]; ring

theorem colptr_zero (n : Int) : colptr n 0 = 0 := by simp [colptr]

theorem colptr_n (n : Int) : colptr n n = packedSize n := by
  unfold colptr packedSize
  have e : n * (n + 1) = n * (n - 1) + n * 2 := by ring
  rw [e, Int.add_mul_ediv_right _ _ (by norm_num : (2 : Int) ≠ 0)]
  have h2 : 2 * (n * (n - 1) / 2) = n * (n - 1) := Int.two_mul_ediv_two_of_even (Int.even_mul_pred_self n)
  have : n * n = n * (n - 1) + n := by ring
  omega

theorem colptr_mono (n : Int) (j : Int) (m : Nat) (hj : 0 ≤ j) (hm : j + m ≤ n) : colptr n j ≤ colptr n (j + m) := by
  induction m with
  | zero => simp
  | succ m ih =>
    have := ih (by push_cast at hm ⊢; omega)
    have e : j + ((m + 1 : Nat) : Int) = (j + m) + 1 := by push_cast; ring
    rw [e, colptr_succ]; push_cast at hm; omega

/-- the offset arithmetic of `coeff(i,j)` stays inside `m_data` -/
theorem off_bounds {n i j : Int} (h : 0 ≤ j ∧ j ≤ i ∧ i < n) : 0 ≤ off n i j ∧ off n i j < packedSize n := by
  obtain ⟨h0, h1, h2⟩ := h
  unfold off
  have a := colptr_mono n 0 j.toNat (le_refl _) (by omega)
  have b := colptr_mono n (j + 1) (n - (j + 1)).toNat (by omega) (by omega)
  have e1 : (0 : Int) + (j.toNat : Int) = j := by omega
  have e2 : j + 1 + ((n - (j + 1)).toNat : Int) = n := by omega
  rw [e1, colptr_zero] at a
  rw [e2, colptr_n, colptr_succ] at b
  omega

/-- invariant rule for a fold over an integer range, with the invariant indexed by the loop variable -/
theorem foldl_range_inv {σ : Type} (P : Int → σ → Prop) (f : σ → Int → σ) (lo : Int) (m : Nat) (init : σ)
    (h0 : P lo init) (hs : ∀ i s, lo ≤ i → i < lo + m → P i s → P (i + 1) (f s i)) :
    P (lo + m) ((intRange lo (lo + m)).foldl f init) := by
  induction m with
  | zero =>
    rw [intRange_empty lo (lo + ((0 : Nat) : Int)) (by simp)]
    simpa using h0
  | succ m ih =>
    have e : lo + ((m + 1 : Nat) : Int) = (lo + m) + 1 := by push_cast; ring
    rw [e, intRange_succ lo (lo + m) (by omega), List.foldl_append]
    simp only [List.foldl_cons, List.foldl_nil]
    apply hs _ _ (by omega) (by push_cast; omega)
    exact ih (fun i s h1 h2 hp => hs i s h1 (by push_cast; omega) hp)

theorem foldl_range_inv' {σ : Type} (P : Int → σ → Prop) (f : σ → Int → σ) (lo hi : Int) (init : σ) (hle : lo ≤ hi)
    (h0 : P lo init) (hs : ∀ i s, lo ≤ i → i < hi → P i s → P (i + 1) (f s i)) :
    P hi ((intRange lo hi).foldl f init) := by
  have e : hi = lo + ((hi - lo).toNat : Int) := by omega
  rw [e]
  exact foldl_range_inv P f lo _ init h0 (fun i s h1 h2 hp => hs i s h1 (by omega) hp)

theorem shift_diag_good {n : Int} {s : St α} {j : Int} {shift : α} (h : Good n s) (hj : 0 ≤ j ∧ j < n) : Good n (shift_diag s j shift) := by
  unfold shift_diag
  exact good_wr (good_get h ⟨hj.1, le_refl _, hj.2⟩) ⟨hj.1, le_refl _, hj.2⟩

theorem copy_col_fast_good {n : Int} {s : St α} {src : Array α} {j : Int} (h : Good n s) (hj : 0 ≤ j) : Good n (copy_col_fast n src j s) := by
  unfold copy_col_fast
  apply foldl_inv (Good n) _ _ _ h
  intro s t ht hs
  have ht' := mem_intRange.1 ht
  exact good_wr hs ⟨hj, by omega, by omega⟩

theorem copy_col_gen_good {n : Int} {src : Array α} {rm : Bool} {uplo j : Int} {acc : Int × St α} (h : Good n acc.2) (hd : acc.1 = colptr n j)
    (hj : 0 ≤ j) (hjn : j < n) :
    Good n (copy_col_gen n src rm uplo j acc).2 ∧ (copy_col_gen n src rm uplo j acc).1 = colptr n (j + 1) := by
  unfold copy_col_gen
  have := foldl_range_inv' (fun i (a : Int × St α) => Good n a.2 ∧ a.1 = colptr n j + (i - j))
    (fun (acc : Int × St α) i => (acc.1 + 1, acc.2.wrAt acc.1 i j (if decide (uplo = 1) then srcCoeff src rm n i j else scalarop_conj (srcCoeff src rm n j i))))
    j n acc (by omega) ⟨h, by omega⟩
    (fun i a h1 h2 hp => ⟨good_wrAt hp.1 ⟨hj, h1, h2⟩ (by rw [hp.2]; rfl), by dsimp only; omega⟩)
  rw [colptr_succ]
  exact this

theorem copy_data_good {n : Int} {s : St α} {src : Array α} {rm : Bool} {uplo : Int} {shift : α} (h : Good n s) :
    Good n (copy_data s src rm uplo shift) := by
  unfold copy_data
  simp only [h.1]
  split
  · apply foldl_inv (Good n) _ _ _ h
    intro s j hj hs
    have hj' := mem_intRange.1 hj
    exact shift_diag_good (copy_col_fast_good hs hj'.1) hj'
  · by_cases hn : 0 ≤ n
    · have := foldl_range_inv' (fun j (a : Int × St α) => Good n a.2 ∧ a.1 = colptr n j)
        (fun (acc : Int × St α) j => ((copy_col_gen n src rm uplo j acc).1, shift_diag (copy_col_gen n src rm uplo j acc).2 j shift)) 0 n ((0 : Int), s) hn
        ⟨h, (colptr_zero n).symm⟩
        (fun j a h1 h2 hp => by
          have := copy_col_gen_good (src := src) (rm := rm) (uplo := uplo) hp.1 hp.2 h1 h2
          exact ⟨shift_diag_good this.1 ⟨h1, h2⟩, this.2⟩)
      exact this.1
    · rw [intRange_empty 0 n (by omega)]; exact h

theorem initSt_good (n : Int) : Good n (initSt (α := α) n) := ⟨rfl, rfl⟩

theorem compute_good (src : Array α) (rm : Bool) (n uplo : Int) (shift alpha : α) :
    Good n (compute src rm n uplo shift alpha).s := by
  unfold compute
  have h1 : Good n (copy_data (initSt n) src rm uplo shift) := copy_data_good (initSt_good n)
  have h2 := computeLoop_good (alpha := alpha) n.toNat 0 (compute_init_info NotComputed) _ [] h1 (le_refl _)
  dsimp only
  generalize computeLoop alpha n.toNat 0 (compute_init_info NotComputed) (copy_data (initSt n) src rm uplo shift) [] = cl at h2 ⊢
  obtain ⟨k, info, s, tags⟩ := cl
  dsimp only at h2 ⊢
  split
  · rename_i hk
    exact good_wr (good_get h2.1 ⟨h2.2, le_refl _, by omega⟩) ⟨h2.2, le_refl _, by omega⟩
  · exact h2.1

end
end BKLDLT
