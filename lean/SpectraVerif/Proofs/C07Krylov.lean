/-
  Algebra of the Krylov factorization  A V = V H + f e_kᵀ  (helper lemmas for Properties/C07.lean).

  Setting: `𝕜` any field, `E` any `𝕜`-module (all dimensions `n` at once; `E = Fin n → 𝕜` is the instance used by the code),
  `A : E →ₗ[𝕜] E` the operator handed to `ArnoldiOp` (`A`, `B⁻¹A`, `L⁻¹AL⁻ᵀ`, a shift-invert operator, …),
  basis columns `V : ℕ → E` (only the first `k` are meaningful), `H : ℕ → ℕ → 𝕜`.
  The inner product is an abstract sesquilinear form `IP` (linear in the second argument, `ip y x = conj (ip x y)` for a ring
  involution `conj`): `conj = id` and `ip x y = xᵀ B y` for real symmetric `B`; `conj` = complex conjugation for Hermitian `B`.
  No definiteness is needed anywhere.

  `KryE A V H f k R` is the relation with an explicit error column family `R` (used for the breakdown error term):
      ∀ j < k,  A v_j = Σ_{i<k} H i j • v_i + [j = k-1] f + R j .
-/
import Mathlib.Algebra.BigOperators.Intervals
import Mathlib.Algebra.Module.BigOperators
import Mathlib.Algebra.Module.LinearMap.Basic
import Mathlib.Algebra.Field.Basic
import Mathlib.Tactic.Ring
import Mathlib.Tactic.Abel
import Mathlib.Tactic.Linarith
import Mathlib.Tactic.FieldSimp

open Finset

namespace C07

variable {𝕜 : Type*} [Field 𝕜] {E : Type*} [AddCommGroup E] [Module 𝕜 E]

/-- Krylov relation at dimension `k` with error columns `R` -/
def KryE (A : E →ₗ[𝕜] E) (V : ℕ → E) (H : ℕ → ℕ → 𝕜) (f : E) (k : ℕ) (R : ℕ → E) : Prop :=
  ∀ j, j < k → A (V j) = (∑ i ∈ range k, H i j • V i) + (if j + 1 = k then f else 0) + R j

/-- exact Krylov relation `A V_k = V_k H_k + f e_kᵀ` -/
def Kry (A : E →ₗ[𝕜] E) (V : ℕ → E) (H : ℕ → ℕ → 𝕜) (f : E) (k : ℕ) : Prop :=
  ∀ j, j < k → A (V j) = (∑ i ∈ range k, H i j • V i) + (if j + 1 = k then f else 0)

theorem kry_iff_kryE (A : E →ₗ[𝕜] E) (V : ℕ → E) (H : ℕ → ℕ → 𝕜) (f : E) (k : ℕ) :
    Kry A V H f k ↔ KryE A V H f k (fun _ => 0) := by
  simp [Kry, KryE]

/-- new basis: column `k` becomes `v` -/
def extV (V : ℕ → E) (k : ℕ) (v : E) : ℕ → E := Function.update V k v

/-- new projected matrix: column `k` becomes `h`, row `k` gets the single entry `sub` at `(k, k-1)` -/
def extH (H : ℕ → ℕ → 𝕜) (k : ℕ) (sub : 𝕜) (h : ℕ → 𝕜) : ℕ → ℕ → 𝕜 :=
  fun i j => if j = k then h i else if i = k then (if j + 1 = k then sub else 0) else H i j

/-- new residual `f' = A v_k - Σ_{i ≤ k} h i • v_i` -/
def resid (A : E →ₗ[𝕜] E) (V' : ℕ → E) (k : ℕ) (h : ℕ → 𝕜) : E :=
  A (V' k) - ∑ i ∈ range (k + 1), h i • V' i

/-- error columns after a step: the defect `d = f - sub • v` of the step is charged to column `k-1` -/
def extR (R : ℕ → E) (k : ℕ) (d : E) : ℕ → E :=
  fun j => if j = k then 0 else if j + 1 = k then R j + d else R j

/-- The general step: ANY new column `v`, ANY sub-diagonal entry `sub`, ANY coefficient column `h`.
    The only defect is `f - sub • v`, charged to column `k-1`. -/
theorem step_general (A : E →ₗ[𝕜] E) (V : ℕ → E) (H : ℕ → ℕ → 𝕜) (f : E) (k : ℕ) (R : ℕ → E)
    (v : E) (sub : 𝕜) (h : ℕ → 𝕜) (hK : KryE A V H f k R) :
    KryE A (extV V k v) (extH H k sub h) (resid A (extV V k v) k h) (k + 1) (extR R k (f - sub • v)) := by
  intro j hj
  rcases Nat.lt_succ_iff_lt_or_eq.mp hj with hlt | heq
  · have hne : j ≠ k := Nat.ne_of_lt hlt
    have hVj : extV V k v j = V j := by simp [extV, Function.update_of_ne hne]
    rw [hVj, hK j hlt, sum_range_succ]
    have hsum : ∑ i ∈ range k, extH H k sub h i j • extV V k v i = ∑ i ∈ range k, H i j • V i := by
      apply sum_congr rfl
      intro i hi
      have hik : i ≠ k := Nat.ne_of_lt (mem_range.mp hi)
      simp [extH, extV, hne, hik]
    rw [hsum]
    have hjk1 : j + 1 ≠ k + 1 := by omega
    simp only [hjk1, if_false, add_zero]
    by_cases hlast : j + 1 = k
    · simp only [extH, extV, extR, hne, hlast, if_true, if_false, Function.update_self]
      abel
    · simp only [extH, extV, extR, hne, hlast, if_true, if_false, Function.update_self, zero_smul]
  · subst heq
    have hsum : ∑ i ∈ range (j + 1), extH H j sub h i j • extV V j v i = ∑ i ∈ range (j + 1), h i • extV V j v i := by
      apply sum_congr rfl; intro i _; simp [extH]
    rw [hsum]; simp [resid, extR]

/-- re-orthogonalisation corrections `f -= V g, h += g` are the same step with coefficient column `h + g` -/
theorem resid_add (A : E →ₗ[𝕜] E) (V' : ℕ → E) (k : ℕ) (h g : ℕ → 𝕜) :
    resid A V' k (fun i => h i + g i) = resid A V' k h - ∑ i ∈ range (k + 1), g i • V' i := by
  simp only [resid, add_smul, sum_add_distrib]; abel

theorem extR_zero (k : ℕ) : extR (fun _ => (0 : E)) k 0 = fun _ => 0 := by
  funext j; simp [extR]

/-- bandwidth: a column of `Q` that vanishes from row `nnz` on only needs the first `nnz` basis vectors -/
theorem sum_band (V : ℕ → E) (q : ℕ → 𝕜) (m nnz : ℕ) (hnm : nnz ≤ m) (hq : ∀ a, nnz ≤ a → a < m → q a = 0) :
    ∑ a ∈ range m, q a • V a = ∑ a ∈ range nnz, q a • V a := by
  symm
  apply sum_subset (range_subset_range.mpr hnm)
  intro a ha hna
  rw [hq a (by simpa using hna) (mem_range.mp ha), zero_smul]

/-- lower bandwidth adds under products: if `Q₁ a c = 0` for `a > c + p₁` and `Q₂ c b = 0` for `c > b + p₂`
    then `(Q₁ Q₂) a b = 0` for `a > b + p₁ + p₂` -/
theorem band_mul (Q1 Q2 : ℕ → ℕ → 𝕜) (m p1 p2 : ℕ)
    (h1 : ∀ a c, c + p1 < a → Q1 a c = 0) (h2 : ∀ c b, b + p2 < c → Q2 c b = 0) :
    ∀ a b, b + (p1 + p2) < a → ∑ c ∈ range m, Q1 a c * Q2 c b = 0 := by
  intro a b hab
  apply sum_eq_zero
  intro c _
  by_cases hc : c + p1 < a
  · rw [h1 a c hc, zero_mul]
  · rw [h2 c b (by omega), mul_zero]

/-- IRA compress with error columns: `V⁺ = V Q`, `f⁺ = Q(m-1,k-1) f + H⁺(k,k-1) v⁺_k`, `R⁺ = R Q` -/
theorem compress_general (A : E →ₗ[𝕜] E) (V : ℕ → E) (H Hp Q : ℕ → ℕ → 𝕜) (f : E) (m k : ℕ) (R : ℕ → E)
    (hk : 0 < k) (hkm : k < m)
    (hK : KryE A V H f m R)
    (hHQ : ∀ i, i < m → ∀ j, j < k → ∑ a ∈ range m, H i a * Q a j = ∑ b ∈ range m, Q i b * Hp b j)
    (hHess : ∀ b j, j + 1 < b → j < k → b < m → Hp b j = 0)
    (hband : ∀ j, j + 1 < k → Q (m - 1) j = 0) :
    KryE A (fun j => ∑ a ∈ range m, Q a j • V a) Hp
      (Q (m - 1) (k - 1) • f + Hp k (k - 1) • ∑ a ∈ range m, Q a k • V a) k
      (fun j => ∑ a ∈ range m, Q a j • R a) := by
  intro j hj
  have hjm : j < m := lt_trans hj hkm
  set Vp : ℕ → E := fun j => ∑ a ∈ range m, Q a j • V a with hVp
  have h1 : A (Vp j) = ∑ a ∈ range m, Q a j • A (V a) := by
    simp only [hVp, map_sum, map_smul]
  have h2 : ∑ a ∈ range m, Q a j • A (V a)
      = (∑ a ∈ range m, Q a j • ∑ i ∈ range m, H i a • V i) + Q (m - 1) j • f + ∑ a ∈ range m, Q a j • R a := by
    rw [sum_congr rfl (fun a ha => by rw [hK a (mem_range.mp ha)])]
    simp only [smul_add, sum_add_distrib]
    congr 2
    rw [sum_eq_single (m - 1)]
    · have : m - 1 + 1 = m := by omega
      simp [this]
    · intro b hb hne
      have : b + 1 ≠ m := by have := mem_range.mp hb; omega
      simp [this]
    · intro h; exfalso; apply h; rw [mem_range]; omega
  have h3 : ∑ a ∈ range m, Q a j • ∑ i ∈ range m, H i a • V i = ∑ b ∈ range m, Hp b j • Vp b := by
    calc ∑ a ∈ range m, Q a j • ∑ i ∈ range m, H i a • V i
        = ∑ i ∈ range m, (∑ a ∈ range m, H i a * Q a j) • V i := by
          simp only [smul_sum, smul_smul]
          rw [sum_comm]
          apply sum_congr rfl; intro i _
          rw [sum_smul]
          apply sum_congr rfl; intro a _
          rw [mul_comm]
      _ = ∑ i ∈ range m, (∑ b ∈ range m, Q i b * Hp b j) • V i := by
          apply sum_congr rfl; intro i hi
          rw [hHQ i (mem_range.mp hi) j hj]
      _ = ∑ b ∈ range m, Hp b j • Vp b := by
          simp only [hVp, smul_sum, smul_smul, sum_smul]
          rw [sum_comm]
          apply sum_congr rfl; intro b _
          apply sum_congr rfl; intro i _
          rw [mul_comm]
  have h4 : ∑ b ∈ range m, Hp b j • Vp b
      = (∑ b ∈ range k, Hp b j • Vp b) + (if j + 1 = k then Hp k (k - 1) • Vp k else 0) := by
    have hsplit : range m = range (k + 1) ∪ (range m \ range (k + 1)) := by
      rw [union_sdiff_of_subset]; exact range_subset_range.mpr (by omega)
    rw [hsplit, sum_union disjoint_sdiff, sum_range_succ]
    have hz : ∑ b ∈ range m \ range (k + 1), Hp b j • Vp b = 0 := by
      apply sum_eq_zero; intro b hb
      have hb' := mem_sdiff.mp hb
      have hb1 : k + 1 ≤ b := by have := hb'.2; rw [mem_range] at this; omega
      have hb2 : b < m := mem_range.mp hb'.1
      rw [hHess b j (by omega) hj hb2, zero_smul]
    rw [hz, add_zero]
    congr 1
    by_cases hjk : j + 1 = k
    · have hk1 : k - 1 + 1 = k := by omega
      have : j = k - 1 := by omega
      simp [this, hk1]
    · rw [hHess k j (by omega) hj hkm]; simp [hjk]
  rw [h1, h2, h3, h4]
  by_cases hjk : j + 1 = k
  · have hk1 : k - 1 + 1 = k := by omega
    have hj' : j = k - 1 := by omega
    subst hj'
    simp only [hk1, if_true]
    abel
  · have : Q (m - 1) j = 0 := hband j (by omega)
    simp [hjk, this]

/-! ### inner product -/

/-- sesquilinear form: linear in the second argument, conjugate-symmetric w.r.t. a ring involution -/
structure IP (𝕜 : Type*) [Field 𝕜] (E : Type*) [AddCommGroup E] [Module 𝕜 E] where
  ip : E → E → 𝕜
  conj : 𝕜 →+* 𝕜
  add_right : ∀ x y z, ip x (y + z) = ip x y + ip x z
  smul_right : ∀ x (c : 𝕜) y, ip x (c • y) = c * ip x y
  symm : ∀ x y, ip y x = conj (ip x y)

namespace IP
variable (P : IP 𝕜 E)

theorem zero_right (x : E) : P.ip x 0 = 0 := by
  have := P.smul_right x 0 0; simpa using this
theorem neg_right (x y : E) : P.ip x (-y) = - P.ip x y := by
  have := P.smul_right x (-1) y; simpa using this
theorem sub_right (x y z : E) : P.ip x (y - z) = P.ip x y - P.ip x z := by
  rw [sub_eq_add_neg, P.add_right, P.neg_right, ← sub_eq_add_neg]
theorem sum_right (x : E) (s : Finset ℕ) (g : ℕ → E) : P.ip x (∑ i ∈ s, g i) = ∑ i ∈ s, P.ip x (g i) := by
  classical
  induction s using Finset.induction_on with
  | empty => simp [P.zero_right]
  | insert a s ha ih => rw [sum_insert ha, sum_insert ha, P.add_right, ih]
theorem add_left (x y z : E) : P.ip (x + y) z = P.ip x z + P.ip y z := by
  rw [P.symm z (x + y), P.add_right, map_add, ← P.symm, ← P.symm]
theorem smul_left (c : 𝕜) (x y : E) : P.ip (c • x) y = P.conj c * P.ip x y := by
  rw [P.symm y (c • x), P.smul_right, map_mul, ← P.symm]
theorem zero_left (y : E) : P.ip 0 y = 0 := by
  rw [P.symm y 0, P.zero_right, map_zero]
theorem sum_left (y : E) (s : Finset ℕ) (g : ℕ → E) : P.ip (∑ i ∈ s, g i) y = ∑ i ∈ s, P.ip (g i) y := by
  rw [P.symm y, P.sum_right, map_sum]
  apply sum_congr rfl; intro i _; rw [← P.symm]
end IP

/-- `V_kᴴ B V_k = I` -/
def ON (P : IP 𝕜 E) (V : ℕ → E) (k : ℕ) : Prop :=
  ∀ i, i < k → ∀ j, j < k → P.ip (V i) (V j) = if i = j then 1 else 0
/-- `V_kᴴ B f = 0` -/
def FO (P : IP 𝕜 E) (V : ℕ → E) (f : E) (k : ℕ) : Prop := ∀ j, j < k → P.ip (V j) f = 0

/-- projecting with the exact coefficients `h = Vᴴ B w` of an orthonormal family leaves a residual orthogonal to it -/
theorem resid_orth (P : IP 𝕜 E) (V' : ℕ → E) (k1 : ℕ) (w : E) (h : ℕ → 𝕜)
    (hON : ON P V' k1) (hh : ∀ i, i < k1 → h i = P.ip (V' i) w) :
    FO P V' (w - ∑ i ∈ range k1, h i • V' i) k1 := by
  intro j hj
  rw [P.sub_right, P.sum_right]
  have : ∑ i ∈ range k1, P.ip (V' j) (h i • V' i) = h j := by
    rw [sum_eq_single j]
    · rw [P.smul_right, hON j hj j hj]; simp
    · intro b hb hne
      rw [P.smul_right, hON j hj b (mem_range.mp hb)]
      simp [Ne.symm hne]
    · intro hn; exfalso; exact hn (mem_range.mpr hj)
  rw [this, hh j hj, sub_self]

/-- normalising a residual orthogonal to an orthonormal family extends the family -/
theorem on_extend (P : IP 𝕜 E) (V : ℕ → E) (k : ℕ) (g : E) (γ : 𝕜)
    (hON : ON P V k) (hFO : FO P V g k) (hγ : γ ≠ 0) (hγc : P.conj γ = γ) (hnorm : γ * γ = P.ip g g) :
    ON P (extV V k (γ⁻¹ • g)) (k + 1) := by
  intro i hi j hj
  rcases Nat.lt_succ_iff_lt_or_eq.mp hi with hik | hik <;> rcases Nat.lt_succ_iff_lt_or_eq.mp hj with hjk | hjk
  · have h1 : i ≠ k := Nat.ne_of_lt hik
    have h2 : j ≠ k := Nat.ne_of_lt hjk
    simp only [extV, Function.update_of_ne h1, Function.update_of_ne h2]
    exact hON i hik j hjk
  · subst hjk
    have h1 : i ≠ j := Nat.ne_of_lt hik
    simp only [extV, Function.update_of_ne h1, Function.update_self, P.smul_right, hFO i hik, mul_zero, h1, if_false]
  · subst hik
    have h2 : j ≠ i := Nat.ne_of_lt hjk
    simp only [extV, Function.update_of_ne h2, Function.update_self, P.smul_left]
    rw [P.symm (V j) g, hFO j hjk, map_zero, mul_zero]
    simp [Ne.symm h2]
  · subst hik; subst hjk
    simp only [extV, Function.update_self, P.smul_left, P.smul_right, if_true]
    have hci : P.conj γ⁻¹ = γ⁻¹ := by rw [map_inv₀, hγc]
    rw [hci, ← hnorm]
    have : γ⁻¹ * (γ⁻¹ * (γ * γ)) = (γ⁻¹ * γ) * (γ⁻¹ * γ) := by ring
    rw [this, inv_mul_cancel₀ hγ, one_mul]

end C07
