/-
  C08 — DoubleShiftQR similarity, part G: a concrete run on which every hypothesis of `C08.c08_dsqr_similarity_partial` holds and a
  genuine (2-row) reflector is stored.  Over ℝ with `Real.sqrt`, `min() = 1` (so `m_near_0 = 10`, `eps_abs = 10 · (2 / 1) = 20`),
  `eps = 1`, `pow ≡ 0` (series cutoff 0), `H = [1 0; 100 0]`, `s = t = 0`: the subdiagonal entry `100` is not deflated
  (`100 > 20`, `100 > 1 · (|1| + |0|)`), `m10 = 100 · (1 + 0 − 0) = 100 ≥ 10`.

  (A universal exact square root does not exist over ℚ, so the instance lives in ℝ; nothing is evaluated numerically — the two
  comparisons above are the only facts about the numbers that are used, `runExact_two` does the rest for every 2 × 2 input.)
-/
import SpectraVerif.Proofs.C08DsqrSimF
import Mathlib.Analysis.Real.Sqrt

set_option linter.unusedSectionVars false

namespace C08DsqrSim
open Lin QRModel C08DsqrQ C08DsqrMatrix

noncomputable def exF : FieldFns ℝ := ⟨Real.sqrt, fun _ _ => 0, 1, 1⟩
noncomputable def exMat : Mat ℝ := Mat.ofFn 2 2 (fun i j => if j = 0 then (if i = 0 then 1 else 100) else 0)

theorem exMat_get (i j : Nat) (hi : i < 2) (hj : j < 2) :
    C08DsqrQ.mget exF exMat i j = if j = 0 then (if i = 0 then 1 else 100) else 0 :=
  @C08Mat.get_ofFn ℝ (scOfField exF) 2 2 _ i j hi hj

theorem ex_epsA : epsA exF exMat = 20 := by
  show (1 : ℝ) * ((10 : Int) : ℝ) * ((((2 : Nat) : Int) : ℝ) / 1) = 20
  norm_num

theorem ex_not_deflated : dfl exF (epsA exF exMat) exMat 0 = false := by
  rw [Bool.eq_false_iff]
  intro h
  rw [dfl_iff, ex_epsA, exMat_get _ _ (by omega) (by omega), exMat_get _ _ (by omega) (by omega),
    exMat_get _ _ (by omega) (by omega)] at h
  unfold Negl at h
  norm_num [exF] at h

theorem ex_big : ¬ |C08Local.fc1 exF (C08DsqrQ.mget exF exMat 0 0) (C08DsqrQ.mget exF exMat 1 0)
    (C08DsqrQ.mget exF exMat 1 1) 0| < C08Refl.nz exF := by
  rw [exMat_get _ _ (by omega) (by omega), exMat_get _ _ (by omega) (by omega), exMat_get _ _ (by omega) (by omega)]
  norm_num [C08Local.fc1, DoubleShiftQR.firstCol1, C08Refl.nz, exF]

theorem ex_hyps :
    (∀ x : ℝ, 0 ≤ x → exF.sqrt x * exF.sqrt x = x ∧ 0 ≤ exF.sqrt x) ∧ C08Refl.cutoff exF ≤ 0 ∧ 0 < exF.minPos ∧
    1 ≤ exMat.rows ∧ RunExact exF exMat 0 0 ∧ dfl exF (epsA exF exMat) exMat 0 = false :=
  ⟨fun x hx => ⟨Real.mul_self_sqrt hx, Real.sqrt_nonneg x⟩, by simp [C08Givens.cutoff, exF], by norm_num [exF],
   by show 1 ≤ 2; omega, runExact_two exF (by norm_num [exF]) exMat 0 0 rfl ex_not_deflated ex_big, ex_not_deflated⟩

end C08DsqrSim
