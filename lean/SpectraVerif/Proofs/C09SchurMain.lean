/-
  C09 (whole-run similarity of UpperHessenbergSchur), part 7: the main loop and `compute`.
  Ghost budget `mainLoopDrop` (mirrors the loop) and the invariant `Uᵀ H U = T + ex·D_m + E`, `Bnd E (accumulated drop)`.
-/
import SpectraVerif.Proofs.C09SchurDefl
import SpectraVerif.Proofs.C09SimT

set_option linter.unusedSectionVars false
set_option linter.unusedSimpArgs false
set_option linter.unusedVariables false
set_option linter.unusedTactic false
set_option linter.unreachableTactic false
set_option linter.style.haveILetI false

namespace C09SS
open Lin EigenPrims HessSchur C09Mat C09Step C09Sim C09OrthU C09Orth Finset
open scoped Matrix

section gen
variable {α : Type} [Add α] [Sub α] [Mul α] [Div α] [Neg α] [Sc α]

/-- the start row of the sweep only moves up -/
theorem initFrancis_le (t : Mat α) (il : ℕ) (sh : Shift α) (f im : ℕ) : (initFrancis t il sh f im).1 ≤ im := by
  induction f generalizing im with
  | zero => simp [initFrancis]
  | succ f ih =>
    simp only [initFrancis]
    split
    · exact le_refl _
    · split
      · exact le_refl _
      · exact le_trans (ih (im - 1)) (Nat.sub_le _ _)

/-- **`find_small_subdiag` returns a row whose sub-diagonal entry passed the negligibility test** (or row `0`): for `il` = the result,
    `il = 0` or `|T(il, il−1)| ≤ max(eps·(|T(il−1,il−1)| + |T(il,il)|), near_0)` tested true — any scalar type -/
theorem findSmallSubdiag_spec (t : Mat α) (near0 : α) (r : ℕ) :
    HessSchur.findSmallSubdiag t near0 r = 0 ∨
      Sc.le (Sc.abs (t.get (HessSchur.findSmallSubdiag t near0 r) (HessSchur.findSmallSubdiag t near0 r - 1)))
        (HessSchur.maxi ((Sc.abs (t.get (HessSchur.findSmallSubdiag t near0 r - 1) (HessSchur.findSmallSubdiag t near0 r - 1)) +
          Sc.abs (t.get (HessSchur.findSmallSubdiag t near0 r) (HessSchur.findSmallSubdiag t near0 r))) * Sc.eps) near0) = true := by
  induction r with
  | zero => left; simp [HessSchur.findSmallSubdiag]
  | succ r ih =>
    simp only [HessSchur.findSmallSubdiag]
    split
    · rename_i h; right; simpa using h
    · exact ih

end gen

section field
variable {K : Type} [Field K] [LinearOrder K] [IsStrictOrderedRing K] (F : FieldFns K)

/-- **ghost: the perturbation budget of a run of the Schur main loop** (mirrors `HessSchur.mainLoop`): the sum of
    * `|T(iu, iu−1)|` at every 1x1 deflation and `|T(iu−1, iu−2)|` at every 2x2 split (the sub-diagonal entries the code found
      negligible and overwrote with `0`),
    * `performFrancisDrop` of every Francis step (what the sweep does not transform exactly, see `francisDrop`). -/
def mainLoopDrop (n : ℕ) (near0 : K) : ℕ → ℕ → ℕ → ℕ → K → TU K → K
  | 0, _, _, _, _, _ => 0
  | f + 1, m, iter, total, exShift, s =>
    letI : Sc K := scOfField F
    if m = 0 then 0 else
    let iu := m - 1
    let il := findSmallSubdiag s.t near0 iu
    if il = iu then
      let t := s.t.set iu iu (s.t.get iu iu + exShift)
      let t := if 0 < iu then t.set iu (iu - 1) zero else t
      (if 0 < iu then |s.t.get iu (iu - 1)| else 0) + mainLoopDrop n near0 f (m - 1) 0 total exShift ⟨t, s.u⟩
    else if il + 1 = iu then
      (if 1 < iu then |s.t.get (iu - 1) (iu - 2)| else 0) + mainLoopDrop n near0 f (m - 2) 0 total exShift (splitOffTwoRows n iu exShift s)
    else
      let (t, exShift, sh) := computeShift iu iter exShift s.t
      let iter := iter + 1
      let total := total + 1
      if 40 * n < total then 0 else
      let (im, v0, v1, v2) := initFrancis t il sh (iu - 1 - il) (iu - 2)
      performFrancisDrop F n il im iu near0 (v0, v1, v2) ⟨t, s.u⟩ +
        mainLoopDrop n near0 f m iter total exShift (performFrancis n il im iu near0 (v0, v1, v2) ⟨t, s.u⟩)

theorem mainLoopDrop_nonneg (n : ℕ) (near0 : K) (f m iter total : ℕ) (ex : K) (s : TU K) :
    0 ≤ mainLoopDrop F n near0 f m iter total ex s := by
  letI : Sc K := scOfField F
  induction f generalizing m iter total ex s with
  | zero => simp [mainLoopDrop]
  | succ f ih =>
    simp only [mainLoopDrop]
    split
    · exact le_refl _
    · split
      · refine add_nonneg ?_ (ih _ _ _ _ _)
        split
        · exact abs_nonneg _
        · exact le_refl _
      · split
        · refine add_nonneg ?_ (ih _ _ _ _ _)
          split
          · exact abs_nonneg _
          · exact le_refl _
        · generalize computeShift (m - 1) iter ex s.t = cs
          obtain ⟨t, ex', sh⟩ := cs
          simp only
          split
          · exact le_refl _
          · generalize initFrancis t (findSmallSubdiag s.t near0 (m - 1)) sh (m - 1 - 1 - findSmallSubdiag s.t near0 (m - 1)) (m - 1 - 2) = fr
            obtain ⟨im, v0, v1, v2⟩ := fr
            simp only
            exact add_nonneg (performFrancisDrop_nonneg F n _ im _ near0 _ _) (ih _ _ _ _ _)

/-- **main-loop invariant** (`m = iu + 1` rows are still active): block structure and Hessenberg shape of `T`, `U` orthonormal,
    `Uᵀ H U = T + ex·D_m + E` with `E` within the budget `b` -/
structure MInv (n m : ℕ) (H : Matrix (Fin n) (Fin n) K) (ex : K) (s : TU K) (b : K) : Prop where
  inv : @C09Schur.Inv K (scOfField F) n m s.t
  hess : @C09Hess.Hess K (scOfField F) n s.t
  orth : ColsOrth F n s.u
  sim : ∃ E : Matrix (Fin n) (Fin n) K, Bnd E b ∧
    (mat n (gf F s.u))ᵀ * H * mat n (gf F s.u) = mat n (gf F s.t) + Sm n m ex + E

theorem Sm_zero (n : ℕ) (ex : K) : Sm n 0 ex = 0 := by
  ext i j; simp [Sm, Matrix.diagonal_apply]

/-- **the Schur main loop carries the similarity invariant** (exact `sqrt ≥ 0`, `min ≥ 0`; every size, every input, every outcome of
    every comparison): on a normal exit `Uᵀ H U = T + E` with `E` within the initial budget plus `mainLoopDrop` -/
theorem mainLoop_sim (hs : ∀ x : K, 0 ≤ x → F.sqrt x * F.sqrt x = x) (hs0 : ∀ x : K, 0 ≤ F.sqrt x) (hmin : 0 ≤ F.minPos)
    (n : ℕ) (near0 : K) (H : Matrix (Fin n) (Fin n) K) (f m iter total : ℕ) (ex : K) (s : TU K) (b : K)
    (h : MInv F n m H ex s b)
    (hd : (@mainLoop K _ _ _ _ _ (scOfField F) n near0 f m iter total ex s).exit = Exit.done) :
    ∃ E : Matrix (Fin n) (Fin n) K, Bnd E (b + mainLoopDrop F n near0 f m iter total ex s) ∧
      (mat n (gf F (@mainLoop K _ _ _ _ _ (scOfField F) n near0 f m iter total ex s).u))ᵀ * H *
          mat n (gf F (@mainLoop K _ _ _ _ _ (scOfField F) n near0 f m iter total ex s).u) =
        mat n (gf F (@mainLoop K _ _ _ _ _ (scOfField F) n near0 f m iter total ex s).t) + E := by
  letI : Sc K := scOfField F
  have hu : UnitRot F := fun p q => makeGivens_unit F hs p q
  have hh : IdealHH F := fun c0 t1 t2 => makeHouseholder_ideal F hs hs0 hmin c0 t1 t2
  induction f generalizing m iter total ex s b with
  | zero => simp [mainLoop] at hd
  | succ f ih =>
    simp only [mainLoop, mainLoopDrop] at hd ⊢
    by_cases hm : m = 0
    · simp only [if_pos hm] at hd ⊢
      obtain ⟨E, hE, sim⟩ := h.sim
      refine ⟨E, by simpa using hE, ?_⟩
      rw [sim, hm, Sm_zero, add_zero]
    · simp only [if_neg hm] at hd ⊢
      obtain ⟨iu, rfl⟩ : ∃ iu, m = iu + 1 := ⟨m - 1, by omega⟩
      simp only [Nat.add_sub_cancel, show iu + 1 - 2 = iu - 1 from rfl] at hd ⊢
      have hI := h.inv
      have hmn := hI.le
      have hle := C09Schur.findSmallSubdiag_le s.t near0 iu
      obtain ⟨E, hE, sim⟩ := h.sim
      by_cases h1 : findSmallSubdiag s.t near0 iu = iu
      · simp only [if_pos h1] at hd ⊢
        rw [← add_assoc]
        apply ih _ _ _ _ _ _ _ hd
        have hp : C09Schur.Pres (iu + 1) s.t (if 0 < iu then (s.t.set iu iu (s.t.get iu iu + ex)).set iu (iu - 1) zero
            else s.t.set iu iu (s.t.get iu iu + ex)) := by
          split
          · exact C09Schur.pres_set2 (iu + 1) s.t hI.wf _ _ _ _ _ _ (by omega) (by omega)
          · exact C09Schur.pres_set (iu + 1) s.t hI.wf _ _ _ (by omega)
        have hpk : C09Hess.PresK C09Hess.Below s.t (if 0 < iu then (s.t.set iu iu (s.t.get iu iu + ex)).set iu (iu - 1) zero
            else s.t.set iu iu (s.t.get iu iu + ex)) := by
          split
          · exact C09Hess.presK_set2 C09Hess.Below s.t hI.wf _ _ _ _ _ _ (by unfold C09Hess.Below; omega) (by unfold C09Hess.Below; omega)
          · exact C09Hess.presK_set C09Hess.Below s.t hI.wf _ _ _ (by unfold C09Hess.Below; omega)
        refine ⟨?_, C09Hess.hess_presK_below hI.rows h.hess hpk, h.orth, ?_⟩
        · have hI2 := C09Schur.inv_pres hI hp
          apply C09Schur.inv_down1 hI2 rfl
          intro h0
          unfold C09Schur.sdz
          rw [if_pos h0]
          have w1 := set_wf s.t iu iu (s.t.get iu iu + ex) hI.wf
          exact C09Schur.get_set_self _ w1 _ _ _ (by rw [set_rows, hI.rows]; omega) (by rw [set_cols, hI.cols]; omega)
        · have := defl1_sim F n iu H ex s.t (gf F s.u) b (by omega) hI.wf hI.rows hI.cols E hE sim
          simpa using this
      · simp only [if_neg h1] at hd ⊢
        by_cases h2 : findSmallSubdiag s.t near0 iu + 1 = iu
        · simp only [if_pos h2] at hd ⊢
          obtain ⟨p, rfl⟩ : ∃ p, iu = p + 1 := ⟨iu - 1, by omega⟩
          simp only [Nat.add_sub_cancel, show p + 1 - 2 = p - 1 from rfl] at hd ⊢
          rw [← add_assoc]
          apply ih _ _ _ _ _ _ _ hd
          obtain ⟨hp, hzz⟩ := C09Schur.pres_split n (p + 1) ex s hI.wf
          have hI2 := C09Schur.inv_pres hI hp
          have hz' : p + 1 + 1 < n → s.t.get (p + 1 + 1) (p + 1) = 0 := by
            intro hlt
            have := hI.bnd (by omega) hlt
            unfold C09Schur.sdz at this
            rw [zero_eq] at this; exact this
          refine ⟨?_, C09Hess.hess_presK_below hI.rows h.hess (C09Hess.presK_split n (p + 1) ex s hI.wf),
            split_orth F hu n (p + 1) ex s (by omega) (by omega) h.orth, ?_⟩
          · apply C09Schur.inv_down2 hI2 rfl
            intro h0
            unfold C09Schur.sdz
            exact hzz (by omega) (by rw [hI.rows]; omega) (by rw [hI.cols]; omega)
          · exact split_sim F hs hs0 n p H ex s b (by omega) hI.wf hI.rows hI.cols h.hess hz' h.orth E hE sim
        · simp only [if_neg h2] at hd ⊢
          have hcsim := shift_sim F n iu iter ex s.t hI.wf hI.rows hI.cols (by omega)
          have hp1 : C09Schur.Pres (iu + 1) s.t (computeShift iu iter ex s.t).1 :=
            C09Schur.pres_computeShift (iu + 1) s.t hI.wf iu iter ex (by omega)
          have hpk1 : C09Hess.PresK C09Hess.Below s.t (computeShift iu iter ex s.t).1 :=
            C09Hess.presK_computeShift C09Hess.Below s.t hI.wf iu iter ex (by intro i; unfold C09Hess.Below; omega)
          generalize computeShift iu iter ex s.t = cs at hd hcsim hp1 hpk1 ⊢
          obtain ⟨t, ex', sh⟩ := cs
          simp only at hd hcsim hp1 hpk1 ⊢
          by_cases hcap : 40 * n < total + 1
          · simp only [if_pos hcap] at hd; cases hd
          · simp only [if_neg hcap] at hd ⊢
            have hifle := initFrancis_le t (findSmallSubdiag s.t near0 iu) sh (iu - 1 - findSmallSubdiag s.t near0 iu) (iu - 2)
            generalize initFrancis t (findSmallSubdiag s.t near0 iu) sh (iu - 1 - findSmallSubdiag s.t near0 iu) (iu - 2) = fr at hd hifle ⊢
            obtain ⟨im, v0, v1, v2⟩ := fr
            simp only at hd hifle ⊢
            rw [← add_assoc]
            apply ih _ _ _ _ _ _ _ hd
            have hI1 := C09Schur.inv_pres hI hp1
            have hess1 := C09Hess.hess_presK_below hI.rows h.hess hpk1
            have hz1 : iu + 1 < n → t.get (iu + 1) iu = 0 := by
              intro hlt
              have := hI1.bnd (by omega) hlt
              unfold C09Schur.sdz at this
              rw [zero_eq] at this; exact this
            have sim1 : (mat n (gf F s.u))ᵀ * H * mat n (gf F s.u) = mat n (gf F t) + Sm n (iu + 1) ex' + E := by
              rw [sim, ← hcsim]
            have hp2 := C09Schur.pres_performFrancis n (findSmallSubdiag s.t near0 iu) im iu near0 (v0, v1, v2) ⟨t, s.u⟩ hI1.wf
            refine ⟨C09Schur.inv_pres hI1 hp2,
              C09Hess.hess_performFrancis n _ im iu near0 (v0, v1, v2) ⟨t, s.u⟩ hI1.wf hI1.rows hI1.cols (by omega) hess1,
              performFrancis_orth F hu hh n _ im iu near0 (v0, v1, v2) ⟨t, s.u⟩ (by omega) (by omega) h.orth,
              performFrancis_sim F hs hh n _ im iu near0 (v0, v1, v2) H ex' ⟨t, s.u⟩ b (by omega) (by omega) hI1.wf hI1.rows hI1.cols
                hess1 hz1 h.orth E hE sim1⟩

/-- **the perturbation budget of `UpperHessenbergSchur::compute`** (`0` in the `norm == 0` early exit, where `T = H`, `U = I`) -/
def schurDrop (n : ℕ) (h : Mat K) : K :=
  letI : Sc K := scOfField F
  if Sc.ne (l1norm n h) (zero : K) = true then mainLoopDrop F n (near0Of (l1norm n h)) (41 * n + 1) n 0 0 zero ⟨h, Mat.identity n⟩ else 0

theorem schurDrop_nonneg (n : ℕ) (h : Mat K) : 0 ≤ schurDrop F n h := by
  simp only [schurDrop]; split
  · exact mainLoopDrop_nonneg F n _ _ _ _ _ _ _
  · exact le_refl _

/-- **whole-run similarity of `UpperHessenbergSchur::compute`**, exact arithmetic: `Uᵀ H U = T + E`, `UᵀU = UUᵀ = 1`, `E` within the
    budget `schurDrop` (as a bilinear form on unit vectors, hence entrywise) -/
theorem compute_sim (hs : ∀ x : K, 0 ≤ x → F.sqrt x * F.sqrt x = x) (hs0 : ∀ x : K, 0 ≤ F.sqrt x) (hmin : 0 ≤ F.minPos)
    (n : ℕ) (h : Mat K) (hw : @WF K h) (hr : h.rows = n) (hc : h.cols = n) (hH : @C09Hess.Hess K (scOfField F) n h)
    (r : Decomp K) (hok : @compute K _ _ _ _ _ (scOfField F) n h = Res.ok r) :
    ∃ E : Matrix (Fin n) (Fin n) K, Bnd E (schurDrop F n h) ∧
      (mat n (gf F r.u))ᵀ * mat n (gf F h) * mat n (gf F r.u) = mat n (gf F r.t) + E ∧
      (mat n (gf F r.u))ᵀ * mat n (gf F r.u) = 1 ∧ mat n (gf F r.u) * (mat n (gf F r.u))ᵀ = 1 := by
  letI : Sc K := scOfField F
  have hu : UnitRot F := fun p q => makeGivens_unit F hs p q
  have hh : IdealHH F := fun c0 t1 t2 => makeHouseholder_ideal F hs hs0 hmin c0 t1 t2
  have horth := colsOrth_mat F n r.u (compute_orthU F hu hh n h r hok)
  have horth' := mul_eq_one_comm.mp horth
  have hI : mat n (gf F (Mat.identity n : Mat K)) = 1 := mat_identity F n
  simp only [compute] at hok
  split at hok
  · rename_i hdone
    cases hok
    simp only [core, schurDrop] at hdone horth horth' ⊢
    split at hdone
    · rename_i hn
      simp only [if_pos hn] at horth horth' ⊢
      have h0 : MInv F n n (mat n (gf F h)) (zero : K) ⟨h, Mat.identity n⟩ 0 := by
        refine ⟨C09Schur.inv_init n h hw hr hc, hH, colsOrth_identity F n, 0, bnd_zero n, ?_⟩
        show (mat n (gf F (Mat.identity n : Mat K)))ᵀ * _ * mat n (gf F (Mat.identity n : Mat K)) = _
        rw [hI, Matrix.transpose_one, Matrix.one_mul, Matrix.mul_one, add_zero]
        have : Sm n n (zero : K) = 0 := by ext i j; simp [Sm, Matrix.diagonal_apply, zero_eq]
        rw [this, add_zero]
      obtain ⟨E, hE, sim⟩ := mainLoop_sim F hs hs0 hmin n _ _ _ n 0 0 zero _ 0 h0 hdone
      exact ⟨E, by simpa using hE, sim, horth, horth'⟩
    · rename_i hn
      simp only [if_neg hn] at horth horth' ⊢
      refine ⟨0, bnd_zero n, ?_, horth, horth'⟩
      rw [hI, Matrix.transpose_one, Matrix.one_mul, Matrix.mul_one, add_zero]
  · cases hok

/-- **what a reflector trip that is not the first of its sweep drops**: at most the two bulge entries below `T(k, k−1)`, and NOTHING
    when the reflector is applied and `makeHouseholder` did not take its degenerate exit (ideal reflector: `P v = β e₁` exactly) -/
theorem francisDrop_nonfirst (hs : ∀ x : K, 0 ≤ x → F.sqrt x * F.sqrt x = x) (hs0 : ∀ x : K, 0 ≤ F.sqrt x) (hmin : 0 ≤ F.minPos)
    (il im : ℕ) (near0 : K) (fv : K × K × K) (s : TU K) (k : ℕ) (hk0 : k ≠ 0) (hne : k ≠ im) :
    francisDrop F il im near0 fv s k ≤ |@Mat.get K (scOfField F) s.t (k + 1) (k - 1)| + |@Mat.get K (scOfField F) s.t (k + 2) (k - 1)| ∧
    (F.minPos < @Mat.get K (scOfField F) s.t (k + 1) (k - 1) * @Mat.get K (scOfField F) s.t (k + 1) (k - 1) +
        @Mat.get K (scOfField F) s.t (k + 2) (k - 1) * @Mat.get K (scOfField F) s.t (k + 2) (k - 1) →
      @Sc.gt K (scOfField F) (@Sc.abs K (scOfField F) (@makeHouseholder K _ _ _ _ _ (scOfField F) (@Mat.get K (scOfField F) s.t k (k - 1))
        (@Mat.get K (scOfField F) s.t (k + 1) (k - 1)) (@Mat.get K (scOfField F) s.t (k + 2) (k - 1))).beta) near0 = true →
      francisDrop F il im near0 fv s k = 0) := by
  letI : Sc K := scOfField F
  simp only [francisDrop, if_neg hk0, if_neg hne]
  have hrefl := C09SimU.makeHouseholder_reflects F hs hs0 hmin (s.t.get k (k - 1)) (s.t.get (k + 1) (k - 1)) (s.t.get (k + 2) (k - 1))
  simp only at hrefl
  generalize makeHouseholder (s.t.get k (k - 1)) (s.t.get (k + 1) (k - 1)) (s.t.get (k + 2) (k - 1)) = q at hrefl ⊢
  by_cases happ : Sc.gt (Sc.abs q.beta) near0 = true
  · simp only [if_pos happ]
    rcases hrefl with ⟨hdeg, ht, hb⟩ | hker
    · refine ⟨?_, fun hnd _ => absurd hdeg (not_le.mpr hnd)⟩
      simp only [hhKernel, ht, hb]; simp
    · rw [hker]; simp; positivity
  · simp only [if_neg happ]
    exact ⟨le_refl _, fun _ h => absurd h happ⟩

/-- **a sweep that starts at an exact zero loses nothing at its first column**: if `T(im, im−1) = 0` (and the two entries below it,
    which are `0` for an upper Hessenberg `T`) then the first trip of the reflector loop drops nothing -/
theorem francisDrop_first_zero (il im : ℕ) (near0 : K) (fv : K × K × K) (s : TU K)
    (h0 : @Mat.get K (scOfField F) s.t im (im - 1) = 0) (h1 : @Mat.get K (scOfField F) s.t (im + 1) (im - 1) = 0)
    (h2 : @Mat.get K (scOfField F) s.t (im + 2) (im - 1) = 0) : francisDrop F il im near0 fv s im = 0 := by
  letI : Sc K := scOfField F
  by_cases hk0 : im = 0
  · simp only [francisDrop, if_pos hk0]
  · simp only [francisDrop, if_neg hk0, eq_self_iff_true, if_true, h0, h1, h2, hhKernel]
    split <;> simp

end field
end C09SS
