/-
  The accessor loops of `HermEigsBase` / `GenEigsBase` as the SOURCE has them (`Gen.Access`, regenerated from /repo on every run)
  against the list-level definitions the orchestration model uses (`Orch.convIdx`, `Orch.eigenvalues`, `Orch.eigenvectorCoords`).

  `eigenvalues()`:      Index j = 0; for (i < m_nev) if (m_ritz_conv[i]) { res[j] = m_ritz_val[i]; j++; }
  `eigenvectors(nvec)`: nvec = min(nvec, nconv); Index j = 0; for (i < m_nev && j < nvec) if (m_ritz_conv[i]) { out.col(j) = m_ritz_vec.col(i); j++; }

  Both are folds over `0..m_nev-1` with a running output index; the lemmas here say what the fold leaves behind for EVERY flag
  array, value array and `m_nev`: the output positions `0..j-1` hold the entries of the flagged indices, in increasing index order,
  nothing else is written, and `j` is the number of flagged indices (capped by `nvec` for the vectors).
  Core Lean only.
-/
import SpectraVerif.Gen.Access
import SpectraVerif.Model.Orch

namespace AccessLemmas

/-- flagged indices below `n`, increasing -/
def idx (conv : Int → Bool) (n : Nat) : List Nat := (List.range n).filter (fun i => conv (i : Int))

theorem idx_succ (conv : Int → Bool) (n : Nat) :
    idx conv (n + 1) = idx conv n ++ (if conv (n : Int) then [n] else []) := by
  unfold idx
  rw [List.range_succ, List.filter_append]
  by_cases h : conv (n : Int) <;> simp [h]

/-- one iteration of the `eigenvalues()` loop -/
def valStep {β : Type} (conv : Int → Bool) (val : Int → β) (a : (Int → β) × Int) (i : Int) : (Int → β) × Int :=
  if conv i then (upd a.1 a.2 (val i), a.2 + 1) else a

/-- one iteration of the `eigenvectors(nvec)` loop (`colsel[j] = i` records `out.col(j) = m_ritz_vec.col(i)`) -/
def colStep (conv : Int → Bool) (nvec : Int) (a : (Int → Int) × Int) (i : Int) : (Int → Int) × Int :=
  if a.2 < nvec then (if conv i then (upd a.1 a.2 i, a.2 + 1) else a) else a

theorem intRange_zero (n : Nat) : intRange 0 (n : Int) = (List.range n).map (fun (k : Nat) => (k : Int)) := by
  unfold intRange
  simp

/-- what the `eigenvalues()` fold leaves behind -/
theorem valFold_spec {β : Type} (conv : Int → Bool) (val : Int → β) (res0 : Int → β) (n : Nat) :
    let r := ((List.range n).map (fun (k : Nat) => (k : Int))).foldl (valStep conv val) (res0, 0)
    r.2 = ((idx conv n).length : Int) ∧
    ∀ x : Int, r.1 x = if 0 ≤ x ∧ x < ((idx conv n).length : Int) then val (((idx conv n).getD x.toNat 0 : Nat) : Int) else res0 x := by
  induction n with
  | zero => simp [idx]; intro x h1 h2; omega
  | succ n ih =>
    obtain ⟨ihj, ihr⟩ := ih
    rw [List.range_succ, List.map_append, List.foldl_append]
    generalize hr : ((List.range n).map (fun (k : Nat) => (k : Int))).foldl (valStep conv val) (res0, 0) = r at ihj ihr
    simp only [List.map_cons, List.map_nil, List.foldl_cons, List.foldl_nil]
    rw [idx_succ]
    by_cases hc : conv (n : Int)
    · simp only [valStep, hc, if_true, List.length_append, List.length_singleton]
      refine ⟨by rw [ihj]; push_cast; rfl, fun x => ?_⟩
      by_cases hx : x = r.2
      · subst hx
        rw [upd_same, ihj]
        have h1 : (0:Int) ≤ ((idx conv n).length : Int) ∧ ((idx conv n).length : Int) < (((idx conv n).length + 1 : Nat) : Int) := by omega
        rw [if_pos h1]
        simp
      · rw [upd_other _ _ _ _ hx, ihr x]
        rw [ihj] at hx
        by_cases hin : 0 ≤ x ∧ x < ((idx conv n).length : Int)
        · have h1 : 0 ≤ x ∧ x < (((idx conv n).length + 1 : Nat) : Int) := by omega
          rw [if_pos hin, if_pos h1]
          have : x.toNat < (idx conv n).length := by omega
          simp [List.getD_eq_getElem?_getD, List.getElem?_append_left this]
        · have h1 : ¬ (0 ≤ x ∧ x < (((idx conv n).length + 1 : Nat) : Int)) := by omega
          rw [if_neg hin, if_neg h1]
    · simp only [valStep, hc, Bool.false_eq_true, if_false, List.append_nil]
      exact ⟨ihj, ihr⟩

/-- what the `eigenvectors(nvec)` fold leaves behind -/
theorem colFold_spec (conv : Int → Bool) (nvec : Nat) (c0 : Int → Int) (n : Nat) :
    let r := ((List.range n).map (fun (k : Nat) => (k : Int))).foldl (colStep conv (nvec : Int)) (c0, 0)
    r.2 = ((min nvec (idx conv n).length : Nat) : Int) ∧
    ∀ x : Int, r.1 x = if 0 ≤ x ∧ x < ((min nvec (idx conv n).length : Nat) : Int) then (((idx conv n).getD x.toNat 0 : Nat) : Int) else c0 x := by
  induction n with
  | zero => simp [idx]; intro x h1 h2; omega
  | succ n ih =>
    obtain ⟨ihj, ihr⟩ := ih
    rw [List.range_succ, List.map_append, List.foldl_append]
    generalize hr : ((List.range n).map (fun (k : Nat) => (k : Int))).foldl (colStep conv (nvec : Int)) (c0, 0) = r at ihj ihr
    simp only [List.map_cons, List.map_nil, List.foldl_cons, List.foldl_nil]
    rw [idx_succ]
    by_cases hc : conv (n : Int)
    · by_cases hlt : r.2 < (nvec : Int)
      · simp only [colStep, hlt, hc, if_true, List.length_append, List.length_singleton]
        have hlen : (idx conv n).length < nvec := by omega
        refine ⟨by rw [ihj]; omega, fun x => ?_⟩
        by_cases hx : x = r.2
        · subst hx
          rw [upd_same, ihj]
          have e : min nvec (idx conv n).length = (idx conv n).length := by omega
          rw [e]
          have h1 : (0:Int) ≤ ((idx conv n).length : Int) ∧ ((idx conv n).length : Int) < ((min nvec ((idx conv n).length + 1) : Nat) : Int) := by omega
          rw [if_pos h1]
          simp
        · rw [upd_other _ _ _ _ hx, ihr x]
          rw [ihj] at hx
          by_cases hin : 0 ≤ x ∧ x < ((min nvec (idx conv n).length : Nat) : Int)
          · have h1 : 0 ≤ x ∧ x < ((min nvec ((idx conv n).length + 1) : Nat) : Int) := by omega
            rw [if_pos hin, if_pos h1]
            have : x.toNat < (idx conv n).length := by omega
            simp [List.getD_eq_getElem?_getD, List.getElem?_append_left this]
          · have h1 : ¬ (0 ≤ x ∧ x < ((min nvec ((idx conv n).length + 1) : Nat) : Int)) := by omega
            rw [if_neg hin, if_neg h1]
      · simp only [colStep, hlt, hc, if_true, if_false, List.length_append, List.length_singleton]
        have hlen : nvec ≤ (idx conv n).length := by omega
        have e : min nvec ((idx conv n).length + 1) = min nvec (idx conv n).length := by omega
        rw [e]
        refine ⟨ihj, fun x => ?_⟩
        rw [ihr x]
        by_cases hin : 0 ≤ x ∧ x < ((min nvec (idx conv n).length : Nat) : Int)
        · rw [if_pos hin, if_pos hin]
          have : x.toNat < (idx conv n).length := by omega
          simp [List.getD_eq_getElem?_getD, List.getElem?_append_left this]
        · rw [if_neg hin, if_neg hin]
    · have : colStep conv (nvec : Int) r (n : Int) = r := by
        simp only [colStep, hc, Bool.false_eq_true, if_false]; split <;> rfl
      rw [this]
      simp only [hc, Bool.false_eq_true, if_false, List.append_nil]
      exact ⟨ihj, ihr⟩

/-- the translated `eigenvalues()` loops are the `valStep` fold -/
theorem hermEigenvalues_loop_eq {α : Type} [Add α] [Sub α] [Mul α] [Div α] [Neg α] [Sc α]
    (nev : Nat) (conv : Int → Bool) (val res0 : Int → α) :
    Gen.Access.hermEigenvalues_loop (nev : Int) conv val res0 =
      (((intRange 0 (nev : Int)).foldl (valStep conv val) (res0, 0)).2, ((intRange 0 (nev : Int)).foldl (valStep conv val) (res0, 0)).1) := by
  unfold Gen.Access.hermEigenvalues_loop
  have : (fun (x : (Int → α) × Int) (i : Int) =>
      match x with
      | (res, j) =>
        match (if conv i = true then (upd res j (val i), j + 1) else (res, j)) with
        | (res, j) => (res, j)) = valStep conv val := by
    funext ⟨res, j⟩ i
    by_cases h : conv i <;> simp [valStep, h]
  simp only [this]

theorem genEigenvalues_loop_eq {α : Type} [Add α] [Sub α] [Mul α] [Div α] [Neg α] [Sc α]
    (nev : Nat) (conv : Int → Bool) (val res0 : Int → α × α) :
    Gen.Access.genEigenvalues_loop (nev : Int) conv val res0 =
      (((intRange 0 (nev : Int)).foldl (valStep conv val) (res0, 0)).2, ((intRange 0 (nev : Int)).foldl (valStep conv val) (res0, 0)).1) := by
  unfold Gen.Access.genEigenvalues_loop
  have : (fun (x : (Int → α × α) × Int) (i : Int) =>
      match x with
      | (res, j) =>
        match (if conv i = true then (upd res j (val i), j + 1) else (res, j)) with
        | (res, j) => (res, j)) = valStep conv val := by
    funext ⟨res, j⟩ i
    by_cases h : conv i <;> simp [valStep, h]
  simp only [this]

theorem hermEigenvectors_loop_eq (nev : Nat) (conv : Int → Bool) (nvec nconv : Nat) (c0 : Int → Int) :
    Gen.Access.hermEigenvectors_loop (nev : Int) conv (nvec : Int) (nconv : Int) c0 =
      (((min nvec nconv : Nat) : Int),
       ((intRange 0 (nev : Int)).foldl (colStep conv ((min nvec nconv : Nat) : Int)) (c0, 0)).2,
       ((intRange 0 (nev : Int)).foldl (colStep conv ((min nvec nconv : Nat) : Int)) (c0, 0)).1) := by
  unfold Gen.Access.hermEigenvectors_loop
  have hm : min (nvec : Int) (nconv : Int) = ((min nvec nconv : Nat) : Int) := by omega
  have : (fun (x : (Int → Int) × Int) (i : Int) =>
            if decide (x.snd < ((min nvec nconv : Nat) : Int)) = true then
              ((if conv i = true then (upd x.fst x.snd i, x.snd + 1) else (x.fst, x.snd)).fst,
                (if conv i = true then (upd x.fst x.snd i, x.snd + 1) else (x.fst, x.snd)).snd)
            else (x.fst, x.snd)) = colStep conv ((min nvec nconv : Nat) : Int) := by
    funext ⟨cs, j⟩ i
    by_cases h : conv i <;> by_cases h2 : j < ((min nvec nconv : Nat) : Int) <;> simp [colStep, h, h2]
  simp only [hm, this]

theorem genEigenvectors_loop_eq (nev : Nat) (conv : Int → Bool) (nvec nconv : Nat) (c0 : Int → Int) :
    Gen.Access.genEigenvectors_loop (nev : Int) conv (nvec : Int) (nconv : Int) c0 =
      Gen.Access.hermEigenvectors_loop (nev : Int) conv (nvec : Int) (nconv : Int) c0 := rfl

/-- positions `0..len-1` of an index-function read back as a list -/
theorem readback {β : Type} (l : List Nat) (g : Nat → β) (f : Int → β) (m : Nat) (hm : m ≤ l.length)
    (h : ∀ x : Int, 0 ≤ x ∧ x < (m : Int) → f x = g (l.getD x.toNat 0)) :
    (l.take m).map g = (List.range m).map (fun (t : Nat) => f (t : Int)) := by
  apply List.ext_getElem
  · simp; omega
  · intro i h1 h2
    simp only [List.length_map, List.length_take, List.length_range] at h1 h2
    simp only [List.getElem_map, List.getElem_take, List.getElem_range]
    rw [h (i : Int) (by omega)]
    simp [List.getD_eq_getElem?_getD]
    rw [List.getElem?_eq_getElem (by omega)]
    rfl

end AccessLemmas
