/-
  C02 (general nonsymmetric eigen-solvers: `GenEigsBase`, `GenEigsRealShiftSolver`, `GenEigsComplexShiftSolver`):
  the exact-arithmetic algebra behind "every pair (λ, x) handed back satisfies ‖A x − λ x‖ ≤ tol·scale, ‖x‖ = 1, and λ is in the
  spectrum of the user's A, never in the transformed spectrum".

  The matrices `A` (n×n), `V` (n×m), `H` (m×m) and the residual vector `f` of the Arnoldi relation are REAL (`R`); Ritz values `θ`
  and coefficient vectors `y` are COMPLEX.  The complex numbers are abstracted as a field `K` with a ring homomorphism
  `ι : R →+* K` (and, where conjugation is needed, `[StarRing K]` with `∀ r, star (ι r) = ι r`).

  (A1) `residual_embedded`       Ritz estimate = true residual, with real factorization and complex Ritz pair
  (A2) `residual_flag_bound`     the flag test of `num_converged` bounds the true residual (any norm/abs pair)
  (A3) `unit_norm`, `unit_norm_one`   ‖V y‖² = ‖y‖² for orthonormal real `V`
  (A4) `realshift_roundtrip_*`, `realshift_residual`    ν ↦ σ + 1/ν  inverts  λ ↦ 1/(λ − σ)
  (A5) `realshift_structural`, `sortRuleIdx_lt`, `realshift_model`   every value handed back is a back-transformed one
  (A6) `cs_*`                    the quadratic of the complex-shift solver
-/
import Mathlib.Data.Matrix.Mul
import Mathlib.LinearAlgebra.Matrix.ConjTranspose
import Mathlib.Algebra.Star.Basic
import Mathlib.Algebra.Field.Basic
import Mathlib.Algebra.Order.Field.Basic
import Mathlib.Tactic.LinearCombination
import Mathlib.Tactic.FieldSimp
import Mathlib.Tactic.Ring
import Mathlib.Tactic.Linarith
import Mathlib.Tactic.Positivity
import Mathlib.Tactic.NormNum
import Mathlib.Data.Complex.Basic
import SpectraVerif.Proofs.Spectral
import SpectraVerif.Model.Orch
import SpectraVerif.Model.GenSolver
import SpectraVerif.Proofs.SortLemmas
import SpectraVerif.Proofs.OrchLemmas

set_option linter.unusedSectionVars false
set_option linter.unusedVariables false
open Matrix

namespace C02A

/-! ## (A1), (A2): the residual of a complex Ritz pair of a real Arnoldi factorization -/

section residual
variable {n m : Type} [Fintype n] [Fintype m] [DecidableEq m] {R K : Type} [CommRing R] [Field K]

/-- the real factorization `A V = V H + f e_lastᵀ`, read in `K` through `ι` -/
theorem fac_embedded (ι : R →+* K) (A : Matrix n n R) (V : Matrix n m R) (H : Matrix m m R) (f : n → R) (last : m)
    (hfac : A * V = V * H + vecMulVec f (Pi.single last 1)) :
    A.map ι * V.map ι = V.map ι * H.map ι + vecMulVec (ι ∘ f) (Pi.single last 1) := by
  have h := congrArg (fun M : Matrix n m R => M.map ι) hfac
  simp only [Matrix.map_mul, Matrix.map_add ι (map_add ι)] at h
  rw [h]
  congr 1
  ext i j
  simp only [Matrix.map_apply, vecMulVec_apply, Function.comp_apply, Pi.single_apply, map_mul]
  split <;> simp

/-- **(A1)** `A x − θ x = y_last • f` for `x = V y`, `H y = θ y` with REAL `A, V, H, f` and COMPLEX `θ, y` -/
theorem residual_embedded (ι : R →+* K) (A : Matrix n n R) (V : Matrix n m R) (H : Matrix m m R) (f : n → R) (last : m)
    (θ : K) (y : m → K)
    (hfac : A * V = V * H + vecMulVec f (Pi.single last 1)) (hy : (H.map ι) *ᵥ y = θ • y) :
    (A.map ι) *ᵥ ((V.map ι) *ᵥ y) - θ • ((V.map ι) *ᵥ y) = y last • (ι ∘ f) :=
  Ritz.residual (A.map ι) (V.map ι) (H.map ι) (ι ∘ f) last θ y (fac_embedded ι A V H f last hfac) hy

/-- **(A2)** the flag test of `num_converged`, `|y_last| ‖f‖ < tol max(|θ|, eps23)`, bounds the TRUE residual of the pair
    `(θ, V y)`, for any norm/absolute-value pair with `‖c v‖ = |c| ‖v‖` -/
theorem residual_flag_bound {S : Type} [Mul S] [LinearOrder S] (nrm : (n → K) → S) (absK : K → S)
    (hnrm : ∀ (c : K) (v : n → K), nrm (c • v) = absK c * nrm v)
    (ι : R →+* K) (A : Matrix n n R) (V : Matrix n m R) (H : Matrix m m R) (f : n → R) (last : m)
    (θ : K) (y : m → K) (tol eps23 : S)
    (hfac : A * V = V * H + vecMulVec f (Pi.single last 1)) (hy : (H.map ι) *ᵥ y = θ • y)
    (hflag : absK (y last) * nrm (ι ∘ f) < tol * max (absK θ) eps23) :
    nrm ((A.map ι) *ᵥ ((V.map ι) *ᵥ y) - θ • ((V.map ι) *ᵥ y)) < tol * max (absK θ) eps23 := by
  rw [residual_embedded ι A V H f last θ y hfac hy, hnrm]
  exact hflag

end residual

/-! ## (A3): unit norm -/

section unitnorm
variable {n m : Type} [Fintype n] [Fintype m] [DecidableEq m] {R K : Type} [CommRing R] [Field K] [StarRing K]

/-- **(A3)** `‖V y‖² = ‖y‖²` for a real `V` with orthonormal columns and complex `y` -/
theorem unit_norm (ι : R →+* K) (hι : ∀ r, star (ι r) = ι r) (V : Matrix n m R) (hV : Vᵀ * V = 1) (y : m → K) :
    star ((V.map ι) *ᵥ y) ⬝ᵥ ((V.map ι) *ᵥ y) = star y ⬝ᵥ y := by
  have hH : (V.map ι)ᴴ = Vᵀ.map ι := by
    ext i j
    simp [conjTranspose_apply, hι]
  have h1 : Vᵀ.map ι * V.map ι = (1 : Matrix m m K) := by
    rw [← Matrix.map_mul, hV]
    ext i j
    simp [Matrix.one_apply]
  rw [star_mulVec, ← dotProduct_mulVec, mulVec_mulVec, hH, h1, one_mulVec]

/-- corollary: `‖y‖² = 1 → ‖x‖² = 1` for `x = V y` -/
theorem unit_norm_one (ι : R →+* K) (hι : ∀ r, star (ι r) = ι r) (V : Matrix n m R) (hV : Vᵀ * V = 1) (y : m → K)
    (hy : star y ⬝ᵥ y = 1) :
    star ((V.map ι) *ᵥ y) ⬝ᵥ ((V.map ι) *ᵥ y) = 1 := by
  rw [unit_norm ι hι V hV y, hy]

end unitnorm

/-! ## (A4): real shift -/

section realshift
variable {K : Type} [Field K]

/-- `ν ↦ σ + 1/ν` undoes `λ ↦ 1/(λ − σ)` -/
theorem realshift_roundtrip (σ lam : K) (h : lam - σ ≠ 0) : σ + 1 / (1 / (lam - σ)) = lam := by
  field_simp; ring

/-- `λ ↦ 1/(λ − σ)` undoes `ν ↦ σ + 1/ν` -/
theorem realshift_roundtrip' (σ ν : K) (h : ν ≠ 0) : 1 / ((σ + 1 / ν) - σ) = ν := by
  have : (σ + 1 / ν) - σ = 1 / ν := by ring
  rw [this]; field_simp

/-- the transformed value of an eigenvalue is never zero (so `1/ν` is always a division by a nonzero number in exact arithmetic) -/
theorem realshift_nu_ne_zero (σ lam : K) (h : lam - σ ≠ 0) : 1 / (lam - σ) ≠ 0 := by
  exact one_div_ne_zero h

variable {n : Type} [Fintype n] [DecidableEq n]

/-- `Spectral.shift_invert` with `1/ν` written as the code writes it: if the operator output `y = (A − σI)⁻¹ x` is `ν x + r`
    then `A x − (σ + 1/ν) x = −(1/ν) (A − σI) r` -/
theorem realshift_residual (A : Matrix n n K) (σ ν : K) (x r y : n → K) (hν : ν ≠ 0)
    (hy : y = ν • x + r) (hM : (A - σ • (1 : Matrix n n K)) *ᵥ y = x) :
    A *ᵥ x - (σ + 1 / ν) • x = -(1 / ν) • ((A - σ • (1 : Matrix n n K)) *ᵥ r) := by
  rw [one_div]
  exact Spectral.shift_invert A σ ν x r y hν hy hM

end realshift

/-! ## (A6): the quadratic of the complex-shift solver -/

section quadratic
variable {K : Type} [Field K]

/-- `(λ − σ)(λ − σ̄) = (λ − a)² + b²` for `σ = a + b i` -/
theorem cs_product (a b i lam : K) (hi : i * i = -1) :
    (lam - (a + b * i)) * (lam - (a - b * i)) = (lam - a) ^ 2 + b ^ 2 := by
  linear_combination (-(b ^ 2)) * hi

/-- `ν = ½ (1/(λ − σ) + 1/(λ − σ̄))` is the code's quadratic `ν t² − t + ν b² = 0` in `t = λ − a` -/
theorem cs_nu_iff (a b i lam ν : K) (hi : i * i = -1) (h2 : (2 : K) ≠ 0)
    (h1 : lam - (a + b * i) ≠ 0) (h1c : lam - (a - b * i) ≠ 0) :
    ν = (1 / 2) * (1 / (lam - (a + b * i)) + 1 / (lam - (a - b * i))) ↔ ν * ((lam - a) ^ 2 + b ^ 2) = lam - a := by
  have hP := cs_product a b i lam hi
  have hP0 : (lam - a) ^ 2 + b ^ 2 ≠ 0 := by rw [← hP]; exact mul_ne_zero h1 h1c
  have hsum : (1 / 2 : K) * (1 / (lam - (a + b * i)) + 1 / (lam - (a - b * i))) = (lam - a) / ((lam - a) ^ 2 + b ^ 2) := by
    rw [← hP]
    field_simp
    ring
  rw [hsum, eq_div_iff hP0]

/-- the two solutions of the quadratic are `root_part1 ± root_part2` of the C++:
    `m_sigmar + 0.5/nu ± 0.5 * sqrt(1 − 4 σi² ν²) / nu` -/
theorem cs_roots (a b lam ν s : K) (h2 : (2 : K) ≠ 0) (hν : ν ≠ 0) (hs : s * s = 1 - 4 * b ^ 2 * ν ^ 2) :
    ν * ((lam - a) ^ 2 + b ^ 2) = lam - a ↔
      lam = a + 1 / (2 * ν) + s / (2 * ν) ∨ lam = a + 1 / (2 * ν) - s / (2 * ν) := by
  have h2ν : 2 * ν ≠ 0 := mul_ne_zero h2 hν
  have h4 : (4 : K) ≠ 0 := by
    have : (4 : K) = 2 * 2 := by norm_num
    rw [this]; exact mul_ne_zero h2 h2
  have key : (2 * ν * (lam - a) - 1 - s) * (2 * ν * (lam - a) - 1 + s)
      = 4 * ν * (ν * ((lam - a) ^ 2 + b ^ 2) - (lam - a)) := by
    linear_combination (-1 : K) * hs
  constructor
  · intro h
    have h0 : (2 * ν * (lam - a) - 1 - s) * (2 * ν * (lam - a) - 1 + s) = 0 := by
      rw [key, h]; ring
    rcases mul_eq_zero.mp h0 with h' | h'
    · left
      field_simp
      linear_combination h'
    · right
      field_simp
      linear_combination h'
  · intro h
    have h0 : (2 * ν * (lam - a) - 1 - s) * (2 * ν * (lam - a) - 1 + s) = 0 := by
      rcases h with h | h
      · have : 2 * ν * (lam - a) - 1 - s = 0 := by
          rw [h]; field_simp; ring
        rw [this, zero_mul]
      · have : 2 * ν * (lam - a) - 1 + s = 0 := by
          rw [h]; field_simp; ring
        rw [this, mul_zero]
    rw [key] at h0
    have h4ν : 4 * ν ≠ 0 := mul_ne_zero h4 hν
    have := (mul_eq_zero.mp h0).resolve_left h4ν
    linear_combination this

/-- the second root as the code computes it since 0117f45 (product of the roots, no cancellation):
    `m_sigmar + (2 σi²) ν / (1 + sqrt_disc) = root_part1 − root_part2` whenever `1 + s ≠ 0` -/
theorem cs_root2_stable (a b ν s : K) (h2 : (2 : K) ≠ 0) (hν : ν ≠ 0) (hs : s * s = 1 - 4 * b ^ 2 * ν ^ 2)
    (h1s : 1 + s ≠ 0) :
    a + (2 * b * b) * ν / (1 + s) = a + 1 / (2 * ν) - s / (2 * ν) := by
  have h2ν : 2 * ν ≠ 0 := mul_ne_zero h2 hν
  have key : (2 * b * b) * ν / (1 + s) = (1 - s) / (2 * ν) := by
    rw [div_eq_div_iff h1s h2ν]
    linear_combination (1 : K) * hs
  rw [key]
  field_simp
  ring

/-- the two solutions of the quadratic in the form the code computes them since 0117f45:
    `root1 = root_part1 + root_part2`, `root2 = m_sigmar + (2 σi²) ν / (1 + sqrt_disc)` -/
theorem cs_roots_stable (a b lam ν s : K) (h2 : (2 : K) ≠ 0) (hν : ν ≠ 0) (hs : s * s = 1 - 4 * b ^ 2 * ν ^ 2)
    (h1s : 1 + s ≠ 0) :
    ν * ((lam - a) ^ 2 + b ^ 2) = lam - a ↔
      lam = a + 1 / (2 * ν) + s / (2 * ν) ∨ lam = a + (2 * b * b) * ν / (1 + s) := by
  rw [cs_root2_stable a b ν s h2 hν hs h1s]
  exact cs_roots a b lam ν s h2 hν hs

/-- `ν = 0` (the eigenvalue AT `Re σ`, the clause finding C02-resigma-cancellation violated): the code's `root2` is `Re σ` EXACTLY —
    no division by `ν` is left in it — and `Re σ` is the one and only solution of the quadratic for `ν = 0` -/
theorem cs_root2_nu_zero (a b lam s : K) :
    a + (2 * b * b) * 0 / (1 + s) = a ∧ ((0 : K) * ((lam - a) ^ 2 + b ^ 2) = lam - a ↔ lam = a) := by
  refine ⟨by simp, ?_⟩
  rw [zero_mul]
  constructor
  · intro h; exact (sub_eq_zero.mp h.symm)
  · intro h; rw [h, sub_self]

/-- Vieta with the stable second root: `(root1 − a)(root2 − a) = b²` -/
theorem cs_roots_product_stable (b ν s : K) (h2 : (2 : K) ≠ 0) (hν : ν ≠ 0) (h1s : 1 + s ≠ 0) :
    (1 / (2 * ν) + s / (2 * ν)) * ((2 * b * b) * ν / (1 + s)) = b ^ 2 := by
  field_simp

/-- Vieta for the two candidates `t₁, t₂` (`t = λ − a`): `t₁ t₂ = b²`, `t₁ + t₂ = 1/ν` -/
theorem cs_roots_product (b ν s : K) (h2 : (2 : K) ≠ 0) (hν : ν ≠ 0) (hs : s * s = 1 - 4 * b ^ 2 * ν ^ 2) :
    (1 / (2 * ν) + s / (2 * ν)) * (1 / (2 * ν) - s / (2 * ν)) = b ^ 2 ∧
    (1 / (2 * ν) + s / (2 * ν)) + (1 / (2 * ν) - s / (2 * ν)) = 1 / ν := by
  constructor
  · field_simp
    linear_combination (-1 : K) * hs
  · field_simp
    ring

/-- the polynomial identity behind `cs_residual` (scalar version): with `ν (t₁² + b²) = t₁`, `t₁ t₂ = b²`, `t₁ ≠ 0`
    (`t₁ = λ − a`, `t₂ = λ' − a`):  `ν ((t−a)² + b²) − (t−a) = ν (t − λ)(t − λ')` for all `t` -/
theorem cs_poly (a b lam lam' ν : K) (hq : ν * ((lam - a) ^ 2 + b ^ 2) = lam - a) (hp : (lam - a) * (lam' - a) = b ^ 2)
    (hl : lam - a ≠ 0) (t : K) :
    ν * ((t - a) ^ 2 + b ^ 2) - (t - a) = ν * (t - lam) * (t - lam') := by
  have hsum : ν * ((lam - a) + (lam' - a)) = 1 := by
    have : (lam - a) * (ν * ((lam - a) + (lam' - a))) = (lam - a) * 1 := by
      linear_combination hq + ν * hp
    exact mul_left_cancel₀ hl this
  linear_combination (-ν) * hp + (t - a) * hsum

/-- `ν (t₁ + t₂) = 1` follows from the quadratic and the product when `t₁ ≠ 0` -/
theorem cs_sum (a b lam lam' ν : K) (hq : ν * ((lam - a) ^ 2 + b ^ 2) = lam - a) (hp : (lam - a) * (lam' - a) = b ^ 2)
    (hl : lam - a ≠ 0) : ν * ((lam - a) + (lam' - a)) = 1 := by
  have : (lam - a) * (ν * ((lam - a) + (lam' - a))) = (lam - a) * 1 := by
    linear_combination hq + ν * hp
  exact mul_left_cancel₀ hl this

/-- behind finding F14: an eigenvalue at distance `|Im σ|` from `Re σ` on the real line is a DOUBLE root of the quadratic:
    `ν = 1/(2(λ − a))` and the discriminant `1 − 4 b² ν²` vanishes -/
theorem cs_boundary (a b lam ν : K) (h2 : (2 : K) ≠ 0) (hb : b ≠ 0) (hd : (lam - a) ^ 2 = b ^ 2)
    (hq : ν * ((lam - a) ^ 2 + b ^ 2) = lam - a) :
    ν = 1 / (2 * (lam - a)) ∧ 1 - 4 * b ^ 2 * ν ^ 2 = 0 := by
  have ht : lam - a ≠ 0 := by
    intro h
    rw [h] at hd
    exact hb (pow_eq_zero_iff (two_ne_zero) |>.mp (by rw [← hd]; ring))
  have h2t : 2 * (lam - a) ≠ 0 := mul_ne_zero h2 ht
  have hν : ν = 1 / (2 * (lam - a)) := by
    rw [eq_div_iff h2t]
    have : (lam - a) * (ν * (2 * (lam - a))) = (lam - a) * 1 := by
      linear_combination hq + ν * hd
    exact mul_left_cancel₀ ht this
  refine ⟨hν, ?_⟩
  rw [hν, ← hd]
  field_simp
  ring

/-- `cs_boundary` with `ν` given as the code's operator defines it (`σ = a + b i`); the two denominators are automatically nonzero -/
theorem cs_boundary_i (a b i lam ν : K) (hi : i * i = -1) (h2 : (2 : K) ≠ 0) (hb : b ≠ 0) (hd : (lam - a) ^ 2 = b ^ 2)
    (hν : ν = (1 / 2) * (1 / (lam - (a + b * i)) + 1 / (lam - (a - b * i)))) :
    ν = 1 / (2 * (lam - a)) ∧ 1 - 4 * b ^ 2 * ν ^ 2 = 0 := by
  have hP := cs_product a b i lam hi
  have hP0 : (lam - (a + b * i)) * (lam - (a - b * i)) ≠ 0 := by
    rw [hP, hd]
    have : b ^ 2 + b ^ 2 = 2 * b ^ 2 := by ring
    rw [this]
    exact mul_ne_zero h2 (pow_ne_zero 2 hb)
  have h1 := left_ne_zero_of_mul hP0
  have h1c := right_ne_zero_of_mul hP0
  exact cs_boundary a b lam ν h2 hb hd ((cs_nu_iff a b i lam ν hi h2 h1 h1c).mp hν)

/-- with both candidates equal (`s = 0`) they are the eigenvalue itself -/
theorem cs_boundary_roots (a b lam ν : K) (h2 : (2 : K) ≠ 0) (hb : b ≠ 0) (hd : (lam - a) ^ 2 = b ^ 2)
    (hq : ν * ((lam - a) ^ 2 + b ^ 2) = lam - a) :
    lam = a + 1 / (2 * ν) + 0 / (2 * ν) ∧ lam = a + 1 / (2 * ν) - 0 / (2 * ν) := by
  obtain ⟨hν, _⟩ := cs_boundary a b lam ν h2 hb hd hq
  have ht : lam - a ≠ 0 := by
    intro h
    rw [h] at hd
    exact hb (pow_eq_zero_iff (two_ne_zero) |>.mp (by rw [← hd]; ring))
  have h2t : 2 * (lam - a) ≠ 0 := mul_ne_zero h2 ht
  have e : 1 / (2 * ν) = lam - a := by
    rw [hν]; field_simp
  constructor
  · rw [e]; ring
  · rw [e]; ring

variable {n : Type} [Fintype n] [DecidableEq n]

/-- matrix core of `cs_residual`, in terms of `M = A − a I` and `t = λ − a`, `t' = λ' − a` with `ν (t + t') = 1`, `t t' = b²` -/
theorem cs_residual_core (M : Matrix n n K) (b ν t t' : K) (x y r : n → K) (hν : ν ≠ 0)
    (hB : (M * M + (b ^ 2) • (1 : Matrix n n K)) *ᵥ y = M *ᵥ x) (hy : y = ν • x + r)
    (hsum : ν * (t + t') = 1) (hprod : t * t' = b ^ 2) :
    (M - t' • (1 : Matrix n n K)) *ᵥ ((M - t • (1 : Matrix n n K)) *ᵥ x)
      = -ν⁻¹ • ((M * M + (b ^ 2) • (1 : Matrix n n K)) *ᵥ r) := by
  subst hy
  simp only [add_mulVec, sub_mulVec, smul_mulVec, one_mulVec, mulVec_add, mulVec_sub, mulVec_smul,
    ← mulVec_mulVec] at hB ⊢
  ext j
  have hBj := congrFun hB j
  simp only [Pi.add_apply, Pi.smul_apply, Pi.sub_apply, smul_eq_mul] at hBj ⊢
  field_simp
  linear_combination hBj + ν * (x j) * hprod - (M *ᵥ x) j * hsum

/-- **complex shift, residual**: the operator is `x ↦ y` with `B y = (A − a I) x`, `B = (A − a I)² + b² I`
    (i.e. `y = Re[(A − σI)⁻¹] x` for real `A`, `σ = a + b i`).  If `y = ν x + r` and `λ, λ'` are the two solutions of the quadratic
    (`ν ((λ − a)² + b²) = λ − a`, `(λ − a)(λ' − a) = b²`, `λ ≠ a`), then `(A − λ' I)(A − λ I) x = −(1/ν) B r`. -/
theorem cs_residual (A B : Matrix n n K) (a b ν lam lam' : K) (x y r : n → K) (hν : ν ≠ 0)
    (hBdef : B = (A - a • (1 : Matrix n n K)) * (A - a • (1 : Matrix n n K)) + (b ^ 2) • (1 : Matrix n n K))
    (hB : B *ᵥ y = (A - a • (1 : Matrix n n K)) *ᵥ x) (hy : y = ν • x + r)
    (hq : ν * ((lam - a) ^ 2 + b ^ 2) = lam - a) (hp : (lam - a) * (lam' - a) = b ^ 2) (hl : lam - a ≠ 0) :
    (A - lam' • (1 : Matrix n n K)) *ᵥ ((A - lam • (1 : Matrix n n K)) *ᵥ x) = -ν⁻¹ • (B *ᵥ r) := by
  subst hBdef
  have e1 : A - lam • (1 : Matrix n n K) = (A - a • (1 : Matrix n n K)) - (lam - a) • (1 : Matrix n n K) := by
    rw [sub_smul]; abel
  have e2 : A - lam' • (1 : Matrix n n K) = (A - a • (1 : Matrix n n K)) - (lam' - a) • (1 : Matrix n n K) := by
    rw [sub_smul]; abel
  rw [e1, e2]
  exact cs_residual_core (A - a • (1 : Matrix n n K)) b ν (lam - a) (lam' - a) x y r hν hB hy
    (cs_sum a b lam lam' ν hq hp hl) hp

/-- the code's quadratic has REAL coefficients: if `conj` is a ring endomorphism fixing `a` and `b` (complex conjugation on a field
    containing the reals) then `λ` is a root for `ν` iff... in particular `conj λ` is a root for `conj ν`.  This is why the slot that
    holds the conjugate Ritz value `conj ν` may be given `conj λ` (repair of F14: the pair test is made on `ν`). -/
theorem cs_conj (conj : K →+* K) (a b lam ν : K) (ha : conj a = a) (hb : conj b = b)
    (hq : ν * ((lam - a) ^ 2 + b ^ 2) = lam - a) :
    conj ν * ((conj lam - a) ^ 2 + b ^ 2) = conj lam - a := by
  have h := congrArg conj hq
  simpa [map_mul, map_add, map_sub, map_pow, ha, hb] using h

/-- a fixed point of the conjugation (a REAL transformed value) with a conjugation-fixed root: nothing forces the next slot to be
    related — and a real `ν` whose roots are NOT fixed (negative discriminant) has both roots `λ`, `conj λ` for the SAME `ν`: the
    partner of `λ` is the other root of the same slot, not the next slot -/
theorem cs_conj_real (conj : K →+* K) (a b lam ν : K) (ha : conj a = a) (hb : conj b = b) (hν : conj ν = ν)
    (hq : ν * ((lam - a) ^ 2 + b ^ 2) = lam - a) :
    ν * ((conj lam - a) ^ 2 + b ^ 2) = conj lam - a := by
  have h := cs_conj conj a b lam ν ha hb hq
  rwa [hν] at h

end quadratic

section ordered
variable {K : Type} [Field K] [LinearOrder K] [IsStrictOrderedRing K]

/-- behind finding F14: any over-estimate of `|ν|` beyond `1/(2|b|)` makes the discriminant negative, so the computed roots are
    a complex-conjugate pair although `λ` is real -/
theorem cs_boundary_neg (b ν' : K) (hb : b ≠ 0) (h : ν' ^ 2 > 1 / (4 * b ^ 2)) : 1 - 4 * b ^ 2 * ν' ^ 2 < 0 := by
  have hb2 : 0 < 4 * b ^ 2 := by positivity
  rw [gt_iff_lt, div_lt_iff₀ hb2] at h
  linarith

end ordered

/-! ## (A5): every value handed back is a back-transformed one (orchestration model, all kernels) -/

section structural
variable {φ ρ ε κ β τ ω : Type}

/-- the first `k` slots after `m_ritz_val.head(k) = back(m_ritz_val.head(k))` -/
theorem mapHead_map_getD (back : ρ → ρ) (k : Nat) (l : List ρ) (d : ρ) (j : Nat) (hj : j < k) (hk : k ≤ l.length) :
    (Orch.mapHead k (List.map back) l).getD j d = back (l.getD j d) := by
  have hjl : j < l.length := by omega
  have hm : j < min k l.length := by omega
  unfold Orch.mapHead
  simp [List.getD_eq_getElem?_getD, List.getElem?_append, hm, hjl]

theorem mem_convIdx_lt (c : Orch.Cfg) (s : Orch.St φ ρ ε κ) (i : Nat) (h : i ∈ Orch.convIdx c s) : i < c.nev := by
  unfold Orch.convIdx at h
  simp at h
  exact h.1

theorem realshift_structural (K : Orch.Kern φ ρ ε κ β τ ω) (c : Orch.Cfg) (back : ρ → ρ)
    (hback : K.backTransform = List.map back) (rule : Int) (s s' : Orch.St φ ρ ε κ)
    (h : Orch.sortRitz K c rule s = (s', none))
    (hlen : c.nev ≤ s.ritzVal.length) (hcfg : c.nev ≤ c.ncv)
    (hidx : ∀ vals ind, K.sortIdx rule vals c.nev = .ok ind → ∀ i < c.nev, ind.getD i 0 < c.nev) :
    ∀ v ∈ Orch.eigenvalues K c s', ∃ j < c.nev, v = back (s.ritzVal.getD j K.zeroρ) := by
  intro v hv
  unfold Orch.eigenvalues at hv
  split at hv
  · simp at hv
  · rw [List.mem_map] at hv
    obtain ⟨i, hi, rfl⟩ := hv
    have hin : i < c.nev := mem_convIdx_lt c s' i hi
    obtain ⟨ind, hind, hall⟩ := Orch.sortRitz_pairing K c hcfg rule s s' h
    have hj := hidx _ ind hind i hin
    refine ⟨ind.getD i 0, hj, ?_⟩
    rw [(hall i hin).1, hback]
    exact mapHead_map_getD back c.nev s.ritzVal K.zeroρ _ hj hlen

end structural

section concrete
variable {α : Type} [Add α] [Sub α] [Mul α] [Div α] [Neg α] [Sc α]

theorem sortEigIdx_lt (r : Int) (vals : List (GenSolver.Cx α)) (n : Nat) (i : Nat) (hi : i < n) :
    (GenSolver.sortEigIdx r vals n).getD i 0 < n := by
  unfold GenSolver.sortEigIdx
  dsimp only
  generalize (fun i j : Int =>
    Sc.lt (Gen.Sort.keyCplx r (GenSolver.clistFn vals i)) (Gen.Sort.keyCplx r (GenSolver.clistFn vals j))) = lt
  have hlen : (sortIdxList lt (n : Int)).length = n := by
    rw [SortLemmas.sortIdxList_length]; simp
  have hil : i < ((sortIdxList lt (n : Int)).map Int.toNat).length := by simp [hlen, hi]
  rw [List.getD_eq_getElem?_getD, List.getElem?_eq_getElem hil]
  simp only [Option.getD_some, List.getElem_map]
  have hmem : (sortIdxList lt (n : Int))[i]'(by omega) ∈ intRange 0 (n : Int) :=
    (SortLemmas.sortIdxList_perm lt n).mem_iff.mp (List.getElem_mem _)
  rw [mem_intRange] at hmem
  omega

theorem sortRuleIdx_lt (rule : Int) (vals : List (GenSolver.Cx α)) (n : Nat) (ind : List Nat)
    (h : GenSolver.sortRuleIdx rule vals n = .ok ind) : ∀ i < n, ind.getD i 0 < n := by
  unfold GenSolver.sortRuleIdx at h
  dsimp only at h
  split at h
  · simp at h
  · simp only [Except.ok.injEq] at h
    subst h
    intro i hi
    exact sortEigIdx_lt _ vals n i hi

theorem realshift_model (op : Arnoldi.Op α) (c : Orch.Cfg) (eps23 sigma : α) (rule : Int)
    (s s' : Orch.St (Arnoldi.State α) (GenSolver.Cx α) (GenSolver.Cx α) (Lin.Vec (GenSolver.Cx α)))
    (h : Orch.sortRitz (GenSolver.genKern op c eps23 (GenSolver.realShiftBack sigma)) c rule s = (s', none))
    (hlen : c.nev ≤ s.ritzVal.length) (hcfg : c.nev ≤ c.ncv) :
    ∀ v ∈ Orch.eigenvalues (GenSolver.genKern op c eps23 (GenSolver.realShiftBack sigma)) c s',
      ∃ j < c.nev, v = GenSolver.realShiftBack sigma (s.ritzVal.getD j GenSolver.czero) :=
  realshift_structural (GenSolver.genKern op c eps23 (GenSolver.realShiftBack sigma)) c (GenSolver.realShiftBack sigma)
    rfl rule s s' h hlen hcfg (fun vals ind hind => sortRuleIdx_lt rule vals c.nev ind hind)

end concrete

/-! ## the hypotheses are satisfiable; the intended instantiation `R = ℝ`, `K = ℂ` -/

section examples
open Complex

/-- (A1)/(A2)/(A3) at `R = ℝ`, `K = ℂ`, `ι = Complex.ofRealHom`, `star = conj` -/
example {n m : Type} [Fintype n] [Fintype m] [DecidableEq m] (A : Matrix n n ℝ) (V : Matrix n m ℝ) (H : Matrix m m ℝ)
    (f : n → ℝ) (last : m) (θ : ℂ) (y : m → ℂ)
    (hfac : A * V = V * H + vecMulVec f (Pi.single last 1)) (hy : (H.map ofRealHom) *ᵥ y = θ • y) :
    (A.map ofRealHom) *ᵥ ((V.map ofRealHom) *ᵥ y) - θ • ((V.map ofRealHom) *ᵥ y) = y last • (ofRealHom ∘ f) :=
  residual_embedded ofRealHom A V H f last θ y hfac hy

example {n m : Type} [Fintype n] [Fintype m] [DecidableEq m] (V : Matrix n m ℝ) (hV : Vᵀ * V = 1) (y : m → ℂ)
    (hy : star y ⬝ᵥ y = 1) :
    star ((V.map ofRealHom) *ᵥ y) ⬝ᵥ ((V.map ofRealHom) *ᵥ y) = 1 :=
  unit_norm_one ofRealHom (fun r => conj_ofReal r) V hV y hy

/-- the hypotheses of (A1) hold for a concrete factorization (1×1: `A = H = (2)`, `V = (1)`, `f = 0`, `θ = 2`, `y = 1`) -/
example : ∃ (A : Matrix (Fin 1) (Fin 1) ℚ) (V : Matrix (Fin 1) (Fin 1) ℚ) (H : Matrix (Fin 1) (Fin 1) ℚ) (f : Fin 1 → ℚ)
    (θ : ℚ) (y : Fin 1 → ℚ),
    A * V = V * H + vecMulVec f (Pi.single 0 1) ∧ (H.map (RingHom.id ℚ)) *ᵥ y = θ • y ∧ Vᵀ * V = 1 ∧ star y ⬝ᵥ y = 1 := by
  refine ⟨(2 : ℚ) • 1, 1, (2 : ℚ) • 1, 0, 2, fun _ => 1, ?_, ?_, ?_, ?_⟩
  · simp
  · ext i; simp [smul_mulVec, one_mulVec]
  · simp
  · simp [dotProduct]

/-- `i` exists in `ℂ`; `cs_product`, `cs_nu_iff` with `σ = 0 + 1·I`, `λ = 1` -/
example : (1 - ((0 : ℂ) + 1 * I)) * (1 - ((0 : ℂ) - 1 * I)) = (1 - 0) ^ 2 + 1 ^ 2 :=
  cs_product 0 1 I 1 I_mul_I

example : ∃ (a b i lam ν : ℂ), i * i = -1 ∧ (2 : ℂ) ≠ 0 ∧ lam - (a + b * i) ≠ 0 ∧ lam - (a - b * i) ≠ 0 ∧
    ν * ((lam - a) ^ 2 + b ^ 2) = lam - a := by
  refine ⟨0, 1, I, 1, 1 / 2, I_mul_I, two_ne_zero, ?_, ?_, by norm_num⟩
  · intro h
    have := congrArg Complex.re h
    simp at this
  · intro h
    have := congrArg Complex.re h
    simp at this

/-- `cs_roots` / `cs_roots_product` with `ν = 1/2`, `b = 0`, `s = 1`: the roots are `a + 2` and `a` -/
example (a lam : ℚ) : (1 / 2 : ℚ) * ((lam - a) ^ 2 + (0 : ℚ) ^ 2) = lam - a ↔
    lam = a + 1 / (2 * (1 / 2)) + 1 / (2 * (1 / 2)) ∨ lam = a + 1 / (2 * (1 / 2)) - 1 / (2 * (1 / 2)) :=
  cs_roots a 0 lam (1 / 2) 1 (by norm_num) (by norm_num) (by norm_num)

/-- `cs_boundary` with `a = 0`, `b = 1`, `λ = 1`, `ν = 1/2` -/
example : (1 / 2 : ℚ) = 1 / (2 * (1 - 0)) ∧ 1 - 4 * (1 : ℚ) ^ 2 * (1 / 2) ^ 2 = 0 :=
  cs_boundary 0 1 1 (1 / 2) (by norm_num) (by norm_num) (by norm_num) (by norm_num)

example : 1 - 4 * (1 : ℚ) ^ 2 * (3 / 5) ^ 2 < 0 := cs_boundary_neg 1 (3 / 5) (by norm_num) (by norm_num)

/-- `cs_residual` with `A = I`, `a = 0`, `b = 1`: `B = 2 I`, `y = x/2`, `ν = 1/2`, `r = 0`, `λ = λ' = 1` -/
example {n : Type} [Fintype n] [DecidableEq n] (x : n → ℚ) :
    ((1 : Matrix n n ℚ) - (1 : ℚ) • (1 : Matrix n n ℚ)) *ᵥ (((1 : Matrix n n ℚ) - (1 : ℚ) • (1 : Matrix n n ℚ)) *ᵥ x)
      = -(1 / 2 : ℚ)⁻¹ • ((((1 : Matrix n n ℚ) - (0 : ℚ) • 1) * ((1 : Matrix n n ℚ) - (0 : ℚ) • 1)
          + ((1 : ℚ) ^ 2) • (1 : Matrix n n ℚ)) *ᵥ (0 : n → ℚ)) := by
  refine cs_residual (1 : Matrix n n ℚ) _ 0 1 (1 / 2) 1 1 x ((1 / 2 : ℚ) • x) 0 (by norm_num) rfl ?_ (by simp)
    (by norm_num) (by norm_num) (by norm_num)
  ext j
  simp [add_mulVec, mulVec_smul]
  ring

end examples

end C02A
