/-
  C10 — block structure of m_perm after compute and index safety of solve_inplace: helper lemmas.
-/
import Mathlib.Tactic.Ring
import Mathlib.Tactic.Linarith
import SpectraVerif.Proofs.C10Solve
open Gen.BK

set_option linter.unusedSectionVars false
set_option linter.unusedVariables false
set_option linter.unusedSimpArgs false
namespace BKLDLT
section
variable {α : Type} [Add α] [Sub α] [Mul α] [Div α] [Neg α] [Sc α]

/-! ### m_perm through the factorization -/
def pfn (s : St α) (i : Int) : Int := s.perm.getD i.toNat 0

@[simp] theorem chk_perm (s : St α) (i j : Int) : (s.chk i j).perm = s.perm := rfl
@[simp] theorem get_perm (s : St α) (i j : Int) : (s.get i j).2.perm = s.perm := rfl
@[simp] theorem wr_perm (s : St α) (i j : Int) (v : α) : (s.wr i j v).perm = s.perm := rfl
@[simp] theorem wrAt_perm (s : St α) (d i j : Int) (v : α) : (s.wrAt d i j v).perm = s.perm := rfl
@[simp] theorem swap_perm (s : St α) (i1 j1 i2 j2 : Int) : (s.swap i1 j1 i2 j2).perm = s.perm := rfl
@[simp] theorem getPerm_perm (s : St α) (i : Int) : (s.getPerm i).2.perm = s.perm := rfl

theorem foldl_perm {β : Type} (f : St α → β → St α) (l : List β) (s : St α) (h : ∀ s x, (f s x).perm = s.perm) :
    (l.foldl f s).perm = s.perm := by
  induction l generalizing s with
  | nil => rfl
  | cons a l ih => simp only [List.foldl_cons]; rw [ih, h]

theorem pivoting_1x1_perm (s : St α) (k r : Int) : (pivoting_1x1 s k r).perm = s.perm.setIfInBounds k.toNat r := by
  unfold pivoting_1x1
  split
  · rfl
  · rw [foldl_perm _ _ _ (fun s x => swap_perm _ _ _ _ _), foldl_perm _ _ _ (fun s x => swap_perm _ _ _ _ _)]; rfl

theorem interchange_rows_perm (s : St α) (r1 r2 c1 c2 : Int) : (interchange_rows s r1 r2 c1 c2).perm = s.perm := by
  unfold interchange_rows
  split
  · rfl
  · exact foldl_perm _ _ _ (fun s x => swap_perm _ _ _ _ _)

theorem find_lambda_perm (s : St α) (k : Int) : (find_lambda s k).2.2.perm = s.perm := by
  unfold find_lambda
  simp only []
  apply foldl_inv (fun (acc : α × Int × St α) => acc.2.2.perm = s.perm)
  · rfl
  · rintro ⟨a, r, s'⟩ i hi h
    simp only [] at h ⊢
    split <;> simpa using h

theorem find_sigma_perm (s : St α) (k r p : Int) : (find_sigma s k r p).2.2.perm = s.perm := by
  unfold find_sigma
  have h0 : ((if r < s.n - 1 then find_lambda s r else ((Sc.ofInt (-1) : α), p, s)) : α × Int × St α).2.2.perm = s.perm := by
    split
    · exact find_lambda_perm s r
    · rfl
  generalize ((if r < s.n - 1 then find_lambda s r else ((Sc.ofInt (-1) : α), p, s)) : α × Int × St α) = init at h0
  obtain ⟨sg, p', s'⟩ := init
  simp only [] at h0 ⊢
  apply foldl_inv (fun (acc : α × Int × St α) => acc.2.2.perm = s.perm)
  · exact h0
  · rintro ⟨a, r', s''⟩ i hi h
    simp only [] at h ⊢
    split <;> simpa using h

theorem ge1_perm (s : St α) (k : Int) : (gaussian_elimination_1x1 s k).2.perm = s.perm := by
  unfold gaussian_elimination_1x1
  simp only []
  split
  · rfl
  · unfold ge1_scale ge1_update
    rw [foldl_perm _ _ _ (fun s x => by simp), foldl_perm _ _ _ (fun s x => by
      simp only []; rw [foldl_perm _ _ _ (fun s x => by simp)]; simp)]
    rfl

theorem ge2_X_perm (s : St α) (k : Int) (e11 e21 e22 : α) (ldim : Int) : (ge2_X s k e11 e21 e22 ldim).2.2.perm = s.perm := by
  unfold ge2_X
  apply foldl_inv (fun (acc : Array α × Array α × St α) => acc.2.2.perm = s.perm)
  · rfl
  · rintro ⟨a, r', s''⟩ i hi h
    simpa using h

theorem ge2_perm (s : St α) (k : Int) : (gaussian_elimination_2x2 s k).2.perm = s.perm := by
  unfold gaussian_elimination_2x2
  simp only []
  split
  · rfl
  · unfold ge2_store ge2_update
    rw [foldl_perm _ _ _ (fun s x => by simp), foldl_perm _ _ _ (fun s x => by simp), foldl_perm _ _ _ (fun s x => by
      simp only []; rw [foldl_perm _ _ _ (fun s x => by simp)]; simp), ge2_X_perm]
    rfl

theorem copy_data_perm (s : St α) (src : Array α) (rm : Bool) (uplo : Int) (shift : α) : (copy_data s src rm uplo shift).perm = s.perm := by
  unfold copy_data
  simp only []
  split
  · apply foldl_perm
    intro s j
    unfold shift_diag copy_col_fast
    simp only [wr_perm, get_perm]
    exact foldl_perm _ _ _ (fun s x => by simp)
  · apply foldl_inv (fun (acc : Int × St α) => acc.2.perm = s.perm)
    · rfl
    · rintro ⟨d, s'⟩ j hj h
      simp only [] at h ⊢
      unfold shift_diag copy_col_gen
      simp only [wr_perm, get_perm]
      apply foldl_inv (fun (acc : Int × St α) => acc.2.perm = s.perm)
      · exact h
      · rintro ⟨d', s''⟩ i hi h'
        simpa using h'

/-! ### block structure of m_perm -/
/-- `Tl pf i k`: positions `i .. k-1` are tiled by 1x1 blocks (`pf ≥ 0`) and 2x2 blocks (two consecutive negative entries) -/
inductive Tl (pf : Int → Int) : Int → Int → Prop
  | nil (i : Int) : Tl pf i i
  | one {i k : Int} : 0 ≤ pf i → Tl pf (i + 1) k → Tl pf i k
  | two {i k : Int} : pf i < 0 → pf (i + 1) < 0 → Tl pf (i + 2) k → Tl pf i k

theorem Tl.le {pf : Int → Int} {i k : Int} (h : Tl pf i k) : i ≤ k := by
  induction h with
  | nil i => exact le_refl _
  | one _ _ ih => omega
  | two _ _ _ ih => omega

theorem Tl.snoc1 {pf : Int → Int} {i k : Int} (h : Tl pf i k) (hk : 0 ≤ pf k) : Tl pf i (k + 1) := by
  induction h with
  | nil i => exact Tl.one hk (Tl.nil _)
  | one h1 _ ih => exact Tl.one h1 (ih hk)
  | two h1 h2 _ ih => exact Tl.two h1 h2 (ih hk)

theorem Tl.snoc2 {pf : Int → Int} {i k : Int} (h : Tl pf i k) (hk : pf k < 0) (hk1 : pf (k + 1) < 0) : Tl pf i (k + 2) := by
  induction h with
  | nil i => exact Tl.two hk hk1 (Tl.nil _)
  | one h1 _ ih => exact Tl.one h1 (ih hk hk1)
  | two h1 h2 _ ih => exact Tl.two h1 h2 (ih hk hk1)

theorem Tl.congr {pf pf' : Int → Int} {i k : Int} (h : Tl pf i k) (he : ∀ j, i ≤ j → j < k → pf' j = pf j) : Tl pf' i k := by
  induction h with
  | nil i => exact Tl.nil _
  | @one i k h1 ht ih =>
    have := ht.le
    exact Tl.one (by rw [he i (le_refl _) (by omega)]; exact h1) (ih (fun j h1 h2 => he j (by omega) h2))
  | @two i k h1 h2 ht ih =>
    have := ht.le
    exact Tl.two (by rw [he i (le_refl _) (by omega)]; exact h1) (by rw [he (i + 1) (by omega) (by omega)]; exact h2)
      (ih (fun j h1 h2 => he j (by omega) h2))

/-- the same tiling read from the right end (what the backward substitution walks) -/
inductive Pre (pf : Int → Int) : Int → Prop
  | zero : Pre pf 0
  | one {k : Int} : Pre pf k → 0 ≤ pf k → Pre pf (k + 1)
  | two {k : Int} : Pre pf k → pf k < 0 → pf (k + 1) < 0 → Pre pf (k + 2)

theorem Pre.nonneg {pf : Int → Int} {k : Int} (h : Pre pf k) : 0 ≤ k := by
  induction h with
  | zero => exact le_refl _
  | one _ _ ih => omega
  | two _ _ _ ih => omega

theorem Pre.congr {pf pf' : Int → Int} {k : Int} (h : Pre pf k) (he : ∀ j, 0 ≤ j → j < k → pf' j = pf j) : Pre pf' k := by
  induction h with
  | zero => exact Pre.zero
  | @one k hp h1 ih =>
    have := hp.nonneg
    exact Pre.one (ih (fun j a b => he j a (by omega))) (by rw [he k this (by omega)]; exact h1)
  | @two k hp h1 h2 ih =>
    have := hp.nonneg
    exact Pre.two (ih (fun j a b => he j a (by omega))) (by rw [he k this (by omega)]; exact h1) (by rw [he (k + 1) (by omega) (by omega)]; exact h2)

/-- inversion at the right end -/
theorem Pre.inv {pf : Int → Int} {j : Int} (h : Pre pf j) (hj : 1 ≤ j) :
    (0 ≤ pf (j - 1) ∧ Pre pf (j - 1)) ∨ (2 ≤ j ∧ pf (j - 1) < 0 ∧ pf (j - 2) < 0 ∧ Pre pf (j - 2)) := by
  cases h with
  | zero => omega
  | @one k hp h1 => left; simpa using ⟨h1, hp⟩
  | @two k hp h1 h2 =>
    right
    have := hp.nonneg
    refine ⟨by omega, ?_, ?_, ?_⟩
    · have e : k + 2 - 1 = k + 1 := by ring
      rw [e]; exact h2
    · have e : k + 2 - 2 = k := by ring
      rw [e]; exact h1
    · have e : k + 2 - 2 = k := by ring
      rw [e]; exact hp

theorem getD_set (p : Array Int) (k v j : Int) (hk : 0 ≤ k) (hs : k.toNat < p.size) (hj : 0 ≤ j) :
    (p.setIfInBounds k.toNat v).getD j.toNat 0 = if j = k then v else p.getD j.toNat 0 := by
  simp only [Array.getD_eq_getD_getElem?, Array.getElem?_setIfInBounds]
  by_cases h : j = k
  · subst h; simp [hs]
  · have : k.toNat ≠ j.toNat := by omega
    simp [h, this]

theorem pivoting_2x2_pfn (s : St α) (k r p : Int) (hk : 0 ≤ k) (hs : (k + 1).toNat < s.perm.size) :
    (pivoting_2x2 s k r p).perm.size = s.perm.size ∧
    pfn (pivoting_2x2 s k r p) k = -p - 1 ∧ pfn (pivoting_2x2 s k r p) (k + 1) = -r - 1 ∧
    ∀ j, 0 ≤ j → j ≠ k → j ≠ k + 1 → pfn (pivoting_2x2 s k r p) j = pfn s j := by
  have hs0 : k.toNat < s.perm.size := by omega
  have hk1 : (0 : Int) ≤ k + 1 := by omega
  unfold pivoting_2x2
  simp only [pfn, St.setPerm, St.getPerm, swap_perm, pivoting_1x1_perm, Array.size_setIfInBounds]
  refine ⟨trivial, ?_, ?_, ?_⟩
  · rw [getD_set _ _ _ _ hk1 (by simp [hs]) hk, if_neg (by omega), getD_set _ _ _ _ hk (by simp [hs0]) hk, if_pos rfl,
      getD_set _ _ _ _ hk1 (by simp [hs]) hk, if_neg (by omega), getD_set _ _ _ _ hk (by simp [hs0]) hk, if_pos rfl]
  · rw [getD_set _ _ _ _ hk1 (by simp [hs]) hk1, if_pos rfl, getD_set _ _ _ _ hk (by simp [hs0]) hk1, if_neg (by omega),
      getD_set _ _ _ _ hk1 (by simp [hs]) hk1, if_pos rfl]
  · intro j hj h1 h2
    rw [getD_set _ _ _ _ hk1 (by simp [hs]) hj, if_neg h2, getD_set _ _ _ _ hk (by simp [hs0]) hj, if_neg h1,
      getD_set _ _ _ _ hk1 (by simp [hs]) hj, if_neg h2, getD_set _ _ _ _ hk (by simp [hs0]) hj, if_neg h1]

/-- invariant of the pivot loop on `m_perm`: tiled up to the current position `k`, untouched (identity, in particular ≥ 0) from `k` on -/
def PInv (n k : Int) (s : St α) : Prop :=
  s.perm.size = n.toNat ∧ Tl (pfn s) 0 k ∧ Pre (pfn s) k ∧ (∀ i, k ≤ i → i < n → 0 ≤ pfn s i) ∧
  (∀ i, 0 ≤ i → i < n → -n ≤ pfn s i ∧ pfn s i < n)

theorem PInv.of_perm {n k : Int} {s s' : St α} (h : PInv n k s) (e : s'.perm = s.perm) : PInv n k s' := by
  unfold PInv pfn at *; rw [e]; exact h

theorem PInv.step1 {n k : Int} {s s' : St α} (h : PInv n k s) (hk : 0 ≤ k) (hkn : k < n) (hsz : s'.perm.size = s.perm.size)
    (hpre : ∀ j, 0 ≤ j → j ≠ k → pfn s' j = pfn s j) (hk0 : 0 ≤ pfn s' k) (hv : pfn s' k < n) : PInv n (k + 1) s' := by
  obtain ⟨h1, h2, h3, h4, h5⟩ := h
  refine ⟨by rw [hsz, h1], ?_, ?_, ?_, ?_⟩
  rotate_left 3
  · intro i hi hin
    by_cases e : i = k
    · subst e; omega
    · rw [hpre i hi e]; exact h5 i hi hin
  · exact (h2.congr (fun j a b => hpre j a (by omega))).snoc1 hk0
  · exact Pre.one (h3.congr (fun j a b => hpre j a (by omega))) hk0
  · intro i hi hin; rw [hpre i (by omega) (by omega)]; exact h4 i (by omega) hin

theorem PInv.step2 {n k : Int} {s s' : St α} (h : PInv n k s) (hk : 0 ≤ k) (hkn : k + 1 < n) (hsz : s'.perm.size = s.perm.size)
    (hpre : ∀ j, 0 ≤ j → j ≠ k → j ≠ k + 1 → pfn s' j = pfn s j) (hk0 : pfn s' k < 0) (hk1 : pfn s' (k + 1) < 0)
    (hv0 : -n ≤ pfn s' k) (hv1 : -n ≤ pfn s' (k + 1)) : PInv n (k + 2) s' := by
  obtain ⟨h1, h2, h3, h4, h5⟩ := h
  refine ⟨by rw [hsz, h1], ?_, ?_, ?_, ?_⟩
  rotate_left 3
  · intro i hi hin
    by_cases e : i = k
    · subst e; omega
    · by_cases e' : i = k + 1
      · subst e'; omega
      · rw [hpre i hi e e']; exact h5 i hi hin
  · exact (h2.congr (fun j a b => hpre j a (by omega) (by omega))).snoc2 hk0 hk1
  · exact Pre.two (h3.congr (fun j a b => hpre j a (by omega) (by omega))) hk0 hk1
  · intro i hi hin; rw [hpre i (by omega) (by omega) (by omega)]; exact h4 i (by omega) hin

theorem permutate_mat_pinv {n : Int} {s : St α} {k : Int} {alpha : α} (h : Good n s) (hp : PInv n k s) (hk : 0 ≤ k) (hk1 : k + 1 < n) :
    ((permutate_mat s k alpha).1 = true → PInv n (k + 1) (permutate_mat s k alpha).2.2) ∧
    ((permutate_mat s k alpha).1 = false → PInv n (k + 2) (permutate_mat s k alpha).2.2) := by
  have hsz := hp.1
  have hsame : ∀ s' : St α, s'.perm = s.perm → PInv n (k + 1) s' := fun s' e =>
    hp.step1 hk (by omega) (by rw [e]) (fun j _ _ => by unfold pfn; rw [e]) (by unfold pfn; rw [e]; exact hp.2.2.2.1 k (le_refl _) (by omega)) (by unfold pfn; rw [e]; exact (hp.2.2.2.2 k hk (by omega)).2)
  unfold permutate_mat
  obtain ⟨hl, hr1, hr2⟩ := find_lambda_good h hk hk1
  have hlp := find_lambda_perm s k
  generalize find_lambda s k = fl at hl hr1 hr2 hlp
  obtain ⟨lam, r, s1⟩ := fl
  simp only [] at hl hr1 hr2 hlp ⊢
  split
  · have hg := good_get (i := k) (j := k) hl ⟨hk, le_refl _, by omega⟩
    split
    · obtain ⟨hs, hp1, hp2⟩ := find_sigma_good (p := k) hg hk (by omega) hr2 (le_refl _) (by omega)
      have hsp := find_sigma_perm (s1.get k k).2 k r k
      generalize find_sigma (s1.get k k).2 k r k = fs at hs hp1 hp2 hsp
      obtain ⟨sg, p, s2⟩ := fs
      simp only [get_perm] at hs hp1 hp2 hsp ⊢
      have e2 : s2.perm = s.perm := by rw [hsp, hlp]
      split
      · split
        · refine ⟨fun _ => ?_, fun hc => by simp at hc⟩
          have e3 : (interchange_rows (pivoting_1x1 (s2.get r r).2 k r) k r 0 (k - 1)).perm = s.perm.setIfInBounds k.toNat r := by
            rw [interchange_rows_perm, pivoting_1x1_perm, get_perm, e2]
          refine hp.step1 hk (by omega) (by rw [e3]; simp) (fun j hj hne => ?_) ?_ ?_
          · unfold pfn; rw [e3, getD_set _ _ _ _ hk (by omega) hj, if_neg hne]
          · unfold pfn; rw [e3, getD_set _ _ _ _ hk (by omega) hk, if_pos rfl]; omega
          · unfold pfn; rw [e3, getD_set _ _ _ _ hk (by omega) hk, if_pos rfl]; omega
        · refine ⟨fun hc => by simp at hc, fun _ => ?_⟩
          have hq := pivoting_2x2_pfn (s2.get r r).2 k r k hk (by rw [get_perm, e2, hsz]; omega)
          rw [get_perm, e2] at hq
          have e3 : ∀ j, pfn (interchange_rows (interchange_rows (pivoting_2x2 (s2.get r r).2 k r k) k k 0 (k - 1)) (k + 1) r 0 (k - 1)) j = pfn (pivoting_2x2 (s2.get r r).2 k r k) j := by
            intro j; unfold pfn; rw [interchange_rows_perm, interchange_rows_perm]
          refine hp.step2 hk hk1 (by rw [interchange_rows_perm, interchange_rows_perm]; exact hq.1) (fun j hj h1 h2 => ?_) ?_ ?_ ?_ ?_
          · rw [e3, hq.2.2.2 j hj h1 h2]; unfold pfn; rw [get_perm, e2]
          · rw [e3, hq.2.1]; omega
          · rw [e3, hq.2.2.1]; omega
          · rw [e3, hq.2.1]; omega
          · rw [e3, hq.2.2.1]; omega
      · exact ⟨fun _ => hsame _ e2, fun hc => by simp at hc⟩
    · exact ⟨fun _ => hsame _ (by rw [get_perm, hlp]), fun hc => by simp at hc⟩
  · exact ⟨fun _ => hsame _ hlp, fun hc => by simp at hc⟩

theorem computeLoop_pinv {n : Int} {alpha : α} (fuel : Nat) (k info : Int) (s : St α) (tags : List Nat)
    (h : Good n s) (hp : PInv n k s) (hk : 0 ≤ k) (hkn : k ≤ n) :
    ∃ kb, 0 ≤ kb ∧ kb ≤ n ∧ PInv n kb (computeLoop alpha fuel k info s tags).2.2.1 := by
  induction fuel generalizing k info s tags with
  | zero => exact ⟨k, hk, hkn, hp⟩
  | succ fuel ih =>
    unfold computeLoop
    split
    · rename_i hlt
      rw [h.1] at hlt
      have hg := permutate_mat_good (alpha := alpha) h hk (by omega)
      have hq := permutate_mat_pinv (alpha := alpha) h hp hk (by omega)
      generalize permutate_mat s k alpha = pm at hg hq
      obtain ⟨is1, tag, s1⟩ := pm
      simp only [] at hg hq ⊢
      cases is1
      · have hg2 := ge2_good hg hk (by omega)
        have hp2 : PInv n (k + 2) (gaussian_elimination_2x2 s1 k).2 := (hq.2 rfl).of_perm (ge2_perm s1 k)
        simp only [Bool.false_eq_true, if_false]
        split
        · exact ⟨k + 2, by omega, by omega, hp2⟩
        · have e : k + 1 + 1 = k + 2 := by ring
          exact ih _ _ _ _ hg2 (by rw [e]; exact hp2) (by omega) (by omega)
      · have hg1 := ge1_good hg hk (by omega)
        have hp1 : PInv n (k + 1) (gaussian_elimination_1x1 s1 k).2 := (hq.1 rfl).of_perm (ge1_perm s1 k)
        simp only [if_true]
        split
        · exact ⟨k + 1, by omega, by omega, hp1⟩
        · exact ih _ _ _ _ hg1 hp1 (by omega) (by omega)
    · exact ⟨k, hk, hkn, hp⟩

theorem PInv.extend {n : Int} {s : St α} (m : Nat) (k : Int) (h : PInv n k s) (hk : 0 ≤ k) (hkn : k + m = n) : PInv n n s := by
  induction m generalizing k with
  | zero =>
    have e : k = n := by simpa using hkn
    subst e; exact h
  | succ m ih =>
    have hlt : k < n := by push_cast at hkn; omega
    exact ih (k + 1) (h.step1 hk hlt rfl (fun _ _ _ => rfl) (h.2.2.2.1 k (le_refl _) hlt) (h.2.2.2.2 k hk hlt).2) (by omega) (by push_cast at hkn ⊢; omega)

theorem initSt_pfn (n i : Int) (hi : 0 ≤ i) (hin : i < n) : pfn (initSt (α := α) n) i = i := by
  unfold pfn initSt
  simp only [Array.getD_eq_getD_getElem?, Array.getElem?_map, Array.getElem?_range]
  have : i.toNat < n.toNat := by omega
  simp [this]; omega

theorem initSt_pinv (n : Int) : PInv n 0 (initSt (α := α) n) := by
  refine ⟨by simp [initSt], Tl.nil 0, Pre.zero, ?_, ?_⟩
  · intro i hi hin; rw [initSt_pfn n i hi hin]; exact hi
  · intro i hi hin; rw [initSt_pfn n i hi hin]; omega

/-- the block structure of `m_perm` after `compute` -/
theorem compute_pinv (src : Array α) (rm : Bool) (n uplo : Int) (shift alpha : α) (hn : 0 ≤ n) :
    PInv n n (compute src rm n uplo shift alpha).s := by
  unfold compute
  have h1 : Good n (copy_data (initSt n) src rm uplo shift) := copy_data_good (initSt_good n)
  have p1 : PInv n 0 (copy_data (initSt n) src rm uplo shift) := (initSt_pinv n).of_perm (copy_data_perm _ _ _ _ _)
  obtain ⟨kb, hk0, hkn, hpk⟩ := computeLoop_pinv (alpha := alpha) n.toNat 0 (compute_init_info NotComputed) _ [] h1 p1 (le_refl _) hn
  dsimp only
  generalize computeLoop alpha n.toNat 0 (compute_init_info NotComputed) (copy_data (initSt n) src rm uplo shift) [] = cl at hpk ⊢
  obtain ⟨k, info, s, tags⟩ := cl
  dsimp only at hpk ⊢
  have hfin : PInv n n s := hpk.extend (n - kb).toNat kb hk0 (by omega)
  split
  · exact hfin.of_perm (by simp)
  · exact hfin

/-! ### solve_inplace -/
/-- solve state: legal so far, and `m_perm` is the fixed array `p` (solve never writes it) -/
def GV (n : Int) (p : Array Int) (v : Sv α) : Prop := Good n v.s ∧ v.s.perm = p

theorem gv_xget {n : Int} {p : Array Int} {v : Sv α} {i : Int} (h : GV n p v) (hi : 0 ≤ i ∧ i < n) : GV n p (v.xget i).2 := by
  obtain ⟨⟨hn, hok⟩, hp⟩ := h
  refine ⟨⟨hn, ?_⟩, hp⟩
  simp only [Sv.xget, hok, hn, Bool.true_and]; exact inr_iff.2 hi
theorem gv_xset {n : Int} {p : Array Int} {v : Sv α} {i : Int} {a : α} (h : GV n p v) (hi : 0 ≤ i ∧ i < n) : GV n p (v.xset i a) := by
  obtain ⟨⟨hn, hok⟩, hp⟩ := h
  refine ⟨⟨hn, ?_⟩, hp⟩
  simp only [Sv.xset, hok, hn, Bool.true_and]; exact inr_iff.2 hi
theorem gv_cget {n : Int} {p : Array Int} {v : Sv α} {i j : Int} (h : GV n p v) (hi : 0 ≤ j ∧ j ≤ i ∧ i < n) : GV n p (v.cget i j).2 :=
  ⟨good_chk h.1 hi, h.2⟩
theorem gv_pget {n : Int} {p : Array Int} {v : Sv α} {i : Int} (h : GV n p v) (hi : 0 ≤ i ∧ i < n) :
    GV n p (v.pget i).2 ∧ (v.pget i).1 = p.getD i.toNat 0 := by
  refine ⟨⟨good_getPerm h.1 hi, h.2⟩, ?_⟩
  simp only [Sv.pget, St.getPerm, h.2]
theorem gv_xswap {n : Int} {p : Array Int} {v : Sv α} {a b : Int} (h : GV n p v) (ha : 0 ≤ a ∧ a < n) (hb : 0 ≤ b ∧ b < n) : GV n p (v.xswap a b) := by
  simp only [Sv.xswap]
  exact gv_xset (gv_xset (gv_xget (gv_xget h ha) hb) ha) hb

theorem applyPermc_gv {n : Int} {p : Array Int} {v : Sv α} (pc : List (Int × Int)) (h : GV n p v)
    (hpc : ∀ ab ∈ pc, 0 ≤ ab.1 ∧ ab.1 < n ∧ 0 ≤ ab.2 ∧ ab.2 < n) : GV n p (applyPermc v pc) := by
  unfold applyPermc
  apply foldl_inv (GV n p) _ _ _ h
  intro v ab hab hv
  have := hpc ab hab
  exact gv_xswap hv ⟨this.1, this.2.1⟩ ⟨this.2.2.1, this.2.2.2⟩

theorem fwdLoop_gv {n : Int} {p : Array Int} (fuel : Nat) (i e : Int) (v : Sv α) (h : GV n p v) (hi : 0 ≤ i) (he : e ≤ n - 2) :
    GV n p (fwdLoop fuel i e v) := by
  induction fuel generalizing i v with
  | zero => exact h
  | succ fuel ih =>
    unfold fwdLoop
    split
    · rename_i hie
      have hpg := gv_pget h ⟨hi, by omega⟩
      try dsimp only
      generalize v.pget i = pg at hpg ⊢
      obtain ⟨pi, v1⟩ := pg
      try dsimp only at hpg ⊢
      have hn1 : v.s.n = n := h.1.1
      split
      · apply ih _ _ _ (by omega)
        apply foldl_inv (GV n p) _ _ _ (gv_xget hpg.1 ⟨hi, by omega⟩)
        intro w t ht hw
        have ht' := mem_intRange.1 ht
        rw [hn1] at ht'
        exact gv_xset (gv_xget (gv_cget hw ⟨hi, by omega, by omega⟩) ⟨by omega, by omega⟩) ⟨by omega, by omega⟩
      · apply ih _ _ _ (by omega)
        apply foldl_inv (GV n p) _ _ _ (gv_xget (gv_xget hpg.1 ⟨hi, by omega⟩) ⟨by omega, by omega⟩)
        intro w t ht hw
        have ht' := mem_intRange.1 ht
        rw [hn1] at ht'
        exact gv_xset (gv_xget (gv_cget (gv_cget hw ⟨hi, by omega, by omega⟩) ⟨by omega, by omega, by omega⟩) ⟨by omega, by omega⟩) ⟨by omega, by omega⟩
    · exact h

theorem diagLoop_gv {n : Int} {p : Array Int} (fuel : Nat) (i : Int) (v : Sv α) (h : GV n p v) (hi : 0 ≤ i)
    (ht : Tl (fun j => p.getD j.toNat 0) i n) : GV n p (diagLoop fuel i v) := by
  induction fuel generalizing i v with
  | zero => exact h
  | succ fuel ih =>
    unfold diagLoop
    split
    · rename_i hin
      rw [h.1.1] at hin
      have hc := gv_cget (i := i) (j := i) h ⟨hi, le_refl _, hin⟩
      have hpg := gv_pget hc ⟨hi, hin⟩
      try dsimp only
      generalize (v.cget i i).2.pget i = pg at hpg ⊢
      obtain ⟨pi, v1⟩ := pg
      try dsimp only at hpg ⊢
      split
      · rename_i hpos
        have ht' : Tl (fun j => p.getD j.toNat 0) (i + 1) n := by
          cases ht with
          | nil => omega
          | one _ h2 => exact h2
          | two h1 _ _ => have h1' : p.getD i.toNat 0 < 0 := h1
                          rw [hpg.2] at hpos; omega
        exact ih _ _ (gv_xset (gv_xget hpg.1 ⟨hi, hin⟩) ⟨hi, hin⟩) (by omega) ht'
      · rename_i hneg
        have ht' : Tl (fun j => p.getD j.toNat 0) (i + 2) n := by
          cases ht with
          | nil => omega
          | one h1 _ => have h1' : 0 ≤ p.getD i.toNat 0 := h1
                        rw [hpg.2] at hneg; omega
          | two _ _ h3 => exact h3
        have hle := ht'.le
        have a1 := gv_cget (i := i + 1) (j := i) hpg.1 ⟨hi, by omega, by omega⟩
        have a2 := gv_cget (i := i + 1) (j := i + 1) a1 ⟨by omega, le_refl _, by omega⟩
        have a3 := gv_xget (i := i) a2 ⟨hi, hin⟩
        have a4 := gv_xget (i := i + 1) a3 ⟨by omega, by omega⟩
        exact ih _ _ (gv_xset (gv_xset a4 ⟨hi, hin⟩) ⟨by omega, by omega⟩) (by omega) ht'
    · exact h

theorem colDot_gv {n : Int} {p : Array Int} {v : Sv α} {i j ldim : Int} (h : GV n p v) (hj : 0 ≤ j) (hji : j ≤ i + 1) (hl : i + 1 + ldim ≤ n) :
    GV n p (colDot v i j ldim).2 := by
  unfold colDot
  split
  · exact h
  · dsimp only
    refine foldl_inv (fun (acc : α × Sv α) => GV n p acc.2) _ _ _ ?_ ?_
    · exact gv_xget (gv_cget h ⟨hj, hji, by omega⟩) ⟨by omega, by omega⟩
    rintro ⟨sm, w⟩ t ht hw
    have ht' := mem_intRange.1 ht
    exact gv_xget (gv_cget hw ⟨hj, by omega, by omega⟩) ⟨by omega, by omega⟩

theorem bwdLoop_gv {n : Int} {p : Array Int} (fuel : Nat) (i : Int) (v : Sv α) (h : GV n p v) (hin : i ≤ n - 2)
    (hpre : Pre (fun j => p.getD j.toNat 0) (i + 1)) : GV n p (bwdLoop fuel i v) := by
  induction fuel generalizing i v with
  | zero => exact h
  | succ fuel ih =>
    unfold bwdLoop
    split
    · rename_i hi0
      have hn1 : v.s.n = n := h.1.1
      rw [hn1]
      have c1 := colDot_gv (i := i) (j := i) (ldim := n - i - 1) h hi0 (by omega) (by omega)
      try dsimp only
      generalize colDot v i i (n - i - 1) = cd at c1 ⊢
      obtain ⟨d, v1⟩ := cd
      try dsimp only at c1 ⊢
      have hpg := gv_pget (i := i) (gv_xset (a := (v1.xget i).1 - d) (gv_xget c1 ⟨hi0, by omega⟩) ⟨hi0, by omega⟩) ⟨hi0, by omega⟩
      try dsimp only
      generalize ((v1.xget i).2.xset i ((v1.xget i).1 - d)).pget i = pg at hpg ⊢
      obtain ⟨pi, v2⟩ := pg
      try dsimp only at hpg ⊢
      rcases hpre.inv (by omega) with ⟨h1, h2⟩ | ⟨h0, h1, h2, h3⟩
      · have e1 : i + 1 - 1 = i := by ring
        rw [e1] at h1 h2
        have h1' : 0 ≤ p.getD i.toNat 0 := h1
        rw [if_neg (by rw [hpg.2]; omega)]
        exact ih _ _ hpg.1 (by omega) (by rw [show i - 1 + 1 = i by ring]; exact h2)
      · have e1 : i + 1 - 1 = i := by ring
        have e2 : i + 1 - 2 = i - 1 := by ring
        rw [e1] at h1; rw [e2] at h2 h3
        have h1' : p.getD i.toNat 0 < 0 := h1
        rw [if_pos (by rw [hpg.2]; omega)]
        have c2 := colDot_gv (i := i) (j := i - 1) (ldim := n - i - 1) hpg.1 (by omega) (by omega) (by omega)
        try dsimp only
        generalize colDot v2 i (i - 1) (n - i - 1) = cd2 at c2 ⊢
        obtain ⟨d2, v3⟩ := cd2
        try dsimp only at c2 ⊢
        exact ih _ _ (gv_xset (gv_xget c2 ⟨by omega, by omega⟩) ⟨by omega, by omega⟩) (by omega) (by rw [show i - 2 + 1 = i - 1 by ring]; exact h3)
    · exact h

theorem solve_good (src : Array α) (rm : Bool) (n uplo : Int) (shift alpha : α) (b : Array α) (hn : 1 ≤ n) :
    (solve_inplace (compute src rm n uplo shift alpha) b).s.ok = true := by
  have hg := compute_good src rm n uplo shift alpha
  have hp := compute_pinv src rm n uplo shift alpha (by omega)
  generalize hf : compute src rm n uplo shift alpha = f at hg hp
  have hpc : ∀ ab ∈ f.permc, 0 ≤ ab.1 ∧ ab.1 < n ∧ 0 ≤ ab.2 ∧ ab.2 < n := by
    have : f.permc = compress_permutation (fun i => f.s.perm.getD i.toNat 0) n := by
      rw [← hf]; unfold compute; rfl
    rw [this]
    apply permc_in_range
    intro i hi hin
    have := hp.2.2.2.2 i hi hin
    unfold pfn at this
    by_cases h0 : 0 ≤ f.s.perm.getD i.toNat 0
    · left; omega
    · right; omega
  have hpcr : ∀ ab ∈ f.permc.reverse, 0 ≤ ab.1 ∧ ab.1 < n ∧ 0 ≤ ab.2 ∧ ab.2 < n := fun ab h => hpc ab (List.mem_reverse.1 h)
  have htl : Tl (fun j => f.s.perm.getD j.toNat 0) 0 n := hp.2.1
  have hpre : Pre (fun j => f.s.perm.getD j.toNat 0) n := hp.2.2.1
  unfold solve_inplace
  rw [hg.1]
  have v0 : GV n f.s.perm ({ x := b, s := f.s } : Sv α) := ⟨hg, rfl⟩
  have v1 := applyPermc_gv f.permc v0 hpc
  have v2 := gv_pget (i := n - 1) v1 ⟨by omega, by omega⟩
  try dsimp only
  generalize (applyPermc ({ x := b, s := f.s } : Sv α) f.permc).pget (n - 1) = pg at v2 ⊢
  obtain ⟨pl, w1⟩ := pg
  try dsimp only at v2 ⊢
  have v3 := fwdLoop_gv n.toNat 0 (if pl < 0 then n - 3 else n - 2) w1 v2.1 (le_refl _) (by split <;> omega)
  have v4 := diagLoop_gv n.toNat 0 _ v3 (le_refl _) htl
  have v5 := gv_pget (i := n - 1) v4 ⟨by omega, by omega⟩
  try dsimp only
  generalize (diagLoop n.toNat 0 (fwdLoop n.toNat 0 (if pl < 0 then n - 3 else n - 2) w1)).pget (n - 1) = pg2 at v5 ⊢
  obtain ⟨pl2, w2⟩ := pg2
  try dsimp only at v5 ⊢
  have hstart : Pre (fun j => f.s.perm.getD j.toNat 0) ((if pl2 < 0 then n - 3 else n - 2) + 1) := by
    rcases hpre.inv (by omega) with ⟨h1, h2⟩ | ⟨h0, h1, h2, h3⟩
    · have h1' : 0 ≤ f.s.perm.getD (n - 1).toNat 0 := h1
      rw [if_neg (by rw [v5.2]; omega)]
      rw [show n - 2 + 1 = n - 1 by ring]; exact h2
    · have h1' : f.s.perm.getD (n - 1).toNat 0 < 0 := h1
      rw [if_pos (by rw [v5.2]; omega)]
      rw [show n - 3 + 1 = n - 2 by ring]; exact h3
  have v6 := bwdLoop_gv n.toNat (if pl2 < 0 then n - 3 else n - 2) w2 v5.1 (by split <;> omega) hstart
  exact (applyPermc_gv f.permc.reverse v6 hpcr).1.2

end
end BKLDLT
