/-
  C07 at the level of the executable model: the implicit restart of `HermSolver.restartFac` (shift loop on `H`, `compress_H`,
  `compress_V`) is ONE C07 `compress` step with the accumulated `Q`, after which `Lanczos.factorize_from(k, ncv)` runs
  (helper file of Properties/C07.lean and of the C01 discharge files).

  Generic in the scalar instance (`ExactSc`); what the QR helper guarantees about the accumulated `(H⁺, Q)` enters as the
  hypotheses `QRFacts` (discharged for `TridiagQR` at `scOfField F` by `C01DT.shiftLoop_spec`, Proofs/C01DischargeTqr.lean).
-/
import SpectraVerif.Proofs.C07ModelRun
import SpectraVerif.Model.HermSolver
import SpectraVerif.Proofs.SortLemmas

set_option linter.unusedSectionVars false
set_option linter.unusedVariables false
open Finset Lin

namespace C07L
open C07 C01E

section defs
variable {K : Type} [Add K] [Sub K] [Mul K] [Div K] [Neg K] [Sc K]

/-- the `(H, Q)` part of the shift loop of `HermSolver.restartFac` -/
def shiftLoopG (shifts : List K) (H Q : Mat K) : Mat K × Mat K :=
  shifts.foldl (fun acc mu =>
    let d := QRModel.TridiagQR.compute acc.1 mu
    (d.matrix_QtHQ, d.apply_YQ acc.2)) (H, Q)

theorem shift_fold (shifts : List K) : ∀ (s : Arnoldi.State K) (Q : Mat K),
    shifts.foldl (fun (acc : Arnoldi.State K × Mat K) mu =>
      let decomp := QRModel.TridiagQR.compute acc.1.H mu
      let Q := decomp.apply_YQ acc.2
      (Arnoldi.compress_H acc.1 decomp.matrix_QtHQ 1, Q)) (s, Q)
    = ({ s with H := (shiftLoopG shifts s.H Q).1, k := s.k - shifts.length }, (shiftLoopG shifts s.H Q).2) := by
  induction shifts with
  | nil => intro s Q; cases s; rfl
  | cons mu l ih =>
    intro s Q
    simp only [List.foldl_cons, shiftLoopG]
    rw [ih]
    simp only [Arnoldi.compress_H, shiftLoopG, List.length_cons, Nat.sub_sub]
    congr 2
    omega

/-- the state handed to `factorize_from(k, ncv)` inside `restartFac` -/
def restartMid (op : Arnoldi.Op K) (ncv k : ℕ) (vals : List K) (s : Arnoldi.State K) : Arnoldi.State K :=
  Arnoldi.compress_V op
    { s with H := (shiftLoopG (HermSolver.restartShifts ncv k vals) s.H (Mat.identity ncv)).1,
             k := s.k - (HermSolver.restartShifts ncv k vals).length }
    (shiftLoopG (HermSolver.restartShifts ncv k vals) s.H (Mat.identity ncv)).2

theorem restartFac_eq (op : Arnoldi.Op K) (ncv k : ℕ) (vals : List K) (s : Arnoldi.State K) :
    HermSolver.restartFac op ncv k vals s =
      match Lanczos.factorize_from op (restartMid op ncv k vals s) k ncv with
      | some s3 => ⟨s3, s3.ops - s.ops, none⟩
      | none => ⟨restartMid op ncv k vals s, 0,
          some (.invalidArgument "Arnoldi: from_k is larger than the current subspace dimension")⟩ := by
  unfold HermSolver.restartFac restartMid
  simp only []
  rw [shift_fold]
  rfl

end defs
end C07L

namespace C07L
open C07 C01E
section
variable {K : Type} [Field K] [LinearOrder K] [IsStrictOrderedRing K] [Sc K] (E : ExactSc K)
include E

/-- what the QR helper guarantees about the accumulated pair `(H⁺, Q)` of `m − k` single shifts (C08): `H⁺` symmetric
    tridiagonal, `H Q = Q H⁺`, `QᵀQ = I`, `Q` of lower bandwidth `m − k` -/
structure QRFacts (m k : ℕ) (H Hp Q : Mat K) : Prop where
  HpW : C08Mat.WF Hp
  Hpr : Hp.rows = m
  Hpc : Hp.cols = m
  tri : ∀ i j, i < m → j < m → (i + 1 < j ∨ j + 1 < i) → Hp.get i j = 0
  sym : ∀ i j, i < m → j < m → Hp.get i j = Hp.get j i
  hHQ : ∀ i j, i < m → j < m → ∑ a ∈ range m, H.get i a * Q.get a j = ∑ b ∈ range m, Q.get i b * Hp.get b j
  orth : ∀ i j, i < m → j < m → ∑ a ∈ range m, Q.get a i * Q.get a j = if i = j then 1 else 0
  band : ∀ a b, a < m → b < m → b + (m - k) < a → Q.get a b = 0

omit E in
theorem on_congr {n : ℕ} (V V' : ℕ → Fin n → K) (k : ℕ) (h : ∀ j, j < k → V' j = V j) (hON : ON (dotIP n) V k) : ON (dotIP n) V' k := by
  intro i hi j hj; rw [h i hi, h j hj]; exact hON i hi j hj

omit E in
theorem fo_congr {n : ℕ} (V V' : ℕ → Fin n → K) (f f' : Fin n → K) (k : ℕ) (h : ∀ j, j < k → V' j = V j) (hf : f' = f)
    (hFO : FO (dotIP n) V f k) : FO (dotIP n) V' f' k := by
  intro j hj; rw [h j hj, hf]; exact hFO j hj

/-- **`compress_H` + `compress_V` with the accumulated `Q` is the C07 compress step**: from the invariant at full dimension `m`
    to the invariant at dimension `k` -/
theorem compress_passInv (n m : ℕ) (A : (Fin n → K) →ₗ[K] (Fin n → K)) (op : Arnoldi.Op K) (hop : OpOK n op A)
    (s : Arnoldi.State K) (k : ℕ) (hI : PassInv n m A s m) (hk0 : 0 < k) (hkm : k < m) (Hp Q : Mat K)
    (hq : QRFacts m k s.H Hp Q) :
    PassInv n m A (Arnoldi.compress_V op { s with H := Hp, k := k } Q) k := by
  set s1 : Arnoldi.State K := { s with H := Hp, k := k } with hs1
  set s2 := Arnoldi.compress_V op s1 Q with hs2
  have h0 := E.ofInt0
  have hkm1 : s1.k < s1.m := by show k < s.m; rw [hI.hm]; exact hkm
  set Vn := colOf n s.V with hVn
  set Qf : ℕ → ℕ → K := fun a b => Q.get a b with hQf
  -- columns 0..k of the new basis
  have hcols : ∀ j, j < k + 1 → colOf n s2.V j = mulQ Vn Qf m j := by
    intro j hj
    funext r
    have hr : r.val < s1.n := by show r.val < s.n; rw [hI.hn]; exact r.isLt
    simp only [colOf, mulQ, Finset.sum_apply, Pi.smul_apply, smul_eq_mul, hVn, hQf]
    rcases Nat.lt_succ_iff_lt_or_eq.mp hj with hlt | heq
    · rw [hs2, C07R.compress_V_col h0 op s1 Q r.val j hr hlt hkm1]
      have hb := sum_band (𝕜 := K) (E := K) (fun a => s.V.get r.val a) (fun a => Q.get a j) m (m - k + j + 1) (by omega)
        (fun a ha ham => hq.band a j ham (by omega) (by omega))
      simp only [smul_eq_mul] at hb
      rw [hb]
      show ∑ x ∈ range (s.m - k + j + 1), _ = _
      rw [hI.hm]
      apply sum_congr rfl; intro a _; exact mul_comm _ _
    · rw [heq, hs2]
      have := C07R.compress_V_colk h0 op s1 Q r.val hr hkm1
      show (Arnoldi.compress_V op s1 Q).V.get r.val s1.k = _
      rw [this]
      show ∑ x ∈ range s.m, _ = _
      rw [hI.hm]
      apply sum_congr rfl; intro a _; exact mul_comm _ _
  have hf : vecOf n s2.f = Qf (m - 1) (k - 1) • vecOf n s.f + Hp.get k (k - 1) • mulQ Vn Qf m k := by
    funext r
    have hr : r.val < s1.n := by show r.val < s.n; rw [hI.hn]; exact r.isLt
    have := C07R.compress_V_f h0 op s1 Q r.val hr hkm1
    simp only [vecOf, Pi.add_apply, Pi.smul_apply, smul_eq_mul, mulQ, Finset.sum_apply, hVn, hQf, colOf]
    rw [hs2, this]
    show vget s.f r.val * Q.get (s.m - 1) (k - 1) + (∑ j ∈ range s.m, s.V.get r.val j * Q.get j k) * Hp.get k (k - 1) = _
    rw [hI.hm]
    have e : ∑ j ∈ range m, s.V.get r.val j * Q.get j k = ∑ j ∈ range m, Q.get j k * s.V.get r.val j := by
      apply sum_congr rfl; intro a _; exact mul_comm _ _
    rw [e]; ring
  -- the abstract compress step
  have hKE := compress_general A Vn (maskH m s.H) (fun a b => Hp.get a b) Qf (vecOf n s.f) m k (fun _ => 0) hk0 hkm
    ((kry_iff_kryE _ _ _ _ _).mp hI.kry)
    (by
      intro i hi j hj
      rw [← hq.hHQ i j hi (by omega)]
      apply sum_congr rfl
      intro a ha
      have h1 : (i < m ∧ a < m) ∨ (i = m ∧ a + 1 = m) := Or.inl ⟨hi, mem_range.mp ha⟩
      rw [maskH_apply, if_pos h1])
    (by intro b j hjb hj hb; exact hq.tri b j hb (by omega) (Or.inr hjb))
    (by intro j hj; exact hq.band (m - 1) j (by omega) (by omega) (by omega))
  have hK : Kry A (mulQ Vn Qf m) (fun a b => Hp.get a b)
      (Qf (m - 1) (k - 1) • vecOf n s.f + Hp.get k (k - 1) • mulQ Vn Qf m k) k := by
    rw [kry_iff_kryE]
    simp only [smul_zero, sum_const_zero] at hKE
    exact hKE
  have hQo : ∀ i, i < k + 1 → ∀ j, j < k + 1 → ∑ a ∈ range m, (dotIP n).conj (Qf a i) * Qf a j = if i = j then 1 else 0 := by
    intro i hi j hj
    simp only [dotIP, RingHom.id_apply, hQf]
    exact hq.orth i j (by omega) (by omega)
  have hONp : ON (dotIP n) (mulQ Vn Qf m) (k + 1) := compress_on (dotIP n) Vn Qf m (k + 1) hI.on hQo
  have hFOp := compress_fo (dotIP n) Vn Qf (vecOf n s.f) m k (Qf (m - 1) (k - 1)) (Hp.get k (k - 1)) hI.fo hONp
  have hlead : ∀ a b, a < k → b < k → maskH k Hp a b = Hp.get a b := by
    intro a b ha hb
    have h1 : (a < k ∧ b < k) ∨ (a = k ∧ b + 1 = k) := Or.inl ⟨ha, hb⟩
    rw [maskH_apply, if_pos h1]
  have hfs : s2.f.size = n := by
    rw [hs2]; show (vofFn s1.n _).size = n
    rw [C07R.size_vofFn]; exact hI.hn
  have hnorm : s2.beta = Lin.norm s2.f := by
    rw [hs2]; show op.norm _ = _
    unfold Arnoldi.Op.norm; rw [hop.B]; rfl
  obtain ⟨nb0, nbsq⟩ := norm_vec E n s2.f hfs
  refine ⟨hI.hn, hI.hm, ?_, ?_, ?_, hq.HpW, hq.Hpr, hq.Hpc, by omega, ?_, ?_, ?_, ?_, ?_, ?_, ?_, hI.eps0⟩
  · rw [hs2]; exact C08Mat.ofFn_WF _ _ _
  · rw [hs2]; show s1.n = n; exact hI.hn
  · rw [hs2]; show s1.m = m; exact hI.hm
  · exact kry_congr A _ _ _ _ _ _ k (fun j hj => hcols j (by omega)) hlead hf hK
  · exact on_congr _ _ k (fun j hj => hcols j (by omega)) (on_mono _ _ k (k + 1) (by omega) hONp)
  · exact fo_congr _ _ _ _ k (fun j hj => hcols j (by omega)) hf hFOp
  · rw [hnorm]; exact nb0
  · rw [hnorm]; exact nbsq
  · constructor
    · intro i j hi hj hij
      show maskH k Hp i j = 0
      rw [hlead i j hi hj]; exact hq.tri i j (by omega) (by omega) (by omega)
    · intro i j hi hj
      show maskH k Hp i j = maskH k Hp j i
      rw [hlead i j hi hj, hlead j i hj hi]; exact hq.sym i j (by omega) (by omega)
  · intro a b ha hb _ hoff
    exact hq.tri a b ha hb hoff

end
end C07L

namespace C07L
open C07 C01E
section
variable {K : Type} [Field K] [LinearOrder K] [IsStrictOrderedRing K] [Sc K] (E : ExactSc K)
include E

omit E in
theorem restartShifts_length (ncv k : ℕ) (vals : List K) : (HermSolver.restartShifts ncv k vals).length = ncv - k := by
  unfold HermSolver.restartShifts
  simp only [List.length_map]
  rw [SortLemmas.sortIdxList_length]
  simp

/-- **The whole `HermSolver.restartFac(k)` from a full factorization**: one C07 compress step (`compress_passInv`) followed by the
    `m − k` extend steps of `factorize_from(k, m)` (`factorize_run`); never throws; ends at dimension `m` with the loop invariant. -/
theorem restart_run (n m : ℕ) (A : (Fin n → K) →ₗ[K] (Fin n → K)) (op : Arnoldi.Op K) (hop : OpOK n op A)
    (hsa : ∀ x y, dotProduct x (A y) = dotProduct (A x) y)
    (s : Arnoldi.State K) (k : ℕ) (vals : List K) (hI : PassInv n m A s m) (hsk : s.k = m) (hk0 : 0 < k) (hkm : k < m)
    (hq : QRFacts m k s.H (shiftLoopG (HermSolver.restartShifts m k vals) s.H (Mat.identity m)).1
      (shiftLoopG (HermSolver.restartShifts m k vals) s.H (Mat.identity m)).2)
    (hreg : Regular op ((restartMid op m k vals s).eps * Sc.sqrt (Sc.ofInt ((restartMid op m k vals s).n : Int)))
      (Sc.sqrt (restartMid op m k vals s).eps) (m - k) k (cleanH (restartMid op m k vals s) k)) :
    ∃ s3 : Arnoldi.State K, HermSolver.restartFac op m k vals s = ⟨s3, s3.ops - s.ops, none⟩ ∧ s3.k = m ∧
      s3.near0 = s.near0 ∧ s3.eps = s.eps ∧ PassInv n m A s3 s3.k ∧
      PassInv n m A (restartMid op m k vals s) k ∧
      ∃ l : List (Step K (Fin n → K)), l.length = m - k ∧
        allOk A (absAt n k (cleanH (restartMid op m k vals s) k)) l ∧
        allExact A (absAt n k (cleanH (restartMid op m k vals s) k)) l ∧
        allOrthOk (dotIP n) A (absAt n k (cleanH (restartMid op m k vals s) k)) l ∧
        absAt n s3.k s3 = C07.run A (absAt n k (cleanH (restartMid op m k vals s) k)) l := by
  have hlen := restartShifts_length m k vals
  have hkk : (restartMid op m k vals s).k = k := by
    show s.k - (HermSolver.restartShifts m k vals).length = k
    rw [hlen, hsk]; omega
  have hmid : PassInv n m A (restartMid op m k vals s) k := by
    have := compress_passInv E n m A op hop s k hI hk0 hkm _ _ hq
    unfold restartMid
    rw [show s.k - (HermSolver.restartShifts m k vals).length = k by rw [hlen, hsk]; omega]
    exact this
  have hmid' : PassInv n m A (restartMid op m k vals s) (restartMid op m k vals s).k := by rw [hkk]; exact hmid
  obtain ⟨s3, hfac, h3k, h3n, h3e, h3I, l, hl, aok, aex, aorth, hrun⟩ :=
    factorize_run E n m A op hop hsa (restartMid op m k vals s) m hmid' (by rw [hkk]; exact hk0) (by rw [hkk]; exact hkm) (le_refl m)
      (by rw [hkk]; exact hreg)
  rw [hkk] at hfac hl aok aex aorth hrun
  refine ⟨s3, ?_, h3k, h3n, h3e, h3I, hmid, l, hl, aok, aex, aorth, hrun⟩
  rw [restartFac_eq, hfac]

end
end C07L
