/-
  C08 helper lemmas, part 1: the local algebra of one plane rotation / one reflector as the models write them
  (`QRModel.rotT`, `rotG`, `TridiagQR.qthqLocal`, `DoubleShiftQR.firstCol*`), over any field `K` with the exact-arithmetic
  scalar instance `scOfField F`.
-/
import Mathlib.Tactic.Ring
import Mathlib.Tactic.Linarith
import Mathlib.Tactic.LinearCombination
import Mathlib.Tactic.FinCases
import Mathlib.Data.Matrix.Mul
import Mathlib.LinearAlgebra.Matrix.Notation
import Mathlib.Data.Fin.VecNotation
import Mathlib.Algebra.BigOperators.Fin
import SpectraVerif.Proofs.ScField
import SpectraVerif.Model.HessQR
import SpectraVerif.Model.TridiagQR
import SpectraVerif.Model.DoubleShiftQR

set_option linter.unusedSectionVars false

namespace C08Local
open QRModel

variable {K : Type} [Field K] [LinearOrder K] [IsStrictOrderedRing K] (F : FieldFns K)

/-- `rotT` / `rotG` use only `+ - *` and unary minus: the lemmas hold in the field for every choice of `F` (`F` is carried only
    for uniformity with the statements about `Sc`-dependent definitions) -/
abbrev rT (_F : FieldFns K) (c s x y : K) : K × K := rotT c s x y
abbrev rG (_F : FieldFns K) (c s x y : K) : K × K := rotG c s x y

theorem rT_eq (c s x y : K) : rT F c s x y = (c * x - s * y, s * x + c * y) := rfl
theorem rG_eq (c s x y : K) : rG F c s x y = (c * x + s * y, -s * x + c * y) := rfl

/-- one rotation applied to two pairs scales their inner product by `c² + s²` -/
theorem rT_inner (c s x y u v : K) :
    (rT F c s x y).1 * (rT F c s u v).1 + (rT F c s x y).2 * (rT F c s u v).2 = (c * c + s * s) * (x * u + y * v) := by
  simp only [rT_eq]; ring

theorem rG_inner (c s x y u v : K) :
    (rG F c s x y).1 * (rG F c s u v).1 + (rG F c s x y).2 * (rG F c s u v).2 = (c * c + s * s) * (x * u + y * v) := by
  simp only [rG_eq]; ring

/-- `G (G' p) = (c² + s²) p` -/
theorem rG_rT (c s x y : K) :
    rG F c s (rT F c s x y).1 (rT F c s x y).2 = ((c * c + s * s) * x, (c * c + s * s) * y) := by
  simp only [rT_eq, rG_eq]; ext <;> simp <;> ring

theorem rT_rG (c s x y : K) :
    rT F c s (rG F c s x y).1 (rG F c s x y).2 = ((c * c + s * s) * x, (c * c + s * s) * y) := by
  simp only [rT_eq, rG_eq]; ext <;> simp <;> ring

/-- `G' (x, y)ᵀ = (r, 0)ᵀ` exactly when the pair annihilates and reproduces `r` -/
theorem rT_annihilate (c s x y r : K) (h0 : s * x + c * y = 0) (hr : c * x - s * y = r) : rT F c s x y = (r, 0) := by
  simp only [rT_eq, h0, hr]

/-! ### TridiagQR: the closed formulas are the entries of `Gᵀ T G` -/

abbrev qloc (c s x y z : K) : K × K × K := @TridiagQR.qthqLocal K _ _ _ (scOfField F) c s x y z

theorem qloc_eq (c s x y z : K) :
    qloc F c s x y z = (c * c * x - 2 * c * s * y + s * s * z, c * s * (x - z) + (c * c - s * s) * y, s * s * x + 2 * c * s * y + c * c * z) := by
  simp only [qloc, TridiagQR.qthqLocal, ScF.ofInt]; norm_num

/-- the 3x3 window of the symmetric tridiagonal matrix and the rotation acting on its first two rows/columns -/
def T3 (x y z w u : K) : Matrix (Fin 3) (Fin 3) K := !![x, y, 0; y, z, w; 0, w, u]
def G3 (c s : K) : Matrix (Fin 3) (Fin 3) K := !![c, s, 0; -s, c, 0; 0, 0, 1]

/-- `x', y', z', o' = -s w, w' = c w, u' = u` are exactly the entries of `Gᵀ T G` -/
theorem qthq_window (c s x y z w u : K) :
    (G3 c s).transpose * T3 x y z w u * G3 c s =
      !![(qloc F c s x y z).1, (qloc F c s x y z).2.1, -s * w;
         (qloc F c s x y z).2.1, (qloc F c s x y z).2.2, c * w;
         -s * w, c * w, u] := by
  rw [qloc_eq]
  ext i j
  fin_cases i <;> fin_cases j <;>
    simp [T3, G3, Matrix.mul_apply, Fin.sum_univ_three, Matrix.transpose_apply] <;> ring

/-- the second update of the subdiagonal entry, `y'' = c₁ y' - s₁ o'`, is the `(1,0)` entry after the next rotation acts from
    the left on rows 1, 2; the entry `(2,0)` becomes `s₁ y' + c₁ o'`, which the code takes to be `0` (true when the rotations
    are those of the QR factorization: that is `rT_annihilate` for the next step) -/
theorem qthq_next (c1 s1 y' o' : K) : rT F c1 s1 y' o' = (c1 * y' - s1 * o', s1 * y' + c1 * o') := rfl

/-! ### DoubleShiftQR: first column of `H² - sH + tI` for an upper Hessenberg `H` (any size) -/

abbrev fc0 (_F : FieldFns K) (x00 x01 x10 s t : K) : K := DoubleShiftQR.firstCol0 x00 x01 x10 s t
abbrev fc1 (_F : FieldFns K) (x00 x10 x11 s : K) : K := DoubleShiftQR.firstCol1 x00 x10 x11 s
abbrev fc2 (_F : FieldFns K) (x21 x10 : K) : K := DoubleShiftQR.firstCol2 x21 x10

theorem first_col_hessenberg {n : Nat} (H : Matrix (Fin (n + 3)) (Fin (n + 3)) K)
    (hH : ∀ i j : Fin (n + 3), j.val + 1 < i.val → H i j = 0) (s t : K) (i : Fin (n + 3)) :
    (H * H - s • H + t • (1 : Matrix (Fin (n + 3)) (Fin (n + 3)) K)) i 0 =
      if i.val = 0 then fc0 F (H 0 0) (H 0 1) (H 1 0) s t
      else if i.val = 1 then fc1 F (H 0 0) (H 1 0) (H 1 1) s
      else if i.val = 2 then fc2 F (H 2 1) (H 1 0) else 0 := by
  have hsum : (H * H) i 0 = H i 0 * H 0 0 + H i 1 * H 1 0 := by
    rw [Matrix.mul_apply]
    apply Fintype.sum_eq_add (0 : Fin (n + 3)) 1 (by intro h; have := congrArg Fin.val h; simp at this)
    intro k hk
    have hk2 : 2 ≤ k.val := by
      rcases hk with ⟨h0, h1⟩
      have : k.val ≠ 0 := fun h => h0 (Fin.ext h)
      have : k.val ≠ 1 := fun h => h1 (Fin.ext h)
      omega
    rw [hH k 0 (by simp; omega)]; ring
  have v1 : ((1 : Fin (n + 3)) : Nat) = 1 := by simp
  have v2 : ((2 : Fin (n + 3)) : Nat) = 2 := Fin.val_two
  simp only [Matrix.add_apply, Matrix.sub_apply, Matrix.smul_apply, smul_eq_mul, hsum, Matrix.one_apply,
    fc0, fc1, fc2, DoubleShiftQR.firstCol0, DoubleShiftQR.firstCol1, DoubleShiftQR.firstCol2]
  by_cases h0 : i.val = 0
  · have hi : i = 0 := Fin.ext h0
    rw [if_pos h0, hi]; simp only [eq_self_iff_true, if_true]; ring
  have hne : i ≠ 0 := fun h => h0 (by rw [h]; rfl)
  by_cases h1 : i.val = 1
  · have hi : i = 1 := Fin.ext (by rw [v1]; exact h1)
    rw [if_neg h0, if_pos h1, if_neg hne, hi]; ring
  by_cases h2 : i.val = 2
  · have hi : i = 2 := Fin.ext (by rw [v2]; exact h2)
    have z : H i 0 = 0 := hH i 0 (by simp; omega)
    rw [if_neg h0, if_neg h1, if_pos h2, if_neg hne, z, hi]; ring
  · have hi : 3 ≤ i.val := by omega
    have z0 : H i 0 = 0 := hH i 0 (by simp; omega)
    have z1 : H i 1 = 0 := hH i 1 (by rw [v1]; omega)
    rw [if_neg h0, if_neg h1, if_neg h2, if_neg hne, z0, z1]; ring

/-- if the unit reflector `P = I − 2uuᵀ` maps `x` to `κ e₁` (what `compute_reflector` guarantees, `κ = ρ‖x‖`), then the first
    column of `P` is `x / κ`:  `κ · P e₁ = x`, i.e. `P e₁ ∥ x` -/
theorem refl_first_col {K : Type} [Field K] (u0 u1 u2 x1 x2 x3 κ : K) (hu : u0 * u0 + u1 * u1 + u2 * u2 = 1)
    (h1 : x1 - 2 * (u0 * x1 + u1 * x2 + u2 * x3) * u0 = κ)
    (h2 : x2 - 2 * (u0 * x1 + u1 * x2 + u2 * x3) * u1 = 0)
    (h3 : x3 - 2 * (u0 * x1 + u1 * x2 + u2 * x3) * u2 = 0) :
    κ * (1 - 2 * u0 * u0) = x1 ∧ κ * (-(2 * u0 * u1)) = x2 ∧ κ * (-(2 * u0 * u2)) = x3 := by
  have hd : 2 * (u0 * x1 + u1 * x2 + u2 * x3) = -(2 * κ * u0) := by
    linear_combination (-2 * u0) * h1 + (-2 * u1) * h2 + (-2 * u2) * h3 + (-4 * (u0 * x1 + u1 * x2 + u2 * x3)) * hu
  refine ⟨?_, ?_, ?_⟩
  · rw [hd] at h1; linear_combination (-1 : K) * h1
  · rw [hd] at h2; linear_combination (-1 : K) * h2
  · rw [hd] at h3; linear_combination (-1 : K) * h3

end C08Local
