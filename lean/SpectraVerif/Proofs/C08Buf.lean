/-
  C08 helper: decidable predicates over the regenerated argument footprint `Gen.QRBuf` (how UpperHessenbergQR / TridiagQR /
  DoubleShiftQR address their matrix / vector arguments).  The property theorems (`c08_dest_initialised`,
  `c08_apply_stride_aware`, `c08_dsqr_stride_calls`) are closed facts about these finite tables, decided by the kernel.
-/
import SpectraVerif.Gen.QRBuf

namespace C08Buf
open Gen.QRBuf

/-- one use of an output parameter -/
structure Use where
  cls : String
  sig : String       -- method with its parameter types
  param : String
  ptype : String     -- parameter type as written
  member : String    -- member the parameter is accessed through (`noalias=`: whole-object assignment)
  args : String
  guards : String    -- conditions of the enclosing if-branches, "" = unconditional
  inLoop : Bool
  deriving DecidableEq

/-- the regenerated table as records -/
def uses : List Use := paramUses.map (fun t => ⟨t.1, t.2.1, t.2.2.1, t.2.2.2.1, t.2.2.2.2.1, t.2.2.2.2.2.1, t.2.2.2.2.2.2.1, t.2.2.2.2.2.2.2⟩)

/-- executed on every call: under no `if`, in no loop -/
def Use.top (u : Use) : Bool := u.guards == "" && !u.inLoop

def usesOf (cls sig : String) : List Use := uses.filter (fun u => u.cls == cls && u.sig == sig)

/-- the destination is given its size AND a value for every entry before anything else is done with it, whatever it held:
    either the first use is an unconditional whole-object assignment `dest.noalias() = M` (Eigen resizes the destination of an
    assignment), or an unconditional `dest.resize(m_n, m_n)` immediately followed by an unconditional `dest.setZero()` /
    whole-object assignment -/
def destInit : List Use → Bool
  | a :: b :: _ => (a.top && a.member == "noalias=") ||
                   (a.top && a.member == "resize" && a.args == "m_n, m_n" && b.top && (b.member == "setZero" || b.member == "noalias="))
  | [a] => a.top && a.member == "noalias="
  | [] => false

/-- the methods that have an owning matrix output parameter -/
def destMethods : List (String × String) :=
  ((uses.filter (fun u => u.ptype == "Matrix &" || u.ptype == "ComplexMatrix &")).map (fun u => (u.cls, u.sig))).eraseDups

/-- accessors of an `Eigen::Ref` that take its outer stride into account -/
def strideAware (m : String) : Bool :=
  ["rows", "cols", "row", "col", "coeff", "coeffRef", "block", "operator", "outerStride", "innerStride"].contains m

/-- the two private pointer-walking helpers of DoubleShiftQR (they receive the stride as an explicit argument: `strideCalls`) -/
def isStrideHelper (u : Use) : Bool :=
  u.cls == "DoubleShiftQR" && (u.sig == "apply_PX(GenericMatrix, Index, Index)" || u.sig == "apply_XP(GenericMatrix, Index, Index)")

def hqrApplySigs : List String :=
  ["apply_QY(Vector &)", "apply_QtY(Vector &)", "apply_QY(GenericMatrix)", "apply_QtY(GenericMatrix)", "apply_YQ(GenericMatrix)", "apply_YQt(GenericMatrix)"]

end C08Buf
