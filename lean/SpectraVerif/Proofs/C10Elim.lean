/-
  C10 — what one elimination step of the model stores, entry by entry (read-over-write reasoning on the packed array).
-/
import Mathlib.Tactic.Ring
import Mathlib.Tactic.Linarith
import SpectraVerif.Proofs.C10Index
open Gen.BK

set_option linter.unusedSectionVars false
set_option linter.unusedVariables false
set_option linter.unusedSimpArgs false
namespace BKLDLT
section
variable {α : Type} [Add α] [Sub α] [Mul α] [Div α] [Neg α] [Sc α]

/-- distinct legal index pairs have distinct packed offsets -/
theorem off_inj {n i j i' j' : Int} (h : 0 ≤ j ∧ j ≤ i ∧ i < n) (h' : 0 ≤ j' ∧ j' ≤ i' ∧ i' < n) (e : off n i j = off n i' j') : i = i' ∧ j = j' := by
  have key : ∀ {a b c d : Int}, 0 ≤ b → b ≤ a → a < n → 0 ≤ d → d ≤ c → c < n → b < d → off n a b < off n c d := by
    intro a b c d hb hba han hd hdc hcn hbd
    have m := colptr_mono n (b + 1) (d - (b + 1)).toNat (by omega) (by omega)
    have e1 : b + 1 + ((d - (b + 1)).toNat : Int) = d := by omega
    rw [e1, colptr_succ] at m
    unfold off; omega
  rcases lt_trichotomy j j' with hlt | heq | hgt
  · have := key h.1 h.2.1 h.2.2 h'.1 h'.2.1 h'.2.2 hlt; omega
  · subst heq; unfold off at e; exact ⟨by omega, rfl⟩
  · have := key h'.1 h'.2.1 h'.2.2 h.1 h.2.1 h.2.2 hgt; omega

/-- the state has size `n` and `m_data` has `n(n+1)/2` entries -/
def Sized (n : Int) (s : St α) : Prop := s.n = n ∧ s.data.size = (packedSize n).toNat

theorem sized_wr {n : Int} {s : St α} {i j : Int} {v : α} (h : Sized n s) : Sized n (s.wr i j v) := by
  refine ⟨h.1, ?_⟩; simp only [St.wr, Array.size_setIfInBounds]; exact h.2
theorem sized_get {n : Int} {s : St α} {i j : Int} (h : Sized n s) : Sized n (s.get i j).2 := h
@[simp] theorem rd_get (s : St α) (i j i' j' : Int) : (s.get i j).2.rd i' j' = s.rd i' j' := rfl
@[simp] theorem get_fst (s : St α) (i j : Int) : (s.get i j).1 = s.rd i j := rfl

theorem rd_wr {n : Int} {s : St α} {i j i' j' : Int} {v : α} (hs : Sized n s) (h : 0 ≤ j ∧ j ≤ i ∧ i < n) (h' : 0 ≤ j' ∧ j' ≤ i' ∧ i' < n) :
    (s.wr i j v).rd i' j' = if i' = i ∧ j' = j then v else s.rd i' j' := by
  have b := off_bounds h
  have b' := off_bounds h'
  simp only [St.rd, St.wr, hs.1, Array.getD_eq_getD_getElem?, Array.getElem?_setIfInBounds]
  by_cases hc : i' = i ∧ j' = j
  · obtain ⟨rfl, rfl⟩ := hc
    have : (off n i' j').toNat < s.data.size := by rw [hs.2]; omega
    simp [this]
  · have : (off n i j).toNat ≠ (off n i' j').toNat := by
      intro e
      have := off_inj h h' (by omega)
      exact hc ⟨this.1.symm, this.2.symm⟩
    simp [this, hc]

/-- what `ge1_update` stores: the Schur-complement entries `B(i,j) − (conj(l_j)/akk)·l_i` in the columns right of `k` -/
def upd1 (s : St α) (k : Int) (akk : α) (i j : Int) : α :=
  if k < j then s.rd i j - (scalarop_conj (s.rd j k) / akk) * s.rd i k else s.rd i j

theorem ge1_update_spec {n : Int} {s : St α} {k : Int} {akk : α} (hs : Sized n s) (hk : 0 ≤ k) (hkn : k < n) :
    Sized n (ge1_update s k akk (n - k - 1)) ∧
    ∀ i j, 0 ≤ j → j ≤ i → i < n → (ge1_update s k akk (n - k - 1)).rd i j = upd1 s k akk i j := by
  unfold ge1_update
  have outer := foldl_range_inv' (fun (jj : Int) (s' : St α) => Sized n s' ∧ ∀ i j, 0 ≤ j → j ≤ i → i < n →
      s'.rd i j = if k < j ∧ j < k + 1 + jj then upd1 s k akk i j else s.rd i j)
    (fun (s' : St α) (jj : Int) =>
      (intRange 0 (n - k - 1 - jj)).foldl (fun (s'' : St α) (t : Int) =>
        ((s''.get (k + 1 + jj + t) k).2.get (jj + k + 1 + t) (jj + k + 1)).2.wr (jj + k + 1 + t) (jj + k + 1)
          (((s''.get (k + 1 + jj + t) k).2.get (jj + k + 1 + t) (jj + k + 1)).1 - (scalarop_conj (s'.get (k + 1 + jj) k).1 / akk) * (s''.get (k + 1 + jj + t) k).1))
        (s'.get (k + 1 + jj) k).2)
    0 (n - k - 1) s (by omega) ⟨hs, fun i j h1 h2 h3 => by rw [if_neg (by omega)]⟩
    (fun jj s' hj0 hj1 hP => by
      obtain ⟨hsz, hrd⟩ := hP
      have inner := foldl_range_inv' (fun (t : Int) (s'' : St α) => Sized n s'' ∧ ∀ i j, 0 ≤ j → j ≤ i → i < n →
          s''.rd i j = if (k < j ∧ j < k + 1 + jj) ∨ (j = k + 1 + jj ∧ i < k + 1 + jj + t) then upd1 s k akk i j else s.rd i j)
        (fun (s'' : St α) (t : Int) =>
          ((s''.get (k + 1 + jj + t) k).2.get (jj + k + 1 + t) (jj + k + 1)).2.wr (jj + k + 1 + t) (jj + k + 1)
            (((s''.get (k + 1 + jj + t) k).2.get (jj + k + 1 + t) (jj + k + 1)).1 - (scalarop_conj (s'.get (k + 1 + jj) k).1 / akk) * (s''.get (k + 1 + jj + t) k).1))
        0 (n - k - 1 - jj) (s'.get (k + 1 + jj) k).2 (by omega)
        ⟨hsz, fun i j h1 h2 h3 => by
          rw [rd_get, hrd i j h1 h2 h3]
          by_cases c : k < j ∧ j < k + 1 + jj
          · rw [if_pos c, if_pos (Or.inl c)]
          · rw [if_neg c, if_neg (by omega)]⟩
        (fun t s'' ht0 ht1 hQ => by
          obtain ⟨hsz2, hrd2⟩ := hQ
          refine ⟨sized_wr hsz2, fun i j h1 h2 h3 => ?_⟩
          rw [rd_wr (n := n) (sized_get (sized_get hsz2)) ⟨by omega, by omega, by omega⟩ ⟨h1, h2, h3⟩]
          simp only [rd_get, get_fst]
          by_cases c : i = jj + k + 1 + t ∧ j = jj + k + 1
          · obtain ⟨rfl, rfl⟩ := c
            rw [if_pos ⟨rfl, rfl⟩, if_pos (Or.inr ⟨by ring, by omega⟩)]
            rw [hrd2 _ _ (by omega) (by omega) (by omega), if_neg (by omega)]
            rw [hrd2 _ _ hk (by omega) (by omega), if_neg (by omega)]
            rw [hrd _ _ hk (by omega) (by omega), if_neg (by omega)]
            unfold upd1
            rw [if_pos (by omega)]
            have e1 : k + 1 + jj = jj + k + 1 := by ring
            have e2 : k + 1 + jj + t = jj + k + 1 + t := by ring
            simp only [e1, e2]
          · rw [if_neg c, hrd2 i j h1 h2 h3]
            by_cases c2 : (k < j ∧ j < k + 1 + jj) ∨ (j = k + 1 + jj ∧ i < k + 1 + jj + t)
            · rw [if_pos c2, if_pos (by omega)]
            · rw [if_neg c2, if_neg (by omega)])
      refine ⟨inner.1, fun i j h1 h2 h3 => ?_⟩
      rw [inner.2 i j h1 h2 h3]
      by_cases c : k < j ∧ j < k + 1 + (jj + 1)
      · rw [if_pos c, if_pos (by omega)]
      · rw [if_neg c, if_neg (by omega)])
  refine ⟨outer.1, fun i j h1 h2 h3 => ?_⟩
  rw [outer.2 i j h1 h2 h3]
  by_cases c : k < j
  · rw [if_pos (by omega)]
  · rw [if_neg (by omega)]; unfold upd1; rw [if_neg c]

theorem ge1_scale_spec {n : Int} {s : St α} {k : Int} {akk : α} (hs : Sized n s) (hk : 0 ≤ k) (hkn : k < n) :
    Sized n (ge1_scale s k akk (n - k - 1)) ∧
    ∀ i j, 0 ≤ j → j ≤ i → i < n → (ge1_scale s k akk (n - k - 1)).rd i j = if j = k ∧ k < i then s.rd i k / akk else s.rd i j := by
  unfold ge1_scale
  have inv := foldl_range_inv' (fun (t : Int) (s' : St α) => Sized n s' ∧ ∀ i j, 0 ≤ j → j ≤ i → i < n →
      s'.rd i j = if j = k ∧ k < i ∧ i < k + 1 + t then s.rd i k / akk else s.rd i j)
    (fun (s' : St α) (t : Int) => (s'.get (k + 1 + t) k).2.wr (k + 1 + t) k ((s'.get (k + 1 + t) k).1 / akk))
    0 (n - k - 1) s (by omega) ⟨hs, fun i j h1 h2 h3 => by rw [if_neg (by omega)]⟩
    (fun t s' ht0 ht1 hP => by
      obtain ⟨hsz, hrd⟩ := hP
      refine ⟨sized_wr hsz, fun i j h1 h2 h3 => ?_⟩
      rw [rd_wr (n := n) (sized_get hsz) ⟨hk, by omega, by omega⟩ ⟨h1, h2, h3⟩]
      simp only [rd_get, get_fst]
      by_cases c : i = k + 1 + t ∧ j = k
      · obtain ⟨rfl, rfl⟩ := c
        rw [if_pos ⟨rfl, rfl⟩, if_pos ⟨rfl, by omega, by omega⟩, hrd _ _ hk (by omega) (by omega), if_neg (by omega)]
      · rw [if_neg c, hrd i j h1 h2 h3]
        by_cases c2 : j = k ∧ k < i ∧ i < k + 1 + t
        · rw [if_pos c2, if_pos (by omega)]
        · rw [if_neg c2, if_neg (by omega)])
  refine ⟨inv.1, fun i j h1 h2 h3 => ?_⟩
  rw [inv.2 i j h1 h2 h3]
  by_cases c : j = k ∧ k < i
  · rw [if_pos c, if_pos (by omega)]
  · rw [if_neg c, if_neg (by omega)]

/-- One 1x1 elimination step of the model, entry by entry (any scalar type): the multipliers `l_i = A(i,k)/a_kk` are stored in
    column `k`, every entry right of column `k` receives `A(i,j) − (A(j,k)/a_kk)·A(i,k)`, everything else is untouched. -/
theorem elim1_model {n : Int} {s : St α} {k : Int} (hs : Sized n s) (hk : 0 ≤ k) (hkn : k < n)
    (hst : ge1_status (s.rd k k) = Successful) :
    (gaussian_elimination_1x1 s k).1 = Successful ∧
    ∀ i j, 0 ≤ j → j ≤ i → i < n → (gaussian_elimination_1x1 s k).2.rd i j =
      if j = k ∧ k < i then s.rd i k / s.rd k k
      else if k < j then s.rd i j - (s.rd j k / s.rd k k) * s.rd i k
      else s.rd i j := by
  have hkk : 0 ≤ k ∧ k ≤ k ∧ k < n := ⟨hk, le_refl _, hkn⟩
  have hs1 : Sized n ((s.get k k).2.wr k k (s.rd k k)) := sized_wr (sized_get hs)
  have hr1 : ∀ i j, 0 ≤ j → j ≤ i → i < n → ((s.get k k).2.wr k k (s.rd k k)).rd i j = s.rd i j := by
    intro i j h1 h2 h3
    rw [rd_wr (n := n) (sized_get hs) hkk ⟨h1, h2, h3⟩]
    by_cases c : i = k ∧ j = k
    · obtain ⟨rfl, rfl⟩ := c; simp
    · rw [if_neg c]; rfl
  unfold gaussian_elimination_1x1
  simp only [get_fst, scalarop_real, hst, ne_eq, not_true_eq_false, if_false]
  refine ⟨trivial, fun i j h1 h2 h3 => ?_⟩
  have hn1 : ((s.get k k).2.wr k k (s.rd k k)).n = n := hs1.1
  rw [hn1]
  have hu := ge1_update_spec (akk := s.rd k k) hs1 hk hkn
  have hsc := ge1_scale_spec (akk := s.rd k k) hu.1 hk hkn
  rw [hsc.2 i j h1 h2 h3]
  by_cases c : j = k ∧ k < i
  · obtain ⟨rfl, hc⟩ := c
    rw [if_pos ⟨rfl, hc⟩, if_pos ⟨rfl, hc⟩, hu.2 i j h1 h2 h3]
    unfold upd1; rw [if_neg (by omega), hr1 i j h1 h2 h3]
  · rw [if_neg c, if_neg c, hu.2 i j h1 h2 h3]
    unfold upd1
    by_cases c2 : k < j
    · rw [if_pos c2, if_pos c2, hr1 i j h1 h2 h3, hr1 j k hk (by omega) (by omega), hr1 i k hk (by omega) h3]; rfl
    · rw [if_neg c2, if_neg c2, hr1 i j h1 h2 h3]

/-! ### 2x2 step -/
theorem getD_push (x : Array α) (a : α) (u : Nat) : (x.push a).getD u zero = if u < x.size then x.getD u zero else if u = x.size then a else zero := by
  simp only [Array.getD_eq_getD_getElem?, Array.getElem?_push]
  by_cases h1 : u < x.size
  · have : u ≠ x.size := by omega
    simp [h1, this]
  · by_cases h2 : u = x.size
    · simp [h2]
    · have : ¬ u < x.size := h1
      simp [h1, h2]

/-- `X = l·E⁻¹` row by row -/
theorem ge2_X_spec {n : Int} {s : St α} {k : Int} {e11 e21 e22 : α} (hk : 0 ≤ k) (ldim : Int) (hl : 0 ≤ ldim) :
    (ge2_X s k e11 e21 e22 ldim).2.2.data = s.data ∧ (ge2_X s k e11 e21 e22 ldim).2.2.n = s.n ∧
    ∀ u : Int, 0 ≤ u → u < ldim →
      (ge2_X s k e11 e21 e22 ldim).1.getD u.toNat zero = (solve_left_2x2 e11 e21 e22 (s.rd (k + 2 + u) k) (s.rd (k + 2 + u) (k + 1))).1 ∧
      (ge2_X s k e11 e21 e22 ldim).2.1.getD u.toNat zero = (solve_left_2x2 e11 e21 e22 (s.rd (k + 2 + u) k) (s.rd (k + 2 + u) (k + 1))).2 := by
  unfold ge2_X
  have inv := foldl_range_inv' (fun (t : Int) (acc : Array α × Array α × St α) =>
      acc.2.2.data = s.data ∧ acc.2.2.n = s.n ∧ acc.1.size = t.toNat ∧ acc.2.1.size = t.toNat ∧
      ∀ u : Int, 0 ≤ u → u < t →
        acc.1.getD u.toNat zero = (solve_left_2x2 e11 e21 e22 (s.rd (k + 2 + u) k) (s.rd (k + 2 + u) (k + 1))).1 ∧
        acc.2.1.getD u.toNat zero = (solve_left_2x2 e11 e21 e22 (s.rd (k + 2 + u) k) (s.rd (k + 2 + u) (k + 1))).2)
    (fun (acc : Array α × Array α × St α) (t : Int) =>
      (acc.1.push (solve_left_2x2 e11 e21 e22 (acc.2.2.get (k + 2 + t) k).1 ((acc.2.2.get (k + 2 + t) k).2.get (k + 2 + t) (k + 1)).1).1,
       acc.2.1.push (solve_left_2x2 e11 e21 e22 (acc.2.2.get (k + 2 + t) k).1 ((acc.2.2.get (k + 2 + t) k).2.get (k + 2 + t) (k + 1)).1).2,
       ((acc.2.2.get (k + 2 + t) k).2.get (k + 2 + t) (k + 1)).2))
    0 ldim ((#[] : Array α), (#[] : Array α), s) hl ⟨rfl, rfl, rfl, rfl, fun u h1 h2 => by omega⟩
    (fun t acc ht0 ht1 hP => by
      obtain ⟨x0, x1, s'⟩ := acc
      obtain ⟨hd, hn, hz0, hz1, hv⟩ := hP
      simp only [] at hd hn hz0 hz1 hv
      have hrd : ∀ i j, s'.rd i j = s.rd i j := by intro i j; unfold St.rd; rw [hd, hn]
      refine ⟨hd, hn, by simp [hz0]; omega, by simp [hz1]; omega, fun u hu0 hu1 => ?_⟩
      simp only [get_fst, rd_get, hrd]
      rw [getD_push, getD_push, hz0, hz1]
      by_cases c : u < t
      · rw [if_pos (by omega), if_pos (by omega)]; exact hv u hu0 c
      · have e : u = t := by omega
        subst e
        rw [if_neg (by omega), if_pos rfl, if_neg (by omega), if_pos rfl]
        exact ⟨rfl, rfl⟩)
  exact ⟨inv.1, inv.2.1, inv.2.2.2.2⟩

/-- what `ge2_update` stores -/
def upd2 (s : St α) (k : Int) (x0 x1 : Array α) (i j : Int) : α :=
  if k + 1 < j then s.rd i j - (x0.getD (i - k - 2).toNat zero * scalarop_conj (s.rd j k) + x1.getD (i - k - 2).toNat zero * scalarop_conj (s.rd j (k + 1)))
  else s.rd i j

theorem ge2_update_spec {n : Int} {s : St α} {k : Int} {x0 x1 : Array α} (hs : Sized n s) (hk : 0 ≤ k) (hkn : k + 1 < n) :
    Sized n (ge2_update s k (n - k - 2) x0 x1) ∧
    ∀ i j, 0 ≤ j → j ≤ i → i < n → (ge2_update s k (n - k - 2) x0 x1).rd i j = upd2 s k x0 x1 i j := by
  unfold ge2_update
  have outer := foldl_range_inv' (fun (jj : Int) (s' : St α) => Sized n s' ∧ ∀ i j, 0 ≤ j → j ≤ i → i < n →
      s'.rd i j = if k + 1 < j ∧ j < k + 2 + jj then upd2 s k x0 x1 i j else s.rd i j)
    (fun (s' : St α) (jj : Int) =>
      (intRange 0 (n - k - 2 - jj)).foldl (fun (s'' : St α) (t : Int) =>
        (s''.get (jj + k + 2 + t) (jj + k + 2)).2.wr (jj + k + 2 + t) (jj + k + 2)
          ((s''.get (jj + k + 2 + t) (jj + k + 2)).1 -
            (x0.getD (jj + t).toNat zero * scalarop_conj (s'.get (k + 2 + jj) k).1 +
             x1.getD (jj + t).toNat zero * scalarop_conj ((s'.get (k + 2 + jj) k).2.get (k + 2 + jj) (k + 1)).1)))
        ((s'.get (k + 2 + jj) k).2.get (k + 2 + jj) (k + 1)).2)
    0 (n - k - 2) s (by omega) ⟨hs, fun i j h1 h2 h3 => by rw [if_neg (by omega)]⟩
    (fun jj s' hj0 hj1 hP => by
      obtain ⟨hsz, hrd⟩ := hP
      have inner := foldl_range_inv' (fun (t : Int) (s'' : St α) => Sized n s'' ∧ ∀ i j, 0 ≤ j → j ≤ i → i < n →
          s''.rd i j = if (k + 1 < j ∧ j < k + 2 + jj) ∨ (j = k + 2 + jj ∧ i < k + 2 + jj + t) then upd2 s k x0 x1 i j else s.rd i j)
        (fun (s'' : St α) (t : Int) =>
          (s''.get (jj + k + 2 + t) (jj + k + 2)).2.wr (jj + k + 2 + t) (jj + k + 2)
            ((s''.get (jj + k + 2 + t) (jj + k + 2)).1 -
              (x0.getD (jj + t).toNat zero * scalarop_conj (s'.get (k + 2 + jj) k).1 +
               x1.getD (jj + t).toNat zero * scalarop_conj ((s'.get (k + 2 + jj) k).2.get (k + 2 + jj) (k + 1)).1)))
        0 (n - k - 2 - jj) ((s'.get (k + 2 + jj) k).2.get (k + 2 + jj) (k + 1)).2 (by omega)
        ⟨hsz, fun i j h1 h2 h3 => by
          rw [rd_get, rd_get, hrd i j h1 h2 h3]
          by_cases c : k + 1 < j ∧ j < k + 2 + jj
          · rw [if_pos c, if_pos (Or.inl c)]
          · rw [if_neg c, if_neg (by omega)]⟩
        (fun t s'' ht0 ht1 hQ => by
          obtain ⟨hsz2, hrd2⟩ := hQ
          refine ⟨sized_wr hsz2, fun i j h1 h2 h3 => ?_⟩
          rw [rd_wr (n := n) (sized_get hsz2) ⟨by omega, by omega, by omega⟩ ⟨h1, h2, h3⟩]
          simp only [rd_get, get_fst]
          by_cases c : i = jj + k + 2 + t ∧ j = jj + k + 2
          · obtain ⟨rfl, rfl⟩ := c
            rw [if_pos ⟨rfl, rfl⟩, if_pos (Or.inr ⟨by ring, by omega⟩)]
            rw [hrd2 _ _ (by omega) (by omega) (by omega), if_neg (by omega)]
            rw [hrd _ _ hk (by omega) (by omega), if_neg (by omega)]
            rw [hrd _ _ (by omega) (by omega) (by omega), if_neg (by omega)]
            unfold upd2
            rw [if_pos (by omega)]
            have e1 : k + 2 + jj = jj + k + 2 := by ring
            have e2 : (jj + k + 2 + t - k - 2) = jj + t := by ring
            simp only [e1, e2]
          · rw [if_neg c, hrd2 i j h1 h2 h3]
            by_cases c2 : (k + 1 < j ∧ j < k + 2 + jj) ∨ (j = k + 2 + jj ∧ i < k + 2 + jj + t)
            · rw [if_pos c2, if_pos (by omega)]
            · rw [if_neg c2, if_neg (by omega)])
      refine ⟨inner.1, fun i j h1 h2 h3 => ?_⟩
      rw [inner.2 i j h1 h2 h3]
      by_cases c : k + 1 < j ∧ j < k + 2 + (jj + 1)
      · rw [if_pos c, if_pos (by omega)]
      · rw [if_neg c, if_neg (by omega)])
  refine ⟨outer.1, fun i j h1 h2 h3 => ?_⟩
  rw [outer.2 i j h1 h2 h3]
  by_cases c : k + 1 < j
  · rw [if_pos (by omega)]
  · rw [if_neg (by omega)]; unfold upd2; rw [if_neg c]

theorem ge2_store_spec {n : Int} {s : St α} {k : Int} {x0 x1 : Array α} (hs : Sized n s) (hk : 0 ≤ k) (hkn : k + 1 < n) :
    Sized n (ge2_store s k (n - k - 2) x0 x1) ∧
    ∀ i j, 0 ≤ j → j ≤ i → i < n → (ge2_store s k (n - k - 2) x0 x1).rd i j =
      if j = k ∧ k + 2 ≤ i then x0.getD (i - k - 2).toNat zero
      else if j = k + 1 ∧ k + 2 ≤ i then x1.getD (i - k - 2).toNat zero else s.rd i j := by
  unfold ge2_store
  have f1 := foldl_range_inv' (fun (t : Int) (s' : St α) => Sized n s' ∧ ∀ i j, 0 ≤ j → j ≤ i → i < n →
      s'.rd i j = if j = k ∧ k + 2 ≤ i ∧ i < k + 2 + t then x0.getD (i - k - 2).toNat zero else s.rd i j)
    (fun (s' : St α) (t : Int) => s'.wr (k + 2 + t) k (x0.getD t.toNat zero))
    0 (n - k - 2) s (by omega) ⟨hs, fun i j h1 h2 h3 => by rw [if_neg (by omega)]⟩
    (fun t s' ht0 ht1 hP => by
      obtain ⟨hsz, hrd⟩ := hP
      refine ⟨sized_wr hsz, fun i j h1 h2 h3 => ?_⟩
      rw [rd_wr (n := n) hsz ⟨hk, by omega, by omega⟩ ⟨h1, h2, h3⟩]
      by_cases c : i = k + 2 + t ∧ j = k
      · obtain ⟨rfl, rfl⟩ := c
        rw [if_pos ⟨rfl, rfl⟩, if_pos ⟨rfl, by omega, by omega⟩]
        congr 2; ring
      · rw [if_neg c, hrd i j h1 h2 h3]
        by_cases c2 : j = k ∧ k + 2 ≤ i ∧ i < k + 2 + t
        · rw [if_pos c2, if_pos (by omega)]
        · rw [if_neg c2, if_neg (by omega)])
  have f2 := foldl_range_inv' (fun (t : Int) (s' : St α) => Sized n s' ∧ ∀ i j, 0 ≤ j → j ≤ i → i < n →
      s'.rd i j = if j = k + 1 ∧ k + 2 ≤ i ∧ i < k + 2 + t then x1.getD (i - k - 2).toNat zero
        else ((intRange 0 (n - k - 2)).foldl (fun (s' : St α) (t : Int) => s'.wr (k + 2 + t) k (x0.getD t.toNat zero)) s).rd i j)
    (fun (s' : St α) (t : Int) => s'.wr (k + 2 + t) (k + 1) (x1.getD t.toNat zero))
    0 (n - k - 2) _ (by omega) ⟨f1.1, fun i j h1 h2 h3 => by rw [if_neg (by omega)]⟩
    (fun t s' ht0 ht1 hP => by
      obtain ⟨hsz, hrd⟩ := hP
      refine ⟨sized_wr hsz, fun i j h1 h2 h3 => ?_⟩
      rw [rd_wr (n := n) hsz ⟨by omega, by omega, by omega⟩ ⟨h1, h2, h3⟩]
      by_cases c : i = k + 2 + t ∧ j = k + 1
      · obtain ⟨rfl, rfl⟩ := c
        rw [if_pos ⟨rfl, rfl⟩, if_pos ⟨rfl, by omega, by omega⟩]
        congr 2; ring
      · rw [if_neg c, hrd i j h1 h2 h3]
        by_cases c2 : j = k + 1 ∧ k + 2 ≤ i ∧ i < k + 2 + t
        · rw [if_pos c2, if_pos (by omega)]
        · rw [if_neg c2, if_neg (by omega)])
  refine ⟨f2.1, fun i j h1 h2 h3 => ?_⟩
  rw [f2.2 i j h1 h2 h3, f1.2 i j h1 h2 h3]
  by_cases c : j = k ∧ k + 2 ≤ i
  · rw [if_pos c, if_neg (by omega), if_pos (by omega)]
  · rw [if_neg c]
    by_cases c2 : j = k + 1 ∧ k + 2 ≤ i
    · rw [if_pos c2, if_pos (by omega)]
    · rw [if_neg c2, if_neg (by omega), if_neg (by omega)]

theorem rd_congr {s s' : St α} (hd : s'.data = s.data) (hn : s'.n = s.n) (i j : Int) : s'.rd i j = s.rd i j := by
  unfold St.rd; rw [hd, hn]

/-- One 2x2 elimination step of the model, entry by entry (any scalar type): with `X(i) = (A(i,k), A(i,k+1))·E⁻¹` as `solve_left_2x2`
    returns it, rows `i ≥ k+2` of columns `k, k+1` receive `X(i)`, every entry right of column `k+1` receives
    `A(i,j) − (X(i)₁·A(j,k) + X(i)₂·A(j,k+1))`, everything else is untouched. -/
theorem elim2_model {n : Int} {s : St α} {k : Int} (hs : Sized n s) (hk : 0 ≤ k) (hkn : k + 1 < n)
    (hst : ge2_status (s.rd k k) (s.rd (k + 1) k) (s.rd (k + 1) (k + 1)) = Successful) :
    (gaussian_elimination_2x2 s k).1 = Successful ∧
    ∀ i j, 0 ≤ j → j ≤ i → i < n → (gaussian_elimination_2x2 s k).2.rd i j =
      if j = k ∧ k + 2 ≤ i then (solve_left_2x2 (s.rd k k) (s.rd (k + 1) k) (s.rd (k + 1) (k + 1)) (s.rd i k) (s.rd i (k + 1))).1
      else if j = k + 1 ∧ k + 2 ≤ i then (solve_left_2x2 (s.rd k k) (s.rd (k + 1) k) (s.rd (k + 1) (k + 1)) (s.rd i k) (s.rd i (k + 1))).2
      else if k + 1 < j then s.rd i j -
        ((solve_left_2x2 (s.rd k k) (s.rd (k + 1) k) (s.rd (k + 1) (k + 1)) (s.rd i k) (s.rd i (k + 1))).1 * s.rd j k +
         (solve_left_2x2 (s.rd k k) (s.rd (k + 1) k) (s.rd (k + 1) (k + 1)) (s.rd i k) (s.rd i (k + 1))).2 * s.rd j (k + 1))
      else s.rd i j := by
  have hkk : 0 ≤ k ∧ k ≤ k ∧ k < n := ⟨hk, le_refl _, by omega⟩
  have hk1 : 0 ≤ k + 1 ∧ k + 1 ≤ k + 1 ∧ k + 1 < n := ⟨by omega, le_refl _, hkn⟩
  have hs3 : Sized n (((s.get k k).2.get (k + 1) (k + 1)).2.wr k k (s.rd k k)) := sized_wr (sized_get (sized_get hs))
  have hs4 : Sized n ((((s.get k k).2.get (k + 1) (k + 1)).2.wr k k (s.rd k k)).wr (k + 1) (k + 1) (s.rd (k + 1) (k + 1))) := sized_wr hs3
  have hr4 : ∀ i j, 0 ≤ j → j ≤ i → i < n →
      ((((s.get k k).2.get (k + 1) (k + 1)).2.wr k k (s.rd k k)).wr (k + 1) (k + 1) (s.rd (k + 1) (k + 1))).rd i j = s.rd i j := by
    intro i j h1 h2 h3
    rw [rd_wr (n := n) hs3 hk1 ⟨h1, h2, h3⟩, rd_wr (n := n) (sized_get (sized_get hs)) hkk ⟨h1, h2, h3⟩]
    by_cases c : i = k + 1 ∧ j = k + 1
    · obtain ⟨rfl, rfl⟩ := c; simp
    · rw [if_neg c]
      by_cases c2 : i = k ∧ j = k
      · obtain ⟨rfl, rfl⟩ := c2; simp
      · rw [if_neg c2]; rfl
  unfold gaussian_elimination_2x2
  simp only [get_fst, rd_get, scalarop_real]
  have he21 := hr4 (k + 1) k hk (by omega) hkn
  simp only [he21, hst, ne_eq, not_true_eq_false, if_false]
  refine ⟨trivial, fun i j h1 h2 h3 => ?_⟩
  have hs5' : Sized n (((((s.get k k).2.get (k + 1) (k + 1)).2.wr k k (s.rd k k)).wr (k + 1) (k + 1) (s.rd (k + 1) (k + 1))).get (k + 1) k).2 := sized_get hs4
  have hr5' : ∀ i j, 0 ≤ j → j ≤ i → i < n →
      (((((s.get k k).2.get (k + 1) (k + 1)).2.wr k k (s.rd k k)).wr (k + 1) (k + 1) (s.rd (k + 1) (k + 1))).get (k + 1) k).2.rd i j = s.rd i j := by
    intro i j a b c; rw [rd_get]; exact hr4 i j a b c
  generalize (((((s.get k k).2.get (k + 1) (k + 1)).2.wr k k (s.rd k k)).wr (k + 1) (k + 1) (s.rd (k + 1) (k + 1))).get (k + 1) k).2 = s5 at hs5' hr5' ⊢
  rw [hs5'.1]
  have hX := ge2_X_spec (n := n) (s := s5) (e11 := s.rd k k) (e21 := s.rd (k + 1) k) (e22 := s.rd (k + 1) (k + 1)) hk (n - k - 2) (by omega)
  generalize ge2_X s5 k (s.rd k k) (s.rd (k + 1) k) (s.rd (k + 1) (k + 1)) (n - k - 2) = X at hX ⊢
  obtain ⟨x0, x1, s6⟩ := X
  simp only [] at hX ⊢
  obtain ⟨hd6, hn6, hxv⟩ := hX
  have hs6 : Sized n s6 := ⟨by rw [hn6]; exact hs5'.1, by rw [hd6]; exact hs5'.2⟩
  have hr6 : ∀ i j, 0 ≤ j → j ≤ i → i < n → s6.rd i j = s.rd i j := by
    intro i j a b c
    rw [rd_congr hd6 hn6, hr5' i j a b c]
  have hu := ge2_update_spec (x0 := x0) (x1 := x1) hs6 hk hkn
  have hstore := ge2_store_spec (x0 := x0) (x1 := x1) hu.1 hk hkn
  rw [hstore.2 i j h1 h2 h3]
  have hx : ∀ i, k + 2 ≤ i → i < n →
      x0.getD (i - k - 2).toNat zero = (solve_left_2x2 (s.rd k k) (s.rd (k + 1) k) (s.rd (k + 1) (k + 1)) (s.rd i k) (s.rd i (k + 1))).1 ∧
      x1.getD (i - k - 2).toNat zero = (solve_left_2x2 (s.rd k k) (s.rd (k + 1) k) (s.rd (k + 1) (k + 1)) (s.rd i k) (s.rd i (k + 1))).2 := by
    intro i a b
    have := hxv (i - k - 2) (by omega) (by omega)
    have e : k + 2 + (i - k - 2) = i := by ring
    rw [e, hr5' i k hk (by omega) b, hr5' i (k + 1) (by omega) (by omega) b] at this
    exact this
  by_cases c : j = k ∧ k + 2 ≤ i
  · rw [if_pos c, if_pos c]; exact (hx i c.2 h3).1
  · rw [if_neg c, if_neg c]
    by_cases c2 : j = k + 1 ∧ k + 2 ≤ i
    · rw [if_pos c2, if_pos c2]; exact (hx i c2.2 h3).2
    · rw [if_neg c2, if_neg c2, hu.2 i j h1 h2 h3]
      unfold upd2
      by_cases c3 : k + 1 < j
      · rw [if_pos c3, if_pos c3, (hx i (by omega) h3).1, (hx i (by omega) h3).2,
          hr6 i j h1 h2 h3, hr6 j k hk (by omega) (by omega), hr6 j (k + 1) (by omega) (by omega) (by omega)]
        rfl
      · rw [if_neg c3, if_neg c3, hr6 i j h1 h2 h3]

theorem initSt_sized (n : Int) : Sized n (initSt (α := α) n) := ⟨rfl, by simp [initSt]⟩

end
end BKLDLT
