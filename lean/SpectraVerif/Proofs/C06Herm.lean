/-
  C06 — from the footprint lemmas to statements about `Orch.init` / `Orch.compute` / histories on the numeric kernel record of the
  symmetric family: the constants of the factorization object are invariant along every history, and on objects carrying the
  constructor's constants `Orch.init` with the pinned kernel `hermKernC` is `Orch.init` with `hermKern`.
-/
import SpectraVerif.Proofs.C06Footprint

namespace C06Footprint
open Orch Lin Arnoldi

section
variable {α : Type} [Add α] [Sub α] [Mul α] [Div α] [Neg α] [Sc α]
set_option linter.unusedSectionVars false
variable (op : Arnoldi.Op α) (c : Orch.Cfg) (eps23 : α) (back : α → α) (near0 eps : α)

/-- state of a solver object of the symmetric family -/
abbrev HSt (α : Type) := St (State α) α α (Vec α)

/-- the object carries the constants its constructor installed (`m_n`, `m_m`, `m_near_0`, `m_eps` are `const` members) -/
def Wf (s : HSt α) : Prop := consts s.fac = (c.n, c.ncv, near0, eps)

theorem construct_wf : Wf c near0 eps (construct (State.mk0 c.n c.ncv near0 eps) : HSt α) := rfl

theorem simSt_refl {s : HSt α} (h : Wf c near0 eps s) : SimSt (Live c.n c.ncv near0 eps) s s :=
  ⟨Live.refl h, rfl, rfl, rfl, rfl, rfl, rfl⟩

theorem init_wf (v0 : Vec α) {s : HSt α} (h : Wf c near0 eps s) :
    Wf c near0 eps (init (HermSolver.hermKern op c eps23 back) c v0 s).1 := by
  show consts ((HermSolver.hermKern op c eps23 back).facInit v0 s.fac).fac = _
  simp only [HermSolver.hermKern]
  cases hi : Arnoldi.init op { s.fac with ops := 0 } v0 with
  | none => exact h
  | some s' => exact (init_consts op v0 _ s' hi).trans h

theorem compute_wf (sel : Int) (maxit : Nat) (tol : α) (sorting : Int) {s : HSt α} (h : Wf c near0 eps s) :
    Wf c near0 eps (compute (HermSolver.hermKern op c eps23 back) c sel maxit tol sorting s).st := by
  have hs := (compute_sim (hermKernC op c eps23 back near0 eps) c (herm_respects op c eps23 back near0 eps)
    sel maxit tol sorting s s (simSt_refl c near0 eps h)).1.fac
  rw [hermKernC, compute_wfi] at hs
  exact hs.1

theorem step_wf (call : Call (Vec α) α) {s : HSt α} (h : Wf c near0 eps s) :
    Wf c near0 eps (step (HermSolver.hermKern op c eps23 back) c s call) := by
  cases call with
  | init v0 => exact init_wf op c eps23 back near0 eps v0 h
  | compute sel maxit tol sorting => exact compute_wf op c eps23 back near0 eps sel maxit tol sorting h

/-- the constants survive every history (runs that did not converge, runs that threw, anything) -/
theorem run_wf (hist : List (Call (Vec α) α)) : ∀ {s : HSt α}, Wf c near0 eps s →
    Wf c near0 eps (run (HermSolver.hermKern op c eps23 back) c s hist) := by
  induction hist with
  | nil => intro s h; exact h
  | cons call hist ih => intro s h; exact ih (step_wf op c eps23 back near0 eps call h)

/-- on a well-formed object `init` with the pinned kernel is `init` with `hermKern`: same exception, and the same new object
    whenever the start vector is accepted -/
theorem init_bridge (v0 : Vec α) {s : HSt α} (h : Wf c near0 eps s) :
    (init (hermKernC op c eps23 back near0 eps) c v0 s).2 = (init (HermSolver.hermKern op c eps23 back) c v0 s).2 ∧
    ((init (HermSolver.hermKern op c eps23 back) c v0 s).2 = none →
      (init (hermKernC op c eps23 back near0 eps) c v0 s).1 = (init (HermSolver.hermKern op c eps23 back) c v0 s).1) := by
  obtain ⟨h1, h2, h3⟩ := hermKernC_facInit_eq op c eps23 back near0 eps v0 s.fac h
  refine ⟨h1, ?_⟩
  intro hn
  have h3' := h3 hn
  unfold Orch.init
  simp only [h2, h3']
  rfl

end
end C06Footprint
